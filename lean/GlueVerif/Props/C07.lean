import GlueVerif.Lemmas.C07Refine
import GlueVerif.Lemmas.C07Spec
import GlueVerif.Lemmas.C07Targets
/-!
# C07 — the hub delivers each message exactly once, in order, to the right listeners

Property theorems only; helper lemmas live in `GlueVerif.Lemmas.C07*`.  All statements are about
the executable definitions of `GlueVerif.Model.C07Hub` that the driver `Drivers/C07.lean` runs
against the real `glue.core.hub.Hub` on every check:

* `Spec.*` — what the property demands: delayed mode (`Spec.held`) cannot call a handler at all and
  only collects messages; closing the outermost block re-broadcasts them; the ignore set is
  lexically scoped; the only state is the subscription table.
* `Impl.*` — `hub.py` as repaired by `props.d/C07/fixes/F1-nested-delay.diff`
  (`_paused`, `_delay_depth`, `_queue`, the `Counter` of ignored types).
* `Old.*`  — `hub.py` of the pinned tree (Boolean `_paused`, flush of the live list at *every*
  block exit): only used for the `decide`d witnesses at the end.

Programs and handler bodies range over `Op` (broadcast, delay block, ignore block, try/except,
subscribe, unsubscribe, unsubscribe_all, listener death, marker, raise) with arbitrary nesting;
`fuel` bounds the number of interpreter steps and every theorem holds for every fuel (`Res.fuel`
is an outcome like any other, so nothing is claimed by default when fuel runs out).
-/
namespace GlueVerif.C07
open GlueVerif.C07Hub

/-! ## 1. The repaired code refines the specification — all programs, all handler tables -/

/-- **Refinement, general form.**  From any idle hub state (`_paused = False`, `_delay_depth = 0`,
empty `_queue`, ignore counter = the enclosing ignore blocks `ign`), at any handler nesting level,
running any program `ops` with any handler table on the repaired code produces exactly the events,
the outcome and the subscription table the specification prescribes — and leaves the hub idle
again (so the statement composes). -/
theorem impl_refines_spec_from (hs : Handlers) (fuel lvl : Nat) (ign : List Cls) (st : Impl.St)
    (ops : List Op) (hign : ∀ c, st.ignore.get c = ign.count c) (hp : st.paused = false)
    (hd : st.depth = 0) (hq : st.queue = []) :
    let oi := Impl.exec hs fuel lvl st ops
    let os := Spec.live hs fuel lvl ign st.subs ops
    oi.2.1 = os.2.1 ∧ oi.2.2 = os.2.2 ∧ oi.1.subs = os.1 ∧
      (∀ c, oi.1.ignore.get c = ign.count c) ∧ oi.1.paused = false ∧ oi.1.depth = 0 ∧
      oi.1.queue = [] := by
  obtain ⟨h1, h2, h3, h4⟩ := (Lemmas.live_sim hs fuel).1 lvl ign st ops ⟨hign, hp, hd, hq⟩
  exact ⟨h1, h2, h3, h4.ign, h4.paused, h4.depth, h4.queue⟩

/-- **Refinement** (`execImpl prog = execSpec prog` for ALL programs — nested delay blocks,
handlers that broadcast, open delay blocks, subscribe, unsubscribe or raise, exceptions inside
blocks; no `NoNestedDelay` hypothesis): on a fresh hub the repaired code and the specification
produce the same event log, the same outcome and the same subscription table. -/
theorem impl_refines_spec (hs : Handlers) (fuel : Nat) (prog : List Op) :
    (Impl.run hs fuel prog).2 = (Spec.run hs fuel prog).2 ∧
      (Impl.run hs fuel prog).1.subs = (Spec.run hs fuel prog).1 := by
  obtain ⟨h1, h2, h3, _⟩ := (Lemmas.live_sim hs fuel).1 0 [] {} prog Lemmas.idle_init
  exact ⟨Prod.ext h1 h2, h3⟩

/-- After any program (also one that ended by an exception or ran out of fuel) the repaired hub
is idle: not paused, depth 0, nothing left in the queue, nothing ignored. -/
theorem impl_idle_after (hs : Handlers) (fuel : Nat) (prog : List Op) :
    let st := (Impl.run hs fuel prog).1
    st.paused = false ∧ st.depth = 0 ∧ st.queue = [] ∧ ∀ c, st.ignore.get c = 0 := by
  obtain ⟨_, _, _, h4⟩ := (Lemmas.live_sim hs fuel).1 0 [] {} prog Lemmas.idle_init
  exact ⟨h4.paused, h4.depth, h4.queue, fun c => by have := h4.ign c; simpa [Impl.run] using this⟩

/-- While a delay block is open the repaired code behaves like the delayed mode of the
specification: no handler is called (the events are exactly `Spec.held`'s marks), the queue grows
by exactly the messages `Spec.held` collects, and `_delay_depth`/`_paused` are restored. -/
theorem impl_delayed_refines_held (hs : Handlers) (fuel lvl : Nat) (ign : List Cls) (st : Impl.St)
    (ops : List Op) (hign : ∀ c, st.ignore.get c = ign.count c) (hp : st.paused = true)
    (hd : 0 < st.depth) :
    let oi := Impl.exec hs fuel lvl st ops
    let oh := Spec.held fuel lvl ign st.subs ops
    oi.2.1 = oh.2.1 ∧ oi.2.2 = oh.2.2.2 ∧ oi.1.subs = oh.1 ∧ oi.1.queue = st.queue ++ oh.2.2.1 ∧
      oi.1.paused = true ∧ oi.1.depth = st.depth := by
  obtain ⟨h1, h2, h3, _, h5, h6, h7⟩ := Lemmas.held_sim hs fuel lvl ign st ops hign hp hd
  exact ⟨h1, h2, h3, h7, h5, h6⟩

/-! ## 2. What the specification guarantees -/

/-- **Silent while delayed.**  Whatever a program does while a delay block is open (nested delay
blocks, ignore blocks, exceptions, subscriptions …), no handler is entered or left: the only
events are the program's own markers. -/
theorem spec_silent_while_delayed (fuel lvl : Nat) (ign : List Cls) (subs : Subs) (ops : List Op) :
    ∀ e ∈ (Spec.held fuel lvl ign subs ops).2.1, ∃ n, e = .mark lvl n :=
  Lemmas.held_events fuel lvl ign subs ops

/-- **Queued once, in order.**  The messages waiting for the outermost block to close are a
sub-list of the broadcasts of the block in program order: nothing is invented, duplicated or
re-ordered (what is missing was ignored at broadcast time or never reached). -/
theorem spec_queue_in_order (fuel lvl : Nat) (ign : List Cls) (subs : Subs) (ops : List Op) :
    (Spec.held fuel lvl ign subs ops).2.2.1.Sublist (bcastsOps ops) :=
  Lemmas.held_queue_sublist fuel lvl ign subs ops

/-- Every queued message passed the ignore test in a context at least as restrictive as the one
the outermost block was opened in: with well-nested blocks the ignore test repeated at flush time
(`spec_delay_block`) can never drop a queued message — ignored types are dropped when they are
broadcast. -/
theorem spec_queue_not_ignored (fuel lvl : Nat) (ign : List Cls) (subs : Subs) (ops : List Op) :
    ∀ m ∈ (Spec.held fuel lvl ign subs ops).2.2.1, m.cls ∉ ign :=
  Lemmas.held_queue_not_ignored fuel lvl ign subs ops

/-- **Nothing is lost.**  A block without `raise` and without ignore blocks (arbitrarily nested
delay and try blocks allowed) ends normally and queues exactly its broadcasts, in order. -/
theorem spec_queue_complete (fuel lvl : Nat) (subs : Subs) (ops : List Op)
    (hplain : plainOps ops = true) (hfuel : (Spec.held fuel lvl [] subs ops).2.2.2 ≠ .fuel) :
    (Spec.held fuel lvl [] subs ops).2.2.2 = .ok ∧
      (Spec.held fuel lvl [] subs ops).2.2.1 = bcastsOps ops :=
  Lemmas.held_queue_complete fuel lvl subs ops hplain hfuel

/-- **Flush once, when the outermost block closes — normally or by an exception.**  Executing a
delay block in live mode is: run the body in delayed mode (outcome `h`, possibly `exn`), then
broadcast the queued messages one after the other, live, from the subscription table the body
left (the ignore test is applied again at that moment); an exception of the body is re-raised
after the flush unless the flush itself ended abnormally. -/
theorem spec_delay_block (hs : Handlers) (fuel lvl : Nat) (ign : List Cls) (subs : Subs)
    (body : List Op) :
    let h := Spec.held fuel lvl ign subs body
    let o := Spec.live hs fuel lvl ign h.1 (h.2.2.1.map .bcast)
    Spec.live hs (fuel + 1) lvl ign subs [.delay body] =
      (o.1, h.2.1 ++ o.2.1, h.2.2.2.andThen o.2.2) := by
  have hk : ∀ s : Subs, Spec.live hs fuel lvl ign s [] = (s, [], .ok) := by
    intro s; cases fuel <;> simp [Spec.live]
  simp only [Spec.live, finallyDo, ← Lemmas.flush_eq_live, hk, Lemmas.seq_nil_right]

/-- **Exactly once, to the right listeners, higher priority first.**  A live broadcast of a
message whose class is not ignored, if it ends normally, enters and leaves — at this nesting
level — exactly the handlers of `targets subs m`, once each, in that order (everything else in
the log happens at deeper levels, inside those handlers); see `targets_*` for who they are. -/
theorem spec_exactly_once (hs : Handlers) (fuel lvl : Nat) (ign : List Cls) (subs : Subs) (m : Msg)
    (hnot : ign.contains m.cls = false)
    (hok : (Spec.live hs (fuel + 1) lvl ign subs [.bcast m]).2.2 = .ok) :
    atLevel lvl (Spec.live hs (fuel + 1) lvl ign subs [.bcast m]).2.1 =
      (targets subs m).flatMap fun t => [.enter lvl t.1 m, .exit lvl t.1 m] := by
  have hlive : Spec.live hs (fuel + 1) lvl ign subs [.bcast m] =
      Spec.deliver hs fuel lvl ign subs (targets subs m) m := by
    simp only [Spec.live, hnot, Bool.false_eq_true, if_false, Lemmas.seq_nil_right]
  rw [hlive] at hok ⊢
  exact Lemmas.deliver_atLevel hs _ fuel lvl ign subs m hok

/-- An ignored message type is dropped: no event, no state change. -/
theorem spec_ignored_dropped (hs : Handlers) (fuel lvl : Nat) (ign : List Cls) (subs : Subs)
    (m : Msg) (hign : ign.contains m.cls = true) :
    Spec.live hs (fuel + 1) lvl ign subs [.bcast m] = (subs, [], .ok) := by
  simp only [Spec.live, hign, if_true, Lemmas.seq_ok]

/-- **Nested deliveries happen inside.**  When a handler returns normally, everything it caused —
in particular the complete delivery of every message it broadcast itself
(`spec_exactly_once` one level deeper) — lies between its `enter` and its `exit`, strictly
deeper than them; the next handler starts only afterwards. -/
theorem spec_nested_inside (hs : Handlers) (fuel lvl : Nat) (ign : List Cls) (subs : Subs)
    (t : Target) (ts : List Target) (m : Msg)
    (hok : (Spec.live hs fuel (lvl + 1) ign subs (handlerBody hs t.2)).2.2 = .ok) :
    let body := Spec.live hs fuel (lvl + 1) ign subs (handlerBody hs t.2)
    let rest := Spec.deliver hs fuel lvl ign body.1 ts m
    (Spec.deliver hs (fuel + 1) lvl ign subs (t :: ts) m).2.1 =
        .enter lvl t.1 m :: body.2.1 ++ .exit lvl t.1 m :: rest.2.1 ∧
      ∀ e ∈ body.2.1, lvl < e.lvl := by
  intro body rest
  refine ⟨?_, fun e he => (Lemmas.lvl_ge hs fuel).1 _ _ _ _ e he⟩
  have hb : (bracket lvl t.1 m body).2.2 = .ok := hok
  simp only [Spec.deliver]
  rw [Lemmas.seq_events_ok hb]
  simp [bracket, body, rest, hok]

/-- **Program order.**  Running `a ++ b` is running `a` and then, if it ended normally, `b` from
the table `a` left: all events of `a` precede all events of `b` (so every listener sees
top-level broadcasts in the order they were made). -/
theorem spec_sequential (hs : Handlers) (a b : List Op) (fuel lvl : Nat) (ign : List Cls)
    (subs : Subs) :
    Spec.live hs (a.length + fuel) lvl ign subs (a ++ b) =
      seq (Spec.live hs (a.length + fuel) lvl ign subs a) (fun s => Spec.live hs fuel lvl ign s b) :=
  Lemmas.live_append hs a b fuel lvl ign subs

/-! ## 3. Who the targets are -/

/-- A listener is a target iff it has a subscription to a super-class of the message's class and
the **most specific** such subscription (longest class path; no other subscribed super-class is
deeper) accepts the message with its filter; the handler called is that subscription's. -/
theorem targets_mem (subs : Subs) (m : Msg) (l : Lid) (h : Hid) :
    (l, h) ∈ targets subs m ↔
      ∃ cbs c s, (l, cbs) ∈ subs ∧ bestSub m.cls cbs = some (c, s) ∧ s.filt.accepts m = true ∧
        s.hid = h :=
  Lemmas.mem_targets

theorem bestSub_most_specific (mc : Cls) (cbs : Cbs) (c : Cls) (s : Sub)
    (h : bestSub mc cbs = some (c, s)) :
    (c, s) ∈ cbs ∧ c <+: mc ∧ ∀ e ∈ cbs, e.1 <+: mc → e.1.length ≤ c.length :=
  Lemmas.bestSub_some h

theorem bestSub_none_iff_unsubscribed (mc : Cls) (cbs : Cbs) (h : bestSub mc cbs = none) :
    ∀ e ∈ cbs, ¬ e.1 <+: mc :=
  Lemmas.bestSub_none h

/-- Handlers are called by descending priority; among equal priorities in subscription order
(the sort is a stable rearrangement of the candidates). -/
theorem targets_priority_order (subs : Subs) (m : Msg) :
    targets subs m = (sortPrio (candidates subs m)).map (fun e => (e.1, e.2.hid)) ∧
      (sortPrio (candidates subs m)).Pairwise (fun a b => b.2.prio ≤ a.2.prio) ∧
      (sortPrio (candidates subs m)).Perm (candidates subs m) ∧
      ∀ p : Int, (sortPrio (candidates subs m)).filter (fun e => e.2.prio = p) =
        (candidates subs m).filter (fun e => e.2.prio = p) :=
  ⟨rfl, Lemmas.sortPrio_sorted _, Lemmas.sortPrio_perm _, fun p => Lemmas.sortPrio_stable p _⟩

/-- No listener is a target twice, and the subscription table reachable by any execution keeps
its listeners distinct (so "once per target" is "once per listener"). -/
theorem targets_listeners_distinct (subs : Subs) (m : Msg) (h : (subs.map Prod.fst).Nodup) :
    ((targets subs m).map Prod.fst).Nodup :=
  Lemmas.targets_nodup h m

theorem spec_listeners_stay_distinct (hs : Handlers) (fuel lvl : Nat) (ign : List Cls) (subs : Subs)
    (ops : List Op) (h : (subs.map Prod.fst).Nodup) :
    ((Spec.live hs fuel lvl ign subs ops).1.map Prod.fst).Nodup :=
  (Lemmas.live_inv hs (fun s => (s.map Prod.fst).Nodup) (fun _ op hs' => Lemmas.subsOp_nodup hs' op)
    fuel).1 lvl ign subs ops h

/-! ## 4. Non-vacuity: the statements above speak about non-trivial executions -/

section Examples
def A : Cls := [0]
def B : Cls := [0, 0]   -- B(A)
def C : Cls := [1]

/-- handler 0 does nothing; handler 1 re-broadcasts a `C` message inside a nested delay block and
subscribes listener 2; handler 2 raises. -/
def hsEx : Handlers :=
  [[], [.delay [.delay [.bcast ⟨C, 7⟩], .mark 5], .sub 2 C ⟨0, .all, 0⟩], [.raise]]

/-- two listeners, a subclass subscription (listener 0: `A` low priority and `B` high priority),
an even-tag filter, a handler that broadcasts, nested delay blocks, an ignore block, an exception
inside a delay block -/
def progEx : List Op :=
  [.sub 0 A ⟨0, .all, 1⟩, .sub 0 B ⟨1, .all, 5⟩, .sub 1 A ⟨0, .even, 9⟩, .sub 1 C ⟨0, .all, 0⟩,
   .delay [.bcast ⟨B, 2⟩, .delay [.bcast ⟨A, 3⟩, .ignore C [.bcast ⟨C, 4⟩]], .mark 1],
   .catch [.delay [.bcast ⟨A, 6⟩, .raise, .bcast ⟨A, 8⟩]]]

example : (Spec.run hsEx 40 progEx).2 =
    ([.mark 0 1,
      -- B#2: listener 1 (prio 9, via A, even filter accepts), then listener 0 via B (handler 1)
      .enter 0 1 ⟨B, 2⟩, .exit 0 1 ⟨B, 2⟩,
      .enter 0 0 ⟨B, 2⟩, .mark 1 5, .enter 1 1 ⟨C, 7⟩, .exit 1 1 ⟨C, 7⟩, .exit 0 0 ⟨B, 2⟩,
      -- A#3: odd tag, listener 1's filter rejects; listener 0 via A (handler 0); C#4 was ignored
      .enter 0 0 ⟨A, 3⟩, .exit 0 0 ⟨A, 3⟩,
      -- second block: raise after A#6 was queued; flushed on the way out, A#8 never broadcast
      .enter 0 1 ⟨A, 6⟩, .exit 0 1 ⟨A, 6⟩, .enter 0 0 ⟨A, 6⟩, .exit 0 0 ⟨A, 6⟩], .ok) := by
  decide

example : (Impl.run hsEx 40 progEx).2 = (Spec.run hsEx 40 progEx).2 := by decide

example : targets [(0, [(A, ⟨0, .all, 1⟩), (B, ⟨1, .all, 5⟩)]), (1, [(A, ⟨0, .even, 9⟩)])] ⟨B, 2⟩
    = [(1, 0), (0, 1)] := by decide

example : plainOps [.delay [.bcast ⟨A, 1⟩, .catch [.delay [.bcast ⟨B, 2⟩]]], .bcast ⟨C, 3⟩] = true ∧
    bcastsOps [.delay [.bcast ⟨A, 1⟩, .catch [.delay [.bcast ⟨B, 2⟩]]], .bcast ⟨C, 3⟩]
      = [⟨A, 1⟩, ⟨B, 2⟩, ⟨C, 3⟩] := by decide
end Examples

/-! ## 5. Witnesses: the code of the pinned tree (`Old`) violates the specification (F1) -/

/-- Nested delay blocks: the inner exit un-pauses the hub and flushes, so `m1` is delivered while
the outer block is still open (before marker 1) and `m2` is delivered immediately (before
marker 2).  `Spec` (and the repaired `Impl`) deliver both after the outer block closed. -/
theorem old_nested_delay_counterexample :
    let hs : Handlers := [[]]
    let prog : List Op :=
      [.sub 0 [0] ⟨0, .all, 10⟩,
       .delay [.delay [.bcast ⟨[0], 1⟩], .mark 1, .bcast ⟨[0], 2⟩, .mark 2]]
    (Old.run hs 30 prog).2 =
        ([.enter 0 0 ⟨[0], 1⟩, .exit 0 0 ⟨[0], 1⟩, .mark 0 1,
          .enter 0 0 ⟨[0], 2⟩, .exit 0 0 ⟨[0], 2⟩, .mark 0 2], .ok) ∧
      (Spec.run hs 30 prog).2 =
        ([.mark 0 1, .mark 0 2, .enter 0 0 ⟨[0], 1⟩, .exit 0 0 ⟨[0], 1⟩,
          .enter 0 0 ⟨[0], 2⟩, .exit 0 0 ⟨[0], 2⟩], .ok) ∧
      (Impl.run hs 30 prog).2 = (Spec.run hs 30 prog).2 := by
  decide

/-- Re-entrant flush: a handler that is called from a flush and opens (and closes) a delay block
itself re-flushes the live queue from its first element — the handler is entered again and again
(on the real code: `RecursionError`; in the model: out of fuel at every fuel tried, here 16,
nested `enter`s and never an `exit`).  `Spec` delivers the message once. -/
theorem old_reentrant_flush_diverges :
    let hs : Handlers := [[.delay []]]
    let prog : List Op := [.sub 0 [0] ⟨0, .all, 10⟩, .delay [.bcast ⟨[0], 1⟩]]
    (Old.run hs 16 prog).2.2 = .fuel ∧
      ((Old.run hs 16 prog).2.1.filter fun e => e == .exit 0 0 ⟨[0], 1⟩) = [] ∧
      (Spec.run hs 16 prog).2 = ([.enter 0 0 ⟨[0], 1⟩, .exit 0 0 ⟨[0], 1⟩], .ok) := by
  decide

/-- An exception in a handler during the flush skips `self._queue = []`: the hub is left
un-paused with a non-empty queue and the *next* delay block re-delivers `m1`, which its listener
already received (twice `enter … m1`).  `Spec` never delivers a message twice. -/
theorem old_raise_in_flush_redelivers :
    let hs : Handlers := [[], [.raise]]
    let prog : List Op :=
      [.sub 0 [0] ⟨0, .all, 10⟩, .sub 1 [1] ⟨1, .all, 10⟩,
       .catch [.delay [.bcast ⟨[0], 1⟩, .bcast ⟨[1], 2⟩]],
       .unsubAll 1, .delay [.mark 3]]
    (Old.run hs 40 prog).2 =
        ([.enter 0 0 ⟨[0], 1⟩, .exit 0 0 ⟨[0], 1⟩, .enter 0 1 ⟨[1], 2⟩, .mark 0 3,
          .enter 0 0 ⟨[0], 1⟩, .exit 0 0 ⟨[0], 1⟩], .ok) ∧
      (Spec.run hs 40 prog).2 =
        ([.enter 0 0 ⟨[0], 1⟩, .exit 0 0 ⟨[0], 1⟩, .enter 0 1 ⟨[1], 2⟩, .mark 0 3], .ok) := by
  decide

end GlueVerif.C07
