import GlueVerif.Lemmas.C05Spec
import GlueVerif.Lemmas.C05Reentrant
/-!
# C05 — results always reflect the current data, regions and links: never a stale cache

Property theorems only; helper lemmas live in `GlueVerif.Lemmas.C05Eval / C05Graph / C05Run / C05Spec`.
Definitions are those of `GlueVerif.Model.C05Cache` (on top of C01's `Model.SubsetEval`), which the
driver `Drivers/C05.lean` runs against `glue/core/subset.py`, `decorators.py`, `data.py` on every check:

* `Impl.run tbl pol w` — histories executed *as the code does it*: state objects with identity,
  parameter objects by reference, one `@memoize` table per decorated `to_mask` keyed by
  `(state, data, view, call form)`, in-place parameter edits and attribute setters that invalidate
  **nothing**, data-side mutations (`update_components`, `update_values_from_data`, link add / remove)
  that change the leaf environment (`w : epoch ↦ Env`) and invalidate what the policy `pol` says
  (`pinnedPolicy`: the one table of the top-level state's class / nothing for links;
  `repairedPolicy`: `clear_all_caches()`);
* `expand L prog` — histories with **re-entrant** mutations: a mutation is a script of phases (clear / state
  change / broadcast, as coded), `L` says which evaluations hub listeners perform when a message class is
  delivered; the expansion is a flat history run by the same `Impl.run` / `Spec.run` (the `World` tick moves with
  every state change of a script: listener evaluations are judged in the state current at that moment);
* `Spec.run tbl w` — the same histories with nothing cached: every evaluation returns
  `denoteNow` = `Expr.denote` of the value the object *currently* stands for in the *current*
  environment.
-/
namespace GlueVerif.C05
open GlueVerif.SubsetEval GlueVerif.C05Cache

/-- **The Spec is the property.**  In every state reachable by any history (constructions, copies,
edit modes, evaluations, attribute setters, in-place parameter edits, data / link mutations), for every
program variable `a`: what `Spec` answers (`denoteNow`) is `Expr.denote` of the selection value the
object stands for in the current leaf environment, **and it is what a freshly constructed,
never-evaluated deep copy (`copy()`) returns when evaluated with cleared memo tables** (any call form). -/
theorem spec_always_fresh (tbl : ClassTable) (hf : tbl.Faithful) (w : World) (prog : List C05Cache.Op)
    (a : Var) (x : NodeId) (d : DataId) (v : View) (f : Form)
    (hx : (C05Cache.Spec.run tbl w {} prog).1.vars[a]? = some x) :
    let ss := (C05Cache.Spec.run tbl w {} prog).1
    let env := w ss.epoch
    ∃ e g' x', Rep ss.g x e ∧ denoteNow env ss.g x d v = e.denote env d v ∧
      copyNode tbl ss.g.fuel ss.g x = (g', some x') ∧
      FreshEval tbl env { g := g', arrays := [], memo := [] } x' d v f ∧
      denoteNow env g' x' d v = denoteNow env ss.g x d v := by
  intro ss env
  have hi := spec_run_inv tbl hf w prog {} spec_init_inv
  obtain ⟨e, he⟩ := hi.repV x (mem_of_getElem? hx)
  obtain ⟨g', x', hcp, _, hr'⟩ := copy_spec tbl hf ss.g x e he
  refine ⟨e, g', x', he, denoteNow_of_rep he d v, hcp, ?_, ?_⟩
  · apply freshEval_of_cohOn (h := { g := g', arrays := [], memo := [] }) ⟨e, hr'⟩
    intro n f t a _ _ hl
    simp [Heap.lookup] at hl
  · rw [denoteNow_of_rep hr', denoteNow_of_rep he]

/-- **Exactly when the code is fresh.**  For *any* heap (memo tables may hold arbitrary stale entries),
any object `n` standing for a value, any call form, dataset and view:

every evaluation of `n` **and of the selections below it** (in the call form the code uses for them —
what `n.state1.to_mask(data, view)` etc. return) yields the demanded result
**iff** no stale key is reachable from `n`: every memo entry that the `@memoize` wrapper of `n` or of an
object below it would consult holds an array equal to `denote` of that object's current value.

(⇐ is the soundness of evaluating through coherent entries; ⇒ is what makes it sharp: a stale
reachable key *is* observable — evaluating its own object returns the stale array.) -/
theorem fresh_iff_no_stale (tbl : ClassTable) (env : Env) (h : Heap) (n : NodeId) (f : Form) (d : DataId)
    (v : View) (hr : HasRep h.g n) :
    (∀ n' f', Reach h.g n f n' f' → FreshEval tbl env h n' d v f') ↔
      CohOn tbl env (Reach h.g n f) d v h := by
  constructor
  · intro hfresh n' f' t a hs heff hl
    exact coherent_of_freshEval heff hl (hfresh n' f' hs)
  · intro hc n' f' hs
    obtain ⟨e, he⟩ := hr
    exact freshEval_of_cohOn (rep_of_reach hs he) (cohOn_sub hc (fun _ _ h2 => Reach.trans hs h2))

/-- The decidable run-time form of "no stale key reachable" (`cleanBelow`, evaluated by the driver for
every evaluation of every case) implies freshness. -/
theorem fresh_of_cleanBelow (tbl : ClassTable) (env : Env) (h : Heap) (n : NodeId) (f : Form) (d : DataId)
    (v : View) (hr : HasRep h.g n) (hc : cleanBelow tbl env h h.g.fuel n d v f = true) :
    FreshEval tbl env h n d v f :=
  freshEval_of_cohOn hr (cleanBelow_cohOn hc)

/-- **Partial theorem (any invalidation policy, any history).**  If every evaluation of the history
happens in a state in which no stale key is reachable from the evaluated object (`progClean`: the
decidable predicate `P` the driver reports as `p`), the implementation model observes exactly what the
property demands, op by op.

Full statement (false on the unchanged tree and, for in-place parameter edits, on the repaired tree —
see the witnesses below):  `∀ prog, (Impl.run …).2.map (·.obs) = (Spec.run …).2`. -/
theorem impl_fresh_partial (tbl : ClassTable) (hf : tbl.Faithful) (pol : Policy) (w : World)
    (prog : List C05Cache.Op) (hP : progClean tbl pol w {} prog = true) :
    (C05Cache.Impl.run tbl pol w {} prog).2.map (·.obs) = (C05Cache.Spec.run tbl w {} prog).2 :=
  (run_fresh tbl hf pol w prog {} {} init_sync (progClean_runOk tbl pol w prog {} hP)).1

/-- **Structural partial theorem (repaired tree).**  If data-side mutations clear all tables and every
attribute setter / in-place parameter edit hits an object that is below no memoised, evaluated object
(`progUnseen` — no values involved: "the mutated object has no memoised evaluated ancestor"), then
*every* memo entry stays coherent for ever and the implementation observes what the property demands. -/
theorem impl_fresh_unseen (tbl : ClassTable) (hf : tbl.Faithful) (pol : Policy) (hp : pol.ClearsAll)
    (w : World) (prog : List C05Cache.Op) (hP : progUnseen tbl pol w {} prog = true) :
    (C05Cache.Impl.run tbl pol w {} prog).2.map (·.obs) = (C05Cache.Spec.run tbl w {} prog).2 :=
  (run_fresh tbl hf pol w prog {} {} init_sync
    (run_coherent tbl hf pol hp w prog {} {} init_sync (fun x hx => by cases hx) hP)).1

/-- **Re-entrant evaluation: what a script must guarantee.**  Histories in which every data-side mutation is a
*script* — the order of `clear_all_caches()` calls, state changes and hub broadcasts — and hub listeners evaluate
selections **inside their message handlers** (`L`: for every message class the evaluations performed when it is
delivered; *any* listeners).  If every script is `Sound` — started with coherent tables, every message is
broadcast, and the mutation ends, with each state change followed by a clear ("no stale key is reachable at any
broadcast point") — and the history has no in-place parameter edits, then **every** evaluation, those performed
inside a listener during a half-done mutation included, returns `denote` of the object's value in the state
current *at that moment* (`Spec` on the expanded history: the tick of the `World` moves with every state change
of a script), and every evaluation after the mutation that of the final state. -/
theorem impl_fresh_reentrant (tbl : ClassTable) (hf : tbl.Faithful) (pol : Policy) (hp : pol.ClearsAll) (w : World)
    (L : Listeners) (prog : List LOp) (hs : ∀ s, LOp.mutate s ∈ prog → Sound s)
    (hnp : ∀ o, LOp.op o ∈ prog → o.isParamMut = false ∧ o.isBareChange = false) :
    (C05Cache.Impl.run tbl pol w {} (expand L prog)).2.map (·.obs) =
      (C05Cache.Spec.run tbl w {} (expand L prog)).2 :=
  (run_fresh tbl hf pol w (expand L prog) {} {} init_sync
    (run_flow tbl hf pol hp w (expand L prog) {} {} false false init_sync (fun _ x hx => by cases hx)
      (flowOps_expand L prog hs hnp))).1

/-- **The scripts of the repaired code are sound** — for every value of their parameters (which components are
removed and which derived components go with them, whether the number of dimensions / the label / the coordinates
change, how many components are added, how many world components are replaced) and wherever the link manager and
the data collection run their `_set_externally_derivable_components` blocks (`sync`: any list).  Transcribed from
`Data.update_components`, `update_values_from_data`, `add_component` (new / replacing), `_remove_component`,
`update_id`, the `coords` setter (`_update_world_components` under `hub.delay_callbacks()`), and
`LinkManager.update_externally_derivable_components`. -/
theorem repaired_scripts_sound (m : Mutation) (sync : List Msg) : Sound (m.phases sync) :=
  flow_mergeSync m.script sync false (mutation_script_sound m)

/-- A block of clears, state changes and broadcasts that is sound when the messages are delivered at once stays
sound under `hub.delay_callbacks()` (messages queued and delivered in order when the block is left). -/
theorem delay_block_sound (ps : List Phase) (h : Sound ps) : Sound (Script.delayed ps) :=
  flow_delayed ps false h

/-- **Full theorem for the data / link part on the repaired tree — with hub listeners.**  Every history of
constructions, copies, edit modes, evaluations (any order, call form, dataset, view) and data-side mutations
(`update_components`, `update_values_from_data` with the same / another shape, number of dimensions and component
set, adding / replacing / removing / re-labelling a component, changing the coordinates, adding / removing links),
each mutation run **phase by phase as coded** with arbitrary listeners evaluating re-entrantly on any message
class, observes exactly what the property demands: listener evaluations the current (intermediate) state, later
evaluations the final state.  (`L := []` and atomic `dataMut` ops give the round-1 statement.) -/
theorem impl_fresh_repaired (tbl : ClassTable) (hf : tbl.Faithful) (w : World) (L : Listeners) (prog : List MOp)
    (hnp : ∀ o, MOp.op o ∈ prog → o.isParamMut = false ∧ o.isBareChange = false) :
    (C05Cache.Impl.run tbl repairedPolicy w {} (expand L (prog.map MOp.toLOp))).2.map (·.obs) =
      (C05Cache.Spec.run tbl w {} (expand L (prog.map MOp.toLOp))).2 := by
  apply impl_fresh_reentrant tbl hf repairedPolicy (fun _ => rfl) w L
  · intro s hm
    obtain ⟨x, _, hx⟩ := List.mem_map.mp hm
    cases x with
    | op o => cases hx
    | mutation m sync =>
      simp only [MOp.toLOp, LOp.mutate.injEq] at hx
      subst hx
      exact repaired_scripts_sound m sync
  · intro o hm
    obtain ⟨x, hxm, hx⟩ := List.mem_map.mp hm
    cases x with
    | op o' =>
      simp only [MOp.toLOp, LOp.op.injEq] at hx
      subst hx
      exact hnp _ hxm
    | mutation m sync => cases hx

/-- The atomic form (round 1): flat histories whose data-side mutations are the atomic `dataMut` ops. -/
theorem impl_fresh_repaired_atomic (tbl : ClassTable) (hf : tbl.Faithful) (w : World) (prog : List C05Cache.Op)
    (hnp : ∀ op ∈ prog, op.isParamMut = false ∧ op.isBareChange = false) :
    (C05Cache.Impl.run tbl repairedPolicy w {} prog).2.map (·.obs) = (C05Cache.Spec.run tbl w {} prog).2 :=
  impl_fresh_unseen tbl hf repairedPolicy (fun _ => rfl) w prog
    (progUnseen_of_noParamMut tbl repairedPolicy w prog {} hnp)

/-- Statistics and histograms read the selection through the same `to_mask`: whatever is computed
from the returned masks (`F`, e.g. `maskedSum vals` / `maskedHist vals nb`) agrees as well. -/
theorem compute_statistic_fresh {α : Type} (F : Obs → α) (tbl : ClassTable) (hf : tbl.Faithful) (pol : Policy)
    (w : World) (prog : List C05Cache.Op) (hP : progClean tbl pol w {} prog = true) :
    (C05Cache.Impl.run tbl pol w {} prog).2.map (fun o => F o.obs) = (C05Cache.Spec.run tbl w {} prog).2.map F :=
  map_congr_obs F (impl_fresh_partial tbl hf pol w prog hP)

/-- **Keyed caches** (`FloodFillSubsetState._mask_cache`, `HistogramLayerState._histogram_cache`: one
slot; `StateAttributeCacheHelper._cache`: a dictionary).  If the key function separates all inputs that
`f` separates, every request of every history returns `f` of the *current* input. -/
theorem keyed_cache_sound {I K O : Type} [DecidableEq K] (key : I → K) (f : I → O)
    (hinj : ∀ i j, key i = key j → f i = f j) (is : List I) :
    slotRun key f none is = is.map f ∧ dictRun key f [] is = is.map f :=
  ⟨slotRun_sound key f hinj is none (fun _ _ h => by cases h),
   dictRun_sound key f hinj is [] (fun _ h => by cases h)⟩

/-- … and the hypothesis is necessary: two inputs with the same key and different results make the
history `[i, j]` return a stale value. -/
theorem keyed_cache_stale {I K O : Type} [DecidableEq K] (key : I → K) (f : I → O) (i j : I)
    (hk : key i = key j) (hf : f i ≠ f j) : slotRun key f none [i, j] ≠ [i, j].map f :=
  slot_stale key f i j hk hf

/-- **Approximate / lossy cache keys are unsound — for every such key.**  Take *any* hit test `same` on keys
(`np.allclose` on the limits, equality after rounding, equality of hashes or of labels instead of the objects;
plain `==` is the instance `fun a b => decide (a = b)`) and assume it identifies the keys of two inputs that
`f` separates.  Then the 2-request history `[i, j]` is answered `[f i, f i]`: the second request returns the
*first* input's value although `f j` is demanded.  (Second component: the same for an exact-equality key
function that merges the two inputs — slot and dictionary.)  This is the defect class the fine-step strata of
the keyed-cache families look for: for every key input they issue `[i, j]` with `j` one ulp, 1e-12 … 1e-3
relative, 1e-8 absolute away from `i` (and value-equal / equal-hash / equal-label distinct objects) on data
for which `f i ≠ f j`. -/
theorem keyed_cache_approx_key_unsound {I K O : Type} (same : K → K → Bool) (key : I → K) (f : I → O)
    (i j : I) (hk : same (key i) (key j) = true) (hf : f i ≠ f j) :
    slotRunRel same key f none [i, j] = [f i, f i] ∧ slotRunRel same key f none [i, j] ≠ [i, j].map f := by
  refine ⟨slotRel_hit same key f i j hk, ?_⟩
  rw [slotRel_hit same key f i j hk]
  intro h
  simp only [List.map_cons, List.map_nil, List.cons.injEq, and_true, true_and] at h
  exact hf h

/-- … and for a key *function* compared exactly (rounded limits, `int(n_bin)`, `hash(settings)`, `att.label`):
both cache shapes return the stale pair. -/
theorem keyed_cache_lossy_key_unsound {I K O : Type} [DecidableEq K] (key : I → K) (f : I → O)
    (i j : I) (hk : key i = key j) (hf : f i ≠ f j) :
    slotRun key f none [i, j] = [f i, f i] ∧ dictRun key f [] [i, j] = [f i, f i] ∧
      [f i, f i] ≠ [i, j].map f := by
  refine ⟨slot_hit key f i j hk, dict_stale key f i j hk, ?_⟩
  intro h
  simp only [List.map_cons, List.map_nil, List.cons.injEq, and_true, true_and] at h
  exact hf h

/-- The exact characterisation, for an arbitrary hit test: a slot cache answers **every** request history with
`f` of the current input **iff** the hit test never identifies the keys of two inputs with different answers.
(⇐ by the invariant "the stored value is `f` of the input whose key is stored" — no transitivity or symmetry
of `same` is needed; ⇒ by the 2-request history above.) -/
theorem keyed_cache_sound_iff {I K O : Type} (same : K → K → Bool) (key : I → K) (f : I → O) :
    (∀ is : List I, slotRunRel same key f none is = is.map f) ↔
      (∀ i j, same (key i) (key j) = true → f i = f j) := by
  constructor
  · intro h i j hk
    have h2 := h [i, j]
    rw [slotRel_hit same key f i j hk] at h2
    simp only [List.map_cons, List.map_nil, List.cons.injEq, and_true, true_and] at h2
    exact h2
  · intro href is
    exact slotRunRel_sound same key f href is none (fun _ _ h => by cases h)

/-- The plain slot is the instance `same := (· = ·)` of the general one. -/
theorem slotRun_eq_slotRunRel {I K O : Type} [DecidableEq K] (key : I → K) (f : I → O) (is : List I)
    (c : Option (K × O)) : slotRun key f c is = slotRunRel (fun a b => decide (a = b)) key f c is := by
  induction is generalizing c with
  | nil => rfl
  | cons i is ih =>
    cases c with
    | none => simp only [slotRun, slotRunRel, slotStep, slotStepRel, ih]
    | some ko =>
      obtain ⟨k, o⟩ := ko
      by_cases hk : k = key i <;> simp [slotRun, slotRunRel, slotStep, slotStepRel, hk, ih]

/-- Witness in the shape of the seeded defect: limits in units of 1/8 day around the Julian date 2459000.5
(= 19672004 eighths), hit test `|a - b| ≤ 1e-5·|b|` (the relative part of `np.allclose`), answer = the upper
limit itself (the last bin edge).  Narrowing the range by 1/8 day is a hit; the old edge is returned. -/
theorem allclose_key_stale :
    let same : Int → Int → Bool := fun a b => decide (100000 * (a - b).natAbs ≤ b.natAbs)
    slotRunRel same (fun x : Int => x) (fun x : Int => x) none [19672004, 19672003] = [19672004, 19672004] := by
  decide

/-! ## Non-vacuity and witnesses -/

/-- A 4-element dataset; content 1 = `x > 2`, content 2 = `x > 3` (or the moved region), content 3 = all;
epoch 1 = after `update_components({x: [4,3,2,1]})`; epoch 2 = after refreshing with 3 rows. -/
def wEnv : World := fun ep =>
  ⟨fun c _ _ =>
    if ep = 0 then
      (if c = 0 then .ok ⟨[4], [false, false, false, false]⟩
       else if c = 1 then .ok ⟨[4], [false, false, true, true]⟩
       else if c = 2 then .ok ⟨[4], [false, false, false, true]⟩
       else .ok ⟨[4], [true, true, true, true]⟩)
    else if ep = 1 then
      (if c = 0 then .ok ⟨[4], [false, false, false, false]⟩
       else if c = 1 then .ok ⟨[4], [true, true, false, false]⟩
       else if c = 2 then .ok ⟨[4], [true, false, false, false]⟩
       else .ok ⟨[4], [true, true, true, true]⟩)
    else
      (if c = 0 then .ok ⟨[3], [false, false, false]⟩
       else if c = 3 then .ok ⟨[3], [true, true, true]⟩
       else .error .incompatible)⟩

def vw : View := ⟨0, true⟩

open C05Cache.Op in
/-- `s.subset_state = ~(x > 2); s.to_mask(); d.update_components({x: …}); s.to_mask()` (DESIGN §7-F2). -/
def progNested : List C05Cache.Op :=
  [base (.leaf .inequality 1), base (.inv 0), base (.edit .replace 1), base (.evalCur 0 vw),
   dataMut .updateComponents 0, base (.evalCur 0 vw)]

open C05Cache.Op in
/-- A top-level `InequalitySubsetState`: the one case the suite tests (`test_update_clears_subset_cache`). -/
def progTop : List C05Cache.Op :=
  [base (.leaf .inequality 1), base (.edit .replace 0), base (.evalCur 0 vw),
   dataMut .updateComponents 0, base (.evalCur 0 vw)]

open C05Cache.Op in
/-- `(x > 0) & (x < 10)`, evaluated, `update_values_from_data` with 3 rows, evaluated again. -/
def progShape : List C05Cache.Op :=
  [base (.leaf .inequality 3), base (.leaf .inequality 3), base (.bin .and 0 1), base (.edit .replace 2),
   base (.evalCur 0 vw), dataMut .updateValuesShape 0, dataMut .updateValuesShape 0, base (.evalCur 0 vw)]

open C05Cache.Op in
/-- A selection through a link, evaluated; the link is removed; evaluated again. -/
def progLink : List C05Cache.Op :=
  [base (.leaf .inequality 1), base (.eval 0 0 vw .kw), dataMut .removeLink 0, dataMut .removeLink 0,
   base (.eval 0 0 vw .kw)]

open C05Cache.Op in
/-- `st = x > 2; d.get_mask(st); st.right = 3; d.get_mask(st)`. -/
def progSetter : List C05Cache.Op :=
  [base (.leaf .inequality 1), base (.eval 0 0 vw .kw), setAttr 0 .inequality 2, base (.eval 0 0 vw .kw)]

open C05Cache.Op in
/-- `a = OrState(r, r); d.get_mask(a); a.state1.hi = 4; d.get_mask(a)` (`RangeSubsetState` is not memoised). -/
def progUnderComposite : List C05Cache.Op :=
  [base (.leaf .range 1), base (.bin .or 0 0), base (.eval 1 0 vw .kw), base (.child 1 0), setAttr 2 .range 3,
   base (.eval 1 0 vw .kw)]

open C05Cache.Op in
/-- `c = rs & rs` (both copies share the ROI object); `d.get_mask(c); roi.move_to(…); d.get_mask(c)`. -/
def progRoi : List C05Cache.Op :=
  [base (.leaf .roi2d 1), base (.bin .and 0 0), base (.eval 1 0 vw .kw), editParam 0 .roi2d 2, base (.eval 1 0 vw .kw)]

open C05Cache.Op in
/-- Even a fresh `copy()` after the edit is stale when the selection is a `MultiOrState`: the copy shares
the list, hence the member objects and their memo entries. -/
def progMultiOrCopy : List C05Cache.Op :=
  [base (.leaf .inequality 1), base (.multiOr [0]), base (.eval 1 0 vw .kw), setAttr 0 .inequality 2, base (.copy 1),
   base (.eval 2 0 vw .kw)]

open C05Cache.Op in
/-- Inside the hypotheses: edit *before* the first evaluation, edit an object nobody evaluated, assign a
fresh copy of a composite after an edit, data mutation of a top-level memoised class. -/
def progFine : List C05Cache.Op :=
  [base (.leaf .inequality 1), setAttr 0 .inequality 2, base (.eval 0 0 vw .kw), base (.leaf .range 1),
   base (.bin .or 0 1), base (.eval 2 0 vw .pos), setAttr 1 .range 3, editParam 1 .range 1, base (.eval 1 0 vw .kw),
   base (.copy 2), base (.eval 3 0 vw .kw), dataMut .updateComponents 0, base (.eval 3 0 vw .kw),
   base (.eval 2 0 vw .pos)]

/-- The hypotheses are satisfiable by non-trivial histories (and the conclusions are what they say). -/
example : progClean classTable repairedPolicy wEnv {} progFine = true := by decide
example : progUnseen classTable repairedPolicy wEnv {} progFine = true := by decide
example : (C05Cache.Spec.run classTable wEnv {} progFine).2.getLast? =
    some (.mask (.ok ⟨[4], [true, true, false, false]⟩)) := by decide
example : progClean classTable pinnedPolicy wEnv {} progTop = true := by decide
example : (C05Cache.Impl.run classTable repairedPolicy wEnv {} progNested).2.map (·.obs) =
    (C05Cache.Spec.run classTable wEnv {} progNested).2 := by decide
example : (C05Cache.Impl.run classTable repairedPolicy wEnv {} progShape).2.map (·.obs) =
    (C05Cache.Spec.run classTable wEnv {} progShape).2 := by decide
example : (C05Cache.Impl.run classTable repairedPolicy wEnv {} progLink).2.map (·.obs) =
    (C05Cache.Spec.run classTable wEnv {} progLink).2 := by decide

theorem repairedPolicy_clearsAll : repairedPolicy.ClearsAll := fun _ => rfl

theorem pinnedPolicy_not_clearsAll : ¬ pinnedPolicy.ClearsAll := fun h => by
  have := h .addLink; simp [pinnedPolicy] at this

/-- F2 (pinned tree): a memoised selection nested under the top-level state stays stale after
`update_components` — only the top-level class's table is cleared. -/
theorem stale_child_after_update_components :
    (C05Cache.Impl.run classTable pinnedPolicy wEnv {} progNested).2.map (·.obs) ≠
      (C05Cache.Spec.run classTable wEnv {} progNested).2 ∧
    progClean classTable pinnedPolicy wEnv {} progNested = false := by decide

/-- F2 (pinned tree): after `update_values_from_data` with a new shape the composite still returns the
mask of the **old** shape. -/
theorem stale_old_shape_after_update_values :
    ((C05Cache.Impl.run classTable pinnedPolicy wEnv {} progShape).2.map (·.obs)).getLast? =
      some (.mask (.ok ⟨[4], [true, true, true, true]⟩)) ∧
    (C05Cache.Spec.run classTable wEnv {} progShape).2.getLast? =
      some (.mask (.ok ⟨[3], [true, true, true]⟩)) := by decide

/-- F2 (pinned tree): removing a link clears nothing — the cached mask is returned where a fresh copy
raises `IncompatibleAttribute`. -/
theorem stale_after_link_removed :
    ((C05Cache.Impl.run classTable pinnedPolicy wEnv {} progLink).2.map (·.obs)).getLast? =
      some (.mask (.ok ⟨[4], [false, false, true, true]⟩)) ∧
    (C05Cache.Spec.run classTable wEnv {} progLink).2.getLast? = some (.mask (.error .incompatible)) := by
  decide

/-- Known (both trees): an attribute setter on a memoised elementary selection. -/
theorem stale_inequality_after_setter :
    (C05Cache.Impl.run classTable repairedPolicy wEnv {} progSetter).2.map (·.obs) ≠
      (C05Cache.Spec.run classTable wEnv {} progSetter).2 ∧
    progClean classTable repairedPolicy wEnv {} progSetter = false := by decide

/-- Known (both trees): editing a non-memoised operand under a memoised composite. -/
theorem stale_composite_after_param_edit :
    (C05Cache.Impl.run classTable repairedPolicy wEnv {} progUnderComposite).2.map (·.obs) ≠
      (C05Cache.Spec.run classTable wEnv {} progUnderComposite).2 ∧
    progUnseen classTable repairedPolicy wEnv {} progUnderComposite = false := by decide

/-- Known (both trees): moving the shared ROI object of a `RoiSubsetState` inside a composite. -/
theorem stale_roi_moved_under_composite :
    (C05Cache.Impl.run classTable repairedPolicy wEnv {} progRoi).2.map (·.obs) ≠
      (C05Cache.Spec.run classTable wEnv {} progRoi).2 := by decide

/-- Known (both trees): "assign a fresh copy after every edit" is **not** enough for `MultiOrState`. -/
theorem stale_multiOr_copy_after_edit :
    (C05Cache.Impl.run classTable repairedPolicy wEnv {} progMultiOrCopy).2.map (·.obs) ≠
      (C05Cache.Spec.run classTable wEnv {} progMultiOrCopy).2 := by decide

/-! ## Re-entrant evaluation: witnesses -/

/-- Content 1 = `x > 2`: `[F,F,T,T]` for the old values (ticks 0 and 1: the removal of the derived component
does not touch `x`), `[T,T,F,F]` once the arrays are swapped (tick ≥ 2). -/
def wRe : World := fun ep =>
  ⟨fun c _ _ =>
    if c = 0 then .ok ⟨[4], [false, false, false, false]⟩
    else if ep ≤ 1 then .ok ⟨[4], [false, false, true, true]⟩
    else .ok ⟨[4], [true, true, false, false]⟩⟩

/-- The component is gone from tick 1 on: a fresh copy raises `IncompatibleAttribute`. -/
def wGone : World := fun ep =>
  ⟨fun c _ _ =>
    if c = 0 then .ok ⟨[4], [false, false, false, false]⟩
    else if ep = 0 then .ok ⟨[4], [false, true, false, true]⟩
    else .error .incompatible⟩

/-- A viewer: re-evaluates the edit subset whenever the set of components changes. -/
def redraw : Listeners := [(.compsChanged, [.evalCur 0 vw])]

/-- `update_values_from_data` from a dataset without the derived component, **as seeded in `C05c`**: the single
`clear_all_caches()` moved to the top — clear, `remove_component` (pop, two messages), arrays swapped,
`NumericalDataChangedMessage`. -/
def scriptClearFirst : List Phase :=
  [.clear, .change, .msg .remove, .msg .compsChanged, .change, .msg .numerical]

/-- … and as the repaired code runs it. -/
def scriptRepaired : List Phase := (Mutation.updateValues (.node .nil .nil) none 0 false none).phases []

/-- `update_values_from_data` before `fix: clear caches at every broadcast point` (F3): the new dataset lacks one
component and has a new one — messages before *and after* the swap, one clear at the end. -/
def scriptLateClear : List Phase :=
  [.change, .msg .remove, .msg .compsChanged, .change, .msg .add, .msg .compsChanged, .clear, .msg .numerical]

/-- `remove_component` before F3: pop, two messages, no clear. -/
def scriptRemoveNoClear : List Phase := [.change, .msg .remove, .msg .compsChanged]

open C05Cache.Op in
/-- `s.subset_state = x > 2; s.to_mask(); <mutation>; s.to_mask()` with a listener attached. -/
def progRe (script : List Phase) : List LOp :=
  [.op (base (.leaf .inequality 1)), .op (base (.edit .replace 0)), .op (base (.evalCur 0 vw)), .mutate script,
   .op (base (.evalCur 0 vw))]

/-- **Clearing before the swap is unsound** (seeded `C05c`): the listener's evaluation during the removal phase
repopulates the memo tables from the *old* values, nothing clears them afterwards; after the mutation the
selection still answers with the mask of the previous values.  The script breaks the flow (`none`: a message while
dirty); the listener's own observation (old values at that moment) is correct — only later ones are stale. -/
theorem clear_before_swap_unsound :
    flow false scriptClearFirst = none ∧
    ((C05Cache.Impl.run classTable repairedPolicy wRe {} (expand redraw (progRe scriptClearFirst))).2.map (·.obs)).getLast? =
      some (.mask (.ok ⟨[4], [false, false, true, true]⟩)) ∧
    (C05Cache.Spec.run classTable wRe {} (expand redraw (progRe scriptClearFirst))).2.getLast? =
      some (.mask (.ok ⟨[4], [true, true, false, false]⟩)) := by decide

/-- The repaired script on the same history with the same listener: sound, and the observations agree — the
listener sees the old values while they are current, everything later the new ones. -/
example : Sound scriptRepaired := by decide
example : (C05Cache.Impl.run classTable repairedPolicy wRe {} (expand redraw (progRe scriptRepaired))).2.map (·.obs) =
    (C05Cache.Spec.run classTable wRe {} (expand redraw (progRe scriptRepaired))).2 := by decide
example : ((C05Cache.Spec.run classTable wRe {} (expand redraw (progRe scriptRepaired))).2.filter (· != .none)) =
    [.mask (.ok ⟨[4], [false, false, true, true]⟩), .mask (.ok ⟨[4], [false, false, true, true]⟩),
     .mask (.ok ⟨[4], [true, true, false, false]⟩)] := by decide

/-- F3 (before the fix): a message between the swap and its clear — the listener itself is answered with the
mask of the previous values (cached when it handled the message of the removal phase). -/
theorem message_between_swap_and_clear_unsound :
    flow false scriptLateClear = none ∧
    (C05Cache.Impl.run classTable repairedPolicy wRe {} (expand redraw (progRe scriptLateClear))).2.map (·.obs) ≠
      (C05Cache.Spec.run classTable wRe {} (expand redraw (progRe scriptLateClear))).2 := by decide

/-- F3 (before the fix): `remove_component` clears nothing — the cached mask is returned where a fresh copy
raises `IncompatibleAttribute` (no listener needed). -/
theorem remove_without_clear_stale :
    flow false scriptRemoveNoClear = none ∧
    ((C05Cache.Impl.run classTable repairedPolicy wGone {} (expand [] (progRe scriptRemoveNoClear))).2.map (·.obs)).getLast? =
      some (.mask (.ok ⟨[4], [false, true, false, true]⟩)) ∧
    (C05Cache.Spec.run classTable wGone {} (expand [] (progRe scriptRemoveNoClear))).2.getLast? =
      some (.mask (.error .incompatible)) := by decide

/-- `_update_world_components` with the clear only after the delay block: the queued messages are delivered when
the block is left, i.e. before the clear. -/
theorem clear_after_delay_block_unsound :
    flow false (Script.delayed [.change, .msg .remove, .msg .compsChanged] ++ [.clear]) = none := by decide

/-- The transcription of `_update_world_components` is the delay block it is written as. -/
example : Script.world 2 1 =
    [.change, .clear, .change, .clear, .msg .remove, .msg .compsChanged, .msg .remove, .msg .compsChanged,
     .msg .add, .msg .compsChanged] := by decide

/-- A refresh that drops `x` (with the derived `s`) and `z`, adds one component and changes the coordinates,
with the link-manager blocks where they are seen. -/
example : traceOf 0 ((Mutation.updateValues (.node (.node .nil .nil) (.node .nil .nil)) none 1 false (some (1, 1))).phases
      [.remove, .extDerivable, .compsChanged]) =
    [(1, some .remove), (1, some .extDerivable), (0, some .compsChanged), (1, some .remove), (0, some .compsChanged),
     (1, some .remove), (0, some .compsChanged), (1, some .add), (0, some .compsChanged), (1, some .remove),
     (0, some .compsChanged), (0, some .add), (0, some .compsChanged), (1, some .numerical), (0, none)] := by decide

end GlueVerif.C05
