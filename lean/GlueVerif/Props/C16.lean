import GlueVerif.Model.C16FRB
import GlueVerif.Model.C16Image
namespace GlueVerif.C16
open GlueVerif.FRB

theorem placeholder : (1 : Nat) = 1 := rfl

end GlueVerif.C16
