import GlueVerif.Model.C16FRB
import GlueVerif.Model.C16Image
import GlueVerif.Model.C16Links
import GlueVerif.Lemmas.C16Grid
import GlueVerif.Lemmas.C16Round
import GlueVerif.Lemmas.C16Point
import GlueVerif.Lemmas.C16Cache
import GlueVerif.Lemmas.C16Links
import GlueVerif.Lemmas.C16Image
import GlueVerif.Model.C16Args
import GlueVerif.Lemmas.C16Args
/-!
# C16 — a fixed-resolution buffer equals nearest-pixel resampling through the links; a cache
identifier never changes a result

Model: `Model/C16FRB.lean` (`compute_fixed_resolution_buffer`, `translate_pixel`, `ARRAY_CACHE`,
`PIXEL_CACHE`), `Model/C16Image.lean` (`get_sliced_data`), `Model/C16Links.lean` (leaves built from
C15 coordinate objects).  Everything below is about **all** worlds (any number of datasets of any
shape, any well-formed derivation trees: identity links, affine links, multi-input links, links
through world coordinates, chains), **all** bounds, and **all** request histories.

`World.wf` (the only hypothesis about links): the `dimensions` reported for a world coordinate of the
reference dataset contain every pixel axis it depends on — proved for the repaired
`dependent_axes` in C15 and restated here as `world_leaf_wf`.
-/
namespace GlueVerif.C16
open GlueVerif GlueVerif.FRB GlueVerif.FRB.Impl GlueVerif.FRB.Args GlueVerif.Lemmas.C16

/-! ## nearest pixel -/

/-- `np.round(q).astype(int)` is an integer nearest to `q`: `|q − rne q| ≤ 1/2`. -/
theorem rne_nearest (q : Rat) : ((rne q : Int) : Rat) - 1 / 2 ≤ q ∧ q ≤ ((rne q : Int) : Rat) + 1 / 2 :=
  Lemmas.C16.rne_nearest q

/-- The Spec's candidate pixels along one axis are exactly the integers within half a pixel of the
linked position (two of them exactly half-way between two pixels, otherwise one). -/
theorem nearest_candidates (q : Rat) (i : Int) :
    i ∈ Spec.nearestInts q ↔ ((i : Rat) - 1 / 2 ≤ q ∧ q ≤ (i : Rat) + 1 / 2) :=
  ⟨nearestInts_sound q i, fun h => nearestInts_complete q i h.1 h.2⟩

/-- Off the half-way positions the nearest pixel is unique and it is the one `np.round` picks. -/
theorem nearest_unique_off_ties (q : Rat) (h : q - (q.floor : Rat) ≠ 1 / 2) :
    Spec.nearestInts q = [rne q] :=
  nearestInts_eq_of_not_tie q h

/-! ## the buffer, sample by sample -/

/-- **Pointwise theorem.** Whenever `compute_fixed_resolution_buffer` (no cache id) returns an
array — for every world, every shape, every link tree, every bounds list, value and mask requests —
the array has the shape of the ranged bounds and holds at each sample point `pt` of the grid
`Spec.sample w r pt`: the value / membership of the source pixel whose index is the linked position
rounded to the nearest integer on every source axis, `NaN` / `False` when that index lies outside
the source array (`Spec.frb` is literally `⟨outShape bounds, gridPoints.map sample⟩`). -/
theorem frb_pointwise (w : World) (r : Req) (a : Arr) (h : frbUncached w r = .ok a) :
    a = Spec.frb w r ∧ a.shape = outShape r.bounds ∧
      a.data = (gridPoints r.bounds).map (fun pt => Spec.cellAt w r ((Spec.linkedPos w r pt).map rne)) := by
  have := frbUncached_ok h
  subst this
  exact ⟨rfl, rfl, rfl⟩

/-- The array returned is accepted by the tie-tolerant oracle used in the correspondence check
(every sample is the value of *a* nearest source pixel). -/
theorem frb_accepted (w : World) (r : Req) (a : Arr) (h : frbUncached w r = .ok a) :
    Spec.accepts w r a = true := by
  rw [frbUncached_ok h]; exact accepts_frb w r

/-- An array is returned exactly for the requests the Spec calls defined (valid step counts, one
bound per reference axis, every source axis derivable, `broadcast=False` satisfied, attribute /
selection computable on the source); everything else raises. -/
theorem frb_defined_iff (w : World) (r : Req) (hnd : 0 < w.ndim r.data) :
    (∃ a, frbUncached w r = .ok a) ↔ Spec.defined w r = true :=
  ⟨fun ⟨_, h⟩ => defined_of_ok hnd h, frbUncached_defined⟩

/-- Hence every answer of the uncached function passes the oracle. -/
theorem frb_answer_accepted (w : World) (r : Req) (hnd : 0 < w.ndim r.data) :
    Spec.acceptsAnswer w r (frbUncached w r) = true := by
  cases h : frbUncached w r with
  | ok a => simp [Spec.acceptsAnswer, defined_of_ok hnd h, frb_accepted w r a h]
  | error e =>
    simp only [Spec.acceptsAnswer, Bool.not_eq_true']
    cases hd : Spec.defined w r with
    | false => rfl
    | true =>
      obtain ⟨a, ha⟩ := frbUncached_defined hd
      rw [ha] at h; cases h

/-! ## scalars on axes that do not matter -/

/-- **A scalar bound on an axis that is not in `dimensions_all` does not influence the result**
(this is what justifies the `AnyScalar` wildcard). -/
theorem frb_indep_irrelevant_scalar (w : World) (hw : w.wf) (r : Req) (i : Nat) (s s' : Rat)
    (hi : r.bounds[i]? = some (.scalar s)) (hdim : i ∉ dimsAll w r) :
    frbUncached w { r with bounds := r.bounds.set i (.scalar s') } = frbUncached w r := by
  apply frbUncached_congr hw
  -- the two bounds lists are related at the wildcard mask
  have key : ∀ (bs : List Bound) (o j : Nat), bs[j]? = some (.scalar s) → (o + j) ∉ dimsAll w r →
      BRel (freeMaskFrom (dimsAll w r) o bs) bs (bs.set j (.scalar s')) := by
    intro bs
    induction bs with
    | nil => intro o j h _; simp at h
    | cons b bs ih =>
      intro o j h hd
      cases j with
      | zero =>
        simp only [List.getElem?_cons_zero, Option.some.injEq] at h
        subst h
        simp only [List.set_cons_zero, freeMaskFrom]
        have : isWild (dimsAll w r) o (.scalar s) = true := by
          simp only [isWild, Bound.isRange, Bool.not_false, Bool.and_true, Bool.not_eq_true',
            List.contains_eq_mem, decide_eq_false_iff_not]
          simpa using hd
        rw [this]
        exact .free s s' (BRel.refl _ _ (freeMaskFrom_length _ _ _))
      | succ j =>
        simp only [List.getElem?_cons_succ] at h
        simp only [List.set_cons_succ, freeMaskFrom]
        exact .same _ b (ih (o + 1) j h (by rw [Nat.add_assoc, Nat.add_comm 1 j]; exact hd))
  exact key r.bounds 0 i hi (by simpa using hdim)

/-- General form: any number of such scalars at once, and the exact reach of a stored key — the
list built by `bounds_for_cache(bounds, dims)` equals (Python `==`) precisely the bounds lists that
differ from `bounds` only by scalars at axes outside `dims`. -/
theorem wildcard_key_exact (dims : List Nat) (bs bs' : List Bound) :
    matchesAll (boundsForCache bs dims) bs' = true ↔ BRel (freeMaskFrom dims 0 bs) bs bs' :=
  ⟨matches_brel dims 0 bs bs', brel_matches dims 0 bs bs'⟩

theorem frb_indep_irrelevant_scalars (w : World) (hw : w.wf) (r : Req) (bs' : List Bound)
    (h : matchesAll (boundsForCache r.bounds (dimsAll w r)) bs' = true) :
    frbUncached w { r with bounds := bs' } = frbUncached w r :=
  frbUncached_congr hw r bs' ((wildcard_key_exact _ _ _).1 h)

/-- A translated coordinate only depends on the reference axes listed in `dimensions`. -/
theorem dimensions_correct (d : Deriv) (hwf : d.wf = true) (p p' : List Rat)
    (h : ∀ k, k ∈ d.dims → p.getD k 0 = p'.getD k 0) : d.val p = d.val p' :=
  val_congr d hwf p p' h

/-- The hypothesis of `dimensions_correct` holds for world coordinates of any affine / identity
coordinate object (C15: `dependent_axes` of the repaired tree covers the real dependency), and is
inherited by the world→pixel link nodes built on top of them. -/
theorem world_leaf_wf (c : Coords.Coord) (a : Nat) (ha : a < c.n) : (worldLeaf c a).wf = true :=
  worldLeaf_wf c a ha

theorem w2p_node_wf (c : Coords.Coord) (k : Nat) (froms : List (Nat × Deriv))
    (h : ∀ i d, (i, d) ∈ froms → d.wf = true) : (w2pNode c k froms).wf = true :=
  w2pNode_wf c k froms h

/-! ## the caches -/

/-- **One call with a cache id.** If every stored entry is valid for every request its key matches
(`ArrayInv`, `PixelInv`), then the call answers exactly like the call without a cache id — array or
exception — and the new cache state satisfies the invariant again (also when the call raises after
having filled part of the pixel cache). -/
theorem cache_step_sound (w : World) (hw : w.wf) (c : Caches) (hA : ArrayInv w c) (hP : PixelInv w c)
    (r : Req) :
    (frb w c r).1 = frbUncached w r ∧ ArrayInv w (frb w c r).2 ∧ PixelInv w (frb w c r).2 :=
  frb_step hw c hA hP r

/-- **Cache soundness.** For every history of requests (any length; any bounds, attributes,
selection objects, datasets, reference datasets, `broadcast` flags; any mixture of cache ids and
calls without one) on unchanged data and unchanged selection objects, starting from empty caches,
every answer equals the answer of the same call with `cache_id=None`. -/
theorem cache_sound (w : World) (hw : w.wf) (ops : List Op) (hreq : ∀ op, op ∈ ops → op.isReq = true) :
    runOps true w .empty ops = runOps false w .empty ops :=
  runOps_sound hw ops .empty hreq (inv_empty w).1 (inv_empty w).2

/-- …and from any cache state that satisfies the invariant (e.g. left by earlier histories). -/
theorem cache_sound_from (w : World) (hw : w.wf) (c : Caches) (hA : ArrayInv w c) (hP : PixelInv w c)
    (ops : List Op) (hreq : ∀ op, op ∈ ops → op.isReq = true) :
    runOps true w c ops = runOps false w c ops :=
  runOps_sound hw ops c hreq hA hP

/-- **The key must be exact** (converse of `cache_sound`; mirrors C05 `keyed_cache_approx_key_unsound`).
Replace the hit test of `ARRAY_CACHE` (`stored hash == current hash`) by *any* relation `hit` between a
stored entry and a request — bounds compared with `np.allclose`, rounded or down-cast to `float32`, a
tuple without one of its components, ….  If `hit` identifies the entry stored for a request `r₁`
(`storedEntry w r₁ a₁` = its hash tuple with the wildcards of `bounds_for_cache`, and its array) with a
request `r₂` whose answer without a cache id is different, then the 2-request history `[r₁, r₂]` under
one cache id, started on empty caches, returns `[a₁, a₁]`: the second answer is not the uncached one.
(`hv₂`: the `ValueError` for `n < 1` is raised before the cache is consulted.)  The coded test is the
instance `hit := ArrayEntry.matches` (`hit_test_as_coded`), for which `cache_sound` shows that no such
pair `r₁, r₂` exists.  The correspondence families look for such pairs on the real caches: one float
component of `r₁` moved by 1 ulp … 1e-3 relative / 1e-8 absolute across a pixel boundary of the
source, at magnitudes 1e-6 … 1e9. -/
theorem cache_key_exact_needed (w : World) (hw : w.wf) (hit : ArrayEntry → Req → Bool)
    (r₁ r₂ : Req) (id : Nat) (a₁ : Arr)
    (hc₁ : r₁.cacheId = some id) (hc₂ : r₂.cacheId = some id)
    (h₁ : frbUncached w r₁ = .ok a₁) (hv₂ : boundsValid r₂.bounds = true)
    (hne : frbUncached w r₂ ≠ .ok a₁)
    (hhit : hit (storedEntry w r₁ a₁) r₂ = true) :
    runReqsWith hit w .empty [r₁, r₂] = [.ok a₁, .ok a₁] ∧
      runReqsWith hit w .empty [r₁, r₂] ≠ [r₁, r₂].map (frbUncached w) := by
  have hst := runReqsWith_stale hw hit hc₁ hc₂ h₁ hv₂ hhit
  refine ⟨hst, ?_⟩
  rw [hst]
  intro h
  simp only [List.map_cons, List.map_nil, List.cons.injEq, and_true] at h
  exact hne h.2.symm

/-- The history runner with a parametric hit test, instantiated with the coded test, is the model
the driver runs (`runOps true` on request-only histories). -/
theorem hit_test_as_coded (w : World) (c : Caches) (rs : List Req) :
    runReqsWith ArrayEntry.matches w c rs = runOps true w c (rs.map Op.req) :=
  runReqsWith_matches w rs c

/-! ## `get_sliced_data`: slices → bounds -/

/-- The bounds `get_sliced_data` builds from a slice (a view, or an `AggregateSlice`) sample exactly
`range(*slice.indices(size))` — repaired tree (F16). -/
theorem slice_to_bound_positions (s : Image.PySl) (size : Nat) (b e st : Int)
    (h : ArrayUtil.sliceIndices s.start s.stop s.step size = some (b, e, st)) :
    ∃ bd, Image.sliceToBound s size = .ok bd ∧
      bd.positions = (Image.pyRange b e st).map fun (k : Int) => (k : Rat) :=
  sliceToBound_positions s size b e st h

/-- **The request behind `get_sliced_data`** (`ImageLayerState` / `ImageSubsetLayerState`): whatever
the viewer's slices, the view or the bounds, the buffer is requested from the layer's data in the
frame of the reference data with `broadcast=False` under the layer's own cache id, and along every
reference axis the bound samples exactly the positions the call denotes (`Image.Spec.positions`:
`range(*slice.indices(size))` for a view slice or an `AggregateSlice`, the explicit bounds, the
viewer's slice index).  With `frb_pointwise` and `cache_sound` this fixes the buffer before the
aggregation / transposition step (which is tied to the code by the correspondence check only). -/
theorem sliced_request_denotes (w : World) (l : Image.Layer) (c : Image.Call) (r : Req)
    (agg : List (Option Image.AggFn)) (h : Image.reqOf w l c = .ok (r, agg)) :
    r.data = l.data ∧ r.target = l.ref ∧ r.what = l.what ∧ r.broadcast = false ∧ r.cacheId = some 0 ∧
    r.bounds.length = w.ndim l.ref ∧
    ∀ i, i < w.ndim l.ref → Image.Spec.positions w l c i = some (r.bounds.getD i (.scalar 0)).positions :=
  reqOf_denotes w l c r agg h

/-! ## non-vacuity -/

/-- two datasets: a 3×4 reference image and a 4×5 source; source axis 0 ← reference axis 1
(identity link), source axis 1 ← `2·(reference axis 0) + 1/2` (affine link) -/
def exWorld : World :=
  { datasets := [⟨[3, 4], [List.range 12 |>.map Int.ofNat]⟩, ⟨[4, 5], [List.range 20 |>.map fun k => 100 + Int.ofNat k]⟩]
    deriv := fun t s k =>
      if t = 0 ∧ s = 1 then (if k = 0 then .via [1] 0 [.pixel 1] else .via [2] (1 / 2) [.pixel 0]) else .missing
    states := fun _ => .range 1 0 105 112 }

def exReq (s : Rat) (cid : Option Nat) : Req :=
  ⟨1, [.range 0 3 4, .scalar s], 0, .comp 1 0, true, cid⟩

/-- a 3-d reference cube viewed by a 2-d layer: axis 0 of the cube is a broadcast dimension -/
def exCube : World :=
  { datasets := [⟨[2, 2, 2], [List.range 8 |>.map Int.ofNat]⟩, ⟨[2, 2], [[5, 6, 7, 8]]⟩]
    deriv := fun t s k => if t = 0 ∧ s = 1 then .via [1] 0 [.pixel (k + 1)] else .missing
    states := fun _ => .gt 1 0 6 }

example : exWorld.wf := fun _ _ _ => by unfold exWorld; dsimp only; split <;> (try split) <;> rfl
example : exCube.wf := fun _ _ _ => by unfold exCube; dsimp only; split <;> rfl

/-- the hypotheses of the theorems are met by a non-trivial request: the buffer is defined, has
samples inside, outside (NaN) and exactly half-way between two pixels -/
example : Spec.defined exWorld (exReq 1 none) = true ∧
    (frbUncached exWorld (exReq 1 none)).toOption.map (·.data) = some [.num 105, .num 107, .num 109, .nan] ∧
    Spec.isTie exWorld (exReq 1 none) [0, 1] = true := by decide +kernel

/-- the wildcard really matches other requests: slicing through the cube (scalar on axis 0) hits the
entry stored for another slice, ranges and relevant scalars do not -/
example :
    let r0 : Req := ⟨1, [.scalar 0, .range 0 1 2, .range 0 1 2], 0, .comp 1 0, true, some 7⟩
    let c := (frb exCube .empty r0).2
    (arrayHit c 7 { r0 with bounds := [.scalar 1, .range 0 1 2, .range 0 1 2] }).isSome = true ∧
    (arrayHit c 7 { r0 with bounds := [.range 0 1 2, .range 0 1 2, .range 0 1 2] }).isSome = false ∧
    (arrayHit c 7 { r0 with bounds := [.scalar 0, .scalar 1, .range 0 1 2] }).isSome = false ∧
    (arrayHit c 7 { r0 with what := .state 0 }).isSome = false ∧
    (arrayHit c 7 { r0 with data := 0 }).isSome = false := by decide +kernel

/-! ## witnesses: where the code leaves the property -/

def cells : Except Err Arr → List Cell
  | .ok a => a.data
  | .error _ => []

/-- one dataset, a selection `10 ≤ c0 ≤ 11`, a mask request under cache id `0`; the selection object
is then edited in place to `10 ≤ c0 ≤ 114` and the same request is repeated -/
def f15World : World :=
  { datasets := [⟨[3, 2], [[10, 11, 12, 13, 14, 15]]⟩]
    deriv := fun _ _ _ => .missing
    states := fun _ => .range 0 0 10 11 }

def f15Ops (cid : Option Nat) : List Op :=
  [.req ⟨0, [.scalar 2, .range 0 1 2], 0, .state 0, true, cid⟩,
   .editState 0 (.range 0 0 10 114),
   .req ⟨0, [.scalar 2, .range 0 1 2], 0, .state 0, true, cid⟩]

/-- **F15 (known).** `ARRAY_CACHE` compares the selection *object*: after an in-place edit the
second request is answered from the cache with the buffer of the old selection (`[F, F]`), the call
without cache id gives `[T, T]`; the data never changed.  `cache_sound` therefore needs "unchanged
selection objects" (its hypothesis `isReq`). -/
theorem selection_edited_in_place_stale :
    (runOps true f15World .empty (f15Ops (some 0))).map cells = [[.bool false, .bool false], [.bool false, .bool false]] ∧
    (runOps false f15World .empty (f15Ops (some 0))).map cells = [[.bool false, .bool false], [.bool true, .bool true]] := by
  decide +kernel

/-- The same for the data (outside the property: "for unchanged data"): the caches are not told
about `update_components`. -/
theorem data_changed_in_place_stale :
    let ops (cid : Option Nat) : List Op :=
      [.req ⟨0, [.scalar 2, .range 0 1 2], 0, .comp 0 0, true, cid⟩,
       .setComp 0 0 [0, 0, 0, 0, 7, 8],
       .req ⟨0, [.scalar 2, .range 0 1 2], 0, .comp 0 0, true, cid⟩]
    (runOps true f15World .empty (ops (some 0))).map cells = [[.num 14, .num 15], [.num 14, .num 15]] ∧
    (runOps false f15World .empty (ops (some 0))).map cells = [[.num 14, .num 15], [.num 7, .num 8]] := by
  decide +kernel

/-! ## argument object identity (round 3)

`Model/C16Args.lean`: the `bounds` argument is a list *object* of the caller (`BArg.obj oid`, contents
in the heap `Lists`) or a list built for one call (`BArg.fresh`); a stored key is a list the cache owns
(`KeyRef.own`) or a reference to a caller's list (`KeyRef.ref`, read through the heap when the hit test
runs); a stored array is a private copy or the buffer a caller holds (`AEntry.shared`).  `Policy` = what
the code stores; histories `AOp` interleave requests with in-place edits of the caller's lists
(`set` / `push` / `pop` / `assign`) and of returned buffers (`editBuf`).  The Spec of a request is the
uncached answer for the **current** contents of its arguments (`runArgs pol false`). -/

/-- **One operation.**  From caches that are valid as the next call sees them (`AInv`: the invariant
of `cache_step_sound` on the caches with every reference resolved through the heap), an operation that
does not write to a cell shared with a cache (`Shares`: a list some stored key refers to, a buffer
that is a stored array) keeps them valid, and a request is answered like the call without a cache id
on the contents its arguments have now — for **any** storage policy. -/
theorem cache_step_sound_args (pol : Policy) (st : AState) (hw : st.world.wf) (hinv : AInv st) (op : AOp)
    (hop : op.isArgOp = true) (hns : ¬ Shares st op) :
    AInv (stepA pol true st op).2 ∧
    ∀ r, op = .req r → (stepA pol true st op).1 = some (frbUncached st.world (r.toReq st.lists)) :=
  stepA_sound pol st hw hinv op hop hns

/-- **No sharing, no staleness** — any policy, any history of requests and in-place edits of bounds
lists / returned buffers (any length, any objects, the same list submitted again after an edit, equal
fresh copies, …): if no edit writes to a cell that a stored key or a stored array shares with the
caller (`Unshared`), every answer with its cache id equals the answer of `cache_id=None` for the
contents the arguments have at that moment. -/
theorem cache_sound_unshared (pol : Policy) (w : World) (hw : w.wf) (L : Lists) (ops : List AOp)
    (hops : ∀ op, op ∈ ops → op.isArgOp = true) (hun : Unshared pol (.init w L) ops) :
    runArgs pol true (.init w L) ops = runArgs pol false (.init w L) ops :=
  runArgs_sound pol ops _ _ hw rfl rfl hops (ainv_init w L) hun

/-- **Cache soundness with argument identity.**  If the stored keys own their data and the stored
array is a private copy (`Policy.owns`: what is stored never shares a cell with a caller-visible list
or buffer — an invariant of the caches, `ACaches.Owned`, that every call preserves), then for **every**
history with in-place mutation of arguments and results between requests, cached = uncached.  No
hypothesis on the history. -/
theorem cache_sound_args (pol : Policy) (hpol : pol.owns) (w : World) (hw : w.wf) (L : Lists)
    (ops : List AOp) (hops : ∀ op, op ∈ ops → op.isArgOp = true) :
    runArgs pol true (.init w L) ops = runArgs pol false (.init w L) ops :=
  cache_sound_unshared pol w hw L ops hops (unshared_of_owned hpol ops _ owned_empty)

/-- The invariant behind it: under an owning policy the caches never hold a reference to a caller's
list nor a caller's buffer, whatever the history does. -/
theorem owned_invariant (pol : Policy) (hpol : pol.owns) (st : AState) (h : st.caches.Owned) (op : AOp) :
    (stepA pol true st op).2.caches.Owned ∧ ¬ Shares st op :=
  ⟨stepA_owned hpol st h op, not_shares_of_owned h op⟩

/-- The tree under test is an owning policy: `bounds_for_cache` builds a new list for `ARRAY_CACHE`
and for `PIXEL_CACHE` (the hash tuple built at the top, which holds `bounds`, is only compared, never
stored), the array is copied when stored and when returned from the cache (F18). -/
theorem policy_as_coded_owns : Policy.coded.owns := ⟨fun _ => rfl, fun _ => rfl, rfl, rfl⟩

/-- With a new list for every call (the round-1/2 histories; `get_sliced_data`) the object-level
model of the code is the value-level model `runOps true` of `cache_sound`. -/
theorem args_fresh_is_value_model (w : World) (L : Lists) (rs : List Req) :
    runArgs Policy.coded true (.init w L) (freshOps rs) = runOps true w .empty (rs.map Op.req) :=
  runArgs_fresh w rs (.init w L) rfl

/-- a loop over the slices of a cube that re-uses one bounds list: `b = [0, (0, 1, 2)]`, request,
`b[0] = 2`, request — same object, same cache id -/
def sliceLoop : List AOp :=
  [.assign 0 [.scalar 0, .range 0 1 2],
   .req ⟨0, .obj 0, 0, .comp 0 0, true, some 0⟩,
   .set 0 0 (.scalar 2),
   .req ⟨0, .obj 0, 0, .comp 0 0, true, some 0⟩]

/-- **Storing the caller's list breaks it** (seeded change C16c: the hash built at the top of the
function is kept when no scalar bound is wildcard-eligible — it holds `bounds` itself).  After
`b[0] = 2` the stored key has changed with the list, the hit test compares the list with itself and
the buffer of slice 0 is returned for slice 2.  The coded policy (and the uncached call) give slice 2.
The same with `PIXEL_CACHE[…]['bounds'] = bounds`: the array cache misses, the stale pixel
coordinates of slice 0 are used. -/
theorem caller_list_stored_stale :
    (runArgs Policy.refIfNoWildcard true (.init f15World fun _ => []) sliceLoop).map cells
      = [[.num 10, .num 11], [.num 10, .num 11]] ∧
    (runArgs Policy.pixelRefs true (.init f15World fun _ => []) sliceLoop).map cells
      = [[.num 10, .num 11], [.num 10, .num 11]] ∧
    (runArgs Policy.coded true (.init f15World fun _ => []) sliceLoop).map cells
      = [[.num 10, .num 11], [.num 14, .num 15]] ∧
    (runArgs Policy.refIfNoWildcard false (.init f15World fun _ => []) sliceLoop).map cells
      = [[.num 10, .num 11], [.num 14, .num 15]] := by
  decide +kernel

/-- **F18 (fixed).**  On the pinned tree the array stored in `ARRAY_CACHE` is the object handed to the
caller: `buf[...] = -7` on the returned buffer and the same request again under the same cache id
returns `-7` everywhere; the call without cache id returns the data.  With private copies
(`Policy.coded`, the repaired tree) the edit is invisible. -/
theorem returned_buffer_shared_stale :
    let ops : List AOp :=
      [.req ⟨0, .fresh [.scalar 2, .range 0 1 2], 0, .comp 0 0, true, some 0⟩,
       .editBuf 0 (-7),
       .req ⟨0, .fresh [.scalar 2, .range 0 1 2], 0, .comp 0 0, true, some 0⟩]
    (runArgs Policy.pinnedArrays true (.init f15World fun _ => []) ops).map cells
      = [[.num 14, .num 15], [.num (-7), .num (-7)]] ∧
    (runArgs Policy.coded true (.init f15World fun _ => []) ops).map cells
      = [[.num 14, .num 15], [.num 14, .num 15]] ∧
    (runArgs Policy.pinnedArrays false (.init f15World fun _ => []) ops).map cells
      = [[.num 14, .num 15], [.num 14, .num 15]] := by
  decide +kernel

/-- non-vacuity: a history with an in-place edit, an append / pop that is restored, an equal fresh
copy and an edited result — the coded policy hits `ARRAY_CACHE` for the fresh copy and for the
restored list and answers everything like the uncached call -/
example :
    let ops : List AOp :=
      [.assign 0 [.scalar 0, .range 0 1 2],
       .req ⟨0, .obj 0, 0, .comp 0 0, true, some 0⟩,
       .assign 1 [.scalar 0, .range 0 1 2],
       .editBuf 0 5,
       .req ⟨0, .obj 1, 0, .comp 0 0, true, some 0⟩,
       .push 0 (.scalar 1),
       .req ⟨0, .obj 0, 0, .comp 0 0, true, some 0⟩,
       .pop 0,
       .req ⟨0, .obj 0, 0, .comp 0 0, true, some 0⟩,
       .set 0 1 (.range 0 1 1),
       .req ⟨0, .obj 0, 0, .comp 0 0, true, some 0⟩]
    (∀ op, op ∈ ops → op.isArgOp = true) ∧
    (runArgs Policy.coded true (.init f15World fun _ => []) ops).map cells
      = [[.num 10, .num 11], [.num 10, .num 11], [], [.num 10, .num 11], [.num 10]] ∧
    runArgs Policy.coded true (.init f15World fun _ => []) ops
      = runArgs Policy.coded false (.init f15World fun _ => []) ops := by
  decide +kernel

example : f15World.wf := fun _ _ _ => rfl

/-- a 3-pixel source whose pixel frame is the reference frame shifted by a Julian date: the boundary
between source pixels 1 and 2 lies at reference coordinate 2459000.5 -/
def keyWorld : World :=
  { datasets := [⟨[2], [[10, 11]]⟩, ⟨[3], [[100, 101, 102]]⟩]
    deriv := fun t s _ => if t = 0 ∧ s = 1 then .via [1] (3 / 2 - 4918001 / 2) [.pixel 0] else .missing
    states := fun _ => .gt 1 0 0 }

/-- the sample at `2459000.5 + k·2⁻²⁰` (≈ 1e-6 days) -/
def keyReq (k : Int) (cid : Option Nat) : Req :=
  ⟨1, [.scalar (4918001 / 2 + (k : Rat) / 1048576)], 0, .comp 1 0, true, cid⟩

/-- **An `np.allclose` key is stale** (instance of `cache_key_exact_needed`, the seeded-change class of
round 2): with the bounds of the hash tuple compared by `|a − b| ≤ 1e-8 + 1e-5·|b|`, moving the
sample from `2459000.5 − 2⁻²⁰` to `2459000.5 + 2⁻²⁰` — across the boundary between two source pixels —
under the same cache id returns the old pixel (101) instead of 102; the coded (exact) test does not. -/
theorem allclose_bounds_stale :
    (runReqsWith (ArrayEntry.closeMatches (1 / 100000000) (1 / 100000)) keyWorld .empty
      [keyReq (-1) (some 0), keyReq 1 (some 0)]).map cells = [[.num 101], [.num 101]] ∧
    (runReqsWith ArrayEntry.matches keyWorld .empty
      [keyReq (-1) (some 0), keyReq 1 (some 0)]).map cells = [[.num 101], [.num 102]] ∧
    [keyReq (-1) none, keyReq 1 none].map (fun r => cells (frbUncached keyWorld r)) = [[.num 101], [.num 102]] := by
  decide +kernel

example : keyWorld.wf := fun _ _ _ => by unfold keyWorld; dsimp only; split <;> rfl

/-- the hypotheses of `cache_key_exact_needed` are met by the `np.allclose` test on `keyWorld` -/
example :
    (frbUncached keyWorld (keyReq (-1) (some 0))).toOption = some ⟨[], [.num 101]⟩ ∧
    (frbUncached keyWorld (keyReq 1 (some 0))).toOption ≠ some ⟨[], [.num 101]⟩ ∧
    boundsValid (keyReq 1 (some 0)).bounds = true ∧
    ArrayEntry.closeMatches (1 / 100000000) (1 / 100000)
      (storedEntry keyWorld (keyReq (-1) (some 0)) ⟨[], [.num 101]⟩) (keyReq 1 (some 0)) = true ∧
    ArrayEntry.matches (storedEntry keyWorld (keyReq (-1) (some 0)) ⟨[], [.num 101]⟩) (keyReq 1 (some 0)) = false := by
  decide +kernel

/-- **F16 (fixed).** `slice_to_bound` of the pinned tree on `slice(None, None, -1)` over 3 rows:
5 samples `2, 1, 0, −1, −2` instead of `range(2, −1, −1) = 2, 1, 0`; on `slice(None, None, -2)` over
4 rows: `3, 1, −1` instead of `3, 1`.  The repaired function gives the ranges. -/
theorem slice_to_bound_pinned_wrong :
    (Image.sliceToBoundPinned ⟨none, none, some (-1)⟩ 3).toOption.map Bound.positions = some [2, 1, 0, -1, -2] ∧
    (Image.sliceToBound ⟨none, none, some (-1)⟩ 3).toOption.map Bound.positions = some [2, 1, 0] ∧
    (Image.sliceToBoundPinned ⟨none, none, some (-2)⟩ 4).toOption.map Bound.positions = some [3, 1, -1] ∧
    (Image.sliceToBound ⟨none, none, some (-2)⟩ 4).toOption.map Bound.positions = some [3, 1] := by
  decide +kernel

end GlueVerif.C16
