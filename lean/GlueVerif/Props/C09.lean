import GlueVerif.Lemmas.C09Dispatch
/-!
# C09 — a drawn region becomes a selection of exactly the points the region contains

Property theorems only.  Every statement is about the executable definitions in
`GlueVerif.Model.C09Roi` that `Drivers/C09.lean` runs against `roi_to_subset_state` +
`Data.get_mask` on every check: `roiToState` (the dispatch, with the F9 repair), `mask`
(`to_mask` of the state classes), `specSelected` ("the plotted position lies in the region") and
`specOnBoundary` (the excluded boundary).  Labels are integers; the plotted position of a label is
its index in the sorted unique category list; `none` is NaN.  All statements hold for every
rational region parameter, every category list and every data value — nothing is bounded.
-/
namespace GlueVerif.C09
open GlueVerif.ArrayUtil GlueVerif.C09.Lemmas

/-! ## Range regions -/

/-- `RangeROI` on a numeric axis (`RangeSubsetState`, inclusive bounds) selects exactly the values
strictly inside the range, the two end points excepted; NaN is never selected; the other
coordinate (any kind, also NaN) is irrelevant.  Both orientations. -/
theorem range_numeric (lo hi : Rat) (q : Option Rat) (other : Val) (oc : Option (List Int)) :
    (specOnBoundary (.range .x lo hi) none oc none ⟨.num q, other⟩ = false →
      mask none (roiToState (.range .x lo hi) none oc false) ⟨.num q, other⟩ =
        specSelected (.range .x lo hi) none oc none ⟨.num q, other⟩) ∧
    (specOnBoundary (.range .y lo hi) oc none none ⟨other, .num q⟩ = false →
      mask none (roiToState (.range .y lo hi) oc none false) ⟨other, .num q⟩ =
        specSelected (.range .y lo hi) oc none none ⟨other, .num q⟩) := by
  constructor <;> intro hb <;> cases q with
  | none => simp [roiToState, rangeToState, mask, Elem.get, specSelected, specPoint, plotCoord]
  | some v =>
    simp only [specOnBoundary, specPoint, plotCoord, Option.map_some, onBoundary, Bool.or_eq_false_iff,
      decide_eq_false_iff_not] at hb
    simp only [roiToState, rangeToState, mask, Elem.get, specSelected, specPoint, plotCoord,
      Option.map_some, roiContains, ge_iff_le]
    exact closed_eq_open lo hi v hb.1 hb.2

/-- The arithmetic of `CategoricalROI.from_range`: for **all** rational bounds and every category
position `i`, `⌈lo⌉⁺ ≤ i < ⌈hi⌉⁺` (ceil of positive bounds, else 0 — the slice the code takes) holds
exactly when `lo < i < hi`, unless `i = lo`. -/
theorem from_range_positions (lo hi : Rat) (i : Nat) (h : ((i : Int) : Rat) ≠ lo) :
    (clampCeil lo ≤ i ∧ i < clampCeil hi) ↔ (lo < ((i : Int) : Rat) ∧ ((i : Int) : Rat) < hi) := by
  rw [clampCeil_le, lt_clampCeil]
  constructor
  · rintro ⟨a, b⟩; exact ⟨lt_of_le_of_ne a (Ne.symm h), b⟩
  · rintro ⟨a, b⟩; exact ⟨le_of_lt a, b⟩

/-- `RangeROI` on a categorical axis (`CategoricalROI.from_range` → slice of the category list →
`np.unique` → `searchsorted` + equality): an element is selected exactly when its category position
lies strictly inside the range, the position `lo` excepted — for every rational range, every sorted
duplicate-free category list (any number of categories) and every label of it. -/
theorem range_categorical (lo hi : Rat) (cs : List Int) (hs : strictSorted cs = true) (l : Int)
    (hl : l ∈ cs) (other : Val) (oc : Option (List Int)) :
    (specOnBoundary (.range .x lo hi) (some cs) oc none ⟨.lab l, other⟩ = false →
      mask none (roiToState (.range .x lo hi) (some cs) oc false) ⟨.lab l, other⟩ =
        specSelected (.range .x lo hi) (some cs) oc none ⟨.lab l, other⟩) ∧
    (specOnBoundary (.range .y lo hi) oc (some cs) none ⟨other, .lab l⟩ = false →
      mask none (roiToState (.range .y lo hi) oc (some cs) false) ⟨other, .lab l⟩ =
        specSelected (.range .y lo hi) oc (some cs) none ⟨other, .lab l⟩) := by
  constructor <;> intro hb
  · simp only [specOnBoundary, specPoint, plotCoord, Option.map_some, onBoundary, Bool.or_eq_false_iff,
      decide_eq_false_iff_not] at hb
    simp only [roiToState, rangeToState, specSelected, specPoint, plotCoord, Option.map_some, roiContains]
    rw [mask_catRange none cs hs lo hi .x _ l rfl hl]
    exact halfopen_eq_open lo hi _ hb.1
  · simp only [specOnBoundary, specPoint, plotCoord, Option.map_some, onBoundary, Bool.or_eq_false_iff,
      decide_eq_false_iff_not] at hb
    simp only [roiToState, rangeToState, specSelected, specPoint, plotCoord, Option.map_some, roiContains]
    rw [mask_catRange none cs hs lo hi .y _ l rfl hl]
    exact halfopen_eq_open lo hi _ hb.1

example : strictSorted [2, 5, 7] = true ∧ (5 : Int) ∈ [2, 5, 7] ∧
    fromRange [2, 5, 7] (1 / 2) (5 / 2) = [5, 7] ∧ fromRange [2, 5, 7] 1 (3 / 2) = [5] := by decide +kernel

/-! ## Categorical regions -/

/-- `CategoricalROI(labels)` (labels in any order, with duplicates) selects exactly the elements
whose x label is listed — `np.unique`, `searchsorted`, the index clamp and the equality test
together decide membership. -/
theorem categorical_roi (labels : List Int) (xc yc : Option (List Int))
    (hany : (xc.isSome || yc.isSome) = true) (usePre : Bool) (pre : Option Affine) (l : Int) (other : Val) :
    mask pre (roiToState (.categorical labels) xc yc usePre) ⟨.lab l, other⟩ =
      specSelected (.categorical labels) xc yc pre ⟨.lab l, other⟩ := by
  simp only [roiToState, hany, if_true, mask, Elem.get, specSelected]
  rw [catRoiContains_eq_mem _ (Lemmas.strictSorted_categories labels)]
  rw [Bool.eq_iff_iff]
  simp [Lemmas.mem_categories]

/-! ## Rectangles on categorical axes -/

/-- An unrotated rectangle (`θ ≡ 0 mod π`) with at least one categorical axis is decomposed into
two ranges joined by `AndState`; off the rectangle's boundary the selection is exactly the open
rectangle, for the three axis-kind combinations and NaN values.  (Rotated rectangles take the
polygon-like branches after the F9 repair: `polygon_cat_cat`, `polygonised_cat_num`.) -/
theorem rect_categorical (xmin xmax ymin ymax c : Rat) (hc : c * c = 1) (xc yc : Option (List Int))
    (hcx : catsOk xc = true) (hcy : catsOk yc = true) (hany : (xc.isSome || yc.isSome) = true)
    (usePre : Bool) (e : Elem) (hx : valOk xc e.x = true) (hy : valOk yc e.y = true)
    (hb : specOnBoundary (.rect xmin xmax ymin ymax c 0) xc yc none e = false) :
    mask none (roiToState (.rect xmin xmax ymin ymax c 0) xc yc usePre) e =
      specSelected (.rect xmin xmax ymin ymax c 0) xc yc none e := by
  obtain ⟨ex, ey⟩ := e
  have hstate : roiToState (.rect xmin xmax ymin ymax c 0) xc yc usePre =
      .and (rangeToState .x xmin xmax xc) (rangeToState .y ymin ymax yc) := by
    simp [roiToState, hany]
  rw [hstate]
  cases xc with
  | none =>
    cases yc with
    | none => simp at hany
    | some ys =>
      cases ex with
      | lab _ => simp [valOk] at hx
      | num qx =>
        cases ey with
        | num _ => simp [valOk] at hy
        | lab ly =>
          have hly := mem_of_contains (by simpa [valOk] using hy : ys.contains ly = true)
          simp only [catsOk] at hcy
          cases qx with
          | none =>
            simp [rangeToState, mask, Elem.get, specSelected, specPoint, plotPos, plotCoord]
          | some vx =>
            simp only [specOnBoundary, specPoint, plotPos, plotCoord, applyPre, Option.map_some] at hb
            simp only [rangeToState, mask_and, specSelected, specPoint, plotPos, plotCoord, applyPre, Option.map_some]
            rw [mask_numRange none xmin xmax .x _ (some vx) rfl, mask_catRange none ys hcy ymin ymax .y _ ly rfl hly]
            exact rect0_core xmin xmax ymin ymax c hc vx (pos ly ys) (vx ≤ xmax) (pos ly ys < ymax)
              le_of_lt id id le_of_lt hb
  | some xs =>
    cases ex with
    | num _ => simp [valOk] at hx
    | lab lx =>
      have hlx := mem_of_contains (by simpa [valOk] using hx : xs.contains lx = true)
      simp only [catsOk] at hcx
      cases yc with
      | none =>
        cases ey with
        | lab _ => simp [valOk] at hy
        | num qy =>
          cases qy with
          | none =>
            simp [rangeToState, mask, Elem.get, specSelected, specPoint, plotPos, plotCoord]
          | some vy =>
            simp only [specOnBoundary, specPoint, plotPos, plotCoord, applyPre, Option.map_some] at hb
            simp only [rangeToState, mask_and, specSelected, specPoint, plotPos, plotCoord, applyPre, Option.map_some]
            rw [mask_catRange none xs hcx xmin xmax .x _ lx rfl hlx, mask_numRange none ymin ymax .y _ (some vy) rfl]
            exact rect0_core xmin xmax ymin ymax c hc (pos lx xs) vy (pos lx xs < xmax) (vy ≤ ymax)
              id le_of_lt le_of_lt id hb
      | some ys =>
        cases ey with
        | num _ => simp [valOk] at hy
        | lab ly =>
          have hly := mem_of_contains (by simpa [valOk] using hy : ys.contains ly = true)
          simp only [catsOk] at hcy
          simp only [specOnBoundary, specPoint, plotPos, plotCoord, applyPre, Option.map_some] at hb
          simp only [rangeToState, mask_and, specSelected, specPoint, plotPos, plotCoord, applyPre, Option.map_some]
          rw [mask_catRange none xs hcx xmin xmax .x _ lx rfl hlx, mask_catRange none ys hcy ymin ymax .y _ ly rfl hly]
          exact rect0_core xmin xmax ymin ymax c hc (pos lx xs) (pos ly ys) (pos lx xs < xmax) (pos ly ys < ymax)
            id le_of_lt id le_of_lt hb

end GlueVerif.C09
