import GlueVerif.Model.C09Roi
namespace GlueVerif.C09
end GlueVerif.C09
