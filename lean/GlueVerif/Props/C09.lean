import GlueVerif.Lemmas.C09Dispatch
import GlueVerif.Lemmas.C09Rect
import GlueVerif.Lemmas.C09Order
import GlueVerif.Lemmas.C09Scale
/-!
# C09 — a drawn region becomes a selection of exactly the points the region contains

Property theorems only.  Every statement is about the executable definitions in
`GlueVerif.Model.C09Roi` that `Drivers/C09.lean` runs against `roi_to_subset_state` +
`Data.get_mask` on every check: `roiToState` (the dispatch, with the F9 repair), `mask`
(`to_mask` of the state classes), `specSelected` ("the plotted position lies in the region") and
`specOnBoundary` (the excluded boundary).  Labels are integers; the plotted position of a label is
its index in the category list **as passed** to `roi_to_subset_state` / `from_range` (position `i` ↔
`categories[i]`); the list is duplicate free (`noDup`) but in **any order** — sorted when it comes
from `np.unique` as in the viewers, custom-ordered for `CategoricalComponent(labels, categories=…)`;
`none` is NaN.  All statements hold for every rational region parameter, every category list (every
order, every number of categories) and every data value — nothing is bounded.
-/
namespace GlueVerif.C09
open GlueVerif.ArrayUtil GlueVerif.C09.Lemmas

/-! ## Range regions -/

/-- `RangeROI` on a numeric axis (`RangeSubsetState`, inclusive bounds) selects exactly the values
strictly inside the range, the two end points excepted; NaN is never selected; the other
coordinate (any kind, also NaN) is irrelevant.  Both orientations. -/
theorem range_numeric (lo hi : Rat) (q : Option Rat) (other : Val) (oc : Option (List Int)) :
    (specOnBoundary (.range .x lo hi) none oc none ⟨.num q, other⟩ = false →
      mask none (roiToState (.range .x lo hi) none oc false) ⟨.num q, other⟩ =
        specSelected (.range .x lo hi) none oc none ⟨.num q, other⟩) ∧
    (specOnBoundary (.range .y lo hi) oc none none ⟨other, .num q⟩ = false →
      mask none (roiToState (.range .y lo hi) oc none false) ⟨other, .num q⟩ =
        specSelected (.range .y lo hi) oc none none ⟨other, .num q⟩) := by
  constructor <;> intro hb <;> cases q with
  | none => simp [roiToState, rangeToState, mask, Elem.get, specSelected, specPoint, plotCoord]
  | some v =>
    simp only [specOnBoundary, specPoint, plotCoord, Option.map_some, onBoundary, Bool.or_eq_false_iff,
      decide_eq_false_iff_not] at hb
    simp only [roiToState, rangeToState, mask, Elem.get, specSelected, specPoint, plotCoord,
      Option.map_some, roiContains, ge_iff_le]
    exact closed_eq_open lo hi v hb.1 hb.2

/-- The arithmetic of `CategoricalROI.from_range`: for **all** rational bounds and every category
position `i`, `⌈lo⌉⁺ ≤ i < ⌈hi⌉⁺` (ceil of positive bounds, else 0 — the slice the code takes) holds
exactly when `lo < i < hi`, unless `i = lo`. -/
theorem from_range_positions (lo hi : Rat) (i : Nat) (h : ((i : Int) : Rat) ≠ lo) :
    (clampCeil lo ≤ i ∧ i < clampCeil hi) ↔ (lo < ((i : Int) : Rat) ∧ ((i : Int) : Rat) < hi) := by
  rw [clampCeil_le, lt_clampCeil]
  constructor
  · rintro ⟨a, b⟩; exact ⟨lt_of_le_of_ne a (Ne.symm h), b⟩
  · rintro ⟨a, b⟩; exact ⟨le_of_lt a, b⟩

/-- `RangeROI` on a categorical axis (`CategoricalROI.from_range` → slice of the category list →
`np.unique` → `searchsorted` + equality): an element is selected exactly when its category position
lies strictly inside the range, the position `lo` excepted — for every rational range, every
duplicate-free category list **in any order** (any number of categories; the slice is re-sorted by
`update_categories` before `searchsorted` looks at it) and every label of it. -/
theorem range_categorical (lo hi : Rat) (cs : List Int) (hs : noDup cs = true) (l : Int)
    (hl : l ∈ cs) (other : Val) (oc : Option (List Int)) :
    (specOnBoundary (.range .x lo hi) (some cs) oc none ⟨.lab l, other⟩ = false →
      mask none (roiToState (.range .x lo hi) (some cs) oc false) ⟨.lab l, other⟩ =
        specSelected (.range .x lo hi) (some cs) oc none ⟨.lab l, other⟩) ∧
    (specOnBoundary (.range .y lo hi) oc (some cs) none ⟨other, .lab l⟩ = false →
      mask none (roiToState (.range .y lo hi) oc (some cs) false) ⟨other, .lab l⟩ =
        specSelected (.range .y lo hi) oc (some cs) none ⟨other, .lab l⟩) := by
  constructor <;> intro hb
  · simp only [specOnBoundary, specPoint, plotCoord, Option.map_some, onBoundary, Bool.or_eq_false_iff,
      decide_eq_false_iff_not] at hb
    simp only [roiToState, rangeToState, specSelected, specPoint, plotCoord, Option.map_some, roiContains]
    rw [mask_catRange none cs hs lo hi .x _ l rfl hl]
    exact halfopen_eq_open lo hi _ hb.1
  · simp only [specOnBoundary, specPoint, plotCoord, Option.map_some, onBoundary, Bool.or_eq_false_iff,
      decide_eq_false_iff_not] at hb
    simp only [roiToState, rangeToState, specSelected, specPoint, plotCoord, Option.map_some, roiContains]
    rw [mask_catRange none cs hs lo hi .y _ l rfl hl]
    exact halfopen_eq_open lo hi _ hb.1

example : noDup [2, 5, 7] = true ∧ (5 : Int) ∈ [2, 5, 7] ∧
    fromRange [2, 5, 7] (1 / 2) (5 / 2) = [5, 7] ∧ fromRange [2, 5, 7] 1 (3 / 2) = [5] := by decide +kernel

/-- an unsorted list: positions 1, 2 hold the labels 2, 5; the stored categories are re-sorted -/
example : noDup [7, 5, 2, 9] = true ∧ fromRange [7, 5, 2, 9] (1 / 2) (5 / 2) = [2, 5] ∧
    catRoiContains (fromRange [7, 5, 2, 9] (1 / 2) (5 / 2)) 5 = true ∧
    catRoiContains (fromRange [7, 5, 2, 9] (1 / 2) (5 / 2)) 7 = false := by decide +kernel

/-- **`from_range` on an unsorted list.**  For any duplicate-free category list in any order and any
rational `lo`, `hi`: the ROI built by `CategoricalROI.from_range` (clamped ceilings → slice →
`update_categories` = sort/unique → `contains` = `searchsorted` + clamp + equality) contains a label of
the list exactly when its position in the list **as passed** lies strictly inside `(lo, hi)`, the
position `= lo` excepted; a label that is not in the list is never contained. -/
theorem from_range_unsorted (cs : List Int) (hnd : noDup cs = true) (lo hi : Rat) (l : Int) :
    (l ∈ cs → pos l cs ≠ lo →
      catRoiContains (fromRange cs lo hi) l = (decide (lo < pos l cs) && decide (pos l cs < hi))) ∧
    (l ∉ cs → catRoiContains (fromRange cs lo hi) l = false) := by
  constructor
  · intro hl hne
    rw [fromRange_contains cs hnd lo hi l hl]
    exact halfopen_eq_open lo hi _ hne
  · intro hl
    unfold fromRange
    rw [catRoiContains_eq_mem _ (Lemmas.strictSorted_categories _), decide_eq_false_iff_not,
      Lemmas.mem_categories, mem_pySlice_iff]
    rintro ⟨i, _, _, h⟩
    exact hl (List.mem_of_getElem? h)

/-- The same for **every** list, duplicates included (the Spec the `frange` family evaluates on the
real `from_range(...).contains(...)`): the answer is the one demanded by one of the label's positions
in the list as passed. -/
theorem from_range_any_list (cats : List Int) (lo hi : Rat) (l : Int) :
    specFromRange cats lo hi l (catRoiContains (fromRange cats lo hi) l) = true :=
  specFromRange_fromRange cats lo hi l

/-- **Skipping the sort breaks it** (`decide`d witness for the seeded defect class: `from_range`
storing `categories[lo:hi]` as given, `roi.categories = …` instead of `update_categories(…)`).
Categories `['low', 'mid', 'high']` = labels `[1, 2, 0]` (alphabetical order high < low < mid), range
`(-1.5, 2.5)` covers all three positions: the label at position 2 is inside the range, the repaired
/ pinned code (`fromRange`) contains it, the unsorted variant does not — neither with the model's
`searchsorted` (number of leading smaller elements) nor with numpy's literal binary search. -/
theorem contains_needs_sorted :
    let cs : List Int := [1, 2, 0]
    let lo : Rat := -3 / 2
    let hi : Rat := 5 / 2
    noDup cs = true ∧ indexOf 0 cs = 2 ∧ specFromRange cs lo hi 0 true = true ∧
    specFromRange cs lo hi 0 false = false ∧
    catRoiContains (fromRange cs lo hi) 0 = true ∧
    fromRangeNoSort cs lo hi = [1, 2, 0] ∧
    catRoiContains (fromRangeNoSort cs lo hi) 0 = false ∧
    catRoiContainsBin (fromRangeNoSort cs lo hi) 0 = false ∧
    -- on the sorted slice both searches agree and find it
    catRoiContainsBin (fromRange cs lo hi) 0 = true := by
  decide +kernel

/-! ## Categorical regions -/

/-- `CategoricalROI(labels)` (labels in any order, with duplicates) selects exactly the elements
whose x label is listed — `np.unique`, `searchsorted`, the index clamp and the equality test
together decide membership. -/
theorem categorical_roi (labels : List Int) (xc yc : Option (List Int))
    (hany : (xc.isSome || yc.isSome) = true) (usePre : Bool) (pre : Option Affine) (l : Int) (other : Val) :
    mask pre (roiToState (.categorical labels) xc yc usePre) ⟨.lab l, other⟩ =
      specSelected (.categorical labels) xc yc pre ⟨.lab l, other⟩ := by
  simp only [roiToState, hany, if_true, mask, Elem.get, specSelected]
  rw [catRoiContains_eq_mem _ (Lemmas.strictSorted_categories labels)]
  rw [Bool.eq_iff_iff]
  simp [Lemmas.mem_categories]

/-! ## Rectangles on categorical axes -/

/-- An unrotated rectangle (`θ ≡ 0 mod π`) with at least one categorical axis is decomposed into
two ranges joined by `AndState`; off the rectangle's boundary the selection is exactly the open
rectangle, for the three axis-kind combinations and NaN values.  (Rotated rectangles take the
polygon-like branches after the F9 repair: `polygon_cat_cat`, `rect_rotated_cat_num`.) -/
theorem rect_categorical (xmin xmax ymin ymax c : Rat) (hc : c * c = 1) (xc yc : Option (List Int))
    (hcx : catsOk xc = true) (hcy : catsOk yc = true) (hany : (xc.isSome || yc.isSome) = true)
    (usePre : Bool) (e : Elem) (hx : valOk xc e.x = true) (hy : valOk yc e.y = true)
    (hb : specOnBoundary (.rect xmin xmax ymin ymax c 0) xc yc none e = false) :
    mask none (roiToState (.rect xmin xmax ymin ymax c 0) xc yc usePre) e =
      specSelected (.rect xmin xmax ymin ymax c 0) xc yc none e := by
  obtain ⟨ex, ey⟩ := e
  have hstate : roiToState (.rect xmin xmax ymin ymax c 0) xc yc usePre =
      .and (rangeToState .x xmin xmax xc) (rangeToState .y ymin ymax yc) := by
    simp [roiToState, hany]
  rw [hstate]
  cases xc with
  | none =>
    cases yc with
    | none => simp at hany
    | some ys =>
      cases ex with
      | lab _ => simp [valOk] at hx
      | num qx =>
        cases ey with
        | num _ => simp [valOk] at hy
        | lab ly =>
          have hly := mem_of_contains (by simpa [valOk] using hy : ys.contains ly = true)
          simp only [catsOk] at hcy
          cases qx with
          | none =>
            simp [rangeToState, mask, Elem.get, specSelected, specPoint, plotPos, plotCoord]
          | some vx =>
            simp only [specOnBoundary, specPoint, plotPos, plotCoord, applyPre, Option.map_some] at hb
            simp only [rangeToState, mask_and, specSelected, specPoint, plotPos, plotCoord, applyPre, Option.map_some]
            rw [mask_numRange none xmin xmax .x _ (some vx) rfl, mask_catRange none ys hcy ymin ymax .y _ ly rfl hly]
            exact rect0_core xmin xmax ymin ymax c hc vx (pos ly ys) (vx ≤ xmax) (pos ly ys < ymax)
              le_of_lt id id le_of_lt hb
  | some xs =>
    cases ex with
    | num _ => simp [valOk] at hx
    | lab lx =>
      have hlx := mem_of_contains (by simpa [valOk] using hx : xs.contains lx = true)
      simp only [catsOk] at hcx
      cases yc with
      | none =>
        cases ey with
        | lab _ => simp [valOk] at hy
        | num qy =>
          cases qy with
          | none =>
            simp [rangeToState, mask, Elem.get, specSelected, specPoint, plotPos, plotCoord]
          | some vy =>
            simp only [specOnBoundary, specPoint, plotPos, plotCoord, applyPre, Option.map_some] at hb
            simp only [rangeToState, mask_and, specSelected, specPoint, plotPos, plotCoord, applyPre, Option.map_some]
            rw [mask_catRange none xs hcx xmin xmax .x _ lx rfl hlx, mask_numRange none ymin ymax .y _ (some vy) rfl]
            exact rect0_core xmin xmax ymin ymax c hc (pos lx xs) vy (pos lx xs < xmax) (vy ≤ ymax)
              id le_of_lt le_of_lt id hb
      | some ys =>
        cases ey with
        | num _ => simp [valOk] at hy
        | lab ly =>
          have hly := mem_of_contains (by simpa [valOk] using hy : ys.contains ly = true)
          simp only [catsOk] at hcy
          simp only [specOnBoundary, specPoint, plotPos, plotCoord, applyPre, Option.map_some] at hb
          simp only [rangeToState, mask_and, specSelected, specPoint, plotPos, plotCoord, applyPre, Option.map_some]
          rw [mask_catRange none xs hcx xmin xmax .x _ lx rfl hlx, mask_catRange none ys hcy ymin ymax .y _ ly rfl hly]
          exact rect0_core xmin xmax ymin ymax c hc (pos lx xs) (pos ly ys) (pos lx xs < xmax) (pos ly ys < ymax)
            id le_of_lt id le_of_lt hb

/-! ## Polygon-like regions -/

/-- Both axes categorical (`CategoricalROISubsetState2D`): the table built by the double loop over
category codes, looked up through the two Python dict/set levels, selects an element exactly when
the region contains the pair of category positions — for polygons, circles, ellipses, rotated
rectangles and (with `use_pretransform`) ranges; every pair of category lists.  No boundary
exception is needed at the model level: the table is filled by the region's own `contains`. -/
theorem polygon_cat_cat (r : Roi) (usePre : Bool) (hr : isPolygonLike r usePre = true)
    (xs ys : List Int) (hsx : noDup xs = true) (hsy : noDup ys = true)
    (l1 l2 : Int) (h1 : l1 ∈ xs) (h2 : l2 ∈ ys) :
    mask none (roiToState r (some xs) (some ys) usePre) ⟨.lab l1, .lab l2⟩ =
      specSelected r (some xs) (some ys) none ⟨.lab l1, .lab l2⟩ := by
  have key := mask_cat2d none r xs ys hsx hsy l1 l2 h1 h2
  rw [roiContainsImpl_eq] at key
  cases r with
  | categorical _ => simp [isPolygonLike] at hr
  | range ori lo hi =>
    have hu : usePre = true := by simpa [isPolygonLike] using hr
    subst hu
    cases ori <;>
      simp only [roiToState, polygonLike, Option.isSome_some, Bool.or_self, if_true, specSelected, specPoint,
        plotCoord, Option.map_some] <;> rw [key] <;> rfl
  | rect xmin xmax ymin ymax c s =>
    have hs : s ≠ 0 := by simpa [isPolygonLike] using hr
    simp only [roiToState, polygonLike, Option.isSome_some, Bool.or_self, if_true, hs, if_false, specSelected,
      specPoint, plotPos, plotCoord, applyPre, Option.map_some]
    exact key
  | circle _ _ _ | ellipse _ _ _ _ _ _ | poly _ =>
    simp only [roiToState, polygonLike, Option.isSome_some, Bool.or_self, if_true, specSelected,
      specPoint, plotPos, plotCoord, applyPre, Option.map_some]
    exact key

/-- One categorical axis (`CategoricalMultiRangeSubsetState`): per category code the code intersects
the region's polygon with the line `category = code` (`polygon_line_intersections`: vertex hits,
proper crossings, sort/unique, mid-point test) and keeps the segments.  For **every** region sent
down this path, every category list and every numeric value whose plotted point is off the
polygon's boundary, the element is selected exactly when the plotted point is inside the polygon
`roi.to_polygon()` (even-odd rule) — on either axis; NaN values are never selected.
The key lemma (`Lemmas.pli_correct`) — along a line the inside test is constant between
consecutive crossing ordinates — is proved in full. -/
theorem polygonised_cat_num (r : Roi) (usePre : Bool) (hr : isPolygonLike r usePre = true)
    (cs : List Int) (hs : noDup cs = true) (l : Int) (hl : l ∈ cs) (v : Rat) :
    (onPolyBoundary (roiToPolygon r) ⟨pos l cs, v⟩ = false →
      mask none (roiToState r (some cs) none usePre) ⟨.lab l, .num (some v)⟩ =
        evenOdd (roiToPolygon r) ⟨pos l cs, v⟩) ∧
    (onPolyBoundary (roiToPolygon r) ⟨v, pos l cs⟩ = false →
      mask none (roiToState r none (some cs) usePre) ⟨.num (some v), .lab l⟩ =
        evenOdd (roiToPolygon r) ⟨v, pos l cs⟩) ∧
    mask none (roiToState r (some cs) none usePre) ⟨.lab l, .num none⟩ = false ∧
    mask none (roiToState r none (some cs) usePre) ⟨.num none, .lab l⟩ = false := by
  have hst1 : roiToState r (some cs) none usePre = .catMulti (selMulti (roiToPolygon r) cs) .x .y := by
    cases r with
    | categorical _ => simp [isPolygonLike] at hr
    | range ori lo hi =>
      have hu : usePre = true := by simpa [isPolygonLike] using hr
      subst hu
      cases ori <;> simp [roiToState, polygonLike]
    | rect xmin xmax ymin ymax c s =>
      have hs : s ≠ 0 := by simpa [isPolygonLike] using hr
      simp [roiToState, polygonLike, hs]
    | circle _ _ _ | ellipse _ _ _ _ _ _ | poly _ => simp [roiToState, polygonLike]
  have hst2 : roiToState r none (some cs) usePre =
      .catMulti (selMulti ((roiToPolygon r).map Pt.swap) cs) .y .x := by
    cases r with
    | categorical _ => simp [isPolygonLike] at hr
    | range ori lo hi =>
      have hu : usePre = true := by simpa [isPolygonLike] using hr
      subst hu
      cases ori <;> simp [roiToState, polygonLike]
    | rect xmin xmax ymin ymax c s =>
      have hs : s ≠ 0 := by simpa [isPolygonLike] using hr
      simp [roiToState, polygonLike, hs]
    | circle _ _ _ | ellipse _ _ _ _ _ _ | poly _ => simp [roiToState, polygonLike]
  refine ⟨?_, ?_, ?_, ?_⟩
  · intro hb
    rw [hst1, mask_catMulti none _ cs hs .x .y _ l v rfl rfl hl]
    exact pli_correct _ _ _ hb
  · intro hb
    rw [hst2, mask_catMulti none _ cs hs .y .x _ l v rfl rfl hl]
    have hb' : onPolyBoundary ((roiToPolygon r).map Pt.swap) ⟨pos l cs, v⟩ = false := by
      have := onPolyBoundary_swap (roiToPolygon r) ⟨v, pos l cs⟩
      simp only [Pt.swap] at this
      rw [this]; exact hb
    rw [pli_correct _ _ _ hb']
    have := evenOdd_swap (roiToPolygon r) ⟨v, pos l cs⟩ hb
    simpa [Pt.swap] using this
  · rw [hst1]; exact mask_catMulti_nan none _ .x .y _ rfl
  · rw [hst2]; exact mask_catMulti_nan none _ .y .x _ rfl

/-- `PolygonalROI` with one categorical axis: the selection is exactly the set of elements whose
plotted point lies in the polygon (the property's own statement), off the boundary; any polygon —
open or closed vertex list, concave, self-intersecting, with edges on category positions. -/
theorem polygon_cat_num (vs : List Pt) (usePre : Bool) (cs : List Int) (hs : noDup cs = true)
    (l : Int) (hl : l ∈ cs) (q : Option Rat) :
    (specOnBoundary (.poly vs) (some cs) none none ⟨.lab l, .num q⟩ = false →
      mask none (roiToState (.poly vs) (some cs) none usePre) ⟨.lab l, .num q⟩ =
        specSelected (.poly vs) (some cs) none none ⟨.lab l, .num q⟩) ∧
    (specOnBoundary (.poly vs) none (some cs) none ⟨.num q, .lab l⟩ = false →
      mask none (roiToState (.poly vs) none (some cs) usePre) ⟨.num q, .lab l⟩ =
        specSelected (.poly vs) none (some cs) none ⟨.num q, .lab l⟩) := by
  have h := polygonised_cat_num (.poly vs) usePre rfl cs hs l hl
  cases q with
  | none =>
    have := h 0
    constructor <;> intro _
    · rw [this.2.2.1]; simp [specSelected, specPoint, plotPos, plotCoord]
    · rw [this.2.2.2]; simp [specSelected, specPoint, plotPos, plotCoord]
  | some v =>
    have := h v
    constructor <;> intro hb
    · simp only [specOnBoundary, specPoint, plotPos, plotCoord, applyPre, Option.map_some, onBoundary] at hb
      simp only [specSelected, specPoint, plotPos, plotCoord, applyPre, Option.map_some, roiContains]
      exact this.1 hb
    · simp only [specOnBoundary, specPoint, plotPos, plotCoord, applyPre, Option.map_some, onBoundary] at hb
      simp only [specSelected, specPoint, plotPos, plotCoord, applyPre, Option.map_some, roiContains]
      exact this.2.1 hb

/-- **Rotated rectangle on one categorical axis** (the path the F9 repair sends it down): for every
rotation `(c, s)` with `s ≠ 0`, ordered bounds, every category list and every value, off the
rectangle's boundary the selection is exactly the rotated rectangle `|u| < w/2 ∧ |v| < h/2`.
Rests on `Lemmas.rotRect_evenOdd`: the even-odd test of the corner polygon equals the rectangle
inequality — by rotation invariance of the even-odd rule (`Lemmas.evenOdd_rot`: a rotation is three
shears; horizontal shears leave matplotlib's rule literally unchanged, vertical ones by direction
independence) and the axis-aligned box. -/
theorem rect_rotated_cat_num (xmin xmax ymin ymax c s : Rat) (hu : c * c + s * s = 1) (hs : s ≠ 0)
    (hx : xmin ≤ xmax) (hy : ymin ≤ ymax) (usePre : Bool) (cs : List Int)
    (hcs : noDup cs = true) (l : Int) (hl : l ∈ cs) (q : Option Rat) :
    (specOnBoundary (.rect xmin xmax ymin ymax c s) (some cs) none none ⟨.lab l, .num q⟩ = false →
      mask none (roiToState (.rect xmin xmax ymin ymax c s) (some cs) none usePre) ⟨.lab l, .num q⟩ =
        specSelected (.rect xmin xmax ymin ymax c s) (some cs) none none ⟨.lab l, .num q⟩) ∧
    (specOnBoundary (.rect xmin xmax ymin ymax c s) none (some cs) none ⟨.num q, .lab l⟩ = false →
      mask none (roiToState (.rect xmin xmax ymin ymax c s) none (some cs) usePre) ⟨.num q, .lab l⟩ =
        specSelected (.rect xmin xmax ymin ymax c s) none (some cs) none ⟨.num q, .lab l⟩) := by
  have hr : isPolygonLike (.rect xmin xmax ymin ymax c s) usePre = true := by simp [isPolygonLike, hs]
  have h := polygonised_cat_num (.rect xmin xmax ymin ymax c s) usePre hr cs hcs l hl
  cases q with
  | none =>
    have := h 0
    constructor <;> intro _
    · rw [this.2.2.1]; simp [specSelected, specPoint, plotPos, plotCoord]
    · rw [this.2.2.2]; simp [specSelected, specPoint, plotPos, plotCoord]
  | some v =>
    have := h v
    constructor <;> intro hb
    · simp only [specOnBoundary, specPoint, plotPos, plotCoord, applyPre, Option.map_some] at hb
      have hrr := rotRect_evenOdd xmin xmax ymin ymax c s hu hs hx hy _ hb
      simp only [specSelected, specPoint, plotPos, plotCoord, applyPre, Option.map_some]
      rw [this.1 hrr.2, hrr.1]
    · simp only [specOnBoundary, specPoint, plotPos, plotCoord, applyPre, Option.map_some] at hb
      have hrr := rotRect_evenOdd xmin xmax ymin ymax c s hu hs hx hy _ hb
      simp only [specSelected, specPoint, plotPos, plotCoord, applyPre, Option.map_some]
      rw [this.2.1 hrr.2, hrr.1]

/-- Both axes numeric (`RoiSubsetState`, optional pretransform): the selection is the region's own
containment test on the (transformed) point, NaN never selected; `PolygonalROI` goes through the
bounding-box prefilter, which never changes the answer (`Lemmas.evenOdd_imp_bbox`).  Holds on the
boundary too.  (A `RangeROI` reaches this branch only with `use_pretransform`.) -/
theorem numeric_numeric (r : Roi) (hr : r.isCategorical = false) (usePre : Bool)
    (hu : r.isRange = true → usePre = true) (pre : Option Affine) (qx qy : Option Rat) :
    mask pre (roiToState r none none usePre) ⟨.num qx, .num qy⟩ =
      specSelected r none none pre ⟨.num qx, .num qy⟩ := by
  cases r with
  | categorical _ => simp [Roi.isCategorical] at hr
  | range ori lo hi =>
    have hu' : usePre = true := hu rfl
    subst hu'
    cases ori <;> cases pre <;> cases qx <;> cases qy <;>
      simp [roiToState, mask, specSelected, specPoint, plotPos, plotCoord, applyPre, roiContains] <;>
      rfl
  | poly vs =>
    cases qx <;> cases qy <;>
      simp [roiToState, mask, specSelected, specPoint, plotPos, plotCoord, roiContains, pointsInsidePoly_eq]
  | rect _ _ _ _ _ _ | circle _ _ _ | ellipse _ _ _ _ _ _ =>
    cases qx <;> cases qy <;>
      simp [roiToState, mask, specSelected, specPoint, plotPos, plotCoord]

/-! ## Category order -/

/-- **The order of the category list is irrelevant beyond fixing the positions**: the selection is a
function of the plotted positions only.  Take one region and two situations with the same axis kinds
whose categorical axes carry *any* two duplicate-free category lists — in any order, of any length,
even with different labels — and two elements with the same plotted coordinates (label at the same
index of the respective list as passed / same numeric value).  Then `roi_to_subset_state` + `to_mask`
give the same answer for both, on the boundary too.  In particular reordering the categories
(reversing, rotating, sorting, a custom `categories=` order) changes *which labels* are selected only
through which positions they occupy: the selected labels are exactly the labels at the selected
positions.  (`CategoricalROI` regions select labels, not positions — `categorical_roi`.)  Sortedness
is an internal need of `CategoricalROI.contains`, established by `update_categories`
(`contains_needs_sorted`). -/
theorem category_order_irrelevant (r : Roi) (hr : r.isCategorical = false)
    (xc yc xc' yc' : Option (List Int)) (usePre : Bool) (pre : Option Affine) (e e' : Elem)
    (hcx : catsOk xc = true) (hcy : catsOk yc = true) (hcx' : catsOk xc' = true) (hcy' : catsOk yc' = true)
    (hkx : xc.isSome = xc'.isSome) (hky : yc.isSome = yc'.isSome)
    (hvx : valOk xc e.x = true) (hvy : valOk yc e.y = true)
    (hvx' : valOk xc' e'.x = true) (hvy' : valOk yc' e'.y = true)
    (hpx : plotCoord xc e.x = plotCoord xc' e'.x) (hpy : plotCoord yc e.y = plotCoord yc' e'.y) :
    mask pre (roiToState r xc yc usePre) e = mask pre (roiToState r xc' yc' usePre) e' :=
  mask_positions_only r hr xc yc xc' yc' usePre pre e e' hcx hcy hcx' hcy' hkx hky hvx hvy hvx' hvy' hpx hpy

/-- e.g. `['low','mid','high']` in its natural order vs the alphabetically sorted list: position 2
is `high` (0) in one, `mid` (2) in the other — same mask value for every region -/
example (r : Roi) (hr : r.isCategorical = false) (q : Option Rat) :
    mask none (roiToState r (some [1, 2, 0]) none false) ⟨.lab 0, .num q⟩ =
      mask none (roiToState r (some [0, 1, 2]) none false) ⟨.lab 2, .num q⟩ :=
  category_order_irrelevant r hr _ _ _ _ false none _ _ (by decide) rfl (by decide) rfl rfl rfl
    (by simp [valOk]) rfl (by simp [valOk]) rfl (by simp [plotCoord, ArrayUtil.indexOf]) rfl

/-- The category lists the harness passes satisfy the hypotheses of the theorems above: the sorted
unique list the viewers compute (`np.unique`), and any duplicate-free list in any order together
with its labels. -/
theorem categories_ok (xs : List Int) :
    (catsOk (some (categories xs)) = true ∧ ∀ l ∈ xs, valOk (some (categories xs)) (.lab l) = true) ∧
    (noDup xs = true → catsOk (some xs) = true ∧ ∀ l ∈ xs, valOk (some xs) (.lab l) = true) := by
  refine ⟨⟨noDup_of_strictSorted _ (Lemmas.strictSorted_categories xs), ?_⟩, fun h => ⟨h, ?_⟩⟩
  · intro l hl
    simp [valOk, Lemmas.mem_categories, hl]
  · intro l hl
    simp [valOk, hl]

example : catsOk (some [7, 2, 5]) = true ∧ catsOk (some [5, 2, 5]) = false ∧
    strictSorted [7, 2, 5] = false := by decide

/-! ## The property, all paths together -/

/-- **Main theorem.**  For every region, every pair of axis kinds, every category list, every
data element and every `use_pretransform` / pretransform inside `inScope` (well-kinded inputs as
the viewers produce them, category lists duplicate free **in any order**; on the one-categorical-axis polygon path the region is a polygon or a
rotated rectangle with ordered bounds — for circles / ellipses see `polygonised_cat_num`): if the element's plotted position is not on the
region's boundary, the state built by `roi_to_subset_state` selects the element **iff** its plotted
position lies in the region. -/
theorem roi_selection (r : Roi) (xc yc : Option (List Int)) (usePre : Bool) (pre : Option Affine)
    (e : Elem) (hs : inScope r xc yc usePre pre e = true)
    (hb : specOnBoundary r xc yc pre e = false) :
    mask pre (roiToState r xc yc usePre) e = specSelected r xc yc pre e := by
  simp only [inScope, Bool.and_eq_true] at hs
  obtain ⟨⟨⟨⟨⟨⟨⟨hcx, hcy⟩, hvx⟩, hvy⟩, hunit⟩, hpre⟩, hcat⟩, hpoly⟩ := hs
  obtain ⟨ex, ey⟩ := e
  simp only at hvx hvy
  -- the three axis-kind situations
  rcases hx : xc with _ | xs <;> rcases hy : yc with _ | ys <;> subst hx <;> subst hy
  · -- numeric / numeric
    cases ex with
    | lab _ => simp [valOk] at hvx
    | num qx =>
      cases ey with
      | lab _ => simp [valOk] at hvy
      | num qy =>
        cases r with
        | categorical _ => simp [Roi.isCategorical] at hcat
        | range ori lo hi =>
          cases usePre with
          | true => exact numeric_numeric _ rfl true (fun _ => rfl) pre qx qy
          | false =>
            have hp : pre = none := by cases pre <;> simp_all
            subst hp
            cases ori
            · exact (range_numeric lo hi qx (.num qy) none).1 hb
            · exact (range_numeric lo hi qy (.num qx) none).2 hb
        | rect _ _ _ _ _ _ => exact numeric_numeric _ rfl usePre (fun h => by simp [Roi.isRange] at h) pre qx qy
        | circle _ _ _ => exact numeric_numeric _ rfl usePre (fun h => by simp [Roi.isRange] at h) pre qx qy
        | ellipse _ _ _ _ _ _ => exact numeric_numeric _ rfl usePre (fun h => by simp [Roi.isRange] at h) pre qx qy
        | poly _ => exact numeric_numeric _ rfl usePre (fun h => by simp [Roi.isRange] at h) pre qx qy
  · -- numeric x, categorical y
    have hp : pre = none := by cases pre <;> simp_all
    subst hp
    cases ex with
    | lab _ => simp [valOk] at hvx
    | num qx =>
      cases ey with
      | num _ => simp [valOk] at hvy
      | lab ly =>
        have hly := mem_of_contains (by simpa [valOk] using hvy : ys.contains ly = true)
        have hsy : noDup ys = true := hcy
        cases r with
        | categorical _ => simp [Roi.isCategorical] at hcat
        | range ori lo hi =>
          cases usePre with
          | true => simp [isPolygonLike, Roi.isPoly, Roi.isOrderedRect] at hpoly
          | false =>
            cases ori
            · exact (range_numeric lo hi qx (.lab ly) (some ys)).1 hb
            · exact (range_categorical lo hi ys hsy ly hly (.num qx) none).2 hb
        | rect xmin xmax ymin ymax c s =>
          by_cases hs0 : s = 0
          · subst hs0
            have hc : c * c = 1 := by simpa [Roi.unitOk] using hunit
            exact rect_categorical xmin xmax ymin ymax c hc none (some ys) rfl hcy rfl usePre _ rfl hvy hb
          · have hu : c * c + s * s = 1 := by simpa [Roi.unitOk] using hunit
            have hord : xmin ≤ xmax ∧ ymin ≤ ymax := by
              simpa [isPolygonLike, Roi.isPoly, Roi.isOrderedRect, hs0] using hpoly
            exact (rect_rotated_cat_num xmin xmax ymin ymax c s hu hs0 hord.1 hord.2 usePre ys hsy ly hly qx).2 hb
        | circle _ _ _ => simp [isPolygonLike, Roi.isPoly, Roi.isOrderedRect] at hpoly
        | ellipse _ _ _ _ _ _ => simp [isPolygonLike, Roi.isPoly, Roi.isOrderedRect] at hpoly
        | poly vs => exact (polygon_cat_num vs usePre ys hsy ly hly qx).2 hb
  · -- categorical x, numeric y
    have hp : pre = none := by cases pre <;> simp_all
    subst hp
    cases ex with
    | num _ => simp [valOk] at hvx
    | lab lx =>
      have hlx := mem_of_contains (by simpa [valOk] using hvx : xs.contains lx = true)
      have hsx : noDup xs = true := hcx
      cases ey with
      | lab _ => simp [valOk] at hvy
      | num qy =>
        cases r with
        | categorical labels => exact categorical_roi labels (some xs) none rfl usePre none lx _
        | range ori lo hi =>
          cases usePre with
          | true => simp [isPolygonLike, Roi.isPoly, Roi.isOrderedRect] at hpoly
          | false =>
            cases ori
            · exact (range_categorical lo hi xs hsx lx hlx (.num qy) none).1 hb
            · exact (range_numeric lo hi qy (.lab lx) (some xs)).2 hb
        | rect xmin xmax ymin ymax c s =>
          by_cases hs0 : s = 0
          · subst hs0
            have hc : c * c = 1 := by simpa [Roi.unitOk] using hunit
            exact rect_categorical xmin xmax ymin ymax c hc (some xs) none hcx rfl rfl usePre _ hvx rfl hb
          · have hu : c * c + s * s = 1 := by simpa [Roi.unitOk] using hunit
            have hord : xmin ≤ xmax ∧ ymin ≤ ymax := by
              simpa [isPolygonLike, Roi.isPoly, Roi.isOrderedRect, hs0] using hpoly
            exact (rect_rotated_cat_num xmin xmax ymin ymax c s hu hs0 hord.1 hord.2 usePre xs hsx lx hlx qy).1 hb
        | circle _ _ _ => simp [isPolygonLike, Roi.isPoly, Roi.isOrderedRect] at hpoly
        | ellipse _ _ _ _ _ _ => simp [isPolygonLike, Roi.isPoly, Roi.isOrderedRect] at hpoly
        | poly vs => exact (polygon_cat_num vs usePre xs hsx lx hlx qy).1 hb
  · -- categorical / categorical
    have hp : pre = none := by cases pre <;> simp_all
    subst hp
    cases ex with
    | num _ => simp [valOk] at hvx
    | lab lx =>
      have hlx := mem_of_contains (by simpa [valOk] using hvx : xs.contains lx = true)
      have hsx : noDup xs = true := hcx
      cases ey with
      | num _ => simp [valOk] at hvy
      | lab ly =>
        have hly := mem_of_contains (by simpa [valOk] using hvy : ys.contains ly = true)
        have hsy : noDup ys = true := hcy
        cases r with
        | categorical labels => exact categorical_roi labels (some xs) (some ys) rfl usePre none lx _
        | range ori lo hi =>
          cases usePre with
          | true => exact polygon_cat_cat _ true rfl xs ys hsx hsy lx ly hlx hly
          | false =>
            cases ori
            · exact (range_categorical lo hi xs hsx lx hlx (.lab ly) (some ys)).1 hb
            · exact (range_categorical lo hi ys hsy ly hly (.lab lx) (some xs)).2 hb
        | rect xmin xmax ymin ymax c s =>
          by_cases hs0 : s = 0
          · subst hs0
            have hc : c * c = 1 := by simpa [Roi.unitOk] using hunit
            exact rect_categorical xmin xmax ymin ymax c hc (some xs) (some ys) hcx hcy rfl usePre _ hvx hvy hb
          · exact polygon_cat_cat _ usePre (by simp [isPolygonLike, hs0]) xs ys hsx hsy lx ly hlx hly
        | circle _ _ _ => exact polygon_cat_cat _ usePre rfl xs ys hsx hsy lx ly hlx hly
        | ellipse _ _ _ _ _ _ => exact polygon_cat_cat _ usePre rfl xs ys hsx hsy lx ly hlx hly
        | poly _ => exact polygon_cat_cat _ usePre rfl xs ys hsx hsy lx ly hlx hly

/-- The scope is inhabited by non-trivial inputs of every kind. -/
example :
    inScope (.poly [⟨1 / 2, -1⟩, ⟨5 / 2, 1⟩, ⟨1 / 2, 3⟩]) (some [2, 5, 7]) none false none
      ⟨.lab 5, .num (some (3 / 2))⟩ = true ∧
    inScope (.poly [⟨1 / 2, -1⟩, ⟨5 / 2, 1⟩, ⟨1 / 2, 3⟩]) (some [7, 2, 5]) none false none
      ⟨.lab 5, .num (some (3 / 2))⟩ = true ∧
    inScope (.rect 0 2 (-1) 1 (-1) 0) none (some [1, 4]) false none ⟨.num none, .lab 4⟩ = true ∧
    inScope (.circle 1 1 2) (some [0, 1]) (some [3]) false none ⟨.lab 1, .lab 3⟩ = true ∧
    inScope (.ellipse 0 0 2 1 (3 / 5) (4 / 5)) none none true (some ⟨0, 1, 0, 1, 0, 0⟩)
      ⟨.num (some 1), .num (some 0)⟩ = true ∧
    inScope (.range .y (1 / 2) 3) (some [1, 0]) (some [9, 3, 4]) false none ⟨.lab 1, .lab 9⟩ = true ∧
    inScope (.rect (1 / 2) (5 / 2) (-3 / 4) (3 / 4) (3 / 5) (4 / 5)) (some [0, 1, 2, 3]) none false none
      ⟨.lab 2, .num (some (7 / 8))⟩ = true := by
  decide +kernel

/-! ## Units and zero point of a numeric axis -/

/-- **The selection does not depend on the units or the zero point of a numeric axis.**  Rescale one
numeric axis `ax` (`axisCats ax xc yc = none`: the axis is not categorical) by any positive factor
`a` and any offset `b` — region (`Roi.rescale`: range bounds, rectangle / ellipse centre and extent,
polygon vertices) and data (`Elem.rescale`; NaN and labels untouched) alike.  Then, for every region
class closed under this (`Roi.axisAligned`: ranges, polygons, categorical regions, rectangles and
ellipses with `θ ≡ 0 mod π`; a circle on a rescaled axis *is* such an ellipse), every kind of the
other axis (categorical with any list, or numeric) and every element:

* the Spec is unchanged: the plotted position lies in the rescaled region iff it did
  (`specSelected`), and lies on its boundary iff it did (`specOnBoundary`) — in particular matplotlib's
  crossing rule is literally invariant (`Lemmas.crossH_rescale`);
* the model's mask — `roi_to_subset_state` + `to_mask` as coded: inclusive `RangeSubsetState`, the
  `polygon_line_intersections` segments with their exact `sort`/`unique`, the bounding-box prefilter
  — is unchanged, inside the scope of `roi_selection` and off the boundary.

So a flux axis in units of 1e-9 or a Julian-date axis around 2.4e6 must select exactly what the same
picture selects in units of order one: any absolute (`atol`) or magnitude-relative (`rtol·|v|`)
tolerance in the real code violates this at some point of the magnitude / offset ladder the `sel` /
`pli` / `mpl` families run (seeded defect class C09b).  The driver also uses the statement to evaluate
the boundary band of inexact polygon paths in coordinates normalised to the region's own extent. -/
theorem selection_scale_equivariant (ax : Ori) (a b : Rat) (ha : 0 < a) (r : Roi)
    (hr : r.axisAligned = true) (xc yc : Option (List Int)) (hnum : axisCats ax xc yc = none)
    (usePre : Bool) (e : Elem) :
    specSelected (r.rescale ax a b) xc yc none (e.rescale ax a b) = specSelected r xc yc none e ∧
    specOnBoundary (r.rescale ax a b) xc yc none (e.rescale ax a b) = specOnBoundary r xc yc none e ∧
    (inScope r xc yc usePre none e = true → specOnBoundary r xc yc none e = false →
      mask none (roiToState (r.rescale ax a b) xc yc usePre) (e.rescale ax a b) =
        mask none (roiToState r xc yc usePre) e) := by
  have h1 := specSelected_rescale ax ha b r hr xc yc hnum e
  have h2 := specOnBoundary_rescale ax ha b r hr xc yc hnum e
  refine ⟨h1, h2, fun hs hb => ?_⟩
  rw [roi_selection _ _ _ _ _ _ (by rw [inScope_rescale ax ha b]; exact hs) (by rw [h2]; exact hb),
    roi_selection _ _ _ _ _ _ hs hb, h1]

/-- Julian dates: the diamond `|u| + |k - 2| / 2 < 1` of half extent 1/4 day around JD 2459000.5 on
(categorical x, numeric y) is the unit diamond rescaled by `a = 1/4`, `b = 2459000.5`; the element
(category 1, JD 2459000.5625) is the element (category 1, u = 1/4).  Non-trivial instance: the element
is selected, in scope and off the boundary. -/
example :
    let r : Roi := .poly [⟨2, 1⟩, ⟨4, 0⟩, ⟨2, -1⟩, ⟨0, 0⟩]
    let e : Elem := ⟨.lab 3, .num (some (1 / 4))⟩
    let xc := some [1, 3, 4, 6, 8]
    r.axisAligned = true ∧ axisCats .y xc none = none ∧ inScope r xc none false none e = true ∧
    specOnBoundary r xc none none e = false ∧ specSelected r xc none none e = true ∧
    specSelected (r.rescale .y (1 / 4) (4918001 / 2)) xc none none ⟨.lab 3, .num (some (39344009 / 16))⟩ = true ∧
    mask none (roiToState (r.rescale .y (1 / 4) (4918001 / 2)) xc none false)
      (e.rescale .y (1 / 4) (4918001 / 2)) = true := by
  decide +kernel

/-! ## Defect F9 (repaired): rotated rectangle on a categorical axis -/

/-- Witness on the **pinned** dispatch (`roiToStateUnfixed`: every rectangle is decomposed into its
unrotated ranges): `RectangularROI(0.5, 2.5, -0.8, 0.8, θ = π/2)` on (categorical x, numeric y);
the element (category 1, y = 0.9) is inside the rotated rectangle, off its boundary, and is not
selected.  The repaired dispatch selects it. -/
theorem rect_categorical_rotated_witness :
    let r := Roi.rect (1 / 2) (5 / 2) (-4 / 5) (4 / 5) 0 1
    let xc := some [0, 1, 2, 3]
    let e : Elem := ⟨.lab 1, .num (some (9 / 10))⟩
    specSelected r xc none none e = true ∧ specOnBoundary r xc none none e = false ∧
    mask none (roiToStateUnfixed r xc none false) e = false ∧
    mask none (roiToState r xc none false) e = true := by
  decide +kernel

end GlueVerif.C09
