import GlueVerif.Lemmas.C10Stat
import GlueVerif.Lemmas.C10Hist
/-!
# C10 — statistics and histograms equal their definition regardless of chunking or views

Property theorems only; helper lemmas live in `GlueVerif.Lemmas.C10*`.  Every statement is about the
executable definitions of `GlueVerif.Model.Stats` that the driver `Drivers/C10.lean` runs against
`Data.compute_statistic` / `Data.compute_histogram` on every check.  `uStat` is at the same time the
model of `glue.utils.array.compute_statistic` and the textbook definition (every output cell = the
NaN-aware reducer over the kept values of that cell, `nan` when none).
-/
namespace GlueVerif.C10
open GlueVerif.ArrayUtil GlueVerif.Stats

/-! ## minimal sub-array (bounding box) + NaN padding -/

/-- **Bounding box + padding = full computation.** For every statistic and filter setting, every
data array, every view (integers and slices with any positive step, any number of axes), every
selection mask `m`, every set of reduced axes and every in-range output cell `k`: the value the
minimal-subarray path produces (bounding box of the mask from `any` along each axis, view
recombination, statistic on the sub-array, NaN padding; or the bail-out for non-unit steps; or the
all-NaN result for an empty mask) is the statistic of the whole viewed arrays under the viewed mask. -/
theorem stat_bbox_eq (cfg : Cfg) (data : Idx → Val) (v : List VItem) (red : List Bool)
    (m : Idx → Bool) (k : Idx) (hl : red.length = (viewShape' v).length)
    (hk : inRange k (keptShape red (viewShape' v)) = true) :
    (implDirect.implMasked cfg data v red m).cell k =
      (uStat cfg true red (viewShape' v) (fun j => data (viewIdx v j))
        (fun j => inRange j (viewShape' v) && m (viewIdx v j))).cell k :=
  Lemmas.C10.implMasked_cell cfg data v red m k hl hk

/-- … and it has the documented shape: the kept axes of the viewed array. -/
theorem stat_bbox_shape (cfg : Cfg) (data : Idx → Val) (v : List VItem) (red : List Bool)
    (m : Idx → Bool) :
    (implDirect.implMasked cfg data v red m).shape = keptShape red (viewShape' v) :=
  Lemmas.C10.implMasked_shape cfg data v red m

-- the hypotheses are satisfiable by a non-trivial instance (3-d view with an integer, 2 reduced axes)
example : [true, false].length = (viewShape' [.sl 1 2 1, .int 0, .sl 0 3 1]).length ∧
    inRange [2] (keptShape [true, false] (viewShape' [.sl 1 2 1, .int 0, .sl 0 3 1])) = true := by
  decide

/-! ## histograms -/

/-- **Bin totals.** For every data list, selection, weights, bin count `n ≥ 1` and range (given in
either order; in log space with positive ends): the histogram has `n` bins and the bins add up to the
number (weight sum) of selected non-NaN values inside the closed range — whatever the nudge does to
individual values. -/
theorem hist_total (r0 r1 : Rat) (n : Nat) (log : Bool) (xs : List (Val × Rat)) (b : List Rat)
    (hn : 0 < n) (hlog : log = true → 0 < min r0 r1)
    (h : implHist r0 r1 n log xs = .bins b) :
    b.length = n ∧ b.sum = specHistTotal r0 r1 xs :=
  Lemmas.C10.implHist_total r0 r1 n log xs b hn hlog h

/-- **Per-bin count, away from bin edges.** With the upper range end nudged by any `ε ≥ 0`, a value
that lies at least `k·(w + ε/n)` above the lower range end and strictly below edge `k+1`
(`w = (hi-lo)/n`) is counted in bin `k`. -/
theorem hist_bin (lo hi eps x : Rat) (n k : Nat) (hn : 0 < n) (hd : lo < hi) (he : 0 ≤ eps)
    (h1 : lo + (k : Rat) * (hi + eps - lo) / n ≤ x)
    (h2 : x < lo + ((k : Rat) + 1) * (hi - lo) / n) :
    implBinLin lo (hi + eps) n x = k :=
  Lemmas.C10.implBinLin_eq lo hi eps x n k hn hd he h1 h2

/-- The upper range end itself is counted in the last bin (this is what the nudge is for). -/
theorem hist_bin_top (lo hi eps : Rat) (n : Nat) (hn : 0 < n) (hd : lo < hi) (he : 0 < eps)
    (hsmall : ((n : Rat) - 1) * eps ≤ hi - lo) : implBinLin lo (hi + eps) n hi = n - 1 :=
  Lemmas.C10.implBinLin_top lo hi eps n hn hd he hsmall

/-- **Per-bin clause, partial** (full statement: `implHist r0 r1 n false xs = .bins (specHist …)`
for all inputs — false on the unchanged tree, finding F10).  Under the decidable hypothesis `histP`
(no kept value on, or within the nudge above, an interior bin edge; nudge small against the range)
the linear histogram is the textbook equal-width histogram over the closed range. -/
theorem hist_perbin_partial (r0 r1 : Rat) (n : Nat) (xs : List (Val × Rat)) (hn : 0 < n)
    (hP : histP (min r0 r1) (max r0 r1) (10 * ulp (max r0 r1)) n
      (histKeep (min r0 r1) (max r0 r1) xs) = true) :
    implHist r0 r1 n false xs = .bins (specHist r0 r1 n false xs) :=
  Lemmas.C10.implHist_perbin r0 r1 n xs hn hP

end GlueVerif.C10
