import GlueVerif.Model.Stats
namespace GlueVerif.C10
end GlueVerif.C10
