import GlueVerif.Lemmas.C10Top
import GlueVerif.Lemmas.C10Hist
import GlueVerif.Lemmas.C10Reduce
import GlueVerif.Lemmas.C10Dtype
import GlueVerif.Lemmas.C10Seq
/-!
# C10 — statistics and histograms equal their definition regardless of chunking or views

Property theorems only; helper lemmas live in `GlueVerif.Lemmas.C10*`.  Every statement is about the
executable definitions of `GlueVerif.Model.Stats` that the driver `Drivers/C10.lean` runs against
`Data.compute_statistic` / `Data.compute_histogram` on every check.  `uStat` is at the same time the
model of `glue.utils.array.compute_statistic` and the textbook definition (every output cell = the
NaN-aware reducer over the kept values of that cell, `nan` when none).
-/
namespace GlueVerif.C10
open GlueVerif.ArrayUtil GlueVerif.Stats

/-! ## minimal sub-array (bounding box) + NaN padding -/

/-- **Bounding box + padding = full computation.** For every statistic and filter setting, every
data array, every view (integers and slices with any positive step, any number of axes), every
selection mask `m`, every set of reduced axes and every in-range output cell `k`: the value the
minimal-subarray path produces (bounding box of the mask from `any` along each axis, view
recombination, statistic on the sub-array, NaN padding; or the bail-out for non-unit steps; or the
all-NaN result for an empty mask) is the statistic of the whole viewed arrays under the viewed mask. -/
theorem stat_bbox_eq (cfg : Cfg) (data : Idx → Val) (v : List VItem) (red : List Bool)
    (m : Idx → Bool) (k : Idx) (hl : red.length = (viewShape' v).length)
    (hk : inRange k (keptShape red (viewShape' v)) = true) :
    (implDirect.implMasked cfg data v red m).cell k =
      (uStat cfg true red (viewShape' v) (fun j => data (viewIdx v j))
        (fun j => inRange j (viewShape' v) && m (viewIdx v j))).cell k :=
  Lemmas.C10.implMasked_cell cfg data v red m k hl hk

/-- … and it has the documented shape: the kept axes of the viewed array. -/
theorem stat_bbox_shape (cfg : Cfg) (data : Idx → Val) (v : List VItem) (red : List Bool)
    (m : Idx → Bool) :
    (implDirect.implMasked cfg data v red m).shape = keptShape red (viewShape' v) :=
  Lemmas.C10.implMasked_shape cfg data v red m

-- the hypotheses are satisfiable by a non-trivial instance (3-d view with an integer, 2 reduced axes)
example : [true, false].length = (viewShape' [.sl 1 2 1, .int 0, .sl 0 3 1]).length ∧
    inRange [2] (keptShape [true, false] (viewShape' [.sl 1 2 1, .int 0, .sl 0 3 1])) = true := by
  decide

/-! ## chunk loop -/

/-- **Chunking never changes a cell.** In the chunked configuration of `Data.compute_statistic`
(`view=None`, `axis` = tuple of all axes but one, more elements than `n_chunk_max`, selection not a
`SliceSubsetState`), for every shape with positive sizes (any number of axes), every chunk limit,
every selection, statistic and filter setting: cell `i` of the array assembled by the chunk loop —
the literal `iterate_chunks` loop with `chunk_shape[axis_index] = max(1, ⌊shape·n_chunk_max/size⌋)`,
one recursive call per chunk through the minimal-subarray path, written into a zero buffer — equals
cell `i` of the un-chunked computation.  Proved from the C20 theorems `iterLoop_eq_prod` (literal
loop = product form) and the 1-d chunk partition. -/
theorem stat_chunked_eq (cfg : Cfg) (sh : List Nat) (data : Idx → Val) (sel : SelM)
    (red : List Bool) (nmax i : Nat) (hpos : ∀ s ∈ sh, 0 < s) (hl : red.length = sh.length)
    (hns : sel.isSlice = false) (hcnt : (red.filter id).length + 1 = sh.length)
    (hred0 : 0 < (red.filter id).length) (hsize : nmax < prod sh)
    (hi : i < sh.getD (firstKept red) 0) :
    (implStat cfg sh data sel .none (fullView sh) .tuple red nmax).cell [i] =
      (implDirect cfg data sel .none (fullView sh) red).cell [i] :=
  Lemmas.C10.implStat_chunked_eq_direct cfg sh data sel red nmax i hpos hl hns hcnt hred0 hsize hi

/-- … and the assembled array has the documented shape (the one kept axis). -/
theorem stat_chunked_shape (cfg : Cfg) (sh : List Nat) (data : Idx → Val) (sel : SelM)
    (red : List Bool) (nmax : Nat) (hpos : ∀ s ∈ sh, 0 < s) (hl : red.length = sh.length)
    (hns : sel.isSlice = false) (hcnt : (red.filter id).length + 1 = sh.length)
    (hred0 : 0 < (red.filter id).length) (hsize : nmax < prod sh) :
    (implStat cfg sh data sel .none (fullView sh) .tuple red nmax).shape = keptShape red sh :=
  Lemmas.C10.implStat_chunked_shape cfg sh data sel red nmax hpos hl hns hcnt hred0 hsize

example : (∀ s ∈ [2, 3, 2], 0 < s) ∧ [true, false, true].length = [2, 3, 2].length ∧
    ([true, false, true].filter id).length + 1 = [2, 3, 2].length ∧ 5 < prod [2, 3, 2] ∧
    firstKept [true, false, true] = 1 := by decide

/-! ## SliceSubsetState shortcut -/

/-- **The `SliceSubsetState` shortcut is the masked statistic, compacted.** Taking the NaN-aware
statistic of `data[slices]` without a mask gives, in cell `k`, exactly the values (same values, same
order) that the full array contributes to the corresponding cell under the slice's mask — for all
shapes, all positive-step slices inside the array and all sets of reduced axes. -/
theorem stat_slice_shortcut_eq (cfg : Cfg) (sh : List Nat) (data : Idx → Val) (vs : Sub)
    (red : List Bool) (k : Idx) (hl : red.length = sh.length) (hok : subOk sh vs = true)
    (hk : inRange k (keptShape red (subShape vs)) = true) :
    (uStat cfg true red (subShape vs) (fun j => data (subIdx vs j)) (fun _ => true)).cell k =
      (uStat cfg true red sh data (fun j => inRange j sh && subMask vs j)).cell (mapKept red vs k) := by
  simp only [uStat]
  rw [Lemmas.C10.slice_shortcut_cell cfg sh data vs red k hl hok hk]

/-! ## the whole of `Data.compute_statistic` -/

/-- **`compute_statistic` equals its definition** — partial: the full statement is this theorem
without the last conjunct of `statP` (`codeNanAware ∨ noNanInScope`), which is false on the unchanged
tree (finding F10c: with `finite=False, positive=False` and no mask the plain numpy reducers
propagate a NaN).  Under the decidable hypothesis `statP` (positive sizes; axis flags fit the viewed
array; `view=None` means the whole array; non-empty view; `SliceSubsetState` slices inside the array;
NaN-aware path or no NaN in scope), for every statistic, filter setting, shape, data, selection,
view, axis kind, set of reduced axes and chunk limit, whichever path the code takes — chunk loop, no
selection, `SliceSubsetState` shortcut, minimal sub-array with view recombination and NaN padding,
bail-out for non-unit steps, empty mask — the result has the documented shape and every cell holds
the NaN-aware statistic of the selected, filtered values (NaN where nothing qualifies). -/
theorem stat_refines_spec_partial (cfg : Cfg) (sh : List Nat) (data : Idx → Val) (sel : SelM)
    (vk : ViewKind) (v : List VItem) (ak : AxisKind) (red : List Bool) (nmax : Nat)
    (hP : statP cfg sh data sel vk v red = true) :
    (implStat cfg sh data sel vk v ak red nmax).shape = (specStat cfg sh data sel vk v red).shape ∧
    ∀ k, inRange k (specStat cfg sh data sel vk v red).shape = true →
      (implStat cfg sh data sel vk v ak red nmax).cell k = (specStat cfg sh data sel vk v red).cell k :=
  Lemmas.C10.implStat_eq_spec cfg sh data sel vk v ak red nmax hP

/-- **Documented shape**: the shape of the specification — the kept axes of the viewed array; the
kept axes of the sliced array (or a scalar for an empty slice) for the `SliceSubsetState` shortcut. -/
theorem stat_shape (cfg : Cfg) (sh : List Nat) (data : Idx → Val) (sel : SelM)
    (vk : ViewKind) (v : List VItem) (ak : AxisKind) (red : List Bool) (nmax : Nat)
    (hP : statP cfg sh data sel vk v red = true) :
    (implStat cfg sh data sel vk v ak red nmax).shape =
      (match sel, vk with
       | .slice vs, .none => if prod (subShape vs) = 0 then [] else keptShape red (subShape vs)
       | _, _ => keptShape red (viewShape' v)) := by
  rw [(Lemmas.C10.implStat_eq_spec cfg sh data sel vk v ak red nmax hP).1]
  unfold specStat
  cases sel <;> cases vk <;> simp only [uStat] <;> (try split) <;> rfl

-- `statP` is inhabited by non-trivial inputs: masked, tuple view with an integer and a step-2 slice
example : statP ⟨.mean, true, false⟩ [2, 3] (fun i => .fin (i.getD 1 0 : Nat))
    (.mask fun i => i.getD 1 0 > 0) .tuple [.int 1, .sl 0 2 2] [false] = true := by decide +kernel
-- … and by the plain path without NaN
example : statP ⟨.sum, false, false⟩ [3] (fun i => .fin (i.getD 0 0 : Nat)) .none .none
    (fullView [3]) [true] = true := by decide +kernel

/-- Witness for F10c (replayed on the real code by the harness): `finite=False, positive=False`, no
selection, data `[1, nan, 2]`: the code returns NaN, the NaN-aware sum is 3. -/
theorem F10c_witness :
    let d : Idx → Val := fun i => match i with | [1] => .nan | [0] => .fin 1 | _ => .fin 2
    (implStat ⟨.sum, false, false⟩ [3] d .none .none (fullView [3]) .none [true] 40000000).cell [] = .nan ∧
    (specStat ⟨.sum, false, false⟩ [3] d .none .none (fullView [3]) [true]).cell [] = .fin 3 := by
  decide +kernel

/-! ## reducers over a partition -/

/-- Minimum over a partition = minimum of the partial minima (`nan` = "no value"), for lists of
non-NaN extended values (`±inf` allowed). -/
theorem reduce_partition_min (xs ys : List Val) (hx : ∀ v ∈ xs, v.isNan = false)
    (hy : ∀ v ∈ ys, v.isNan = false) :
    reduceMin (xs ++ ys) = nanCombine Val.vmin (reduceMin xs) (reduceMin ys) :=
  Lemmas.C10.reduceMin_append xs ys hx hy

theorem reduce_partition_max (xs ys : List Val) (hx : ∀ v ∈ xs, v.isNan = false)
    (hy : ∀ v ∈ ys, v.isNan = false) :
    reduceMax (xs ++ ys) = nanCombine Val.vmax (reduceMax xs) (reduceMax ys) :=
  Lemmas.C10.reduceMax_append xs ys hx hy

/-- Sum over a partition = sum of the partial sums, for finite values (with `±inf` a partial sum can
itself be NaN, which would be mistaken for "no value"). Median and percentile are not decomposable;
the chunk loop never splits a reduction: it chunks the one *kept* axis (`stat_chunked_eq`). -/
theorem reduce_partition_sum (xs ys : List Val) (hx : ∀ v ∈ xs, v.isFin = true)
    (hy : ∀ v ∈ ys, v.isFin = true) :
    reduceSum (xs ++ ys) = nanCombine Val.add (reduceSum xs) (reduceSum ys) :=
  Lemmas.C10.reduceSum_append xs ys hx hy

/-! ## storage dtypes and the acceptance of a double-precision result (round 2) -/

/-- **The statistic does not depend on the storage dtype.** Two components holding the same values —
whatever numeric dtypes (`float16 … int64, uint8 …, bool`) their elements are tagged with — have the
same specification: same shape, same cells, same kept values per cell (hence the same acceptance
radius).  A result that changes when a `float32` component is re-stored as `float64` therefore
violates the property for at least one of the two. -/
theorem spec_dtype_independent (cfg : Cfg) (sh : List Nat) (sd₁ sd₂ : Idx → Stored) (sel : SelM)
    (vk : ViewKind) (v : List VItem) (red : List Bool) (hv : ∀ i, (sd₁ i).v = (sd₂ i).v) :
    specStatStored cfg sh sd₁ sel vk v red = specStatStored cfg sh sd₂ sel vk v red ∧
    ∀ k, specCellValsStored cfg sh sd₁ sel vk v red k = specCellValsStored cfg sh sd₂ sel vk v red k := by
  have h : (fun i => (sd₁ i).v) = (fun i => (sd₂ i).v) := funext hv
  unfold specStatStored specCellValsStored
  rw [h]
  exact ⟨rfl, fun _ => rfl⟩

-- the hypothesis is satisfiable by different dtypes: 2048 is a float16, a float32 and an int16 value,
-- 2049 is not a float16 value, 2^24+1 is an int32 but not a float32 value
example : DType.f2.holds (.fin 2048) = true ∧ DType.f4.holds (.fin 2048) = true ∧
    DType.i2.holds (.fin 2048) = true ∧ DType.f2.holds (.fin 2049) = false ∧
    DType.i4.holds (.fin 16777217) = true ∧ DType.f4.holds (.fin 16777217) = false ∧
    DType.u1.holds (.fin (-1)) = false ∧ DType.f2.holds (.fin 65504) = true ∧
    DType.f2.holds (.fin 65536) = false ∧ DType.i8.holds (.fin 9007199254740993) = true ∧
    DType.f8.holds (.fin 9007199254740993) = false ∧ DType.i1.holds .nan = false := by decide +kernel

/-- **Every cell of the specification is the reducer over `specCellVals`** — the list the driver
computes the acceptance radius from is exactly the list of values the specified statistic is taken
over (all paths, incl. the compact `SliceSubsetState` form and out-of-range cells). -/
theorem spec_cell_reduce (cfg : Cfg) (sh : List Nat) (data : Idx → Val) (sel : SelM)
    (vk : ViewKind) (v : List VItem) (red : List Bool) (k : Idx) :
    (specStat cfg sh data sel vk v red).cell k =
      reduce cfg.stat (specCellVals cfg sh data sel vk v red k) :=
  Lemmas.C10.specStat_cell_reduce cfg sh data sel vk v red k

/-- **The acceptance rule admits the exact statistic**, for every statistic and every list of kept
values (any magnitudes, NaN / ±inf results included). -/
theorem accept_exact (st : Stat) (xs : List Val) : specAccept st xs (reduce st xs) = true :=
  Lemmas.C10.specAccept_exact st xs

/-- **The modelled implementation is accepted** — partial for the same reason as
`stat_refines_spec_partial` (F10c): under `statP`, every in-range cell computed by the model of
`Data.compute_statistic` (any path, any chunk limit) is an acceptable value of the specified
statistic over the specified kept values.  (The model computes in exact arithmetic; what the real
code adds is double-precision rounding, which `specAccept` bounds from the inputs.) -/
theorem stat_accepted_partial (cfg : Cfg) (sh : List Nat) (data : Idx → Val) (sel : SelM)
    (vk : ViewKind) (v : List VItem) (ak : AxisKind) (red : List Bool) (nmax : Nat)
    (hP : statP cfg sh data sel vk v red = true) (k : Idx)
    (hk : inRange k (specStat cfg sh data sel vk v red).shape = true) :
    specAccept cfg.stat (specCellVals cfg sh data sel vk v red k)
      ((implStat cfg sh data sel vk v ak red nmax).cell k) = true := by
  rw [(Lemmas.C10.implStat_eq_spec cfg sh data sel vk v ak red nmax hP).2 k hk,
    Lemmas.C10.specStat_cell_reduce]
  exact Lemmas.C10.specAccept_exact _ _

/-- Witnesses for the acceptance rule and for F10d / F10d-int (replayed on the real code by the harness).
`[2^24, 1, 1, 1]` (float32 values): the sum is `2^24+3`, exactly; a single-precision accumulation
(`2^24`) is rejected.  `[2^53, 1, 1]`: a double-precision accumulation may lose both ones (`2^53`) and
is accepted, `2^53 + 16` is not.  float16 `[60000, 60000]`: mean `60000`, not `+inf`.
int8 `[-128, 127]`: the median / 50th percentile is `-1/2`, not `255/2`. -/
theorem accept_witness :
    specAccept .sum [.fin 16777216, .fin 1, .fin 1, .fin 1] (.fin 16777219) = true ∧
    specAccept .sum [.fin 16777216, .fin 1, .fin 1, .fin 1] (.fin 16777216) = false ∧
    specAccept .sum [.fin 9007199254740992, .fin 1, .fin 1] (.fin 9007199254740992) = true ∧
    specAccept .sum [.fin 9007199254740992, .fin 1, .fin 1] (.fin 9007199254741008) = false ∧
    specAccept .mean [.fin 60000, .fin 60000] (.fin 60000) = true ∧
    specAccept .mean [.fin 60000, .fin 60000] .pinf = false ∧
    specAccept (.percentile 50) [.fin (-128), .fin 127] (.fin (-1 / 2)) = true ∧
    specAccept (.percentile 50) [.fin (-128), .fin 127] (.fin (255 / 2)) = false ∧
    specAccept .maximum [.fin 9007199254740993, .fin 3] (.fin 9007199254740992) = true ∧
    specAccept .maximum [.fin 16777217, .fin 3] (.fin 16777216) = false := by
  decide +kernel

/-! ## sequences of calls on the same dataset and the same subset-state objects (round 3)

The property holds for every call *whatever was computed before*.  `GlueVerif.StatsSeq` re-states
`Data.compute_statistic` / `compute_histogram` as programs over a heap of ndarray objects with identity:
`to_mask` of a memoised state returns **the cached object**, `mask[subarray_slices]` and `comp[view]`
are views sharing memory, `&=` and `arr[~keep] = nan` are in-place writes. -/

open GlueVerif.StatsSeq in
/-- **A statistic performs no in-place write on its operands.** For every heap with a coherent
`to_mask` cache, every statistic call (any path: chunk loop, no selection, `SliceSubsetState`
shortcut, minimal sub-array on a view of the cached mask, bail-out, empty mask): every ndarray object
that existed before the call — the components' stored arrays, every cached mask — has the same value
afterwards (`Frame`: the call only allocates, and writes only to what it allocated: `keep` is a fresh
array, the data is copied before `data[~keep] = nan`), and the cache stays coherent. -/
theorem stat_no_inplace_write (S : Nat → SObj) (sh : List Nat) (h : Heap) (c : StatCall)
    (hc : Coherent S h) (hatt : c.att < h.nv) :
    Frame h (implStatH false S sh h c).1 ∧ Coherent S (implStatH false S sh h c).1 :=
  let r := Lemmas.C10Seq.implStatH_spec S sh h c hc hatt
  ⟨r.1, r.2.1⟩

open GlueVerif.StatsSeq in
/-- **The heap program is the pure model.** On any heap that holds the dataset `D` (components
`0 … n-1`) and a coherent cache, the value of a statistic call is `implStat` — the function all the
theorems above are about — of the *original* component values and the *original* selection. -/
theorem stat_heap_refines_pure (S : Nat → SObj) (sh : List Nat) (D : Nat → Idx → Val) (n : Nat)
    (h : Heap) (c : StatCall) (hg : Good S D n h) (hatt : c.att < n) :
    (implStatH false S sh h c).2 =
      implStat c.cfg sh (D c.att) (selOf S c.sid) c.vk c.v c.ak c.red c.nmax := by
  rw [(Lemmas.C10Seq.implStatH_spec S sh h c hg.coh (Nat.lt_of_lt_of_le hatt hg.nv)).2.2]
  simp only [pureStat, hg.vals c.att hatt]

open GlueVerif.StatsSeq in
/-- **The result of call `k` of any sequence equals the result of the same call made alone.** For
every dataset, every family of subset-state objects (memoised or not, shared between calls or not),
every sequence of statistic and histogram calls executed in order on the same objects and every `k`:
the `k`-th result is what the call returns on the initial heap, and both are the pure model's value
on the original data and selection — so `stat_refines_spec_partial`, `hist_total`, … apply to every
call of the sequence. -/
theorem stat_sequence_independent (S : Nat → SObj) (sh : List Nat) (D : Nat → Idx → Val) (n : Nat)
    (h0 : Heap) (hg : Good S D n h0) (calls : List Call)
    (hatt : ∀ c ∈ calls, ∀ a ∈ c.atts, a < n) (k : Nat) (hk : k < calls.length) :
    (runSeq false S sh h0 calls).2[k]? = some (callH false S sh h0 calls[k]).2 ∧
      (runSeq false S sh h0 calls).2[k]? = some (pureCall S sh D calls[k]) := by
  have hs := (Lemmas.C10Seq.runSeq_spec S sh D n calls h0 hg hatt).2.2
  have h1 := (Lemmas.C10Seq.callH_spec S sh D n h0 calls[k] hg
    (hatt _ (List.getElem_mem hk))).2.2
  rw [hs, h1, List.getElem?_map, List.getElem?_eq_getElem hk]
  exact ⟨rfl, rfl⟩

open GlueVerif.StatsSeq in
/-- **Operands unchanged.** After any sequence of calls every object of the initial heap has its
initial value (component arrays, cached masks), the heap still holds the dataset, and `to_mask` of any
state object — cached or not, in either call form, for any view — still yields the original mask. -/
theorem stat_sequence_operands_unchanged (S : Nat → SObj) (sh : List Nat) (D : Nat → Idx → Val)
    (n : Nat) (h0 : Heap) (hg : Good S D n h0) (calls : List Call)
    (hatt : ∀ c ∈ calls, ∀ a ∈ c.atts, a < n) :
    Frame h0 (runSeq false S sh h0 calls).1 ∧ Good S D n (runSeq false S sh h0 calls).1 ∧
      ∀ key, (toMaskH S (runSeq false S sh h0 calls).1 key).1.bools
        (toMaskH S (runSeq false S sh h0 calls).1 key).2 = maskContent S key := by
  obtain ⟨f, g, _⟩ := Lemmas.C10Seq.runSeq_spec S sh D n calls h0 hg hatt
  exact ⟨f, g, fun key => (Lemmas.C10Seq.toMaskH_spec S _ key g.coh).2.2.2.1⟩

-- the hypotheses are satisfiable: the initial heap of any dataset is `Good`
open GlueVerif.StatsSeq in
example (S : Nat → SObj) (D : Nat → Idx → Val) (n : Nat) : Good S D n (initHeap D n) :=
  Lemmas.C10Seq.good_init S D n

/-- Value of cell `k` of the `i`-th output of a sequence. -/
def seqCell (outs : List StatsSeq.Out) (i : Nat) (k : Idx) : Option Val :=
  match outs[i]? with
  | some (.res r) => some (r.cell k)
  | _ => none

open GlueVerif.StatsSeq in
/-- Witness that the heap model can express the defect the sequence theorems exclude (the seeded
variant `keep = mask`, `reuse = true`): `x = [1, nan, 3]`, `y = [10, 20, 30]`, one memoised state
selecting everything.  `mean(x | s)` then `sum(y | s)`: as coded both are right (2 and 60); with
`keep = mask` the first call is still right but filters the cached mask in place (through the
`mask[subarray_slices]` view) and the second call returns 40 — while the same call made alone
returns 60. -/
theorem seq_alias_witness :
    let S : Nat → SObj := fun _ => ⟨.mask fun _ => true, true⟩
    let D : Nat → Idx → Val := fun a i =>
      if a = 0 then (match i with | [0] => .fin 1 | [1] => .nan | _ => .fin 3)
      else (match i with | [0] => .fin 10 | [1] => .fin 20 | _ => .fin 30)
    let c1 : Call := .stat ⟨⟨.mean, true, false⟩, 0, some 0, .none, fullView [3], .none, [true], 40000000⟩
    let c2 : Call := .stat ⟨⟨.sum, true, false⟩, 1, some 0, .none, fullView [3], .none, [true], 40000000⟩
    seqCell (runSeq false S [3] (initHeap D 2) [c1, c2]).2 0 [] = some (.fin 2) ∧
    seqCell (runSeq false S [3] (initHeap D 2) [c1, c2]).2 1 [] = some (.fin 60) ∧
    seqCell (runSeq true S [3] (initHeap D 2) [c1, c2]).2 0 [] = some (.fin 2) ∧
    seqCell (runSeq true S [3] (initHeap D 2) [c1, c2]).2 1 [] = some (.fin 40) ∧
    seqCell (runSeq true S [3] (initHeap D 2) [c2]).2 0 [] = some (.fin 60) := by
  decide +kernel

/-! ## histograms -/

/-- **Bin totals.** For every data list, selection, weights, bin count `n ≥ 1` and range (given in
either order; in log space with positive ends): the histogram has `n` bins and the bins add up to the
number (weight sum) of selected non-NaN values inside the closed range — whatever the nudge does to
individual values. -/
theorem hist_total (r0 r1 : Rat) (n : Nat) (log : Bool) (xs : List (Val × Rat)) (b : List Rat)
    (hn : 0 < n) (hlog : log = true → 0 < min r0 r1)
    (h : implHist r0 r1 n log xs = .bins b) :
    b.length = n ∧ b.sum = specHistTotal r0 r1 xs :=
  Lemmas.C10.implHist_total r0 r1 n log xs b hn hlog h

/-- **Per-bin count, away from bin edges.** With the upper range end nudged by any `ε ≥ 0`, a value
that lies at least `k·(w + ε/n)` above the lower range end and strictly below edge `k+1`
(`w = (hi-lo)/n`) is counted in bin `k`. -/
theorem hist_bin (lo hi eps x : Rat) (n k : Nat) (hn : 0 < n) (hd : lo < hi) (he : 0 ≤ eps)
    (h1 : lo + (k : Rat) * (hi + eps - lo) / n ≤ x)
    (h2 : x < lo + ((k : Rat) + 1) * (hi - lo) / n) :
    implBinLin lo (hi + eps) n x = k :=
  Lemmas.C10.implBinLin_eq lo hi eps x n k hn hd he h1 h2

/-- The upper range end itself is counted in the last bin (this is what the nudge is for). -/
theorem hist_bin_top (lo hi eps : Rat) (n : Nat) (hn : 0 < n) (hd : lo < hi) (he : 0 < eps)
    (hsmall : ((n : Rat) - 1) * eps ≤ hi - lo) : implBinLin lo (hi + eps) n hi = n - 1 :=
  Lemmas.C10.implBinLin_top lo hi eps n hn hd he hsmall

/-- **Per-bin clause, partial** (full statement: `implHist r0 r1 n false xs = .bins (specHist …)`
for all inputs — false on the unchanged tree, finding F10).  Under the decidable hypothesis `histP`
(no kept value on, or within the nudge above, an interior bin edge; nudge small against the range)
the linear histogram is the textbook equal-width histogram over the closed range. -/
theorem hist_perbin_partial (r0 r1 : Rat) (n : Nat) (xs : List (Val × Rat)) (hn : 0 < n)
    (hP : histP (min r0 r1) (max r0 r1) (10 * ulp (max r0 r1)) n
      (histKeep (min r0 r1) (max r0 r1) xs) = true) :
    implHist r0 r1 n false xs = .bins (specHist r0 r1 n false xs) :=
  Lemmas.C10.implHist_perbin r0 r1 n xs hn hP

-- `histP` is inhabited: values strictly inside bins and the two range ends
example : histP 0 4 (10 * ulp 4) 4 [(0, 1), ((1 : Rat) / 2, 1), ((5 : Rat) / 2, 1), (4, 1)] = true := by
  decide +kernel

/-- Witness for F10 (replayed on the real code by the harness): `[0,1,2,3,4]`, 4 bins over `(0,4)`:
the code's bins are `[2,1,1,1]`, the textbook histogram is `[1,1,1,2]`; the totals agree. -/
theorem F10_witness :
    let xs : List (Val × Rat) := [(.fin 0, 1), (.fin 1, 1), (.fin 2, 1), (.fin 3, 1), (.fin 4, 1)]
    implHist 0 4 4 false xs = .bins [2, 1, 1, 1] ∧ specHist 0 4 4 false xs = [1, 1, 1, 2] ∧
      specHistTotal 0 4 xs = 5 := by
  decide +kernel

end GlueVerif.C10
