import GlueVerif.Lemmas.CoordsLinAlg
import GlueVerif.Lemmas.CoordsAdjugate
import GlueVerif.Lemmas.CoordsClosure
import GlueVerif.Lemmas.CoordsViews
import GlueVerif.Lemmas.CoordsLinks
import GlueVerif.Lemmas.C15Scale
import GlueVerif.Lemmas.C15History
import GlueVerif.Model.C15Float
/-!
# C15 — world coordinates, their links and inverses agree with the coordinate object

Property theorems only; helper lemmas live in `GlueVerif.Lemmas.Coords*`.  Every statement is about
the executable definitions of `GlueVerif.Model.Coords` that `Drivers/C15.lean` runs against the
real `AffineCoordinates` / `IdentityCoordinates`, `Data` world components and coordinate links on
every check, over exact rationals.

* `Impl.*` = the tree under test (pinned tree + `props.d/C15/fixes/F8-coupled-axes.diff` +
  `C15a-world-view-edge-cases.diff`); `Pinned.*` = `dependent_axes` / `world_dep` of the pinned tree;
  `Spec.*` = the transformation applied to the pixel grid, then the view.
* Dimension: every theorem below holds for **every** dimension `n`, except `inverse_le3` and
  `mkAffine_wf`, which are about the model's adjugate inverse and are proved for `n = 1, 2, 3` by cases
  (for other `n` the theorems take *any* two-sided inverse as a hypothesis, `Coord.wf`).
* Views: `None`/`Ellipsis`, tuples of scalars and slices (any non-zero step, possibly shorter than
  `ndim`, possibly empty), tuples of in-range index arrays, full-shape Boolean masks.
-/
namespace GlueVerif.C15
open GlueVerif.Coords GlueVerif.ArrayUtil

/-! ## world→pixel undoes pixel→world -/

/-- For an augmented matrix `M` with last row `0 … 0 1` and a two-sided inverse `N`,
`world_to_pixel_values(pixel_to_world_values(x)) = x` exactly over `ℚ`, in every dimension. -/
theorem w2p_p2w (n : Nat) (M N : Mat) (hrow : lastRowOk n M = true) (hinv : isInv n M N = true)
    (x : List Rat) (hx : x.length = n) :
    affApply n N (affApply n M x) = x :=
  Lemmas.Coords.affApply_inv_affApply hrow hinv x hx

/-- The same for a coordinate object (`IdentityCoordinates` or a well-formed `AffineCoordinates`). -/
theorem w2p_p2w_coord (c : Coord) (hwf : c.wf = true) (x : List Rat) (hx : x.length = c.n) :
    c.w2p (c.p2w x) = x :=
  Lemmas.Coords.Coord.w2p_p2w c hwf x hx

/-- `n = 1, 2, 3` (by cases): whenever the model's `np.linalg.inv` succeeds — i.e. exactly when the
determinant of the linear part is non-zero (`det_ne_zero_iff`) — its result is a two-sided inverse. -/
theorem inverse_le3 (n : Nat) (M N : Mat) (hrow : lastRowOk n M = true) (h : invAug n M = some N) :
    isInv n M N = true :=
  Lemmas.Coords.invAug_isInv n M N hrow h

theorem det_ne_zero_iff (n : Nat) (M : Mat) (hn : 1 ≤ n ∧ n ≤ 3) :
    (invAug n M).isSome = true ↔ det n M ≠ 0 :=
  Lemmas.Coords.invAug_isSome_iff n M hn

/-- Every `AffineCoordinates` object the model constructs (dimension 1–3, `det ≠ 0`) is well formed,
so all theorems below apply to it. -/
theorem mkAffine_wf (M : Mat) (c : Coord) (h : mkAffine M = .ok c) : c.wf = true :=
  Lemmas.Coords.mkAffine_wf M c h

/-! ## the dependency computation -/

/-- `_coupled_axes` (any dimension): the pair of flag lists it returns is closed under the
correlation matrix — a world axis and a pixel axis that are correlated are both inside or both
outside — and contains the seed axes.  (The loop is modelled with fuel `2n+1`; the proof shows that
this is always enough to reach the fixed point.) -/
theorem coupledAxes_closed (c : Coord) (ps ws : List Nat) :
    closedUnder c.corr c.n (coupledAxes c ps ws) = true ∧
    (∀ p, p ∈ ps → p < c.n → (coupledAxes c ps ws).1.getD p false = true) ∧
    (∀ w, w ∈ ws → w < c.n → (coupledAxes c ps ws).2.getD w false = true) :=
  Lemmas.Coords.coupledAxes_spec c ps ws

/-- `dependent_axes(coords, a)` contains every pixel axis world axis `a` really depends on
(any dimension, any coordinate object — no hypothesis on the matrix pattern). -/
theorem need_subset_dep (c : Coord) (a : Nat) (ha : a < c.n) :
    needSubset c a (Impl.dependentAxes c a) = true :=
  Lemmas.Coords.need_subset_dependentAxes c a ha

/-- The pinned tree's `dependent_axes` has this property when the diagonal of the correlation
matrix is set (every world axis depends on "its own" pixel axis) … -/
theorem need_subset_dep_of_diag (c : Coord) (a : Nat) (ha : a < c.n)
    (hdiag : ∀ k, k < c.n → c.corr k k = true) :
    needSubset c a (Pinned.dependentAxes c a) = true :=
  Lemmas.Coords.need_subset_pinned_of_diag c a ha hdiag

/-! ## world components: `_calculate` = transformation applied to the pixel grid, for every view -/

/-- **Full theorem** for the tree under test: for every coordinate object, shape, world axis and
view, `CoordinateComponent._calculate(view)` is `pixel_to_world_values(grid)[view]` — same shape,
same values, same `IndexError`s.  The broadcasting shortcuts never change a value. -/
theorem world_eq_direct (c : Coord) (sh : List Nat) (a : Nat) (v : View)
    (ha : a < c.n) (hsh : sh.length = c.n) :
    Impl.worldView c sh a v = Spec.worldView c sh a v :=
  Lemmas.Coords.worldViewWith_eq Impl.dependentAxes c sh a v ha hsh (need_subset_dep c a ha)

/-- Partial form, for *any* `dependent_axes` function (in particular the pinned one): the shortcut
is valid exactly under the decidable hypothesis `needSubset` — every pixel axis the world axis
depends on is in the returned set. -/
theorem world_eq_direct_partial (depFn : Coord → Nat → List Nat) (c : Coord) (sh : List Nat) (a : Nat)
    (v : View) (ha : a < c.n) (hsh : sh.length = c.n)
    (hP : needSubset c a (depFn c a) = true) :
    Impl.worldViewWith depFn c sh a v = Spec.worldView c sh a v :=
  Lemmas.Coords.worldViewWith_eq depFn c sh a v ha hsh hP

/-- … hence the pinned tree is right on matrices with a non-zero diagonal. -/
theorem world_eq_direct_pinned_of_diag (c : Coord) (sh : List Nat) (a : Nat) (v : View)
    (ha : a < c.n) (hsh : sh.length = c.n) (hdiag : ∀ k, k < c.n → c.corr k k = true) :
    Pinned.worldView c sh a v = Spec.worldView c sh a v :=
  world_eq_direct_partial Pinned.dependentAxes c sh a v ha hsh (need_subset_dep_of_diag c a ha hdiag)

/-! ## the world→pixel shortcut -/

/-- **Full theorem** for the tree under test: `world2pixel_single_axis` may replace every world
input it does not flag by anything (it uses the first element): pixel coordinate `p` of
`world_to_pixel_values` is unchanged.  Any dimension, any well-formed coordinate object. -/
theorem w2p_shortcut (c : Coord) (hwf : c.wf = true) (p : Nat) (hp : p < c.n) (y y' : List Rat)
    (h : ∀ w, w < c.n → Impl.worldDep c p w = true → y.getD w 0 = y'.getD w 0) :
    (c.w2p y).getD p 0 = (c.w2p y').getD p 0 :=
  Lemmas.Coords.w2p_shortcut c hwf p hp y y' h

/-- Partial form for any flag set (in particular the pinned tree's column of the forward pattern):
valid under the decidable hypothesis that the non-zero pattern of row `p` of the inverse is
contained in the flags. -/
theorem w2p_shortcut_partial (c : Coord) (p : Nat) (hp : p < c.n) (flags : Nat → Bool)
    (hP : invRowSubset c p flags = true) (y y' : List Rat)
    (h : ∀ w, w < c.n → flags w = true → y.getD w 0 = y'.getD w 0) :
    (c.w2p y).getD p 0 = (c.w2p y').getD p 0 :=
  Lemmas.Coords.w2p_shortcut_of_pattern c p hp flags hP y y' h

/-- The flags of the tree under test do cover the inverse's non-zero pattern (block lemma: the
inverse of a block matrix has the same blocks). -/
theorem inverse_pattern_covered (c : Coord) (hwf : c.wf = true) (p : Nat) (hp : p < c.n) :
    invRowSubset c p (Impl.worldDep c p) = true := by
  unfold invRowSubset
  simp only [List.all_eq_true, List.mem_range, Bool.or_eq_true, beq_iff_eq]
  intro w hw
  by_cases h : c.invEnt p w = 0
  · exact Or.inl h
  · exact Or.inr (Lemmas.Coords.invRow_subset_worldDep c hwf p w hp hw h)

/-! ## the correlation pattern is exact at every magnitude (round-2 strengthening)

The shortcuts (`pixel2world_single_axis`, `world2pixel_single_axis`, `dependent_axes`) are driven by
`axis_correlation_matrix`.  The property can only hold if that pattern is the *exact* non-zero
pattern of the matrix: a coefficient of 1e-10 (wavelength in metres per channel) or 1e-300 is a
dependence.  The model's `Coord.corr` — what the differential check compares the implementation's
`axis_correlation_matrix` with, on a ladder of magnitudes from 2⁻⁹⁹⁷ to 2¹⁰⁰ — is characterised by: -/

/-- `axis_correlation_matrix[w][p]` is set **iff** world coordinate `w` really depends on pixel
coordinate `p` (some displacement of pixel coordinate `p` alone changes it).  No threshold: any
non-zero coefficient counts, whatever its size.  Any dimension, identity and affine coordinates. -/
theorem corr_matrix_exact (c : Coord) (w p : Nat) (hw : w < c.n) (hp : p < c.n) :
    c.corr w p = true ↔
      ∃ (x : List Rat) (d : Rat), x.length = c.n ∧
        (c.p2w (x.set p (x.getD p 0 + d))).getD w 0 ≠ (c.p2w x).getD w 0 :=
  Lemmas.Coords.corr_iff_depends c w p hw hp

/-- Scaling the entries of the matrix by arbitrary non-zero factors (one factor `s w p` per entry:
a uniform rescaling, a change of unit of one world axis = a row, a change of pixel size = a
column, …) leaves `axis_correlation_matrix`, `dependent_axes` of every axis and the `world_dep`
flags of `world2pixel_single_axis` unchanged: the shortcuts take the same decisions for a matrix
with entries of size 1e-300 as for the same pattern with entries of size 1. -/
theorem dep_scale_invariant (n : Nat) (m m' inv inv' : Mat) (s : Nat → Nat → Rat)
    (hs : ∀ w p, s w p ≠ 0) (hm : ∀ w p, ent m' w p = s w p * ent m w p) :
    (Coord.affine n m' inv').corr = (Coord.affine n m inv).corr ∧
    (∀ a, Impl.dependentAxes (.affine n m' inv') a = Impl.dependentAxes (.affine n m inv) a) ∧
    (∀ p, Impl.worldDep (.affine n m' inv') p = Impl.worldDep (.affine n m inv) p) :=
  have hc := Lemmas.Coords.corr_scale_eq n m m' inv inv' s hs hm
  ⟨hc, fun a => Lemmas.Coords.dependentAxes_congr (.affine n m inv) (.affine n m' inv') rfl hc a,
   fun p => Lemmas.Coords.worldDep_congr (.affine n m inv) (.affine n m' inv') rfl hc p⟩

/-! ## links -/

/-- Every automatically created link computes what the transformation gives directly, for every
view: the pixel→world link of axis `i` is the world component; the world→pixel link of axis `i`
is `world_to_pixel_values` of the grid's world coordinates — which is the pixel component itself. -/
theorem links_eq_direct (c : Coord) (hwf : c.wf = true) (sh : List Nat) (i : Nat) (v : View)
    (hi : i < c.n) (hsh : sh.length = c.n) :
    Impl.linkP2W c sh i v = Spec.linkP2W c sh i v ∧
    Impl.linkW2P c sh i v = Spec.linkW2P c sh i v ∧
    Spec.linkW2P c sh i v = Spec.pixelView sh i v :=
  ⟨Lemmas.Coords.linkP2WWith_eq Impl.dependentAxes c sh i v hi hsh (need_subset_dep c i hi),
   Lemmas.Coords.linkW2P_eq c hwf sh i v hi hsh,
   Lemmas.Coords.specLinkW2P_eq_pixel c hwf sh i v hi hsh⟩

/-- Partial form of the pixel→world link for any `dependent_axes` function. -/
theorem link_p2w_eq_direct_partial (depFn : Coord → Nat → List Nat) (c : Coord) (sh : List Nat) (i : Nat)
    (v : View) (hi : i < c.n) (hsh : sh.length = c.n) (hP : needSubset c i (depFn c i) = true) :
    Impl.linkP2WWith depFn c sh i v = Spec.linkP2W c sh i v :=
  Lemmas.Coords.linkP2WWith_eq depFn c sh i v hi hsh hP

/-! ## identity coordinates -/

/-- With `IdentityCoordinates` every world component equals the pixel component of the same axis,
for every view, and so do both links. -/
theorem identity_coords (n : Nat) (sh : List Nat) (a : Nat) (v : View) (ha : a < n) (hsh : sh.length = n) :
    Impl.worldView (.identity n) sh a v = Spec.pixelView sh a v ∧
    Impl.linkP2W (.identity n) sh a v = Spec.pixelView sh a v ∧
    Impl.linkW2P (.identity n) sh a v = Spec.pixelView sh a v := by
  have hw := world_eq_direct (.identity n) sh a v ha hsh
  have hid := Lemmas.Coords.identity_worldView n sh a v ha hsh
  obtain ⟨h1, h2, h3⟩ := links_eq_direct (.identity n) rfl sh a v ha hsh
  exact ⟨hw.trans hid, h1.trans hid, h2.trans h3⟩

/-! ## non-vacuity: the hypotheses are satisfiable by non-trivial values -/

/-- Permuted axes with scales and a translation (`world_x = 2·pixel_y + 1`, `world_y = 3·pixel_x + 2`). -/
def cPerm : Coord := .affine 2 [[0, 2, 1], [3, 0, 2], [0, 0, 1]] [[0, 1/3, -2/3], [1/2, 0, -1/2], [0, 0, 1]]
/-- Triangular coupling (`world_x = pixel_x + pixel_y`, `world_y = pixel_y`). -/
def cTri : Coord := .affine 2 [[1, 1, 0], [0, 1, 0], [0, 0, 1]] [[1, -1, 0], [0, 1, 0], [0, 0, 1]]
/-- A 3-d chain: the inverse is full upper triangular although the forward matrix is bidiagonal. -/
def cChain : Coord := .affine 3 [[1, 1, 0, 0], [0, 1, 1, 0], [0, 0, 1, 0], [0, 0, 0, 1]]
  [[1, -1, 1, 0], [0, 1, -1, 0], [0, 0, 1, 0], [0, 0, 0, 1]]

example : cPerm.wf = true ∧ cTri.wf = true ∧ cChain.wf = true := by decide +kernel
example : invAug 2 [[0, 2, 1], [3, 0, 2], [0, 0, 1]] = some [[0, 1/3, -2/3], [1/2, 0, -1/2], [0, 0, 1]] := by
  decide +kernel
example : Impl.dependentAxes cPerm 0 = [0, 1] ∧ Impl.dependentAxes cChain 0 = [0, 1, 2] ∧
    Impl.dependentAxes (.affine 2 [[2, 0, 1], [0, 3, 2], [0, 0, 1]] []) 0 = [0] := by decide +kernel
example : needSubset cTri 0 (Pinned.dependentAxes cTri 0) = true ∧
    (∀ k, k < cTri.n → cTri.corr k k = true) := by decide +kernel
example : cPerm.p2w [1, 2] = [5, 5] ∧ cPerm.w2p [5, 5] = [1, 2] := by decide +kernel

/-- Data of a result (`[]` for an error). -/
def dataOf : Except ViewErr Arr → List Rat
  | .ok a => a.data
  | .error _ => []

/-- A spectral axis in metres (2⁻³³ ≈ 1.2e-10 per channel, offset 2⁻²¹ ≈ 4.8e-7) next to an O(1) axis;
the same pattern with the tiny entry replaced by 1. -/
def cTiny : Coord := .affine 2 [[1 / 8589934592, 0, 1 / 2097152], [0, 1, 0], [0, 0, 1]]
  [[8589934592, 0, -4096], [0, 1, 0], [0, 0, 1]]
def cUnit : Coord := .affine 2 [[1, 0, 1 / 2097152], [0, 1, 0], [0, 0, 1]] [[1, 0, -(1 / 2097152)], [0, 1, 0], [0, 0, 1]]

example : cTiny.wf = true ∧ cTiny.corr 0 0 = true ∧ Impl.dependentAxes cTiny 1 = [1] ∧
    Impl.dependentAxes cTiny 1 = Impl.dependentAxes cUnit 1 ∧
    dataOf (Spec.worldView cTiny [1, 3] 1 .all) = [1 / 2097152, 4097 / 8589934592, 2049 / 4294967296] ∧
    dataOf (Impl.worldView cTiny [1, 3] 1 .all) = dataOf (Spec.worldView cTiny [1, 3] 1 .all) := by decide +kernel

/-- The binary64 acceptance rules the driver applies to the implementation's doubles
(`Model/C15Float.lean`) on this object: the elimination needs no row operation, so `W = |M|`; the
world value of channel 2, `2·2⁻³³ + 2⁻²¹`, must be returned exactly; `world_to_pixel` of it must be
within `2⁻³³` of pixel 2 (a fixed tolerance of 1e-9 *in world units* would be 8 channels). -/
example : Flt.geppW 2 [[1 / 8589934592, 0, 1 / 2097152], [0, 1, 0], [0, 0, 1]]
      = [[1 / 8589934592, 0, 1 / 2097152], [0, 1, 0], [0, 0, 1]] ∧
    Flt.fwdTol cTiny 0 [2, 0] = 0 ∧
    Flt.invTol (Flt.invCtx cTiny) 0 (cTiny.p2w [2, 0]) [0, 0] < 1 / 8589934592 ∧
    Flt.fwdTol cTiny 0 [1 / 3, 0] > 0 ∧ Flt.rangeOk cTiny = true := by decide +kernel

/-! ## histories on one dataset object (round-3 strengthening)

The property quantifies over every dataset **state**, including the states reached by mutation:
`update_values_from_data` (new shape, same / equal / other / no coordinate object), assignment to
`data.coords`, `update_components`, adding and removing other components.  `CoordData` = (shape,
coords) is the part of the state the world components and links may depend on, `HOp` the operations,
`Impl.run` / `Spec.run` the observations of all reads of a history (`Model/C15History.lean`).
The obligation on the code is: **no value computed from an earlier (shape, coords) may survive a
change of either** — the model of the tree under test recomputes every read from the current state,
and the differential check runs such histories against the real `Data` object. -/

/-- **Full theorem**: for every initial state and every history of reads (world components,
pixel→world and world→pixel links, any view) and mutations, in which every state is a possible one
(`histOk`: no coordinates, or a well-formed coordinate object of the dataset's dimension; reads
address existing axes), the observations of the tree under test are those the property demands:
each read is the transformation of the *current* coordinate object applied to the *current* pixel
grid, then the view — same shapes, same values, same `IndexError`s.  Any length, any dimension. -/
theorem world_eq_direct_history (s : CoordData) (ops : List HOp) (h : histOk s ops = true) :
    Impl.run s ops = Spec.run s ops :=
  Lemmas.Coords.runWith_impl_eq_spec s ops h

/-- The same, with the "current state" spelled out: a world read after *any* prefix `pre` observes
`Spec.worldView` of the coordinates and the shape that `pre` leaves behind (`foldl apply`) — nothing
else of `pre` matters. -/
theorem history_read_current_state (s : CoordData) (pre : List HOp) (a : Nat) (v : View)
    (h : histOk s (pre ++ [.readWorld a v]) = true) :
    Impl.run s (pre ++ [.readWorld a v]) =
      Spec.run s pre ++
        [(pre.foldl CoordData.apply s).coords.map fun c =>
          Spec.worldView c (pre.foldl CoordData.apply s).shape a v] := by
  rw [world_eq_direct_history s _ h]
  simp [Spec.run, Lemmas.Coords.runWith_append, runWith, readOp, Spec.readers]

/-- Shapes of the observations of a history (`[]` for "no coordinates" / an error). -/
def obsShapes (os : List Obs) : List (List Nat) :=
  os.map fun o => match o with
    | some (.ok a) => a.shape
    | _ => []

/-- read → `update_values_from_data` (same coordinates, shape 2×3 → 3×2) → read → `coords = …` → read. -/
def hRefresh : List HOp :=
  [.readWorld 0 .all, .update [3, 2] (some cPerm), .readWorld 0 .all, .readWorld 0 (.basic [.int 2]),
   .setCoords (some cTri), .readWorld 0 .all, .readP2W 1 .all, .setCoords none, .readWorld 0 .all]

example : histOk ⟨[2, 3], some cPerm⟩ hRefresh = true := by decide +kernel
example : obsShapes (Impl.run ⟨[2, 3], some cPerm⟩ hRefresh) = [[2, 3], [3, 2], [2], [3, 2], [3, 2], []] ∧
    (Impl.run ⟨[2, 3], some cPerm⟩ hRefresh).map (fun o => o.map dataOf) =
      [some [2, 5, 8, 2, 5, 8], some [2, 5, 2, 5, 2, 5], some [2, 5], some [0, 0, 1, 1, 2, 2],
       some [0, 1, 1, 2, 2, 3], none] := by decide +kernel

/-- **Witness** (seeded change C15c): a `CoordinateComponent` that keeps the world values of the full
pixel grid from its first non-optimised read, and is only re-created when `coords` is assigned,
violates `world_eq_direct_history`: after `update_values_from_data` to a dataset of shape 3×2 with the
same coordinate object, `data[world_cid]` still has shape 2×3 and the values of the old grid, and a
full-shape mask raises `IndexError`, while the scalar view (optimised branch) is computed afresh. -/
theorem cached_grid_survives_shape_change :
    let s : CoordData := ⟨[2, 3], some cPerm⟩
    let h : List HOp := [.readWorld 0 .all, .update [3, 2] (some cPerm), .readWorld 0 .all,
      .readWorld 0 (.mask [true, false, false, false, false, true]), .readWorld 0 (.basic [.int 2])]
    histOk s h = true ∧
    obsShapes (Cached.run ⟨s, []⟩ h) = [[2, 3], [2, 3], [2], [2]] ∧
    obsShapes (Spec.run s h) = [[2, 3], [3, 2], [2], [2]] ∧
    (Cached.run ⟨s, []⟩ h).map (fun o => o.map dataOf) =
      [some [2, 5, 8, 2, 5, 8], some [2, 5, 8, 2, 5, 8], some [2, 8], some [2, 5]] ∧
    (Spec.run s h).map (fun o => o.map dataOf) =
      [some [2, 5, 8, 2, 5, 8], some [2, 5, 2, 5, 2, 5], some [2, 5], some [2, 5]] ∧
    Impl.run s h = Spec.run s h := by
  refine ⟨by decide +kernel, by decide +kernel, by decide +kernel, by decide +kernel, by decide +kernel, ?_⟩
  exact world_eq_direct_history _ _ (by decide +kernel)

/-! ## witnesses: the pinned tree violates the property (finding F8) -/

/-- `AffineCoordinates([[0,2,1],[3,0,2],[0,0,1]])` on a 3×4 dataset: the pinned `dependent_axes`
returns `(0,)` for world axis 0, which really depends on pixel axis 1 only; the world component is
computed with that axis set to `0` and is constant, while the transformation gives `3·x + 2`. -/
theorem permuted_axes_wrong :
    Pinned.dependentAxes cPerm 0 = [0] ∧ needSubset cPerm 0 (Pinned.dependentAxes cPerm 0) = false ∧
    dataOf (Pinned.worldView cPerm [3, 4] 0 .all) = [2, 2, 2, 2, 2, 2, 2, 2, 2, 2, 2, 2] ∧
    dataOf (Spec.worldView cPerm [3, 4] 0 .all) = [2, 5, 8, 11, 2, 5, 8, 11, 2, 5, 8, 11] ∧
    dataOf (Impl.worldView cPerm [3, 4] 0 .all) = [2, 5, 8, 11, 2, 5, 8, 11, 2, 5, 8, 11] := by
  decide +kernel

/-- `[[1,1,0],[0,1,0],[0,0,1]]`: `pixel_x = world_x − world_y`, but the pinned
`world2pixel_single_axis` only flags `world_x` (column of the *forward* pattern) and collapses
`world_y` to its first element: the world→pixel link of the x pixel axis (numpy axis 1) is wrong. -/
theorem triangular_inverse_wrong :
    invRowSubset cTri 0 (Pinned.worldDep cTri 0) = false ∧
    dataOf (Pinned.linkW2P cTri [2, 2] 1 .all) = [0, 1, 1, 2] ∧
    dataOf (Spec.linkW2P cTri [2, 2] 1 .all) = [0, 1, 0, 1] ∧
    dataOf (Impl.linkW2P cTri [2, 2] 1 .all) = [0, 1, 0, 1] := by
  decide +kernel

/-- The 3-d chain: the pinned `from_needed` of the world→pixel link of the last pixel axis misses
a world axis that the inverse needs (`dependent_axes` is not transitive there). -/
theorem chain_from_needed_wrong :
    Pinned.dependentAxes cChain 2 = [1, 2] ∧ Impl.dependentAxes cChain 2 = [0, 1, 2] ∧
    dataOf (Pinned.linkW2P cChain [2, 2, 2] 2 .all) ≠ dataOf (Spec.pixelView [2, 2, 2] 2 .all) ∧
    dataOf (Impl.linkW2P cChain [2, 2, 2] 2 .all) = dataOf (Spec.pixelView [2, 2, 2] 2 .all) := by
  decide +kernel

end GlueVerif.C15
