import GlueVerif.Model.Coords
namespace GlueVerif.C15
end GlueVerif.C15
