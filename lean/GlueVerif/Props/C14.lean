import GlueVerif.Lemmas.Derived
import GlueVerif.Lemmas.DerivedTable
import GlueVerif.Lemmas.DerivedOrder
import GlueVerif.Lemmas.DerivedData
import GlueVerif.Lemmas.DerivedGrammar
import GlueVerif.Lemmas.DerivedCalls
import GlueVerif.Lemmas.DerivedHeap
import GlueVerif.Lemmas.DerivedHeapUpdate
/-!
# C14 — derived attributes compute their defining expression and go with their inputs

Property theorems only; helper lemmas live in `GlueVerif.Lemmas.Derived*`.  Every statement is
about the executable definitions of `GlueVerif.Model.Derived`, which the driver `Drivers/C14.lean`
runs against the real `glue` objects on every check.

Vocabulary: `SArr α` is a numpy array (shape, integer strides — `0` on broadcast axes —, base,
buffer) over an arbitrary value type `α`; `a.at idx` is its element at an index tuple;
`Val α` is what `data[cid, view]` returns (array or scalar); `InB idx S` says that `idx` is a
valid index tuple for the shape `S`; `SArr.WF` is numpy's invariant "as many strides as axes".
-/
namespace GlueVerif.C14
open GlueVerif.Derived

/-- **`BinaryComponentLink.compute` is elementwise** — for *every* binary operator `op` (an
arbitrary function), every pair of operands that are arrays of the view's shape `S` with *any*
strides (any pattern of broadcast, reversed or overlapping axes) or numbers: the code's sequence
"unbroadcast each array operand, broadcast them together, apply the operator, broadcast the result
to the shape of the last array operand" succeeds, returns shape `S` (an array iff one operand is an
array), and at every index holds `op` of the operands' elements at that index. -/
theorem binary_compute_elementwise {α : Type} (op : α → α → α) (l r : Val α) (S : List Nat)
    (hl : l.OkS S) (hr : r.OkS S) :
    ∃ res, binaryCompute op l r = some res ∧ res.OkS S ∧
      res.isArr = (l.isArr || r.isArr) ∧
      ∀ idx, InB idx S → res.get idx = op (l.get idx) (r.get idx) :=
  binaryCompute_spec op l r S hl hr

/-- The hypotheses are satisfiable by non-trivial values: a row vector broadcast along axis 0 and
a column vector broadcast along axis 1 (the pixel-coordinate situation), shape `[2, 3]`. -/
example :
    let l : SArr Nat := ⟨[2, 3], [0, 1], 0, fun i => i.toNat⟩
    let r : SArr Nat := ⟨[2, 3], [1, 0], 0, fun i => 10 * i.toNat⟩
    (Val.arr l).OkS [2, 3] ∧ (Val.arr r).OkS [2, 3] ∧ InB [1, 2] [2, 3] ∧
      (unbroadcast l).shape = [1, 3] ∧ (unbroadcast r).shape = [2, 1] := by
  refine ⟨⟨rfl, rfl⟩, ⟨rfl, rfl⟩, ?_, rfl, rfl⟩
  simp [InB]

/-- **Expression trees evaluate to their defining expression** (structural induction): if every
attribute leaf `k` of the tree `e` is fetched as a value of the view's shape whose elements are
`pt k idx`, then `BinaryComponentLink.compute` on the whole tree — nested links are evaluated
recursively, each through the unbroadcast/broadcast sequence — returns a value of that shape whose
element at every index is the expression applied to the leaves' elements at that index; it is an
array as soon as the tree reads one array attribute.  For all trees, operators, stride patterns. -/
theorem expr_eval {κ ω α : Type} (opf : ω → α → α → α) (get : κ → Except Err (Val α))
    (pt : κ → List Nat → α) (S : List Nat) (e : Expr κ ω α)
    (hleaf : ∀ k ∈ e.fromIds, ∃ v, get k = .ok v ∧ v.OkS S ∧ ∀ idx, InB idx S → v.get idx = pt k idx) :
    ∃ res, e.evalWith opf get = .ok res ∧ res.OkS S ∧
      (∀ idx, InB idx S → res.get idx = e.evalPtT opf (fun k => pt k idx)) ∧
      ((∀ k ∈ e.fromIds, ∀ v, get k = .ok v → v.isArr = true) → e.fromIds ≠ [] → res.isArr = true) :=
  evalWith_spec opf get pt S e hleaf

/-- **`ComponentLink.compute` with a user function is elementwise**: for every function `f` of any
number of inputs applied elementwise (`freshN`), every stride pattern of the inputs (all of the
view's shape `S`), and whether or not the function returns its result ravelled (the code then
repairs the shape): the result has shape `S` and holds `f` of the inputs' elements at every index. -/
theorem link_compute_elementwise {α : Type} (f : List α → α) (ravelled : Bool) (args : List (SArr α))
    (S : List Nat) (hne : args ≠ []) (hall : ∀ a ∈ args, a.shape = S ∧ a.WF) :
    ∃ res, linkCompute f ravelled (args.map .arr) = some (.arr res) ∧ res.shape = S ∧ res.WF ∧
      ∀ idx, InB idx S → res.at idx = f (args.map (·.at idx)) :=
  linkCompute_arr f ravelled args S hne hall

section table
variable {κ ω α : Type} [DecidableEq κ]

/-- **`data[k, view]` is the defining expression applied elementwise** — the whole pipeline, for
every dataset and every view.  `t` is any component table of a dataset of shape `D` (`TableOk`:
stored / pixel / world components are arrays of shape `D` with *any* strides; links read at least
one attribute), `view` any normalised basic view (integers, slices with any step, in any
combination), `k` any component all of whose inputs resolve (`refsOk`: derived components of
derived components to any depth; binary links, user-function links, parsed commands).  Then
`Data.__getitem__` as coded succeeds, returns exactly the view's shape (a scalar iff the view is
0-d), and its element at every index `idx` is the Spec value of `k` at the data index the view
addresses, `vmapN view idx`: stored values read off the array, derived ones their defining
expression applied to the values of their inputs at that same data index. -/
theorem getitem_elementwise (I : Interp ω α) (D : List Nat) (t : Table κ ω α) (view : List NAxis)
    (hT : TableOk D t) (hv : view.length = D.length) (fuel : Nat) (k : κ)
    (hk : refsOk fuel t k = true) :
    ∃ res, getData I view (viewShapeN view) fuel t k = .ok res ∧ res.IsS (viewShapeN view) ∧
      ∀ idx, InB idx (viewShapeN view) → specAt I fuel t (vmapN view idx) k = some (res.get idx) :=
  getData_spec I D t view hT hv fuel k hk

/-- **Computing on a view = taking the view of the full result** (`link_compute_view`): the
element at `idx` of `data[k, view]` equals the element of `data[k]` (whole dataset) at the data
index `didx` that the view addresses. -/
theorem getitem_view_commutes (I : Interp ω α) (D : List Nat) (t : Table κ ω α) (view : List NAxis)
    (hT : TableOk D t) (hv : view.length = D.length) (fuel : Nat) (k : κ)
    (hk : refsOk fuel t k = true) :
    ∃ rv rf, getData I view (viewShapeN view) fuel t k = .ok rv ∧
      getData I (fullView D) D fuel t k = .ok rf ∧
      ∀ idx didx, InB idx (viewShapeN view) → InB didx D →
        vmapN view idx = didx.map Int.ofNat → rv.get idx = rf.get didx := by
  obtain ⟨rv, h1, _, h3⟩ := getData_spec I D t view hT hv fuel k hk
  obtain ⟨rf, g1, _, g3⟩ := getData_spec I D t (fullView D) hT (fullView_length D) fuel k hk
  rw [viewShapeN_fullView] at g1 g3
  refine ⟨rv, rf, h1, g1, ?_⟩
  intro idx didx hi hd hmap
  have e1 := h3 idx hi
  have e2 := g3 didx hd
  rw [vmapN_fullView D didx hd.length, ← hmap, e1] at e2
  exact Option.some.inj e2

/-- **`remove_component` removes the dependency closure and nothing else.**  For every component
table `t` (any number of derived components inserted in any order, any dependency graph, even
cyclic), every identifier `k` of the table and every fuel at least the table length: the
depth-first recursion of the code (`pop`, collect the derived components reading `k` from the table
*as it is now*, recurse on each) returns exactly the original entries, in their original order,
whose key is not in `depClosure t k`. -/
theorem remove_closure (fuel : Nat) (t : Table κ ω α) (k : κ) (hf : t.length ≤ fuel)
    (hk : k ∈ t.keys) :
    removeComp fuel t k = t.filter (fun p => !((depClosure t k).contains p.1)) :=
  removeComp_eq_filter fuel t k hf hk

/-- `depClosure t k` (computed by breadth-first rounds) is exactly `{k} ∪` the derived components
of `t` that read `k` directly or transitively (`Reach`, the inductively defined relation). -/
theorem depClosure_iff_reach (t : Table κ ω α) (k x : κ) : x ∈ depClosure t k ↔ Reach t k x :=
  mem_depClosure t k x

/-- **Nothing is left dangling**: if every derived component of the dataset had all of its inputs
in the dataset before `remove_component`, every derived component that remains afterwards still has
all of its inputs. -/
theorem remove_keeps_inputs (fuel : Nat) (t : Table κ ω α) (k : κ) (hf : t.length ≤ fuel)
    (hc : ∀ d c fs x, (d, c) ∈ t → c.fromIds = some fs → x ∈ fs → x ∈ t.keys) :
    ∀ d c fs x, (d, c) ∈ removeComp fuel t k → c.fromIds = some fs → x ∈ fs →
      x ∈ (removeComp fuel t k).keys :=
  removeComp_closed fuel t k hf hc

/-- Removing an identifier that is not in the dataset changes nothing. -/
theorem remove_absent (fuel : Nat) (t : Table κ ω α) (k : κ) (hk : k ∉ t.keys) :
    removeComp fuel t k = t :=
  removeComp_absent fuel t k hk

/-- The form the driver evaluates (`implok`) on `Data.components` after a removal. -/
theorem remove_spec (fuel : Nat) (t : Table κ ω α) (k : κ) (hf : t.length ≤ fuel) :
    specRemove t k (removeComp fuel t k).keys = true :=
  specRemove_removeComp fuel t k hf

/-- **`reorder_components` is a permutation of the component table** — for every dataset (unique
identifiers) and *every* argument list `ks`: the code (length test, set test, early return,
`OrderedDict((key, self._components[key]) for key in ks)`) returns the Spec — the same components
listed in the order `ks` when `ks` is a rearrangement of the identifiers, `ValueError` otherwise.
In the first case the new table is a permutation of the old one, its identifier sequence is `ks`,
and every identifier still names the same component.  This table — in this order — is what every
later `remove_component` / `update_id` / `derived_components` works on. -/
theorem reorder_is_permutation (t : Table κ ω α) (ks : List κ) (hnd : t.keys.Nodup) :
    reorderComps t ks = specReorder t ks ∧
    (ks.Perm t.keys → ∃ t', reorderComps t ks = some t' ∧ t'.keys = ks ∧ t'.Perm t ∧
      ∀ k, t'.find k = t.find k) := by
  refine ⟨reorderComps_eq_spec t ks hnd, fun hp => ?_⟩
  have hpick := pick_is_perm t ks hnd hp
  refine ⟨t.pick ks, ?_, hpick.2, hpick.1, fun k => find_perm hpick.1 hnd k⟩
  rw [reorderComps_eq_spec t ks hnd, specReorder, if_pos (List.isPerm_iff.mpr hp)]

/-- **Removal does not depend on the component order.**  For any two orders `t'`, `t` of the same
component table (in particular `t'` = the table after any sequence of `reorder_components`, or a
table whose derived components were inserted before the derived components they read): the
dependency closure of `k` is the same set, and `remove_component` as coded on `t'` — whose search
for dependents iterates over `t'` in *its* order — removes exactly that set: the result is `t'`
without the entries whose identifier is in the closure computed in `t`, survivors in the order of
`t'`, and it is a permutation of the result on `t`.  No hypothesis relates the order to the
dependency graph (a derived component may precede its inputs; cycles are allowed). -/
theorem remove_order_invariant (fuel : Nat) (t t' : Table κ ω α) (k : κ) (hp : t'.Perm t)
    (hf : t.length ≤ fuel) (hk : k ∈ t.keys) :
    (∀ x, x ∈ depClosure t' k ↔ x ∈ depClosure t k) ∧
    removeComp fuel t' k = t'.filter (fun p => !((depClosure t k).contains p.1)) ∧
    (removeComp fuel t' k).Perm (removeComp fuel t k) := by
  refine ⟨depClosure_perm hp k, removeComp_perm fuel hp k hf hk, ?_⟩
  rw [removeComp_perm fuel hp k hf hk, removeComp_eq_filter fuel t k hf hk]
  exact hp.filter _

/-- **Values do not depend on the component order**: on any reordering `t'` of a table `t` with
unique identifiers, `data[k, view]` as coded (`getData`, including its error for a dangling or
cyclic definition) and the Spec value (`specAt`) of every component are what they are on `t`. -/
theorem reorder_preserves_values (I : Interp ω α) (t t' : Table κ ω α) (hp : t'.Perm t)
    (hnd : t.keys.Nodup) (view : List NAxis) (S : List Nat) (idx : List Int) (fuel : Nat) (k : κ) :
    getData I view S fuel t' k = getData I view S fuel t k ∧
    specAt I fuel t' idx k = specAt I fuel t idx k :=
  ⟨getData_find_congr I view S t t' (find_perm hp hnd) fuel k,
   specAt_find_congr I idx t t' (find_perm hp hnd) fuel k⟩

/-- **`update_id` keeps the order** (as repaired, F14 + F22): an *accepted* call
`update_id(old, new)` on a component `old` (accepted: `updateIdCall … = some t'`; the repaired code
raises `ValueError` instead when `new` already names a component) was given a `new` that is not in
the dataset, and yields the same entries in the same order with `old` renamed to `new` — as key and
inside the link of every derived component. -/
theorem update_id_preserves_order (t t' : Table κ ω α) (old new : κ) (hne : new ≠ old)
    (hold : old ∈ t.keys) (hnd : t.keys.Nodup) (hacc : updateIdCall t old new = some t') :
    new ∉ t.keys ∧ t' = specRename old new t ∧
    t'.keys = t.keys.map (fun x => if x = old then new else x) := by
  obtain ⟨hnew, rfl⟩ := updateIdCall_some t t' old new hne hacc
  have h := updateId_eq_specRename t old new hne hold hnew hnd
  exact ⟨hnew, h, by rw [h, specRename_keys]⟩

/-- **`update_id` keeps all values**: after an accepted call, whatever value the component `x` had
at a data index — stored or derived to any nesting depth, through binary links, user functions or
parsed commands — the component now called `if x = old then new else x` has. -/
theorem update_id_preserves_values (I : Interp ω α) (t t' : Table κ ω α) (old new : κ) (hne : new ≠ old)
    (hold : old ∈ t.keys) (hnd : t.keys.Nodup) (hacc : updateIdCall t old new = some t')
    (fuel : Nat) (idx : List Int) (x : κ) (v : α) (hv : specAt I fuel t idx x = some v) :
    specAt I fuel t' idx (if x = old then new else x) = some v := by
  obtain ⟨hnew, rfl⟩ := updateIdCall_some t t' old new hne hacc
  rw [updateId_eq_specRename t old new hne hold hnew hnd]
  exact specAt_rename I old new t hnew idx fuel x v hv

/-- **What the repaired code refuses, exactly** (`none` = `ValueError`): `remove_component(k)` iff
`k` names a pixel / world coordinate component (F20); `update_id(old, new)` iff `new` is another
identifier that already names a component — whether or not `old` does (F22);
`add_component(c, k)` iff `k` is in use and the replacement would involve a coordinate component
or turn a derived component into a regular one or back (F21).  Every other call of these three
kinds is accepted. -/
theorem refusal_exact (fuel : Nat) (t : Table κ ω α) (k old new : κ) (c : Comp κ ω α) :
    (removeCall fuel t k = none ↔ ∃ cur, t.find k = some cur ∧ cur.isCoord = true) ∧
    (updateIdCall t old new = none ↔ new ≠ old ∧ new ∈ t.keys) ∧
    (addComp t k c = none ↔ ∃ cur, t.find k = some cur ∧ kindClash cur c = true) :=
  ⟨removeCall_none fuel t k, updateIdCall_none t old new, addComp_none t k c⟩

/-- **A refused call changes nothing**: the dataset after a call that raised (`Table.after`, what
the state machine of the `hist` family continues with) is the dataset before it — same components in
the same order, hence the same value (or the same error) for every component under every view. -/
theorem refused_changes_nothing (I : Interp ω α) (t : Table κ ω α) (c : Call κ ω α)
    (h : implCall t c = none) :
    t.after (implCall t c) = t ∧
    ∀ view S fuel k, getData I view S fuel (t.after (implCall t c)) k = getData I view S fuel t k := by
  rw [h]
  exact ⟨rfl, fun _ _ _ _ => rfl⟩

/-- **Every call does what the Spec says** — for every dataset with unique identifiers and every
call of a history (`add_component` / `add_component_link`, the unchecked `add_component` of a
ready `DerivedComponent`, `remove_component`, `update_id`, `reorder_components` with any argument):
the code as repaired (`implCall`: the recursion of `remove_component`, the `OrderedDict` rebuilds,
the refusals) returns exactly `specCall` — closure filter, pure renaming, permutation, replacement
in place, and `ValueError` in exactly the Spec's cases — and the identifiers are still unique
afterwards, so the statement applies to the next call of the history. -/
theorem call_refines_spec (t : Table κ ω α) (c : Call κ ω α) (hnd : t.keys.Nodup) :
    implCall t c = specCall t c ∧ (t.after (implCall t c)).keys.Nodup := by
  have h := implCall_eq_specCall t hnd c
  exact ⟨h, by rw [h]; exact after_specCall_nodup t hnd c⟩

end table

/-- **`parse (print e) = e`**: for every expression tree of the command grammar
(`num | {tag} | unary - | + - * / ** | parentheses`), the recursive-descent parser (Python's
precedence and associativity: `-a**b = -(a**b)`, `a**-b`, `**` right-, the others
left-associative) applied to the minimal-parentheses text of the tree returns the tree — so the
reference evaluator of the text-expression family evaluates the tree the text denotes. -/
theorem parse_print {κ α : Type} (e : TExpr κ α) : Grammar.parse (Grammar.print e) = some e :=
  Grammar.parse_print_eq e

/-- `(a - (b - c)) * -(d ** -e ** f)` keeps exactly the parentheses Python needs. -/
example :
    let e : TExpr Nat Nat :=
      .bin .mul (.bin .sub (.ref 0) (.bin .sub (.ref 1) (.ref 2)))
        (.neg (.bin .pow (.ref 3) (.neg (.bin .pow (.ref 4) (.ref 5)))))
    Grammar.print e =
      [.lp, .tag 0, .op .sub, .lp, .tag 1, .op .sub, .tag 2, .rp, .rp, .op .mul,
       .op .sub, .tag 3, .op .pow, .op .sub, .tag 4, .op .pow, .tag 5] := by
  rfl

/-! ### witnesses -/

/-- A dataset `x` (stored), `y = x + 1` (derived). -/
def witnessTable : Table Nat Nat Nat :=
  [(0, .prim ⟨[3], [1], 0, fun i => i.toNat⟩ false), (1, .derived (.binary (.bin 0 (.cid 0) (.const 1))))]

def witnessInterp : Interp Nat Nat := ⟨fun _ a b => a + b, fun _ _ => 0, fun a => a⟩

/-- **F14 (the code as found)**: after `update_id(x, x')` the derived attribute `y` that read `x`
can no longer be evaluated (its link still names `x`): `IncompatibleAttribute`. -/
theorem update_id_breaks_dependents :
    specAt witnessInterp 3 witnessTable [2] 1 = some 3 ∧
    specAt witnessInterp 3 (updateId false witnessTable 0 7) [2] 1 = none ∧
    specAt witnessInterp 3 (updateId true witnessTable 0 7) [2] 1 = some 3 := by
  decide

/-- The refusals on a small dataset: pixel component `9`, `x` stored, `y = x + pixel`.  Removing the
pixel component, renaming `x` onto it (or onto `y`, also from an unknown identifier), storing values
under the pixel identifier or under `y`, and a derived definition under `x` are refused; renaming the
pixel component to a fresh identifier is accepted and the component stays a coordinate component
(still not removable, not replaceable); new values under `x` are accepted in place. -/
example :
    let pix : Comp Nat Nat Nat := .prim ⟨[3], [1], 0, fun i => i.toNat⟩ true
    let st : Comp Nat Nat Nat := .prim ⟨[3], [1], 0, fun _ => 4⟩ false
    let dv : Comp Nat Nat Nat := .derived (.binary (.bin 0 (.cid 0) (.cid 9)))
    let t : Table Nat Nat Nat := [(9, pix), (0, st), (1, dv)]
    (removeCall 4 t 9).isNone ∧ (updateIdCall t 0 9).isNone ∧ (updateIdCall t 0 1).isNone ∧
    (updateIdCall t 5 9).isNone ∧ (addComp t 9 st).isNone ∧ (addComp t 1 st).isNone ∧
    (addComp t 0 dv).isNone ∧
    ((updateIdCall t 9 7).map (·.keys)) = some [7, 0, 1] ∧
    ((updateIdCall t 9 7).bind fun t' => removeCall 4 t' 7) = none ∧
    ((updateIdCall t 9 7).bind fun t' => addComp t' 7 st) = none ∧
    ((addComp t 0 st).map (·.keys)) = some [9, 0, 1] ∧
    ((removeCall 4 t 0).map (·.keys)) = some [9] ∧
    (implCall t (.remove 9)).isNone ∧ (t.after (implCall t (.remove 9))).keys = [9, 0, 1] := by
  decide

/-- The hypotheses of `getitem_elementwise` are satisfiable by a non-trivial dataset: the witness
table (a stored component and a derived one), a reversed strided view of it. -/
example : TableOk [3] witnessTable ∧ refsOk 3 witnessTable 1 = true ∧
    normView [3] [.slice none none (some (-1))] = some [.sl 2 3 (-1)] ∧
    (getData witnessInterp [.sl 2 3 (-1)] [3] 3 witnessTable 1).toOption.map
      (fun v => [v.get [0], v.get [1], v.get [2]]) = some [3, 2, 1] := by
  refine ⟨?_, by decide, by decide, by decide⟩
  intro k c h
  have hk : k = 0 ∨ k = 1 := by
    simp only [witnessTable, Table.find] at h
    by_cases h0 : 0 = k
    · exact Or.inl h0.symm
    · by_cases h1 : 1 = k
      · exact Or.inr h1.symm
      · simp [h0, h1] at h
  rcases hk with rfl | rfl
  · simp [witnessTable, Table.find] at h; subst h; exact ⟨rfl, rfl⟩
  · simp [witnessTable, Table.find] at h; subst h; simp [Expr.fromIds]

/-- Removal on a diamond with a late-inserted reader: `a` stored, `b = a+1`, `c` stored,
`d = b*c`, `e = c+1`.  Removing `a` removes `a, b, d` and keeps `c, e` in order. -/
example :
    let t : Table Nat Nat Nat :=
      [(0, .prim ⟨[1], [1], 0, fun _ => 5⟩ false), (1, .derived (.binary (.bin 0 (.cid 0) (.const 1)))),
       (2, .prim ⟨[1], [1], 0, fun _ => 7⟩ false), (3, .derived (.binary (.bin 1 (.cid 1) (.cid 2)))),
       (4, .derived (.binary (.bin 0 (.cid 2) (.const 1))))]
    (removeComp 6 t 0).keys = [2, 4] ∧ depClosure t 0 = [0, 1, 3] := by
  decide

/-- Removal when the component order does not respect the dependencies (the situation after
`reorder_components`, or after adding a derived component before the derived component it reads):
`a` stored, then `d = c*2` *before* `c = a+1`, then `e` stored.  Removing `a` removes `a, d, c` —
a single pass over the derived components in table order would keep `d` — and reordering the table
first gives the same survivors.  Also a cyclic pair `x = y+1`, `y = x+a`: both go with `a`. -/
example :
    let t : Table Nat Nat Nat :=
      [(0, .prim ⟨[1], [1], 0, fun _ => 5⟩ false), (3, .derived (.binary (.bin 1 (.cid 2) (.const 2)))),
       (2, .derived (.binary (.bin 0 (.cid 0) (.const 1)))), (4, .prim ⟨[1], [1], 0, fun _ => 7⟩ false)]
    let cyc : Table Nat Nat Nat :=
      [(5, .derived (.binary (.bin 0 (.cid 6) (.const 1)))), (0, .prim ⟨[1], [1], 0, fun _ => 5⟩ false),
       (6, .derived (.binary (.bin 0 (.cid 5) (.cid 0))))]
    (removeComp 5 t 0).keys = [4] ∧ depClosure t 0 = [0, 2, 3] ∧
    ((reorderComps t [4, 3, 2, 0]).map fun t' => ((removeComp 5 t' 0).keys, t'.keys)) =
      some ([4], [4, 3, 2, 0]) ∧
    ((reorderComps t [4, 3, 2]).map (·.keys)) = none ∧
    ((reorderComps t [4, 3, 2, 2]).map (·.keys)) = none ∧
    (removeComp 4 cyc 0).keys = [] := by
  decide

/-! ### link OBJECTS (`Model/DerivedHeap.lean`)

Everything above treats a link as a value.  The real links are objects: a `BinaryComponentLink` keeps
its operands **by reference** and caches its inputs in a list object `_from`; one link object may be
an operand of several expressions and back several derived attributes; `update_id` rewrites link
objects in place.  The theorems below are about the heap model: `Heap` = link objects + their `_from`
list objects + `ParsedCommand` objects (+ as ghost state the inputs each object was defined with),
`HTable` = component table whose derived entries are pointers to link objects. -/

section heap
open GlueVerif.DerivedHeap
variable {κ ω α : Type} [DecidableEq κ]

/-- **The constructors create no aliasing and mutate nothing** — the invariant that makes the
value semantics of links valid.  Starting from the empty heap, after *any* sequence of
`BinaryComponentLink(left, right, op)` (operands: numbers, identifiers, or existing link objects —
re-used as often as one likes, on either side or on both), `ComponentLink([...], to, f)`,
`ParsedCommand(...)` and `ParsedComponentLink(to, parsed)` (several links may share one command
object), as coded:
* distinct link objects have distinct `_from` list objects (`NoAlias`);
* the `_from` list object of every link object holds exactly the inputs the object was defined
  with (`Coherent`), every reference points to an older object (`WF`: acyclic);
and every single constructor call leaves **all existing** link objects, list objects, command
objects and definitions exactly as they were (they are a prefix of the new heap). -/
theorem build_no_aliasing (bs : List (Build κ ω α)) (h : Heap κ ω α)
    (hb : runBuilds false {} bs = some h) :
    h.NoAlias ∧ h.Coherent ∧ h.WF ∧
    ∀ (h1 h2 : Heap κ ω α) (b : Build κ ω α), h1.Inv → build false h1 b = some h2 →
      h2.Inv ∧ h1.nodes <+: h2.nodes ∧ h1.lists <+: h2.lists ∧ h1.cmds <+: h2.cmds ∧
        h1.defIds <+: h2.defIds := by
  obtain ⟨hi, _⟩ := runBuilds_inv bs {} h Heap.Inv.empty hb
  exact ⟨hi.own.noAlias, hi.coh, hi.wf, fun h1 h2 b h1i hb' => build_inv h1 h2 b h1i hb'⟩

/-- The hypothesis of `build_no_aliasing` is satisfiable by a program that re-uses link objects:
`s = x + 1`, `s * y`, `s - z`, `(s * y) - s`, a user-function link, `f + s`, and two
`ParsedComponentLink`s on one `ParsedCommand`. -/
example : (runBuilds (κ := Nat) (ω := Nat) (α := Nat) false {}
    [.binary 0 (.cid 0) (.const 1), .binary 1 (.link 0) (.cid 1), .binary 2 (.link 0) (.cid 2),
     .binary 2 (.link 1) (.link 0), .func [0] 7 false, .binary 0 (.link 4) (.link 0),
     .cmd (.bin 0 (.ref 0) (.ref 0)), .parsed 0, .parsed 0]).map
      (fun h => (h.nodes.length, h.lists)) =
    some (8, [[0], [0, 1], [0, 2], [0, 1, 0], [0], [0, 0], [0], [0]]) := by
  decide

/-- **`remove_component` through link objects removes the dependency closure and nothing else**
(`remove_closure` lifted): on a pointer table of any order, the depth-first recursion of the code
— which asks every link object for `get_from_ids()`, i.e. reads its `_from` list cell — returns
exactly the entries whose identifier is not in the dependency closure of the value table in which
every pointer is resolved to the cell of its object; and when the heap is coherent (which
`build_no_aliasing` and `heap_calls_keep_invariant` establish) that is the closure w.r.t. the inputs
the link objects were **defined** with: `implCallH` and `specCallH` agree on every removal. -/
theorem heap_remove_closure (s : State κ ω α) (k : κ) (fuel : Nat) (hp : PtrTable s.t)
    (hf : s.t.length ≤ fuel) (hk : k ∈ s.t.keys) :
    removeCompH s.h.cellIds fuel s.t k =
      s.t.filter (fun p => !((depClosure (resolve s.h.cellIds s.t) k).contains p.1)) ∧
    (s.h.WF → s.h.Coherent →
      implCallH s (.remove k) = specCallH s (.remove k)) := by
  refine ⟨removeCompH_eq_filter s.h.cellIds fuel s.t k hp hf hk, fun hw hc => ?_⟩
  have hids : s.h.cellIds = s.h.specIds := funext fun n => cellIds_eq_specIds hw hc n
  simp only [implCallH, specCallH]
  cases hfind : s.t.find k with
  | none => rfl
  | some c =>
    simp only
    rw [removeCompH_eq_filter s.h.cellIds (s.t.length + 1) s.t k hp (Nat.le_succ _) hk, hids]

/-- **`data[k, view]` through link objects is the defining expression, elementwise**
(`getitem_elementwise` lifted): for every data set of shape `D` whose heap is coherent, every
normalised view and every target — a component (`.inl k`) or a link object (`.inr n`) — whose
inputs resolve: `evalH` as coded (operands that are link objects are computed recursively by
reference, a user-function link is fed `[data[f, view] for f in self._from]` from its **list
cell**, a parsed link evaluates its possibly shared `ParsedCommand` object) succeeds, returns exactly
the view's shape and at every index the Spec value at the data index the view addresses — the
operator / user function / command applied to the values of what the object was **defined** with. -/
theorem heap_getitem_elementwise (I : Interp ω α) (D : List Nat) (s : State κ ω α) (view : List NAxis)
    (hok : StateOk D s) (hc : s.h.Coherent) (hv : view.length = D.length) (fuel : Nat) (tgt : Tgt κ)
    (hr : resolvesH fuel s tgt = true) :
    ∃ res, evalH I view (viewShapeN view) fuel s tgt = .ok res ∧ res.IsS (viewShapeN view) ∧
      ∀ idx, InB idx (viewShapeN view) → specH I fuel s (vmapN view idx) tgt = some (res.get idx) :=
  evalH_spec I D s view hok hc hv fuel tgt hr

/-- **`update_id` on shared link objects: order and values are kept.**  For a data set with unique
identifiers, a pointer table and a well-formed heap, the accepted call `update_id(old, new)` —
`Data.update_id` as coded: key rebuild, then `component.link.replace_ids(old, new)` for every derived
component, rewriting link objects **in place**, a shared object being visited once per path and per
component — yields the same entries in the same order with `old` renamed (the pointers are
untouched), and whatever value a component or a reachable link object had at a data index, the
renamed component / the same object has afterwards. -/
theorem heap_update_id_preserves (I : Interp ω α) (s : State κ ω α) (old new : κ) (hne : new ≠ old)
    (hold : old ∈ s.t.keys) (hnew : new ∉ s.t.keys) (hnd : s.t.keys.Nodup) (hp : PtrTable s.t)
    (hw : s.h.WF) (hv : PtrValid s) :
    (updateIdH s old new).t = specRename old new s.t ∧
    (updateIdH s old new).t.keys = s.t.keys.map (fun x => if x = old then new else x) ∧
    ∀ (idx : List Int) (fuel : Nat) (tgt : Tgt κ) (v : α), Good s tgt →
      specH I fuel s idx tgt = some v →
      specH I fuel (updateIdH s old new) idx (renT old new tgt) = some v := by
  have hc : s.t.keys.contains old = true := by simpa using hold
  have ht : (updateIdH s old new).t = specRename old new s.t := by
    simp only [updateIdH, hne, if_false, hc, if_true]
    exact updateId_false_ptr s.t old new hne hold hnew hnd hp
  exact ⟨ht, by rw [ht, specRename_keys], fun idx fuel tgt v hg h =>
    updateIdH_values I s old new hne hold hnew hnd hp hw hv idx fuel tgt v hg h⟩

/-- **A shared link object is rewritten once**: `replace_ids` applied a second time to the same
object (which `update_id` does whenever the object is reachable along two paths or backs two
derived attributes) leaves the whole heap — objects, list cells, commands — exactly as the first
application left it; and the first application leaves every object reachable from it free of
`old`. -/
theorem heap_update_visits_once (old new : κ) (hne : new ≠ old) (fuel : Nat) (h : Heap κ ω α)
    (n : NodeId) (hi : h.Inv) (hlt : n < fuel) :
    replaceIds old new fuel (replaceIds old new fuel h n) n = replaceIds old new fuel h n ∧
    ∀ x, HReach h n x → FreeAt old (replaceIds old new fuel h n) x :=
  ⟨replaceIds_twice old new hne fuel h n hi hlt,
   fun x hx => replaceIds_free old new hne fuel h n hi.wf hlt x hx⟩

/-- **Every call keeps the heap invariant** (well-formed, no two link objects share a list
object, cells = definitions): adding and removing do not touch link objects, `update_id` rewrites
them in place and keeps the invariant — so `build_no_aliasing` extends to every interleaving of
constructor calls and data set calls, and the value semantics stays valid along whole histories. -/
theorem heap_calls_keep_invariant (s s' : State κ ω α) (c : HCall κ α) (hi : s.h.Inv)
    (hc : implCallH s c = some s') : s'.h.Inv ∧ s'.h.NoAlias :=
  ⟨implCallH_inv s s' c hi hc, (implCallH_inv s s' c hi hc).own.noAlias⟩

end heap

/-! ### witness: sharing the input list breaks `remove_spec` -/

section sharing
open GlueVerif.DerivedHeap

/-- `s = x + 1`, `s * y`, `s - z` built by re-using the link object `s` on the left. -/
def sharedBuilds : List (Build Nat Nat Nat) :=
  [.binary 0 (.cid 0) (.const 1), .binary 1 (.link 0) (.cid 1), .binary 2 (.link 0) (.cid 2)]

/-- `x, y, z` stored; `s`, `d1 = s * y`, `d2 = s - z` backed by the three link objects. -/
def sharedTable : HTable Nat Nat :=
  [(0, .prim ⟨[1], [1], 0, fun _ => 5⟩ false), (1, .prim ⟨[1], [1], 0, fun _ => 6⟩ false),
   (2, .prim ⟨[1], [1], 0, fun _ => 7⟩ false), (10, ptr 0), (11, ptr 1), (12, ptr 2)]

/-- **Sharing the input list breaks "nothing else".**  As coded, the three link objects have the
`_from` cells `[x]`, `[x, y]`, `[x, z]`; removing `z` removes `z` and `d2` only, which is what
`remove_spec` demands of the value table.  In the variant where `BinaryComponentLink.__init__`
re-uses the left operand's own list object and extends it (`share = true`, the seeded change), the
object `s` — and `s * y`, which shares the cell — ends up with the cell `[x, y, z]` although it was
defined with `[x]`: the heap is neither alias-free nor coherent, removing `z` also removes `s` and
`d1`, and `remove_spec`'s verdict on the definitions is `false`. -/
theorem shared_list_breaks_remove :
    (runBuilds false {} sharedBuilds).map (fun h =>
      (h.lists, (removeCompH h.cellIds 7 sharedTable 2).keys,
       specRemove (resolve h.specIds sharedTable) 2 (removeCompH h.cellIds 7 sharedTable 2).keys,
       h.noAliasB, h.coherentB)) =
      some ([[0], [0, 1], [0, 2]], [0, 1, 10, 11], true, true, true) ∧
    (runBuilds true {} sharedBuilds).map (fun h =>
      (h.lists, h.defIds, (removeCompH h.cellIds 7 sharedTable 2).keys,
       specRemove (resolve h.specIds sharedTable) 2 (removeCompH h.cellIds 7 sharedTable 2).keys,
       h.noAliasB, h.coherentB)) =
      some ([[0, 1, 2]], [[0], [0, 1], [0, 2]], [0, 1], false, false, false) :=
  ⟨by decide, by decide⟩

/-- `update_id(x, x')` with the link object `s = x + 1` shared by `s * y` and `s - z` (all three
back a derived attribute, so `s` is visited three times): every object ends up renamed exactly once,
cells and definitions stay equal, and the heap is what the Spec's renaming of everything reachable
gives. -/
example :
    (runBuilds false {} sharedBuilds).map (fun h =>
      let s' := updateIdH (⟨h, sharedTable⟩ : State Nat Nat Nat) 0 9
      (s'.t.keys, s'.h.lists, s'.h.defIds, s'.h.coherentB, s'.h.noAliasB,
       s'.h.nodes == (specRenameH (⟨h, sharedTable⟩ : State Nat Nat Nat) 0 9).h.nodes)) =
      some ([9, 1, 2, 10, 11, 12], [[9], [9, 1], [9, 2]], [[9], [9, 1], [9, 2]], true, true, true) := by
  decide

end sharing

end GlueVerif.C14
