import GlueVerif.Model.Derived
namespace GlueVerif.C14
end GlueVerif.C14
