import GlueVerif.Lemmas.C11Main
/-!
# C11 — key joins propagate selections by key membership, in all four join shapes

Property theorems only; helper lemmas live in `GlueVerif.Lemmas.C11*`.  Every statement is about
the executable definitions of `GlueVerif.Model.Joins` which the driver `Drivers/C11.lean` runs
against `glue/core/joins.py` / `Data.get_mask` on every check; `specOk` is the very predicate the
driver evaluates on the *implementation's* output.

Vocabulary: a `World` is a list of datasets; `ds.ownMask = some m` means the selection can be
evaluated on `ds` (giving `m`), `none` means `IncompatibleAttribute`; `ds.joins` is `_key_joins`
in dict order; `Impl.getMask w d v` is `datasets[d].get_mask(state, view=v)` as coded
(`_recursing` flags, first partner that can evaluate wins, the four shapes, the n-n byte path with
the F6/F6b repairs, the F16 self-join repair); `veq` is equality of two stored keys as numpy compares
values (promotion to the common dtype, IEEE `==`); `veqX` is **exact** equality by value (`veq` and
both promotions value-preserving) — they differ only when a 64-bit integer that float64 cannot
represent meets a float key (known finding F-C11d); `Spec.rowMatch` / `specOk` use `veqX`,
`Np.rowMatch` uses `veq`.
-/
namespace GlueVerif.C11
open GlueVerif.Joins GlueVerif.Joins.Lemmas

/-! ## Termination, cycles -/

/-- **Termination.** For every join graph (any number of datasets, cycles, self-joins, several
joins per dataset), every queried dataset and every view: the recursion of `get_mask` through the
key joins never needs more than `#datasets + 1` nested calls, any larger bound gives the same
answer, and when no dataset at all can evaluate the selection the answer is
`IncompatibleAttribute` — in particular on cyclic joins. -/
theorem join_terminates (w : World) (d : Nat) (v : View) :
    Impl.getMask w d v ≠ .outOfFuel ∧
    (∀ k, getMask Impl.joinMask w (w.length + 1 + k) d [] v = Impl.getMask w d v) ∧
    ((∀ ds ∈ w, ds.ownMask = none) → Impl.getMask w d v = .incompatible) := by
  have hne : Impl.getMask w d v ≠ .outOfFuel :=
    getMask_ne_outOfFuel _ implJoinMask_good w _ d [] v (by simp) (by have := unflagged_le w []; omega)
  refine ⟨hne, fun k => getMask_add _ w _ d [] v hne k, fun hno => ?_⟩
  unfold Impl.getMask
  rw [getMask_eq_first _ implJoinMask_good w _ d [] v (by simp) (by have := unflagged_le w []; omega),
    paths_nil_of_no_evaluator w hno]
  rfl

/-- The same bound with flags already set (the general induction hypothesis): from a dataset that
is not flagged, fuel above the number of unflagged datasets always suffices. -/
theorem join_terminates_flags (w : World) (fuel d : Nat) (G : List Nat) (v : View) (hd : d ∉ G)
    (hf : unflagged w G < fuel) : getMask Impl.joinMask w fuel d G v ≠ .outOfFuel :=
  getMask_ne_outOfFuel _ implJoinMask_good w fuel d G v hd hf

/-- **Which path.** `get_mask` answers with the propagation along the *first* admissible join
path in dict order (`paths` lists the simple paths from `d` through datasets that cannot evaluate
the selection to one that can), and with `IncompatibleAttribute` exactly when there is no such
path. -/
theorem join_first_path (w : World) (d : Nat) (v : View) :
    Impl.getMask w d v = firstAlong Impl.joinMask w (paths w (w.length + 1) d []) v :=
  getMask_eq_first _ implJoinMask_good w _ d [] v (by simp) (by have := unflagged_le w []; omega)

/-- **What an admissible path is.** The paths the oracle ranges over are exactly the declarative
simple join paths (`JoinPath`): from `d`, through datasets that cannot evaluate the selection, never
visiting a dataset twice, to a dataset that can.  (`#datasets + 1` fuel reaches all of them.) -/
theorem paths_iff_joinPath (w : World) (d : Nat) (steps : List (Nat × Join)) (e : Nat) :
    (steps, e) ∈ paths w (w.length + 1) d [] ↔ JoinPath w d [] steps e := by
  constructor
  · exact joinPath_of_mem_paths w _ d [] steps e
  · intro h
    apply mem_paths_of_joinPath w d [] steps e h
    have := joinPath_length w d [] steps e h (by simp)
    have := unflagged_le w []
    omega

theorem join_incompatible_iff (w : World) (d : Nat) (v : View) :
    Impl.getMask w d v = .incompatible ↔ paths w (w.length + 1) d [] = [] := by
  rw [join_first_path]
  cases hps : paths w (w.length + 1) d [] with
  | nil => simp [firstAlong]
  | cons p ps =>
    simp only [firstAlong, reduceCtorEq, iff_false]
    exact along_paths_ne_incompatible _ implJoinMask_good w _ d [] v p (by rw [hps]; simp)

/-! ## One join step, the four shapes (row selected ⇔ membership by value) -/

/-- **1-1.** Row `i` of the left dataset is selected iff its key equals, by value, the key of
some selected row of the partner.  No hypothesis on dtypes: `int32` against `int64`, `'<U3'`
against `'<U6'`, ints against floats all compare by value. -/
theorem join_1_1 (L R : Dataset) (j : Join) (mR : List Bool) (a b : Nat)
    (ha : j.own = [a]) (hb : j.oth = [b]) :
    ∃ m, propagate Impl.joinMask L j R mR none = .mask m ∧ m.length = L.rows.length ∧
      ∀ (i : Nat) (lrow : List Cell), L.rows[i]? = some lrow →
        (m[i]? = some true ↔ ∃ (r : Nat) (rrow : List Cell), R.rows[r]? = some rrow ∧ mR[r]? = some true ∧
          veqO (keyOf L.dts lrow a) (keyOf R.dts rrow b) = true) := by
  have hok : joinOk L j R = true := by simp [joinOk, arityOk, ha, hb]
  obtain ⟨m, h1, h2, h3⟩ := propagate_impl_iff L j R mR hok
  refine ⟨m, h1, h2, fun i lrow hi => ?_⟩
  rw [h3 i lrow hi]
  simp only [ha, hb, Np.rowMatch, List.length_singleton, and_self, if_true, rowKeys_single]

/-- **1-n.** One key column here, several there: row `i` is selected iff its key equals any of
the keys of some selected partner row. -/
theorem join_1_n (L R : Dataset) (j : Join) (mR : List Bool) (a : Nat)
    (ha : j.own = [a]) (hb : j.oth.length ≠ 1) :
    ∃ m, propagate Impl.joinMask L j R mR none = .mask m ∧ m.length = L.rows.length ∧
      ∀ (i : Nat) (lrow : List Cell), L.rows[i]? = some lrow →
        (m[i]? = some true ↔ ∃ (r : Nat) (rrow : List Cell), R.rows[r]? = some rrow ∧ mR[r]? = some true ∧
          ∃ kb ∈ rowKeys R.dts j.oth rrow, veqO (keyOf L.dts lrow a) (some kb) = true) := by
  have hne : ¬ (1 = j.oth.length) := fun h => hb h.symm
  have hok : joinOk L j R = true := by simp [joinOk, arityOk, ha]
  obtain ⟨m, h1, h2, h3⟩ := propagate_impl_iff L j R mR hok
  refine ⟨m, h1, h2, fun i lrow hi => ?_⟩
  rw [h3 i lrow hi]
  simp only [ha, Np.rowMatch, List.length_singleton, hb, and_false, if_false, hne, if_true,
    rowKeys_single, List.any_eq_true]

/-- **n-1.** Several key columns here, one there: row `i` is selected iff any of its keys equals
the key of some selected partner row. -/
theorem join_n_1 (L R : Dataset) (j : Join) (mR : List Bool) (b : Nat)
    (ha : j.own.length ≠ 1) (ha0 : j.own.length ≠ 0) (hb : j.oth = [b]) :
    ∃ m, propagate Impl.joinMask L j R mR none = .mask m ∧ m.length = L.rows.length ∧
      ∀ (i : Nat) (lrow : List Cell), L.rows[i]? = some lrow →
        (m[i]? = some true ↔ ∃ (r : Nat) (rrow : List Cell), R.rows[r]? = some rrow ∧ mR[r]? = some true ∧
          ∃ ka ∈ rowKeys L.dts j.own lrow, veqO (some ka) (keyOf R.dts rrow b) = true) := by
  have hok : joinOk L j R = true := by simp [joinOk, arityOk, hb, ha, ha0]
  obtain ⟨m, h1, h2, h3⟩ := propagate_impl_iff L j R mR hok
  refine ⟨m, h1, h2, fun i lrow hi => ?_⟩
  rw [h3 i lrow hi]
  simp only [hb, Np.rowMatch, List.length_singleton, ha, false_and, if_false, if_true,
    rowKeys_single, List.any_eq_true]

/-- **n-n.** The same number (≥ 2) of key columns on both sides: row `i` is selected iff its key
*tuple* equals, component by component and by value, the key tuple of some selected partner row —
although the code compares NUL-stripped concatenated bytes.  Hypothesis `joinOk`: paired columns
are both strings or both numbers and every item is a legal item of the promoted dtype. -/
theorem join_n_n (L R : Dataset) (j : Join) (mR : List Bool)
    (hn : j.own.length = j.oth.length) (h2 : 2 ≤ j.own.length) (hok : joinOk L j R = true) :
    ∃ m, propagate Impl.joinMask L j R mR none = .mask m ∧ m.length = L.rows.length ∧
      ∀ (i : Nat) (lrow : List Cell), L.rows[i]? = some lrow →
        (m[i]? = some true ↔ ∃ (r : Nat) (rrow : List Cell), R.rows[r]? = some rrow ∧ mR[r]? = some true ∧
          ∀ p ∈ (rowKeys L.dts j.own lrow).zip (rowKeys R.dts j.oth rrow), veq p.1 p.2 = true) := by
  obtain ⟨m, h1, h2', h3⟩ := propagate_impl_iff L j R mR hok
  refine ⟨m, h1, h2', fun i lrow hi => ?_⟩
  rw [h3 i lrow hi]
  have h11 : ¬ (j.own.length = 1 ∧ j.oth.length = 1) := by omega
  unfold Np.rowMatch
  simp only [if_neg h11, if_pos hn, List.all_eq_true]

/-! ## The byte path -/

/-- **Injectivity of the fixed-width encoding**: two legal items of the same dtype with the same
bytes (two's-complement little-endian integers of any width, IEEE bit patterns, NUL-padded UTF-32
strings) are the same item. -/
theorem enc_injective (c : DType) (x y : Cell) (hx : validCell c x = true) (hy : validCell c y = true)
    (h : enc c x = enc c y) : x = y :=
  enc_inj c x y hx hy h

/-- NUL-stripping (numpy's comparison of `S<n>` items) is injective at equal total width. -/
theorem stripZ_injective (xs ys : List Nat) (hl : xs.length = ys.length) (h : stripZ xs = stripZ ys) :
    xs = ys :=
  stripZ_inj xs ys hl h

/-- **Byte equality ⇔ tuple equality by value** for the repaired n-n path: after the paired items
are cast to their common dtype and `+ 0` is applied to floats, the NUL-stripped concatenated bytes
of two key tuples coincide (and the left tuple holds no NaN) iff the tuples are equal component by
component under numpy's `==` — including `-0.0 == 0.0` and `NaN != NaN`. -/
theorem bytes_eq_iff_tuple_eq (l r : List Key) (h : rowsOk l r = true) :
    nnMatch l r = (l.zip r).all fun p => veq p.1 p.2 :=
  nnMatch_eq l r h

/-! ## Chains, views, the oracle -/

/-- **Chains.** If `steps` is a chain (each dataset on it cannot evaluate the selection, its other
joins only lead back to the path), the answer at its first dataset is the composition of the single
join steps back from the evaluator `e` — whatever the length of the chain and whichever direction
the joins were declared in. -/
theorem join_chain (w : World) (steps : List (Nat × Join)) (e : Nat) (v : View)
    (hc : IsChain w [] steps e) (hlen : steps.length ≤ w.length) :
    Impl.getMask w (chainStart steps e) v = along Impl.joinMask w steps e v :=
  getMask_chain _ implJoinMask_good w steps e [] _ v hc (by simp) (by omega)
    (by have := unflagged_le w []; omega)

/-- **Views.** Asking with a view is taking the view of the full answer (same outcome otherwise). -/
theorem join_view (w : World) (d : Nat) (idx : List Nat) :
    Impl.getMask w d (some idx) = mapRes (applyView (some idx)) (Impl.getMask w d none) := by
  have hfun : Impl.joinMask = jmOf Impl.rowMatch := by
    funext kl kr n1 n2
    exact implJoinMask_eq_jmOf kl kr n1 n2
  rw [join_first_path, join_first_path, hfun]
  cases paths w (w.length + 1) d [] with
  | nil => rfl
  | cons p ps => exact along_view Impl.rowMatch w p.1 p.2 (some idx)

/-- On a well-formed world the code computes exactly the membership by value *as numpy compares
values* (`Np`: paired items promoted to their common dtype), for every fuel, dataset, flag set and view. -/
theorem impl_eq_np (w : World) (hw : worldOk w = true) (fuel d : Nat) (G : List Nat) (v : View) :
    getMask Impl.joinMask w fuel d G v = getMask Np.joinMask w fuel d G v :=
  getMask_impl_eq_spec w hw fuel d G v

/-- numpy's promoted comparison **is** exact comparison by value as long as no join compares a 64-bit
integer that float64 cannot represent with a float key (`exactOk`). -/
theorem np_eq_spec (w : World) (hx : exactOk w = true) (fuel d : Nat) (G : List Nat) (v : View) :
    getMask Np.joinMask w fuel d G v = getMask Spec.joinMask w fuel d G v :=
  getMask_np_eq_spec w hx fuel d G v

/-- Hence on such worlds the code computes exactly what the exact by-value Spec computes. -/
theorem impl_eq_spec (w : World) (hw : worldOk w = true) (hx : exactOk w = true)
    (fuel d : Nat) (G : List Nat) (v : View) :
    getMask Impl.joinMask w fuel d G v = getMask Spec.joinMask w fuel d G v := by
  rw [impl_eq_np w hw, np_eq_spec w hx]

/-- Row by row, exact membership implies numpy membership in every shape: promotion can only *add*
matches (false positives), never lose one. -/
theorem spec_rowMatch_imp_np (n1 n2 : Nat) (l r : List Key) (h : Spec.rowMatch n1 n2 l r = true) :
    Np.rowMatch n1 n2 l r = true := by
  have hO : ∀ a b : Option Key, veqXO a b = true → veqO a b = true := by
    intro a b hab
    cases a with
    | none => cases hab
    | some a =>
      cases b with
      | none => cases hab
      | some b => exact veq_of_veqX a b hab
  unfold Spec.rowMatch at h
  unfold Np.rowMatch
  split
  · rename_i h11; rw [if_pos h11] at h; exact hO _ _ h
  · rename_i h11
    rw [if_neg h11] at h
    split
    · rename_i hnn
      rw [if_pos hnn, List.all_eq_true] at h
      rw [List.all_eq_true]
      exact fun p hp => veq_of_veqX _ _ (h p hp)
    · rename_i hnn
      rw [if_neg hnn] at h
      split
      · rename_i h1
        rw [if_pos h1, List.any_eq_true] at h
        obtain ⟨b, hb, hv⟩ := h
        exact List.any_eq_true.mpr ⟨b, hb, hO _ _ hv⟩
      · rename_i h1
        rw [if_neg h1, List.any_eq_true] at h
        obtain ⟨a, ha, hv⟩ := h
        exact List.any_eq_true.mpr ⟨a, ha, hO _ _ hv⟩

/-- **The property, as the driver checks it** (`implok` whenever `p`): on every well-formed world
in which no join compares a float64-unrepresentable 64-bit integer with a float key, the answer
of `get_mask` is accepted by the oracle — it is the propagation by **exact** value along an admissible
join path, or `incompatible` when no dataset reachable through joins can evaluate.
`_partial`-free inside `exactOk`; outside it the full statement (no `exactOk`) is false:
`int64_float_promotion` below. -/
theorem join_correct (w : World) (d : Nat) (v : View) (hw : worldOk w = true) (hx : exactOk w = true) :
    specOk w d v (Impl.getMask w d v) = true :=
  specOk_impl w d v hw hx

/-! ## Non-vacuity and witnesses -/

def i4 : DType := .int true 4
def i8 : DType := .int true 8
def f8 : DType := .flt 8

/-- d0 (int32 keys) — d1 (int64 keys, two columns) — d2 (evaluates), joined in a cycle. -/
def exWorld : World :=
  [ { dts := [i4, i4], rows := [[.i 1, .i 2], [.i 1, .i 3], [.i 2, .i 2]], ownMask := none,
      joins := [⟨2, [0], [0]⟩, ⟨1, [0, 1], [0, 1]⟩] },
    { dts := [i8, i8], rows := [[.i 1, .i 2], [.i 2, .i 2], [.i 5, .i 5]], ownMask := none,
      joins := [⟨0, [0, 1], [0, 1]⟩, ⟨2, [1], [0]⟩] },
    { dts := [i8], rows := [[.i 2], [.i 7]], ownMask := some [true, false],
      joins := [⟨1, [0], [1]⟩, ⟨0, [0], [0]⟩] } ]

example : worldOk exWorld = true := by decide
example : exactOk exWorld = true := by decide
example : Impl.getMask exWorld 0 none = .mask [false, false, true] := by decide
example : Impl.getMask exWorld 1 none = .mask [false, true, false] := by decide
example : Impl.getMask exWorld 1 (some [1, 1, 0]) = .mask [true, true, false] := by decide
example : (paths exWorld 4 0 []).length = 2 := by decide

/-- a 3-chain asked from either end is a chain in the sense of `join_chain` -/
def exChain : World :=
  [ { dts := [i4], rows := [[.i 1], [.i 2]], ownMask := none, joins := [⟨1, [0], [0]⟩] },
    { dts := [i8], rows := [[.i 2], [.i 3]], ownMask := none, joins := [⟨0, [0], [0]⟩, ⟨2, [0], [0]⟩] },
    { dts := [i8], rows := [[.i 3], [.i 2]], ownMask := some [false, true], joins := [⟨1, [0], [0]⟩] } ]

example : IsChain exChain [] [(0, ⟨1, [0], [0]⟩), (1, ⟨2, [0], [0]⟩)] 2 := by
  refine ⟨_, rfl, rfl, by decide, by decide, by decide, by decide, rfl, ?_⟩
  exact ⟨_, rfl, rfl, by decide, by decide, by decide, by decide, rfl, ⟨_, rfl, rfl⟩⟩

example : Impl.getMask exChain 0 none = .mask [false, true] := by decide

/-- **F6 witness (unrepaired code).** With `int32` keys on one side and `int64` keys on the
other, the byte comparison rejects the equal tuples `(1, 2)` / `(1, 2)` … -/
theorem nn_dtype_mismatch :
    nnMatchRaw [(i4, .i 1), (i4, .i 2)] [(i8, .i 1), (i8, .i 2)] = false ∧
    Spec.rowMatch 2 2 [(i4, .i 1), (i4, .i 2)] [(i8, .i 1), (i8, .i 2)] = true ∧
    nnMatch [(i4, .i 1), (i4, .i 2)] [(i8, .i 1), (i8, .i 2)] = true := by decide

/-- … and accepts the different tuples `(1, 2)` / `(2^33 + 1, 0)`. -/
theorem nn_dtype_false_positive :
    nnMatchRaw [(i4, .i 1), (i4, .i 2)] [(i8, .i 8589934593), (i8, .i 0)] = true ∧
    Spec.rowMatch 2 2 [(i4, .i 1), (i4, .i 2)] [(i8, .i 8589934593), (i8, .i 0)] = false ∧
    nnMatch [(i4, .i 1), (i4, .i 2)] [(i8, .i 8589934593), (i8, .i 0)] = false := by decide

/-- The same with string widths: `('a','b')` in `'<U1'` columns against `'<U2'` columns. -/
theorem nn_string_width_mismatch :
    nnMatchRaw [(.str 1, .s [97]), (.str 1, .s [98])] [(.str 2, .s [97]), (.str 2, .s [98])] = false ∧
    Spec.rowMatch 2 2 [(.str 1, .s [97]), (.str 1, .s [98])] [(.str 2, .s [97]), (.str 2, .s [98])] = true ∧
    nnMatch [(.str 1, .s [97]), (.str 1, .s [98])] [(.str 2, .s [97]), (.str 2, .s [98])] = true := by decide

/-- **F6b witness (cast only, no `+ 0` / NaN mask).** `(0.0, 1.0)` against `(-0.0, 1.0)` is
rejected although equal by value, `(NaN, 1.0)` against itself is accepted although NaN ≠ NaN. -/
theorem nn_float_specials :
    nnMatchCastOnly [(f8, .f 0), (f8, .f 4607182418800017408)]
                    [(f8, .f 9223372036854775808), (f8, .f 4607182418800017408)] = false ∧
    Spec.rowMatch 2 2 [(f8, .f 0), (f8, .f 4607182418800017408)]
                      [(f8, .f 9223372036854775808), (f8, .f 4607182418800017408)] = true ∧
    nnMatchCastOnly [(f8, .f 9221120237041090560), (f8, .f 4607182418800017408)]
                    [(f8, .f 9221120237041090560), (f8, .f 4607182418800017408)] = true ∧
    Spec.rowMatch 2 2 [(f8, .f 9221120237041090560), (f8, .f 4607182418800017408)]
                      [(f8, .f 9221120237041090560), (f8, .f 4607182418800017408)] = false := by decide

/-- 2^53 as float64, 1.0 as float64 -/
def f2p53 : Nat := 4845873199050653696
def fOne : Nat := 4607182418800017408

/-- **Mixed dtypes inside one dataset, values at the edge of float64.** Key tuples
`(int64 2^53+1, float64 1.0)` and `(int64 2^53, float64 1.0)` differ; the byte path (each *pair*
of columns promoted on its own) keeps them apart, as the Spec demands.  Any promotion *across* the
columns of one dataset (e.g. `np.column_stack`) would identify them. -/
theorem nn_mixed_columns_exact :
    nnMatch [(i8, .i 9007199254740993), (f8, .f fOne)] [(i8, .i 9007199254740992), (f8, .f fOne)] = false ∧
    Spec.rowMatch 2 2 [(i8, .i 9007199254740993), (f8, .f fOne)] [(i8, .i 9007199254740992), (f8, .f fOne)] = false ∧
    nnMatch [(i8, .i 9007199254740993), (f8, .f fOne)] [(i8, .i 9007199254740993), (f8, .f fOne)] = true ∧
    Spec.rowMatch 2 2 [(i8, .i 9007199254740993), (f8, .f fOne)] [(i8, .i 9007199254740993), (f8, .f fOne)] = true := by
  decide +kernel

/-- int64 keys `2^53 + 1`, `2^53` joined 1-1 to a float64 key `2^53` (selected). -/
def exPromo : World :=
  [ { dts := [i8], rows := [[.i 9007199254740993], [.i 9007199254740992], [.i 5]], ownMask := none,
      joins := [⟨1, [0], [0]⟩] },
    { dts := [f8], rows := [[.f f2p53]], ownMask := some [true], joins := [⟨0, [0], [0]⟩] } ]

/-- **F-C11d witness (known finding).** An int64 key column *paired with* a float64 key column is
compared in float64 (`np.result_type(int64, float64)`; `np.isin` in the 1-1 / 1-n / n-1 branches,
`common_key_arrays` in the n-n branch): `2^53 + 1` is rounded to `2^53` and selected although no
selected key has that value.  The world is well-formed, only `exactOk` fails; the exact Spec rejects
the code's answer and accepts `[false, true, false]`. -/
theorem int64_float_promotion :
    veq (i8, .i 9007199254740993) (f8, .f f2p53) = true ∧
    veqX (i8, .i 9007199254740993) (f8, .f f2p53) = false ∧
    veqX (i8, .i 9007199254740992) (f8, .f f2p53) = true ∧
    nnMatch [(i8, .i 9007199254740993), (i8, .i 1)] [(f8, .f f2p53), (i8, .i 1)] = true ∧
    Spec.rowMatch 2 2 [(i8, .i 9007199254740993), (i8, .i 1)] [(f8, .f f2p53), (i8, .i 1)] = false ∧
    worldOk exPromo = true ∧ exactOk exPromo = false ∧
    Impl.getMask exPromo 0 none = .mask [true, true, false] ∧
    specOk exPromo 0 none (.mask [true, true, false]) = false ∧
    specOk exPromo 0 none (.mask [false, true, false]) = true := by
  decide +kernel

end GlueVerif.C11
