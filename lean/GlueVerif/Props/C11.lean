import GlueVerif.Model.Joins
namespace GlueVerif.C11
end GlueVerif.C11
