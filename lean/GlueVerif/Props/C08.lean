import GlueVerif.Model.Geometry
/-! # C08 — placeholder, theorems follow -/
namespace GlueVerif.C08
end GlueVerif.C08
