import GlueVerif.Lemmas.Geometry
import GlueVerif.Lemmas.GeometryPoly
import GlueVerif.Lemmas.GeometryEllipse
import GlueVerif.Lemmas.GeometryOps
import GlueVerif.Lemmas.GeometryScale
import GlueVerif.Props.C20
/-!
# C08 — region containment is geometrically exact and equivariant under move / rotate / copy

Property theorems only; helper lemmas live in `GlueVerif.Lemmas.Geometry`.  Every statement is about
the executable definitions of `GlueVerif.Model.Geometry` that the driver `Drivers/C08.lean` runs
against `glue/core/roi.py` on every check: `Impl.*` is the code as written (θ-branches chosen by
`np.isclose`, bounding-box prefilters, `<` vs `<=`, matplotlib's crossing test), `Spec.*` is the
geometric definition, `near r p ε` the boundary band outside which implementation (IEEE doubles) and
model (exact rationals) are compared.  All statements hold for **all** parameters, points, angles
(given as exact unit vectors `(c, s)`), polygons (any number of vertices, open / closed / concave /
self-intersecting) and array arrangements — no bound on anything.

Not here (no theorem, numerical check only — family `disc`): the discretisation error of
`to_polygon()` for circles / ellipses (needs real trigonometry).
-/
namespace GlueVerif.C08
open GlueVerif.Geometry GlueVerif.Lemmas.Geometry

/-! ## contains() answers the geometric question -/

/-- **Rectangle.**  Whichever of the three coded branches `np.isclose` selects — plain bounds for
`θ ≈ 0 mod π`, swapped extents for `θ ≈ π/2 mod π` (both also taken for angles up to `1e-9` rad off
the exact multiple), bounding box + rotate back with `≤` otherwise — the answer at every point that
is not within `ε` of the boundary is `|R(−θ)(p − c)|ₓ < w/2 ∧ |R(−θ)(p − c)|ᵧ < h/2`.
`branchTol` is `0` for exact quarter turns and for the general branch, and `|sin δ|·max(w,h)/2` when
a tilt `δ` within the `isclose` tolerance is ignored by the code. -/
theorem rect_branches_agree (r : Rect) (p : Pt) (ε : Rat) (hunit : r.c * r.c + r.s * r.s = 1)
    (hε : 0 ≤ ε) (htol : r.branchTol ≤ ε) (hfar : r.near p ε = false) :
    Impl.rectContains r p = Spec.rectContains r p :=
  Lemmas.Geometry.rect_branches_agree r p ε hunit hε htol hfar

-- hypotheses are satisfiable in each branch: a 3-4-5 rotation, an exact quarter turn, a tilt of 2·atan(2⁻⁴⁰)
example : let r : Rect := ⟨0, 4, 0, 2, 3/5, 4/5⟩
    r.c * r.c + r.s * r.s = 1 ∧ r.branchTol ≤ 0 ∧ branchOf r.c r.s = .general ∧
    r.near (2, 2) 0 = false ∧ Impl.rectContains r (2, 2) = true := by decide +kernel
example : let r : Rect := ⟨0, 4, 0, 2, 0, -1⟩
    r.c * r.c + r.s * r.s = 1 ∧ r.branchTol ≤ 0 ∧ branchOf r.c r.s = .quarter ∧
    r.near (2, 2) 0 = false ∧ Impl.rectContains r (2, 2) = true := by decide +kernel

/-- The bounding-box prefilter of the rotated branch never drops a point of the (closed) rotated
rectangle. -/
theorem bbox_contains_rotated_rect (r : Rect) (p : Pt) (hunit : r.c * r.c + r.s * r.s = 1)
    (hx : absLe (r.loc p).1 (r.width / 2) = true) (hy : absLe (r.loc p).2 (r.height / 2) = true) :
    r.keep p = true :=
  rect_keep_of_inside r p hunit ((absLe_iff _ _).1 hx) ((absLe_iff _ _).1 hy)

/-- **Ellipse.**  For exact quarter turns in the two special branches and for every unit rotation in
the general branch (conservative square `bounds()` + rotate back) the coded test is
`x'²/rx² + y'²/ry² < 1`, at every point (no band needed: all comparisons are strict). -/
theorem ellipse_branches_agree (e : Ellipse) (p : Pt) (hunit : e.c * e.c + e.s * e.s = 1)
    (hrx : 0 < e.rx) (hry : 0 < e.ry)
    (hax : branchOf e.c e.s = .axis → e.s = 0) (hq : branchOf e.c e.s = .quarter → e.c = 0) :
    Impl.ellipseContains e p = Spec.ellipseContains e p :=
  Lemmas.Geometry.ellipse_branches_agree e p hunit hrx hry hax hq

example : let e : Ellipse := ⟨1, -1, 4, 2, 5/13, -12/13⟩
    e.c * e.c + e.s * e.s = 1 ∧ branchOf e.c e.s = .general ∧ Impl.ellipseContains e (2, 1) = true ∧
    Impl.ellipseContains e (4, -1) = false := by decide +kernel

/-- **Ellipse, every branch**: also when an un-rotated branch is taken for a tilt of up to `1e-9` rad,
off the band of half-width `ε ≥ branchTol = 2·|sin δ|·max(rx,ry)²/min(rx,ry)` the coded test is the
geometric definition (the quadratic form changes by a factor ≤ `1 + 2|sin δ|(max/min)²` under the
ignored rotation). -/
theorem ellipse_branches_agree_full (e : Ellipse) (p : Pt) (ε : Rat) (hunit : e.c * e.c + e.s * e.s = 1)
    (hrx : 0 < e.rx) (hry : 0 < e.ry) (hε : 0 ≤ ε) (htol : e.branchTol ≤ ε) (hfar : e.near p ε = false) :
    Impl.ellipseContains e p = Spec.ellipseContains e p :=
  ellipse_branches_agree_tilt e p ε hunit hrx hry hε htol hfar

/-- The square `bounds()` used as prefilter contains the whole rotated ellipse. -/
theorem ellipse_bounds_contain (e : Ellipse) (p : Pt) (hunit : e.c * e.c + e.s * e.s = 1)
    (hrx : 0 < e.rx) (hry : 0 < e.ry) (h : Spec.ellipseContains e p = true) : e.keep p = true := by
  have h0 : ¬ (e.rx = 0 ∨ e.ry = 0) := by rintro (h | h) <;> linarith
  simp only [Spec.ellipseContains, h0, if_false, decide_eq_true_eq] at h
  exact ell_keep_of_inside e p hunit hrx hry h

/-- **Circle**: contained iff the distance `ρ` to the centre (`ρ ≥ 0`, `ρ² = dx² + dy²`) is `< r`. -/
theorem circle_spec (c : Circle) (p : Pt) (ρ : Rat) (hρ : 0 ≤ ρ) (hρ2 : ρ * ρ = dist2 c.xc c.yc p)
    (hr : 0 ≤ c.r) : Impl.circleContains c p = true ↔ ρ < c.r := by
  rw [circle_iff]
  exact circle_sqrt hρ hρ2 hr

/-- **Annulus**: the `sqrt`-free form of the test is `inner ≤ ρ < outer` for the distance `ρ`;
a region with `inner ≤ 0` or `outer ≤ inner` is undefined. -/
theorem annulus_spec (a : Annulus) (p : Pt) (ρ : Rat) (hdef : a.defined = true)
    (hρ : 0 ≤ ρ) (hρ2 : ρ * ρ = dist2 a.xc a.yc p) :
    Impl.annulusContains a p = true ↔ (a.rin ≤ ρ ∧ ρ < a.rout) := by
  rw [annulus_iff]
  obtain ⟨h1, h2⟩ := (annulus_defined_iff a).1 hdef
  exact annulus_sqrt hρ hρ2 h1 (by linarith)

/-- **Range**: strictly between the two bounds along the region's own axis. -/
theorem range_spec (r : Range) (p : Pt) :
    Impl.rangeContains r p = true ↔
      (r.lo < (if r.isX then p.1 else p.2) ∧ (if r.isX then p.1 else p.2) < r.hi) :=
  range_iff r p

/-- **Polygon.**  The bounding-box prefilter of `points_inside_poly` never drops a point that the
even-odd rule puts inside — any polygon. -/
theorem polygon_bbox_never_drops (vs : List Pt) (p : Pt) (h : crossParity vs p = true) :
    polyKeep vs p = true :=
  polyKeep_of_crossParity vs p h

/-- With at least three vertices `PolygonalROI.contains` is the even-odd rule at every point. -/
theorem polygon_impl_eq_evenodd (vs : List Pt) (p : Pt) (h3 : 3 ≤ vs.length) :
    Impl.polyContains vs p = Spec.polyContains vs p :=
  polyContains_eq_spec vs p h3

example : crossParity [(0, 0), (6, 0), (6, 6), (3, 2), (0, 6)] (3, 1) = true ∧
    crossParity [(0, 0), (6, 0), (6, 6), (3, 2), (0, 6)] (3, 4) = false ∧
    crossParity [(0, 0), (4, 4), (4, 0), (0, 4)] (3, 2) = true := by decide +kernel

/-- **Categorical**: `searchsorted` + equality is membership in the (sorted, de-duplicated)
category list. -/
theorem categorical_spec (cats : List Int) (x : Int) (h : ArrayUtil.strictSorted cats = true) :
    Impl.catContains cats x = Spec.catContains cats x :=
  catContains_eq_spec cats x h

/-! ## move_to -/

/-- **`move_equivariant`**, every class: after `move_to(t)` a point is contained iff the point
shifted back by `t − center` (a range: along its own axis) was contained before — exactly, at every
point, in every branch (no band). -/
theorem move_equivariant (roi : Roi) (t p : Pt) :
    Impl.contains (roi.moveTo t) p =
      Impl.contains roi (p.1 - (roi.moveDelta t).1, p.2 - (roi.moveDelta t).2) :=
  Lemmas.Geometry.move_equivariant roi t p

/-- **`center_moveTo`**: the reported centre after `move_to(t)` is `t`. -/
theorem center_moveTo (roi : Roi) (t : Pt) (hdef : roi.defined = true) (hr : ∀ r, roi ≠ .range r) :
    (roi.moveTo t).center = t :=
  Lemmas.Geometry.center_moveTo roi t hdef hr

theorem range_center_moveTo (r : Range) (t : Pt) :
    ((Roi.range r).moveTo t).center = if r.isX then (t.1, t.1) else (t.2, t.2) :=
  Lemmas.Geometry.range_center_moveTo r t

/-- **`polygon_translate`**: the even-odd test commutes with every translation. -/
theorem polygon_translate (d p : Pt) (vs : List Pt) :
    crossParity (vs.map (shiftPt d)) p = crossParity vs (p.1 - d.1, p.2 - d.2) :=
  crossParity_shift d p vs

/-- **`polygon_centroid_translate`**: `center()` as coded (mean for zero-area polygons, shoelace
centroid otherwise, closed polygons without the repeated vertex) moves with the polygon. -/
theorem polygon_centroid_translate (d : Pt) (vs : List Pt) (h : vs ≠ []) :
    polyCenter (vs.map (shiftPt d)) = shiftPt d (polyCenter vs) :=
  polyCenter_shift d vs h

/-! ## no absolute scale, no preferred origin -/

/-- **`contains_scale_equivariant`**: multiplying every length of the region (positions, sizes, radii,
vertices; the angle stays) and the test point by the same `k > 0` changes neither the coded test — every
class, every `θ`-branch, bounding-box prefilters included — nor the geometric definition.  Nothing in
`contains` may depend on the unit of length: this is the exact-arithmetic statement that the magnitude
ladder (sizes `2⁻⁴⁰ … 2⁴⁰`) of the differential check tests on the real code. -/
theorem contains_scale_equivariant (roi : Roi) (k : Rat) (hk : 0 < k) (p : Pt) :
    Impl.contains (scaleRoi k roi) (scalePt k p) = Impl.contains roi p ∧
    Spec.contains (scaleRoi k roi) (scalePt k p) = Spec.contains roi p :=
  contains_scale roi k hk p

example : Impl.contains (scaleRoi (1 / 1024) (.rect ⟨0, 4, 0, 2, 3/5, 4/5⟩)) (scalePt (1 / 1024) (2, 2)) = true ∧
    Impl.contains (scaleRoi 1048576 (.poly { vs := [(0, 0), (6, 0), (6, 6), (3, 2), (0, 6)] })) (scalePt 1048576 (3, 4)) = false := by
  decide +kernel

/-- **`contains_translate_equivariant`**: moving the region by `d` (through the model's own `move_to`,
to `center + d`) and the test point by `d` does not change the answer — every class, every branch, no
band (a consequence of `move_equivariant`; a range moves along, and looks at, its own axis only).  The
offset ladder (centres `0 … ±2⁵⁰`) tests this on the real code. -/
theorem contains_translate_equivariant (roi : Roi) (d p : Pt) :
    Impl.contains (roi.moveTo (roi.center.1 + d.1, roi.center.2 + d.2)) (p.1 + d.1, p.2 + d.2) =
      Impl.contains roi p :=
  contains_translate roi d p

/-- Witness for the findings F18 / F23 / F23b (why `center()` of a polygon whose signed area is exactly
zero cannot be made robust by a threshold on the current vertices): the asymmetric bow-tie
`(0,0),(4,2),(4,0),(2,2)` has signed area `0` and centre = vertex mean `(5/2, 1)`; nudging one vertex by
`10⁻⁹` — the size of the rounding noise a `rotate_to` leaves on vertices at Julian-date offsets — makes
the signed area `2·10⁻⁹` and `center()` = centroid a point more than `10⁹` away. -/
theorem zero_area_centre_unstable :
    polyAreaSigned [(0, 0), (4, 2), (4, 0), (2, 2)] = 0 ∧
    polyCenter [(0, 0), (4, 2), (4, 0), (2, 2)] = (5 / 2, 1) ∧
    polyAreaSigned [(0, 0), (4, 2), (4, 0), (2, 2 + 1 / 1000000000)] = 1 / 500000000 ∧
    (polyCenter [(0, 0), (4, 2), (4, 0), (2, 2 + 1 / 1000000000)]).1 < -1000000000 := by
  decide +kernel

/-! ## rotate_to -/

/-- **`rotate_equivariant`, rectangle** (coded tests, off the band): after `rotate_to(θ')` a point
is contained iff the point turned back about the centre by `θ' − θ` was contained before. -/
theorem rotate_equivariant_rect (r : Rect) (c' s' : Rat) (p : Pt) (ε : Rat)
    (hu : r.c * r.c + r.s * r.s = 1) (hu' : c' * c' + s' * s' = 1) (hε : 0 ≤ ε)
    (ht : r.branchTol ≤ ε) (ht' : (rectTurn r c' s').branchTol ≤ ε)
    (hfar : (rectTurn r c' s').near p ε = false) :
    Impl.rectContains (rectTurn r c' s') p =
      Impl.rectContains r (turnBack r.center (c' * r.c + s' * r.s) (s' * r.c - c' * r.s) p) :=
  rect_rotate_equivariant r c' s' p ε hu hu' hε ht ht' hfar

/-- The geometric rectangle turns rigidly about its centre (every point, no band). -/
theorem rotate_equivariant_rect_spec (r : Rect) (c' s' : Rat) (p : Pt) (hu : r.c * r.c + r.s * r.s = 1) :
    Spec.rectContains (rectTurn r c' s') p =
      Spec.rectContains r (turnBack r.center (c' * r.c + s' * r.s) (s' * r.c - c' * r.s) p) :=
  rectTurn_spec r c' s' p hu

/-- **`rotate_equivariant`, ellipse** (geometric definition, every point). -/
theorem rotate_equivariant_ellipse_spec (e : Ellipse) (c' s' : Rat) (p : Pt) (hu : e.c * e.c + e.s * e.s = 1) :
    Spec.ellipseContains (ellTurn e c' s') p =
      Spec.ellipseContains e (turnBack (e.xc, e.yc) (c' * e.c + s' * e.s) (s' * e.c - c' * e.s) p) :=
  ellTurn_spec e c' s' p hu

/-- **`rotate_equivariant`, ellipse** on the coded tests: both angles exact quarter turns or in the
general branch. -/
theorem rotate_equivariant_ellipse (e : Ellipse) (c' s' : Rat) (p : Pt)
    (hu : e.c * e.c + e.s * e.s = 1) (hu' : c' * c' + s' * s' = 1) (hrx : 0 < e.rx) (hry : 0 < e.ry)
    (hax : branchOf e.c e.s = .axis → e.s = 0) (hq : branchOf e.c e.s = .quarter → e.c = 0)
    (hax' : branchOf c' s' = .axis → s' = 0) (hq' : branchOf c' s' = .quarter → c' = 0) :
    Impl.ellipseContains (ellTurn e c' s') p =
      Impl.ellipseContains e (turnBack (e.xc, e.yc) (c' * e.c + s' * e.s) (s' * e.c - c' * e.s) p) := by
  rw [Lemmas.Geometry.ellipse_branches_agree (ellTurn e c' s') p hu' hrx hry hax' hq',
    Lemmas.Geometry.ellipse_branches_agree e _ hu hrx hry hax hq]
  exact ellTurn_spec e c' s' p hu

/-- **The even-odd rule does not depend on the direction of the ray**: for a closed polygon (given
by its vertices relative to the test point) and a test point that lies on none of its edges, the
crossing parity seen along any unit direction equals the parity along `+x` (which is what
matplotlib computes).  This is the fact behind rotation equivariance of polygons. -/
theorem evenodd_direction_independent (c s : Rat) (hu : c * c + s * s = 1) (vs : List Pt)
    (hoff : offPoly vs) : parityDir c s vs = parityDir 1 0 vs :=
  parityDir_unit c s hu vs hoff

/-- **`rotate_equivariant`, polygon** (even-odd rule): turning every vertex and the test point
about any centre by any unit rotation does not change the answer, for every polygon (open, closed,
concave, self-intersecting) and every point lying on none of its edges. -/
theorem rotate_equivariant_polygon_spec (ctr : Pt) (c s : Rat) (hu : c * c + s * s = 1) (vs : List Pt) (p : Pt)
    (hoff : offBoundary vs p) :
    crossParity (vs.map (rotAbout ctr c s)) (rotAbout ctr c s p) = crossParity vs p :=
  crossParity_rotate ctr c s hu vs p hoff

/-- **`rotate_equivariant`, polygon** on the coded test (`points_inside_poly` = bounding-box prefilter
+ crossing test): after the vertices have been turned about `ctr`, a point is contained iff the point
turned back was contained before — whenever that pre-image is outside the band (any width `ε`). -/
theorem rotate_equivariant_polygon (ctr : Pt) (c s : Rat) (hu : c * c + s * s = 1) (vs : List Pt) (p : Pt)
    (ε : Rat) (h3 : 3 ≤ vs.length) (hfar : polyNear vs (turnBack ctr c s p) ε = false) :
    Impl.polyContains (vs.map (rotAbout ctr c s)) p = Impl.polyContains vs (turnBack ctr c s p) :=
  polyTurn_impl ctr c s hu vs p h3 (offBoundary_of_not_near vs _ ε hfar)

/-- `rotate_to` as coded for a polygon: unless the change of angle is within `1e-9` of a full turn,
the vertices are turned about `center()` by `θ' − θ` and containment follows. -/
theorem rotateTo_polygon (g : Poly) (c s : Rat) (p : Pt) (ε : Rat)
    (hu : c * c + s * s = 1) (hg : g.c * g.c + g.s * g.s = 1) (h3 : 3 ≤ g.vs.length)
    (hnot : closeFull (c * g.c + s * g.s) (s * g.c - c * g.s) = false)
    (hfar : polyNear g.vs (turnBack (polyCenter g.vs) (c * g.c + s * g.s) (s * g.c - c * g.s) p) ε = false) :
    Impl.contains ((Roi.poly g).rotateTo c s) p =
      Impl.contains (.poly g) (turnBack (polyCenter g.vs) (c * g.c + s * g.s) (s * g.c - c * g.s) p) := by
  have hd : (c * g.c + s * g.s) * (c * g.c + s * g.s) + (s * g.c - c * g.s) * (s * g.c - c * g.s) = 1 := by
    have : (c * g.c + s * g.s) * (c * g.c + s * g.s) + (s * g.c - c * g.s) * (s * g.c - c * g.s)
        = (c * c + s * s) * (g.c * g.c + g.s * g.s) := by ring
    rw [this, hu, hg, mul_one]
  simp only [Roi.rotateTo, hnot, Bool.false_eq_true, if_false, Impl.contains]
  exact polyTurn_impl _ _ _ hd g.vs p h3 (offBoundary_of_not_near _ _ ε hfar)

/-- **`polygon_centroid_rotate`**: `center()` as coded turns with the polygon (any centre of rotation). -/
theorem polygon_centroid_rotate (ctr : Pt) (c s : Rat) (hu : c * c + s * s = 1) (vs : List Pt) (h : vs ≠ []) :
    polyCenter (vs.map (rotAbout ctr c s)) = rotAbout ctr c s (polyCenter vs) :=
  polyCenter_rot ctr c s hu vs h

/-- **`rotate_to` keeps the reported centre** — rectangle, ellipse, polygon (which is turned about
its own `center()`); the other classes have no `rotate_to`. -/
theorem center_rotateTo (roi : Roi) (c s : Rat) (hu : c * c + s * s = 1)
    (ho : (Spec.orient roi).1 * (Spec.orient roi).1 + (Spec.orient roi).2 * (Spec.orient roi).2 = 1)
    (hdef : roi.defined = true) : (roi.rotateTo c s).center = roi.center :=
  center_rotateTo' roi c s hu ho hdef

/-- The band used by the check contains the boundary: a point outside `polyNear` (any width) lies
on no edge. -/
theorem polygon_band_contains_boundary (vs : List Pt) (p : Pt) (ε : Rat) (h : polyNear vs p ε = false) :
    offBoundary vs p :=
  offBoundary_of_not_near vs p ε h

example : offBoundary [(0, 0), (4, 0), (0, 3)] (1, 1) ∧ polyNear [(0, 0), (4, 0), (0, 3)] (1, 1) (1/10) = false ∧
    crossParity ([(0, 0), (4, 0), (0, 3)].map (rotAbout (1, 1) (3/5) (4/5))) (rotAbout (1, 1) (3/5) (4/5) (1, 1)) = true := by
  refine ⟨?_, by decide +kernel, by decide +kernel⟩
  refine ⟨?_, ?_, ?_, trivial⟩ <;> (rintro ⟨h1, h2⟩; norm_num [relPt] at h1)

/-! ## sequences of operations -/

/-- **`ops_equivariant_spec`** — any list of `move_to(t)` / `rotate_to(θ)` / `copy()` / save-restore
**and redefinitions of the region object** (`define new` = `reset()` + `update_limits` / `set_range` /
`move_to`+radii / `add_point…`; `add_point`, `replace_last_point`, `remove_point` on a defined polygon),
every class: the region described by the parameters the code ends up with contains `q` iff the region
*as last defined* — `(Spec.run roi ops).roi`: the original region, or after a redefinition exactly the
newly defined region with the angle the class documents (rectangle / ellipse: the absolute position
angle they keep; polygon: angle 0 after `reset()`, the kept angle after a vertex edit) — contains `q`
pulled back through the rigid motions prescribed *since* (translation by target − current centre;
rotation about the current centre by new − current angle); the reported centre is the prescribed
centre and the stored angle the prescribed angle.  In particular nothing of the state before a
redefinition (angle bookkeeping, centres) may influence what a later `rotate_to` / `move_to` does.
`OpsOk`: rotations are unit vectors, a polygon is not asked to turn by a non-zero angle inside
`rotate_to`'s `1e-9` skip window, a redefinition is of the object's own class and defined, `remove_point`
leaves a vertex; `OffB`: polygons are compared at points whose pre-image lies on no edge.  The histories
`forkEdit` — `c = roi.copy()`, then `add_point` / `replace_last_point` / `remove_point` on the original
(observing the copy) or on the copy (observing the original) — are inside the theorem without any
exclusion since fix F24 (`VertexROIBase.copy` gives the clone its own vertex lists): the observed
object is the same region as before. -/
theorem ops_equivariant_spec (roi : Roi) (ops : List Op) (q : Pt) (hdef : roi.defined = true)
    (hu : (Spec.orient roi).1 * (Spec.orient roi).1 + (Spec.orient roi).2 * (Spec.orient roi).2 = 1)
    (hok : OpsOk roi ops)
    (hoff : OffB (Spec.run roi ops).roi (Spec.pullback (Spec.run roi ops).motions q)) :
    Spec.contains (Impl.applyOps roi ops) q = Spec.containsAfter roi ops q ∧
    (Impl.applyOps roi ops).center = (Spec.run roi ops).ctr ∧
    Spec.orient (Impl.applyOps roi ops) = ((Spec.run roi ops).c, (Spec.run roi ops).s) :=
  ops_spec roi ops q hdef hu hok hoff

/-- **`ops_equivariant`** — the same for the coded `contains()` of the final region, off its band. -/
theorem ops_equivariant (roi : Roi) (ops : List Op) (q : Pt) (ε : Rat) (hdef : roi.defined = true)
    (hu : (Spec.orient roi).1 * (Spec.orient roi).1 + (Spec.orient roi).2 * (Spec.orient roi).2 = 1)
    (hok : OpsOk roi ops)
    (hoff : OffB (Spec.run roi ops).roi (Spec.pullback (Spec.run roi ops).motions q))
    (hfin : ImplHyp (Impl.applyOps roi ops) ε) (hfar : (Impl.applyOps roi ops).near q ε = false) :
    Impl.contains (Impl.applyOps roi ops) q = Spec.containsAfter roi ops q := by
  rw [impl_eq_spec _ q ε hfin hfar]
  exact (ops_spec roi ops q hdef hu hok hoff).1

/-- **`ops_base_region`** — what `(Spec.run roi ops).roi` is: without redefinitions the original region
(the round-2 statement: containment is pulled back to the *original* region); after a last `define new`
followed by transforms only, the region `Spec.step` builds from `new` alone, the object's class and the
prescribed angle — independent of every vertex / limit the object had before. -/
theorem ops_base_region (roi : Roi) (pre post : List Op) (new : Roi)
    (h : ∀ op ∈ post, Op.isTransform op = true) :
    (Spec.run roi post).roi = roi ∧
    (Spec.run roi (pre ++ .define new :: post)).roi = (Spec.step (Spec.run roi pre) (.define new)).roi :=
  ⟨run_roi_of_transforms roi post h, run_define_last roi pre post new h⟩

-- the hypotheses are satisfiable by non-trivial sequences
example : OpsOk (.poly { vs := [(0, 0), (4, 0), (0, 3)] }) [.move (5, 5), .rotate (3/5) (4/5), .copy] :=
  ⟨trivial, ⟨by norm_num, Or.inl (by decide +kernel)⟩, trivial, trivial⟩
-- copy, then edit the original (observe the copy) / edit the copy (observe the original), then go on
example : OpsOk (.poly { vs := [(0, 0), (4, 0), (0, 3)] })
    [.forkEdit false .add (9, 9), .forkEdit true .replaceLast (5, 5), .forkEdit false .remove (0, 0), .move (5, 5)] :=
  ⟨trivial, trivial, trivial, trivial, trivial⟩
example : OpsOk (.rect ⟨0, 4, 0, 2, 1, 0⟩) [.rotate (3/5) (4/5), .move (1, 1), .roundtrip, .rotate 0 (-1)] :=
  ⟨⟨by norm_num, trivial⟩, trivial, trivial, ⟨by norm_num, trivial⟩, trivial⟩
-- transform → reset → define → transform, polygon and rectangle
example : OpsOk (.poly { vs := [(0, 0), (4, 0), (0, 3)], c := 0, s := 1 })
    [.define (.poly { vs := [(10, 10), (16, 10), (16, 12), (10, 12)] }), .addPoint (9, 11),
     .removePoint (16, 12), .rotate 0 1] := by
  refine ⟨⟨trivial, by decide +kernel⟩, trivial, ?_, ⟨by norm_num, ?_⟩, trivial⟩
  · show 2 ≤ _; decide +kernel
  · exact Or.inl (by decide +kernel)
example : OpsOk (.rect ⟨0, 4, 0, 2, 1, 0⟩) [.rotate (3/5) (4/5), .define (.rect ⟨7, 1, 3, 5, 1, 0⟩), .move (1, 1)] :=
  ⟨⟨by norm_num, trivial⟩, ⟨trivial, rfl⟩, trivial, trivial⟩

/-- **After a redefinition the rectangle keeps its absolute angle, the polygon starts at 0** — the two
class conventions as coded, on concrete sequences (`decide`d): a rectangle turned to `atan2(4,3)`,
reset and given new (unsorted) limits is the new `6 × 2` rectangle at that same angle; a polygon turned
by a quarter, reset, redrawn and turned *to* a quarter is the drawn polygon turned by exactly a quarter
about its centre. -/
theorem redefine_conventions :
    Impl.applyOps (.rect ⟨0, 4, 0, 2, 1, 0⟩) [.rotate (3/5) (4/5), .define (.rect ⟨7, 1, 3, 5, 1, 0⟩)] =
      .rect ⟨1, 7, 3, 5, 3/5, 4/5⟩ ∧
    Impl.applyOps (.poly { vs := [(0, 0), (4, 0), (0, 3)] })
      [.rotate 0 1, .define (.poly { vs := [(10, 10), (16, 10), (16, 12), (10, 12)] }), .rotate 0 1] =
      .poly { vs := [(14, 8), (14, 14), (12, 14), (12, 8)], c := 0, s := 1 } := by
  decide +kernel

/-- **Witness for the stale-angle defect (seeded C08c)** on the variant model in which
`VertexROIBase.reset()` keeps `theta` "like the rectangle's reset": after `rotate_to(π/2)` → `reset()` →
a `6 × 2` rectangle drawn with `add_point` → `rotate_to(π/2)` the variant leaves the polygon un-rotated
(relative turn `π/2 − π/2 = 0`), so the point `(13, 8.5)` — inside the drawn rectangle turned by a
quarter about its centre `(13, 11)` — is not contained and `(10.5, 11)` wrongly is; the specification
(and the code as it exists) has the opposite answers. -/
theorem stale_theta_witness :
    let roi : Roi := .poly { vs := [(0, 0), (4, 0), (0, 3)] }
    let ops : List Op := [.rotate 0 1, .define (.poly { vs := [(10, 10), (16, 10), (16, 12), (10, 12)] }), .rotate 0 1]
    Spec.containsAfter roi ops (13, 17/2) = true ∧ Spec.containsAfter roi ops (21/2, 11) = false ∧
    Impl.contains (Impl.applyOps roi ops) (13, 17/2) = true ∧
    Impl.contains (Impl.applyOps roi ops) (21/2, 11) = false ∧
    Impl.contains (Variant.applyOps roi ops) (13, 17/2) = false ∧
    Impl.contains (Variant.applyOps roi ops) (21/2, 11) = true := by
  decide +kernel

/-- **`copy_independent`** (F24 repaired): after `c = roi.copy()` a vertex edit of one of the two objects
leaves the other one the region it was — in the model of the code that exists the observed object is
unchanged, so it contains the same points, and the specification's region is unchanged as well. -/
theorem copy_independent (roi : Roi) (onCopy : Bool) (e : VEdit) (p q : Pt) (ops : List Op) :
    Impl.applyOp roi (.forkEdit onCopy e p) = roi ∧
    Impl.contains (Impl.applyOps roi [.forkEdit onCopy e p]) q = Impl.contains roi q ∧
    Spec.containsAfter roi (ops ++ [.forkEdit onCopy e p]) q = Spec.containsAfter roi ops q := by
  refine ⟨rfl, rfl, ?_⟩
  simp only [Spec.containsAfter, Spec.run, List.foldl_append, List.foldl_cons, List.foldl_nil, Spec.step]

/-- **Witness for F24** on the *pinned* model (`Pinned.applyOp`: `copy()` is `copy.copy`, the vertex
*lists* are shared): `c = roi.copy(); roi.add_point(9, 9)` — the copy, which must still be the triangle,
has become the quadrilateral; `c = roi.copy(); c.replace_last_point(9, 9)` — the original has become
the triangle `(0,0) (4,0) (9,9)`.  The specification and the model of the repaired code
(`VertexROIBase.copy` copies the lists) agree with each other and not with it. -/
theorem copy_shares_vertices_witness :
    let roi : Roi := .poly { vs := [(0, 0), (4, 0), (0, 3)] }
    Spec.containsAfter roi [.forkEdit false .add (9, 9)] (3, 4) = false ∧
    Impl.contains (Impl.applyOps roi [.forkEdit false .add (9, 9)]) (3, 4) = false ∧
    Impl.contains (Pinned.applyOps roi [.forkEdit false .add (9, 9)]) (3, 4) = true ∧
    Spec.containsAfter roi [.forkEdit true .replaceLast (9, 9)] (5, 4) = false ∧
    Impl.contains (Impl.applyOps roi [.forkEdit true .replaceLast (9, 9)]) (5, 4) = false ∧
    Impl.contains (Pinned.applyOps roi [.forkEdit true .replaceLast (9, 9)]) (5, 4) = true := by
  decide +kernel

/-! ## copy, save / restore, array arrangement, chunking -/

/-- **`copy_same`**: a copy contains exactly the same points and reports the same centre. -/
theorem copy_same (roi : Roi) (p : Pt) :
    Impl.contains roi.copy p = Impl.contains roi p ∧ roi.copy.center = roi.center := ⟨rfl, rfl⟩

/-- **`params_roundtrip`**: `__setgluestate__ ∘ __gluestate__` rebuilds the parameters … -/
theorem params_roundtrip (roi : Roi) : Roi.ofState roi.toState = some roi.restored :=
  Lemmas.Geometry.params_roundtrip roi

/-- … and the restored region contains exactly the same points. -/
theorem restore_same (roi : Roi) (p : Pt) :
    (Roi.ofState roi.toState).map (fun r => Impl.contains r p) = some (Impl.contains roi p) := by
  rw [Lemmas.Geometry.params_roundtrip, Option.map_some, restored_contains]

/-- **`shape_independent`**: containment is pointwise, so any re-arrangement of the input points
(reshape, transpose, broadcast view, slicing into chunks: any list `idx` of positions) gives the
same re-arrangement of the answers. -/
theorem shape_independent (f : PtO → Bool) (ps : List PtO) (idx : List Nat) (d : PtO) :
    (idx.map fun i => ps.getD i d).map f = idx.map fun i => (ps.map f).getD i (f d) :=
  Lemmas.Geometry.shape_independent f ps idx d

/-- **`projected_chunking`**: the chunk loop of `Projected3dROI.contains3d`
(`iterate_chunks(shape, n_max=10**6)`, `mask[slices] = …`) fills every element exactly as the
pointwise evaluation — for every shape with positive sizes (uses C20's partition theorem for the
literal `iterate_chunks` loop). -/
theorem projected_chunking (shape : List Nat) (hs : ∀ s ∈ shape, 0 < s) (f : List Nat → Bool) :
    assembleChunks shape (projChunks shape) f = (ArrayUtil.allIndices shape).map f := by
  apply assembleChunks_of_partition
  have h := C20.iterateChunksLoop_nmax shape 1000000 (by decide) hs
  unfold ArrayUtil.specIter at h
  simp only [Bool.and_eq_true] at h
  exact h.1.1

end GlueVerif.C08
