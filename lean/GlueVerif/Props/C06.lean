import GlueVerif.Lemmas.C06
/-!
# C06 — every dataset in a collection carries exactly one subset per subset group

Property theorems only; helper lemmas live in `GlueVerif.Lemmas.C06`.  Every statement is about the
executable state machine in `GlueVerif.Model.Collection` that the driver `Drivers/C06.lean` runs
against a real `DataCollection` on every check: `Impl.step` (= `step true`) models the code with
`fix: F3-remove-data-detach`, `Old.step` (= `step false`) the code before it.  `specOk` is the very
predicate the driver evaluates on the *implementation's* snapshots.

Operations (`Op`): `append d`, `extend ds`, `insert i d`, `remove d`, `clear`, `newGroup`,
`removeGroup g`, `setState/setLabel/setStyle g v`, `merge ds`, `setItem key d` (`dc[key] = d`),
`restore` (session save + load), and `doCmd add d` / `undo` / `redo`: the `AddData` / `RemoveData`
commands run, undone and redone through a `CommandStack`, as coded after
`fix: F4b-add-remove-data-undo` (the command objects remember whether they changed the collection
and where the dataset was; `RemoveData.undo` is `insert(index, data)`, `AddData.undo` is `remove`,
each only if the command had an effect; command.py).  Any other operation may come between a
command and its undo, so the recorded flag / position may be stale: the invariant holds anyway.
-/
namespace GlueVerif.C06
open GlueVerif.Collection

/-- A fresh collection next to `n` fresh datasets satisfies the invariant. -/
theorem inv_init (n colors : Nat) : Inv (init n colors) := Lemmas.C06.inv_init n colors

/-- **Every operation preserves the invariant** — from *any* state that satisfies it, whatever the
argument (datasets in or out of the collection, live or removed groups, ids that do not exist). -/
theorem step_inv (st : State) (op : Op) (h : Inv st) : Inv (Impl.step st op) :=
  Lemmas.C06.inv_step st op h

/-- **The invariant holds after every history**: any list of operations, of any length, over any
number of datasets and groups (induction over the op list; no bound). -/
theorem reachable_inv (n colors : Nat) (ops : List Op) : Inv (Impl.run (init n colors) ops) :=
  Lemmas.C06.inv_run ops _ (Lemmas.C06.inv_init n colors)

/-- The invariant implies the order-independent property predicate `specOk` that the driver
evaluates: exactly one subset per live group on each dataset of the collection and no others;
each live group lists exactly those; members read the group's state / label / style; removed
datasets carry nothing; removed groups are unsubscribed and what they still list is attached
nowhere. -/
theorem spec_of_inv (st : State) (h : Inv st) : specOk st (modelReads st) = true :=
  Lemmas.C06.specOk_of_inv st h

/-- **C06 for the model**: after every history the property predicate holds (this is the `implok`
column of the driver: it can never be `F`). -/
theorem reachable_spec (n colors : Nat) (ops : List Op) :
    specOk (Impl.run (init n colors) ops) (modelReads (Impl.run (init n colors) ops)) = true :=
  spec_of_inv _ (reachable_inv n colors ops)

/-- Readable corollary, with the order the code actually maintains: in every reachable state each
dataset of the collection carries its subsets in group order, each live group lists exactly one
subset per dataset of the collection (a permutation of the collection: `insert` — hence the undo of
`RemoveData` — places a dataset anywhere while its new subset goes to the end of `group.subsets`;
see the example below), and a dataset outside the collection carries none. -/
theorem reachable_ordered (n colors : Nat) (ops : List Op) :
    let st := Impl.run (init n colors) ops
    (∀ d ∈ st.datasets, (st.dsubs d).map (·.group) = st.groups) ∧
    (∀ g ∈ st.groups, ((st.gsubs g).map (·.data)).Perm (st.datasets.map some)) ∧
    (∀ d, d ∉ st.datasets → st.dsubs d = []) := by
  intro st
  have h := reachable_inv n colors ops
  exact ⟨h.dataGroups, h.groupDatas, h.removedEmpty⟩

/-- In every reachable state a session save / restore round trip leaves the whole bookkeeping
(collection, attachment lists, group lists, subscriptions, counters) exactly as it was; only the
command stack starts empty in the restored session. -/
theorem restore_roundtrip (n colors : Nat) (ops : List Op) :
    restore (Impl.run (init n colors) ops) =
      { Impl.run (init n colors) ops with done := [], undone := [] } :=
  Lemmas.C06.restore_eq _ (reachable_inv n colors ops)

/-! ### the invariant is not vacuous -/

/-- a history with a re-append, two groups and a removed group: dataset 1 ends with one subset for
the live group 1 only; group 1 lists one subset per dataset. -/
example :
    let st := Impl.run (init 3 7)
      [.append 0, .append 1, .newGroup, .remove 1, .append 1, .newGroup, .removeGroup 0]
    st.datasets = [0, 1] ∧ st.groups = [1] ∧ st.dsubs 1 = [⟨4, some 1, 1⟩] ∧
    st.gsubs 1 = [⟨3, some 0, 1⟩, ⟨4, some 1, 1⟩] ∧ st.dsubs 2 = [] := by decide

example :
    let st := Impl.run (init 3 7) [.extend [0, 1], .newGroup, .merge [0, 1], .setItem 0 2, .restore]
    st.datasets = [2] ∧ st.nData = 4 ∧ st.dsubs 2 = [⟨3, some 2, 0⟩] ∧ st.dsubs 3 = [] := by decide

/-- undo of `RemoveData` gives the dataset back exactly one (new) subset per live group. -/
example :
    let st := Impl.run (init 2 7) [.doCmd true 0, .newGroup, .doCmd false 0, .newGroup, .undo, .undo, .redo]
    st.datasets = [0] ∧ st.dsubs 0 = [⟨3, some 0, 0⟩, ⟨4, some 0, 1⟩] ∧
    st.done = [⟨true, 0, true, 0⟩] ∧ st.undone = [⟨false, 0, true, 0⟩] ∧
    (Impl.run (init 2 7) [.doCmd true 0, .newGroup, .doCmd false 0, .newGroup, .undo]).dsubs 0
      = [⟨1, some 0, 0⟩, ⟨2, some 0, 1⟩] := by decide

/-- position-sensitive: undoing the removal of the *first* of three datasets puts it back in front
(`insert(0, d)`); its new subset is the last one the group lists — `group.subsets` is a
permutation of the collection, not in its order — and the property predicate holds. -/
example :
    let st := Impl.run (init 3 7) [.extend [0, 1, 2], .newGroup, .doCmd false 0, .undo]
    st.datasets = [0, 1, 2] ∧ (st.gsubs 0).map (·.data) = [some 1, some 2, some 0] ∧
    st.dsubs 0 = [⟨3, some 0, 0⟩] ∧ st.undone = [⟨false, 0, true, 0⟩] ∧
    specOk st (modelReads st) = true := by decide

/-- commands without effect are undone without effect (`AddData` of a present dataset,
`RemoveData` of an absent one), and a stale recorded position is clamped like `list.insert`:
dataset 1 was removed from position 1, the collection was emptied directly, undo re-inserts it. -/
example :
    (Impl.run (init 3 7) [.append 0, .newGroup, .doCmd true 0, .undo, .doCmd false 1, .undo]).datasets = [0] ∧
    (Impl.run (init 3 7) [.extend [0, 1], .newGroup, .doCmd false 1, .remove 0, .undo]).datasets = [1] ∧
    (Impl.run (init 3 7) [.extend [0, 1], .newGroup, .doCmd false 1, .remove 0, .undo]).dsubs 1
      = [⟨2, some 1, 0⟩] ∧
    (Impl.run (init 3 7) [.extend [0, 1], .insert 1 2, .insert 9 2, .insert 0 5]).datasets = [0, 2, 1] := by
  decide

/-! ### witnesses: the code before `fix: F3-remove-data-detach` breaks the property (F3) -/

/-- Before the fix a removed dataset keeps its grouped subset: after `append 0, append 1,
new_subset_group, remove 1` dataset 1 still carries the subset, and the Spec rejects the state. -/
theorem old_removed_dataset_keeps_subsets :
    let st := Old.run (init 2 7) [.append 0, .append 1, .newGroup, .remove 1]
    st.dsubs 1 = [⟨1, some 1, 0⟩] ∧ specOk st (modelReads st) = false := by decide

/-- Before the fix re-appending that dataset gives it a *second* subset of the same group (the
stale one and a new one), and the Spec rejects the state; the fixed code yields exactly one. -/
theorem old_reappend_duplicates :
    let ops := [Op.append 0, .append 1, .newGroup, .remove 1, .append 1]
    (((Old.run (init 2 7) ops).dsubs 1).filter (fun s => s.group == 0)).length = 2 ∧
    specOk (Old.run (init 2 7) ops) (modelReads (Old.run (init 2 7) ops)) = false ∧
    (((Impl.run (init 2 7) ops).dsubs 1).filter (fun s => s.group == 0)).length = 1 := by decide

end GlueVerif.C06
