import GlueVerif.Lemmas.C06
import GlueVerif.Lemmas.C06Delay
import GlueVerif.Lemmas.C06Immediate
/-!
# C06 — every dataset in a collection carries exactly one subset per subset group

Property theorems only; helper lemmas live in `GlueVerif.Lemmas.C06` / `GlueVerif.Lemmas.C06Delay`.
Every statement is about the executable state machines that the driver `Drivers/C06.lean` runs
against a real `DataCollection` (with its `Hub`) on every check.

**The model with message delivery** (`GlueVerif.Model.CollectionDelay`, `Delay.Impl.step`): the
collection together with the hub's delay state (`depth`, `queue`).  A history (`DOp`) is any list
of collection operations (`Op`: `append d`, `extend ds`, `insert i d`, `remove d`, `clear`,
`newGroup`, `removeGroup g`, `setState/setLabel/setStyle g v`, `merge ds`, `setItem key d`,
`restore`, `doCmd add d` / `undo` / `redo` — as coded after `fix: F3-remove-data-detach`,
`fix: F4b-add-remove-data-undo` and `fix: F26-add-data-idempotent`) and of `delayOpen` / `delayClose`
steps, i.e. `with hub.delay_callbacks():` blocks around arbitrary sub-histories, nested to any depth.
While a block is open `insert` / `remove` only queue their message; the `SubsetGroup` handlers run
when the outermost block closes, once per message, in order (the hub semantics `C07.impl_refines_spec`
proves for `hub.py`).  So the property — `QInv`, `specOk` — is stated at **quiescent** states (no
block open); inside blocks the weaker `InvP` relates the state to the queue.  `specOk` is the very
predicate the driver evaluates on the *implementation's* snapshots at quiescent points.

**The immediate-delivery model** (`GlueVerif.Model.Collection`, `Impl.step`) is the special case
without delay blocks; it is what C18 builds on.  Its theorems are kept (`immediate_*`), and
`immediate_agrees` shows that it is exactly the model above on histories without delay steps.
-/
namespace GlueVerif.C06
open GlueVerif.Collection GlueVerif.Collection.Delay

/-! ## histories with delay blocks -/

/-- A fresh collection (no block open, nothing queued) next to `n` fresh datasets satisfies the
invariant. -/
theorem inv_init (n colors : Nat) : DInv (Delay.init n colors) := Lemmas.C06Delay.dinv_init n colors

/-- **Every step preserves the invariant** — a collection operation with any argument at any
nesting depth (its messages are delivered at once or queued), opening a block, closing an inner
block, closing the outermost block (the queue is flushed) — from *any* state that satisfies it. -/
theorem step_inv (s : DState) (op : DOp) (h : DInv s) : DInv (Delay.Impl.step s op) :=
  Lemmas.C06Delay.dinv_step h op

/-- **The invariant holds at every point of every history**: any list of operations and
arbitrarily nested delay blocks, of any length, over any number of datasets and groups: the
pending invariant `InvP` relates the bookkeeping to the queue, and the queue is empty whenever no
block is open. -/
theorem reachable_inv (n colors : Nat) (ops : List DOp) :
    DInv (Delay.Impl.run (Delay.init n colors) ops) :=
  Lemmas.C06Delay.dinv_run ops _ (Lemmas.C06Delay.dinv_init n colors)

/-- Delivering the oldest queued message to the group handlers re-establishes the pending
invariant for the rest of the queue … -/
theorem deliver_inv (st : State) (m : QMsg) (q : List QMsg) (h : InvP st (m :: q)) :
    InvP (Delay.deliver true m st) q := Lemmas.C06Delay.invP_deliver h

/-- … hence **closing the outermost block restores the property**: whatever was queued, flushing
it handler by handler leads to a state that satisfies the quiescent invariant (induction over the
queue). -/
theorem close_restores_inv (st : State) (q : List QMsg) (h : InvP st q) : QInv (Delay.flush true q st) :=
  Lemmas.C06Delay.qinv_of_invP (Lemmas.C06Delay.invP_flush q st h)

/-- Whether a block is open after a history can be read off the history: the depth is the number
of `delayOpen` minus the number of `delayClose` steps (`netDepth`).  In particular every history
whose blocks are all closed ends in a quiescent state. -/
theorem depth_of_history (n colors : Nat) (ops : List DOp) :
    (Delay.Impl.run (Delay.init n colors) ops).depth = netDepth 0 ops :=
  Lemmas.C06Delay.depth_run ops _ (Lemmas.C06Delay.dinv_init n colors)

/-- **At every quiescent point of every history the quiescent invariant holds**: each dataset of
the collection carries one subset per live group (`dataGroups`), each live group lists one subset per
dataset of the collection (`groupDatas`), attachment and listing agree, datasets outside the
collection carry nothing, exactly the live groups are subscribed. -/
theorem quiescent_inv (n colors : Nat) (ops : List DOp) (hq : netDepth 0 ops = 0) :
    QInv (Delay.Impl.run (Delay.init n colors) ops).col := by
  have h := reachable_inv n colors ops
  have h0 : (Delay.Impl.run (Delay.init n colors) ops).depth = 0 := (depth_of_history n colors ops).trans hq
  have := h.pending
  rw [h.idle h0] at this
  exact Lemmas.C06Delay.qinv_of_invP this

/-- The quiescent invariant implies the order-independent property predicate `specOk` that the
driver evaluates: exactly one subset per live group on each dataset of the collection and no
others; each live group lists exactly those; members read the group's state / label / style;
removed datasets carry nothing; removed groups are unsubscribed and what they still list is attached
nowhere. -/
theorem spec_of_inv (st : State) (h : QInv st) : specOk st (modelReads st) = true :=
  Lemmas.C06Delay.specOk_of_qinv st h

/-- **C06 for the model**: at every quiescent point of every history — with arbitrary delay blocks
before it — the property predicate holds (this is the `implok` column of the driver: it can never
be `F`). -/
theorem reachable_spec (n colors : Nat) (ops : List DOp) (hq : netDepth 0 ops = 0) :
    specOk (Delay.Impl.run (Delay.init n colors) ops).col
      (modelReads (Delay.Impl.run (Delay.init n colors) ops).col) = true :=
  spec_of_inv _ (quiescent_inv n colors ops hq)

/-- Readable corollary: at every quiescent point each dataset of the collection carries exactly
one subset per live group and each live group lists exactly one subset per dataset of the
collection — as permutations: `insert` (hence the undo of `RemoveData`) places a dataset anywhere
while its new subset goes to the end of `group.subsets`, and a group created inside a delay block
attaches its subsets before the queued Add messages reach the older groups (examples below) — and
a dataset outside the collection carries none. -/
theorem reachable_ordered (n colors : Nat) (ops : List DOp) (hq : netDepth 0 ops = 0) :
    let st := (Delay.Impl.run (Delay.init n colors) ops).col
    (∀ d ∈ st.datasets, ((st.dsubs d).map (·.group)).Perm st.groups) ∧
    (∀ g ∈ st.groups, ((st.gsubs g).map (·.data)).Perm (st.datasets.map some)) ∧
    (∀ d, d ∉ st.datasets → st.dsubs d = []) := by
  intro st
  have h := quiescent_inv n colors ops hq
  exact ⟨h.dataGroups, h.groupDatas, h.removedEmpty⟩

/-- At every quiescent point a session save / restore round trip leaves the whole bookkeeping
(collection, attachment lists, group lists, subscriptions, counters) exactly as it was; only the
command stack starts empty in the restored session. -/
theorem restore_roundtrip (n colors : Nat) (ops : List DOp) (hq : netDepth 0 ops = 0) :
    restore (Delay.Impl.run (Delay.init n colors) ops).col =
      { (Delay.Impl.run (Delay.init n colors) ops).col with done := [], undone := [] } := by
  have h := reachable_inv n colors ops
  have h0 : (Delay.Impl.run (Delay.init n colors) ops).depth = 0 := (depth_of_history n colors ops).trans hq
  have := h.pending
  rw [h.idle h0] at this
  exact Lemmas.C06Delay.restore_eq' _ this

/-! ### the invariants are not vacuous, and what happens inside a block -/

/-- batched appends: inside the block the datasets are in the collection without subsets and the
two Add messages are queued; after the close each dataset has its subset of the group. -/
example :
    let inside := Delay.Impl.run (Delay.init 3 7) [.op .newGroup, .delayOpen, .op (.append 0), .op (.append 1)]
    let after := Delay.Impl.step inside .delayClose
    inside.col.datasets = [0, 1] ∧ inside.col.dsubs 0 = [] ∧ inside.col.dsubs 1 = [] ∧
    inside.depth = 1 ∧ inside.queue = [.add 0, .add 1] ∧
    specOk inside.col (modelReads inside.col) = false ∧
    after.depth = 0 ∧ after.queue = [] ∧
    after.col.dsubs 0 = [⟨0, some 0, 0⟩] ∧ after.col.dsubs 1 = [⟨1, some 1, 0⟩] ∧
    after.col.gsubs 0 = [⟨0, some 0, 0⟩, ⟨1, some 1, 0⟩] ∧
    specOk after.col (modelReads after.col) = true := by decide

/-- nested blocks: the inner close delivers nothing; append + remove of the same dataset inside a
block cancel out at the flush (the subset is created and deleted again). -/
example :
    let inner := Delay.Impl.run (Delay.init 3 7)
      [.op .newGroup, .delayOpen, .op (.append 0), .delayOpen, .op (.append 1), .op (.remove 0), .delayClose]
    let after := Delay.Impl.step inner .delayClose
    inner.depth = 1 ∧ inner.queue = [.add 0, .add 1, .del 0] ∧ inner.col.datasets = [1] ∧
    inner.col.dsubs 1 = [] ∧
    after.depth = 0 ∧ after.col.dsubs 0 = [] ∧ after.col.dsubs 1 = [⟨1, some 1, 0⟩] ∧
    after.col.gsubs 0 = [⟨1, some 1, 0⟩] := by decide

/-- a group created inside a block after an append in the same block: `register` attaches the new
group's subset first, the queued Add message reaches the older group at the close — dataset 1
carries its subsets in the order (group 1, group 0), one each; the new group's handler returns early
(`fix: F26-add-data-idempotent`). -/
example :
    let st := (Delay.Impl.run (Delay.init 3 7)
      [.op (.append 0), .op .newGroup, .delayOpen, .op (.append 1), .op .newGroup, .delayClose]).col
    st.groups = [0, 1] ∧ st.dsubs 1 = [⟨2, some 1, 1⟩, ⟨3, some 1, 0⟩] ∧
    st.gsubs 1 = [⟨1, some 0, 1⟩, ⟨2, some 1, 1⟩] ∧ specOk st (modelReads st) = true := by decide

/-- everything at once inside nested blocks: merge, group removal and creation, `dc[key] = data`,
undo — quiescent again after the closes, property predicate holds. -/
example :
    let s := Delay.Impl.run (Delay.init 3 7)
      [.op (.extend [0, 1]), .op .newGroup, .delayOpen, .op (.merge [0, 1]), .op (.removeGroup 0), .op .newGroup,
       .delayOpen, .op (.setItem 0 2), .op (.doCmd false 3), .delayClose, .op .undo, .delayClose]
    s.depth = 0 ∧ s.queue = [] ∧ s.col.groups = [1] ∧ s.col.datasets = [2] ∧ (s.col.dsubs 2).length = 1 ∧
    specOk s.col (modelReads s.col) = true := by decide

/-! ### witness: the code before `fix: F26-add-data-idempotent` breaks the property (F26) -/

/-- Before the fix a group created inside a delay block *after* a dataset was appended inside the
same block gives that dataset two subsets: `register` creates one (the dataset is in the
collection), and the queued `DataCollectionAddMessage` is delivered to the new group as well when
the block closes.  The Spec rejects the state; the fixed code yields exactly one. -/
theorem unguarded_group_in_block_duplicates :
    let ops := [DOp.delayOpen, .op (.append 0), .op .newGroup, .delayClose]
    (((Delay.Unguarded.run (Delay.init 1 7) ops).col.dsubs 0).filter (fun s => s.group == 0)).length = 2 ∧
    specOk (Delay.Unguarded.run (Delay.init 1 7) ops).col
      (modelReads (Delay.Unguarded.run (Delay.init 1 7) ops).col) = false ∧
    (((Delay.Impl.run (Delay.init 1 7) ops).col.dsubs 0).filter (fun s => s.group == 0)).length = 1 := by decide

/-! ## the immediate-delivery model (no delay blocks; the model C18 builds on) -/

/-- Every operation preserves the ordered invariant `Inv` of the immediate-delivery model. -/
theorem immediate_step_inv (st : State) (op : Op) (h : Inv st) : Inv (Impl.step st op) :=
  Lemmas.C06.inv_step st op h

/-- `Inv` holds after every history without delay blocks. -/
theorem immediate_reachable_inv (n colors : Nat) (ops : List Op) : Inv (Impl.run (init n colors) ops) :=
  Lemmas.C06.inv_run ops _ (Lemmas.C06.inv_init n colors)

/-- **The immediate-delivery model is the delay model on histories without delay steps**: every
broadcast is delivered at once, the blocks inside `new_subset_group` / `remove_subset_group` flush
an empty queue, the guard of `fix: F26-add-data-idempotent` never fires — the hub stays idle and the
collection states coincide, for every history. -/
theorem immediate_agrees (n colors : Nat) (ops : List Op) :
    Delay.Impl.run (Delay.init n colors) (ops.map DOp.op) =
      { col := Impl.run (init n colors) ops, depth := 0, queue := [] } :=
  Lemmas.C06Immediate.run_idle ops _ (Lemmas.C06.inv_init n colors)

/-- `Inv` (which also fixes the order of `data.subsets`) implies the order-free `QInv`. -/
theorem immediate_inv_quiescent (st : State) (h : Inv st) : QInv st := Lemmas.C06Delay.qinv_of_inv h

/-! ### the immediate-delivery model: non-vacuity (unchanged histories) -/

/-- a history with a re-append, two groups and a removed group: dataset 1 ends with one subset for
the live group 1 only; group 1 lists one subset per dataset. -/
example :
    let st := Impl.run (init 3 7)
      [.append 0, .append 1, .newGroup, .remove 1, .append 1, .newGroup, .removeGroup 0]
    st.datasets = [0, 1] ∧ st.groups = [1] ∧ st.dsubs 1 = [⟨4, some 1, 1⟩] ∧
    st.gsubs 1 = [⟨3, some 0, 1⟩, ⟨4, some 1, 1⟩] ∧ st.dsubs 2 = [] := by decide

example :
    let st := Impl.run (init 3 7) [.extend [0, 1], .newGroup, .merge [0, 1], .setItem 0 2, .restore]
    st.datasets = [2] ∧ st.nData = 4 ∧ st.dsubs 2 = [⟨3, some 2, 0⟩] ∧ st.dsubs 3 = [] := by decide

/-- undo of `RemoveData` gives the dataset back exactly one (new) subset per live group. -/
example :
    let st := Impl.run (init 2 7) [.doCmd true 0, .newGroup, .doCmd false 0, .newGroup, .undo, .undo, .redo]
    st.datasets = [0] ∧ st.dsubs 0 = [⟨3, some 0, 0⟩, ⟨4, some 0, 1⟩] ∧
    st.done = [⟨true, 0, true, 0⟩] ∧ st.undone = [⟨false, 0, true, 0⟩] ∧
    (Impl.run (init 2 7) [.doCmd true 0, .newGroup, .doCmd false 0, .newGroup, .undo]).dsubs 0
      = [⟨1, some 0, 0⟩, ⟨2, some 0, 1⟩] := by decide

/-- position-sensitive: undoing the removal of the *first* of three datasets puts it back in front
(`insert(0, d)`); its new subset is the last one the group lists — `group.subsets` is a
permutation of the collection, not in its order — and the property predicate holds. -/
example :
    let st := Impl.run (init 3 7) [.extend [0, 1, 2], .newGroup, .doCmd false 0, .undo]
    st.datasets = [0, 1, 2] ∧ (st.gsubs 0).map (·.data) = [some 1, some 2, some 0] ∧
    st.dsubs 0 = [⟨3, some 0, 0⟩] ∧ st.undone = [⟨false, 0, true, 0⟩] ∧
    specOk st (modelReads st) = true := by decide

/-- commands without effect are undone without effect (`AddData` of a present dataset,
`RemoveData` of an absent one), and a stale recorded position is clamped like `list.insert`:
dataset 1 was removed from position 1, the collection was emptied directly, undo re-inserts it. -/
example :
    (Impl.run (init 3 7) [.append 0, .newGroup, .doCmd true 0, .undo, .doCmd false 1, .undo]).datasets = [0] ∧
    (Impl.run (init 3 7) [.extend [0, 1], .newGroup, .doCmd false 1, .remove 0, .undo]).datasets = [1] ∧
    (Impl.run (init 3 7) [.extend [0, 1], .newGroup, .doCmd false 1, .remove 0, .undo]).dsubs 1
      = [⟨2, some 1, 0⟩] ∧
    (Impl.run (init 3 7) [.extend [0, 1], .insert 1 2, .insert 9 2, .insert 0 5]).datasets = [0, 2, 1] := by
  decide

/-! ### witnesses: the code before `fix: F3-remove-data-detach` breaks the property (F3) -/

/-- Before the fix a removed dataset keeps its grouped subset: after `append 0, append 1,
new_subset_group, remove 1` dataset 1 still carries the subset, and the Spec rejects the state. -/
theorem old_removed_dataset_keeps_subsets :
    let st := Old.run (init 2 7) [.append 0, .append 1, .newGroup, .remove 1]
    st.dsubs 1 = [⟨1, some 1, 0⟩] ∧ specOk st (modelReads st) = false := by decide

/-- Before the fix re-appending that dataset gives it a *second* subset of the same group (the
stale one and a new one), and the Spec rejects the state; the fixed code yields exactly one. -/
theorem old_reappend_duplicates :
    let ops := [Op.append 0, .append 1, .newGroup, .remove 1, .append 1]
    (((Old.run (init 2 7) ops).dsubs 1).filter (fun s => s.group == 0)).length = 2 ∧
    specOk (Old.run (init 2 7) ops) (modelReads (Old.run (init 2 7) ops)) = false ∧
    (((Impl.run (init 2 7) ops).dsubs 1).filter (fun s => s.group == 0)).length = 1 := by decide

end GlueVerif.C06
