import GlueVerif.Lemmas.C13Obs
/-!
# C13 — undo restores the previous session state and redo restores the undone one

Property theorems only; helper lemmas live in `GlueVerif.Lemmas.C13*`.  Every statement is about the
executable model in `GlueVerif.Model.C13Undo`, which the driver `Drivers/C13.lean` runs against a
real `Session` / `CommandStack` / `DataCollection` / `EditSubsetMode` on every check.

* `Impl` models the code **with** `fix: F4-apply-undo-created-group` (`ApplySubsetState.undo` /
  `ApplyROI.undo` remove the groups the command created, restore the recorded state of every group,
  the edit-subset choice and the group counter) and **with** `fix: F4b-add-remove-data-undo`
  (`AddData` / `RemoveData` remember whether they changed the collection and where the dataset
  was; `RemoveData.undo` re-inserts it there through `DataCollection.insert`).  `PreF4b` is the code
  with the first fix only, `Old` the code before both (witnesses at the end).
* A history is a word over `do c` / `undo` / `redo` (`Op`), `c` ranging over `AddData d`,
  `RemoveData d`, `ApplySubsetState(state k, override_mode)` for the six modes or none, and
  `ApplyROI(roi k)`; it starts from **any** well-formed session `b` (`WF b`: any datasets, any
  groups with any selections, any edit subset, any current mode) with a fresh command stack.
* `observe` = datasets in order, groups in order with label / style / selection, the edit-subset
  choice, every dataset's subset list; `masks` = the selection masks, a function of `observe`.
* `Spec.check` is the list-zipper oracle that the driver evaluates on the **python** observations.
* No hypothesis on the history: every command is undone exactly.  `clean c b` (`AddData` adds an
  absent dataset, `RemoveData` removes the last dataset of the collection) only describes where the
  code before `fix: F4b` did so.
-/
namespace GlueVerif.C13
open GlueVerif.C13Undo

/-- **undo ∘ do = id.**  In any well-formed session, with any stacks, undoing *any* command that
was just executed (`AddData` of an absent or present dataset, `RemoveData` of a dataset at any
position or of an absent one, a selection in any mode) raises nothing and gives back the session
*exactly* (collection in order, groups, selections, edit subset, subset lists, counter) — hence
the same observation and the same masks. -/
theorem undo_do (st : State) (sp : CmdSpec) (hwf : WF st.body) :
    (Impl.undoCmd (Impl.doCmd sp st)).2 = false ∧
    (Impl.undoCmd (Impl.doCmd sp st)).1.body = st.body ∧
    observe (Impl.undoCmd (Impl.doCmd sp st)).1.body = observe st.body := by
  have h := Lemmas.C13.undo_cmdDo sp st.body hwf
  have e : (Impl.undoCmd (Impl.doCmd sp st)).1.body = st.body := by
    simp only [Sem.doCmd, Sem.undoCmd, maxUndo, List.take_succ_cons]
    exact h
  exact ⟨by simp [Sem.doCmd, Sem.undoCmd, maxUndo], e, by rw [e]⟩

/-- **redo ∘ undo ∘ do = do.**  Redoing the command that was just undone gives the session after
the command back, and the command is on the command stack again. -/
theorem redo_undo_do (st : State) (sp : CmdSpec) (hwf : WF st.body) :
    let st1 := Impl.doCmd sp st
    let st3 := (Impl.redoCmd (Impl.undoCmd st1).1).1
    (Impl.redoCmd (Impl.undoCmd st1).1).2 = false ∧ st3.body = st1.body ∧ st3.done = st1.done ∧
      st3.undone = [] := by
  have h := Lemmas.C13.undo_cmdDo sp st.body hwf
  have h' : cmdUndo true ⟨sp, (cmdDo sp st.body).2⟩ (cmdDo sp st.body).1 = st.body := h
  simp [Sem.doCmd, Sem.undoCmd, Sem.redoCmd, maxUndo, Impl, h']

/-- **Any depth of interleaving, undo then redo**: in every state reached from a well-formed
session by *any* history, `redo` after `undo` gives the *same state* back (session and both
stacks). -/
theorem redo_undo (b : Body) (hwf : WF b) (w : List Op) :
    let st := Impl.run (fresh b) w
    st.done ≠ [] → (Impl.undoCmd st).2 = false ∧ Impl.redoCmd (Impl.undoCmd st).1 = (st, false) := by
  intro st hne
  obtain ⟨z, _, hinv⟩ := Lemmas.C13.inv_run Lemmas.C13.impl_exact w (fresh b) _
    (Lemmas.C13.inv_fresh Impl b hwf) (Lemmas.C13.cleanWord_true Impl _ w)
  exact Lemmas.C13.redo_undo_of_inv Impl st z hinv hne

/-- **Any depth of interleaving, redo then undo**: likewise `undo` after `redo`. -/
theorem undo_redo (b : Body) (hwf : WF b) (w : List Op) :
    let st := Impl.run (fresh b) w
    st.undone ≠ [] → (Impl.redoCmd st).2 = false ∧ Impl.undoCmd (Impl.redoCmd st).1 = (st, false) := by
  intro st hne
  obtain ⟨z, _, hinv⟩ := Lemmas.C13.inv_run Lemmas.C13.impl_exact w (fresh b) _
    (Lemmas.C13.inv_fresh Impl b hwf) (Lemmas.C13.cleanWord_true Impl _ w)
  exact Lemmas.C13.undo_redo_of_inv Impl st z hinv hne

/-- **A new command clears the redo history** (any state, any command, any command semantics —
`Impl`, `PreF4b`, `Old`, …): afterwards the undo stack is empty and `redo` raises `IndexError` and
changes nothing. -/
theorem do_clears_redo (S : Sem) (st : State) (sp : CmdSpec) :
    (S.doCmd sp st).undone = [] ∧ S.redoCmd (S.doCmd sp st) = (S.doCmd sp st, true) :=
  ⟨rfl, rfl⟩

/-- **The undo history never exceeds `MAX_UNDO`**: for every history whatsoever (any commands,
clean or not, whatever `do` and `undo` of the commands do to the session, any starting session)
the command stack holds at most `MAX_UNDO` commands — even together with the redo stack. -/
theorem stack_le_max (S : Sem) (b : Body) (w : List Op) :
    (S.run (fresh b) w).done.length ≤ maxUndo ∧
    (S.run (fresh b) w).done.length + (S.run (fresh b) w).undone.length ≤ maxUndo := by
  have h := Lemmas.C13.bound_run S w (fresh b) (by simp [fresh])
  exact ⟨by omega, h⟩

/-- **Empty stacks raise, as coded**: `undo` with no command to undo and `redo` with nothing undone
raise `IndexError` and leave the state untouched. -/
theorem empty_stack_errors (S : Sem) (st : State) :
    (st.done = [] → S.undoCmd st = (st, true)) ∧ (st.undone = [] → S.redoCmd st = (st, true)) := by
  constructor
  · intro h; simp [Sem.undoCmd, h]
  · intro h; simp [Sem.redoCmd, h]

/-- every session the harness prepares (appending datasets, creating groups with any selection,
choosing any edit subset and any mode) is well-formed: the hypothesis of the theorems is met by
every case that is run. -/
theorem setup_wf (nData nColors : Nat) (ops : List Setup) : WF (setup nData nColors ops) :=
  Lemmas.C13.wf_setup nData nColors ops

/-- **Refinement to the list zipper** (the `implok` column of the driver) — the full statement,
no hypothesis on the history: for every well-formed session and *every* history of any length —
any interleaving of any commands, undos and redos, including `AddData` of a present dataset,
`RemoveData` of an absent or a non-last one, undo / redo on empty stacks and more than `MAX_UNDO`
commands — the observations of the model are a walk of a cursor in the list of observed states:
after `undo` exactly the observation stored before the corresponding `do` (dataset order
included), after `redo` the one after it, a `do` drops the redo side and the oldest entry beyond
`MAX_UNDO`, the stack sizes are the numbers of entries before / after the cursor, and `IndexError`
is raised exactly at the two ends, changing nothing.

(Before `fix: F4b-add-remove-data-undo` this was `zipper_refinement_partial`, under the hypothesis
`cleanWord clean`; that statement is now `pre_f4b_refinement_on_clean`, about `PreF4b`.) -/
theorem zipper_refinement (b : Body) (hwf : WF b) (w : List Op) :
    Spec.check (observe b) (Impl.trace (fresh b) w) = true := by
  obtain ⟨z, hz, _⟩ := Lemmas.C13.inv_run Lemmas.C13.impl_exact w (fresh b) _
    (Lemmas.C13.inv_fresh Impl b hwf) (Lemmas.C13.cleanWord_true Impl _ w)
  simp [Spec.check, hz]

/-- the selection masks (the denotation of every subset on every dataset, for any meaning of the
atomic states) are a function of the observation: whatever restores `observe` restores the masks. -/
theorem masks_of_observe (atoms : Nat → Nat → List Bool) (b b' : Body)
    (h : observe b = observe b') : masks atoms b = masks atoms b' :=
  Lemmas.C13.masks_of_observe atoms b b' h

/-- **What the code before `fix: F4b` satisfied**: the same refinement, but only for clean
histories (every `AddData` adds an absent dataset, every `RemoveData` removes the last dataset of
the collection; selection commands unrestricted).  Outside `clean` it failed: the three witnesses
at the end. -/
theorem pre_f4b_refinement_on_clean (b : Body) (hwf : WF b) (w : List Op)
    (hc : PreF4b.cleanWord clean (fresh b) w = true) :
    Spec.check (observe b) (PreF4b.trace (fresh b) w) = true := by
  obtain ⟨z, hz, _⟩ := Lemmas.C13.inv_run Lemmas.C13.pre_exact w (fresh b) _
    (Lemmas.C13.inv_fresh PreF4b b hwf) hc
  simp [Spec.check, hz]

/-- the repair touches nothing else: `do` acts on the session exactly as before the fix (it only
records more on the command object), and a selection command is undone in the same way. -/
theorem impl_vs_pre_f4b (sp : CmdSpec) (sv : Saved) (b : Body) :
    (Impl.doF sp b).1 = (PreF4b.doF sp b).1 ∧
    (∀ k ov, sp = .apply k ov → Impl.undoF ⟨sp, sv⟩ b = PreF4b.undoF ⟨sp, sv⟩ b) ∧
    (∀ k, sp = .applyRoi k → Impl.undoF ⟨sp, sv⟩ b = PreF4b.undoF ⟨sp, sv⟩ b) := by
  refine ⟨?_, ?_, ?_⟩
  · cases sp <;> rfl
  · intro k ov h; subst h; rfl
  · intro k h; subst h; rfl

/-! ## The oracle demands what the property says (for any type of observations) -/

/-- the zipper accepts `do` followed by `undo` only if neither raised and the observation after
the `undo` equals the one before the `do`. -/
theorem spec_undo_after_do {α : Type} [BEq α] [LawfulBEq α] (z z1 z2 : Spec.Zipper α)
    (s1 s2 : Spec.Step α) (h1 : s1.letter = .do) (h2 : s2.letter = .undo)
    (a1 : z.step s1 = some z1) (a2 : z1.step s2 = some z2) :
    s1.err = false ∧ s2.err = false ∧ s2.obs = z.cur ∧ z2.cur = z.cur :=
  Lemmas.C13.spec_undo_after_do z z1 z2 s1 s2 h1 h2 a1 a2

/-- the zipper accepts a successful `undo` followed by `redo` only if the observation after the
`redo` equals the one before the `undo`. -/
theorem spec_redo_after_undo {α : Type} [BEq α] [LawfulBEq α] (z z1 z2 : Spec.Zipper α)
    (s1 s2 : Spec.Step α) (h1 : s1.letter = .undo) (h2 : s2.letter = .redo) (he : s1.err = false)
    (a1 : z.step s1 = some z1) (a2 : z1.step s2 = some z2) :
    s2.err = false ∧ s2.obs = z.cur ∧ z2.cur = z.cur :=
  Lemmas.C13.spec_redo_after_undo z z1 z2 s1 s2 h1 h2 he a1 a2

/-- the zipper accepts `do` followed by `redo` only if the undo stack was observed empty after the
`do` and the `redo` raised and changed nothing. -/
theorem spec_redo_after_do {α : Type} [BEq α] [LawfulBEq α] (z z1 z2 : Spec.Zipper α)
    (s1 s2 : Spec.Step α) (h1 : s1.letter = .do) (h2 : s2.letter = .redo)
    (a1 : z.step s1 = some z1) (a2 : z1.step s2 = some z2) :
    z1.future = [] ∧ s1.nUndone = 0 ∧ s2.err = true ∧ s2.obs = s1.obs ∧ z2 = z1 :=
  Lemmas.C13.spec_redo_after_do z z1 z2 s1 s2 h1 h2 a1 a2

/-- an accepted step never lets the zipper (hence the observed stack sizes) exceed `MAX_UNDO`. -/
theorem spec_bound {α : Type} [BEq α] (z z' : Spec.Zipper α) (s : Spec.Step α)
    (h : z.past.length + z.future.length ≤ maxUndo) (a : z.step s = some z') :
    z'.past.length + z'.future.length ≤ maxUndo :=
  Lemmas.C13.spec_bound z z' s h a

/-! ## The hypotheses are satisfiable by non-trivial values -/

/-- two datasets, two groups, the second one edited, current mode `or`. -/
def exBody : Body := setup 3 7 [.append 0, .append 1, .group 1, .group 2, .edit [2], .mode .or]

/-- a history with a selection combined into the edited group, a new group (`NewMode`), an ROI, the
*first* dataset removed, a present dataset added again, an absent one removed, a dataset added;
undone completely (one undo too many) and partly redone, a new command, a failing redo. -/
def exWord : List Op :=
  [.do (.apply 3 (some .andNot)), .do (.apply 1 (some .new)), .do (.applyRoi 4), .do (.removeData 0),
   .do (.addData 1), .do (.removeData 0), .do (.addData 2),
   .undo, .undo, .undo, .undo, .undo, .undo, .undo, .undo, .redo, .redo, .redo, .redo,
   .do (.apply 0 none), .redo]

example : WF exBody := setup_wf _ _ _
example : PreF4b.cleanWord clean (fresh exBody) exWord = false := by decide
example : (Impl.run (fresh exBody) exWord).done.length = 5 := by decide
example : (Impl.run (fresh exBody) exWord).body.datasets = [1] := by decide
example : (Impl.run (fresh exBody) (exWord.take 12)).body.datasets = [0, 1] := by decide
example : Spec.check (observe exBody) (Impl.trace (fresh exBody) exWord) = true :=
  zipper_refinement _ (setup_wf _ _ _) _
example : Spec.check (observe exBody) (PreF4b.trace (fresh exBody) exWord) = false := by decide

/-! ## Witnesses -/

/-- one dataset in the collection, nothing else. -/
def w1 : Body := setup 1 7 [.append 0]

/-- **F4 (code before `fix: F4`)**: a selection applied while no group is edited creates a group;
`undo` leaves the group and the edit-subset choice behind — the zipper rejects the trace —
whereas the repaired code is accepted. -/
theorem old_undo_apply_new_group :
    Spec.check (observe w1) (Old.trace (fresh w1) [.do (.apply 1 none), .undo]) = false ∧
    (observe (Old.run (fresh w1) [.do (.apply 1 none), .undo]).body).groups.length = 1 ∧
    (observe (Old.run (fresh w1) [.do (.apply 1 none), .undo]).body).edit = [some 0] ∧
    Spec.check (observe w1) (Impl.trace (fresh w1) [.do (.apply 1 none), .undo]) = true := by
  decide

/-- **F4, second half**: after that `undo`, `redo` re-creates nothing: the left-over group is
still the edit subset, so the selection is written into it and the dataset keeps 0 subsets —
whereas the repaired code shows after `redo` exactly what it showed after `do`. -/
theorem old_redo_creates_nothing :
    (observe (Old.run (fresh w1) [.do (.apply 1 none), .undo, .redo]).body).dsubs = [[]] ∧
    (observe (Old.run (fresh w1) [.do (.apply 1 none)]).body).dsubs = [[some 0]] ∧
    (observe (Impl.run (fresh w1) [.do (.apply 1 none), .undo, .redo]).body) =
      (observe (Impl.run (fresh w1) [.do (.apply 1 none)]).body) := by
  decide

/-- **code before the fix, empty collection**: the old `undo` restores selections only through the
subsets of the datasets in the collection; with no dataset in it a replaced selection stays. -/
theorem old_undo_empty_collection :
    let w := [Op.do (.apply 1 none), .do (.removeData 0), .do (.apply 2 none), .undo]
    (observe (Old.run (fresh w1) w).body).groups = [(1, 0, .atom 2)] ∧
    (observe (Impl.run (fresh w1) w).body).groups = [(1, 0, .atom 1)] := by
  decide

/-- two datasets in the collection. -/
def w2 : Body := setup 2 7 [.append 0, .append 1]

/-- **F4b (code before `fix: F4b`)**: `RemoveData.undo` appended the dataset at the *end* of the
collection: undoing the removal of a dataset that was not the last one changed the order — the
zipper rejects the trace — whereas the repaired code puts it back where it was. -/
theorem pre_f4b_remove_undo_reorders :
    clean (.removeData 0) w2 = false ∧
    (observe (PreF4b.run (fresh w2) [.do (.removeData 0), .undo]).body).datasets = [1, 0] ∧
    Spec.check (observe w2) (PreF4b.trace (fresh w2) [.do (.removeData 0), .undo]) = false ∧
    (observe (Impl.run (fresh w2) [.do (.removeData 0), .undo]).body).datasets = [0, 1] ∧
    Spec.check (observe w2) (Impl.trace (fresh w2) [.do (.removeData 0), .undo]) = true := by
  decide

/-- **F4c (code before `fix: F4b`)**: `AddData` of a dataset that is already in the collection
does nothing, but its `undo` removed the dataset; the repaired code leaves it. -/
theorem pre_f4b_add_present_undo_removes :
    clean (.addData 0) w1 = false ∧
    (observe (PreF4b.run (fresh w1) [.do (.addData 0), .undo]).body).datasets = [] ∧
    Spec.check (observe w1) (PreF4b.trace (fresh w1) [.do (.addData 0), .undo]) = false ∧
    (observe (Impl.run (fresh w1) [.do (.addData 0), .undo]).body).datasets = [0] ∧
    Spec.check (observe w1) (Impl.trace (fresh w1) [.do (.addData 0), .undo]) = true := by
  decide

/-- **F4d (code before `fix: F4b`)**: `RemoveData` of a dataset that is not in the collection does
nothing, but its `undo` appended the dataset; the repaired code does not. -/
theorem pre_f4b_remove_absent_undo_appends :
    clean (.removeData 1) w1 = false ∧
    (observe (PreF4b.run (fresh w1) [.do (.removeData 1), .undo]).body).datasets = [0, 1] ∧
    Spec.check (observe w1) (PreF4b.trace (fresh w1) [.do (.removeData 1), .undo]) = false ∧
    (observe (Impl.run (fresh w1) [.do (.removeData 1), .undo]).body).datasets = [0] ∧
    Spec.check (observe w1) (Impl.trace (fresh w1) [.do (.removeData 1), .undo]) = true := by
  decide

end GlueVerif.C13
