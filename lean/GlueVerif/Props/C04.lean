import GlueVerif.Model.C04Views
/-! # C04 — placeholder while the correspondence is being validated -/
namespace GlueVerif.C04
end GlueVerif.C04
