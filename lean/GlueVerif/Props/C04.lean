import GlueVerif.Lemmas.C04Indexed
import GlueVerif.Lemmas.C04Cross
/-!
# C04 — views of masks and attribute values equal the same view of the full array

Property theorems only (helper lemmas: `GlueVerif.Lemmas.C04*`).  Every statement is about the
executable definitions of `GlueVerif.Model.C04Views` that the driver `Drivers/C04.lean` runs against
`/repo` on every check:

* `viewPoints` / `NArr.index` — the L0 model of numpy indexing (validated against numpy by the
  `npidx` family); `Spec.viewOf full v = full.index v` is the oracle the driver applies to the
  *implementation's* full-size result and viewed result;
* `Impl.attr`, `Impl.mask`, `Impl.indexedAttr`, `Impl.indexedMask` — the view fast paths as coded.

All theorems hold for **every** shape (any number of dimensions), every view of the stated kind and
every parameter of the attribute / selection; there is no bound on sizes.
-/
namespace GlueVerif.C04
open GlueVerif.ArrayUtil
open GlueVerif.Coords (ViewErr Coord)

/-! ## L0: indexing a materialised array is gathering its defining function -/

/-- For every shape, every function on index tuples and **every** view (positive or negative steps,
negative integers, short tuples, index arrays with scalars, masks; invalid views give the same
error): `tabulate sh f` indexed by the view is the list of `f` at the gathered index tuples. -/
theorem index_tabulate {α : Type} [Inhabited α] (sh : List Nat) (f : List Nat → α) (v : View) :
    (tabulate sh f).index v = gather sh f v :=
  Lemmas.C04.index_tabulate sh f v

/-- Every index tuple a view gathers from lies below the shape (the gather never reads outside the
array). -/
theorem viewPoints_in_range (sh : List Nat) (v : View) (s : List Nat) (pts : List (List Nat))
    (h : viewPoints sh v = .ok (s, pts)) : ∀ p ∈ pts, p ∈ allIdx sh :=
  Lemmas.C04.viewPoints_mem h

example : viewPoints [3, 4] (.basic [.slice (some 1) none (some 2), .int (-1)]) = .ok ([1], [[1, 3]]) := by
  rfl

example : viewPoints [2, 3] (.arrays [2] [.arr [1, -2], .int 2]) = .ok ([2], [[1, 2], [0, 2]]) := by
  rfl

/-! ## attribute kinds -/

/-- **Pixel attributes**: `data[pixel_cid, view]` (computed as `broadcast(arange)[view]`) holds, at
every element of the result, the coordinate along `ax` of the index tuple the view takes that
element from. -/
theorem pixel_view_values (sh : List Nat) (ax : Nat) (v : View) :
    Impl.attr sh (.pixel ax) v = gather sh (fun idx => ((idx.getD ax 0 : Nat) : Rat)) v :=
  Lemmas.C04.attr_gather sh (.pixel ax) rfl v

/-- … hence equals the full pixel array indexed by the view. -/
theorem pixel_view (sh : List Nat) (ax : Nat) (v : View) :
    Impl.attr sh (.pixel ax) v = Spec.viewOfRes (Impl.attr sh (.pixel ax) .none) v :=
  Lemmas.C04.attr_view sh (.pixel ax) rfl v

/-- **Every attribute kind** — stored numeric, categorical labels, derived (one or two operands,
any operator, nested to any depth), linked through an identity link (`join_component_view`), pixel,
world (any coordinate object of C15, any axis): `get_data(cid, view)` equals `get_data(cid)[view]`,
with the same shape and the same errors, for **every** view. -/
theorem attr_view (sh : List Nat) (a : Attr) (hw : Spec.attrWf sh a = true) (v : View) :
    Impl.attr sh a v = Spec.viewOfRes (Impl.attr sh a .none) v :=
  Lemmas.C04.attr_view sh a hw v

/-- The same, pointwise: the viewed result holds the attribute's value at every gathered point. -/
theorem attr_view_values (sh : List Nat) (a : Attr) (hw : Spec.attrWf sh a = true) (v : View) :
    Impl.attr sh a v = gather sh (Spec.attrAt sh a) v :=
  Lemmas.C04.attr_gather sh a hw v

/-- Derived attributes (`BinaryComponentLink.compute`, any operator, C14's elementwise semantics):
computing on views of the operands is viewing the computed array. -/
theorem derived_view (sh : List Nat) (op : Rat → Rat → Rat) (a b : Attr)
    (ha : Spec.attrWf sh a = true) (hb : Spec.attrWf sh b = true) (v : View) :
    Impl.attr sh (.zip op a b) v = Spec.viewOfRes (Impl.attr sh (.zip op a b) .none) v :=
  attr_view sh (.zip op a b) (by simp [Spec.attrWf, ha, hb]) v

/-- World attributes: through C15's `world_eq_direct` (`_calculate(view)` is the transformation of
the gathered grid points), for every coordinate object, world axis and view — including tuples of
index arrays that contain scalars, which take the general path. -/
theorem world_view (c : Coord) (sh : List Nat) (ax : Nat) (ha : ax < c.n) (hsh : sh.length = c.n)
    (v : View) :
    Impl.attr sh (.world c ax) v = Spec.viewOfRes (Impl.attr sh (.world c ax) .none) v :=
  attr_view sh (.world c ax) (by simp [Spec.attrWf, ha, hsh]) v

example : Spec.attrWf [2, 3] (.zip (· + ·) (.map (fun x => 2 * x + 1) (.stored [0, 7, 3, 10, 6, 2]))
    (.linked (.pixel 1))) = true := by decide

/-! ## selection classes -/

/-- **`RoiSubsetStateNd` pixel-space shortcut**: for every shape, every list of attribute axes, every
region and every view, "take index 0 on the other axes, test, broadcast back" (taken for views made
of slices) or the elementwise test (any other view) gives the region test of every gathered point —
pixel attributes are constant along the other axes. -/
theorem roi_pixel_shortcut_values (sh : List Nat) (axes : List Nat) (roi : List Nat → Bool) (v : View) :
    Impl.roiPix sh axes roi v = gather sh (fun idx => roi (axes.map fun ax => idx.getD ax 0)) v :=
  Lemmas.C04.roiPix_gather sh axes roi v

/-- … hence `get_mask(roi_state, view) = get_mask(roi_state)[view]` (the full-size mask is itself
computed with the shortcut). -/
theorem roi_pixel_shortcut_view (sh : List Nat) (axes : List Nat) (roi : List Nat → Bool) (v : View) :
    Impl.roiPix sh axes roi v = Spec.viewOfRes (Impl.roiPix sh axes roi .none) v := by
  rw [roi_pixel_shortcut_values, roi_pixel_shortcut_values sh axes roi .none]
  exact (Lemmas.C04.index_tabulate sh _ v).symm

example : Impl.roiPix [2, 3] [1] (fun c => c == [2]) (.basic [.slice none none none, .slice (some 1) none none]) =
    .ok ⟨[2, 2], [false, true, false, true]⟩ := by rfl

/-- **`SliceSubsetState.to_mask`**: for every shape, every list of positive-step state slices and
every positive-step view (None, Ellipsis, tuples of integers — negative ones included — and slices,
short tuples, index arrays, masks): the per-axis `combine_slices` arithmetic, the integer
early-return and the final `mask[subslices] = True` produce the full mask indexed by the view.
Axis by axis from C20 `combineNorm_correct`. -/
theorem slice_state_view (sh : List Nat) (sls : List ViewItem) (v : View)
    (hl : sls.length = sh.length) (hp : sls.all Spec.posSliceEntry = true) (hv : v.posStep = true) :
    Impl.sliceMask sh sls v = Spec.viewOfRes (Impl.sliceMask sh sls .none) v := by
  rw [Lemmas.C04.sliceMask_gather sh sls v hl hp hv, Lemmas.C04.sliceMask_gather sh sls .none hl hp rfl]
  exact (Lemmas.C04.index_tabulate sh _ v).symm

/-- … pointwise: the viewed mask is the state's membership test at every gathered point. -/
theorem slice_state_values (sh : List Nat) (sls : List ViewItem) (v : View)
    (hl : sls.length = sh.length) (hp : sls.all Spec.posSliceEntry = true) (hv : v.posStep = true) :
    Impl.sliceMask sh sls v = gather sh (Spec.sliceHolds sh sls) v :=
  Lemmas.C04.sliceMask_gather sh sls v hl hp hv

example : Impl.sliceMask [5] [.slice (some 1) none (some 2)] (.basic [.slice none none (some 3)]) =
    .ok ⟨[2], [false, true]⟩ := by rfl

/-- **`MaskSubsetState`** (same-grid shortcut `mask[view]`, and the general path through the pixel
attributes in another order). -/
theorem mask_state_view (sh : List Nat) (hne : sh.isEmpty = false) (m : List Bool)
    (hm : m.length = prod sh) (v : View) (hv : v.posStep = true) :
    Impl.mask sh (.maskSame m) v = Spec.viewOfRes (Impl.mask sh (.maskSame m) .none) v :=
  Lemmas.C04.mask_view sh (.maskSame m) v (by simp [Spec.stateWf, hm, hne]) hv

theorem mask_state_general_view (sh : List Nat) (hne : sh.isEmpty = false) (axes msh : List Nat)
    (m : List Bool) (v : View) (hv : v.posStep = true) :
    Impl.mask sh (.maskAxes axes msh m) v = Spec.viewOfRes (Impl.mask sh (.maskAxes axes msh m) .none) v :=
  Lemmas.C04.mask_view sh (.maskAxes axes msh m) v (by simp [Spec.stateWf, hne]) hv

/-- **`ElementSubsetState`**. -/
theorem element_state_view (sh : List Nat) (inds : List Int) (hi : inds.all (inAxis (prod sh)) = true)
    (v : View) (hv : v.posStep = true) :
    Impl.mask sh (.element inds) v = Spec.viewOfRes (Impl.mask sh (.element inds) .none) v :=
  Lemmas.C04.mask_view sh (.element inds) v (by simpa [Spec.stateWf] using hi) hv

/-- **Every selection class and every Boolean combination** (and / or / xor / invert / many-way or,
to any depth) of: the empty selection, elementwise tests of one or two attributes of any kind
(range, multi-range, inequality, category, categorical ROI, ROI on non-pixel attributes), the pixel
ROI shortcut — also when the region test runs chunk by chunk (`pretransform`, `Projected3dROI`; repaired
`C04h`) —, slice states (own, pixel-aligned, unrelated), mask states, element states, the two
looping categorical classes (repaired `C04i`), and any class that is an elementwise function of
`data[att, view]`:
`get_mask(state, view) = get_mask(state)[view]` — same shape, same values — for **every** well-formed
selection tree and every positive-step view.  No hypothesis on the leaves is left. -/
theorem state_view (sh : List Nat) (st : State) (v : View) (hw : Spec.stateWf sh st = true)
    (hv : v.posStep = true) :
    Impl.mask sh st v = Spec.viewOfRes (Impl.mask sh st .none) v :=
  Lemmas.C04.mask_view sh st v hw hv

/-- … pointwise. -/
theorem state_view_values (sh : List Nat) (st : State) (v : View) (hw : Spec.stateWf sh st = true)
    (hv : v.posStep = true) :
    Impl.mask sh st v = gather sh (Spec.holds sh st) v :=
  Lemmas.C04.mask_gather sh v hv st hw

example : Spec.stateWf [2, 3] (.and (.roiChunked [1, 0] fun c => c == [2, 1]) (.xor (.loop1d false fun c => c == [1, 1])
    (.inv (.sliceSt [.slice (some 1) none none, .slice none none (some 2)])))) = true := by decide

example : Impl.mask [2, 3] (.and (.roiChunked [1, 0] fun c => c == [2, 1]) (.inv (.loop1d false fun c => c == [0, 0])))
    (.basic [.int 1, .int 2]) = .ok ⟨[], [true]⟩ := by rfl

/-- Witness of the old behaviour (`C04h`, pinned tree): a chunked ROI test under a view that selects a
single element raised (`iterate_chunks(())`) although the full-size mask indexed by the view exists;
the repaired code returns exactly that element. -/
theorem chunked_roi_scalar_view_pinned_raises :
    (match Pinned.mask [2] (.roiChunked [0] fun _ => true) (.basic [.int 0]) with
     | .error .indexError => true | _ => false) = true ∧
    (match Spec.viewOfRes (Pinned.mask [2] (.roiChunked [0] fun _ => true) .none) (.basic [.int 0]) with
     | .ok a => a.shape == [] && a.data == [true] | _ => false) = true ∧
    (match Impl.mask [2] (.roiChunked [0] fun _ => true) (.basic [.int 0]) with
     | .ok a => a.shape == [] && a.data == [true] | _ => false) = true := by decide

/-- Witness of the old behaviour (`C04i`, pinned tree): a looping categorical class under a view that
selects a single element, or whose result has two axes, raised; the repaired code returns the full
mask indexed by the view. -/
theorem loop1d_scalar_view_pinned_raises :
    (match Pinned.mask [2] (.loop1d false fun _ => true) (.basic [.int 0]) with
     | .error _ => true | _ => false) = true ∧
    (match Spec.viewOfRes (Pinned.mask [2] (.loop1d false fun _ => true) .none) (.basic [.int 0]) with
     | .ok a => a.shape == [] && a.data == [true] | _ => false) = true ∧
    (match Impl.mask [2] (.loop1d false fun _ => true) (.basic [.int 0]) with
     | .ok a => a.shape == [] && a.data == [true] | _ => false) = true ∧
    (match Pinned.mask [2] (.loop1d false fun _ => true) (.arrays [1, 2] [.arr [1, 0]]) with
     | .error _ => true | _ => false) = true ∧
    (match Impl.mask [2] (.loop1d false fun i => i == [1]) (.arrays [1, 2] [.arr [1, 0]]) with
     | .ok a => a.shape == [1, 2] && a.data == [true, false] | _ => false) = true := by decide

/-! ## selections and attributes of another, pixel-linked dataset

Two datasets of one `DataCollection` whose pixel ids are `LinkSame`-linked: `links[j] = some m` = pixel axis
`j` of the dataset being evaluated is pixel axis `m` of the other one (for a fully linked pair this list is
`data.pixel_aligned_data[other]`, an axis permutation π; `none` = unlinked axis). -/

/-- **Which axis**: the pixel id along axis `k` of the other dataset, read on this dataset, is this
dataset's pixel attribute along `axisOf links k` — the *position* of `k` in the order, the image under the
**inverse** permutation (`order.index(k)`) — under every view; and that is what the links mean: the value at
`idx` is the coordinate along `k` of the matching point of the other dataset (the association list
"other axis `links[j]` ↦ `idx[j]`").  For every (partial) order in which `k` occurs, every shape, every
index tuple. -/
theorem cross_pixel_axis_map (links : List (Option Nat)) (k : Nat) (h : links.contains (some k) = true) :
    (∀ idx : List Nat, otherCoord links idx k = idx.getD (axisOf links k) 0) ∧
    (∀ (sh : List Nat) (v : View),
      Impl.attr sh (.pixelOf links k) v = Impl.attr sh (.pixel (axisOf links k)) v) ∧
    (∀ (sh : List Nat) (v : View),
      Impl.attr sh (.pixelOf links k) v = gather sh (fun idx => ((otherCoord links idx k : Nat) : Rat)) v) :=
  ⟨fun idx => Lemmas.C04.otherCoord_eq_getD_axisOf links idx k h,
   fun sh v => by simp only [Impl.attr, Lemmas.C04.joinSplit_eq],
   fun sh v => Lemmas.C04.attr_gather sh (.pixelOf links k) h v⟩

/-- Using the **forward** image `order[k]` instead is wrong exactly when the order is not an involution:
it agrees with `axisOf` on the identity and on every swap of two axes of a 3-d pair, and differs on both
cyclic orders; for the cycle d-axes (0,1,2) ↔ other axes (1,2,0) the other dataset's pixel 0 lives on axis 2,
the forward image says axis 1, and a pixel-space ROI shortcut that keeps the forward axes whole
(`Mutant.roiCross … axisOfForward`) returns, for the slice view `[:, :, 1:]`, a mask that is not that view of
its own full-size mask. -/
theorem cross_pixel_axis_forward_wrong :
    ([[some 0, some 1, some 2], [some 1, some 0, some 2], [some 0, some 2, some 1], [some 2, some 1, some 0]].all
      fun links => (List.range 3).all fun k => axisOf links k == axisOfForward links k) = true ∧
    ([[some 1, some 2, some 0], [some 2, some 0, some 1]].all
      fun links => (List.range 3).all fun k => axisOf links k != axisOfForward links k) = true ∧
    axisOf [some 1, some 2, some 0] 0 = 2 ∧ axisOfForward [some 1, some 2, some 0] 0 = 1 ∧
    (match Mutant.roiCross [2, 2, 2] [some 1, some 2, some 0] axisOfForward [0] (fun c => c == [1])
        (.basic [.slice none none none, .slice none none none, .slice (some 1) none none]),
      Spec.viewOfRes (Mutant.roiCross [2, 2, 2] [some 1, some 2, some 0] axisOfForward [0] (fun c => c == [1]) .none)
        (.basic [.slice none none none, .slice none none none, .slice (some 1) none none]) with
     | .ok a, .ok b => a.shape == [2, 2, 1] && b.shape == [2, 2, 1] && a.data.all id && b.data.all (!·)
     | _, _ => false) = true := by decide

/-- With the inverse image the extension is sound: for every shape, (partial) order, list `ks` of linked
axes of the other dataset, region and view, the shortcut that keeps the axes `axisOf links k` whole gives the
region test of the matching point of the other dataset at every gathered point. -/
theorem cross_roi_shortcut_inverse_ok (sh : List Nat) (links : List (Option Nat)) (ks : List Nat)
    (roi : List Nat → Bool) (v : View) (h : ks.all (fun k => links.contains (some k)) = true) :
    Mutant.roiCross sh links axisOf ks roi v =
      gather sh (fun idx => roi (ks.map fun k => otherCoord links idx k)) v := by
  have h1 : Mutant.roiCross sh links axisOf ks roi v = Impl.roiPix sh (ks.map (axisOf links)) roi v := rfl
  rw [h1, roi_pixel_shortcut_values]
  congr 1
  funext idx
  rw [List.map_map, ← Lemmas.C04.map_otherCoord links idx ks h]
  rfl

/-- **Regions on the other dataset's ids** (`RoiSubsetStateNd` with one, two or three attributes, with or
without `pretransform`, `Projected3dROI`; also range / inequality tests): pixel ids of the other dataset —
and world / derived ids of it, which are elementwise functions of them — are not pixel ids of this dataset,
so the general path is taken: `get_mask(state, view) = get_mask(state)[view]` for every view. -/
theorem cross_roi_view (sh : List Nat) (as : List Attr) (p : List Rat → Bool) (v : View)
    (hw : as.all (Spec.attrWf sh) = true) (hv : v.posStep = true) :
    Impl.mask sh (.predN as p) v = Spec.viewOfRes (Impl.mask sh (.predN as p) .none) v :=
  Lemmas.C04.mask_view sh (.predN as p) v (by simpa [Spec.stateWf] using hw) hv

/-- **`SliceSubsetState` / `PixelSubsetState` of the other dataset** on a pixel-aligned dataset: the
re-ordered slices (`[slices[i] for i in order]`) behave as the dataset's own; pointwise, `idx` is selected
iff on every axis `j` the coordinate `idx[j]` lies in the slice of the other's axis `order[j]`. -/
theorem cross_slice_view (sh : List Nat) (order : List Nat) (sls : List ViewItem) (v : View)
    (hl : order.length = sh.length) (hp : sls.all Spec.posSliceEntry = true) (hv : v.posStep = true) :
    Impl.mask sh (.sliceOf order sls) v = Spec.viewOfRes (Impl.mask sh (.sliceOf order sls) .none) v ∧
    Impl.mask sh (.sliceOf order sls) v = gather sh (Spec.sliceHolds sh (reorderSlices order sls)) v :=
  have hw : Spec.stateWf sh (.sliceOf order sls) = true := by simp [Spec.stateWf, hl, hp]
  ⟨Lemmas.C04.mask_view sh _ v hw hv, Lemmas.C04.mask_gather sh v hv _ hw⟩

/-- … and on a pair that shares a grid — `order` a permutation of the `n` axes, axis `j` of this dataset as
long as axis `order[j]` of the other — that is membership of the **matching point of the other dataset**
(`otherPoint`: coordinate `idx[j]` on its axis `order[j]`) in the state's own slices on the other's shape:
re-ordering with the inverse instead (`slices[order.index(j)]`) would select other points as soon as the
order is not an involution. -/
theorem cross_slice_point (n : Nat) (shd she : List Nat) (order : List Nat) (sls : List ViewItem)
    (idx : List Nat) (hperm : order.Perm (List.range n)) (hd : shd.length = n) (he : she.length = n)
    (hs : sls.length = n) (hi : idx.length = n)
    (hshape : ∀ j, j < n → shd.getD j 0 = she.getD (order.getD j 0) 0) :
    Spec.holds shd (.sliceOf order sls) idx =
      Spec.sliceHolds she sls (otherPoint (order.map some) n idx) :=
  Lemmas.C04.sliceHolds_reorder n shd she order sls idx hperm hd he hs hi hshape

example : ([1, 2, 0] : List Nat).Perm (List.range 3) := by decide

example : Spec.holds [2, 3, 4] (.sliceOf [1, 2, 0] [.slice (some 1) none none, .slice none none none, .slice (some 2) none none])
      [1, 2, 3] = true ∧
    otherPoint [some 1, some 2, some 0] 3 [1, 2, 3] = [3, 1, 2] := by decide

/-- **`MaskSubsetState` with the other dataset's pixel ids**: each gathered point gets the element of the
mask at the matching point of the other dataset. -/
theorem cross_mask_view (sh : List Nat) (hne : sh.isEmpty = false) (links : List (Option Nat))
    (ks msh : List Nat) (m : List Bool) (v : View)
    (h : ks.all (fun k => links.contains (some k)) = true) (hv : v.posStep = true) :
    Impl.mask sh (.maskOf links ks msh m) v = Spec.viewOfRes (Impl.mask sh (.maskOf links ks msh m) .none) v :=
  Lemmas.C04.mask_view sh _ v (by simp only [Spec.stateWf, h, hne]; rfl) hv

example : Spec.stateWf [2, 3, 4] (.and (.predN [.pixelOf [some 1, some 2, some 0] 0, .map (fun x => 2 * x)
      (.pixelOf [some 1, none, some 0] 1)] fun c => c == [1, 2])
    (.xor (.sliceOf [1, 2, 0] [.slice (some 1) none none, .slice none none (some 2), .slice none none none])
      (.maskOf [some 1, some 2, some 0] [0, 1, 2] [4, 2, 3] []))) = true := by decide

example : Impl.attr [2, 3, 4] (.pixelOf [some 1, some 2, some 0] 0) (.basic [.int 1, .int 2]) =
    .ok ⟨[4], [0, 1, 2, 3]⟩ := by rfl

/-! ## `IndexedData` -/

/-- **`indexed_get = parent_get ∘ merge indices`**: for every parent shape, every index tuple that fits
it, every attribute of the parent and every valid view of the reduced dataset (None, Ellipsis, bare
items, short tuples, index arrays, Boolean masks): `IndexedData.get_data(cid, view)` — the parent
evaluated at the view built by `_to_original_view` — equals `parent_full[indices][view]`. -/
theorem indexed_get (psh : List Nat) (ix : List (Option Nat)) (a : Attr) (v : View)
    (hix : ixValid psh ix = true) (hw : Spec.attrWf psh a = true)
    (hok : ∃ sp, viewPoints (reducedShape psh ix) v = .ok sp) :
    Impl.indexedAttr psh ix (.parent a) v =
      Spec.indexedViewOf (tabulate psh (Spec.attrAt psh a)) ix v ∧
    Impl.attr psh a .none = .ok (tabulate psh (Spec.attrAt psh a)) := by
  refine ⟨?_, Lemmas.C04.attr_gather psh a hw .none⟩
  unfold Impl.indexedAttr
  have := Lemmas.C04.indexed_compose psh ix (Spec.attrAt psh a) v hix hok
  rw [← this]
  cases toOriginalView psh ix v with
  | error e => rfl
  | ok ov => exact Lemmas.C04.attr_gather psh a hw ov

/-- **Pixel attributes of the reduced dataset** (`_translate_cid`): its `k`-th pixel attribute under
any valid view is the pixel attribute `k` of a plain dataset of the reduced shape. -/
theorem indexed_pixel (psh : List Nat) (ix : List (Option Nat)) (k : Nat) (v : View)
    (hix : ixValid psh ix = true) (hk : k < (reducedShape psh ix).length)
    (hok : ∃ sp, viewPoints (reducedShape psh ix) v = .ok sp) :
    Impl.indexedAttr psh ix (.pixel k) v = Impl.attr (reducedShape psh ix) (.pixel k) v := by
  rw [Lemmas.C04.attr_gather (reducedShape psh ix) (.pixel k) rfl v]
  unfold Impl.indexedAttr
  have := Lemmas.C04.gather_original psh ix (Spec.attrAt psh (.pixel (translateAxis ix k))) v hix hok
  have hfun : (fun idx => Spec.attrAt psh (.pixel (translateAxis ix k)) (embed ix idx)) =
      Spec.attrAt (reducedShape psh ix) (.pixel k) := by
    funext idx
    simp only [Spec.attrAt, Lemmas.C04.getD_embed_translateAxis psh ix idx k hix hk]
  rw [hfun] at this
  rw [← this]
  cases toOriginalView psh ix v with
  | error e => rfl
  | ok ov => exact Lemmas.C04.attr_gather psh _ rfl ov

/-- **`indexed_mask`**: `IndexedData.get_mask(state, view)` equals `parent_mask[indices][view]` for every
selection of `state_view` (every well-formed selection tree). -/
theorem indexed_mask (psh : List Nat) (ix : List (Option Nat)) (st : State) (v : View)
    (hix : ixValid psh ix = true) (hw : Spec.stateWf psh st = true)
    (hv : v.posStep = true) (hok : ∃ sp, viewPoints (reducedShape psh ix) v = .ok sp) :
    Impl.indexedMask psh ix st v = Spec.indexedViewOf (tabulate psh (Spec.holds psh st)) ix v ∧
    Impl.mask psh st .none = .ok (tabulate psh (Spec.holds psh st)) := by
  refine ⟨?_, Lemmas.C04.mask_gather psh .none rfl st hw⟩
  unfold Impl.indexedMask
  have := Lemmas.C04.indexed_compose psh ix (Spec.holds psh st) v hix hok
  rw [← this]
  cases hov : toOriginalView psh ix v with
  | error e => rfl
  | ok ov =>
    exact Lemmas.C04.mask_gather psh ov (Lemmas.C04.toOriginalView_posStep hv hov) st hw

/-- **After its indices are changed** (`IndexedData.indices = new`, accepted only when the `None`
positions are unchanged) the reduced dataset has the same shape and `indexed_get` holds with the new
indices: nothing of the old indices survives. -/
theorem indexed_after_reindex (psh : List Nat) (ix0 ix1 ix : List (Option Nat)) (a : Attr) (v : View)
    (hset : setIndices ix0 ix1 = some ix) (hix : ixValid psh ix1 = true)
    (hw : Spec.attrWf psh a = true) (hok : ∃ sp, viewPoints (reducedShape psh ix0) v = .ok sp) :
    reducedShape psh ix = reducedShape psh ix0 ∧
    Impl.indexedAttr psh ix (.parent a) v =
      Spec.indexedViewOf (tabulate psh (Spec.attrAt psh a)) ix1 v := by
  obtain ⟨rfl, hl, hpat⟩ := Lemmas.C04.setIndices_eq hset
  have hsh := Lemmas.C04.reducedShape_setIndices psh ix0 ix hl hpat
  refine ⟨hsh, (indexed_get psh ix a v hix hw (by rw [hsh]; exact hok)).1⟩

/-- **Histograms (and any statistic) of a reduced dataset**: `IndexedData.compute_histogram` evaluates
the *parent* with the caller's selection intersected with `_indices_subset_state`.  For every parent
value function `f` and every selection test `g`, the parent values selected by `g` and the indices
state, in row-major order, are exactly the values of the reduced dataset selected by `g` — hence any
histogram or statistic of them is that of the parent slice (`compute_statistic` goes through
`_to_original_view`, i.e. `indexed_get`). -/
theorem indexed_histogram_selection {α : Type} (psh : List Nat) (ix : List (Option Nat))
    (f : List Nat → α) (g : List Nat → Bool) (hix : ixValid psh ix = true) :
    ((allIdx psh).filter fun idx => g idx && Spec.sliceHolds psh (indicesSlices ix) idx).map f =
      ((allIdx (reducedShape psh ix)).filter fun idx => g (embed ix idx)).map fun idx => f (embed ix idx) := by
  rw [← List.filter_filter, Lemmas.C04.filter_indices_state psh ix hix, List.filter_map, List.map_map]
  rfl

example : ixValid [2, 3, 4] [none, some 2, none] = true ∧
    setIndices [none, some 2, none] [none, some 0, none] = some [none, some 0, none] ∧
    toOriginalView [2, 3, 4] [none, some 2, none] (.basic [.int 1]) =
      .ok (.basic [.int 1, .int 2, .slice none none none]) := ⟨by decide, by decide, by rfl⟩

end GlueVerif.C04
