import GlueVerif.Lemmas.C17Exact
/-!
# C17 — a dataset stays structurally consistent and announces every structural change

Property theorems only; helper lemmas live in `GlueVerif.Lemmas.C17*`. Every statement is about the
executable definitions of `GlueVerif.Model.DataStruct` that the driver `Drivers/C17.lean` runs
against `glue/core/data.py` on every check: `step` (one call of the mutation API, with the repairs
F13/F16–F22 of `props.d/C17/fixes`), `obs` (what the harness reads off the real object),
`specInv` / `specStep` / `specTrace` (the predicates the driver evaluates on the *implementation's*
observations), `classify` (which calls the theorems cover).
-/
namespace GlueVerif.C17
open GlueVerif.DataStruct

/-- A fresh `Data()` (with any pool of free-standing ids) satisfies the invariant. -/
theorem inv_init (pool : List Label) : Inv (init pool) := Lemmas.C17.inv_init pool

/-- The state invariant implies the structural property on everything the harness can observe:
unique ids, all components have the dataset's shape, one pixel attribute per dimension, one world
attribute per dimension iff coordinates are set, two pixel↔world links per dimension iff coordinates
are set, and `find_component_id` answers every probe label with the unique match of the first tier
(main, derived, coordinate, linked) that contains the label, or nothing. -/
theorem inv_spec (probe : List Label) (s : State) (h : Inv s) : specInv (obs probe s) = true :=
  Lemmas.C17.inv_specInv probe s h

/-- Lookup by name, for every state (no invariant needed): the answer is the unique match of the
first tier that has a match, and nothing if that tier has several or no tier has any. -/
theorem find_spec (probe : List Label) (s : State) (l : Label) :
    findOk (tiersOf (obs probe s)) l (findImpl s l) = true :=
  Lemmas.C17.find_spec probe s l

/-- **One call preserves the invariant** — for every state and every call of the mutation API with
arbitrary arguments (valid or invalid: wrong shapes, absent ids, non-permutations, duplicate labels,
…) that lies inside the hypothesis `classify s op = ok`. Since the repairs F20–F22 the hypothesis
no longer excludes any known defect: removing a pixel / world component (refused), adding onto an id
in use (array replaced and announced, other kinds refused) and `update_id` onto an id in use
(refused) are all covered. Outside lie exactly the constructs listed in `Construct`: arguments that
are not existing ComponentID objects (`unknownId`, a well-formedness condition of the model's fresh
identities), 0-d arrays (`scalarShape`), and calls the model does not follow (`updateIdDependents`
— C14's subject —, `updateNonMain`, `renameForeign`, `linkedInCollection`), none of which the
harness executes.

Full statement (not provable for the model as it stands: an identifier `≥ next` collides with a
later fresh one, and `Inv` does not cover 0-d datasets): `∀ s op, Inv s → Inv (step s op).state`. -/
theorem step_inv_partial (s : State) (op : Op) (h : Inv s) (hc : classify s op = .ok) :
    Inv (step s op).state :=
  Lemmas.C17.step_inv h hc

/-- **Every reachable state satisfies the invariant**: induction over all histories, of any length,
whose calls stay inside the hypothesis. -/
theorem inv_reachable_partial (pool : List Label) (ops : List Op) (hok : allOk (init pool) ops = true) :
    Inv (run (init pool) ops) :=
  Lemmas.C17.inv_run ops (Lemmas.C17.inv_init pool) hok

/-- The hypothesis is satisfiable by a history that exercises additions (first component: pixel and
world components are generated), a derived component, a refresh from a dataset with another number
of dimensions (F13), a re-identification, a removal with its cascade, and invalid calls. -/
example : allOk (init [1, 2, 1, 5])
    [.register, .setCoords (some 7), .addArray 1 [3] 10, .addDerived true 3 [6], .addArray 2 [4] 20,
     .updateFrom ⟨1, [(1, 30), (2, 31)], [2, 2], some 8⟩, .updateId 6 0, .reorder [0, 6],
     .remove 0, .updateComponents [(0, [2, 2], 1)]] = true := by decide

/-- … and by the calls that used to be excluded (F20–F22): removing a pixel id, adding onto an id in
use (an array, then a pixel id), `update_id` onto an id in use. -/
example :
    let ops : List Op := [.register, .addArray 1 [3] 10, .addArray 2 [3] 20, .remove 5, .addArrayAt 4 [3] 30,
      .addArrayAt 5 [3] 40, .updateId 4 6, .updateId 4 5]
    allOk (init [1, 2, 1, 5]) ops = true ∧ (run (init [1, 2, 1, 5]) ops).pix = [5] ∧
    (run (init [1, 2, 1, 5]) ops).comps = [⟨5, .pixel 0, [], 0⟩, ⟨4, .main, [3], 30⟩, ⟨6, .main, [3], 20⟩] := by
  decide


/-- **Each call announces exactly what it changed** — for every state satisfying the invariant and
every call inside the hypothesis, `specStep` holds on what the harness observes before and after:
* a call that raised changed nothing observable and announced nothing;
* without a hub nothing is announced; with a hub, replaying the `DataAddComponent` /
  `DataRemoveComponent` (each with its `ComponentsChanged`) / `ComponentReplaced` /
  `DataReorderComponent` messages on the old identifier list yields exactly the new list — every
  structural change is announced, nothing is announced that did not happen;
* surviving identifiers keep their relative order unless the call is a reorder / an `update_id`;
* an identifier's label changed iff `DataRenameComponent` was sent, the dataset label changed iff
  `DataUpdate` was sent;
* a surviving component whose class, shape or values changed is covered by a
  `NumericalDataChanged`, which only the two value-updating calls send;
* hub membership only changes through attach / register.

Full statement: `∀ s op, Inv s → specStep … = true` (the remaining hypothesis is the model's scope,
see `step_inv_partial`; before the repairs F21 / F22 it was false on the code, witnesses
`silent_replace`, `update_id_merges`). -/
theorem messages_exact_partial (probe : List Label) (s : State) (op : Op) (h : Inv s)
    (hc : classify s op = .ok) :
    specStep (obs probe s) op (obs probe (step s op).state) (step s op).msgs (step s op).err = true :=
  Lemmas.C17.messages_exact probe h hc

/-- **The property along whole histories**: for every history (any length) of calls inside the
hypothesis, starting from a fresh dataset, the trace the harness records satisfies `specTrace` —
the invariant on every observation and message exactness at every call. This is the `implok`
verdict of the driver. -/
theorem trace_ok_partial (pool probe : List Label) (ops : List Op) (hok : allOk (init pool) ops = true) :
    specTrace (obs probe (init pool)) (trace probe (init pool) ops) = true :=
  Lemmas.C17.trace_ok probe ops (Lemmas.C17.inv_init pool) hok

/-! ## Repaired defects: the model follows the repaired code -/

/-- F13 (fixed): refreshing a 1-d dataset from a 2-d one re-generates the pixel components: the
invariant holds afterwards and the dataset has two pixel ids. -/
example :
    let s := run (init []) [.register, .addArray 1 [3] 10, .updateFrom ⟨0, [(1, 20)], [2, 3], none⟩]
    specInv (obs [1] s) = true ∧ s.pix.length = 2 ∧ s.shape = [2, 3] := by decide

/-- F20–F22 (fixed): in one history, removing a pixel id, adding an array onto a pixel id and
`update_id` onto an id in use are refused and change nothing; adding an array onto an id that names
an array replaces it and announces exactly that. -/
example :
    let s := run (init []) [.register, .addArray 1 [3] 10, .addArray 2 [3] 20]
    cids s.comps = [1, 0, 2] ∧ s.pix = [1] ∧
    (step s (.remove 1)).err = some .value ∧ (step s (.remove 1)).state = s ∧
    (step s (.addArrayAt 1 [3] 30)).err = some .value ∧
    (step s (.updateId 0 2)).err = some .value ∧ (step s (.updateId 0 2)).state = s ∧
    (step s (.addArrayAt 0 [3] 30)).msgs = [.numerical (some [0])] ∧
    cids (step s (.addArrayAt 0 [3] 30)).state.comps = [1, 0, 2] := by decide

/-! ## Witnesses of the behaviour before the repairs F20–F22 (`stepUnrepaired`): each violates the
Spec, and the repaired `step` satisfies it on the same input -/

/-- F20 (fixed): `remove_component` on a pixel id used to leave it listed in `pixel_component_ids`
although it was no longer a component — the invariant failed on the observation. The repaired call
is refused and changes nothing. -/
theorem remove_coordinate_breaks :
    let s := run (init []) [.addArray 1 [3] 10]
    s.pix = [1] ∧ classify s (.remove 1) = .ok ∧
    specInv (obs [] (stepUnrepaired s (.remove 1)).state) = false ∧
    (step s (.remove 1)).err = some .value ∧
    specInv (obs [] (step s (.remove 1)).state) = true := by decide

/-- F21 (fixed): `add_component` with an id that is already a key used to replace the stored array
and announce nothing: `specStep` rejects that (with a hub). The repaired call announces
`NumericalDataChanged([id])` and `specStep` holds. -/
theorem silent_replace :
    let s := run (init []) [.register, .addArray 1 [3] 10]
    let op := Op.addArrayAt 0 [3] 20
    classify s op = .ok ∧
    (stepUnrepaired s op).msgs = [] ∧
    (stepUnrepaired s op).state = (step s op).state ∧
    specStep (obs [] s) op (obs [] (stepUnrepaired s op).state) (stepUnrepaired s op).msgs
      (stepUnrepaired s op).err = false ∧
    (step s op).msgs = [.numerical (some [0])] ∧
    specStep (obs [] s) op (obs [] (step s op).state) (step s op).msgs (step s op).err = true := by decide

/-- F22 (fixed): `update_id(old, new)` with `new` already a component used to merge the two
dictionary keys: one component disappeared, announced only as a replacement that the replay cannot
apply. The repaired call is refused and changes nothing. -/
theorem update_id_merges :
    let s := run (init []) [.register, .addArray 1 [3] 10, .addArray 2 [3] 20]
    let op := Op.updateId 0 2
    cids s.comps = [1, 0, 2] ∧ classify s op = .ok ∧
    cids (stepUnrepaired s op).state.comps = [1, 2] ∧
    specStep (obs [] s) op (obs [] (stepUnrepaired s op).state) (stepUnrepaired s op).msgs
      (stepUnrepaired s op).err = false ∧
    (step s op).err = some .value ∧
    specStep (obs [] s) op (obs [] (step s op).state) (step s op).msgs (step s op).err = true := by decide

end GlueVerif.C17
