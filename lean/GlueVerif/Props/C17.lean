import GlueVerif.Lemmas.C17Exact
/-!
# C17 — a dataset stays structurally consistent and announces every structural change

Property theorems only; helper lemmas live in `GlueVerif.Lemmas.C17*`. Every statement is about the
executable definitions of `GlueVerif.Model.DataStruct` that the driver `Drivers/C17.lean` runs
against `glue/core/data.py` on every check: `step` (one call of the mutation API, with the repairs
F13/F16–F25 of `props.d/C17/fixes` and C14's F14), `obs` (what the harness reads off the real object),
`specInv` / `specStep` / `specTrace` (the predicates the driver evaluates on the *implementation's*
observations). The theorems are unconditional; `classify` only records where the model claims to
follow `glue` (everywhere except hand-set externally derivable ids inside a collection).
-/
namespace GlueVerif.C17
open GlueVerif.DataStruct

/-- A fresh `Data()` (with any pool of free-standing ids) satisfies the invariant. -/
theorem inv_init (pool : List Label) : Inv (init pool) := Lemmas.C17.inv_init pool

/-- The state invariant implies the structural property on everything the harness can observe:
unique ids, all components have the dataset's shape, one pixel attribute per dimension, one world
attribute per dimension iff coordinates are set, two pixel↔world links per dimension iff coordinates
are set, and `find_component_id` answers every probe label with the unique match of the first tier
(main, derived, coordinate, linked) that contains the label, or nothing. -/
theorem inv_spec (probe : List Label) (s : State) (h : Inv s) : specInv (obs probe s) = true :=
  Lemmas.C17.inv_specInv probe s h

/-- Lookup by name, for every state (no invariant needed): the answer is the unique match of the
first tier that has a match, and nothing if that tier has several or no tier has any. -/
theorem find_spec (probe : List Label) (s : State) (l : Label) :
    findOk (tiersOf (obs probe s)) l (findImpl s l) = true :=
  Lemmas.C17.find_spec probe s l

/-- **One call preserves the invariant** — for every state and every call of the mutation API with
arbitrary arguments: wrong shapes, 0-d arrays, ids that are not components (free-standing, removed,
re-assigned, or brand-new ComponentID objects the dataset has never seen), non-permutations,
duplicate labels, other numbers of dimensions, coordinate / derived components where arrays are
expected, … Nothing is excluded: removing a pixel / world component (F20), adding onto an id in use
(F21), `update_id` onto an id in use (F22), an array of another shape offered to a dataset of 0-d
arrays (F23) and `update_components` on a component without an array (F24) are refused;
`update_id` rewrites the inputs of derived components (C14's F14). -/
theorem step_inv (s : State) (op : Op) (h : Inv s) : Inv (step s op).state :=
  Lemmas.C17.step_inv h

/-- **Every reachable state satisfies the invariant**: induction over all histories, of any length. -/
theorem inv_reachable (pool : List Label) (ops : List Op) : Inv (run (init pool) ops) :=
  Lemmas.C17.inv_run ops (Lemmas.C17.inv_init pool)

/-- A history that exercises additions (first component: pixel and world components are generated),
a derived component, a refresh from a dataset with another number of dimensions (F13), a
re-identification, a removal with its cascade, and invalid calls; the model follows the code on all
of it (`allOk`). -/
example : allOk (init [1, 2, 1, 5])
    [.register, .setCoords (some 7), .addArray 1 [3] 10, .addDerived true 3 [6], .addArray 2 [4] 20,
     .updateFrom ⟨1, [(1, 30), (2, 31)], [2, 2], some 8⟩, .updateId 6 0, .reorder [0, 6],
     .remove 0, .updateComponents [(0, [2, 2], 1)]] = true := by decide

/-- The calls that used to be outside the theorems, in one history: a 0-d dataset (second 0-d array
accepted, a vector refused — F23), ComponentID objects the dataset has never seen (`40`, `41`:
removing one is ignored, `update_id` onto one re-assigns, a reorder naming one is refused),
`update_id` of an input of a derived component (its inputs follow), `update_components` on a derived
and on a pixel component (refused — F24), renaming an id that is no longer a component (only its
label changes — F25). -/
example :
    let ops0 : List Op := [.register, .addArray 1 [] 10, .addArray 2 [] 20, .addArray 3 [3] 30]
    let s0 := run (init [1, 2, 1, 5]) ops0
    let ops : List Op := [.register, .addArray 1 [3] 10, .addDerived true 3 [4], .remove 40, .updateId 4 41,
      .reorder [5, 41, 40], .updateComponents [(6, [3], 1)], .updateComponents [(5, [3], 1)], .remove 41, .rename 41 2]
    let s := run (init [1, 2, 1, 5]) ops
    s0.shape = [] ∧ cids s0.comps = [4, 5] ∧ s0.pix = [] ∧ (step s0 (.addArray 3 [3] 30)).err = some .value ∧
    (run (init [1, 2, 1, 5]) (ops.take 5)).comps = [⟨5, .pixel 0, [], 0⟩, ⟨41, .main, [3], 10⟩, ⟨6, .derived [41], [], 0⟩] ∧
    ((trace [] (init [1, 2, 1, 5]) ops).map (·.err)) =
      [none, none, none, none, none, some .value, some .value, some .value, none, none] ∧
    s.comps = [⟨5, .pixel 0, [], 0⟩] ∧ s.label 41 = 2 ∧
    (trace [] (init [1, 2, 1, 5]) ops).getLast?.map (·.msgs) = some [] := by
  decide

/-- **Each call announces exactly what it changed** — for every state satisfying the invariant and
every call (arbitrary arguments, see `step_inv`), `specStep` holds on what the harness observes
before and after:
* a call that raised changed nothing observable and announced nothing;
* without a hub nothing is announced; with a hub, replaying the `DataAddComponent` /
  `DataRemoveComponent` (each with its `ComponentsChanged`) / `ComponentReplaced` /
  `DataReorderComponent` messages on the old identifier list yields exactly the new list — every
  structural change is announced, nothing is announced that did not happen;
* surviving identifiers keep their relative order unless the call is a reorder / an `update_id`;
* an identifier's label changed iff `DataRenameComponent` was sent (and only for components), the
  dataset label changed iff `DataUpdate` was sent;
* a surviving component whose class, shape or values changed is covered by a
  `NumericalDataChanged`, which only the two value-updating calls and a replacing `add_component`
  send; the inputs of a derived component follow the announced `ComponentReplaced` and change in no
  other way;
* hub membership only changes through attach / register.

(Before the repairs F21 / F22 / F25 this was false on the code: witnesses `silent_replace`,
`update_id_merges`, `rename_of_removed_id`.) -/
theorem messages_exact (probe : List Label) (s : State) (op : Op) (h : Inv s) :
    specStep (obs probe s) op (obs probe (step s op).state) (step s op).msgs (step s op).err = true :=
  Lemmas.C17.messages_exact probe h

/-- **The property along whole histories**: for every history (any length, arbitrary calls),
starting from a fresh dataset, the trace the harness records satisfies `specTrace` — the invariant
on every observation and message exactness at every call. This is the `implok` verdict of the
driver. -/
theorem trace_ok (pool probe : List Label) (ops : List Op) :
    specTrace (obs probe (init pool)) (trace probe (init pool) ops) = true :=
  Lemmas.C17.trace_ok probe ops (Lemmas.C17.inv_init pool)

/-! ## Repaired defects: the model follows the repaired code -/

/-- F13 (fixed): refreshing a 1-d dataset from a 2-d one re-generates the pixel components: the
invariant holds afterwards and the dataset has two pixel ids. -/
example :
    let s := run (init []) [.register, .addArray 1 [3] 10, .updateFrom ⟨0, [(1, 20)], [2, 3], none⟩]
    specInv (obs [1] s) = true ∧ s.pix.length = 2 ∧ s.shape = [2, 3] := by decide

/-- F20–F22 (fixed): in one history, removing a pixel id, adding an array onto a pixel id and
`update_id` onto an id in use are refused and change nothing; adding an array onto an id that names
an array replaces it and announces exactly that. -/
example :
    let s := run (init []) [.register, .addArray 1 [3] 10, .addArray 2 [3] 20]
    cids s.comps = [1, 0, 2] ∧ s.pix = [1] ∧
    (step s (.remove 1)).err = some .value ∧ (step s (.remove 1)).state = s ∧
    (step s (.addArrayAt 1 [3] 30)).err = some .value ∧
    (step s (.updateId 0 2)).err = some .value ∧ (step s (.updateId 0 2)).state = s ∧
    (step s (.addArrayAt 0 [3] 30)).msgs = [.numerical (some [0])] ∧
    cids (step s (.addArrayAt 0 [3] 30)).state.comps = [1, 0, 2] := by decide

/-! ## Witnesses of the behaviour before the repairs F20–F23, F25 (`stepUnrepaired`): each violates
the Spec, and the repaired `step` satisfies it on the same input -/

/-- F20 (fixed): `remove_component` on a pixel id used to leave it listed in `pixel_component_ids`
although it was no longer a component — the invariant failed on the observation. The repaired call
is refused and changes nothing. -/
theorem remove_coordinate_breaks :
    let s := run (init []) [.addArray 1 [3] 10]
    s.pix = [1] ∧
    specInv (obs [] (stepUnrepaired s (.remove 1)).state) = false ∧
    (step s (.remove 1)).err = some .value ∧
    specInv (obs [] (step s (.remove 1)).state) = true := by decide

/-- F21 (fixed): `add_component` with an id that is already a key used to replace the stored array
and announce nothing: `specStep` rejects that (with a hub). The repaired call announces
`NumericalDataChanged([id])` and `specStep` holds. -/
theorem silent_replace :
    let s := run (init []) [.register, .addArray 1 [3] 10]
    let op := Op.addArrayAt 0 [3] 20
    (stepUnrepaired s op).msgs = [] ∧
    (stepUnrepaired s op).state = (step s op).state ∧
    specStep (obs [] s) op (obs [] (stepUnrepaired s op).state) (stepUnrepaired s op).msgs
      (stepUnrepaired s op).err = false ∧
    (step s op).msgs = [.numerical (some [0])] ∧
    specStep (obs [] s) op (obs [] (step s op).state) (step s op).msgs (step s op).err = true := by decide

/-- F22 (fixed): `update_id(old, new)` with `new` already a component used to merge the two
dictionary keys: one component disappeared, announced only as a replacement that the replay cannot
apply. The repaired call is refused and changes nothing. -/
theorem update_id_merges :
    let s := run (init []) [.register, .addArray 1 [3] 10, .addArray 2 [3] 20]
    let op := Op.updateId 0 2
    cids s.comps = [1, 0, 2] ∧
    cids (stepUnrepaired s op).state.comps = [1, 2] ∧
    specStep (obs [] s) op (obs [] (stepUnrepaired s op).state) (stepUnrepaired s op).msgs
      (stepUnrepaired s op).err = false ∧
    (step s op).err = some .value ∧
    specStep (obs [] s) op (obs [] (step s op).state) (step s op).msgs (step s op).err = true := by decide

/-- F23 (fixed): a dataset of 0-d arrays used to accept an array of any shape: `_shape` became that
shape while the 0-d components stayed and no pixel component was generated — the invariant failed.
The repaired call is refused and changes nothing. -/
theorem scalar_dataset_breaks :
    let s := run (init []) [.addArray 1 [] 10]
    let op := Op.addArray 2 [3] 20
    s.shape = [] ∧ cids s.comps = [0] ∧
    (stepUnrepaired s op).err = none ∧ (stepUnrepaired s op).state.shape = [3] ∧
    (stepUnrepaired s op).state.pix = [] ∧
    specInv (obs [] (stepUnrepaired s op).state) = false ∧
    (step s op).err = some .value ∧ (step s op).state = s ∧
    specInv (obs [] (step s op).state) = true := by decide

/-- F25 (fixed): `ComponentID.label = …` used to tell the hub of the id's *parent* even when the id
was no longer one of its components (removed, or replaced by `update_id`): `specStep` rejects a
`DataRenameComponent` for an identifier that is not a component; the repaired setter only changes the
label, and `specStep` holds. -/
theorem rename_of_removed_id :
    let s := run (init [1]) [.register, .addArrayAt 0 [3] 10, .remove 0]
    let op := Op.rename 0 2
    cids s.comps = [1] ∧ (step s op).msgs = [] ∧ (step s op).state.label 0 = 2 ∧
    specStep (obs [] s) op (obs [] (step s op).state) [.rename 0] none = false ∧
    specStep (obs [] s) op (obs [] (step s op).state) (step s op).msgs (step s op).err = true := by decide

end GlueVerif.C17
