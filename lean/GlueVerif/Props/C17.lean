import GlueVerif.Model.DataStruct
namespace GlueVerif.C17
open GlueVerif.DataStruct

end GlueVerif.C17
