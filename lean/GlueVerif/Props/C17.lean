import GlueVerif.Lemmas.C17Refresh
/-!
# C17 — a dataset stays structurally consistent and announces every structural change

Property theorems only; helper lemmas live in `GlueVerif.Lemmas.C17*`. Every statement is about the
executable definitions of `GlueVerif.Model.DataStruct` that the driver `Drivers/C17.lean` runs
against `glue/core/data.py` on every check: `step` (one call of the mutation API, with the repairs
F13/F16/F17/F18/F19 of `props.d/C17/fixes`), `obs` (what the harness reads off the real object),
`specInv` / `specStep` / `specTrace` (the predicates the driver evaluates on the *implementation's*
observations), `classify` (which calls the theorems cover).
-/
namespace GlueVerif.C17
open GlueVerif.DataStruct

/-- A fresh `Data()` (with any pool of free-standing ids) satisfies the invariant. -/
theorem inv_init (pool : List Label) : Inv (init pool) := Lemmas.C17.inv_init pool

/-- The state invariant implies the structural property on everything the harness can observe:
unique ids, all components have the dataset's shape, one pixel attribute per dimension, one world
attribute per dimension iff coordinates are set, two pixel↔world links per dimension iff coordinates
are set, and `find_component_id` answers every probe label with the unique match of the first tier
(main, derived, coordinate, linked) that contains the label, or nothing. -/
theorem inv_spec (probe : List Label) (s : State) (h : Inv s) : specInv (obs probe s) = true :=
  Lemmas.C17.inv_specInv probe s h

/-- Lookup by name, for every state (no invariant needed): the answer is the unique match of the
first tier that has a match, and nothing if that tier has several or no tier has any. -/
theorem find_spec (probe : List Label) (s : State) (l : Label) :
    findOk (tiersOf (obs probe s)) l (findImpl s l) = true :=
  Lemmas.C17.find_spec probe s l

/-- **One call preserves the invariant** — for every state and every call of the mutation API with
arbitrary arguments (valid or invalid: wrong shapes, absent ids, non-permutations, duplicate labels,
…) that lies inside the hypothesis `classify s op = ok`. Outside lie exactly the constructs listed
in `Construct` (the first three are known findings F20–F22, witnessed below).

Full statement (false on the code as it is, see the witnesses):
`∀ s op, Inv s → Inv (step s op).state`. -/
theorem step_inv_partial (s : State) (op : Op) (h : Inv s) (hc : classify s op = .ok) :
    Inv (step s op).state :=
  Lemmas.C17.step_inv h hc

/-- **Every reachable state satisfies the invariant**: induction over all histories, of any length,
whose calls stay inside the hypothesis. -/
theorem inv_reachable_partial (pool : List Label) (ops : List Op) (hok : allOk (init pool) ops = true) :
    Inv (run (init pool) ops) :=
  Lemmas.C17.inv_run ops (Lemmas.C17.inv_init pool) hok

/-- The hypothesis is satisfiable by a history that exercises additions (first component: pixel and
world components are generated), a derived component, a refresh from a dataset with another number
of dimensions (F13), a re-identification, a removal with its cascade, and invalid calls. -/
example : allOk (init [1, 2, 1, 5])
    [.register, .setCoords (some 7), .addArray 1 [3] 10, .addDerived true 3 [6], .addArray 2 [4] 20,
     .updateFrom ⟨1, [(1, 30), (2, 31)], [2, 2], some 8⟩, .updateId 6 0, .reorder [0, 6],
     .remove 0, .updateComponents [(0, [2, 2], 1)]] = true := by decide

end GlueVerif.C17
