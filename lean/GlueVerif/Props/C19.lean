import GlueVerif.Lemmas.Export
/-!
# C19 — exported data files load back to the same table or image

Property theorems only; helper lemmas live in `GlueVerif.Lemmas.Export`.  Every statement is about
the executable definitions in `GlueVerif.Model.Export` that the driver `Drivers/C19.lean` runs
against glue's exporters / data factories on every check:

* `roundTrip fmt d sel comps` (**Impl**) — `fmt`'s writer (`data_to_astropy_table`, `hdf5_writer`,
  `fits_writer` as coded: export plan, row selection, fill by dtype kind, ASCII encoding, BLANK),
  the format's channel, `load_data`'s reader (`astropy_tabular_data` masked fill, `fits_reader`,
  `hdf5_reader`) and `Component.autotyped`;
* `specOk fmt d sel comps out` (**Spec**) — the very predicate the driver evaluates on the
  *implementation's* output: every exported component, under the representable name, in the same
  order, with the same values on the selected rows / masked pixels;
* `inQuantifier` — the property's quantifier as a decidable predicate; `inDomain` = quantifier
  minus the known finding F6 (`blankClause`).

The codecs (astropy, h5py, pandas) are not modelled: a format is a channel `List FCol → List RCol`
and the theorems hold for **every** channel that honours the stated contract `faithful`.
-/
namespace GlueVerif.C19
open GlueVerif.Export GlueVerif.Export.Lemmas

/-! ## The round trip -/

/-- **Under the channel contract, load (export d sel) = the exported components, in order, with the
selected rows / masked pixels** — for every format, every dataset, every selection and every
`components=` filter in the quantifier, and for *every* channel `ch` (codec) that returns each
written column faithfully (`faithful`: representable name, same shape, the represented values
with nothing missing, text stays text). -/
theorem export_import_channel (ch : List FCol → List RCol) (fmt : Format) (d : Dataset)
    (sel : Option (List Bool)) (comps : Option (List Nat))
    (hP : inDomain fmt d sel comps = true)
    (hch : allPairs (faithful fmt) (exportFile fmt d sel comps) (ch (exportFile fmt d sel comps)) = true) :
    ∃ out, roundTripVia ch fmt d sel comps = .ok out ∧ specOk fmt d sel comps out = true :=
  roundTripVia_spec ch fmt d sel comps hP hch

/-- The concrete channels the driver runs (the contract for FITS / VOTable / HDF5; the ASCII
readers' "empty field = missing value" and column type inference for CSV / IPAC / LaTeX) honour
the contract on every file the quantifier admits. -/
theorem channels_honour_contract (fmt : Format) (d : Dataset) (sel : Option (List Bool))
    (comps : Option (List Nat)) (hP : inDomain fmt d sel comps = true) :
    allPairs (faithful fmt) (exportFile fmt d sel comps)
      (channelOf fmt (exportFile fmt d sel comps)) = true :=
  channelOf_faithful fmt d sel comps hP

/-- **Tables (and HDF5 images): full on the property's quantifier.**  For the six writers other
than gridded FITS — CSV, IPAC, LaTeX, VO table, FITS table, HDF5 — every dataset / subset in the
quantifier loads back (no error) to a result the Spec accepts.  This is the form the driver
evaluates as `implok`. -/
theorem export_import_table (fmt : Format) (d : Dataset) (sel : Option (List Bool))
    (comps : Option (List Nat)) (hf : fmt ≠ .fitsImage)
    (hQ : inQuantifier fmt d sel comps = true) :
    ∃ out, roundTrip fmt d sel comps = .ok out ∧ specOk fmt d sel comps out = true := by
  apply roundTrip_spec
  simp [inDomain, hQ, blankClause_of_not_image fmt d sel comps hf]

/- Full statement for gridded FITS (false on the unchanged tree, finding F6):
     inQuantifier .fitsImage d sel comps = true →
       ∃ out, roundTrip .fitsImage d sel comps = .ok out ∧ specOk .fitsImage d sel comps out = true
   What is missing: for a *subset* of an integer image `fits_writer` marks the other pixels with
   BLANK = iinfo.min, and the image then comes back as float64 — a selected pixel equal to
   iinfo.min reads NaN, and |v| > 2^53 is rounded (`fitsImage_blank_witness`). -/

/-- **Gridded FITS: partial.**  Inside `blankClause` (whole-dataset export, or every selected
integer pixel ≠ iinfo.min and |v| ≤ 2^53) the round trip satisfies the Spec. -/
theorem export_import_fitsImage_partial (d : Dataset) (sel : Option (List Bool))
    (comps : Option (List Nat)) (hQ : inQuantifier .fitsImage d sel comps = true)
    (hB : blankClause .fitsImage d sel comps = true) :
    ∃ out, roundTrip .fitsImage d sel comps = .ok out ∧ specOk .fitsImage d sel comps out = true := by
  apply roundTrip_spec
  simp [inDomain, hQ, hB]

/-! ## Rows, order, pixels -/

/-- **A subset exports exactly the selected rows**: `values[mask]` is the sub-list of rows whose
mask entry is true, in order, and there are `countTrue mask` of them. -/
theorem subset_rows_exact {α : Type} (m : List Bool) (xs : List α) (h : m.length = xs.length) :
    selectRows m xs = ((m.zip xs).filter (·.1)).map (·.2) ∧
    (selectRows m xs).length = countTrue m :=
  ⟨selectRows_eq_filter m xs, selectRows_length m xs h⟩

/-- **Export order**: the plan is the requested non-derived components followed by the requested
derived components; each part keeps the dataset's order (`Sublist`); a component is exported iff it
is requested (`components=None` requests everything), whatever the order of the `components` list. -/
theorem export_order (d : Dataset) (comps : Option (List Nat)) :
    plan d comps = planPart d comps false ++ planPart d comps true ∧
    (planPart d comps false).Sublist d.cols ∧ (planPart d comps true).Sublist d.cols ∧
    (∀ c ∈ planPart d comps false, c.derived = false) ∧ (∀ c ∈ planPart d comps true, c.derived = true) ∧
    (∀ c, c ∈ plan d comps ↔ ∃ i, d.cols[i]? = some c ∧ requested comps i = true) :=
  ⟨plan_eq_parts d comps, planPart_sublist d comps false, planPart_sublist d comps true,
   planPart_derived d comps false, planPart_derived d comps true, mem_plan_iff d comps⟩

theorem export_order_filter_is_a_set (d : Dataset) (cs cs' : List Nat)
    (h : ∀ i, cs.contains i = cs'.contains i) : plan d (some cs) = plan d (some cs') :=
  plan_congr d cs cs' h

/-- **Images: masked pixels keep their values, all others get the fill** — pointwise form of what
the Spec demands of an n-d component (and of any component written by gridded FITS). -/
theorem image_mask_fill (fmt : Format) (d : Dataset) (m : List Bool) (c : Column)
    (hrow : rowMode fmt d = false) (hlen : m.length = c.cells.length) (hf : fmt ≠ .hdf5)
    (i : Nat) (hi : i < c.cells.length) :
    (expCol fmt d (some m) c).cells[i]? =
      some (if m[i]'(by omega) then c.cells[i] else fillOf fmt c.kind) := by
  have hl := fillMask_length (fillOf fmt c.kind) m c.cells hlen
  have := fillMask_getElem (fillOf fmt c.kind) m c.cells hlen i hi
  simp only [expCol, hrow, hf, if_false, Bool.false_eq_true]
  rw [List.getElem?_eq_getElem (by rw [hl]; exact hi), this]

/-! ## `Component.autotyped` -/

/-- **Clearly numeric / clearly non-numeric columns keep their kind and their values**: a numeric
dtype is never made categorical; a text column none of whose entries reads as a finite number
stays categorical (if it has rows) with its values untouched. -/
theorem autotyped_stable (n : Str) (k : Kind) (cells : List Cell)
    (h : k = .str → ∀ c ∈ cells, nonNumericCell c = true) :
    (autotyped n k cells).name = n ∧ (autotyped n k cells).cells = cells ∧
    (cells ≠ [] → (autotyped n k cells).cat = decide (k = .str)) :=
  ⟨autotyped_name n k cells, autotyped_stable_aux n k cells h⟩

/-- **Exactly when the kind flips**: a text column stays categorical iff it has rows and at most
half of them read as finite numbers (`np.isfinite(coerce_numeric(data)).mean() <= 0.5`). -/
theorem autotyped_flips_iff (n : Str) (cells : List Cell) :
    (autotyped n .str cells).cat = true ↔ cells ≠ [] ∧ 2 * finiteCount cells ≤ cells.length := by
  unfold autotyped
  by_cases h : cells.length ≠ 0 ∧ 2 * finiteCount cells ≤ cells.length
  · simp only [if_pos h, true_iff]
    exact ⟨by intro he; simp [he] at h, h.2⟩
  · simp only [if_neg h, Bool.false_eq_true, false_iff]
    intro h'
    exact h ⟨by simpa using h'.1, h'.2⟩

/-- A text column whose every entry reads as a number comes back *numeric* (outside the
property's quantifier: "clearly non-numeric string columns"). -/
theorem autotyped_numeric_text_flips (n : Str) (cells : List Cell) (hne : cells ≠ [])
    (h : ∀ c ∈ cells, numericCell c = true) :
    (autotyped n .str cells).cat = false ∧ (autotyped n .str cells).cells = cells.map coerce :=
  autotyped_numeric_text n cells hne h

/-! ## Storage layout and chained round trips (round 2) -/

/-- **The round trip depends on the values only, not on how they are stored.**  Two stored
datasets with the same values — whatever the byte order, strides, C / Fortran order, writeability,
alignment or text item type of each component — have the same model round trip, lie in the
quantifier together, and the Spec accepts exactly the same loaded results for both.  (The driver
runs `roundTripStored` / `specOkStored` on the layout-tagged case the harness built; a real
exporter whose file depends on the layout therefore fails comparison (a) and, inside the
quantifier, the Spec.) -/
theorem layout_irrelevant (fmt : Format) (a b : StoredDataset) (sel : Option (List Bool))
    (comps : Option (List Nat)) (h : a.values = b.values) :
    roundTripStored fmt a sel comps = roundTripStored fmt b sel comps ∧
    inQuantifierStored fmt a sel comps = inQuantifierStored fmt b sel comps ∧
    inDomainStored fmt a sel comps = inDomainStored fmt b sel comps ∧
    ∀ out, specOkStored fmt a sel comps out = specOkStored fmt b sel comps out := by
  simp only [roundTripStored, inQuantifierStored, inDomainStored, specOkStored, h, and_self, implies_true]

/-- Re-storing every component under another layout does not change the values … -/
theorem relayout_values (f : Layout → Layout) (s : StoredDataset) :
    (s.relayout f).values = s.values := by
  simp [StoredDataset.relayout, StoredDataset.values, List.map_map, Function.comp_def]

/-- … so **export ∘ import of the re-stored dataset is accepted by the Spec of the original**, for
every format, every re-layout `f`, every selection and filter in `P` (gridded FITS: inside
`blankClause`, as in `export_import_fitsImage_partial`; all other formats: the whole quantifier). -/
theorem export_import_any_layout (fmt : Format) (s : StoredDataset) (f : Layout → Layout)
    (sel : Option (List Bool)) (comps : Option (List Nat))
    (hP : inDomainStored fmt s sel comps = true) :
    ∃ out, roundTripStored fmt (s.relayout f) sel comps = .ok out ∧
      specOkStored fmt s sel comps out = true := by
  simp only [roundTripStored, specOkStored, relayout_values]
  exact roundTrip_spec fmt s.values sel comps hP

/-- Re-creating every component object (and the `Data` object) in another state does not change
the values … -/
theorem restate_values (g : Nat → CompState → CompState) (h : DataState → DataState)
    (s : StoredDataset) : (s.restate g h).values = s.values := by
  simp only [StoredDataset.restate, StoredDataset.values, List.map_map, Function.comp_def,
    Dataset.mk.injEq, true_and]
  exact zipIdx_map_fst s.cols (·.col)

/-- **The round trip depends on the values only, not on the state of the objects that hold them.**
Whatever is done to the component objects — display jitter switched on (so that `codes` is no
longer an index), an explicit unsorted `categories=` list with unused entries, units, a rename after
creation, a derived component fed by another (stateful) component instead of the pixel grid — and
to the `Data` object — its label, the `np.random` state it was built under, a session save /
restore, a WCS, further components that are not requested —: the model round trip, the quantifier,
the domain and the set of results the Spec accepts are unchanged, and inside `P` the round trip of
the re-stated dataset is accepted by the Spec *of the original*.  (The driver runs
`roundTripStored` / `specOkStored` on the state-tagged case the harness built; a real exporter that
reads object state instead of `data[cid]` / `cid.label` therefore fails comparison (a) and, inside
the quantifier, the Spec — a state-dependent export is a violation by definition.) -/
theorem component_state_irrelevant (fmt : Format) (s : StoredDataset)
    (g : Nat → CompState → CompState) (h : DataState → DataState)
    (sel : Option (List Bool)) (comps : Option (List Nat)) :
    roundTripStored fmt (s.restate g h) sel comps = roundTripStored fmt s sel comps ∧
    inQuantifierStored fmt (s.restate g h) sel comps = inQuantifierStored fmt s sel comps ∧
    inDomainStored fmt (s.restate g h) sel comps = inDomainStored fmt s sel comps ∧
    (∀ out, specOkStored fmt (s.restate g h) sel comps out = specOkStored fmt s sel comps out) ∧
    (inDomainStored fmt s sel comps = true →
      ∃ out, roundTripStored fmt (s.restate g h) sel comps = .ok out ∧
        specOkStored fmt s sel comps out = true) := by
  simp only [roundTripStored, inQuantifierStored, inDomainStored, specOkStored, restate_values,
    implies_true, true_and]
  exact roundTrip_spec fmt s.values sel comps

/-- **Chained round trips** (`export A → load → export B → load`, e.g. FITS → HDF5): if the first
hop is in `P`, it loads to at least one dataset that the Spec accepts, and for *every* dtype kinds
the first reader may have chosen such that the loaded dataset is again in `P` for `B`, the second
hop loads (no error) to a result the Spec accepts for that loaded dataset. -/
theorem export_import_chain (fmtA fmtB : Format) (d : Dataset) (kinds : List Kind)
    (sel : Option (List Bool)) (comps : Option (List Nat))
    (hA : inDomain fmtA d none none = true) :
    ∃ out1, roundTrip fmtA d none none = .ok out1 ∧ specOk fmtA d none none out1 = true ∧
      ∀ d1 r2, secondHop fmtB out1 kinds sel comps = some (d1, r2) →
        inDomain fmtB d1 sel comps = true →
        ∃ out2, r2 = .ok out2 ∧ specOk fmtB d1 sel comps out2 = true := by
  obtain ⟨out1, h1, hs1⟩ := roundTrip_spec fmtA d none none hA
  refine ⟨out1, h1, hs1, ?_⟩
  intro d1 r2 h2 hB
  cases out1 with
  | nil => simp [secondHop] at h2
  | cons ld rest =>
    simp only [secondHop, Option.some.injEq, Prod.mk.injEq] at h2
    obtain ⟨rfl, rfl⟩ := h2
    exact roundTrip_spec fmtB _ sel comps hB

/-! ## Non-vacuity and witnesses -/

/-- a 3-row table: float (with NaN), int32, text; names `x`, `Flux`, `m` -/
def tbl : Dataset := ⟨[3],
  [⟨[120], .float, false, [.num (3/2), .nan, .num (-9/4)]⟩,
   ⟨[70, 108, 117, 120], .int 32, false, [.num 1, .num (-2), .num 7]⟩,
   ⟨[109], .str, false, [.str [97, 98], .str [113, 32, 114], .str [120, 49]]⟩]⟩

example : inQuantifier .csv tbl (some [true, false, true]) none = true := by decide +kernel
example : inQuantifier .fitsTable tbl (some [false, false, false]) (some [2, 0]) = true := by decide +kernel
example : inQuantifier .hdf5 tbl none none = true := by decide +kernel

/-- a 2×2 image: int16 and uint8 -/
def img : Dataset := ⟨[2, 2],
  [⟨[105, 109], .int 16, false, [.num 0, .num 5, .num (-3), .num 7]⟩,
   ⟨[117], .uint 8, false, [.num 0, .num 255, .num 1, .num 2]⟩]⟩

example : inDomain .fitsImage img (some [true, false, false, true]) none = true := by decide +kernel
example : inDomain .hdf5 img (some [true, false, false, true]) none = true := by decide +kernel

example : (roundTrip .fitsImage img (some [true, false, false, true]) none).toOption =
    some [⟨[2, 2], [⟨[73, 77], false, 102, [.num 0, .nan, .nan, .num 7]⟩]⟩,
         ⟨[2, 2], [⟨[85], false, 102, [.num 0, .nan, .nan, .num 2]⟩]⟩] := by decide +kernel

/-- **Finding F6 (known)** — inside the quantifier, outside `blankClause`: an int16 image whose
selected pixel equals `iinfo(int16).min` comes back NaN there (BLANK), so the Spec rejects the
model's (= the code's) output. -/
def imgMin : Dataset := ⟨[2], [⟨[105, 109], .int 16, false, [.num (-32768), .num 5]⟩]⟩

theorem fitsImage_blank_witness :
    inQuantifier .fitsImage imgMin (some [true, true]) none = true ∧
    blankClause .fitsImage imgMin (some [true, true]) none = false ∧
    (roundTrip .fitsImage imgMin (some [true, true]) none).toOption =
      some [⟨[2], [⟨[73, 77], false, 102, [.nan, .num 5]⟩]⟩] ∧
    specOk .fitsImage imgMin (some [true, true]) none
      [⟨[2], [⟨[73, 77], false, 102, [.nan, .num 5]⟩]⟩] = false := by decide +kernel

/-- … and an int64 pixel beyond 2^53 is rounded by the BLANK → float64 conversion. -/
theorem fitsImage_int64_witness :
    roundF64 (2 ^ 53 + 1) = 2 ^ 53 ∧ roundF64 (2 ^ 53 + 3) = 2 ^ 53 + 4 ∧
    blankSafe (.int 64) (.num (2 ^ 53 + 1)) = false := by decide +kernel

/-- Outside the quantifier ("clearly non-numeric string columns"): a text column `['1','2','x']`
written to a VO table comes back as the *numeric* column `[1, 2, NaN]` — `autotyped`'s doing. -/
theorem autotyped_flip_witness :
    (roundTrip .votable ⟨[3], [⟨[115], .str, false, [.str [49], .str [50], .str [120]]⟩]⟩ none none).toOption =
      some [⟨[3], [⟨[115], false, 102, [.num 1, .num 2, .nan]⟩]⟩] := by decide +kernel

/-- Outside the quantifier (CSV cannot tell an empty text from a missing value): `['', 'abc']`
comes back as `['nan', 'abc']` — the masked fill stores the *text* `nan` (cut to the column's
item size: `['', 'ab']` gives `['na', 'ab']`); a column of empty texts comes back as the number −1. -/
theorem ascii_empty_text_witness :
    (roundTrip .csv ⟨[2], [⟨[115], .str, false, [.str [], .str [97, 98, 99]]⟩]⟩ none none).toOption =
      some [⟨[2], [⟨[115], true, 115, [.str [110, 97, 110], .str [97, 98, 99]]⟩]⟩] ∧
    (roundTrip .csv ⟨[2], [⟨[115], .str, false, [.str [], .str [97, 98]]⟩]⟩ none none).toOption =
      some [⟨[2], [⟨[115], true, 115, [.str [110, 97], .str [97, 98]]⟩]⟩] ∧
    (roundTrip .csv ⟨[1], [⟨[115], .str, false, [.str []]⟩]⟩ none none).toOption =
      some [⟨[1], [⟨[115], false, 105, [.num (-1)]⟩]⟩] := by decide +kernel

/-- Not a violation of the property as stated, but worth knowing: HDF5 blanks integer pixels with
`0`, so the selection is not recoverable from the file — two different (image, subset) pairs are
written identically. -/
theorem hdf5_zero_fill_ambiguous :
    exportFile .hdf5 ⟨[2, 1], [⟨[105], .int 32, false, [.num 0, .num 5]⟩]⟩ (some [true, true]) none =
    exportFile .hdf5 ⟨[2, 1], [⟨[105], .int 32, false, [.num 7, .num 5]⟩]⟩ (some [false, true]) none := by
  decide +kernel

/-- the table `tbl` stored big-endian / strided / as an object array … -/
def tblStored : StoredDataset :=
  ⟨[3], (tbl.cols.zip [.swapped, .strided, .object]).map fun p => ⟨p.1, p.2, {}⟩, {}⟩

/-- … and held by objects in a non-trivial state: units on the first component, the text component
jittered with an explicit category list and renamed, the `Data` restored from a session under the
label `a/b`: same values, same quantifier, and the states really are there. -/
def tblStated : StoredDataset :=
  tblStored.restate
    (fun i st => if i = 2 then { jitter := true, cats := some 1, oldName := some [116] }
      else if i = 0 then { st with units := some [107, 109] } else st)
    (fun st => { st with label := [97, 47, 98], restored := true, seed := 7 })

example : tblStated.values.cols = tbl.cols ∧ tblStated.stateful = true ∧ tblStored.stateful = false ∧
    tblStated.cols.map (·.state.jitter) = [false, false, true] ∧
    inDomainStored .csv tblStated (some [true, false, true]) none = true := by decide +kernel

example : inDomainStored .hdf5 tblStored (some [true, false, true]) none = true := by decide +kernel
example : (tblStored.relayout fun _ => .fitslike).values.cols = tbl.cols ∧
    (tblStored.relayout fun _ => .fitslike).cols.map (·.layout) = [.fitslike, .fitslike, .fitslike] := by
  decide +kernel

/-- a chain in `P` at both hops: `tbl` → FITS table → (int32 stays int32) → HDF5 subset -/
example : inDomain .fitsTable tbl none none = true ∧
    (∃ out1 d1 r2, roundTrip .fitsTable tbl none none = .ok out1 ∧
      secondHop .hdf5 out1 [.float, .int 32, .str] (some [true, false, true]) none = some (d1, r2) ∧
      inDomain .hdf5 d1 (some [true, false, true]) none = true) := by
  refine ⟨by decide +kernel, ?_⟩
  refine ⟨_, _, _, rfl, rfl, by decide +kernel⟩

/-- Every registered exporter the model knows is mapped to a format. -/
example : knownExporters.length = 7 := by decide

end GlueVerif.C19
