import GlueVerif.Model.Export
namespace GlueVerif.C19
open GlueVerif.Export
end GlueVerif.C19
