import GlueVerif.Lemmas.C12Registry
import GlueVerif.Lemmas.Versioned
import GlueVerif.Lemmas.C12Records
import GlueVerif.Generated.C12Tables
/-!
# C12 — every serialisation protocol version ever registered still loads what it saved

Property theorems only; helper lemmas live in `GlueVerif.Lemmas.C12Registry` / `.Versioned`.

Three groups:

* **`VersionedDict`** (`Model/Versioned.lean`): unbounded theorems over *all* operation sequences.
* **Generated tables** (`Generated/C12Tables.lean`, rewritten by `harness/translate/c12.py` from the
  tree under test before every build): the saver/loader registries, `PATH_PATCHES`, the class table.
  Each statement is a readable `∀ … ∈ table` proposition obtained from a Bool checker through a
  proved lifting lemma; the checker itself is evaluated by the kernel (`decide +kernel`).  A change
  to `state.py` / `state_path_patches.txt` / the class tree that breaks one of them makes this file
  fail to compile, which the harness reports as a broken proof obligation.
* **Chase loop**: generic facts about `while name in PATH_PATCHES: name = PATH_PATCHES[name]`
  (for every table), instantiated at the generated one.

The driver `Drivers/C12.lean` evaluates the same definitions (`chase`, `Spec.outs`, `isLiveWritten`,
`knownCaptured`, the generated tables) against the running implementation.
-/
namespace GlueVerif.C12
open GlueVerif.Versioned GlueVerif.Generated.C12

/-! ## VersionedDict: all operation sequences -/

/-- **Invariant.** After *any* sequence of operations on a fresh `VersionedDict` (sets with any
version — negative, zero, skipping, repeated, non-integer —, malformed keys, lookups, deletions),
every stored key owns a non-empty dict whose version keys are exactly `1, 2, …, n` in insertion
order: `(i+1)`-th stored version is `i+1`. -/
theorem versioned_inv (ops : List Op) (k : String) (vs : Versions)
    (h : dget (Impl.run ops) k = some vs) :
    vs ≠ [] ∧ ∀ (i : Nat) (hi : i < vs.length), (vs[i]'hi).1 = (i : Int) + 1 := by
  obtain ⟨hne, hk⟩ := Versioned.Lemmas.inv_run ops k vs h
  refine ⟨hne, fun i hi => ?_⟩
  have := Versioned.Lemmas.keysFrom_getElem 1 vs hk i hi
  omega

/-- **Sets.** In any reachable state, `d[k, v] = x` succeeds **iff** `v` is exactly one more than
the number of versions stored for `k` (so: version 1 for a new key); `v < 1` raises `ValueError`,
every other `v` (an existing version, or one that skips) raises `KeyError`; a refused set leaves
the state untouched (in particular it creates no empty entry for a new key). -/
theorem versioned_set (ops : List Op) (k : String) (v x : Int) :
    let d := Impl.run ops
    let n : Int := ((dget d k).getD []).length
    Impl.set d k (some v) x =
      if v < 1 then (d, .valueError)
      else if v = n + 1 then (dput d k (((dget d k).getD []) ++ [(v, x)]), .done)
      else (d, .keyError) :=
  Versioned.Lemmas.set_eq _ (Versioned.Lemmas.inv_run ops) k v x

/-- **Never overwritten.** A value stored under `(k, v)` after some operations is still stored
under `(k, v)`, unchanged, after any further operations. -/
theorem versioned_never_overwritten (ops more : List Op) (k : String) (v x : Int) (vs : Versions)
    (hd : dget (Impl.run ops) k = some vs) (hv : vget vs v = some x) :
    ∃ vs', dget (Impl.run (ops ++ more)) k = some vs' ∧ vget vs' v = some x := by
  have := Versioned.Lemmas.stored_foldl more (Impl.run ops) (Versioned.Lemmas.inv_run ops) k v x vs hd hv
  simpa [Impl.run, List.foldl_append] using this

/-- **Refinement.** For every operation sequence the outputs of the implementation model are the
outputs of the specification machine (key ↦ list of values; set succeeds only for `n+1`; `d[k]` and
`get_version(k)` return the *last* value, `d[k]` together with `n`). -/
theorem versioned_refines_spec (ops : List Op) : Impl.outs [] ops = Spec.outs [] ops :=
  Versioned.Lemmas.outs_refine ops [] Versioned.Lemmas.inv_nil

/-- **A save uses the newest version.** `GlueSerializer._dispatch` returns `dispatch[typ]`; in any
reachable state `d[k]` is `(value of the highest version, highest version)`, the highest version is
the number of versions stored, and it is the value `get_version(k, n)` returns. -/
theorem save_uses_newest (ops : List Op) (k : String) (vs : Versions)
    (h : dget (Impl.run ops) k = some vs) :
    ∃ x, Impl.getitem (Impl.run ops) k = .pair x vs.length ∧
      (vs.map Prod.snd).getLast? = some x ∧
      Impl.getv (Impl.run ops) k (some vs.length) = .val x ∧
      ∀ v y, vget vs v = some y → v ≤ vs.length := by
  have hinv := Versioned.Lemmas.inv_run ops
  obtain ⟨hne, hk⟩ := hinv k vs h
  obtain ⟨x, hx⟩ := Versioned.Lemmas.last_of_inv hne
  have hmax := Versioned.Lemmas.vmax_keysFrom 1 vs hk hne
  have hlast := Versioned.Lemmas.vget_last 1 vs hk hne
  have e : (1 : Int) + vs.length - 1 = vs.length := by omega
  rw [e] at hmax hlast
  refine ⟨x, ?_, hx, ?_, ?_⟩
  · simp only [Impl.getitem, h, hmax, hlast, hx]
  · simp only [Impl.getv, h, hlast, hx]
  · intro v y hv
    have := (Versioned.Lemmas.vget_isSome_iff 1 vs v hk).mp (by simp [hv])
    omega

/-- The unrepaired `__setitem__` of the pinned tree (finding F-C12a): version 0 is accepted and a
refused assignment leaves an empty entry behind, after which `k in d` is true although `d[k]`
raises. -/
theorem orig_set_violates_inv :
    (Orig.set [] "k" (some 0) 7 = ([("k", [(0, 7)])], .done)) ∧
    (Orig.set [] "k" (some 2) 7 = ([("k", [])], .keyError)) := by decide

example : Impl.outs [] [.set "k" (some 1) 5, .set "k" (some 2) 6, .set "k" (some 2) 9, .set "k" (some 4) 9,
    .set "k" (some 0) 9, .getitem "k", .getv "k" (some 1), .contains "j", .len] =
    [.done, .done, .keyError, .keyError, .valueError, .pair 6 2, .val 5, .bool false, .nat 1] := by decide


/-! ## Record formats: `load_v (save_v x) = project_v x` (model of the saver / loader chains) -/

open Records in
/-- **Data, every protocol 1…5.**  The record the version-`v` saver writes is loaded by the
version-`v` loader (selected through `_protocol`) into exactly the part of the dataset that
protocol `v` carries: label, components, derived components, subsets, coords always; style from 2;
key joins from 3; uuid from 4; meta from 5 — everything else is the constructor default.
Protocol 3 stores one component per join side, hence the hypothesis for `v = 3`. -/
theorem load_v_save_v_data (v : Nat) (hv : 1 ≤ v ∧ v ≤ 5) (d : DataO)
    (hj : v = 3 → ∀ j ∈ d.joins, ∃ a b, j.own = [a] ∧ j.theirs = [b]) :
    ∃ r, saveData v d = some r ∧ loadData r = some (projectData v d) :=
  Records.Lemmas.data_roundtrip v hv d hj

open Records in
/-- **DataCollection, every protocol 1…4 × an independently chosen Data protocol 1…5 for every
dataset.**  For every collection the assignment can represent, saving with those versions succeeds,
the collection record is tagged `cv` and dataset record `i` is tagged `dvs[i]`, and loading returns
`projectDC`: all datasets (each projected to *its own* protocol) *including their derived
components* (protocols ≤ 3 keep a derived component only when its link is among the saved links
that do not cross datasets — it always is), the links between datasets (protocols ≤ 3: every
helper expanded into its `ComponentLink`s, re-classified on load as "some input lives in another
dataset than the output" — single-input, multi-input with all inputs foreign and multi-input with
mixed own / foreign inputs alike; protocol 4: the helpers themselves), the groups (protocol 1: the
plain subsets upgraded to groups on every dataset), the group counter from protocol 3 on. -/
theorem load_v_save_v (cv : Nat) (dvs : List Nat) (hc : 1 ≤ cv ∧ cv ≤ 4)
    (hd : ∀ v ∈ dvs, 1 ≤ v ∧ v ≤ 5) (dc : DCO) (hrep : representable cv dvs dc = true) :
    ∃ r, saveDC cv dvs dc = some r ∧ r.protocol = cv ∧ r.data.map (·.protocol) = dvs ∧
      loadDC r = some (projectDC cv dvs dc) :=
  Records.Lemmas.dc_roundtrip cv dvs hc hd dc (Records.Lemmas.representable_spec cv dvs dc hrep)

open Records in
/-- **One unserializer, any document, any request order: loading is record-wise.**  For every
document `doc` (any number of collection records of any protocols, their dataset records of any
protocols, in any mixture — also records no saver of this tree writes) and every sequence of
`context.object(name)` requests the caller makes before asking for `__main__`, the unserializer
state machine (`_objs` memo, `Unser.run`) returns exactly what loading every record on its own
returns: each record is handed to the loader registered for *that record's* `_type` and
`_protocol` (`loadDC` / `loadData` match on `r.protocol`), whatever was loaded before it. -/
theorem unser_recordwise (doc : Doc) (reqs : List Req) (hv : ∀ q ∈ reqs, q.valid doc) :
    Unser.run doc reqs = doc.mapM loadDC :=
  Records.Lemmas.run_eq_mapM doc reqs hv

open Records in
/-- **Mixed-protocol documents.**  A document is assembled from any number of collections, each
written with its own `DataCollection` protocol `cv` and every dataset with its own `Data` protocol
`dvs[i]` (all registered versions, chosen independently, each assignment representable).  Then every
save succeeds, and a single unserializer — after any valid sequence of earlier requests, in any
order — returns for every collection `projectDC cv dvs dc`: every record written in version `v`'s
format has been loaded by version `v`'s loader, whatever else the document holds. -/
theorem load_doc_mixed (parts : List (Nat × List Nat × DCO))
    (hparts : ∀ p ∈ parts, (1 ≤ p.1 ∧ p.1 ≤ 4) ∧ (∀ v ∈ p.2.1, 1 ≤ v ∧ v ≤ 5) ∧
      representable p.1 p.2.1 p.2.2 = true) :
    ∃ doc, parts.mapM (fun p => saveDC p.1 p.2.1 p.2.2) = some doc ∧
      doc.map (·.protocol) = parts.map (·.1) ∧
      doc.map (fun r => r.data.map (·.protocol)) = parts.map (·.2.1) ∧
      ∀ reqs : List Req, (∀ q ∈ reqs, q.valid doc) →
        Unser.run doc reqs = some (parts.map fun p => projectDC p.1 p.2.1 p.2.2) := by
  obtain ⟨doc, hs, hl⟩ := Records.Lemmas.mapM_roundtrip
    (fun p : Nat × List Nat × DCO => saveDC p.1 p.2.1 p.2.2) loadDC
    (fun p => projectDC p.1 p.2.1 p.2.2) parts
    (fun p hp =>
      let ⟨r, h1, _, _, h4⟩ := load_v_save_v p.1 p.2.1 (hparts p hp).1 (hparts p hp).2.1 p.2.2 (hparts p hp).2.2
      ⟨r, h1, h4⟩)
  refine ⟨doc, hs, ?_, ?_, fun reqs hv => ?_⟩
  · exact Records.Lemmas.mapM_map_eq _ (·.protocol) (·.1) parts doc
      (fun p hp r h => by
        obtain ⟨r', h1, h2, _, _⟩ :=
          load_v_save_v p.1 p.2.1 (hparts p hp).1 (hparts p hp).2.1 p.2.2 (hparts p hp).2.2
        rw [h1] at h; cases h; exact h2) hs
  · exact Records.Lemmas.mapM_map_eq _ (fun r => r.data.map (·.protocol)) (·.2.1) parts doc
      (fun p hp r h => by
        obtain ⟨r', h1, _, h3, _⟩ :=
          load_v_save_v p.1 p.2.1 (hparts p hp).1 (hparts p hp).2.1 p.2.2 (hparts p hp).2.2
        rw [h1] at h; cases h; exact h3) hs
  · rw [unser_recordwise doc reqs hv]; exact hl

open Records in
/-- the newest pair loses nothing but what is not observed: `project` is the identity there -/
theorem newest_is_lossless (dc : DCO) :
    projectDC 4 (List.replicate dc.data.length 5) dc = dc := by
  have h : ∀ ds : List DataO, projectDatas (List.replicate ds.length 5) ds = ds := by
    intro ds
    induction ds with
    | nil => rfl
    | cons d r ih =>
      simp only [projectDatas, List.length_cons, List.replicate_succ, List.zip_cons_cons,
        List.map_cons] at ih ⊢
      rw [ih]
      simp [projectData]
  simp [projectDC, h]

open Records in
-- non-vacuity: a two-dataset collection with a derived component, a group, a key join, an identity
-- helper and a link whose inputs come from both datasets is representable under every assignment,
-- also a mixed one; a two-component join is refused by protocol 3 only; a "link" that stays inside
-- one dataset is not a link between datasets (protocols ≤ 3 would re-classify it)
example :
    let d0 : DataO := ⟨"d0", [⟨"x", .int, [1, 2, 3]⟩], [.dbl "z" "x", .fn1 "t" "twice" "z"],
      [⟨"s", 0, .gt "x" 1, ⟨1, 2, some 3⟩⟩], ⟨1, 7, some 2⟩, [⟨1, ["x"], ["u"]⟩], some 0, [("k", "v")], false⟩
    let d1 : DataO := ⟨"d1", [⟨"u", .int, [2, 3]⟩, ⟨"w", .int, [0, 1]⟩], [], [⟨"s", 0, .gt "x" 1, ⟨1, 2, some 3⟩⟩],
      Style.default, [⟨0, ["u"], ["x"]⟩], some 1, [], true⟩
    let links : List Ext := [.same ⟨0, "x"⟩ ⟨1, "u"⟩, .plain ⟨[⟨1, "u"⟩, ⟨0, "z"⟩], ⟨1, "w"⟩, "add2", none⟩]
    let dc : DCO := ⟨[d0, d1], links, [("s", ⟨1, 2, some 3⟩)], 1⟩
    (representable 3 [3, 3] dc = true) ∧ (representable 4 [5, 5] dc = true) ∧
    (representable 2 [1, 5] dc = true) ∧ (representable 3 [5, 2] dc = true) ∧
    (saveData 3 { d0 with joins := [⟨1, ["x", "x"], ["u", "u"]⟩] } = none) ∧
    (representable 3 [5, 5] { dc with links := [.plain ⟨[⟨1, "u"⟩], ⟨1, "w"⟩, "twice", none⟩] } = false) := by
  decide

/-! ## The chase loop, for every table (names of any type with decidable equality) -/

/-- If the checker accepts a table, `lookup_class_with_patches` terminates **from every start
name** within `|table|` redirections, with the same result as the unbounded loop. -/
theorem chase_terminates_of_check {α : Type} [DecidableEq α] (t : Patches α)
    (h : chaseAll t = true) (name : α) :
    ∃ r, chase t t.length name = some r ∧ Loop t name r ∧ plookup t r = none :=
  Lemmas.chaseAll_terminates h name

/-- … and the table is acyclic: following `k ≥ 1` redirections never leads back. -/
theorem chase_acyclic_of_check {α : Type} [DecidableEq α] (t : Patches α)
    (h : chaseAll t = true) (name : α) (k : Nat) (hk : 0 < k) :
    Lemmas.stepN t k name ≠ some name :=
  Lemmas.chaseAll_acyclic h name k hk

/-- The loop is a function: at most one result. -/
theorem chase_deterministic {α : Type} [DecidableEq α] (t : Patches α) (n r r' : α)
    (h : Loop t n r) (h' : Loop t n r') : r = r' := Lemmas.loop_det h h'

/-- **What the lookup returns after the loop** (every table, every environment `imp` =
"`lookup_class` finds this name"): the patched target whenever it can be imported — exactly what the
loop alone returned before `fix: patch fallback to live class`, so sessions written by old versions
load as before whenever the new location is installed —; otherwise the *original* name if it was
redirected and can still be imported; otherwise `ValueError` about the target.  Nothing else is ever
returned. -/
theorem lookup_fallback_spec {α : Type} [DecidableEq α] (t : Patches α) (imp : α → Bool) (fuel : Nat)
    (name r : α) (hr : chase t fuel name = some r) :
    (imp r = true → lookupWithPatches t imp fuel name = some (.found r) ∧
        Orig.lookupWithPatches t imp fuel name = some (.found r)) ∧
    (imp r = false → r ≠ name → imp name = true → lookupWithPatches t imp fuel name = some (.found name)) ∧
    (imp r = false → (r = name ∨ imp name = false) → lookupWithPatches t imp fuel name = some (.error r)) ∧
    (∀ n, lookupWithPatches t imp fuel name = some (.found n) → imp n = true ∧ (n = r ∨ n = name)) := by
  have hs := Lemmas.finish_spec imp name r
  simp only [lookupWithPatches, Orig.lookupWithPatches, hr, Option.map_some, Option.some.injEq]
  refine ⟨fun h => ⟨hs.1 h, by simp [h]⟩, hs.2.1, hs.2.2, fun n hn => ?_⟩
  unfold finish at hn
  split at hn
  · cases hn; exact ⟨‹_›, Or.inl rfl⟩
  · split at hn
    · cases hn; exact ⟨(‹_ ∧ _›).2, Or.inr rfl⟩
    · cases hn

/-! ## The generated tables of the tree under test

Names are interned by the translator (`names : id ↦ (string, inside "glue.")`); `nameOf`/`inPkg`
read that table.  A name that occurs in no table has no id: for such a start name the loop returns
immediately (`plookup = none`), which is the `∀ name : Nat` below for ids outside the table. -/

/-- the string of an interned name -/
def nameOf (i : Nat) : String := nameOfIn names i
/-- is the interned name inside this package (`glue.…`)? -/
def inPkg (i : Nat) : Bool := inPkgIn names i
/-- `Session` by id -/
def isSaverOnly (i : Nat) : Bool := saverOnly.contains (nameOf i)

/-- Renamed-class redirections terminate: from **every** name the loop of
`lookup_class_with_patches` over this tree's `PATH_PATCHES` stops after at most `|PATH_PATCHES|`
redirections. -/
theorem patches_terminate (name : Nat) :
    ∃ r, chase patches patches.length name = some r ∧ Loop patches name r :=
  have h : chaseAll patches = true := by decide +kernel
  let ⟨r, h1, h2, _⟩ := Lemmas.chaseAll_terminates h name
  ⟨r, h1, h2⟩

/-- No cycle in this tree's table. -/
theorem patches_acyclic (name : Nat) (k : Nat) (hk : 0 < k) :
    Lemmas.stepN patches k name ≠ some name :=
  Lemmas.chaseAll_acyclic (by decide +kernel) name k hk

/-- What the loop returns is never itself a key of the table. -/
theorem patches_fixpoint_not_key (name r : Nat) (h : Loop patches name r) :
    plookup patches r = none := Lemmas.loop_not_key h

/-- The table has no duplicate keys, also not in the text file (a later line would silently
override an earlier one). -/
theorem patch_keys_unique : (patches.map (·.1)).Nodup ∧ patchFileLines = patches.length :=
  ⟨Lemmas.keysNodup_spec (by decide +kernel), by decide +kernel⟩

/-- Redirections that end inside this package end at something `lookup_class` can import. -/
theorem patch_targets_importable (p : Nat × Nat) (hp : p ∈ patches) (r : Nat)
    (hr : chase patches patches.length p.1 = some r) (hin : inPkg r = true) :
    (r, true) ∈ importable :=
  Lemmas.targetsImportable_spec (inPkg := inPkg) (by decide +kernel) p hp r hr hin

/-- **No capture, modulo the known finding F12.**  No key of the table is the `_type` name of a
concrete class that this package still defines and writes — except the names in
`knownCaptured` (= findings.json F12).  Any other captured class makes this theorem fail.

Full statement (false on the pinned tree, witness below):
`∀ p ∈ patches, isLiveWritten liveClasses p.1 = false`. -/
theorem no_capture_partial (p : Nat × Nat) (hp : p ∈ patches)
    (hw : isLiveWritten liveClasses p.1 = true) : nameOf p.1 ∈ knownCaptured :=
  Lemmas.noCaptureExcept_spec (nameOf := nameOf) (by decide +kernel) p hp hw

/-- the lookup terminates for every name in every environment. -/
theorem lookup_with_patches_total (imp : Nat → Bool) (name : Nat) :
    ∃ res, lookupWithPatches patches imp patches.length name = some res :=
  let ⟨r, h, _⟩ := patches_terminate name
  ⟨finish imp name r, by simp [lookupWithPatches, h]⟩

/-- **A captured live class still loads when its new location is not installed** (repair F12b of
finding F12).  For every key of this tree's table that names a concrete class the package still
defines and writes (the captured ones: F12), in every environment `imp` that agrees with what the
translator observed for the names inside the package (`importable`: `lookup_class(name)` un-patched,
on the tree under test): if the patched target cannot be imported (glue_qt is not installed), the
lookup returns **the live class itself** — the class that wrote the record.  (When the target can be
imported the record is still redirected to it: that is the capture F12 keeps reporting.) -/
theorem captured_live_class_still_loads (imp : Nat → Bool) (hag : ∀ e ∈ importable, imp e.1 = e.2)
    (p : Nat × Nat) (hp : p ∈ patches) (hw : isLiveWritten liveClasses p.1 = true)
    (r : Nat) (hr : chase patches patches.length p.1 = some r) (ht : imp r = false) :
    lookupWithPatches patches imp patches.length p.1 = some (.found p.1) :=
  have hc : capturedImportable patches liveClasses importable = true := by decide +kernel
  Lemmas.lookup_falls_back imp _ p.1 r hr (hag _ (Lemmas.capturedImportable_spec hc p hp hw)) ht

/-- Witness for F12 on a frozen excerpt of the pinned tree's table: the two layer-artist classes
are captured (their records are redirected out of the package that wrote them). -/
theorem no_capture_witness_F12 :
    capturedKeys pinnedF12Patches pinnedF12Classes =
      ["glue.viewers.histogram.layer_artist.HistogramLayerArtist",
       "glue.viewers.profile.layer_artist.ProfileLayerArtist"] ∧
    chase pinnedF12Patches pinnedF12Patches.length
        "glue.viewers.histogram.layer_artist.HistogramLayerArtist" =
      some "glue_qt.viewers.histogram.layer_artist.QThreadedHistogramLayerArtist" ∧
    -- glue_qt installed: the record of the live class is redirected (the capture, with and without F12b)
    lookupWithPatches pinnedF12Patches (fun _ => true) pinnedF12Patches.length
        "glue.viewers.histogram.layer_artist.HistogramLayerArtist" =
      some (.found "glue_qt.viewers.histogram.layer_artist.QThreadedHistogramLayerArtist") ∧
    -- glue_qt absent: the pinned tree raised, the repaired lookup returns the live class
    Orig.lookupWithPatches pinnedF12Patches (fun n => inPackage n && !n.startsWith "glue.viewers.histogram.qt")
        pinnedF12Patches.length "glue.viewers.histogram.layer_artist.HistogramLayerArtist" =
      some (.error "glue_qt.viewers.histogram.layer_artist.QThreadedHistogramLayerArtist") ∧
    lookupWithPatches pinnedF12Patches (fun n => inPackage n && !n.startsWith "glue.viewers.histogram.qt")
        pinnedF12Patches.length "glue.viewers.histogram.layer_artist.HistogramLayerArtist" =
      some (.found "glue.viewers.histogram.layer_artist.HistogramLayerArtist") := by
  decide +kernel

/-- Versions are consecutive from 1: every type in either registry stores exactly the version
keys `1, 2, …, n` (`n ≥ 1`), in registration order. -/
theorem registry_consecutive (e : Nat × List Int) (he : e ∈ saverTable ++ loaderTable) :
    ∃ n, 0 < n ∧ e.2 = oneTo n :=
  Lemmas.registryConsecutive_spec (r := saverTable ++ loaderTable) (by decide +kernel) e he

/-- Savers and loaders are registered for the same versions: every type with a loader has a saver
for exactly the same versions, and every type with a saver — except `Session`, whose record is
empty and which the application loader re-creates (`saverOnly`) — has a loader for exactly the
same versions. -/
theorem saver_loader_versions_match :
    (∀ e ∈ loaderTable, rlookup saverTable e.1 = some e.2) ∧
    (∀ e ∈ saverTable, isSaverOnly e.1 = false → rlookup loaderTable e.1 = some e.2) :=
  Lemmas.versionsMatch_spec (by decide +kernel)

/-- On this tree's registry the version a save writes (`max` of the stored versions) is the last
registered one, equals the number of versions, and a loader for it exists. -/
theorem save_uses_newest_table (e : Nat × List Int) (he : e ∈ saverTable) :
    newestVersion e.2 = some (Int.ofNat e.2.length) ∧
    (isSaverOnly e.1 = false → ∃ vs, rlookup loaderTable e.1 = some vs ∧ Int.ofNat e.2.length ∈ vs) :=
  Lemmas.newestIsLast_spec (by decide +kernel) e he

/-- Registry keys are unique (they are dict keys; guards the translator). -/
theorem registry_keys_unique :
    (saverTable.map (·.1)).Nodup ∧ (loaderTable.map (·.1)).Nodup :=
  ⟨Lemmas.keysNodup_spec (by decide +kernel), Lemmas.keysNodup_spec (by decide +kernel)⟩

-- non-vacuity: the tables are not empty and hold multi-version types (stated so that a legitimate
-- new version does not break them); the chase follows two redirections on the excerpt
example : 80 ≤ patches.length ∧ 100 ≤ liveClasses.length ∧ 30 ≤ saverTable.length := by
  decide +kernel
example : (saverTable.any fun e => 5 ≤ e.2.length) = true := by decide +kernel
example : chase pinnedF12Patches pinnedF12Patches.length "glue.core.data.Data" =
    some "glue.core.data.Data" := by decide +kernel

end GlueVerif.C12
