import GlueVerif.Lemmas.C17Msgs
/-!
Helper lemmas for C17, part 5: from state-level facts about one call to `specStep` on the
observations, and those facts for every call (`messagesCore_exact`, `messages_exact`, `trace_ok`).
-/
namespace GlueVerif.Lemmas.C17
open GlueVerif.DataStruct

def oval (x : Comp) : Nat := if x.kind.isMain then x.val else 0

def ocomp (s : State) (x : Comp) : OComp := ⟨x.cid, s.label x.cid, x.kind, compShape s.shape x, oval x⟩

theorem obs_comps (probe : List Label) (s : State) : (obs probe s).comps = s.comps.map (ocomp s) := rfl

theorem lookupComp_obs (probe : List Label) (s : State) (c : Cid) :
    lookupComp (obs probe s) c = (s.comps.find? (fun x => x.cid == c)).map (ocomp s) := by
  simp only [lookupComp, obs_comps, List.find?_map]
  rfl

theorem applyTo_noRepl {m : Msg} (h : ∀ o n, m ≠ .replaced o n) (k : Kind) : m.applyTo k = k := by
  cases m <;> first | rfl | exact absurd rfl (h _ _)

/-- Without a `ComponentReplaced` the class of a component is expected to stay. -/
theorem kindAfter_noRepl : ∀ (ms : List Msg) (k : Kind), (∀ m ∈ ms, ∀ o n, m ≠ .replaced o n) → kindAfter ms k = k
  | [], _, _ => rfl
  | m :: ms, k, h => by
    simp only [kindAfter, List.foldl_cons]
    rw [applyTo_noRepl (h m List.mem_cons_self)]
    exact kindAfter_noRepl ms k (fun m' hm' => h m' (List.mem_cons_of_mem _ hm'))

theorem Eff.noRepl {old : Cid → Prop} {s s' : State} {ms : List Msg} (e : Eff old s s' ms) :
    ∀ m ∈ ms, ∀ o n, m ≠ .replaced o n := by
  intro m hm o n h
  have := e.ar m hm
  rw [h] at this; cases this

/-- State-level facts about one successful call. -/
structure Facts (s s' : State) (op : Op) (ms : List Msg) : Prop where
  hubOp : s'.hub = s.hub ∨ op.isHubOp = true
  quiet : s'.hub = false → ms = []
  rep : s'.hub = true → replay ms (cids s.comps) = some (cids s'.comps)
  order : orderOk op (cids s.comps) (cids s'.comps) = true
  labelOld : ∀ x' ∈ s'.comps, ∀ x ∈ s.comps, x.cid = x'.cid → s'.hub = true →
    ((s.label x'.cid != s'.label x'.cid) = ms.contains (.rename x'.cid))
  labelNew : ∀ x' ∈ s'.comps, x'.cid ∉ cids s.comps → ms.contains (.rename x'.cid) = false
  renamed : ∀ c, Msg.rename c ∈ ms → c ∈ cids s'.comps
  dlabel : s'.hub = true → ((s.dlabel != s'.dlabel) = ms.contains .update)
  values : ∀ x' ∈ s'.comps, ∀ x ∈ s.comps, x.cid = x'.cid → s'.hub = true →
    (kindAfter ms x.kind = x'.kind ∧ compShape s.shape x = compShape s'.shape x' ∧ oval x = oval x') ∨
    numericalCovers ms x'.cid = true
  numOnly : ∀ m ∈ ms, numericalOk (cids s.comps) op m = true
  ext1 : s'.hub = true → s'.inDc = false → Msg.ext ∈ ms → s.linked ≠ s'.linked ∨ op.isLinkOp = true
  ext2 : s'.hub = true → s'.inDc = false → s.linked ≠ s'.linked → Msg.ext ∈ ms

/-- The usual way to establish `Facts.numOnly`: a value-updating call, or no `NumericalDataChanged`. -/
theorem numOnly_of_or {pre : List Cid} {op : Op} {ms : List Msg}
    (h : op.isValueUpdate = true ∨ ∀ m ∈ ms, ∀ cs, m ≠ .numerical cs) :
    ∀ m ∈ ms, numericalOk pre op m = true := by
  intro m hm
  cases m with
  | numerical cs =>
    rcases h with h | h
    · simp [numericalOk, h]
    · exact absurd rfl (h _ hm cs)
  | _ => rfl

theorem find_cid_none {cs : List Comp} {c : Cid} (h : cs.find? (fun x => x.cid == c) = none) : c ∉ cids cs := by
  intro hm
  obtain ⟨x, hx, _, _⟩ := find_cid hm
  rw [h] at hx; cases hx

theorem linked_obs (probe : List Label) (s : State) : (obs probe s).linked.map (·.1) = s.linked := by
  simp [obs, List.map_map, Function.comp_def]

theorem specStep_of_facts (probe : List Label) {s s' : State} {op : Op} {ms : List Msg}
    (f : Facts s s' op ms) : specStep (obs probe s) op (obs probe s') ms none = true := by
  have hhub : (obs probe s').hub = s'.hub := rfl
  have hhub0 : (obs probe s).hub = s.hub := rfl
  simp only [specStep, Option.isSome_none, Bool.false_eq_true, if_false, Bool.and_eq_true, hhub, hhub0,
    ocids_obs, linked_obs]
  refine ⟨⟨⟨⟨⟨⟨⟨⟨⟨⟨?_, ?_⟩, ?_⟩, f.order⟩, ?_⟩, ?_⟩, ?_⟩, ?_⟩, ?_⟩, ?_⟩, ?_⟩
  · rcases f.hubOp with h | h
    · simp [h]
    · simp [h]
  · cases hh : s'.hub
    · simp [f.quiet hh]
    · simp
  · cases hh : s'.hub
    · simp
    · simp [f.rep hh]
  · -- labels
    simp only [labelsOk, obs_comps, List.all_map, List.all_eq_true, Function.comp]
    intro x' hx'
    simp only [ocomp, lookupComp_obs]
    cases hf : s.comps.find? (fun x => x.cid == x'.cid) with
    | none =>
      simp only [Option.map_none]
      rw [f.labelNew x' hx' (find_cid_none hf)]; rfl
    | some x =>
      simp only [Option.map_some, ocomp]
      have hx : x ∈ s.comps := List.mem_of_find?_eq_some hf
      have hxc : x.cid = x'.cid := by simpa using List.find?_some hf
      cases hh : s'.hub
      · simp
      · simp only [Bool.not_true, Bool.false_or, beq_iff_eq]
        rw [hxc]
        exact f.labelOld x' hx' x hx hxc hh
  · simp only [List.all_eq_true]
    intro m hm
    cases m with
    | rename c => simpa using f.renamed c hm
    | _ => rfl
  · cases hh : s'.hub
    · simp
    · simp only [Bool.not_true, Bool.false_or, beq_iff_eq]
      exact f.dlabel hh
  · -- values
    simp only [valuesOk, obs_comps, List.all_map, List.all_eq_true, Function.comp]
    intro x' hx'
    simp only [ocomp, lookupComp_obs]
    cases hf : s.comps.find? (fun x => x.cid == x'.cid) with
    | none => rfl
    | some x =>
      simp only [Option.map_some, ocomp]
      have hx : x ∈ s.comps := List.mem_of_find?_eq_some hf
      have hxc : x.cid = x'.cid := by simpa using List.find?_some hf
      cases hh : s'.hub
      · simp
      · rcases f.values x' hx' x hx hxc hh with ⟨h1, h2, h3⟩ | h
        · simp [h1, h2, h3]
        · simp [h]
  · simp only [List.all_eq_true]
    exact f.numOnly
  · cases hh : s'.hub
    · simp
    · cases hd : s'.inDc
      · have hd' : (obs probe s').inDc = false := hd
        by_cases he : Msg.ext ∈ ms
        · rcases f.ext1 hh hd he with h | h
          · simp [h]
          · simp [h]
        · simp [he]
      · have hd' : (obs probe s').inDc = true := hd
        simp [hd']
  · cases hh : s'.hub
    · simp
    · cases hd : s'.inDc
      · have hd' : (obs probe s').inDc = false := hd
        by_cases hl : s.linked = s'.linked
        · simp [hl]
        · simp [f.ext2 hh hd hl]
      · have hd' : (obs probe s').inDc = true := hd
        simp [hd']


/-! ## facts from the effect of building blocks -/

theorem not_structural_mem {ms : List Msg} (h : ∀ m ∈ ms, Msg.isStructural m = true) {m : Msg}
    (hm : Msg.isStructural m = false) : m ∉ ms := by
  intro hmem
  rw [h m hmem] at hm; cases hm

theorem order_of_form {cur cur' : List Cid} {k : Cid → Bool} {new : List Cid}
    (he : cur' = cur.filter k ++ new) (hdisj : ∀ c ∈ new, c ∉ cur) :
    (cur'.filter cur.contains == cur.filter cur'.contains) = true := by
  simp only [beq_iff_eq]
  have h1 : cur'.filter cur.contains = cur.filter k := by
    rw [he, List.filter_append, List.filter_filter]
    have : new.filter cur.contains = [] := by
      rw [List.filter_eq_nil_iff]
      intro c hc; simpa using hdisj c hc
    rw [this, List.append_nil]
    apply List.filter_congr
    intro x hx
    simp [hx]
  have h2 : cur.filter cur'.contains = cur.filter k := by
    apply List.filter_congr
    intro x hx
    rw [he]
    simp only [List.contains_eq_mem, List.mem_append, List.mem_filter, hx, true_and]
    by_cases hk : k x = true
    · simp [hk]
    · have : x ∉ new := fun hn => hdisj x hn hx
      simp [hk, this]
  rw [h1, h2]

theorem facts_of_eff {s s' : State} {op : Op} {ms : List Msg} (h : Inv s) (old : Cid → Prop)
    (hold : ∀ c ∈ cids s.comps, old c) (e : Eff old s s' ms) (k : Keep old s s')
    (hshape : s'.shape = s.shape ∨ s.comps = [])
    (hop : ∀ a b, orderOk op a b = (b.filter a.contains == a.filter b.contains)) : Facts s s' op ms := by
  have nr : ∀ c, Msg.rename c ∉ ms := fun c => not_structural_mem e.structural rfl
  refine ⟨Or.inl e.hub, ?_, ?_, ?_, ?_, ?_, ?_, ?_, ?_, ?_, ?_, ?_⟩
  · intro hh; exact e.quiet (e.hub ▸ hh)
  · intro hh; exact (e.rep (e.hub ▸ hh)).done
  · rw [hop]
    obtain ⟨kf, new, he, hn⟩ := e.form
    exact order_of_form he (fun c hc hm => hn c hc (hold c hm))
  · intro x' _ x hx hxc _
    rw [e.label _ (hold _ (hxc ▸ List.mem_map.2 ⟨x, hx, rfl⟩))]
    simpa using nr x'.cid
  · intro x' _ _
    simpa using nr x'.cid
  · intro c hc; exact absurd hc (nr c)
  · intro _
    simpa [e.dlabel] using not_structural_mem e.structural (m := .update) rfl
  · intro x' hx' x hx hxc _
    left
    have hx'm : x' ∈ s.comps := k x' hx' (hold _ (hxc ▸ List.mem_map.2 ⟨x, hx, rfl⟩))
    have : x = x' := cid_inj h.nodup hx hx'm hxc
    subst this
    refine ⟨kindAfter_noRepl _ _ e.noRepl, ?_, rfl⟩
    rcases hshape with hs | hs
    · rw [hs]
    · rw [hs] at hx; cases hx
  · apply numOnly_of_or
    right
    intro m hm cs hcs
    subst hcs
    exact not_structural_mem e.structural rfl hm
  · intro _ _ he
    exact absurd he (not_structural_mem e.structural rfl)
  · intro _ _ hl
    exact absurd e.linked.symm hl

/-! ## the simple calls -/

theorem orderOk_default_refl (op : Op) (a : List Cid) (hop : ∀ a b, orderOk op a b = (b.filter a.contains == a.filter b.contains)) :
    orderOk op a a = true := by
  rw [hop]; simp

/-- A call that neither touches the table nor talks to the hub about it. -/
theorem facts_silent {s s' : State} {op : Op} (hnd : (cids s.comps).Nodup) (hc : s'.comps = s.comps) (hs : s'.shape = s.shape)
    (hl : ∀ c ∈ cids s.comps, s'.label c = s.label c) (hd : s'.dlabel = s.dlabel)
    (hk : s'.linked = s.linked ∨ s'.inDc = true) (hh : s'.hub = s.hub ∨ op.isHubOp = true)
    (hord : orderOk op (cids s.comps) (cids s.comps) = true) : Facts s s' op [] := by
  refine ⟨hh, fun _ => rfl, fun _ => by rw [hc]; rfl, by rw [hc]; exact hord, ?_, ?_, ?_, ?_, ?_, ?_, ?_, ?_⟩
  · intro x' hx' x hx hxc _
    rw [hl _ (hxc ▸ List.mem_map.2 ⟨x, hx, rfl⟩)]; simp
  · intro _ _ _; rfl
  · intro c hc'; cases hc'
  · intro _; simp [hd]
  · intro x' hx' x hx hxc _
    left
    rw [hc] at hx'
    have : x = x' := cid_inj hnd hx hx' hxc
    subst this
    exact ⟨rfl, by rw [hs], rfl⟩
  · intro m hm; cases hm
  · intro _ _ he; cases he
  · intro _ hdc hl'
    rcases hk with hk | hk
    · exact absurd hk.symm hl'
    · rw [hk] at hdc; cases hdc

/-! ## add_component -/

theorem eff_fresh {old : Cid → Prop} (s : State) (l : Label) (hb : ∀ c, old c → c < s.next) :
    Eff old s (fresh s l).1 [] ∧ Keep old s (fresh s l).1 := by
  refine ⟨Eff.silent rfl rfl ?_ rfl rfl rfl, Keep.of_eq rfl⟩
  intro c hc
  have := hb c hc
  simp only [State.label, fresh, List.lookup_cons]
  have : (c == s.next) = false := by simpa using (by omega : c ≠ s.next)
  simp [this]

theorem W_fresh {s : State} (hW : W s) (l : Label) : W (fresh s l).1 :=
  ⟨hW.nodup, fun c hc => Nat.lt_succ_of_lt (hW.fresh c hc)⟩

/-- Storing a component under an identifier that is not in the table and not `old`. -/
theorem eff_addRaw {old : Cid → Prop} {s : State} (c : Comp) (hnew : c.cid ∉ cids s.comps) (hno : ¬ old c.cid) :
    Eff old s (addRaw s c).1 (addRaw s c).2 ∧ Keep old s (addRaw s c).1 := by
  have hcids : cids (addRaw s c).1.comps = cids s.comps ++ [c.cid] := by
    simp [addRaw, insertComp_fresh hnew, cids]
  have hpres : (cids s.comps).contains c.cid = false := by simpa using hnew
  refine ⟨⟨?_, ?_, ?_, rfl, fun _ _ => rfl, rfl, rfl, rfl, ⟨fun _ => true, [c.cid], by simp [hcids], by simpa using hno⟩⟩, ?_⟩
  · intro hh
    rw [hcids]
    simp only [addRaw, hh, hpres, Bool.false_eq_true, if_false, if_true]
    have := rep_adds [c.cid] (cids s.comps) (by simp) (by simpa using hnew)
    simpa using this
  · intro hh; simp [addRaw, hh]
  · intro m hm
    simp only [addRaw, hpres, Bool.false_eq_true, if_false] at hm
    split at hm
    · simp only [List.mem_cons, List.mem_nil_iff, or_false] at hm
      rcases hm with rfl | rfl <;> rfl
    · cases hm
  · intro x hx ho
    simp only [addRaw, insertComp_fresh hnew, List.mem_append, List.mem_singleton] at hx
    rcases hx with hx | rfl
    · exact hx
    · exact absurd ho hno

theorem W_addRaw {s : State} (hW : W s) (c : Comp) (hnew : c.cid ∉ cids s.comps) (hlt : c.cid < s.next) :
    W (addRaw s c).1 := by
  have hcids : cids (addRaw s c).1.comps = cids s.comps ++ [c.cid] := by
    simp [addRaw, insertComp_fresh hnew, cids]
  refine ⟨?_, ?_⟩
  · rw [hcids, List.nodup_append]
    exact ⟨hW.nodup, by simp, fun a ha b hb hab => by simp at hb; subst hab hb; exact hnew ha⟩
  · intro x hx
    rw [hcids] at hx
    rcases List.mem_append.1 hx with hx | hx
    · exact hW.fresh x hx
    · simp at hx; subst hx; exact hlt

theorem eff_createPixelWorld {old : Cid → Prop} {s : State} (hW : W s) (hb : ∀ c, old c → c < s.next) (n : Nat) :
    Eff old s (createPixelWorld s n).1 (createPixelWorld s n).2 ∧ Keep old s (createPixelWorld s n).1 ∧
    W (createPixelWorld s n).1 ∧ s.next ≤ (createPixelWorld s n).1.next := by
  simp only [createPixelWorld, Res.bind]
  obtain ⟨e1, w1⟩ := eff_newPixels (old := old) hW hb n
  have k1 : Keep old s (newPixels s n).1 := keep_family hb .pixel n rfl
  have n1 : (newPixels s n).1.next = s.next + n := rfl
  generalize (newPixels s n) = r1 at e1 w1 k1 n1
  have hb1 : ∀ c, old c → c < r1.1.next := fun c hc => by have := hb c hc; omega
  obtain ⟨e2, w2, n2⟩ := eff_updateWorld (old := old) w1 hb1 n
  exact ⟨e1.trans e2, k1.trans (keep_updateWorld hb1 n), w2, by omega⟩

/-- `add_component(array, id)` after the shape check, for an id that is neither in the table nor
`old`. -/
theorem eff_addMain {old : Cid → Prop} {s : State} (hW : W s) (hb : ∀ c, old c → c < s.next) (c : Cid)
    (hnew : c ∉ cids s.comps) (hlt : c < s.next) (hno : ¬ old c) (shape : Shape) (val : Nat) :
    Eff old s (addMain s c shape val).1 (addMain s c shape val).2 ∧ Keep old s (addMain s c shape val).1 := by
  simp only [addMain, Res.bind]
  split
  · rename_i he
    obtain ⟨e1, k1, w1, n1⟩ := eff_createPixelWorld (old := old) hW hb shape.length
    have hnew1 : c ∉ cids (createPixelWorld s shape.length).1.comps := by
      obtain ⟨_, kc, _, _⟩ := eff_createPixelWorld (old := fun x => x = c) hW (fun x hx => hx ▸ hlt) shape.length
      intro hm
      obtain ⟨y, hy, hyc⟩ := List.mem_map.1 hm
      exact hnew (List.mem_map.2 ⟨y, kc y hy hyc, hyc⟩)
    generalize (createPixelWorld s shape.length) = r1 at e1 k1 w1 n1 hnew1
    obtain ⟨e2, k2⟩ := eff_addRaw (old := old) (s := r1.1) ⟨c, .main, shape, val⟩ hnew1 hno
    exact ⟨e1.trans e2, k1.trans k2⟩
  · obtain ⟨e, k⟩ := eff_addRaw (old := old) (s := s) ⟨c, .main, shape, val⟩ hnew hno
    exact ⟨by simpa using (Eff.refl old s).trans e, k⟩


theorem facts_addMain_fresh {s : State} (h : Inv s) (op : Op) (l : Label) (shape : Shape) (val : Nat)
    (hcan : canAdd s shape = true)
    (hop : ∀ a b, orderOk op a b = (b.filter a.contains == a.filter b.contains)) :
    Facts s (addMain (fresh s l).1 (fresh s l).2 shape val).1 op (addMain (fresh s l).1 (fresh s l).2 shape val).2 := by
  have hW := W_of_inv h
  obtain ⟨a, _, _, d, _, _, _, hn, hcid, _⟩ := fresh_frame s l
  have hb0 : ∀ c, (fun c => c < s.next) c → c < (fresh s l).1.next := fun c hc => by rw [hn]; exact Nat.lt_succ_of_lt hc
  obtain ⟨e0, k0⟩ := eff_fresh (old := fun c => c < s.next) s l (fun _ hc => hc)
  obtain ⟨e1, k1⟩ := eff_addMain (old := fun c => c < s.next) (W_fresh hW l) hb0 (fresh s l).2
    (by rw [a, hcid]; exact fresh_not_mem h) (by rw [hn, hcid]; exact Nat.lt_succ_self _)
    (by rw [hcid]; exact Nat.lt_irrefl _) shape val
  have e := e0.trans e1
  simp only [List.nil_append] at e
  apply facts_of_eff h _ (fun c hc => h.fresh.1 c hc) e (k0.trans k1) _ hop
  by_cases he : s.comps = []
  · exact Or.inr he
  · left
    rw [addMain_shape _ _ _ _ (by rw [d]; exact canAdd_nonempty h he hcan), d]

theorem facts_addMain_at {s : State} (h : Inv s) (op : Op) (c : Cid) (hc : c < s.next) (hnew : c ∉ cids s.comps)
    (shape : Shape) (val : Nat) (hcan : canAdd s shape = true) (hop : ∀ a b, orderOk op a b = (b.filter a.contains == a.filter b.contains)) :
    Facts s (addMain s c shape val).1 op (addMain s c shape val).2 := by
  have hW := W_of_inv h
  obtain ⟨e, k⟩ := eff_addMain (old := fun x => x < s.next ∧ x ≠ c) hW (fun _ hx => hx.1) c hnew hc
    (fun hx => hx.2 rfl) shape val
  apply facts_of_eff h _ (fun x hx => ⟨h.fresh.1 x hx, fun e => hnew (e ▸ hx)⟩) e k _ hop
  by_cases he : s.comps = []
  · exact Or.inr he
  · left
    exact addMain_shape _ _ _ _ (canAdd_nonempty h he hcan)

theorem facts_addRaw_fresh {s : State} (h : Inv s) (op : Op) (l : Label) (kind : Kind) (hk : kind.isMain = false)
    (hop : ∀ a b, orderOk op a b = (b.filter a.contains == a.filter b.contains)) :
    Facts s (addRaw (fresh s l).1 ⟨(fresh s l).2, kind, [], 0⟩).1 op (addRaw (fresh s l).1 ⟨(fresh s l).2, kind, [], 0⟩).2 := by
  obtain ⟨a, _, _, d, _, _, _, hn, hcid, _⟩ := fresh_frame s l
  obtain ⟨e0, k0⟩ := eff_fresh (old := fun c => c < s.next) s l (fun _ hc => hc)
  obtain ⟨e1, k1⟩ := eff_addRaw (old := fun c => c < s.next) (s := (fresh s l).1) ⟨(fresh s l).2, kind, [], 0⟩
    (by simp only; rw [a, hcid]; exact fresh_not_mem h) (by simp only; rw [hcid]; exact Nat.lt_irrefl _)
  have e := e0.trans e1
  simp only [List.nil_append] at e
  apply facts_of_eff h _ (fun c hc => h.fresh.1 c hc) e (k0.trans k1) _ hop
  left
  rw [addRaw_shape _ (by cases kind <;> first | rfl | cases hk), d]

theorem removeComp_eq_removeAll (s : State) (c : Cid) : removeComp s c = removeAll s [c] := by
  simp [removeAll, Res.bind]

theorem facts_remove {s : State} (h : Inv s) (c : Cid) : Facts s (removeComp s c).1 (.remove c) (removeComp s c).2 := by
  rw [removeComp_eq_removeAll]
  obtain ⟨e, _, _⟩ := eff_removeAll (old := fun c => c < s.next) (W_of_inv h) [c]
  exact facts_of_eff h _ (fun c hc => h.fresh.1 c hc) e (keep_removeAll _ s [c])
    (Or.inl (frame_removeAll s [c]).1.shape) (fun _ _ => rfl)

theorem facts_setCoords {s : State} (h : Inv s) (v : Option Nat) :
    Facts s (setCoords s v).1 (.setCoords v) (setCoords s v).2 := by
  obtain ⟨e, _, _⟩ := eff_setCoords (old := fun c => c < s.next) (W_of_inv h) (fun _ hc => hc) v
  exact facts_of_eff h _ (fun c hc => h.fresh.1 c hc) e (keep_setCoords (fun _ hc => hc) v)
    (Or.inl (frame_setCoords s v).1.shape) (fun _ _ => rfl)


/-! ## the calls that are one stepCore -/

/-- One message that is not about the identifier list, the table and everything else unchanged
except what `hl` / `hd` / `hk` allow. -/
theorem facts_single {s s' : State} {op : Op} (m : Msg) (hm : Msg.isStructural m = false)
    (hnd : (cids s.comps).Nodup) (hc : cids s'.comps = cids s.comps) (hh : s'.hub = s.hub)
    (hord : orderOk op (cids s.comps) (cids s.comps) = true)
    (hlab : ∀ x' ∈ s'.comps, s'.hub = true →
      ((s.label x'.cid != s'.label x'.cid) = [m].contains (.rename x'.cid)))
    (hren : ∀ c, m = .rename c → c ∈ cids s.comps)
    (hdl : s'.hub = true → ((s.dlabel != s'.dlabel) = [m].contains .update))
    (hval : ∀ x' ∈ s'.comps, ∀ x ∈ s.comps, x.cid = x'.cid → s'.hub = true →
      (x.kind = x'.kind ∧ compShape s.shape x = compShape s'.shape x' ∧ oval x = oval x') ∨
      numericalCovers [m] x'.cid = true)
    (hnum : numericalOk (cids s.comps) op m = true)
    (hext1 : m = .ext → s.linked ≠ s'.linked ∨ op.isLinkOp = true)
    (hext2 : s'.hub = true → s.linked ≠ s'.linked → m = .ext) :
    Facts s s' op (if s.hub then [m] else []) := by
  cases hhub : s.hub
  · have hh' : s'.hub = false := hh.trans hhub
    have nohub : s'.hub = true → False := fun h => by rw [hh'] at h; cases h
    simp only [Bool.false_eq_true, if_false]
    refine ⟨Or.inl hh, fun _ => rfl, fun h => (nohub h).elim, ?_, ?_, fun _ _ _ => rfl, ?_,
      fun h => (nohub h).elim, ?_, ?_, fun h => (nohub h).elim, fun h => (nohub h).elim⟩
    · rw [hc]; exact hord
    · intro _ _ _ _ _ h; exact (nohub h).elim
    · intro c hc'; cases hc'
    · intro _ _ _ _ _ h; exact (nohub h).elim
    · intro m hm; cases hm
  · have hh' : s'.hub = true := hh.trans hhub
    have nohub : s'.hub = false → False := fun h => by rw [hh'] at h; cases h
    simp only [if_true]
    have hk1 : ∀ k, kindAfter [m] k = k := fun k =>
      kindAfter_noRepl [m] k (fun m' hm' o n e => by
        simp only [List.mem_singleton] at hm'
        subst hm'; subst e; cases hm)
    refine ⟨Or.inl hh, fun h => (nohub h).elim, ?_, ?_, ?_, ?_, ?_, hdl,
      (fun x' hx' x hx hxc hhb => (hval x' hx' x hx hxc hhb).imp (fun ⟨a, b, c⟩ => ⟨(hk1 _).trans a, b, c⟩) id),
      ?_, ?_, ?_⟩
    · intro _
      rw [hc]
      cases m <;> simp [Msg.isStructural] at hm <;> simp [replay]
    · rw [hc]; exact hord
    · intro x' hx' _ _ _ h; exact hlab x' hx' h
    · intro x' hx' hn
      exfalso
      apply hn
      rw [← hc]; exact List.mem_map.2 ⟨x', hx', rfl⟩
    · intro c hc'
      simp only [List.mem_singleton] at hc'
      rw [hc]; exact hren c hc'.symm
    · intro m' hm'
      simp only [List.mem_singleton] at hm'
      subst hm'
      exact hnum
    · intro _ _ he
      simp only [List.mem_singleton] at he
      exact hext1 he.symm
    · intro h _ hl
      simp only [List.mem_singleton]
      exact (hext2 h hl).symm

/-- `add_component(array, id)` onto an id that already names an array (repair F21): the array is
replaced in place and the change is announced as `NumericalDataChanged([id])`. -/
theorem facts_addMain_replace {s : State} (h : Inv s) (c : Cid) (hin : c ∈ cids s.comps)
    (hmain : ∀ x ∈ s.comps, x.cid = c → x.kind = .main) (shape : Shape) (val : Nat) (hshape : shape = s.shape) :
    Facts s (addMain s c shape val).1 (.addArrayAt c shape val) (addMain s c shape val).2 := by
  rw [addMain_replace hin shape val hshape]
  have hf : ∀ x : Comp, (if x.cid == c then (⟨c, .main, shape, val⟩ : Comp) else x).cid = x.cid := by
    intro x
    by_cases hxc : x.cid = c
    · simp [hxc]
    · have : (x.cid == c) = false := by simpa using hxc
      simp [this]
  have hcids : cids (s.comps.map (fun x => if x.cid == c then (⟨c, .main, shape, val⟩ : Comp) else x)) = cids s.comps := by
    simp only [cids, List.map_map]
    apply List.map_congr_left
    intro x _
    exact hf x
  apply facts_single
    (s' := { s with comps := s.comps.map (fun x => if x.cid == c then (⟨c, .main, shape, val⟩ : Comp) else x) })
    (op := .addArrayAt c shape val) (.numerical (some [c])) rfl h.nodup hcids rfl (by simp [orderOk])
  · intro _ _ _; simp [State.label]
  · intro c' hc'; cases hc'
  · intro _; simp
  · intro x' hx' x hx hxc _
    simp only [List.mem_map] at hx'
    obtain ⟨x0, hx0, rfl⟩ := hx'
    have hxc' : x.cid = x0.cid := by rw [hxc]; exact hf x0
    have : x = x0 := cid_inj h.nodup hx hx0 hxc'
    subst this
    by_cases hxc0 : x.cid = c
    · right
      simp [numericalCovers, hxc0]
    · left
      have : (x.cid == c) = false := by simpa using hxc0
      simp [this]
  · simp [numericalOk, hin]
  · intro he; cases he
  · intro _ hl; exact absurd rfl hl

theorem label_cons_ne (s : State) (c c' : Cid) (l : Label) (h : c' ≠ c) :
    State.label { s with labels := (c, l) :: s.labels } c' = s.label c' := by
  simp only [State.label, List.lookup_cons]
  have : (c' == c) = false := by simpa using h
  simp [this]

theorem label_cons_eq (s : State) (c : Cid) (l : Label) :
    State.label { s with labels := (c, l) :: s.labels } c = l := by
  simp [State.label, List.lookup_cons]

/-- `ComponentID.label = l`: announced iff the identifier is a component of the dataset (F25); for any
other identifier (one that was removed or re-assigned, or never used) only its label changes. -/
theorem facts_rename {s : State} (h : Inv s) (c : Cid) (l : Label) :
    Facts s (stepCore s (.rename c l)).state (.rename c l) (stepCore s (.rename c l)).msgs := by
  simp only [stepCore]
  split
  · exact facts_silent h.nodup rfl rfl (fun _ _ => rfl) rfl (Or.inl rfl) (Or.inl rfl) (by simp [orderOk])
  by_cases hc : c ∈ cids s.comps
  case neg =>
    have hcc : (cids s.comps).contains c = false := by simpa using hc
    simp only [ok, hcc, Bool.false_and, Bool.false_eq_true, if_false]
    refine facts_silent h.nodup rfl rfl ?_ rfl (Or.inl rfl) (Or.inl rfl) (by simp [orderOk])
    intro c' hc'
    exact label_cons_ne s c c' l (fun e => hc (e ▸ hc'))
  case pos =>
    rename_i hne
    have hne' : s.label c ≠ l := by simpa using hne
    simp only [ok]
    have hcc : (cids s.comps).contains c = true := by simpa using hc
    simp only [hcc, Bool.true_and]
    apply facts_single (s' := { s with labels := (c, l) :: s.labels }) (op := .rename c l) (.rename c) rfl h.nodup rfl rfl
      (by simp [orderOk])
    · intro x' _ _
      by_cases hx : x'.cid = c
      · rw [hx, label_cons_eq]
        simp [hne']
      · rw [label_cons_ne _ _ _ _ hx]
        simp [hx]
    · intro c' hc'; cases hc'; exact hc
    · intro _; simp
    · intro x' hx' x hx hxc _
      left
      have : x = x' := cid_inj h.nodup hx hx' hxc
      subst this; exact ⟨rfl, rfl, rfl⟩
    · rfl
    · intro he; cases he
    · intro _ hl; exact absurd rfl hl

theorem facts_setLabel {s : State} (h : Inv s) (l : Label) :
    Facts s (setLabelImpl s l).1 (.setLabel l) (setLabelImpl s l).2 := by
  simp only [setLabelImpl]
  split
  · rename_i hne
    have hne' : s.dlabel ≠ l := by simpa using hne
    apply facts_single (s' := { s with dlabel := l }) (op := .setLabel l) .update rfl h.nodup rfl rfl (by simp [orderOk])
    · intro _ _ _; simp [State.label]
    · intro c hc; cases hc
    · intro _; simp [hne']
    · intro x' hx' x hx hxc _
      left
      have : x = x' := cid_inj h.nodup hx hx' hxc
      subst this; exact ⟨rfl, rfl, rfl⟩
    · rfl
    · intro he; cases he
    · intro _ hl; exact absurd rfl hl
  · exact facts_silent h.nodup rfl rfl (fun _ _ => rfl) rfl (Or.inl rfl) (Or.inl rfl) (by simp [orderOk])

theorem facts_setLinked {s : State} (h : Inv s) (cs : List Cid) :
    Facts s (stepCore s (.setLinked cs)).state (.setLinked cs) (stepCore s (.setLinked cs)).msgs := by
  simp only [stepCore]
  split
  · exact facts_silent h.nodup rfl rfl (fun _ _ => rfl) rfl (Or.inl rfl) (Or.inl rfl) (by simp [orderOk])
  · simp only [ok]
    apply facts_single (s' := { s with linked := cs }) (op := .setLinked cs) .ext rfl h.nodup rfl rfl (by simp [orderOk])
    · intro _ _ _; simp [State.label]
    · intro c hc; cases hc
    · intro _; simp
    · intro x' hx' x hx hxc _
      left
      have : x = x' := cid_inj h.nodup hx hx' hxc
      subst this; exact ⟨rfl, rfl, rfl⟩
    · rfl
    · intro _; exact Or.inr rfl
    · intro _ _; rfl

theorem facts_updateComponents {s : State} (h : Inv s) (m : List (Cid × Shape × Nat))
    (hchk : updateCheck s m = none) :
    Facts s { s with comps := applyUpdates s.comps m } (.updateComponents m)
      (if s.hub then [.numerical (some (m.map (·.1)))] else []) := by
  have hf : ∀ c : Comp, ((fun x : Comp => match m.lookup x.cid with
      | some (sh, v) => if x.kind.isMain then { x with shape := sh, val := v } else x
      | none => x) c).cid = c.cid := by
    intro c; simp only; split
    · split <;> rfl
    · rfl
  have hcids : cids (applyUpdates s.comps m) = cids s.comps := by
    simp only [applyUpdates, cids, List.map_map]
    apply List.map_congr_left
    intro c _
    exact hf c
  apply facts_single (s' := { s with comps := applyUpdates s.comps m }) (op := .updateComponents m)
    (.numerical (some (m.map (·.1)))) rfl h.nodup hcids rfl (by simp [orderOk])
  · intro _ _ _; simp [State.label]
  · intro c hc; cases hc
  · intro _; simp
  · intro x' hx' x hx hxc _
    simp only [applyUpdates, List.mem_map] at hx'
    obtain ⟨x0, hx0, rfl⟩ := hx'
    have hxc' : x.cid = x0.cid := by rw [hxc]; exact hf x0
    have : x = x0 := cid_inj h.nodup hx hx0 hxc'
    subst this
    cases hl : m.lookup x.cid with
    | none => left; simp [hl]
    | some p =>
      right
      have hmem : (x.cid, p) ∈ m := mem_of_lookup hl
      simp only [numericalCovers, List.any_cons, List.any_nil, Bool.or_false, List.contains_eq_mem,
        decide_eq_true_eq, List.mem_map]
      exact ⟨(x.cid, p), hmem, by simp only; split <;> rfl⟩
  · rfl
  · intro he; cases he
  · intro _ hl; exact absurd rfl hl


/-! ## reorder_components, update_id -/

/-- One (structural) message; the components stored under surviving ids are unchanged. -/
theorem facts_one {s s' : State} {op : Op} (m : Msg) (hm : Msg.isStructural m = true) (hnd : (cids s.comps).Nodup)
    (hh : s'.hub = s.hub) (hrep : replay [m] (cids s.comps) = some (cids s'.comps))
    (hord : orderOk op (cids s.comps) (cids s'.comps) = true)
    (hlab : ∀ c, s'.label c = s.label c) (hdl : s'.dlabel = s.dlabel) (hlk : s'.linked = s.linked)
    (hsh : s'.shape = s.shape)
    (hval : ∀ x' ∈ s'.comps, ∀ x ∈ s.comps, x.cid = x'.cid →
      (x' = x ∧ ∀ o n, m ≠ .replaced o n) ∨ (∃ o n, m = .replaced o n ∧ x' = Comp.replaceDep o n x)) :
    Facts s s' op (if s.hub then [m] else []) := by
  have nr : ∀ c, Msg.rename c ≠ m := by intro c e; subst e; cases hm
  have nc : ∀ m', m' ≠ m → [m].contains m' = false := by intro m' h; simpa using h
  have vals : ∀ x' ∈ s'.comps, ∀ x ∈ s.comps, x.cid = x'.cid →
      (kindAfter [m] x.kind = x'.kind ∧ compShape s.shape x = compShape s'.shape x' ∧ oval x = oval x') := by
    intro x' hx' x hx hxc
    rcases hval x' hx' x hx hxc with ⟨rfl, hno⟩ | ⟨o, n, rfl, rfl⟩
    · refine ⟨kindAfter_noRepl [m] _ ?_, by rw [hsh], rfl⟩
      intro m' hm' o n e
      simp only [List.mem_singleton] at hm'
      subst hm'
      exact hno o n e
    · refine ⟨rfl, ?_, ?_⟩
      · rw [hsh]
        cases hk : x.kind <;> simp [compShape, Comp.replaceDep, Kind.replaceDep, hk]
      · cases hk : x.kind <;> simp [oval, Comp.replaceDep, Kind.replaceDep, hk, Kind.isMain]
  by_cases hhub : s.hub = true
  · have hh' : s'.hub = true := hh.trans hhub
    have nohub : s'.hub = false → False := fun h => by rw [hh'] at h; cases h
    rw [if_pos hhub]
    refine ⟨Or.inl hh, fun h => (nohub h).elim, fun _ => hrep, hord, ?_, ?_, ?_, ?_, ?_, numOnly_of_or (Or.inr ?_), ?_, ?_⟩
    · intro x' _ _ _ _ _
      rw [hlab, nc _ (nr x'.cid)]
      simp
    · intro x' _ _
      exact nc _ (nr x'.cid)
    · intro c hc
      simp only [List.mem_singleton] at hc
      exact absurd hc (nr c)
    · intro _
      rw [hdl, nc _ (by intro e; subst e; cases hm)]
      simp
    · intro x' hx' x hx hxc _
      exact Or.inl (vals x' hx' x hx hxc)
    · intro m' hm' cs hcs
      simp only [List.mem_singleton] at hm'
      subst hm' hcs
      cases hm
    · intro _ _ he
      simp only [List.mem_singleton] at he
      subst he; cases hm
    · intro _ _ hl; exact absurd hlk.symm hl
  · have hhub' : s.hub = false := by simpa using hhub
    have hh' : s'.hub = false := hh.trans hhub'
    have nohub : s'.hub = true → False := fun h => by rw [hh'] at h; cases h
    rw [if_neg hhub]
    refine ⟨Or.inl hh, fun _ => rfl, fun h => (nohub h).elim, hord, ?_, fun _ _ _ => rfl, ?_,
      fun h => (nohub h).elim, ?_, ?_, fun h => (nohub h).elim, fun h => (nohub h).elim⟩
    · intro _ _ _ _ _ h; exact (nohub h).elim
    · intro c hc'; cases hc'
    · intro _ _ _ _ _ h; exact (nohub h).elim
    · intro m hm; cases hm

theorem facts_reorder {s : State} (h : Inv s) (cs : List Cid) (he : (reorderImpl s cs).err = none) :
    Facts s (reorderImpl s cs).state (.reorder cs) (reorderImpl s cs).msgs := by
  simp only [reorderImpl] at he ⊢
  split at he
  · cases he
  · rename_i hlen
    rw [if_neg hlen]
    split at he
    · cases he
    · rename_i hperm
      rw [if_neg hperm]
      split
      · exact facts_silent h.nodup rfl rfl (fun _ _ => rfl) rfl (Or.inl rfl) (Or.inl rfl) (by simp [orderOk])
      · rename_i hne
        simp only [ok]
        simp only [bne_iff_ne, ne_eq, Decidable.not_not] at hlen
        have hperm' := hperm
        simp only [Bool.not_eq_true', Bool.not_eq_false, Bool.and_eq_true, List.all_eq_true,
          List.contains_eq_mem, decide_eq_true_eq] at hperm'
        obtain ⟨hsub, hsup⟩ := hperm'
        have hcids : cids (cs.filterMap fun c => s.comps.find? (fun y => y.cid == c)) = cs := cids_lookup hsub
        have hmem : ∀ x ∈ (cs.filterMap fun c => s.comps.find? (fun y => y.cid == c)), x ∈ s.comps := by
          intro x hx
          simp only [List.mem_filterMap] at hx
          obtain ⟨c, _, hf⟩ := hx
          exact List.mem_of_find?_eq_some hf
        have hrep : replay [Msg.reorder cs] (cids s.comps) = some cs := by
          have h1 : (cs == cids s.comps) = false := by simpa using hne
          have h2 : (cs.all (cids s.comps).contains && (cids s.comps).all cs.contains && cs.length == (cids s.comps).length) = true := by
            have : (cs.all (cids s.comps).contains && (cids s.comps).all cs.contains) = true := by simpa using hperm
            simp [this, hlen]
          simp [replay, h1, h2]
        refine facts_one (.reorder cs) rfl h.nodup ?_ ?_ ?_ ?_ ?_ ?_ ?_ ?_
        · rfl
        · simp only; rw [hcids]; exact hrep
        · simp only [orderOk, hcids]; simp
        · intro _; rfl
        · rfl
        · rfl
        · rfl
        · intro x' hx' x hx hxc
          exact Or.inl ⟨(cid_inj h.nodup hx (hmem x' hx') hxc).symm, fun _ _ e => by cases e⟩

theorem facts_updateId {s : State} (h : Inv s) (old new : Cid) (hnew : new ∉ cids s.comps) (hne : new ≠ old) :
    Facts s (updateIdImpl s old new).1 (.updateId old new) (updateIdImpl s old new).2 := by
  have hneb : (new == old) = false := by simpa using hne
  have hnd' : (cids (s.comps.map (ren old new))).Nodup := by
    rw [cids_map_ren]; exact nodup_map_rho h.nodup hnew
  have hcomps : (if (cids s.comps).contains old = true then
      dictOfPairs (s.comps.map fun x => if (x.cid == old) = true then { x with cid := new } else x)
      else s.comps) = s.comps.map (ren old new) := by
    split
    · have : (s.comps.map fun x => if (x.cid == old) = true then { x with cid := new } else x) = s.comps.map (ren old new) := rfl
      rw [this, dictOfPairs_nodup hnd']
    · rename_i hc
      rw [map_ren_absent (by simpa using hc)]
  have hinP : s.pix.contains old = true → (cids s.comps).contains old = true := by
    intro hp; simpa using inv_pix_mem h old (by simpa using hp)
  have hinW : s.world.contains old = true → (cids s.comps).contains old = true := by
    intro hp; simpa using inv_world_mem h old (by simpa using hp)
  have hchg : ((cids s.comps).contains old || s.pix.contains old || s.world.contains old) = (cids s.comps).contains old := by
    cases hc : (cids s.comps).contains old
    · cases hp : s.pix.contains old
      · cases hw : s.world.contains old
        · rfl
        · rw [hinW hw] at hc; cases hc
      · rw [hinP hp] at hc; cases hc
    · simp
  simp only [updateIdImpl, hneb, Bool.false_eq_true, if_false, hcomps, hchg]
  have hcids : cids ((s.comps.map (ren old new)).map (Comp.replaceDep old new)) = (cids s.comps).map (rho old new) := by
    rw [← cids_map_ren]
    simp only [cids, List.map_map]
    rfl
  have hval : ∀ x' ∈ (s.comps.map (ren old new)).map (Comp.replaceDep old new), ∀ x ∈ s.comps, x.cid = x'.cid →
      (x' = x ∧ ∀ o n, Msg.replaced old new ≠ .replaced o n) ∨
      (∃ o n, Msg.replaced old new = .replaced o n ∧ x' = Comp.replaceDep o n x) := by
    intro x' hx' x hx hxc
    right
    refine ⟨old, new, rfl, ?_⟩
    obtain ⟨z, hz, rfl⟩ := List.mem_map.1 hx'
    obtain ⟨y, hy, rfl⟩ := List.mem_map.1 hz
    have hxc' : x.cid = (ren old new y).cid := hxc
    by_cases hyo : y.cid = old
    · exfalso
      have : (ren old new y).cid = new := by simp [ren, hyo]
      rw [this] at hxc'
      exact hnew (hxc' ▸ List.mem_map.2 ⟨x, hx, rfl⟩)
    · have hyr : ren old new y = y := by
        have : (y.cid == old) = false := by simpa using hyo
        simp [ren, this]
      rw [hyr] at hxc' ⊢
      rw [cid_inj h.nodup hx hy hxc']
  have hord : orderOk (.updateId old new) (cids s.comps) ((cids s.comps).map (rho old new)) = true := by
    have : ((cids s.comps).map (rho old new) == (cids s.comps).map fun x => if x == old then new else x) = true := by
      rw [beq_iff_eq]
      apply List.map_congr_left
      intro x _
      rfl
    simp only [orderOk, this, Bool.true_or]
  by_cases hin : (cids s.comps).contains old = true
  · simp only [hin, Bool.true_and, if_true]
    have hrep : replay [Msg.replaced old new] (cids s.comps) = some ((cids s.comps).map (rho old new)) := by
      have hn' : (cids s.comps).contains new = false := by simpa using hnew
      simp only [replay, hin, hn', Bool.not_true, Bool.or_false, Bool.false_eq_true, if_false]
      rfl
    refine facts_one (.replaced old new) rfl h.nodup ?_ ?_ ?_ ?_ ?_ ?_ ?_ hval
    · rfl
    · simp only; rw [hcids]; exact hrep
    · simp only; rw [hcids]; exact hord
    · intro _; rfl
    · rfl
    · rfl
    · rfl
  · have hin' : (cids s.comps).contains old = false := by simpa using hin
    have hab : old ∉ cids s.comps := by simpa using hin'
    simp only [hin', Bool.false_and, Bool.false_eq_true, if_false]
    have hsame : s.comps.map (ren old new) = s.comps := map_ren_absent hab
    refine facts_silent h.nodup ?_ ?_ ?_ ?_ ?_ ?_ ?_
    · simp only; exact hsame
    · rfl
    · intro _ _; rfl
    · rfl
    · exact Or.inl rfl
    · exact Or.inl rfl
    · have : (cids s.comps).map (fun x => if x == old then new else x) = cids s.comps := map_rho_absent (n := new) hab
      simp only [orderOk, this]; simp

/-- attach / detach / register / nop. -/
theorem facts_hubops {s : State} (h : Inv s) (op : Op) (hop : op = .attach ∨ op = .detach ∨ op = .register ∨ op = .nop) :
    Facts s (stepCore s op).state op (stepCore s op).msgs := by
  rcases hop with rfl | rfl | rfl | rfl
  · simp only [stepCore]
    split
    · exact facts_silent h.nodup rfl rfl (fun _ _ => rfl) rfl (Or.inl rfl) (Or.inl rfl) (by simp [orderOk])
    · exact facts_silent h.nodup rfl rfl (fun _ _ => rfl) rfl (Or.inr rfl) (Or.inr rfl) (by simp [orderOk])
  · exact facts_silent h.nodup rfl rfl (fun _ _ => rfl) rfl (Or.inl rfl) (Or.inl rfl) (by simp [orderOk])
  · exact facts_silent h.nodup rfl rfl (fun _ _ => rfl) rfl (Or.inl rfl) (Or.inr rfl) (by simp [orderOk])
  · exact facts_silent h.nodup rfl rfl (fun _ _ => rfl) rfl (Or.inl rfl) (Or.inl rfl) (by simp [orderOk])


/-! ## update_values_from_data -/

theorem rep_skip {m : Msg} (hm : Msg.isStructural m = false) (cur : List Cid) : Rep cur cur [m] := by
  intro rest
  cases m <;> simp [Msg.isStructural] at hm <;> simp [replay]

theorem addMain_next (s : State) (c : Cid) (shape : Shape) (val : Nat) : s.next ≤ (addMain s c shape val).1.next := by
  simp only [addMain, Res.bind]
  split
  · simp only [createPixelWorld, Res.bind, addRaw]
    have h1 : (newPixels s shape.length).1.next = s.next + shape.length := rfl
    have h2 := (frame_updateWorld (newPixels s shape.length).1 shape.length).1.next
    omega
  · simp [addRaw]

theorem eff_addNewOnes {old : Cid → Prop} (shape : Shape) : ∀ (l : List (Label × Nat)) {s : State}, Inv s →
    s.shape = shape → (∀ c, old c → c < s.next) →
    Eff old s (addNewOnes s shape l).1 (addNewOnes s shape l).2.1 ∧ (addNewOnes s shape l).2.2 = none ∧
    s.next ≤ (addNewOnes s shape l).1.next
  | [], s, _, _, _ => by simpa [addNewOnes] using Eff.refl old s
  | (lab, v) :: rest, s, h, hs, hb => by
    have hcan : canAdd s shape = true := by simp [canAdd, hs]
    obtain ⟨a, _, _, d, _, _, _, hn, hcid, _⟩ := fresh_frame s lab
    have hb0 : ∀ c, old c → c < (fresh s lab).1.next := fun c hc => by rw [hn]; exact Nat.lt_succ_of_lt (hb c hc)
    obtain ⟨e0, _⟩ := eff_fresh (old := old) s lab hb
    obtain ⟨e1, _⟩ := eff_addMain (old := old) (W_fresh (W_of_inv h) lab) hb0 (fresh s lab).2
      (by rw [a, hcid]; exact fresh_not_mem h) (by rw [hn, hcid]; exact Nat.lt_succ_self _)
      (by rw [hcid]; intro ho; exact Nat.lt_irrefl _ (hb _ ho)) shape v
    have hI : Inv (addMain (fresh s lab).1 (fresh s lab).2 shape v).1 := by
      apply inv_addMain (inv_fresh h lab)
      · rw [hn, hcid]; exact Nat.lt_succ_self _
      · rw [a, hcid]; exact fresh_not_mem h
      · rw [canAdd_fresh]; exact hcan
    have hS : (addMain (fresh s lab).1 (fresh s lab).2 shape v).1.shape = shape := by
      rw [addMain_shape _ _ _ _ (by rw [d, hs]), d, hs]
    have hb1 : ∀ c, old c → c < (addMain (fresh s lab).1 (fresh s lab).2 shape v).1.next := fun c hc =>
      Nat.lt_of_lt_of_le (hb0 c hc) (addMain_next _ _ _ _)
    obtain ⟨e2, herr, hnx⟩ := eff_addNewOnes shape rest hI hS hb1
    simp only [addNewOnes, hcan, Bool.not_true, Bool.false_eq_true, if_false]
    refine ⟨?_, herr, ?_⟩
    · have := (e0.trans e1).trans e2
      simpa using this
    · have h1 := addMain_next (fresh s lab).1 (fresh s lab).2 shape v
      rw [hn] at h1
      exact Nat.le_trans (by omega) hnx

theorem form_comp {old : Cid → Prop} {a b c : List Cid} {k1 k2 : Cid → Bool} {n1 n2 : List Cid}
    (e1 : b = a.filter k1 ++ n1) (o1 : ∀ x ∈ n1, ¬ old x) (e2 : c = b.filter k2 ++ n2) (o2 : ∀ x ∈ n2, ¬ old x) :
    ∃ (k : Cid → Bool) (new : List Cid), c = a.filter k ++ new ∧ ∀ x ∈ new, ¬ old x := by
  refine ⟨fun x => k1 x && k2 x, n1.filter k2 ++ n2, ?_, ?_⟩
  · rw [e2, e1, List.filter_append, List.filter_filter, List.append_assoc]
    congr 2
    funext x
    exact Bool.and_comm _ _
  · intro x hx
    rcases List.mem_append.1 hx with hx | hx
    · exact o1 x (List.mem_filter.1 hx).1
    · exact o2 x hx

theorem ufStages_eff {old : Cid → Prop} {s : State} (hW : W s) (hb : ∀ c, old c → c < s.next) (o : Other) :
    Eff old s (ufStages s o).1 (ufStages s o).2 ∧ W (ufStages s o).1 ∧ s.next ≤ (ufStages s o).1.next := by
  simp only [ufStages, ufRemove, Res.bind]
  obtain ⟨e1, w1, n1⟩ := eff_removeAll (old := old) hW
    (((nonCoord s).filter fun c => !(o.comps.map (·.1)).contains (s.label c.cid)).map (·.cid))
  generalize (removeAll s (((nonCoord s).filter fun c => !(o.comps.map (·.1)).contains (s.label c.cid)).map (·.cid))) = r1
    at e1 w1 n1
  have hb1 : ∀ c, old c → c < r1.1.next := fun c hc => by rw [n1]; exact hb c hc
  -- stage 2
  have st2 : ∃ r2 : Res, (if (o.shape.length != s.shape.length) = true then ufDropCoords r1.1 else (r1.1, [])) = r2 ∧
      Eff old r1.1 r2.1 r2.2 ∧ W r2.1 ∧ r1.1.next ≤ r2.1.next := by
    split
    · refine ⟨_, rfl, ?_⟩
      simp only [ufDropCoords, Res.bind]
      obtain ⟨e2, w2, n2⟩ := eff_setCoords (old := old) w1 hb1 none
      generalize (setCoords r1.1 none) = ra at e2 w2 n2
      have hba : ∀ c, old c → c < ra.1.next := fun c hc => Nat.lt_of_lt_of_le (hb1 c hc) n2
      obtain ⟨e3, w3, n3⟩ := eff_removeAll (old := old) w2 ra.1.pix
      generalize (removeAll ra.1 ra.1.pix) = rb at e3 w3 n3
      have e4 : Eff old rb.1 { rb.1 with pix := [] } [] := Eff.silent rfl rfl (fun _ _ => rfl) rfl rfl rfl
      refine ⟨?_, ⟨w3.nodup, w3.fresh⟩, by simp only [n3]; exact n2⟩
      have := (e2.trans e3).trans e4
      simpa using this
    · exact ⟨_, rfl, Eff.refl old _, w1, Nat.le_refl _⟩
  obtain ⟨r2, hr2, e2, w2, n2⟩ := st2
  rw [hr2]
  have hb2 : ∀ c, old c → c < r2.1.next := fun c hc => Nat.lt_of_lt_of_le (hb1 c hc) n2
  -- stage 3
  simp only [ufReshape]
  have e3 : Eff old r2.1 { r2.1 with shape := o.shape } [] := Eff.silent rfl rfl (fun _ _ => rfl) rfl rfl rfl
  have w3 : W { r2.1 with shape := o.shape } := ⟨w2.nodup, w2.fresh⟩
  split
  · obtain ⟨e4, w4⟩ := eff_newPixels (old := old) w3 hb2 o.shape.length
    refine ⟨?_, w4, ?_⟩
    · have := ((e1.trans e2).trans e3).trans e4
      simpa using this
    · have : (newPixels { r2.1 with shape := o.shape } o.shape.length).1.next = r2.1.next + o.shape.length := rfl
      rw [this]; omega
  · refine ⟨?_, w3, ?_⟩
    · have := (e1.trans e2).trans e3
      simpa using this
    · simp only; omega

/-- The end of `update_values_from_data`: after the structural part `m1` come the label
announcement `L`, the structural messages `m2` of the `coords` setter, and
`NumericalDataChanged` `N`. -/
theorem facts_refresh_tail {s s5 s6 s7 : State} {m1 L m2 N : List Msg} {op : Op} (h : Inv s)
    (E1 : Eff (fun c => c < s.next) s s5 m1) (E2 : Eff (fun c => c < s.next) s6 s7 m2)
    (hc6 : s6.comps = s5.comps) (hh6 : s6.hub = s5.hub) (hl6 : ∀ c, s6.label c = s5.label c)
    (hk6 : s6.linked = s5.linked)
    (hL : L = if (s5.dlabel != s6.dlabel) = true then (if s5.hub = true then [Msg.update] else []) else [])
    (hN : N = if s7.hub = true then [Msg.numerical none] else [])
    (hop : op.isValueUpdate = true)
    (hord : ∀ a b, orderOk op a b = (b.filter a.contains == a.filter b.contains)) :
    Facts s s7 op (m1 ++ (L ++ m2 ++ N)) := by
  have hub7 : s7.hub = s.hub := (E2.hub.trans hh6).trans E1.hub
  have hLs : ∀ m ∈ L, m = Msg.update := by
    intro m hm; rw [hL] at hm
    split at hm
    · split at hm
      · simpa using hm
      · cases hm
    · cases hm
  have hNs : ∀ m ∈ N, m = Msg.numerical none := by
    intro m hm; rw [hN] at hm
    split at hm
    · simpa using hm
    · cases hm
  -- which messages can occur
  have hmem : ∀ m ∈ m1 ++ (L ++ m2 ++ N), Msg.isStructural m = true ∨ m = .update ∨ m = .numerical none := by
    intro m hm
    simp only [List.mem_append] at hm
    rcases hm with hm | (hm | hm) | hm
    · exact Or.inl (E1.structural m hm)
    · exact Or.inr (Or.inl (hLs m hm))
    · exact Or.inl (E2.structural m hm)
    · exact Or.inr (Or.inr (hNs m hm))
  have nr : ∀ c, Msg.rename c ∉ m1 ++ (L ++ m2 ++ N) := by
    intro c hc
    rcases hmem _ hc with h1 | h1 | h1 <;> cases h1
  have nx : Msg.ext ∉ m1 ++ (L ++ m2 ++ N) := by
    intro hc
    rcases hmem _ hc with h1 | h1 | h1 <;> cases h1
  have lab7 : ∀ c, c < s.next → s7.label c = s.label c := by
    intro c hc
    rw [E2.label c hc, hl6, E1.label c hc]
  have lk7 : s7.linked = s.linked := (E2.linked.trans hk6).trans E1.linked
  refine ⟨Or.inl hub7, ?_, ?_, ?_, ?_, ?_, ?_, ?_, ?_, numOnly_of_or (Or.inl hop), ?_, ?_⟩
  · intro hh
    have hs : s.hub = false := hub7 ▸ hh
    have h5 : s5.hub = false := E1.hub.trans hs
    have h6 : s6.hub = false := hh6.trans h5
    rw [E1.quiet hs, E2.quiet h6, hL, hN, hh, h5]
    simp
  · intro hh
    have hs : s.hub = true := hub7 ▸ hh
    have h5 : s5.hub = true := E1.hub.trans hs
    have h6 : s6.hub = true := hh6.trans h5
    have r1 := E1.rep hs
    have r2 := E2.rep h6
    rw [hc6] at r2
    have rL : Rep (cids s5.comps) (cids s5.comps) L := by
      rw [hL, h5]
      split
      · exact rep_skip rfl _
      · exact Rep.nil _
    have rN : Rep (cids s7.comps) (cids s7.comps) N := by
      rw [hN, hh]; exact rep_skip rfl _
    exact (r1.append ((rL.append r2).append rN)).done
  · rw [hord]
    obtain ⟨k1, n1, e1, o1⟩ := E1.form
    obtain ⟨k2, n2, e2, o2⟩ := E2.form
    rw [hc6] at e2
    obtain ⟨k, new, e, on⟩ := form_comp e1 o1 e2 o2
    exact order_of_form e (fun c hc hm => on c hc (h.fresh.1 c hm))
  · intro x' _ x hx hxc _
    rw [lab7 _ (h.fresh.1 _ (hxc ▸ List.mem_map.2 ⟨x, hx, rfl⟩))]
    simpa using nr x'.cid
  · intro x' _ _
    simpa using nr x'.cid
  · intro c hc; exact absurd hc (nr c)
  · intro hh
    have hs : s.hub = true := hub7 ▸ hh
    have h5 : s5.hub = true := E1.hub.trans hs
    have hd : s7.dlabel = s6.dlabel := E2.dlabel
    have hd5 : s5.dlabel = s.dlabel := E1.dlabel
    have n1 : Msg.update ∉ m1 := not_structural_mem E1.structural rfl
    have n2 : Msg.update ∉ m2 := not_structural_mem E2.structural rfl
    have nN : Msg.update ∉ N := by intro hc; cases hNs _ hc
    rw [hd, ← hd5]
    by_cases hch : (s5.dlabel != s6.dlabel) = true
    · have : Msg.update ∈ L := by rw [hL, if_pos hch, h5]; simp
      simp [hch, this]
    · have : Msg.update ∉ L := by rw [hL, if_neg hch]; simp
      have hch' : (s5.dlabel != s6.dlabel) = false := by simpa using hch
      simp [hch', this, n1, n2, nN]
  · intro x' _ _ _ _ hh
    right
    have : Msg.numerical none ∈ N := by rw [hN, hh]; simp
    simp only [numericalCovers, List.any_eq_true]
    exact ⟨.numerical none, by simp [this], rfl⟩
  · intro _ _ he; exact absurd he nx
  · intro _ _ hl; exact absurd lk7.symm hl

theorem facts_updateFrom {s : State} (h : Inv s) (o : Other)
    (he : (updateFromImpl s o).err = none) :
    Facts s (updateFromImpl s o).state (.updateFrom o) (updateFromImpl s o).msgs := by
  simp only [updateFromImpl] at he ⊢
  split at he
  · cases he
  rename_i hd1
  rw [if_neg hd1]
  split at he
  · cases he
  rename_i hd2
  rw [if_neg hd2]
  obtain ⟨e13, w13, n13⟩ := ufStages_eff (old := fun c => c < s.next) (W_of_inv h) (fun _ hc => hc) o
  obtain ⟨hI4, hsh⟩ := inv_ufRefreshed h o
  generalize hr3 : ufStages s o = r3 at e13 w13 n13 hI4 hsh he ⊢
  -- the refresh does not touch identifiers
  generalize hs4 : ({ r3.1 with comps := (applyRefresh r3.1
      (((nonCoord s).map (fun c => s.label c.cid)).filter (o.comps.map (·.1)).contains) o) } : State) = s4 at hI4 he ⊢
  have hcids4 : cids s4.comps = cids r3.1.comps := by
    rw [← hs4]
    simp only [applyRefresh, cids, List.map_map]
    apply List.map_congr_left
    intro c _
    simp only [Function.comp]
    split <;> rfl
  have e4 : Eff (fun c => c < s.next) r3.1 s4 [] := by
    rw [← hs4] at hcids4 ⊢
    exact Eff.silent hcids4 rfl (fun _ _ => rfl) rfl rfl rfl
  have hs4n : s4.next = r3.1.next := by rw [← hs4]
  have hs4s : s4.shape = o.shape := by rw [← hs4]; exact hsh
  obtain ⟨e5, herr5, hn5⟩ := eff_addNewOnes (old := fun c => c < s.next) o.shape
    (o.comps.filter fun p => !((nonCoord s).map (fun c => s.label c.cid)).contains p.1) hI4 hs4s
    (fun c hc => by rw [hs4n]; exact Nat.lt_of_lt_of_le hc n13)
  have hI5 := inv_addNewOnes o.shape
    (o.comps.filter fun p => !((nonCoord s).map (fun c => s.label c.cid)).contains p.1) hI4 hs4s
  generalize hr5 : addNewOnes s4 o.shape
    (o.comps.filter fun p => !((nonCoord s).map (fun c => s.label c.cid)).contains p.1) = r5 at e5 herr5 hn5 hI5 he ⊢
  rw [herr5] at he ⊢
  simp only [ok]
  -- E1: everything up to here
  have E1 : Eff (fun c => c < s.next) s r5.1 (r3.2 ++ r5.2.1) := by
    have := (e13.trans e4).trans e5
    simpa using this
  -- the tail
  have hb5 : ∀ c, c < s.next → c < r5.1.next := fun c hc => by
    have : s4.next ≤ r5.1.next := hn5
    rw [hs4n] at this
    omega
  have W5 := W_of_inv hI5
  simp only [ufFinish, Res.bind, setLabelImpl]
  by_cases hch : (r5.1.dlabel != o.label) = true
  · simp only [hch, if_true]
    obtain ⟨E2, _, _⟩ := eff_setCoords (old := fun c => c < s.next) (s := { r5.1 with dlabel := o.label })
      ⟨W5.nodup, W5.fresh⟩ hb5 o.coords
    refine facts_refresh_tail h E1 E2 rfl rfl (fun _ => rfl) rfl ?_ rfl rfl (fun _ _ => rfl)
    simp only [hch, if_true]
  · simp only [hch, Bool.false_eq_true, if_false]
    obtain ⟨E2, _, _⟩ := eff_setCoords (old := fun c => c < s.next) (s := r5.1) W5 hb5 o.coords
    refine facts_refresh_tail h E1 E2 rfl rfl (fun _ => rfl) rfl ?_ rfl rfl (fun _ _ => rfl)
    simp


/-! ## failed calls -/

theorem findIn_congr {lab1 lab2 : Cid → Label} (l : Label) : ∀ (tiers : List (List Cid)),
    (∀ t ∈ tiers, ∀ c ∈ t, lab1 c = lab2 c) → findIn lab1 l tiers = findIn lab2 l tiers
  | [], _ => rfl
  | t :: ts, h => by
    have ht : (t.filter fun c => lab1 c == l) = (t.filter fun c => lab2 c == l) := by
      apply List.filter_congr
      intro c hc
      rw [h t List.mem_cons_self c hc]
    simp only [findIn, ht]
    rw [findIn_congr l ts (fun t' ht' => h t' (List.mem_cons_of_mem _ ht'))]

/-- Allocating an identifier that is never stored is invisible. -/
theorem obs_fresh (probe : List Label) {s : State} (h : Inv s) (l : Label) :
    obs probe (fresh s l).1 = obs probe s := by
  have hlab : ∀ c, c < s.next → (fresh s l).1.label c = s.label c := by
    intro c hc
    simp only [State.label, fresh, List.lookup_cons]
    have : (c == s.next) = false := by simpa using (by omega : c ≠ s.next)
    simp [this]
  have hcl : ∀ c ∈ s.comps, (fresh s l).1.label c.cid = s.label c.cid :=
    fun c hc => hlab _ (h.fresh.1 _ (List.mem_map.2 ⟨c, hc, rfl⟩))
  simp only [obs]
  have e1 : (fresh s l).1.comps = s.comps := rfl
  have e2 : (fresh s l).1.shape = s.shape := rfl
  have e3 : (fresh s l).1.linked = s.linked := rfl
  congr 1
  · rw [e1, e2]
    apply List.map_congr_left
    intro c hc
    rw [hcl c hc]
  · rw [e3]
    apply List.map_congr_left
    intro c hc
    rw [hlab c (h.fresh.2 c hc)]
  · apply List.map_congr_left
    intro l' _
    congr 1
    simp only [findImpl]
    apply findIn_congr
    intro t ht c hc
    have hlt : c < s.next := by
      simp only [List.mem_cons, List.mem_nil_iff, or_false] at ht
      rcases ht with rfl | rfl | rfl | rfl
      · simp only [mainCids, fresh] at hc
        obtain ⟨y, hy, rfl, _⟩ := mem_cids_filter hc
        exact h.fresh.1 _ (List.mem_map.2 ⟨y, hy, rfl⟩)
      · simp only [derivedCids, fresh] at hc
        obtain ⟨y, hy, rfl, _⟩ := mem_cids_filter hc
        exact h.fresh.1 _ (List.mem_map.2 ⟨y, hy, rfl⟩)
      · simp only [coordCids, fresh] at hc
        obtain ⟨y, hy, rfl, _⟩ := mem_cids_filter hc
        exact h.fresh.1 _ (List.mem_map.2 ⟨y, hy, rfl⟩)
      · exact h.fresh.2 c hc
    exact hlab c hlt

theorem step_err (probe : List Label) {s : State} {op : Op} (h : Inv s) {e : Err}
    (he : (stepCore s op).err = some e) :
    obs probe (stepCore s op).state = obs probe s ∧ (stepCore s op).msgs = [] := by
  cases op with
  | addArray l shape val =>
    simp only [stepCore] at he ⊢
    split at he
    · rename_i hc; rw [if_pos hc]; exact ⟨rfl, rfl⟩
    · cases he
  | addArrayAt c shape val =>
    simp only [stepCore] at he ⊢
    split at he
    · rename_i hc; rw [if_pos hc]; exact ⟨rfl, rfl⟩
    · rename_i hc
      rw [if_neg hc]
      split at he
      · rename_i hc2; rw [if_pos hc2]; exact ⟨rfl, rfl⟩
      · cases he
  | addDerived v l deps =>
    simp only [stepCore, addDerivedImpl] at he ⊢
    split at he
    · rename_i hv
      rw [if_pos hv]
      split at he
      · rename_i hd; rw [if_pos hd]; exact ⟨obs_fresh probe h l, rfl⟩
      · rename_i hd
        rw [if_neg hd]
        split at he
        · rename_i hem; rw [if_pos hem]; exact ⟨obs_fresh probe h l, rfl⟩
        · cases he
    · rename_i hv
      rw [if_neg hv]
      split at he
      · rename_i hem; rw [if_pos hem]; exact ⟨rfl, rfl⟩
      · cases he
  | remove c =>
    simp only [stepCore] at he ⊢
    split at he
    · rename_i hc; rw [if_pos hc]; exact ⟨rfl, rfl⟩
    · cases he
  | reorder cs =>
    simp only [stepCore, reorderImpl] at he ⊢
    split at he
    · rename_i hc; rw [if_pos hc]; exact ⟨rfl, rfl⟩
    · rename_i hc
      rw [if_neg hc]
      split at he
      · rename_i hc2; rw [if_pos hc2]; exact ⟨rfl, rfl⟩
      · split at he <;> cases he
  | updateId old new =>
    simp only [stepCore] at he ⊢
    split at he
    · rename_i hc; rw [if_pos hc]; exact ⟨rfl, rfl⟩
    · cases he
  | updateComponents m =>
    simp only [stepCore, updateComponentsImpl] at he ⊢
    split at he
    · exact ⟨rfl, rfl⟩
    · cases he
  | updateFrom o =>
    by_cases hd1 : (!decide ((nonCoord s).map (fun c => s.label c.cid)).Nodup) = true
    · simp only [stepCore, updateFromImpl, hd1, if_true]; exact ⟨rfl, rfl⟩
    · by_cases hd2 : (!decide (o.comps.map (·.1)).Nodup) = true
      · simp only [stepCore, updateFromImpl, hd1, hd2, if_true, if_false]
        exact ⟨rfl, rfl⟩
      · exfalso
        -- no other failure is possible
        simp only [stepCore, updateFromImpl, hd1, hd2, if_false] at he
        obtain ⟨hI4, hsh⟩ := inv_ufRefreshed h o
        obtain ⟨_, herr5, _⟩ := eff_addNewOnes (old := fun c => c < s.next) o.shape
          (o.comps.filter fun p => !((nonCoord s).map (fun c => s.label c.cid)).contains p.1) hI4 hsh
          (fun c hc => by
            have := (ufStages_eff (old := fun c => c < s.next) (W_of_inv h) (fun _ hc => hc) o).2.2
            exact Nat.lt_of_lt_of_le hc this)
        rw [herr5] at he
        cases he
  | setCoords v => simp [stepCore, ok] at he
  | rename c l =>
    simp only [stepCore] at he
    split at he <;> cases he
  | setLabel l => simp [stepCore, ok] at he
  | attach =>
    simp only [stepCore] at he
    split at he <;> cases he
  | detach => simp [stepCore, ok] at he
  | register => simp [stepCore, ok] at he
  | setLinked cs =>
    simp only [stepCore] at he
    split at he <;> cases he
  | nop => simp [stepCore, ok] at he


/-! ## every successful call -/

theorem step_facts {s : State} {op : Op} (h : Inv s) (hids : ∀ c ∈ op.ids, c < s.next)
    (he : (stepCore s op).err = none) :
    Facts s (stepCore s op).state op (stepCore s op).msgs := by
  cases op with
  | addArray l shape val =>
    simp only [stepCore] at he ⊢
    split at he
    · cases he
    · rename_i hcan
      rw [if_neg hcan]
      simp only [ok]
      exact facts_addMain_fresh h _ l shape val (by simpa using hcan) (fun _ _ => rfl)
  | addArrayAt c shape val =>
    simp only [stepCore] at he ⊢
    split at he
    · cases he
    · rename_i hkind
      rw [if_neg hkind]
      split at he
      · cases he
      · rename_i hcan
        rw [if_neg hcan]
        simp only [ok]
        by_cases hin : c ∈ cids s.comps
        · have hne : s.comps ≠ [] := by
            intro he'; rw [he'] at hin; cases hin
          have hmain : ∀ x ∈ s.comps, x.cid = c → x.kind = .main := by
            intro x hx hxc
            simp only [List.any_eq_true, Bool.and_eq_true, beq_iff_eq, not_exists, not_and,
              Bool.not_eq_eq_eq_not, Bool.not_true] at hkind
            have := hkind x hx hxc
            cases hk : x.kind <;> simp_all [Kind.isMain]
          exact facts_addMain_replace h c hin hmain shape val (canAdd_nonempty h hne (by simpa using hcan))
        · exact facts_addMain_at h _ c (hids c (by simp [Op.ids])) hin shape val (by simpa using hcan) (fun _ _ => rfl)
  | addDerived v l deps =>
    simp only [stepCore, addDerivedImpl] at he ⊢
    split at he
    · rename_i hv
      rw [if_pos hv]
      split at he
      · cases he
      · rename_i hd
        rw [if_neg hd]
        split at he
        · cases he
        · rename_i hem
          rw [if_neg hem]
          simp only [ok]
          exact facts_addRaw_fresh h _ l (.derived deps) rfl (fun _ _ => rfl)
    · rename_i hv
      rw [if_neg hv]
      split at he
      · cases he
      · rename_i hem
        rw [if_neg hem]
        simp only [ok]
        exact facts_addRaw_fresh h _ l (.derived deps) rfl (fun _ _ => rfl)
  | remove c =>
    simp only [stepCore] at he ⊢
    split at he
    · cases he
    · rename_i hco
      rw [if_neg hco]
      exact facts_remove h c
  | reorder cs => exact facts_reorder h cs he
  | updateId old new =>
    simp only [stepCore] at he ⊢
    split at he
    · cases he
    · rename_i hnew
      rw [if_neg hnew]
      simp only [ok]
      by_cases heq : new = old
      · subst heq
        simp only [updateIdImpl, beq_self_eq_true, if_true]
        exact facts_silent h.nodup rfl rfl (fun _ _ => rfl) rfl (Or.inl rfl) (Or.inl rfl) (by simp [orderOk])
      · have hne : (new != old) = true := by simpa using heq
        simp only [hne, Bool.true_and, Bool.not_eq_true] at hnew
        exact facts_updateId h old new (by simpa using hnew) heq
  | updateComponents m =>
    simp only [stepCore, updateComponentsImpl] at he ⊢
    split at he
    · cases he
    · rename_i hchk
      exact facts_updateComponents h m hchk
  | updateFrom o => exact facts_updateFrom h o he
  | setCoords v => exact facts_setCoords h v
  | rename c l => exact facts_rename h c l
  | setLabel l => exact facts_setLabel h l
  | attach => exact facts_hubops h _ (Or.inl rfl)
  | detach => exact facts_hubops h _ (Or.inr (Or.inl rfl))
  | register => exact facts_hubops h _ (Or.inr (Or.inr (Or.inl rfl)))
  | setLinked cs => exact facts_setLinked h cs
  | nop => exact facts_hubops h _ (Or.inr (Or.inr (Or.inr rfl)))

/-- Each call whose arguments are known objects emits exactly the messages that explain what it
changed; a failed call changes and announces nothing. -/
theorem messagesCore_exact (probe : List Label) {s : State} {op : Op} (h : Inv s) (hids : ∀ c ∈ op.ids, c < s.next) :
    specStep (obs probe s) op (obs probe (stepCore s op).state) (stepCore s op).msgs (stepCore s op).err = true := by
  cases he : (stepCore s op).err with
  | none => exact specStep_of_facts probe (step_facts h hids he)
  | some e =>
    obtain ⟨h1, h2⟩ := step_err probe h he
    simp [specStep, h1, h2]

/-- Accounting for ComponentID objects the model has not seen yet is invisible. -/
theorem obs_alloc (probe : List Label) (s : State) (op : Op) : obs probe (alloc s op) = obs probe s := rfl

/-- **Each call emits exactly the messages that explain what it changed.** -/
theorem messages_exact (probe : List Label) {s : State} {op : Op} (h : Inv s) :
    specStep (obs probe s) op (obs probe (step s op).state) (step s op).msgs (step s op).err = true := by
  have := messagesCore_exact probe (inv_alloc h op) (alloc_ids s op)
  rw [obs_alloc] at this
  exact this

theorem trace_ok (probe : List Label) : ∀ (ops : List Op) {s : State}, Inv s →
    specTrace (obs probe s) (trace probe s ops) = true
  | [], s, h => by simpa [trace, specTrace] using inv_specInv probe s h
  | op :: ops, s, h => by
    simp only [trace, specTrace, Bool.and_eq_true]
    exact ⟨⟨inv_specInv probe s h, messages_exact probe h⟩, trace_ok probe ops (step_inv h)⟩

end GlueVerif.Lemmas.C17
