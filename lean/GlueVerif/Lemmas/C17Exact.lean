import GlueVerif.Lemmas.C17Msgs
/-!
Helper lemmas for C17, part 5: from state-level facts about one call to `specStep` on the
observations, and those facts for every call inside the hypothesis.
-/
namespace GlueVerif.Lemmas.C17
open GlueVerif.DataStruct

def oval (x : Comp) : Nat := if x.kind.isMain then x.val else 0

def ocomp (s : State) (x : Comp) : OComp := ⟨x.cid, s.label x.cid, x.kind, compShape s.shape x, oval x⟩

theorem obs_comps (probe : List Label) (s : State) : (obs probe s).comps = s.comps.map (ocomp s) := rfl

theorem lookupComp_obs (probe : List Label) (s : State) (c : Cid) :
    lookupComp (obs probe s) c = (s.comps.find? (fun x => x.cid == c)).map (ocomp s) := by
  simp only [lookupComp, obs_comps, List.find?_map]
  rfl

/-- State-level facts about one successful call. -/
structure Facts (s s' : State) (op : Op) (ms : List Msg) : Prop where
  hubOp : s'.hub = s.hub ∨ op.isHubOp = true
  quiet : s'.hub = false → ms = []
  rep : s'.hub = true → replay ms (cids s.comps) = some (cids s'.comps)
  order : orderOk op (cids s.comps) (cids s'.comps) = true
  labelOld : ∀ x' ∈ s'.comps, ∀ x ∈ s.comps, x.cid = x'.cid → s'.hub = true →
    ((s.label x'.cid != s'.label x'.cid) = ms.contains (.rename x'.cid))
  labelNew : ∀ x' ∈ s'.comps, x'.cid ∉ cids s.comps → ms.contains (.rename x'.cid) = false
  renamed : ∀ c, Msg.rename c ∈ ms → c ∈ cids s'.comps
  dlabel : s'.hub = true → ((s.dlabel != s'.dlabel) = ms.contains .update)
  values : ∀ x' ∈ s'.comps, ∀ x ∈ s.comps, x.cid = x'.cid → s'.hub = true →
    (x.kind = x'.kind ∧ compShape s.shape x = compShape s'.shape x' ∧ oval x = oval x') ∨
    numericalCovers ms x'.cid = true
  numOnly : op.isValueUpdate = true ∨ ∀ m ∈ ms, ∀ cs, m ≠ .numerical cs
  ext1 : s'.hub = true → s'.inDc = false → Msg.ext ∈ ms → s.linked ≠ s'.linked ∨ op.isLinkOp = true
  ext2 : s'.hub = true → s'.inDc = false → s.linked ≠ s'.linked → Msg.ext ∈ ms

theorem find_cid_none {cs : List Comp} {c : Cid} (h : cs.find? (fun x => x.cid == c) = none) : c ∉ cids cs := by
  intro hm
  obtain ⟨x, hx, _, _⟩ := find_cid hm
  rw [h] at hx; cases hx

theorem linked_obs (probe : List Label) (s : State) : (obs probe s).linked.map (·.1) = s.linked := by
  simp [obs, List.map_map, Function.comp_def]

theorem specStep_of_facts (probe : List Label) {s s' : State} {op : Op} {ms : List Msg}
    (f : Facts s s' op ms) : specStep (obs probe s) op (obs probe s') ms none = true := by
  have hhub : (obs probe s').hub = s'.hub := rfl
  have hhub0 : (obs probe s).hub = s.hub := rfl
  simp only [specStep, Option.isSome_none, Bool.false_eq_true, if_false, Bool.and_eq_true, hhub, hhub0,
    ocids_obs, linked_obs]
  refine ⟨⟨⟨⟨⟨⟨⟨⟨⟨⟨?_, ?_⟩, ?_⟩, f.order⟩, ?_⟩, ?_⟩, ?_⟩, ?_⟩, ?_⟩, ?_⟩, ?_⟩
  · rcases f.hubOp with h | h
    · simp [h]
    · simp [h]
  · cases hh : s'.hub
    · simp [f.quiet hh]
    · simp
  · cases hh : s'.hub
    · simp
    · simp [f.rep hh]
  · -- labels
    simp only [labelsOk, obs_comps, List.all_map, List.all_eq_true, Function.comp]
    intro x' hx'
    simp only [ocomp, lookupComp_obs]
    cases hf : s.comps.find? (fun x => x.cid == x'.cid) with
    | none =>
      simp only [Option.map_none]
      rw [f.labelNew x' hx' (find_cid_none hf)]; rfl
    | some x =>
      simp only [Option.map_some, ocomp]
      have hx : x ∈ s.comps := List.mem_of_find?_eq_some hf
      have hxc : x.cid = x'.cid := by simpa using List.find?_some hf
      cases hh : s'.hub
      · simp
      · simp only [Bool.not_true, Bool.false_or, beq_iff_eq]
        rw [hxc]
        exact f.labelOld x' hx' x hx hxc hh
  · simp only [List.all_eq_true]
    intro m hm
    cases m with
    | rename c => simpa using f.renamed c hm
    | _ => rfl
  · cases hh : s'.hub
    · simp
    · simp only [Bool.not_true, Bool.false_or, beq_iff_eq]
      exact f.dlabel hh
  · -- values
    simp only [valuesOk, obs_comps, List.all_map, List.all_eq_true, Function.comp]
    intro x' hx'
    simp only [ocomp, lookupComp_obs]
    cases hf : s.comps.find? (fun x => x.cid == x'.cid) with
    | none => rfl
    | some x =>
      simp only [Option.map_some, ocomp]
      have hx : x ∈ s.comps := List.mem_of_find?_eq_some hf
      have hxc : x.cid = x'.cid := by simpa using List.find?_some hf
      cases hh : s'.hub
      · simp
      · rcases f.values x' hx' x hx hxc hh with ⟨h1, h2, h3⟩ | h
        · simp [h1, h2, h3]
        · simp [h]
  · rcases f.numOnly with h | h
    · simp [h]
    · simp only [Bool.or_eq_true, List.all_eq_true]
      right
      intro m hm
      cases m with
      | numerical cs => exact absurd rfl (h _ hm cs)
      | _ => rfl
  · cases hh : s'.hub
    · simp
    · cases hd : s'.inDc
      · have hd' : (obs probe s').inDc = false := hd
        by_cases he : Msg.ext ∈ ms
        · rcases f.ext1 hh hd he with h | h
          · simp [h]
          · simp [h]
        · simp [he]
      · have hd' : (obs probe s').inDc = true := hd
        simp [hd']
  · cases hh : s'.hub
    · simp
    · cases hd : s'.inDc
      · have hd' : (obs probe s').inDc = false := hd
        by_cases hl : s.linked = s'.linked
        · simp [hl]
        · simp [f.ext2 hh hd hl]
      · have hd' : (obs probe s').inDc = true := hd
        simp [hd']


/-! ## facts from the effect of building blocks -/

theorem not_structural_mem {ms : List Msg} (h : ∀ m ∈ ms, Msg.isStructural m = true) {m : Msg}
    (hm : Msg.isStructural m = false) : m ∉ ms := by
  intro hmem
  rw [h m hmem] at hm; cases hm

theorem order_of_form {cur cur' : List Cid} {k : Cid → Bool} {new : List Cid}
    (he : cur' = cur.filter k ++ new) (hdisj : ∀ c ∈ new, c ∉ cur) :
    (cur'.filter cur.contains == cur.filter cur'.contains) = true := by
  simp only [beq_iff_eq]
  have h1 : cur'.filter cur.contains = cur.filter k := by
    rw [he, List.filter_append, List.filter_filter]
    have : new.filter cur.contains = [] := by
      rw [List.filter_eq_nil_iff]
      intro c hc; simpa using hdisj c hc
    rw [this, List.append_nil]
    apply List.filter_congr
    intro x hx
    simp [hx]
  have h2 : cur.filter cur'.contains = cur.filter k := by
    apply List.filter_congr
    intro x hx
    rw [he]
    simp only [List.contains_eq_mem, List.mem_append, List.mem_filter, hx, true_and]
    by_cases hk : k x = true
    · simp [hk]
    · have : x ∉ new := fun hn => hdisj x hn hx
      simp [hk, this]
  rw [h1, h2]

theorem facts_of_eff {s s' : State} {op : Op} {ms : List Msg} (h : Inv s) (old : Cid → Prop)
    (hold : ∀ c ∈ cids s.comps, old c) (e : Eff old s s' ms) (k : Keep old s s')
    (hshape : s'.shape = s.shape ∨ s.comps = [])
    (hop : ∀ a b, orderOk op a b = (b.filter a.contains == a.filter b.contains)) : Facts s s' op ms := by
  have nr : ∀ c, Msg.rename c ∉ ms := fun c => not_structural_mem e.structural rfl
  refine ⟨Or.inl e.hub, ?_, ?_, ?_, ?_, ?_, ?_, ?_, ?_, ?_, ?_, ?_⟩
  · intro hh; exact e.quiet (e.hub ▸ hh)
  · intro hh; exact (e.rep (e.hub ▸ hh)).done
  · rw [hop]
    obtain ⟨kf, new, he, hn⟩ := e.form
    exact order_of_form he (fun c hc hm => hn c hc (hold c hm))
  · intro x' _ x hx hxc _
    rw [e.label _ (hold _ (hxc ▸ List.mem_map.2 ⟨x, hx, rfl⟩))]
    simpa using nr x'.cid
  · intro x' _ _
    simpa using nr x'.cid
  · intro c hc; exact absurd hc (nr c)
  · intro _
    simpa [e.dlabel] using not_structural_mem e.structural (m := .update) rfl
  · intro x' hx' x hx hxc _
    left
    have hx'm : x' ∈ s.comps := k x' hx' (hold _ (hxc ▸ List.mem_map.2 ⟨x, hx, rfl⟩))
    have : x = x' := cid_inj h.nodup hx hx'm hxc
    subst this
    refine ⟨rfl, ?_, rfl⟩
    rcases hshape with hs | hs
    · rw [hs]
    · rw [hs] at hx; cases hx
  · right
    intro m hm cs hcs
    subst hcs
    exact not_structural_mem e.structural rfl hm
  · intro _ _ he
    exact absurd he (not_structural_mem e.structural rfl)
  · intro _ _ hl
    exact absurd e.linked.symm hl

/-! ## the simple calls -/

theorem orderOk_default_refl (op : Op) (a : List Cid) (hop : ∀ a b, orderOk op a b = (b.filter a.contains == a.filter b.contains)) :
    orderOk op a a = true := by
  rw [hop]; simp

/-- A call that neither touches the table nor talks to the hub about it. -/
theorem facts_silent {s s' : State} {op : Op} (hnd : (cids s.comps).Nodup) (hc : s'.comps = s.comps) (hs : s'.shape = s.shape)
    (hl : ∀ c ∈ cids s.comps, s'.label c = s.label c) (hd : s'.dlabel = s.dlabel)
    (hk : s'.linked = s.linked) (hh : s'.hub = s.hub ∨ op.isHubOp = true)
    (hord : orderOk op (cids s.comps) (cids s.comps) = true) : Facts s s' op [] := by
  refine ⟨hh, fun _ => rfl, fun _ => by rw [hc]; rfl, by rw [hc]; exact hord, ?_, ?_, ?_, ?_, ?_, ?_, ?_, ?_⟩
  · intro x' hx' x hx hxc _
    rw [hl _ (hxc ▸ List.mem_map.2 ⟨x, hx, rfl⟩)]; simp
  · intro _ _ _; rfl
  · intro c hc'; cases hc'
  · intro _; simp [hd]
  · intro x' hx' x hx hxc _
    left
    rw [hc] at hx'
    have : x = x' := cid_inj hnd hx hx' hxc
    subst this
    exact ⟨rfl, by rw [hs], rfl⟩
  · right; intro m hm; cases hm
  · intro _ _ he; cases he
  · intro _ _ hl'; exact absurd hk.symm hl'

end GlueVerif.Lemmas.C17
