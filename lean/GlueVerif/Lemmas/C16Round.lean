import GlueVerif.Model.C16FRB
import Mathlib.Tactic.Linarith
import Mathlib.Algebra.Order.Field.Rat
import Mathlib.Tactic.Push
/-!
# C16 — `np.round` on exact rationals is a nearest integer

`rne q` (floor-based, ties to even) lies within `1/2` of `q`; `Spec.nearestInts q` lists exactly the
integers within `1/2` of `q` (one, or two at a tie), and `rne q` is one of them.
-/
namespace GlueVerif.Lemmas.C16
open GlueVerif.FRB

theorem floor_bounds (q : Rat) : ((q.floor : Int) : Rat) ≤ q ∧ q < ((q.floor : Int) : Rat) + 1 := by
  refine ⟨Rat.floor_le q, ?_⟩
  have := Rat.lt_floor_add_one q
  push_cast at this
  exact this

theorem rne_cases (q : Rat) :
    (q - (q.floor : Rat) < 1 / 2 ∧ rne q = q.floor) ∨
    (1 / 2 < q - (q.floor : Rat) ∧ rne q = q.floor + 1) ∨
    (q - (q.floor : Rat) = 1 / 2 ∧ (rne q = q.floor ∨ rne q = q.floor + 1)) := by
  unfold rne
  dsimp only
  by_cases h1 : q - (q.floor : Rat) < 1 / 2
  · left; exact ⟨h1, by rw [if_pos h1]⟩
  · by_cases h2 : 1 / 2 < q - (q.floor : Rat)
    · right; left; exact ⟨h2, by rw [if_neg h1, if_pos h2]⟩
    · right; right
      refine ⟨by linarith [not_lt.mp h1, not_lt.mp h2], ?_⟩
      rw [if_neg h1, if_neg h2]
      split
      · left; rfl
      · right; rfl

/-- **`np.round` picks a nearest integer**: `|q − rne q| ≤ 1/2`. -/
theorem rne_nearest (q : Rat) : ((rne q : Int) : Rat) - 1 / 2 ≤ q ∧ q ≤ ((rne q : Int) : Rat) + 1 / 2 := by
  obtain ⟨hlo, hhi⟩ := floor_bounds q
  rcases rne_cases q with ⟨h, e⟩ | ⟨h, e⟩ | ⟨h, e | e⟩ <;> rw [e] <;> push_cast <;> constructor <;> linarith

/-- Every listed candidate is within `1/2` of `q`. -/
theorem nearestInts_sound (q : Rat) (i : Int) (hi : i ∈ Spec.nearestInts q) :
    (i : Rat) - 1 / 2 ≤ q ∧ q ≤ (i : Rat) + 1 / 2 := by
  obtain ⟨hlo, hhi⟩ := floor_bounds q
  unfold Spec.nearestInts at hi
  by_cases h1 : q - (q.floor : Rat) < 1 / 2
  · simp only [h1, if_true, List.mem_singleton] at hi
    subst hi; constructor <;> linarith
  · by_cases h2 : 1 / 2 < q - (q.floor : Rat)
    · simp only [h1, h2, if_true, if_false, List.mem_singleton] at hi
      subst hi; push_cast; constructor <;> linarith
    · simp only [h1, h2, if_false, List.mem_cons, List.mem_singleton, List.not_mem_nil, or_false] at hi
      have := not_lt.mp h1; have := not_lt.mp h2
      rcases hi with e | e <;> subst e <;> push_cast <;> constructor <;> linarith

/-- Every integer within `1/2` of `q` is listed. -/
theorem nearestInts_complete (q : Rat) (i : Int) (h1 : (i : Rat) - 1 / 2 ≤ q) (h2 : q ≤ (i : Rat) + 1 / 2) :
    i ∈ Spec.nearestInts q := by
  obtain ⟨hlo, hhi⟩ := floor_bounds q
  have hge : q.floor ≤ i := by
    have : ((q.floor : Int) : Rat) < (i : Rat) + 1 := by linarith
    have : q.floor < i + 1 := by exact_mod_cast this
    omega
  have hle : i ≤ q.floor + 1 := by
    have : (i : Rat) < ((q.floor : Int) : Rat) + 2 := by linarith
    have : i < q.floor + 2 := by exact_mod_cast this
    omega
  have hcase : i = q.floor ∨ i = q.floor + 1 := by omega
  unfold Spec.nearestInts
  by_cases c1 : q - (q.floor : Rat) < 1 / 2
  · simp only [c1, if_true, List.mem_singleton]
    rcases hcase with e | e
    · exact e
    · exfalso; rw [e] at h1; push_cast at h1; linarith
  · by_cases c2 : 1 / 2 < q - (q.floor : Rat)
    · simp only [c1, c2, if_true, if_false, List.mem_singleton]
      rcases hcase with e | e
      · exfalso; rw [e] at h2; linarith
      · exact e
    · simp only [c1, c2, if_false, List.mem_cons, List.mem_singleton, List.not_mem_nil, or_false]
      exact hcase

theorem rne_mem_nearestInts (q : Rat) : rne q ∈ Spec.nearestInts q :=
  nearestInts_complete q (rne q) (rne_nearest q).1 (rne_nearest q).2

/-- Off ties the nearest integer is unique: the Spec's candidates are just `rne q`. -/
theorem nearestInts_eq_of_not_tie (q : Rat) (h : q - (q.floor : Rat) ≠ 1 / 2) :
    Spec.nearestInts q = [rne q] := by
  rcases rne_cases q with ⟨c, e⟩ | ⟨c, e⟩ | ⟨c, _⟩
  · unfold Spec.nearestInts; dsimp only; rw [if_pos c, e]
  · have : ¬ q - (q.floor : Rat) < 1 / 2 := by linarith
    unfold Spec.nearestInts; dsimp only; rw [if_neg this, if_pos c, e]
  · exact absurd c h

end GlueVerif.Lemmas.C16
