import GlueVerif.Lemmas.C09Affine
import GlueVerif.Lemmas.C09Dispatch
/-!
Helper lemmas for C09: the corner polygon of a rotated rectangle.
`evenOdd (to_polygon rect) p` = the rotated-rectangle inequality, off the boundary: translate and
rotate back (`evenOdd_rot`), then the axis-aligned box by direct computation.
-/
namespace GlueVerif.C09.Lemmas

def box (hw hh : Rat) : List Pt := [⟨-hw, -hh⟩, ⟨hw, -hh⟩, ⟨hw, hh⟩, ⟨-hw, hh⟩, ⟨-hw, -hh⟩]

def boxBoundary (hw hh : Rat) (q : Pt) : Prop :=
  ((q.x = hw ∨ q.x = -hw) ∧ -hh ≤ q.y ∧ q.y ≤ hh) ∨ ((q.y = hh ∨ q.y = -hh) ∧ -hw ≤ q.x ∧ q.x ≤ hw)

theorem box_evenOdd (hw hh : Rat) (h0 : 0 ≤ hw) (h1 : 0 ≤ hh) (q : Pt) (hb : ¬ boxBoundary hw hh q) :
    evenOdd (box hw hh) q =
      (decide (-hw < q.x) && decide (q.x < hw) && decide (-hh < q.y) && decide (q.y < hh)) := by
  simp only [box, evenOdd, cyclicEdges, List.cons_append, List.nil_append, consecEdges, List.map_cons,
    List.map_nil, xorAll, crossH, bne_self_eq_false, Bool.false_and, Bool.false_bne, Bool.bne_false]
  generalize hA1 : decide (-hh ≥ q.y) = a1
  generalize hA2 : decide (hh ≥ q.y) = a2
  generalize hC2 : decide ((hh - q.y) * (hw - hw) ≥ (hw - q.x) * (-hh - hh)) = c2
  generalize hC4 : decide ((-hh - q.y) * (-hw - -hw) ≥ (-hw - q.x) * (hh - -hh)) = c4
  generalize hR1 : decide (-hw < q.x) = r1
  generalize hR2 : decide (q.x < hw) = r2
  generalize hR3 : decide (-hh < q.y) = r3
  generalize hR4 : decide (q.y < hh) = r4
  unfold boxBoundary at hb
  cases a1 <;> cases a2 <;> cases c2 <;> cases c4 <;> cases r1 <;> cases r2 <;> cases r3 <;> cases r4 <;>
    first
    | rfl
    | (exfalso
       simp only [decide_eq_true_eq, decide_eq_false_iff_not, ge_iff_le, not_le, not_lt] at hA1 hA2 hC2 hC4 hR1 hR2 hR3 hR4
       first
       | nlinarith
       | (apply hb; left; refine ⟨Or.inl (le_antisymm ?_ ?_), ?_, ?_⟩ <;> nlinarith)
       | (apply hb; left; refine ⟨Or.inr (le_antisymm ?_ ?_), ?_, ?_⟩ <;> nlinarith)
       | (apply hb; right; refine ⟨Or.inl (le_antisymm ?_ ?_), ?_, ?_⟩ <;> nlinarith))

theorem box_off_boundary (hw hh : Rat) (h0 : 0 ≤ hw) (h1 : 0 ≤ hh) (q : Pt) (hb : ¬ boxBoundary hw hh q) :
    onPolyBoundary (box hw hh) q = false := by
  unfold boxBoundary at hb
  simp only [box, onPolyBoundary, cyclicEdges, List.cons_append, List.nil_append, consecEdges, List.any_cons,
    List.any_nil, Bool.or_false, Bool.or_eq_false_iff]
  refine ⟨?_, ?_, ?_, ?_, ?_⟩ <;>
  · by_contra hc
    unfold onSeg at hc
    simp only [Bool.not_eq_false, Bool.and_eq_true, decide_eq_true_eq, min_le_iff, le_max_iff] at hc
    obtain ⟨⟨⟨⟨hcol, hx1⟩, hx2⟩, hy1⟩, hy2⟩ := hc
    apply hb
    rcases hx1 with hx1 | hx1 <;> rcases hx2 with hx2 | hx2 <;> rcases hy1 with hy1 | hy1 <;>
      rcases hy2 with hy2 | hy2 <;>
      first
      | (left; refine ⟨Or.inl (le_antisymm ?_ ?_), ?_, ?_⟩ <;> linarith)
      | (left; refine ⟨Or.inr (le_antisymm ?_ ?_), ?_, ?_⟩ <;> linarith)
      | (right; refine ⟨Or.inl (le_antisymm ?_ ?_), ?_, ?_⟩ <;> linarith)
      | (right; refine ⟨Or.inr (le_antisymm ?_ ?_), ?_, ?_⟩ <;> linarith)
      | (left; refine ⟨Or.inl (le_antisymm ?_ ?_), ?_, ?_⟩ <;> nlinarith)
      | (left; refine ⟨Or.inr (le_antisymm ?_ ?_), ?_, ?_⟩ <;> nlinarith)
      | (right; refine ⟨Or.inl (le_antisymm ?_ ?_), ?_, ?_⟩ <;> nlinarith)
      | (right; refine ⟨Or.inr (le_antisymm ?_ ?_), ?_, ?_⟩ <;> nlinarith)

theorem absQ_le (q h : Rat) : absQ q ≤ h ↔ -h ≤ q ∧ q ≤ h := by
  rw [absQ_eq_abs, abs_le]

theorem rot_unrot (c s : Rat) (hu : c * c + s * s = 1) (cx cy : Rat) (p : Pt) :
    trans cx cy (rot c s (unrot cx cy c s p)) = p := by
  unfold trans rot unrot
  cases p with
  | mk x y =>
    simp only [Pt.mk.injEq]
    constructor
    · linear_combination (x - cx) * hu
    · linear_combination (y - cy) * hu

/-- **The corner polygon of a rotated rectangle is the rotated rectangle**: for every unit vector
`(c, s)` with `s ≠ 0`, ordered bounds, and every point off the rectangle's boundary, matplotlib's
even-odd test on `RectangularROI.to_polygon()` equals `|u| < w/2 ∧ |v| < h/2` in the rectangle's
own frame; and the point is off the polygon's boundary. -/
theorem rotRect_evenOdd (xmin xmax ymin ymax c s : Rat) (hu : c * c + s * s = 1) (hs : s ≠ 0)
    (hx : xmin ≤ xmax) (hy : ymin ≤ ymax) (p : Pt)
    (hb : onBoundary (.rect xmin xmax ymin ymax c s) p = false) :
    evenOdd (roiToPolygon (.rect xmin xmax ymin ymax c s)) p = roiContains (.rect xmin xmax ymin ymax c s) p ∧
    onPolyBoundary (roiToPolygon (.rect xmin xmax ymin ymax c s)) p = false := by
  -- notation
  have hcx : xmin + (xmax - xmin) / 2 = (xmin + xmax) / 2 := by ring
  have hcy : ymin + (ymax - ymin) / 2 = (ymin + ymax) / 2 := by ring
  have hpoly : roiToPolygon (.rect xmin xmax ymin ymax c s) =
      ((box ((xmax - xmin) / 2) ((ymax - ymin) / 2)).map (rot c s)).map
        (trans ((xmin + xmax) / 2) ((ymin + ymax) / 2)) := by
    simp only [roiToPolygon, hs, if_false, box, List.map_cons, List.map_nil, rot, trans, hcx, hcy]
  have h0 : 0 ≤ (xmax - xmin) / 2 := by linarith
  have h1 : 0 ≤ (ymax - ymin) / 2 := by linarith
  have hp := rot_unrot c s hu ((xmin + xmax) / 2) ((ymin + ymax) / 2) p
  -- the boundary hypothesis in box form
  have hbb : ¬ boxBoundary ((xmax - xmin) / 2) ((ymax - ymin) / 2)
      (unrot ((xmin + xmax) / 2) ((ymin + ymax) / 2) c s p) := by
    intro hbox
    unfold onBoundary at hb
    simp only [Bool.or_eq_false_iff, Bool.and_eq_false_iff, decide_eq_false_iff_not] at hb
    unfold boxBoundary at hbox
    rcases hbox with ⟨he, hl1, hl2⟩ | ⟨he, hl1, hl2⟩
    · have h2 : absQ (unrot ((xmin + xmax) / 2) ((ymin + ymax) / 2) c s p).y ≤ (ymax - ymin) / 2 :=
        (absQ_le _ _).mpr ⟨hl1, hl2⟩
      have h3 : absQ (unrot ((xmin + xmax) / 2) ((ymin + ymax) / 2) c s p).x = (xmax - xmin) / 2 := by
        rw [absQ_eq_abs]
        rcases he with he | he
        · rw [he, abs_of_nonneg h0]
        · rw [he, abs_neg, abs_of_nonneg h0]
      rcases hb.1 with h | h
      · exact h h3
      · exact h h2
    · have h2 : absQ (unrot ((xmin + xmax) / 2) ((ymin + ymax) / 2) c s p).x ≤ (xmax - xmin) / 2 :=
        (absQ_le _ _).mpr ⟨hl1, hl2⟩
      have h3 : absQ (unrot ((xmin + xmax) / 2) ((ymin + ymax) / 2) c s p).y = (ymax - ymin) / 2 := by
        rw [absQ_eq_abs]
        rcases he with he | he
        · rw [he, abs_of_nonneg h1]
        · rw [he, abs_neg, abs_of_nonneg h1]
      rcases hb.2 with h | h
      · exact h h3
      · exact h h2
  have hoffbox := box_off_boundary _ _ h0 h1 _ hbb
  have hrot := evenOdd_rot c s hu hs _ _ hoffbox
  constructor
  · rw [hpoly]
    conv_lhs => rw [← hp]
    rw [evenOdd_map_exact _ (crossH_trans _ _), hrot.1, box_evenOdd _ _ h0 h1 _ hbb]
    unfold roiContains
    simp only
    rw [Bool.eq_iff_iff]
    simp only [Bool.and_eq_true, decide_eq_true_eq, absQ_lt]
    constructor
    · rintro ⟨⟨⟨a, b⟩, c'⟩, d⟩; exact ⟨⟨a, b⟩, c', d⟩
    · rintro ⟨⟨a, b⟩, c', d⟩; exact ⟨⟨⟨a, b⟩, c'⟩, d⟩
  · rw [hpoly]
    conv_lhs => rw [← hp]
    rw [onPolyBoundary_map _ (onSeg_trans _ _)]
    exact hrot.2

end GlueVerif.C09.Lemmas
