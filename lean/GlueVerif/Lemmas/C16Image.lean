import GlueVerif.Model.C16Image
import Mathlib.Tactic.Linarith
import Mathlib.Tactic.FieldSimp
import Mathlib.Tactic.Ring
import Mathlib.Algebra.Order.Field.Rat
import Mathlib.Tactic.Push
/-!
# C16 — `slice_to_bound`: the bounds built from a slice sample exactly `range(*slice.indices(size))`
-/
namespace GlueVerif.Lemmas.C16
open GlueVerif.FRB GlueVerif.FRB.Image
open GlueVerif.ArrayUtil (sliceIndices)

theorem linspace_arith (b st : Int) (n : Nat) :
    linspace (b : Rat) ((b + st * ((n : Int) - 1) : Int) : Rat) n =
      (List.range n).map fun (k : Nat) => ((b + st * (k : Int) : Int) : Rat) := by
  unfold linspace
  apply List.map_congr_left
  intro k hk
  have hk' : k < n := List.mem_range.mp hk
  by_cases h1 : n ≤ 1
  · have : k = 0 := by omega
    subst this
    simp [h1]
  · rw [if_neg h1]
    have hn : ((n : Rat) - 1) ≠ 0 := by
      have : (2 : Rat) ≤ (n : Rat) := by exact_mod_cast (by omega : 2 ≤ n)
      intro h; linarith
    push_cast
    field_simp
    ring

/-- **`slice_to_bound` (repaired tree)**: the bound built from a slice has exactly the sample
positions `range(*slc.indices(size))` — any start / stop / non-zero step, any size. -/
theorem sliceToBound_positions (s : PySl) (size : Nat) (b e st : Int)
    (h : sliceIndices s.start s.stop s.step size = some (b, e, st)) :
    ∃ bd, sliceToBound s size = .ok bd ∧ bd.positions = (pyRange b e st).map fun (k : Int) => (k : Rat) := by
  refine ⟨_, by simp only [sliceToBound, h]; rfl, ?_⟩
  simp only [Bound.positions, Int.toNat_natCast]
  rw [linspace_arith]
  simp only [pyRange, List.map_map]
  rfl

/-- A zero step is the only way `slice_to_bound` fails. -/
theorem sliceToBound_error (s : PySl) (size : Nat) (h : sliceIndices s.start s.stop s.step size = none) :
    sliceToBound s size = .error .valueError := by
  simp [sliceToBound, h]

end GlueVerif.Lemmas.C16

namespace GlueVerif.Lemmas.C16
open GlueVerif.FRB GlueVerif.FRB.Image
open GlueVerif.ArrayUtil (sliceIndices)

/-- Sample positions denoted by one entry of `full_view`. -/
def fvPositions (size : Nat) : FV → Option (List Rat)
  | .bound b => some b.positions
  | .sl s => (sliceIndices s.start s.stop s.step size).map fun t =>
      (pyRange t.1 t.2.1 t.2.2).map fun (k : Int) => (k : Rat)

theorem toBounds_positions (shape : List Nat) : ∀ (fvs : List FV) (o : Nat) (bs : List Bound),
    toBounds sliceToBound shape o fvs = .ok bs →
      bs.length = fvs.length ∧ ∀ j, j < fvs.length →
        fvPositions (shape.getD (o + j) 0) (fvs.getD j (.sl fullSlice)) = some (bs.getD j (.scalar 0)).positions
  | [], o, bs, h => by
    simp only [toBounds] at h; cases h
    exact ⟨rfl, fun j hj => by simp at hj⟩
  | .bound b :: rest, o, bs, h => by
    simp only [toBounds, bind, Except.bind] at h
    split at h
    · cases h
    · rename_i bs' hrest
      cases h
      obtain ⟨hl, hp⟩ := toBounds_positions shape rest (o + 1) bs' hrest
      refine ⟨by simp [hl], ?_⟩
      intro j hj
      cases j with
      | zero => simp [fvPositions]
      | succ j =>
        simp only [List.getD_cons_succ]
        have := hp j (by simpa using hj)
        rw [Nat.add_assoc, Nat.add_comm 1 j] at this
        exact this
  | .sl s :: rest, o, bs, h => by
    simp only [toBounds, bind, Except.bind] at h
    split at h
    · cases h
    · rename_i b hb
      split at h
      · cases h
      · rename_i bs' hrest
        cases h
        obtain ⟨hl, hp⟩ := toBounds_positions shape rest (o + 1) bs' hrest
        refine ⟨by simp [hl], ?_⟩
        intro j hj
        cases j with
        | zero =>
          simp only [List.getD_cons_zero, Nat.add_zero, fvPositions]
          cases hsi : sliceIndices s.start s.stop s.step (shape.getD o 0) with
          | none => rw [sliceToBound_error s _ hsi] at hb; cases hb
          | some t =>
            obtain ⟨b0, e0, st0⟩ := t
            obtain ⟨bd, hbd, hpos⟩ := sliceToBound_positions s _ b0 e0 st0 hsi
            rw [hbd] at hb; cases hb
            simp [hpos]
        | succ j =>
          simp only [List.getD_cons_succ]
          have := hp j (by simpa using hj)
          rw [Nat.add_assoc, Nat.add_comm 1 j] at this
          exact this

/-- The entry of `full_view` for reference axis `i` denotes the positions the Spec assigns to the
call along that axis. -/
theorem fullView_positions (w : World) (l : Layer) (c : Call) (fv : List FV) (agg : List (Option AggFn))
    (h : fullView (w.ndim l.ref) l c = .ok (fv, agg)) :
    fv.length = w.ndim l.ref ∧ ∀ i, i < w.ndim l.ref →
      fvPositions ((w.ds l.ref).shape.getD i 0) (fv.getD i (.sl fullSlice)) = Spec.positions w l c i := by
  -- all four successful branches of `fullView` have the form `put vy vx`
  have key : ∀ (vy vx : FV),
      (∀ size, fvPositions size vy = (match c.arg with
        | .bounds by_ _ => some by_.positions
        | .view v => fvPositions size (.sl (v.getD 0 fullSlice)))) →
      (∀ size, fvPositions size vx = (match c.arg with
        | .bounds _ bx => some bx.positions
        | .view v => fvPositions size (.sl (v.getD 1 fullSlice)))) →
      ∀ i, i < w.ndim l.ref →
        fvPositions ((w.ds l.ref).shape.getD i 0)
          (((List.range (w.ndim l.ref)).map fun i =>
            if i = l.yAxis then vy else if i = l.xAxis then vx else
              (((List.range (w.ndim l.ref)).map fun i =>
                if i = l.xAxis ∨ i = l.yAxis then ((FV.sl fullSlice, some none) : FV × Option (Option AggFn))
                else match c.slices.getD i (.index 0) with
                  | .agg a b st fn => (FV.sl ⟨a, b, st⟩, some (some fn))
                  | .index k => (FV.bound (.scalar (k : Int)), none)).getD i (FV.sl fullSlice, none)).1).getD i (.sl fullSlice))
          = Spec.positions w l c i := by
    intro vy vx hy hx i hi
    have e1 : ∀ (f : Nat → FV), ((List.range (w.ndim l.ref)).map f).getD i (.sl fullSlice) = f i := by
      intro f; simp [List.getD, hi]
    have e2 : ∀ (f : Nat → FV × Option (Option AggFn)),
        ((List.range (w.ndim l.ref)).map f).getD i (FV.sl fullSlice, none) = f i := by
      intro f; simp [List.getD, hi]
    rw [e1, e2]
    simp only [Spec.positions]
    by_cases hiy : i = l.yAxis
    · simp only [hiy, if_true]
      rw [hy]
      cases c.arg with
      | bounds by_ bx => simp
      | view v => simp [fvPositions]
    · simp only [hiy, if_false]
      by_cases hix : i = l.xAxis
      · simp only [hix, if_true]
        rw [hx]
        cases c.arg with
        | bounds by_ bx => simp
        | view v => simp [fvPositions]
      · simp only [hix, hiy, or_self, if_false]
        cases c.slices.getD i (.index 0) with
        | index k => simp [fvPositions, Bound.positions]
        | agg a b st fn => simp [fvPositions]
  simp only [fullView] at h
  cases harg : c.arg with
  | bounds by_ bx =>
    rw [harg] at h key
    simp only at h
    cases h
    exact ⟨by simp, key (.bound by_) (.bound bx) (fun _ => by simp [fvPositions]) (fun _ => by simp [fvPositions])⟩
  | view v =>
    rw [harg] at h key
    match v, h with
    | [], h =>
      cases h
      exact ⟨by simp, key (.sl fullSlice) (.sl fullSlice) (fun _ => by simp) (fun _ => by simp)⟩
    | [vy], h =>
      cases h
      exact ⟨by simp, key (.sl vy) (.sl fullSlice) (fun _ => by simp) (fun _ => by simp)⟩
    | [vy, vx], h =>
      cases h
      exact ⟨by simp, key (.sl vy) (.sl vx) (fun _ => by simp) (fun _ => by simp)⟩
    | _ :: _ :: _ :: _, h => cases h

/-- **The request `get_sliced_data` issues denotes the plane the call asks for**: it goes to the
layer's data in the frame of the reference data, with `broadcast=False` and the layer's cache id, and
along every reference axis its bound samples exactly the positions of the view slice
(`range(*slice.indices(size))`), the explicit bounds, the viewer's slice index, or the range of the
`AggregateSlice`. -/
theorem reqOf_denotes (w : World) (l : Layer) (c : Call) (r : Req) (agg : List (Option AggFn))
    (h : reqOf w l c = .ok (r, agg)) :
    r.data = l.data ∧ r.target = l.ref ∧ r.what = l.what ∧ r.broadcast = false ∧ r.cacheId = some 0 ∧
    r.bounds.length = w.ndim l.ref ∧
    ∀ i, i < w.ndim l.ref → Spec.positions w l c i = some (r.bounds.getD i (.scalar 0)).positions := by
  simp only [reqOf, reqOfWith, bind, Except.bind] at h
  split at h
  · cases h
  · rename_i p hfv
    obtain ⟨fv, agg'⟩ := p
    simp only at h
    split at h
    · cases h
    · rename_i bs hbs
      cases h
      obtain ⟨hlen, hpos⟩ := fullView_positions w l c fv _ hfv
      obtain ⟨hl, hp⟩ := toBounds_positions (w.ds l.ref).shape fv 0 bs hbs
      refine ⟨rfl, rfl, rfl, rfl, rfl, by simp [hl, hlen], ?_⟩
      intro i hi
      rw [← hpos i hi]
      have := hp i (by rw [hlen]; exact hi)
      simpa using this

end GlueVerif.Lemmas.C16
