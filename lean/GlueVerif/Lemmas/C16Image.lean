import GlueVerif.Model.C16Image
import Mathlib.Tactic.Linarith
import Mathlib.Tactic.FieldSimp
import Mathlib.Tactic.Ring
import Mathlib.Algebra.Order.Field.Rat
import Mathlib.Tactic.Push
/-!
# C16 — `slice_to_bound`: the bounds built from a slice sample exactly `range(*slice.indices(size))`
-/
namespace GlueVerif.Lemmas.C16
open GlueVerif.FRB GlueVerif.FRB.Image
open GlueVerif.ArrayUtil (sliceIndices)

theorem linspace_arith (b st : Int) (n : Nat) :
    linspace (b : Rat) ((b + st * ((n : Int) - 1) : Int) : Rat) n =
      (List.range n).map fun (k : Nat) => ((b + st * (k : Int) : Int) : Rat) := by
  unfold linspace
  apply List.map_congr_left
  intro k hk
  have hk' : k < n := List.mem_range.mp hk
  by_cases h1 : n ≤ 1
  · have : k = 0 := by omega
    subst this
    simp [h1]
  · rw [if_neg h1]
    have hn : ((n : Rat) - 1) ≠ 0 := by
      have : (2 : Rat) ≤ (n : Rat) := by exact_mod_cast (by omega : 2 ≤ n)
      intro h; linarith
    push_cast
    field_simp
    ring

/-- **`slice_to_bound` (repaired tree)**: the bound built from a slice has exactly the sample
positions `range(*slc.indices(size))` — any start / stop / non-zero step, any size. -/
theorem sliceToBound_positions (s : PySl) (size : Nat) (b e st : Int)
    (h : sliceIndices s.start s.stop s.step size = some (b, e, st)) :
    ∃ bd, sliceToBound s size = .ok bd ∧ bd.positions = (pyRange b e st).map fun (k : Int) => (k : Rat) := by
  refine ⟨_, by simp only [sliceToBound, h]; rfl, ?_⟩
  simp only [Bound.positions, Int.toNat_natCast]
  rw [linspace_arith]
  simp only [pyRange, List.map_map]
  rfl

/-- A zero step is the only way `slice_to_bound` fails. -/
theorem sliceToBound_error (s : PySl) (size : Nat) (h : sliceIndices s.start s.stop s.step size = none) :
    sliceToBound s size = .error .valueError := by
  simp [sliceToBound, h]

end GlueVerif.Lemmas.C16
