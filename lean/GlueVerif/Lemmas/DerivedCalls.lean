import GlueVerif.Lemmas.DerivedTable
import GlueVerif.Lemmas.DerivedOrder
/-! Lemmas for C14: the public calls as repaired (F20 / F21 / F22) — refusals, agreement of
`implCall` with `specCall`, unique identifiers as an invariant of every call. -/
set_option linter.unusedSectionVars false
set_option linter.unusedSimpArgs false
namespace GlueVerif.Derived

section calls
variable {κ ω α : Type} [DecidableEq κ]

theorem find_some_of_mem : ∀ (t : Table κ ω α) (k : κ), k ∈ t.keys → ∃ c, t.find k = some c
  | [], _, h => by simp [Table.keys] at h
  | (k', c') :: rest, k, h => by
    by_cases e : k' = k
    · exact ⟨c', by simp [Table.find, e]⟩
    · simp only [Table.keys, List.map_cons, List.mem_cons] at h
      have hr : k ∈ Table.keys rest := by
        rcases h with h | h
        · exact absurd h.symm e
        · exact h
      obtain ⟨c, hc⟩ := find_some_of_mem rest k hr
      exact ⟨c, by simp [Table.find, e, hc]⟩

theorem not_mem_of_find_none (t : Table κ ω α) (k : κ) (h : t.find k = none) : k ∉ t.keys := by
  intro hk
  obtain ⟨c, hc⟩ := find_some_of_mem t k hk
  rw [h] at hc
  cases hc

theorem contains_keys_iff (t : Table κ ω α) (k : κ) : t.keys.contains k = true ↔ k ∈ t.keys := by
  simp

/-- `update_id` on an identifier that is not a component rebuilds nothing. -/
theorem updateId_absent (b : Bool) (t : Table κ ω α) (old new : κ) (h : old ∉ t.keys) :
    updateId b t old new = t := by
  have hc : t.keys.contains old = false := by simpa using h
  unfold updateId
  by_cases e : new = old
  · simp [e]
  · simp [e, h]

/-- The accepted `update_id`: `new` is then not a component, and the call is the pure renaming. -/
theorem updateIdCall_some (t t' : Table κ ω α) (old new : κ) (hne : new ≠ old)
    (h : updateIdCall t old new = some t') : new ∉ t.keys ∧ t' = updateId true t old new := by
  unfold updateIdCall at h
  by_cases hm : new ∈ t.keys
  · simp [hne, hm] at h
  · simp [hne, hm] at h
    exact ⟨hm, h.symm⟩

theorem updateIdCall_none (t : Table κ ω α) (old new : κ) :
    updateIdCall t old new = none ↔ new ≠ old ∧ new ∈ t.keys := by
  unfold updateIdCall
  by_cases e : new = old
  · simp [e]
  · by_cases hc : t.keys.contains new = true
    · simp only [e, hc, if_false, if_true, ne_eq, not_false_eq_true, true_and, true_iff]
      simpa using hc
    · have : new ∉ t.keys := fun hm => hc (by simpa using hm)
      simp [e, hc, this]

theorem removeCall_none (fuel : Nat) (t : Table κ ω α) (k : κ) :
    removeCall fuel t k = none ↔ ∃ c, t.find k = some c ∧ c.isCoord = true := by
  unfold removeCall
  cases hf : t.find k with
  | none => simp
  | some c =>
    by_cases hc : c.isCoord = true
    · simp [hc]
    · simp [hc]

theorem addComp_none (t : Table κ ω α) (k : κ) (c : Comp κ ω α) :
    addComp t k c = none ↔ ∃ cur, t.find k = some cur ∧ kindClash cur c = true := by
  unfold addComp
  cases hf : t.find k with
  | none => simp
  | some cur =>
    by_cases hc : kindClash cur c = true
    · simp [hc]
    · simp [hc]

/-- **Impl = Spec for every call** on a table with unique identifiers. -/
theorem implCall_eq_specCall (t : Table κ ω α) (hnd : t.keys.Nodup) :
    ∀ c : Call κ ω α, implCall t c = specCall t c
  | .add k c => by
    simp only [implCall, specCall, addLink, addComp, specSet]
  | .addRaw k c => by simp only [implCall, specCall, addComp, specSet]
  | .remove k => by
    simp only [implCall, specCall, removeCall]
    cases hf : t.find k with
    | none =>
      simp only
      rw [removeComp_absent _ t k (not_mem_of_find_none t k hf)]
    | some c =>
      simp only
      rw [removeComp_eq_filter (t.length + 1) t k (Nat.le_succ _) (find_some_mem_keys t k c hf)]
  | .update o n => by
    simp only [implCall, specCall, updateIdCall]
    by_cases e : n = o
    · simp [e]
    · have e' : ¬ o = n := fun h => e h.symm
      by_cases hn : n ∈ t.keys
      · simp [e, e', hn]
      · by_cases ho : o ∈ t.keys
        · simp [e, e', hn, ho, updateId_eq_specRename t o n e ho hn hnd]
        · simp [e, e', hn, ho, updateId_absent true t o n ho]
  | .reorder pref ex => by
    simp only [implCall, specCall]
    exact reorderComps_eq_spec t _ hnd

/-! ### unique identifiers are kept by every call -/

theorem set_keys : ∀ (t : Table κ ω α) (k : κ) (c : Comp κ ω α),
    (t.set k c).keys = if k ∈ t.keys then t.keys else t.keys ++ [k]
  | [], k, c => by simp [Table.set, Table.keys]
  | (k', c') :: rest, k, c => by
    by_cases e : k' = k
    · simp [Table.set, Table.keys, e]
    · have ih := set_keys rest k c
      have e' : ¬ k = k' := fun h => e h.symm
      simp only [Table.keys] at ih
      simp only [Table.set, e, if_false, Table.keys, List.map_cons, List.mem_cons, e', false_or, ih]
      by_cases hm : k ∈ List.map (·.1) rest
      · simp [hm]
      · simp [hm]

theorem set_nodup (t : Table κ ω α) (k : κ) (c : Comp κ ω α) (hnd : t.keys.Nodup) :
    (t.set k c).keys.Nodup := by
  rw [set_keys]
  by_cases hm : k ∈ t.keys
  · simpa [hm] using hnd
  · simp only [hm, if_false]
    rw [List.nodup_append]
    refine ⟨hnd, by simp, ?_⟩
    intro a ha b hb
    simp only [List.mem_singleton] at hb
    subst hb
    exact fun h => hm (h ▸ ha)

theorem filter_keys_nodup (t : Table κ ω α) (P : κ × Comp κ ω α → Bool) (hnd : t.keys.Nodup) :
    (Table.keys (t.filter P)).Nodup := by
  have hs : List.Sublist (Table.keys (t.filter P)) t.keys := by
    simp only [Table.keys]
    exact (List.filter_sublist).map _
  exact hs.nodup hnd

theorem specSet_nodup (t : Table κ ω α) (k : κ) (c : Comp κ ω α) (t' : Table κ ω α)
    (hnd : t.keys.Nodup) (h : specSet t k c = some t') : t'.keys.Nodup := by
  unfold specSet at h
  split at h
  · split at h
    · cases h
    · simp only [Option.some.injEq] at h; subst h; exact set_nodup t k c hnd
  · simp only [Option.some.injEq] at h; subst h; exact set_nodup t k c hnd

/-- Every call keeps the identifiers unique (accepted or refused). -/
theorem after_specCall_nodup (t : Table κ ω α) (hnd : t.keys.Nodup) (c : Call κ ω α) :
    (t.after (specCall t c)).keys.Nodup := by
  cases hr : specCall t c with
  | none => exact hnd
  | some t' =>
    simp only [Table.after]
    cases c with
    | add k c =>
      simp only [specCall] at hr
      split at hr
      · split at hr
        · exact specSet_nodup t k c t' hnd hr
        · cases hr
      · exact specSet_nodup t k c t' hnd hr
    | addRaw k c =>
      simp only [specCall] at hr
      exact specSet_nodup t k c t' hnd hr
    | remove k =>
      simp only [specCall] at hr
      cases hf : t.find k with
      | none => simp only [hf, Option.some.injEq] at hr; subst hr; exact hnd
      | some cur =>
        simp only [hf] at hr
        split at hr
        · cases hr
        · simp only [Option.some.injEq] at hr; subst hr; exact filter_keys_nodup t _ hnd
    | update o n =>
      simp only [specCall] at hr
      split at hr
      · simp only [Option.some.injEq] at hr; subst hr; exact hnd
      · split at hr
        · cases hr
        · rename_i hn
          split at hr
          · simp only [Option.some.injEq] at hr; subst hr
            have hn' : n ∉ t.keys := fun hm => hn (by simpa using hm)
            have := rename_keys_nodup o n t hnd hn'
            rw [specRename_keys]
            simpa [Table.keys, List.map_map, Function.comp_def, apply_ite] using this
          · simp only [Option.some.injEq] at hr; subst hr; exact hnd
    | reorder pref ex =>
      simp only [specCall, specReorder] at hr
      split at hr
      · rename_i hp
        simp only [Option.some.injEq] at hr; subst hr
        have hp' := List.isPerm_iff.mp hp
        rw [(pick_is_perm t _ hnd hp').2]
        exact hp'.nodup_iff.mpr hnd
      · cases hr

end calls

end GlueVerif.Derived
