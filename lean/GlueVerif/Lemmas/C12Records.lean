import GlueVerif.Model.C12Records
/-!
Helper lemmas for C12, part 3: `load_v (save_v x) = project_v x` for the record-format model of
`Data` (protocols 1–5) and `DataCollection` (protocols 1–4).  Core Lean only.
-/
namespace GlueVerif.C12.Records.Lemmas
open GlueVerif.C12.Records

/-! ## generic: mapM of a saver followed by mapM of a loader -/

theorem mapM_roundtrip {α β γ : Type} (f : α → Option β) (g : β → Option γ) (h : α → γ) :
    ∀ (l : List α), (∀ a ∈ l, ∃ b, f a = some b ∧ g b = some (h a)) →
    ∃ bs, l.mapM f = some bs ∧ bs.mapM g = some (l.map h) := by
  intro l
  induction l with
  | nil => intro _; exact ⟨[], rfl, rfl⟩
  | cons a r ih =>
    intro hall
    obtain ⟨b, hb1, hb2⟩ := hall a List.mem_cons_self
    obtain ⟨bs, h1, h2⟩ := ih (fun x hx => hall x (List.mem_cons_of_mem _ hx))
    refine ⟨b :: bs, ?_, ?_⟩
    · simp [List.mapM_cons, hb1, h1]
    · simp [List.mapM_cons, hb2, h2]

/-! ## Data -/

/-- joins a protocol-3 record can hold -/
def singleJoins (d : DataO) : Prop := ∀ j ∈ d.joins, ∃ a b, j.own = [a] ∧ j.theirs = [b]

theorem saveJoin3_roundtrip : ∀ (js : List Join), (∀ j ∈ js, ∃ a b, j.own = [a] ∧ j.theirs = [b]) →
    ∃ rs, js.mapM saveJoin3 = some rs ∧ rs.map loadJoin = js := by
  intro js
  induction js with
  | nil => intro _; exact ⟨[], rfl, rfl⟩
  | cons j r ih =>
    intro hall
    obtain ⟨a, b, ha, hb⟩ := hall j List.mem_cons_self
    obtain ⟨rs, h1, h2⟩ := ih (fun x hx => hall x (List.mem_cons_of_mem _ hx))
    refine ⟨.single j.other a b :: rs, ?_, ?_⟩
    · have : saveJoin3 j = some (.single j.other a b) := by simp [saveJoin3, ha, hb]
      simp [List.mapM_cons, this, h1]
    · simp only [List.map_cons, loadJoin, h2]
      congr 1
      cases j
      simp_all

theorem tupleJoins_roundtrip (js : List Join) :
    List.map (loadJoin ∘ fun j => JoinRec.tuple j.other j.own j.theirs) js = js := by
  induction js with
  | nil => rfl
  | cons j r ih => simp only [List.map_cons, Function.comp, loadJoin] at ih ⊢; rw [ih]

theorem data_roundtrip (v : Nat) (hv : 1 ≤ v ∧ v ≤ 5) (d : DataO) (hj : v = 3 → singleJoins d) :
    ∃ r, saveData v d = some r ∧ loadData r = some (projectData v d) := by
  obtain ⟨h1, h5⟩ := hv
  have : v = 1 ∨ v = 2 ∨ v = 3 ∨ v = 4 ∨ v = 5 := by omega
  rcases this with rfl | rfl | rfl | rfl | rfl
  · exact ⟨_, rfl, by simp [saveData1, loadData, loadData1, projectData]⟩
  · exact ⟨_, rfl, by simp [saveData2, saveData1, loadData, loadData2, loadData1, projectData]⟩
  · obtain ⟨rs, hs, hl⟩ := saveJoin3_roundtrip d.joins (hj rfl)
    refine ⟨{ saveData2 d with protocol := 3, keyJoins := some rs }, ?_, ?_⟩
    · simp [saveData, saveData3, hs]
    · simp [saveData2, saveData1, loadData, loadData3, loadData2, loadData1, projectData, hl]
  · refine ⟨_, rfl, ?_⟩
    simp [saveData4, saveData2, saveData1, loadData, loadData4, loadData2, loadData1, projectData]
    exact ⟨tupleJoins_roundtrip d.joins, by cases d.uuid <;> rfl⟩
  · refine ⟨_, rfl, ?_⟩
    simp [saveData5, saveData4, saveData2, saveData1, loadData, loadData5, loadData4, loadData2,
      loadData1, projectData]
    exact ⟨tupleJoins_roundtrip d.joins, by cases d.uuid <;> rfl⟩

/-! ## links -/

theorem externalOf_derived : ∀ (i : Nat) (ds : List DataO), externalOf (derivedLinksFrom i ds) = [] := by
  intro i ds
  induction ds generalizing i with
  | nil => rfl
  | cons d r ih =>
    simp only [derivedLinksFrom, externalOf, List.filterMap_append, List.filterMap_map] at ih ⊢
    rw [ih (i + 1)]
    simp only [List.append_nil]
    induction d.derived with
    | nil => rfl
    | cons x xs ihx => simp

theorem externalOf_same (ls : List Link) : externalOf (ls.map LinkRec.same) = ls := by
  induction ls with
  | nil => rfl
  | cons l r ih => simp only [externalOf, List.map_cons, List.filterMap_cons] at ih ⊢; rw [ih]

theorem externalOf_allLinks (dc : DCO) : externalOf (allLinks dc) = dc.links := by
  simp only [allLinks]
  have := externalOf_derived 0 dc.data
  simp only [externalOf, List.filterMap_append] at this ⊢
  rw [this]
  simpa [externalOf] using externalOf_same dc.links

theorem keepFrom_all (ls : List LinkRec) (f : DataO → DataO) (hf : ∀ d, (f d).derived = d.derived) :
    ∀ (i : Nat) (ds : List DataO), (∀ x ∈ derivedLinksFrom i ds, x ∈ ls) →
    keepFrom ls i (ds.map f) = ds.map f := by
  intro i ds
  induction ds generalizing i with
  | nil => intro _; rfl
  | cons d r ih =>
    intro hall
    simp only [List.map_cons, keepFrom]
    congr 1
    · simp only [keepInternal]
      have : (f d).derived.filter (fun der => ls.contains (LinkRec.derived i der.label)) = (f d).derived := by
        apply List.filter_eq_self.mpr
        intro der hder
        rw [hf d] at hder
        have : LinkRec.derived i der.label ∈ ls := by
          apply hall
          simp only [derivedLinksFrom, List.mem_append, List.mem_map]
          exact Or.inl ⟨der, hder, rfl⟩
        simpa using this
      rw [this]
    · apply ih (i + 1)
      intro x hx
      apply hall
      simp only [derivedLinksFrom, List.mem_append]
      exact Or.inr hx

theorem projectData_derived (v : Nat) (d : DataO) : (projectData v d).derived = d.derived := rfl

/-! ## DataCollection -/

/-- objects the pair (cv, dv) can represent, as a proposition -/
def Representable (cv dv : Nat) (dc : DCO) : Prop :=
  (dv = 3 → ∀ d ∈ dc.data, singleJoins d) ∧ (cv = 1 → dc.groups = [])

theorem dc_roundtrip (cv dv : Nat) (hc : 1 ≤ cv ∧ cv ≤ 4) (hd : 1 ≤ dv ∧ dv ≤ 5) (dc : DCO)
    (hrep : Representable cv dv dc) :
    ∃ r, saveDC cv dv dc = some r ∧ loadDC r = some (projectDC cv dv dc) := by
  obtain ⟨rs, hs, hl⟩ := mapM_roundtrip (saveData dv) loadData (projectData dv) dc.data
    (fun d hdm => data_roundtrip dv hd d (fun h3 => hrep.1 h3 d hdm))
  have hkeep : keepFrom (allLinks dc) 0 (dc.data.map (projectData dv)) = dc.data.map (projectData dv) :=
    keepFrom_all _ _ (projectData_derived dv) 0 dc.data (by
      intro x hx
      simp only [allLinks, List.mem_append]
      exact Or.inl hx)
  have hext := externalOf_allLinks dc
  obtain ⟨h1, h4⟩ := hc
  have : cv = 1 ∨ cv = 2 ∨ cv = 3 ∨ cv = 4 := by omega
  rcases this with rfl | rfl | rfl | rfl
  · refine ⟨{ protocol := 1, data := rs, links := allLinks dc, groups := none, sgCount := none }, ?_, ?_⟩
    · simp [saveDC, saveDC1, hs]
    · simp [loadDC, loadDC1, hl, hkeep, hext, projectDC]
  · refine ⟨{ protocol := 2, data := rs, links := allLinks dc, groups := some dc.groups, sgCount := none }, ?_, ?_⟩
    · simp [saveDC, saveDC2, saveDC1, hs]
    · simp [loadDC, loadDC2, loadDCgrouped, hl, hkeep, hext, projectDC]
  · refine ⟨{ protocol := 3, data := rs, links := allLinks dc, groups := some dc.groups,
              sgCount := some dc.sgCount }, ?_, ?_⟩
    · simp [saveDC, saveDC3, saveDC2, saveDC1, hs]
    · simp [loadDC, loadDC3, loadDC2, loadDCgrouped, hl, hkeep, hext, projectDC]
  · refine ⟨{ protocol := 4, data := rs, links := dc.links.map LinkRec.same, groups := some dc.groups,
              sgCount := some dc.sgCount }, ?_, ?_⟩
    · simp [saveDC, saveDC4, hs]
    · simp [loadDC, loadDC4, hl, externalOf_same, projectDC]

theorem representable_spec (cv dv : Nat) (dc : DCO) (h : representable cv dv dc = true) :
    Representable cv dv dc := by
  simp only [representable, Bool.and_eq_true, Bool.or_eq_true, bne_iff_ne, ne_eq,
    List.all_eq_true, beq_iff_eq] at h
  refine ⟨?_, ?_⟩
  · intro h3 d hdm j hj
    cases h.1 with
    | inl hne => exact absurd h3 hne
    | inr hall =>
      obtain ⟨ho, ht⟩ := hall d hdm j hj
      have ho' : ∃ a, j.own = [a] := List.length_eq_one_iff.mp ho
      have ht' : ∃ b, j.theirs = [b] := List.length_eq_one_iff.mp ht
      obtain ⟨a, ha⟩ := ho'
      obtain ⟨b, hb⟩ := ht'
      exact ⟨a, b, ha, hb⟩
  · intro h1
    have := h.2
    simp only [h1, if_true, List.isEmpty_iff] at this
    exact this

end GlueVerif.C12.Records.Lemmas
