import GlueVerif.Model.C12Records
/-!
Helper lemmas for C12, part 3: `load_v (save_v x) = project_v x` for the record-format model of
`Data` (protocols 1–5) and `DataCollection` (protocols 1–4).  Core Lean only.
-/
namespace GlueVerif.C12.Records.Lemmas
open GlueVerif.C12.Records

/-! ## generic: mapM of a saver followed by mapM of a loader -/

theorem mapM_roundtrip {α β γ : Type} (f : α → Option β) (g : β → Option γ) (h : α → γ) :
    ∀ (l : List α), (∀ a ∈ l, ∃ b, f a = some b ∧ g b = some (h a)) →
    ∃ bs, l.mapM f = some bs ∧ bs.mapM g = some (l.map h) := by
  intro l
  induction l with
  | nil => intro _; exact ⟨[], rfl, rfl⟩
  | cons a r ih =>
    intro hall
    obtain ⟨b, hb1, hb2⟩ := hall a List.mem_cons_self
    obtain ⟨bs, h1, h2⟩ := ih (fun x hx => hall x (List.mem_cons_of_mem _ hx))
    refine ⟨b :: bs, ?_, ?_⟩
    · simp [List.mapM_cons, hb1, h1]
    · simp [List.mapM_cons, hb2, h2]

/-! ## Data -/

/-- joins a protocol-3 record can hold -/
def singleJoins (d : DataO) : Prop := ∀ j ∈ d.joins, ∃ a b, j.own = [a] ∧ j.theirs = [b]

theorem saveJoin3_roundtrip : ∀ (js : List Join), (∀ j ∈ js, ∃ a b, j.own = [a] ∧ j.theirs = [b]) →
    ∃ rs, js.mapM saveJoin3 = some rs ∧ rs.map loadJoin = js := by
  intro js
  induction js with
  | nil => intro _; exact ⟨[], rfl, rfl⟩
  | cons j r ih =>
    intro hall
    obtain ⟨a, b, ha, hb⟩ := hall j List.mem_cons_self
    obtain ⟨rs, h1, h2⟩ := ih (fun x hx => hall x (List.mem_cons_of_mem _ hx))
    refine ⟨.single j.other a b :: rs, ?_, ?_⟩
    · have : saveJoin3 j = some (.single j.other a b) := by simp [saveJoin3, ha, hb]
      simp [List.mapM_cons, this, h1]
    · simp only [List.map_cons, loadJoin, h2]
      congr 1
      cases j
      simp_all

theorem tupleJoins_roundtrip (js : List Join) :
    List.map (loadJoin ∘ fun j => JoinRec.tuple j.other j.own j.theirs) js = js := by
  induction js with
  | nil => rfl
  | cons j r ih => simp only [List.map_cons, Function.comp, loadJoin] at ih ⊢; rw [ih]

theorem data_roundtrip (v : Nat) (hv : 1 ≤ v ∧ v ≤ 5) (d : DataO) (hj : v = 3 → singleJoins d) :
    ∃ r, saveData v d = some r ∧ loadData r = some (projectData v d) := by
  obtain ⟨h1, h5⟩ := hv
  have : v = 1 ∨ v = 2 ∨ v = 3 ∨ v = 4 ∨ v = 5 := by omega
  rcases this with rfl | rfl | rfl | rfl | rfl
  · exact ⟨_, rfl, by simp [saveData1, loadData, loadData1, projectData]⟩
  · exact ⟨_, rfl, by simp [saveData2, saveData1, loadData, loadData2, loadData1, projectData]⟩
  · obtain ⟨rs, hs, hl⟩ := saveJoin3_roundtrip d.joins (hj rfl)
    refine ⟨{ saveData2 d with protocol := 3, keyJoins := some rs }, ?_, ?_⟩
    · simp [saveData, saveData3, hs]
    · simp [saveData2, saveData1, loadData, loadData3, loadData2, loadData1, projectData, hl]
  · refine ⟨_, rfl, ?_⟩
    simp [saveData4, saveData2, saveData1, loadData, loadData4, loadData2, loadData1, projectData]
    exact ⟨tupleJoins_roundtrip d.joins, by cases d.uuid <;> rfl⟩
  · refine ⟨_, rfl, ?_⟩
    simp [saveData5, saveData4, saveData2, saveData1, loadData, loadData5, loadData4, loadData2,
      loadData1, projectData]
    exact ⟨tupleJoins_roundtrip d.joins, by cases d.uuid <;> rfl⟩

/-! ## generic: what `mapM` tells about the elements -/

theorem mapM_map_eq {α β γ : Type} (f : α → Option β) (g : β → γ) (h : α → γ) :
    ∀ (l : List α) (bs : List β), (∀ a ∈ l, ∀ b, f a = some b → g b = h a) →
    l.mapM f = some bs → bs.map g = l.map h := by
  intro l
  induction l with
  | nil => intro bs _ hbs; simp at hbs; subst hbs; rfl
  | cons a r ih =>
    intro bs hf hbs
    simp only [List.mapM_cons] at hbs
    cases hfa : f a with
    | none => simp [hfa] at hbs
    | some b =>
      cases hr : r.mapM f with
      | none => simp [hfa, hr] at hbs
      | some bs' =>
        simp [hfa, hr] at hbs
        subst hbs
        simp only [List.map_cons, hf a List.mem_cons_self b hfa,
          ih bs' (fun x hx => hf x (List.mem_cons_of_mem _ hx)) hr]

theorem mapM_none_of_mem {α β : Type} (f : α → Option β) :
    ∀ (l : List α) (a : α), a ∈ l → f a = none → l.mapM f = none := by
  intro l
  induction l with
  | nil => intro a ha; cases ha
  | cons x r ih =>
    intro a ha hfa
    simp only [List.mapM_cons]
    cases hx : f x with
    | none => rfl
    | some b =>
      rcases List.mem_cons.mp ha with rfl | hr
      · simp [hfa] at hx
      · simp [ih a hr hfa]

theorem saveData_protocol (v : Nat) (d : DataO) (r : DataRec) (h : saveData v d = some r) :
    r.protocol = v := by
  unfold saveData at h
  split at h
  · cases h; rfl
  · cases h; rfl
  · simp only [saveData3] at h
    cases hj : d.joins.mapM saveJoin3 with
    | none => simp [hj] at h
    | some js => simp [hj] at h; subst h; rfl
  · cases h; rfl
  · cases h; rfl
  · cases h

/-! ## links -/

/-- the links of the derived components of datasets `i, i+1, …` -/
def derLinksFrom : Nat → List DataO → List CLink
  | _, [] => []
  | i, d :: r => d.derived.map (·.link i) ++ derLinksFrom (i + 1) r

theorem loadedLinks_links (ls : List CLink) : loadedLinks (ls.map LinkRec.link) = some ls := by
  induction ls with
  | nil => rfl
  | cons l r ih => simp [loadedLinks, ih]

theorem loadedLinks_append (a b : List LinkRec) (x y : List CLink)
    (ha : loadedLinks a = some x) (hb : loadedLinks b = some y) :
    loadedLinks (a ++ b) = some (x ++ y) := by
  induction a generalizing x with
  | nil => simp [loadedLinks] at ha; subst ha; simpa using hb
  | cons l r ih =>
    cases l with
    | coord i p => simp only [List.cons_append, loadedLinks] at ha ⊢; exact ih x ha
    | link l =>
      simp only [List.cons_append, loadedLinks] at ha ⊢
      cases hr : loadedLinks r with
      | none => simp [hr] at ha
      | some x' =>
        simp [hr] at ha
        subst ha
        simp [ih x' hr]
    | helper e => simp [loadedLinks] at ha

theorem loadedLinks_dataLinks (i : Nat) (d : DataO) :
    loadedLinks (dataLinks i d) = some (d.derived.map (·.link i)) := by
  unfold dataLinks
  have h := loadedLinks_links (d.derived.map (·.link i))
  simp only [List.map_map] at h
  cases d.coords with
  | false => simpa [Function.comp_def] using h
  | true => simpa [loadedLinks, Function.comp_def] using h

theorem loadedLinks_dataLinksFrom : ∀ (i : Nat) (ds : List DataO),
    loadedLinks (dataLinksFrom i ds) = some (derLinksFrom i ds) := by
  intro i ds
  induction ds generalizing i with
  | nil => rfl
  | cons d r ih =>
    simp only [dataLinksFrom, derLinksFrom]
    exact loadedLinks_append _ _ _ _ (loadedLinks_dataLinks i d) (ih (i + 1))

theorem loadedLinks_allLinks (dc : DCO) :
    loadedLinks (allLinks dc) = some (derLinksFrom 0 dc.data ++ dc.links.flatMap Ext.flatten) :=
  loadedLinks_append _ _ _ _ (loadedLinks_dataLinksFrom 0 dc.data) (loadedLinks_links _)

/-- the link of a derived component never crosses datasets -/
theorem crossing_der (i : Nat) (der : Der) : crossing (der.link i) = false := by
  cases der <;> simp [Der.link, crossing]

theorem crossing_derLinksFrom : ∀ (i : Nat) (ds : List DataO), ∀ l ∈ derLinksFrom i ds, crossing l = false := by
  intro i ds
  induction ds generalizing i with
  | nil => intro l hl; cases hl
  | cons d r ih =>
    intro l hl
    simp only [derLinksFrom, List.mem_append, List.mem_map] at hl
    rcases hl with ⟨der, _, rfl⟩ | hr
    · exact crossing_der i der
    · exact ih (i + 1) l hr

theorem filter_crossing_split (D F : List CLink) (hD : ∀ l ∈ D, crossing l = false)
    (hF : ∀ l ∈ F, crossing l = true) :
    (D ++ F).filter crossing = F ∧ (D ++ F).filter (fun l => !crossing l) = D := by
  refine ⟨?_, ?_⟩
  · rw [List.filter_append, List.filter_eq_nil_iff.mpr (by intro l hl; simp [hD l hl]),
      List.filter_eq_self.mpr hF, List.nil_append]
  · rw [List.filter_append, List.filter_eq_self.mpr (by intro l hl; simp [hD l hl]),
      List.filter_eq_nil_iff.mpr (by intro l hl; simp [hF l hl]), List.append_nil]

theorem keepFrom_all (internal : List CLink) :
    ∀ (i : Nat) (ds : List DataO), (∀ x ∈ derLinksFrom i ds, x ∈ internal) →
    keepFrom internal i ds = ds := by
  intro i ds
  induction ds generalizing i with
  | nil => intro _; rfl
  | cons d r ih =>
    intro hall
    simp only [keepFrom]
    congr 1
    · simp only [keepInternal]
      have : d.derived.filter (fun der => internal.contains (der.link i)) = d.derived := by
        apply List.filter_eq_self.mpr
        intro der hder
        have : der.link i ∈ internal := by
          apply hall
          simp only [derLinksFrom, List.mem_append, List.mem_map]
          exact Or.inl ⟨der, hder, rfl⟩
        simpa using this
      rw [this]
    · apply ih (i + 1)
      intro x hx
      apply hall
      simp only [derLinksFrom, List.mem_append]
      exact Or.inr hx

theorem derLinksFrom_projectDatas : ∀ (ds : List DataO) (dvs : List Nat) (i : Nat),
    dvs.length = ds.length → derLinksFrom i (projectDatas dvs ds) = derLinksFrom i ds := by
  intro ds
  induction ds with
  | nil => intro dvs i _; cases dvs <;> rfl
  | cons d r ih =>
    intro dvs i hlen
    cases dvs with
    | nil => cases hlen
    | cons v vs =>
      have hl : vs.length = r.length := by simpa using hlen
      have := ih vs (i + 1) hl
      simp only [projectDatas] at this
      simp only [projectDatas, List.zip_cons_cons, List.map_cons, derLinksFrom, this]
      rfl

theorem loadedExt_extRec (ls : List Ext) : loadedExt (ls.map extRec) = some ls := by
  induction ls with
  | nil => rfl
  | cons e r ih => cases e <;> simp [extRec, loadedExt, ih]

/-! ## DataCollection -/

/-- objects the assignment (cv, dvs) can represent, as a proposition -/
structure Representable (cv : Nat) (dvs : List Nat) (dc : DCO) : Prop where
  len : dvs.length = dc.data.length
  joins : ∀ p ∈ dc.data.zip dvs, p.2 = 3 → singleJoins p.1
  groups : cv = 1 → dc.groups = []
  cross : cv ≤ 3 → ∀ l ∈ dc.links.flatMap Ext.flatten, crossing l = true

theorem datas_roundtrip (dvs : List Nat) (hd : ∀ v ∈ dvs, 1 ≤ v ∧ v ≤ 5) (ds : List DataO)
    (hlen : dvs.length = ds.length) (hj : ∀ p ∈ ds.zip dvs, p.2 = 3 → singleJoins p.1) :
    ∃ rs, saveDatas dvs ds = some rs ∧ rs.map (·.protocol) = dvs ∧
      rs.mapM loadData = some (projectDatas dvs ds) := by
  obtain ⟨rs, hs, hl⟩ := mapM_roundtrip (fun p : DataO × Nat => saveData p.2 p.1) loadData
    (fun p => projectData p.2 p.1) (ds.zip dvs)
    (fun p hp => data_roundtrip p.2 (hd p.2 (List.of_mem_zip hp).2) p.1 (hj p hp))
  refine ⟨rs, ?_, ?_, hl⟩
  · simp [saveDatas, hlen, hs]
  · have := mapM_map_eq (fun p : DataO × Nat => saveData p.2 p.1) (·.protocol) (·.2)
      (ds.zip dvs) rs (fun p _ r h => saveData_protocol p.2 p.1 r h) hs
    rw [this]
    exact List.map_snd_zip (by omega)

theorem dc_roundtrip (cv : Nat) (dvs : List Nat) (hc : 1 ≤ cv ∧ cv ≤ 4)
    (hd : ∀ v ∈ dvs, 1 ≤ v ∧ v ≤ 5) (dc : DCO) (hrep : Representable cv dvs dc) :
    ∃ r, saveDC cv dvs dc = some r ∧ r.protocol = cv ∧ r.data.map (·.protocol) = dvs ∧
      loadDC r = some (projectDC cv dvs dc) := by
  obtain ⟨rs, hs, hp, hl⟩ := datas_roundtrip dvs hd dc.data hrep.len hrep.joins
  have hll := loadedLinks_allLinks dc
  have hkeep : keepFrom (derLinksFrom 0 dc.data) 0 (projectDatas dvs dc.data) = projectDatas dvs dc.data :=
    keepFrom_all _ 0 _ (by
      rw [derLinksFrom_projectDatas dc.data dvs 0 hrep.len]
      intro x hx; exact hx)
  obtain ⟨h1, h4⟩ := hc
  have : cv = 1 ∨ cv = 2 ∨ cv = 3 ∨ cv = 4 := by omega
  rcases this with rfl | rfl | rfl | rfl
  · obtain ⟨hE, hI⟩ := filter_crossing_split _ _ (crossing_derLinksFrom 0 dc.data) (hrep.cross (by omega))
    refine ⟨{ protocol := 1, data := rs, links := allLinks dc, groups := none, sgCount := none }, ?_, rfl, hp, ?_⟩
    · simp [saveDC, saveDC1, hs]
    · simp [loadDC, assembleDC, assembleDC1, hl, hll, hE, hI, hkeep, projectDC]
  · obtain ⟨hE, hI⟩ := filter_crossing_split _ _ (crossing_derLinksFrom 0 dc.data) (hrep.cross (by omega))
    refine ⟨{ protocol := 2, data := rs, links := allLinks dc, groups := some dc.groups, sgCount := none }, ?_, rfl, hp, ?_⟩
    · simp [saveDC, saveDC2, saveDC1, hs]
    · simp [loadDC, assembleDC, assembleDC2, assembleDCgrouped, hl, hll, hE, hI, hkeep, projectDC]
  · obtain ⟨hE, hI⟩ := filter_crossing_split _ _ (crossing_derLinksFrom 0 dc.data) (hrep.cross (by omega))
    refine ⟨{ protocol := 3, data := rs, links := allLinks dc, groups := some dc.groups,
              sgCount := some dc.sgCount }, ?_, rfl, hp, ?_⟩
    · simp [saveDC, saveDC3, saveDC2, saveDC1, hs]
    · simp [loadDC, assembleDC, assembleDC3, assembleDC2, assembleDCgrouped, hl, hll, hE, hI, hkeep, projectDC]
  · refine ⟨{ protocol := 4, data := rs, links := dc.links.map extRec, groups := some dc.groups,
              sgCount := some dc.sgCount }, ?_, rfl, hp, ?_⟩
    · simp [saveDC, saveDC4, hs]
    · simp [loadDC, assembleDC, assembleDC4, hl, loadedExt_extRec, projectDC]

theorem representable_spec (cv : Nat) (dvs : List Nat) (dc : DCO) (h : representable cv dvs dc = true) :
    Representable cv dvs dc := by
  simp only [representable, Bool.and_eq_true, Bool.or_eq_true, bne_iff_ne, ne_eq,
    List.all_eq_true, beq_iff_eq] at h
  obtain ⟨⟨⟨hlen, hj⟩, hg⟩, hx⟩ := h
  refine ⟨hlen, ?_, ?_, ?_⟩
  · intro p hp h3 j hjm
    cases hj p hp with
    | inl hne => exact absurd h3 hne
    | inr hall =>
      obtain ⟨ho, ht⟩ := hall j hjm
      obtain ⟨a, ha⟩ := List.length_eq_one_iff.mp ho
      obtain ⟨b, hb⟩ := List.length_eq_one_iff.mp ht
      exact ⟨a, b, ha, hb⟩
  · intro h1
    simp only [h1, if_true, List.isEmpty_iff] at hg
    exact hg
  · intro h3 l hl
    simp only [h3, if_true, List.all_eq_true] at hx
    exact hx l hl

/-! ## the unserializer state machine loads record-wise -/

/-- every memoised object is what the loader of its record's own protocol returns -/
def CtxInv (doc : Doc) (c : Ctx) : Prop :=
  (∀ k i d, c.datas.lookup (k, i) = some d →
    ∃ r dr, doc[k]? = some r ∧ r.data[i]? = some dr ∧ loadData dr = some d) ∧
  (∀ k x, c.colls.lookup k = some x → ∃ r, doc[k]? = some r ∧ loadDC r = some x)

theorem ctxInv_empty (doc : Doc) : CtxInv doc Ctx.empty :=
  ⟨fun _ _ _ h => by simp [Ctx.empty] at h, fun _ _ h => by simp [Ctx.empty] at h⟩

theorem objectData_spec (doc : Doc) (c : Ctx) (k i : Nat) (r : DCRec) (dr : DataRec)
    (hinv : CtxInv doc c) (hr : doc[k]? = some r) (hdr : r.data[i]? = some dr) :
    match c.objectData k i dr with
    | some (c', d) => CtxInv doc c' ∧ loadData dr = some d
    | none => loadData dr = none := by
  cases hl : c.datas.lookup (k, i) with
  | some d =>
    obtain ⟨r', dr', h1, h2, h3⟩ := hinv.1 k i d hl
    rw [hr] at h1; cases h1
    rw [hdr] at h2; cases h2
    simp only [Ctx.objectData, hl]
    exact ⟨hinv, h3⟩
  | none =>
    cases hd : loadData dr with
    | none => simp only [Ctx.objectData, hl, hd]
    | some d =>
      simp only [Ctx.objectData, hl, hd]
      refine ⟨⟨?_, hinv.2⟩, trivial⟩
      intro k' i' d' hl'
      simp only [List.lookup_cons] at hl'
      split at hl'
      · rename_i heq
        have : (k', i') = (k, i) := by simpa using heq
        cases this; cases hl'
        exact ⟨r, dr, hr, hdr, hd⟩
      · exact hinv.1 k' i' d' hl'

theorem objectDatas_spec (doc : Doc) (k : Nat) (r : DCRec) (hr : doc[k]? = some r) :
    ∀ (ps : List (DataRec × Nat)) (c : Ctx), CtxInv doc c → (∀ p ∈ ps, r.data[p.2]? = some p.1) →
    match Ctx.objectDatas k c ps with
    | some (c', ds) => CtxInv doc c' ∧ (ps.map (·.1)).mapM loadData = some ds
    | none => (ps.map (·.1)).mapM loadData = none := by
  intro ps
  induction ps with
  | nil => intro c hinv _; exact ⟨hinv, rfl⟩
  | cons p rest ih =>
    intro c hinv hall
    obtain ⟨dr, i⟩ := p
    have h1 := objectData_spec doc c k i r dr hinv hr (hall (dr, i) List.mem_cons_self)
    cases ho : c.objectData k i dr with
    | none =>
      rw [ho] at h1
      simp only [Ctx.objectDatas, ho, List.map_cons, List.mapM_cons]
      simp [h1]
    | some res =>
      obtain ⟨c1, d⟩ := res
      rw [ho] at h1
      obtain ⟨hinv1, hd⟩ := h1
      have h2 := ih c1 hinv1 (fun p hp => hall p (List.mem_cons_of_mem _ hp))
      cases hos : Ctx.objectDatas k c1 rest with
      | none =>
        rw [hos] at h2
        simp only [Ctx.objectDatas, ho, hos, List.map_cons, List.mapM_cons]
        simp [hd, h2]
      | some res2 =>
        obtain ⟨c2, ds⟩ := res2
        rw [hos] at h2
        simp only [Ctx.objectDatas, ho, hos, List.map_cons, List.mapM_cons]
        refine ⟨h2.1, ?_⟩
        simp [hd, h2.2]

theorem objectColl_spec (doc : Doc) (c : Ctx) (k : Nat) (r : DCRec)
    (hinv : CtxInv doc c) (hr : doc[k]? = some r) :
    match c.objectColl k r with
    | some (c', x) => CtxInv doc c' ∧ loadDC r = some x
    | none => loadDC r = none := by
  cases hl : c.colls.lookup k with
  | some x =>
    obtain ⟨r', h1, h2⟩ := hinv.2 k x hl
    rw [hr] at h1; cases h1
    simp only [Ctx.objectColl, hl]
    exact ⟨hinv, h2⟩
  | none =>
    have h1 := objectDatas_spec doc k r hr r.data.zipIdx c hinv
      (fun p hp => List.mem_zipIdx_iff_getElem?.mp hp)
    rw [List.zipIdx_map_fst] at h1
    cases hos : Ctx.objectDatas k c r.data.zipIdx with
    | none =>
      rw [hos] at h1
      simp only [Ctx.objectColl, hl, hos]
      simp [loadDC, h1]
    | some res =>
      obtain ⟨c1, ds⟩ := res
      rw [hos] at h1
      obtain ⟨hinv1, hds⟩ := h1
      cases ha : assembleDC r ds with
      | none =>
        simp only [Ctx.objectColl, hl, hos, ha]
        simp [loadDC, hds, ha]
      | some x =>
        simp only [Ctx.objectColl, hl, hos, ha]
        have hx : loadDC r = some x := by simp [loadDC, hds, ha]
        refine ⟨⟨hinv1.1, ?_⟩, hx⟩
        intro k' x' hl'
        simp only [List.lookup_cons] at hl'
        split at hl'
        · rename_i heq
          have : k' = k := by simpa using heq
          cases this; cases hl'
          exact ⟨r, hr, hx⟩
        · exact hinv1.2 k' x' hl'

theorem objectColls_spec (doc : Doc) :
    ∀ (ps : List (DCRec × Nat)) (c : Ctx), CtxInv doc c → (∀ p ∈ ps, doc[p.2]? = some p.1) →
    match Ctx.objectColls c ps with
    | some (c', xs) => CtxInv doc c' ∧ (ps.map (·.1)).mapM loadDC = some xs
    | none => (ps.map (·.1)).mapM loadDC = none := by
  intro ps
  induction ps with
  | nil => intro c hinv _; exact ⟨hinv, rfl⟩
  | cons p rest ih =>
    intro c hinv hall
    obtain ⟨r, k⟩ := p
    have h1 := objectColl_spec doc c k r hinv (hall (r, k) List.mem_cons_self)
    cases ho : c.objectColl k r with
    | none =>
      rw [ho] at h1
      simp only [Ctx.objectColls, ho, List.map_cons, List.mapM_cons]
      simp [h1]
    | some res =>
      obtain ⟨c1, x⟩ := res
      rw [ho] at h1
      obtain ⟨hinv1, hx⟩ := h1
      have h2 := ih c1 hinv1 (fun p hp => hall p (List.mem_cons_of_mem _ hp))
      cases hos : Ctx.objectColls c1 rest with
      | none =>
        rw [hos] at h2
        simp only [Ctx.objectColls, ho, hos, List.map_cons, List.mapM_cons]
        simp [hx, h2]
      | some res2 =>
        obtain ⟨c2, xs⟩ := res2
        rw [hos] at h2
        simp only [Ctx.objectColls, ho, hos, List.map_cons, List.mapM_cons]
        refine ⟨h2.1, ?_⟩
        simp [hx, h2.2]

theorem loadDC_none_of_data (r : DCRec) (dr : DataRec) (hm : dr ∈ r.data) (h : loadData dr = none) :
    loadDC r = none := by
  simp [loadDC, mapM_none_of_mem loadData r.data dr hm h]

theorem request_spec (doc : Doc) (c : Ctx) (q : Req) (hinv : CtxInv doc c) (hv : q.valid doc) :
    match c.request doc q with
    | some c' => CtxInv doc c'
    | none => doc.mapM loadDC = none := by
  cases q with
  | data k i =>
    obtain ⟨r, hr, hi⟩ := hv
    have hdr : r.data[i]? = some r.data[i] := List.getElem?_eq_getElem hi
    have h1 := objectData_spec doc c k i r r.data[i] hinv hr hdr
    cases ho : c.objectData k i r.data[i] with
    | none =>
      rw [ho] at h1
      simp only [Ctx.request, hr, hdr, ho, Option.map_none]
      exact mapM_none_of_mem loadDC doc r (List.mem_of_getElem? hr)
        (loadDC_none_of_data r _ (List.getElem_mem hi) h1)
    | some res =>
      rw [ho] at h1
      simp only [Ctx.request, hr, hdr, ho, Option.map_some]
      exact h1.1
  | coll k =>
    have hk : k < doc.length := hv
    have hr : doc[k]? = some doc[k] := List.getElem?_eq_getElem hk
    have h1 := objectColl_spec doc c k doc[k] hinv hr
    cases ho : c.objectColl k doc[k] with
    | none =>
      rw [ho] at h1
      simp only [Ctx.request, hr, ho, Option.map_none]
      exact mapM_none_of_mem loadDC doc _ (List.getElem_mem hk) h1
    | some res =>
      rw [ho] at h1
      simp only [Ctx.request, hr, ho, Option.map_some]
      exact h1.1

theorem requests_spec (doc : Doc) :
    ∀ (reqs : List Req) (c : Ctx), CtxInv doc c → (∀ q ∈ reqs, q.valid doc) →
    match Ctx.requests doc c reqs with
    | some c' => CtxInv doc c'
    | none => doc.mapM loadDC = none := by
  intro reqs
  induction reqs with
  | nil => intro c hinv _; exact hinv
  | cons q qs ih =>
    intro c hinv hall
    have h1 := request_spec doc c q hinv (hall q List.mem_cons_self)
    cases ho : c.request doc q with
    | none =>
      rw [ho] at h1
      simp only [Ctx.requests, ho]
      exact h1
    | some c1 =>
      rw [ho] at h1
      simp only [Ctx.requests, ho]
      exact ih c1 h1 (fun q hq => hall q (List.mem_cons_of_mem _ hq))

/-- whatever the caller asked for before, and in whatever order, `object('__main__')` returns what
record-wise loading returns -/
theorem run_eq_mapM (doc : Doc) (reqs : List Req) (hv : ∀ q ∈ reqs, q.valid doc) :
    Unser.run doc reqs = doc.mapM loadDC := by
  have h1 := requests_spec doc reqs Ctx.empty (ctxInv_empty doc) hv
  cases ho : Ctx.requests doc Ctx.empty reqs with
  | none =>
    rw [ho] at h1
    simp only [Unser.run, ho]
    exact h1.symm
  | some c =>
    rw [ho] at h1
    have h2 := objectColls_spec doc doc.zipIdx c h1 (fun p hp => List.mem_zipIdx_iff_getElem?.mp hp)
    rw [List.zipIdx_map_fst] at h2
    cases hos : Ctx.objectColls c doc.zipIdx with
    | none =>
      rw [hos] at h2
      simp only [Unser.run, ho, hos, Option.map_none]
      exact h2.symm
    | some res =>
      obtain ⟨c2, xs⟩ := res
      rw [hos] at h2
      simp only [Unser.run, ho, hos, Option.map_some]
      exact h2.2.symm

end GlueVerif.C12.Records.Lemmas
