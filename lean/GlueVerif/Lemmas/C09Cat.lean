import GlueVerif.Model.C09Roi
import GlueVerif.Lemmas.ArrayUtil
import Mathlib.Tactic.Linarith
import Mathlib.Algebra.Order.Field.Rat
/-! Helper lemmas for C09: categorical regions (`from_range`, `searchsorted`, dict lookups). -/
namespace GlueVerif.C09.Lemmas
open GlueVerif.ArrayUtil GlueVerif.Lemmas

/-! ## `clampCeil` -/

theorem ceil_nonneg_of_pos (q : Rat) (h : q > 0) : 0 ≤ q.ceil := by
  have := @Rat.le_ceil q
  by_contra hn
  have : (q.ceil : Rat) < 0 := by exact_mod_cast (by omega : q.ceil < 0)
  linarith

/-- `⌈lo⌉⁺ ≤ i ↔ lo ≤ i` for every rational `lo` and natural `i`. -/
theorem clampCeil_le (q : Rat) (i : Nat) : clampCeil q ≤ i ↔ q ≤ ((i : Int) : Rat) := by
  unfold clampCeil
  split
  · rename_i h
    have h0 := ceil_nonneg_of_pos q h
    constructor
    · intro hi
      exact (Rat.ceil_le_iff (x := q) (y := (i : Int))).mp (by omega)
    · intro hq
      have := (Rat.ceil_le_iff (x := q) (y := (i : Int))).mpr hq
      omega
  · rename_i h
    have hi : (0 : Rat) ≤ ((i : Int) : Rat) := by exact_mod_cast Int.natCast_nonneg i
    constructor
    · intro _; linarith
    · intro _; omega

/-- `i < ⌈hi⌉⁺ ↔ i < hi` for every rational `hi` and natural `i`. -/
theorem lt_clampCeil (q : Rat) (i : Nat) : i < clampCeil q ↔ ((i : Int) : Rat) < q := by
  unfold clampCeil
  split
  · rename_i h
    have h0 := ceil_nonneg_of_pos q h
    constructor
    · intro hi
      exact (Rat.lt_ceil_iff (x := q) (y := (i : Int))).mp (by omega)
    · intro hq
      have := (Rat.lt_ceil_iff (x := q) (y := (i : Int))).mpr hq
      omega
  · rename_i h
    have hi : (0 : Rat) ≤ ((i : Int) : Rat) := by exact_mod_cast Int.natCast_nonneg i
    constructor
    · intro h'; omega
    · intro h'; linarith

/-! ## strictly sorted lists -/

theorem strictSorted_getElem?_lt (l : List Int) (hs : strictSorted l = true) (m n : Nat) (a b : Int)
    (hmn : m < n) (ha : l[m]? = some a) (hb : l[n]? = some b) : a < b := by
  induction l generalizing m n with
  | nil => simp at ha
  | cons x xs ih =>
    rw [strictSorted_cons] at hs
    cases n with
    | zero => omega
    | succ n =>
      simp only [List.getElem?_cons_succ] at hb
      cases m with
      | zero =>
        simp only [List.getElem?_cons_zero, Option.some.injEq] at ha
        subst ha
        exact hs.1 b (List.mem_of_getElem? hb)
      | succ m =>
        simp only [List.getElem?_cons_succ] at ha
        exact ih hs.2 m n (by omega) ha hb

theorem strictSorted_index_unique (l : List Int) (hs : strictSorted l = true) (m n : Nat) (a : Int)
    (ha : l[m]? = some a) (hb : l[n]? = some a) : m = n := by
  rcases Nat.lt_trichotomy m n with h | h | h
  · have := strictSorted_getElem?_lt l hs m n a a h ha hb; omega
  · exact h
  · have := strictSorted_getElem?_lt l hs n m a a h hb ha; omega

/-! ## duplicate-free lists (any order) -/

theorem noDup_cons (x : Int) (l : List Int) :
    noDup (x :: l) = true ↔ x ∉ l ∧ noDup l = true := by
  simp [noDup]

/-- A sorted unique list (what `np.unique` returns) is in particular duplicate free. -/
theorem noDup_of_strictSorted (l : List Int) (hs : strictSorted l = true) : noDup l = true := by
  induction l with
  | nil => rfl
  | cons x xs ih =>
    rw [strictSorted_cons] at hs
    rw [noDup_cons]
    refine ⟨fun hm => ?_, ih hs.2⟩
    have := hs.1 x hm
    omega

theorem noDup_index_unique (l : List Int) (hs : noDup l = true) (m n : Nat) (a : Int)
    (ha : l[m]? = some a) (hb : l[n]? = some a) : m = n := by
  induction l generalizing m n with
  | nil => simp at ha
  | cons x xs ih =>
    rw [noDup_cons] at hs
    cases m with
    | zero =>
      cases n with
      | zero => rfl
      | succ n =>
        simp only [List.getElem?_cons_zero, Option.some.injEq] at ha
        simp only [List.getElem?_cons_succ] at hb
        subst ha
        exact absurd (List.mem_of_getElem? hb) hs.1
    | succ m =>
      cases n with
      | zero =>
        simp only [List.getElem?_cons_zero, Option.some.injEq] at hb
        simp only [List.getElem?_cons_succ] at ha
        subst hb
        exact absurd (List.mem_of_getElem? ha) hs.1
      | succ n =>
        simp only [List.getElem?_cons_succ] at ha hb
        rw [ih hs.2 m n ha hb]

/-- Two strictly sorted lists with the same elements are equal. -/
theorem strictSorted_ext (a b : List Int) (ha : strictSorted a = true) (hb : strictSorted b = true)
    (h : ∀ x, x ∈ a ↔ x ∈ b) : a = b := by
  induction a generalizing b with
  | nil =>
    cases b with
    | nil => rfl
    | cons y ys => exact absurd ((h y).mpr (by simp)) (by simp)
  | cons x xs ih =>
    cases b with
    | nil => exact absurd ((h x).mp (by simp)) (by simp)
    | cons y ys =>
      rw [strictSorted_cons] at ha hb
      have hxy : x = y := by
        have h1 := (h x).mp (by simp)
        have h2 := (h y).mpr (by simp)
        rcases List.mem_cons.mp h1 with e | hx
        · exact e
        · rcases List.mem_cons.mp h2 with e | hy
          · exact e.symm
          · have := hb.1 x hx
            have := ha.1 y hy
            omega
      subst hxy
      congr 1
      apply ih ys ha.2 hb.2
      intro z
      constructor
      · intro hz
        have hne : z ≠ x := by have := ha.1 z hz; omega
        rcases List.mem_cons.mp ((h z).mp (List.mem_cons_of_mem _ hz)) with e | hz'
        · exact absurd e hne
        · exact hz'
      · intro hz
        have hne : z ≠ x := by have := hb.1 z hz; omega
        rcases List.mem_cons.mp ((h z).mpr (List.mem_cons_of_mem _ hz)) with e | hz'
        · exact absurd e hne
        · exact hz'

/-! ## `CategoricalROI.contains` (searchsorted + equality) is membership -/

theorem searchsorted_cons (c : Int) (cs : List Int) (v : Int) :
    searchsorted (c :: cs) v = if c < v then searchsorted cs v + 1 else 0 := by
  unfold searchsorted
  by_cases h : c < v <;> simp [h]

theorem catRoiContains_aux (c : Int) (cs : List Int) (hs : strictSorted (c :: cs) = true) (v : Int) :
    ((c :: cs)[min (searchsorted (c :: cs) v) cs.length]? == some v) = decide (v ∈ c :: cs) := by
  induction cs generalizing c with
  | nil =>
    rw [searchsorted_cons]
    by_cases h : c < v
    · have : c ≠ v := by omega
      simp [h, this, searchsorted, Ne.symm this]
    · by_cases hcv : c = v
      · simp [h, hcv]
      · have : ¬ (v = c) := fun e => hcv e.symm
        simp [h, hcv, this]
  | cons c' cs' ih =>
    have hs' := hs
    rw [strictSorted_cons] at hs'
    rw [searchsorted_cons]
    by_cases h : c < v
    · simp only [h, if_true, List.length_cons]
      have hne : v ≠ c := by omega
      have hmin : min (searchsorted (c' :: cs') v + 1) (cs'.length + 1) =
          min (searchsorted (c' :: cs') v) cs'.length + 1 := by omega
      rw [hmin, List.getElem?_cons_succ, ih c' hs'.2]
      simp [hne]
    · simp only [h, if_false, Nat.zero_min, List.getElem?_cons_zero]
      by_cases hcv : c = v
      · simp [hcv]
      · have hnot : v ∉ c' :: cs' := by
          intro hm
          have := hs'.1 v hm
          omega
        have : ¬ (v = c) := fun e => hcv e.symm
        simp only [List.mem_cons] at hnot
        simp [hcv, this, hnot]

/-- `CategoricalROI.contains` decides membership in the (sorted, unique) category list. -/
theorem catRoiContains_eq_mem (cats : List Int) (hs : strictSorted cats = true) (v : Int) :
    catRoiContains cats v = decide (v ∈ cats) := by
  cases cats with
  | nil => simp [catRoiContains]
  | cons c cs =>
    have := catRoiContains_aux c cs hs v
    simpa [catRoiContains] using this

/-! ## slices of a category list (any order) -/

/-- `l ∈ cats[a:b]` iff `l` sits at some position `a ≤ i < b` of the list — any list. -/
theorem mem_pySlice_iff (cats : List Int) (l : Int) (a b : Nat) :
    l ∈ pySlice cats a b ↔ ∃ i, a ≤ i ∧ i < b ∧ cats[i]? = some l := by
  unfold pySlice
  rw [List.mem_iff_getElem?]
  constructor
  · rintro ⟨j, hj⟩
    rw [List.getElem?_take] at hj
    split at hj
    · rename_i hlt
      rw [List.getElem?_drop] at hj
      exact ⟨a + j, by omega, by omega, hj⟩
    · simp at hj
  · rintro ⟨i, h1, h2, h3⟩
    refine ⟨i - a, ?_⟩
    rw [List.getElem?_take]
    have : i - a < b - a := by omega
    simp only [this, if_true]
    rw [List.getElem?_drop]
    have : a + (i - a) = i := by omega
    rw [this]; exact h3

/-- In a duplicate-free list (any order) the slice is described by the label's one position. -/
theorem mem_pySlice (cats : List Int) (hs : noDup cats = true) (l : Int) (hl : l ∈ cats)
    (a b : Nat) : l ∈ pySlice cats a b ↔ a ≤ indexOf l cats ∧ indexOf l cats < b := by
  have hi := getElem?_indexOf l cats hl
  rw [mem_pySlice_iff]
  constructor
  · rintro ⟨j, h1, h2, hj⟩
    have := noDup_index_unique cats hs _ _ l hj hi
    omega
  · rintro ⟨h1, h2⟩
    exact ⟨_, h1, h2, hi⟩

theorem mem_positionsOf (l : Int) (cs : List Int) (i : Nat) :
    i ∈ positionsOf l cs ↔ cs[i]? = some l := by
  unfold positionsOf
  simp only [List.mem_filter, List.mem_range, beq_iff_eq]
  constructor
  · exact fun h => h.2
  · intro h
    refine ⟨?_, h⟩
    have := List.getElem?_eq_some_iff.mp h
    exact this.1

/-- `CategoricalROI.from_range(...).contains(label)` in terms of the label's position. -/
theorem fromRange_contains (cats : List Int) (hs : noDup cats = true) (lo hi : Rat) (l : Int)
    (hl : l ∈ cats) :
    catRoiContains (fromRange cats lo hi) l =
      (decide (lo ≤ ((indexOf l cats : Nat) : Int)) && decide ((((indexOf l cats : Nat) : Int) : Rat) < hi)) := by
  unfold fromRange
  rw [catRoiContains_eq_mem _ (strictSorted_categories _)]
  have h1 := mem_categories l (pySlice cats (clampCeil lo) (clampCeil hi))
  have h2 := mem_pySlice cats hs l hl (clampCeil lo) (clampCeil hi)
  have h3 := clampCeil_le lo (indexOf l cats)
  have h4 := lt_clampCeil hi (indexOf l cats)
  rw [Bool.eq_iff_iff]
  simp only [decide_eq_true_eq, Bool.and_eq_true]
  rw [h1, h2, h3, h4]

/-! ## dict lookups in the tables built by the two categorical loops -/

theorem dictGet_none_of_not_mem {β : Type} (d : List (Int × β)) (k : Int)
    (h : ∀ p ∈ d, p.1 ≠ k) : dictGet d k = none := by
  induction d with
  | nil => rfl
  | cons p rest ih =>
    obtain ⟨k', v⟩ := p
    have h1 : k' ≠ k := h (k', v) (by simp)
    have h2 := ih (fun p hp => h p (List.mem_cons_of_mem _ hp))
    simp [dictGet, h2, h1]

/-- Looking a label of a duplicate-free category list up in `[(label, f code) | f code ≠ none]`. -/
theorem dictGet_zipIdx_filterMap {β : Type} (cats : List Int) (hs : noDup cats = true)
    (f : Nat → Option β) (l : Int) (hl : l ∈ cats) (n : Nat) :
    dictGet ((cats.zipIdx n).filterMap fun lc => (f lc.2).map fun v => (lc.1, v)) l =
      f (n + indexOf l cats) := by
  induction cats generalizing n with
  | nil => simp at hl
  | cons c cs ih =>
    rw [noDup_cons] at hs
    simp only [List.zipIdx_cons, List.filterMap_cons]
    by_cases hlc : l = c
    · subst hlc
      have hrest : dictGet ((cs.zipIdx (n + 1)).filterMap fun lc => (f lc.2).map fun v => (lc.1, v)) l = none := by
        apply dictGet_none_of_not_mem
        intro p hp
        simp only [List.mem_filterMap] at hp
        obtain ⟨lc, hlc, hv⟩ := hp
        have hmem : lc.1 ∈ cs := by
          have := List.mem_zipIdx hlc
          obtain ⟨_, _, h3⟩ := this
          rw [h3]; exact List.getElem_mem _
        cases hfv : f lc.2 with
        | none => simp [hfv] at hv
        | some v =>
          simp [hfv] at hv
          subst hv
          simp only [ne_eq]
          intro e
          exact hs.1 (e ▸ hmem)
      have hidx : indexOf l (l :: cs) = 0 := by simp [indexOf]
      rw [hidx]
      cases hf : f n with
      | none => simpa [hf] using hrest
      | some v => simp [dictGet, hrest]
    · have hl' : l ∈ cs := by
        rcases List.mem_cons.mp hl with e | h
        · exact absurd e hlc
        · exact h
      have hidx : indexOf l (c :: cs) = indexOf l cs + 1 := by simp [indexOf, hlc]
      have := ih hs.2 hl' (n + 1)
      rw [hidx]
      have hn : n + (indexOf l cs + 1) = n + 1 + indexOf l cs := by omega
      rw [hn, ← this]
      cases hf : f n with
      | none => simp
      | some v =>
        simp only [Option.map_some, dictGet]
        cases hd : dictGet ((cs.zipIdx (n + 1)).filterMap fun lc => (f lc.2).map fun v => (lc.1, v)) l with
        | none =>
          simp [Ne.symm hlc]
        | some w => simp

end GlueVerif.C09.Lemmas
