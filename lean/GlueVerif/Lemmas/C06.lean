import GlueVerif.Model.Collection
/-!
# C06 — helper lemmas: closed forms of the handler loops and preservation of `Inv`

Core Lean only.  Structure: (1) list facts, (2) closed forms of the folds that model the hub
broadcasts (`_add_data`, `_remove_data`, `Subset.delete` loops) — plain inductions, no invariant
needed, (3) `Inv` is preserved by each atomic operation, (4) composite operations are folds of
atomic ones, (5) `Inv` implies the executable `specOk`.
-/
namespace GlueVerif.Lemmas.C06
open GlueVerif.Collection

/-! ## 1. lists and tables -/

theorem upd_same {α : Type} (f : Nat → α) (k : Nat) (v : α) : upd f k v k = v := by simp [upd]

theorem upd_other {α : Type} (f : Nat → α) (k : Nat) (v : α) (x : Nat) (h : x ≠ k) :
    upd f k v x = f x := by simp [upd, h]

theorem upd_self {α : Type} (f : Nat → α) (k : Nat) : upd f k (f k) = f := by
  funext x; simp only [upd]; split <;> simp_all

theorem upd_upd {α : Type} (f : Nat → α) (k : Nat) (v w : α) : upd (upd f k v) k w = upd f k w := by
  funext x; simp only [upd]; split <;> rfl

/-- Removing the first occurrences of `xs` from a duplicate-free list = filtering them out. -/
theorem foldl_erase_eq_filter {α : Type} [DecidableEq α] (xs : List α) :
    ∀ l : List α, l.Nodup → xs.foldl List.erase l = l.filter (fun a => !xs.contains a) := by
  induction xs with
  | nil => intro l _; exact (List.filter_eq_self.2 (fun _ _ => rfl)).symm
  | cons x xs ih =>
    intro l hl
    simp only [List.foldl_cons]
    rw [ih _ (hl.erase x), hl.erase_eq_filter, List.filter_filter]
    apply List.filter_congr
    intro a _
    by_cases h : a = x <;> by_cases h2 : a ∈ xs <;> simp [h, h2, bne]

theorem foldl_erase_nil {α : Type} [DecidableEq α] (xs : List α) : xs.foldl List.erase ([] : List α) = [] := by
  induction xs with
  | nil => rfl
  | cons x xs ih => simpa using ih

theorem nodup_of_map {α β : Type} (f : α → β) : ∀ l : List α, (l.map f).Nodup → l.Nodup := by
  intro l
  induction l with
  | nil => intro _; exact List.nodup_nil
  | cons a t ih =>
    intro h
    simp only [List.map_cons, List.nodup_cons, List.mem_map, not_exists, not_and] at h ⊢
    exact ⟨fun hm => h.1 a hm rfl, ih h.2⟩

theorem map_some_erase (D : List Nat) (d : Nat) (h : D.Nodup) :
    (D.map some).filter (fun y => !(y == some d)) = (D.erase d).map some := by
  rw [h.erase_eq_filter, List.filter_map]
  congr 1

/-- in a list whose `f`-image is duplicate free, the entries with a given image are at most the one. -/
theorem filter_eq_singleton {α β : Type} [DecidableEq β] (f : α → β) :
    ∀ (l : List α) (G : List β), l.map f = G → G.Nodup → ∀ a ∈ l,
      l.filter (fun x => f x == f a) = [a] := by
  intro l
  induction l with
  | nil => intro G _ _ a ha; cases ha
  | cons b t ih =>
    intro G hG hnd a ha
    subst hG
    simp only [List.map_cons, List.nodup_cons, List.mem_map, not_exists, not_and] at hnd
    rcases List.mem_cons.1 ha with rfl | hat
    · have : t.filter (fun x => f x == f a) = [] := by
        rw [List.filter_eq_nil_iff]
        intro x hx hfx
        exact hnd.1 x hx (by simpa using hfx)
      simp [this]
    · have hne : ¬ (f b = f a) := fun e => hnd.1 a hat e.symm
      simp only [List.filter_cons, beq_iff_eq, hne, if_false]
      exact ih _ rfl hnd.2 a hat

theorem filter_length_one {α β : Type} [DecidableEq β] (f : α → β) (l : List α) (G : List β)
    (hG : l.map f = G) (hnd : G.Nodup) (g : β) (hg : g ∈ G) :
    (l.filter (fun x => f x == g)).length = 1 := by
  rw [← hG] at hg
  obtain ⟨a, ha, rfl⟩ := List.mem_map.1 hg
  rw [filter_eq_singleton f l G hG hnd a ha]; rfl

/-! ## 2. closed forms of the handler loops -/

/-- the `Subset.delete()` loop: each dataset loses (first occurrences of) the listed subsets that
point to it. -/
theorem foldl_deleteSub (xs : List Sub) : ∀ st : State,
    xs.foldl (fun st s => deleteSub s st) st =
      { st with dsubs := fun d => (xs.filter (fun s => s.data == some d)).foldl List.erase (st.dsubs d) } := by
  induction xs with
  | nil => intro st; rfl
  | cons x xs ih =>
    intro st
    simp only [List.foldl_cons]
    rw [ih]
    cases hx : x.data with
    | none =>
      simp only [deleteSub, hx]
      apply State.ext <;> try rfl
      funext d
      simp [hx]
    | some d0 =>
      simp only [deleteSub, hx]
      apply State.ext <;> try rfl
      funext d
      by_cases h : d = d0
      · subst h; simp [hx, upd]
      · have h' : ¬ (d0 = d) := fun e => h e.symm
        simp [hx, upd, h, h']

/-- `SubsetGroup._remove_data` with the fix, in closed form. -/
theorem removeDataH_fixed (g d : Nat) (st : State) :
    removeDataH true g d st =
      { st with gsubs := upd st.gsubs g ((st.gsubs g).filter (fun s => !(s.data == some d))),
                dsubs := upd st.dsubs d
                  (((st.gsubs g).filter (fun s => s.data == some d)).foldl List.erase (st.dsubs d)) } := by
  simp only [removeDataH, if_true]
  rw [foldl_deleteSub]
  apply State.ext <;> try rfl
  funext d'
  simp only [upd]
  by_cases h : d' = d
  · subst h
    simp only [if_true, List.filter_filter, Bool.and_self]
  · simp only [h, if_false]
    have : ((st.gsubs g).filter (fun s => s.data == some d)).filter (fun s => s.data == some d') = [] := by
      rw [List.filter_eq_nil_iff]
      intro s hs hs'
      have h1 := (List.mem_filter.1 hs).2
      simp only [beq_iff_eq] at h1 hs'
      rw [h1] at hs'
      exact h (Option.some.inj hs').symm
    rw [this]; rfl

theorem flatMap_congr_mem {α β : Type} (f g : α → List β) (l : List α) (h : ∀ a ∈ l, f a = g a) :
    l.flatMap f = l.flatMap g := by
  induction l with
  | nil => rfl
  | cons a t ih =>
    simp only [List.flatMap_cons]
    rw [h a (List.mem_cons_self ..), ih (fun b hb => h b (List.mem_cons_of_mem _ hb))]

/-- the `DataCollectionDeleteMessage` broadcast to the groups `gs` (fixed code), in closed form. -/
theorem foldl_removeData (d : Nat) (gs : List Nat) : ∀ st : State, gs.Nodup →
    gs.foldl (fun st g => removeDataH true g d st) st =
      { st with
        gsubs := fun g => if g ∈ gs then (st.gsubs g).filter (fun s => !(s.data == some d)) else st.gsubs g,
        dsubs := upd st.dsubs d
          ((gs.flatMap fun g => (st.gsubs g).filter (fun s => s.data == some d)).foldl List.erase (st.dsubs d)) } := by
  induction gs with
  | nil =>
    intro st _
    apply State.ext <;> try rfl
    simp [upd_self]
  | cons g gs ih =>
    intro st hnd
    have hg : g ∉ gs := (List.nodup_cons.1 hnd).1
    simp only [List.foldl_cons]
    rw [removeDataH_fixed, ih _ (List.nodup_cons.1 hnd).2]
    apply State.ext <;> try rfl
    · -- dsubs
      simp only [upd_upd, upd_same, List.flatMap_cons, List.foldl_append]
      congr 2
      apply flatMap_congr_mem
      intro g' hg'
      have : g' ≠ g := fun e => hg (e ▸ hg')
      simp [upd, this]
    · -- gsubs
      funext g'
      by_cases h1 : g' = g
      · subst h1; simp [upd, hg]
      · by_cases h2 : g' ∈ gs <;> simp [upd, h1, h2]

/-- the grouped subsets created for dataset `d` by the groups `gs`, serials from `n`. -/
def mkSubs (n d : Nat) : List Nat → List Sub
  | [] => []
  | g :: gs => ⟨n, some d, g⟩ :: mkSubs (n + 1) d gs

/-- the `DataCollectionAddMessage` broadcast to the groups `gs`, in closed form. -/
theorem foldl_addData (d : Nat) (gs : List Nat) : ∀ st : State,
    gs.foldl (fun st g => addData g d st) st =
      { st with nSub := st.nSub + gs.length,
                dsubs := upd st.dsubs d (st.dsubs d ++ mkSubs st.nSub d gs),
                gsubs := fun g => st.gsubs g ++ (mkSubs st.nSub d gs).filter (fun s => s.group == g) } := by
  induction gs with
  | nil =>
    intro st
    apply State.ext <;> try rfl
    · simp [mkSubs, upd_self]
    · simp [mkSubs]
  | cons g gs ih =>
    intro st
    simp only [List.foldl_cons]
    rw [ih]
    apply State.ext <;> try rfl
    · simp only [addData, List.length_cons]; omega
    · simp only [addData, upd_upd, upd_same, mkSubs, List.append_assoc, List.singleton_append]
    · funext g'
      simp only [addData, mkSubs, List.filter_cons]
      by_cases h : g' = g
      · subst h; simp [upd]
      · have h' : ¬ (g = g') := fun e => h e.symm
        simp [upd, h, h']

/-- the grouped subsets created by the new group `g` for the datasets `ds`, serials from `n`. -/
def mkSubsD (n g : Nat) : List Nat → List Sub
  | [] => []
  | d :: ds => ⟨n, some d, g⟩ :: mkSubsD (n + 1) g ds

theorem foldl_register1 (g : Nat) (ds : List Nat) : ∀ st : State,
    ds.foldl (fun st d =>
        { st with nSub := st.nSub + 1, gsubs := upd st.gsubs g (st.gsubs g ++ [⟨st.nSub, some d, g⟩]) }) st =
      { st with nSub := st.nSub + ds.length,
                gsubs := upd st.gsubs g (st.gsubs g ++ mkSubsD st.nSub g ds) } := by
  induction ds with
  | nil => intro st; apply State.ext <;> try rfl
           simp [mkSubsD, upd_self]
  | cons d ds ih =>
    intro st
    simp only [List.foldl_cons]
    rw [ih]
    apply State.ext <;> try rfl
    · simp only [List.length_cons]; omega
    · simp only [upd_upd, upd_same, mkSubsD, List.append_assoc, List.singleton_append]

theorem foldl_register2 (pairs : List (Nat × Sub)) : ∀ st : State,
    pairs.foldl (fun st p => { st with dsubs := upd st.dsubs p.1 (st.dsubs p.1 ++ [p.2]) }) st =
      { st with dsubs := fun d => st.dsubs d ++ (pairs.filter (fun p => p.1 == d)).map (·.2) } := by
  induction pairs with
  | nil => intro st; apply State.ext <;> try rfl
           simp
  | cons p ps ih =>
    intro st
    simp only [List.foldl_cons]
    rw [ih]
    apply State.ext <;> try rfl
    funext d
    by_cases h : d = p.1
    · subst h; simp [upd]
    · have h' : ¬ (p.1 = d) := fun e => h e.symm
      simp [upd, h, h']

/-- `new_subset_group()` in closed form. -/
theorem newGroup_eq (st : State) :
    newGroup st =
      { st with
        nGroup := st.nGroup + 1, sgCount := st.sgCount + 1,
        groups := st.groups ++ [st.nGroup], subs := st.subs ++ [st.nGroup],
        gvals := upd st.gvals st.nGroup ⟨.auto 0, .auto (st.sgCount + 1), .auto (st.sgCount % st.nColors)⟩,
        nSub := st.nSub + st.datasets.length,
        gsubs := upd st.gsubs st.nGroup (mkSubsD st.nSub st.nGroup st.datasets),
        dsubs := fun d => st.dsubs d ++
          ((st.datasets.zip (mkSubsD st.nSub st.nGroup st.datasets)).filter (fun p => p.1 == d)).map (·.2) } := by
  unfold newGroup
  simp only [foldl_register1, foldl_register2, upd_upd, upd_same, List.nil_append]

theorem mkSubsD_map_data (n g : Nat) (ds : List Nat) : (mkSubsD n g ds).map (·.data) = ds.map some := by
  induction ds generalizing n with
  | nil => rfl
  | cons d ds ih => simp [mkSubsD, ih]

theorem mkSubsD_group (n g : Nat) (ds : List Nat) : ∀ s ∈ mkSubsD n g ds, s.group = g := by
  induction ds generalizing n with
  | nil => intro s hs; cases hs
  | cons d ds ih =>
    intro s hs
    simp only [mkSubsD, List.mem_cons] at hs
    rcases hs with rfl | hs
    · rfl
    · exact ih _ s hs

theorem mkSubsD_length (n g : Nat) (ds : List Nat) : (mkSubsD n g ds).length = ds.length := by
  induction ds generalizing n with
  | nil => rfl
  | cons d ds ih => simp [mkSubsD, ih]

theorem mkSubsD_zip (n g : Nat) (ds : List Nat) :
    ∀ p ∈ ds.zip (mkSubsD n g ds), p.2.data = some p.1 := by
  induction ds generalizing n with
  | nil => intro p hp; cases hp
  | cons d ds ih =>
    intro p hp
    simp only [mkSubsD, List.zip_cons_cons, List.mem_cons] at hp
    rcases hp with rfl | hp
    · rfl
    · exact ih _ p hp

theorem mkSubs_map_group (n d : Nat) (gs : List Nat) : (mkSubs n d gs).map (·.group) = gs := by
  induction gs generalizing n with
  | nil => rfl
  | cons g gs ih => simp [mkSubs, ih]

theorem mkSubs_data (n d : Nat) (gs : List Nat) : ∀ s ∈ mkSubs n d gs, s.data = some d := by
  induction gs generalizing n with
  | nil => intro s hs; cases hs
  | cons g gs ih =>
    intro s hs
    simp only [mkSubs, List.mem_cons] at hs
    rcases hs with rfl | hs
    · rfl
    · exact ih _ s hs

/-! ## 3. `Inv` is preserved by the atomic operations -/

theorem mem_groups_of_attached {st : State} (h : Inv st) {d : Nat} (hd : d ∈ st.datasets)
    {s : Sub} (hs : s ∈ st.dsubs d) : s.group ∈ st.groups := by
  rw [← h.dataGroups d hd]
  exact List.mem_map.2 ⟨s, hs, rfl⟩

theorem mem_datasets_of_attached {st : State} (h : Inv st) {d : Nat} {s : Sub} (hs : s ∈ st.dsubs d) :
    d ∈ st.datasets := by
  apply Classical.byContradiction
  intro hd
  rw [h.removedEmpty d hd] at hs
  cases hs

theorem nodup_dsubs {st : State} (h : Inv st) {d : Nat} (hd : d ∈ st.datasets) : (st.dsubs d).Nodup := by
  apply nodup_of_map (·.group)
  rw [h.dataGroups d hd]
  exact h.nodupG

theorem inv_appendOne (d : Nat) (st : State) (h : Inv st) : Inv (appendOne d st) := by
  unfold appendOne
  split
  · exact h
  · rename_i hc
    have hd : d ∉ st.datasets := fun x => hc (Or.inl x)
    have hb : d < st.nData := Nat.lt_of_not_le (fun x => hc (Or.inr x))
    have he : st.dsubs d = [] := h.removedEmpty d hd
    rw [foldl_addData]
    simp only [h.subsEq]
    refine
      { nodupD := ?_, nodupG := h.nodupG, subsEq := rfl, dBound := ?_, gBound := h.gBound,
        dataGroups := ?_, subData := ?_, removedEmpty := ?_, groupDatas := ?_, subGroup := ?_,
        groupAttached := ?_, attachedListed := ?_ }
    · show (st.datasets ++ [d]).Nodup
      rw [List.nodup_append]
      refine ⟨h.nodupD, by simp, ?_⟩
      intro a ha b hb' e
      rw [List.mem_singleton] at hb'
      exact hd (hb' ▸ e ▸ ha)
    · intro x hx
      show x < st.nData
      rcases List.mem_append.1 hx with hx | hx
      · exact h.dBound x hx
      · rw [List.mem_singleton] at hx; exact hx ▸ hb
    · intro x hx
      show ((upd st.dsubs d (st.dsubs d ++ mkSubs st.nSub d st.groups)) x).map (·.group) = st.groups
      rcases List.mem_append.1 hx with hx | hx
      · have : x ≠ d := fun e => hd (e ▸ hx)
        rw [upd_other _ _ _ _ this]; exact h.dataGroups x hx
      · rw [List.mem_singleton] at hx; subst hx
        rw [upd_same, he, List.nil_append, mkSubs_map_group]
    · intro x s hs
      change s ∈ (upd st.dsubs d (st.dsubs d ++ mkSubs st.nSub d st.groups)) x at hs
      by_cases hx : x = d
      · subst hx
        rw [upd_same] at hs
        rcases List.mem_append.1 hs with hs | hs
        · exact h.subData _ s hs
        · exact mkSubs_data _ _ _ s hs
      · rw [upd_other _ _ _ _ hx] at hs; exact h.subData x s hs
    · intro x hx
      show (upd st.dsubs d (st.dsubs d ++ mkSubs st.nSub d st.groups)) x = []
      have hx' : x ∉ st.datasets ++ [d] := hx
      rw [List.mem_append, List.mem_singleton] at hx'
      have h1 : x ≠ d := fun e => hx' (Or.inr e)
      rw [upd_other _ _ _ _ h1]
      exact h.removedEmpty x (fun e => hx' (Or.inl e))
    · intro g hg
      show ((st.gsubs g ++ (mkSubs st.nSub d st.groups).filter (fun s => s.group == g)).map (·.data)).Perm
          ((st.datasets ++ [d]).map some)
      rw [List.map_append, List.map_append]
      refine List.Perm.append (h.groupDatas g hg) ?_
      have hg' : g ∈ (mkSubs st.nSub d st.groups).map (·.group) := by rw [mkSubs_map_group]; exact hg
      obtain ⟨a, ha, rfl⟩ := List.mem_map.1 hg'
      rw [filter_eq_singleton (·.group) _ _ (mkSubs_map_group _ _ _) h.nodupG a ha]
      simp [mkSubs_data _ _ _ a ha]
    · intro g s hs
      change s ∈ st.gsubs g ++ (mkSubs st.nSub d st.groups).filter (fun s => s.group == g) at hs
      rcases List.mem_append.1 hs with hs | hs
      · exact h.subGroup g s hs
      · simpa using (List.mem_filter.1 hs).2
    · intro g hg s hs x hsx
      change s ∈ st.gsubs g ++ (mkSubs st.nSub d st.groups).filter (fun s => s.group == g) at hs
      show s ∈ (upd st.dsubs d (st.dsubs d ++ mkSubs st.nSub d st.groups)) x
      rcases List.mem_append.1 hs with hs | hs
      · have := h.groupAttached g hg s hs x hsx
        by_cases hx : x = d
        · subst hx; rw [upd_same]; exact List.mem_append_left _ this
        · rw [upd_other _ _ _ _ hx]; exact this
      · have hm := (List.mem_filter.1 hs).1
        have := mkSubs_data _ _ _ s hm
        rw [this] at hsx
        have hx : d = x := Option.some.inj hsx
        subst hx
        rw [upd_same]; exact List.mem_append_right _ hm
    · intro x hx s hs
      change s ∈ (upd st.dsubs d (st.dsubs d ++ mkSubs st.nSub d st.groups)) x at hs
      show s ∈ st.gsubs s.group ++ (mkSubs st.nSub d st.groups).filter (fun t => t.group == s.group)
      rcases List.mem_append.1 hx with hx | hx
      · have : x ≠ d := fun e => hd (e ▸ hx)
        rw [upd_other _ _ _ _ this] at hs
        exact List.mem_append_left _ (h.attachedListed x hx s hs)
      · rw [List.mem_singleton] at hx; subst hx
        rw [upd_same, he, List.nil_append] at hs
        exact List.mem_append_right _ (List.mem_filter.2 ⟨hs, by simp⟩)

theorem inv_removeOne (d : Nat) (st : State) (h : Inv st) : Inv (removeOne true d st) := by
  unfold removeOne
  split
  · rename_i hd
    have hndS : st.subs.Nodup := h.subsEq ▸ h.nodupG
    rw [foldl_removeData _ _ _ hndS]
    simp only [h.subsEq]
    -- the dataset loses everything
    have hempty : (st.groups.flatMap fun g => (st.gsubs g).filter (fun s => s.data == some d)).foldl
        List.erase (st.dsubs d) = [] := by
      rw [foldl_erase_eq_filter _ _ (nodup_dsubs h hd), List.filter_eq_nil_iff]
      intro s hs
      have h1 := h.attachedListed d hd s hs
      have h2 := mem_groups_of_attached h hd hs
      have h3 := h.subData d s hs
      have : s ∈ st.groups.flatMap fun g => (st.gsubs g).filter (fun s => s.data == some d) :=
        List.mem_flatMap.2 ⟨s.group, h2, List.mem_filter.2 ⟨h1, by simp [h3]⟩⟩
      simp [this]
    rw [hempty]
    have hmem : ∀ x, x ∈ st.datasets.erase d ↔ x ≠ d ∧ x ∈ st.datasets := fun x => h.nodupD.mem_erase_iff
    refine
      { nodupD := h.nodupD.erase d, nodupG := h.nodupG, subsEq := rfl, dBound := ?_, gBound := h.gBound,
        dataGroups := ?_, subData := ?_, removedEmpty := ?_, groupDatas := ?_, subGroup := ?_,
        groupAttached := ?_, attachedListed := ?_ }
    · intro x hx; exact h.dBound x ((hmem x).1 hx).2
    · intro x hx
      show ((upd st.dsubs d []) x).map (·.group) = st.groups
      rw [upd_other _ _ _ _ ((hmem x).1 hx).1]; exact h.dataGroups x ((hmem x).1 hx).2
    · intro x s hs
      change s ∈ (upd st.dsubs d []) x at hs
      by_cases hx : x = d
      · subst hx; rw [upd_same] at hs; cases hs
      · rw [upd_other _ _ _ _ hx] at hs; exact h.subData x s hs
    · intro x hx
      show (upd st.dsubs d []) x = []
      by_cases hxd : x = d
      · subst hxd; exact upd_same _ _ _
      · rw [upd_other _ _ _ _ hxd]
        exact h.removedEmpty x (fun e => hx ((hmem x).2 ⟨hxd, e⟩))
    · intro g hg
      show (((if g ∈ st.groups then (st.gsubs g).filter (fun s => !(s.data == some d)) else st.gsubs g)).map
          (·.data)).Perm ((st.datasets.erase d).map some)
      rw [if_pos hg, ← map_some_erase _ _ h.nodupD]
      have := (h.groupDatas g hg).filter (fun y => !(y == some d))
      rw [List.filter_map] at this
      exact this
    · intro g s hs
      change s ∈ (if g ∈ st.groups then (st.gsubs g).filter (fun s => !(s.data == some d)) else st.gsubs g) at hs
      split at hs
      · exact h.subGroup g s (List.mem_filter.1 hs).1
      · exact h.subGroup g s hs
    · intro g hg s hs x hsx
      change s ∈ (if g ∈ st.groups then (st.gsubs g).filter (fun s => !(s.data == some d)) else st.gsubs g) at hs
      rw [if_pos hg] at hs
      have ⟨h1, h2⟩ := List.mem_filter.1 hs
      show s ∈ (upd st.dsubs d []) x
      have hx : x ≠ d := by
        intro e; subst e
        simp [hsx] at h2
      rw [upd_other _ _ _ _ hx]
      exact h.groupAttached g hg s h1 x hsx
    · intro x hx s hs
      change s ∈ (upd st.dsubs d []) x at hs
      have ⟨hxd, hxD⟩ := (hmem x).1 hx
      rw [upd_other _ _ _ _ hxd] at hs
      show s ∈ (if s.group ∈ st.groups then (st.gsubs s.group).filter (fun s => !(s.data == some d))
          else st.gsubs s.group)
      rw [if_pos (mem_groups_of_attached h hxD hs)]
      refine List.mem_filter.2 ⟨h.attachedListed x hxD s hs, ?_⟩
      have := h.subData x s hs
      simp [this, hxd]
  · exact h

/-- facts about `zip(data, group.subsets)` in `SubsetGroup.register`. -/
theorem zip_new_mem (n g : Nat) (D : List Nat) (hnd : D.Nodup) (d : Nat) (hd : d ∈ D) :
    ∃ s, ((D.zip (mkSubsD n g D)).filter (fun p => p.1 == d)).map (·.2) = [s] ∧
      s.data = some d ∧ s.group = g ∧ s ∈ mkSubsD n g D := by
  have hfst : (D.zip (mkSubsD n g D)).map (·.1) = D :=
    List.map_fst_zip (by rw [mkSubsD_length]; exact Nat.le_refl _)
  have hd' : d ∈ (D.zip (mkSubsD n g D)).map (·.1) := by rw [hfst]; exact hd
  obtain ⟨p, hp, rfl⟩ := List.mem_map.1 hd'
  refine ⟨p.2, ?_, mkSubsD_zip n g D p hp, mkSubsD_group n g D _ (List.of_mem_zip hp).2, (List.of_mem_zip hp).2⟩
  rw [filter_eq_singleton (·.1) _ _ hfst hnd p hp]
  rfl

theorem zip_new_not_mem (n g : Nat) (D : List Nat) (d : Nat) (hd : d ∉ D) :
    ((D.zip (mkSubsD n g D)).filter (fun p => p.1 == d)).map (·.2) = [] := by
  have : (D.zip (mkSubsD n g D)).filter (fun p => p.1 == d) = [] := by
    rw [List.filter_eq_nil_iff]
    intro p hp hpd
    simp only [beq_iff_eq] at hpd
    exact hd (hpd ▸ (List.of_mem_zip hp).1)
  rw [this]; rfl

theorem zip_new_of_mem (n g : Nat) (D : List Nat) (s : Sub) (hs : s ∈ mkSubsD n g D) :
    ∃ d ∈ D, s.data = some d ∧ s ∈ ((D.zip (mkSubsD n g D)).filter (fun p => p.1 == d)).map (·.2) := by
  have hsnd : (D.zip (mkSubsD n g D)).map (·.2) = mkSubsD n g D :=
    List.map_snd_zip (by rw [mkSubsD_length]; exact Nat.le_refl _)
  rw [← hsnd] at hs
  obtain ⟨p, hp, rfl⟩ := List.mem_map.1 hs
  exact ⟨p.1, (List.of_mem_zip hp).1, mkSubsD_zip n g D p hp,
    List.mem_map.2 ⟨p, List.mem_filter.2 ⟨hp, by simp⟩, rfl⟩⟩

theorem inv_newGroup (st : State) (h : Inv st) : Inv (newGroup st) := by
  rw [newGroup_eq]
  have hg : st.nGroup ∉ st.groups := fun e => Nat.lt_irrefl _ (h.gBound _ e)
  refine
    { nodupD := h.nodupD, nodupG := ?_, subsEq := ?_, dBound := h.dBound, gBound := ?_,
      dataGroups := ?_, subData := ?_, removedEmpty := ?_, groupDatas := ?_, subGroup := ?_,
      groupAttached := ?_, attachedListed := ?_ }
  · show (st.groups ++ [st.nGroup]).Nodup
    rw [List.nodup_append]
    refine ⟨h.nodupG, by simp, ?_⟩
    intro a ha b hb e
    rw [List.mem_singleton] at hb
    exact hg (hb ▸ e ▸ ha)
  · show st.subs ++ [st.nGroup] = st.groups ++ [st.nGroup]
    rw [h.subsEq]
  · intro x hx
    show x < st.nGroup + 1
    rcases List.mem_append.1 hx with hx | hx
    · exact Nat.lt_succ_of_lt (h.gBound x hx)
    · rw [List.mem_singleton] at hx; subst hx; exact Nat.lt_succ_self _
  · intro d hd
    show (st.dsubs d ++ ((st.datasets.zip (mkSubsD st.nSub st.nGroup st.datasets)).filter
        (fun p => p.1 == d)).map (·.2)).map (·.group) = st.groups ++ [st.nGroup]
    obtain ⟨s, hs, _, hsg, _⟩ := zip_new_mem st.nSub st.nGroup st.datasets h.nodupD d hd
    rw [hs, List.map_append, h.dataGroups d hd]
    simp [hsg]
  · intro x s hs
    change s ∈ st.dsubs x ++ ((st.datasets.zip (mkSubsD st.nSub st.nGroup st.datasets)).filter
        (fun p => p.1 == x)).map (·.2) at hs
    rcases List.mem_append.1 hs with hs | hs
    · exact h.subData x s hs
    · obtain ⟨p, hp, rfl⟩ := List.mem_map.1 hs
      have ⟨hp1, hp2⟩ := List.mem_filter.1 hp
      simp only [beq_iff_eq] at hp2
      rw [← hp2]
      exact mkSubsD_zip _ _ _ p hp1
  · intro x hx
    show st.dsubs x ++ ((st.datasets.zip (mkSubsD st.nSub st.nGroup st.datasets)).filter
        (fun p => p.1 == x)).map (·.2) = []
    rw [h.removedEmpty x hx, zip_new_not_mem _ _ _ _ hx]; rfl
  · intro g hg'
    show (((upd st.gsubs st.nGroup (mkSubsD st.nSub st.nGroup st.datasets)) g).map (·.data)).Perm
        (st.datasets.map some)
    rcases List.mem_append.1 hg' with hg' | hg'
    · have : g ≠ st.nGroup := fun e => hg (e ▸ hg')
      rw [upd_other _ _ _ _ this]; exact h.groupDatas g hg'
    · rw [List.mem_singleton] at hg'; subst hg'
      rw [upd_same, mkSubsD_map_data]
  · intro g s hs
    change s ∈ (upd st.gsubs st.nGroup (mkSubsD st.nSub st.nGroup st.datasets)) g at hs
    by_cases hgg : g = st.nGroup
    · subst hgg; rw [upd_same] at hs; exact mkSubsD_group _ _ _ s hs
    · rw [upd_other _ _ _ _ hgg] at hs; exact h.subGroup g s hs
  · intro g hg' s hs x hsx
    change s ∈ (upd st.gsubs st.nGroup (mkSubsD st.nSub st.nGroup st.datasets)) g at hs
    show s ∈ st.dsubs x ++ ((st.datasets.zip (mkSubsD st.nSub st.nGroup st.datasets)).filter
        (fun p => p.1 == x)).map (·.2)
    rcases List.mem_append.1 hg' with hg' | hg'
    · have : g ≠ st.nGroup := fun e => hg (e ▸ hg')
      rw [upd_other _ _ _ _ this] at hs
      exact List.mem_append_left _ (h.groupAttached g hg' s hs x hsx)
    · rw [List.mem_singleton] at hg'; subst hg'
      rw [upd_same] at hs
      obtain ⟨d, _, hd2, hd3⟩ := zip_new_of_mem _ _ _ s hs
      rw [hd2] at hsx
      have : d = x := Option.some.inj hsx
      subst this
      exact List.mem_append_right _ hd3
  · intro x hx s hs
    change s ∈ st.dsubs x ++ ((st.datasets.zip (mkSubsD st.nSub st.nGroup st.datasets)).filter
        (fun p => p.1 == x)).map (·.2) at hs
    show s ∈ (upd st.gsubs st.nGroup (mkSubsD st.nSub st.nGroup st.datasets)) s.group
    rcases List.mem_append.1 hs with hs | hs
    · have h1 := mem_groups_of_attached h hx hs
      have : s.group ≠ st.nGroup := fun e => hg (e ▸ h1)
      rw [upd_other _ _ _ _ this]; exact h.attachedListed x hx s hs
    · obtain ⟨s', hs', _, hsg, hmem⟩ := zip_new_mem st.nSub st.nGroup st.datasets h.nodupD x hx
      rw [hs', List.mem_singleton] at hs
      subst hs
      rw [hsg, upd_same]; exact hmem

/-- what `remove_subset_group(g)` leaves on a dataset of the collection: everything but `g`'s subset. -/
theorem removeGroup_dsubs {st : State} (h : Inv st) (g d : Nat) (hd : d ∈ st.datasets) :
    ((st.gsubs g).filter (fun s => s.data == some d)).foldl List.erase (st.dsubs d) =
      (st.dsubs d).filter (fun s => !(s.group == g)) := by
  rw [foldl_erase_eq_filter _ _ (nodup_dsubs h hd)]
  apply List.filter_congr
  intro s hs
  by_cases hsg : s.group = g
  · have h1 : s ∈ st.gsubs g := hsg ▸ h.attachedListed d hd s hs
    have h2 := h.subData d s hs
    have : s ∈ (st.gsubs g).filter (fun s => s.data == some d) := List.mem_filter.2 ⟨h1, by simp [h2]⟩
    simp [this, hsg]
  · have : s ∉ (st.gsubs g).filter (fun s => s.data == some d) := by
      intro hm
      exact hsg (h.subGroup g s (List.mem_filter.1 hm).1)
    simp [this, hsg]

theorem inv_removeGroup (g : Nat) (st : State) (h : Inv st) : Inv (removeGroup g st) := by
  unfold removeGroup
  split
  · rename_i hg
    simp only [foldl_deleteSub]
    have hmem : ∀ x, x ∈ st.groups.erase g ↔ x ≠ g ∧ x ∈ st.groups := fun x => h.nodupG.mem_erase_iff
    have hsub : ∀ x s, s ∈ ((st.gsubs g).filter (fun s => s.data == some x)).foldl List.erase (st.dsubs x) →
        s ∈ st.dsubs x := by
      intro x s hs
      by_cases hx : x ∈ st.datasets
      · rw [removeGroup_dsubs h g x hx] at hs; exact (List.mem_filter.1 hs).1
      · rw [h.removedEmpty x hx, foldl_erase_nil] at hs; cases hs
    refine
      { nodupD := h.nodupD, nodupG := h.nodupG.erase g, subsEq := ?_, dBound := h.dBound, gBound := ?_,
        dataGroups := ?_, subData := ?_, removedEmpty := ?_, groupDatas := ?_, subGroup := h.subGroup,
        groupAttached := ?_, attachedListed := ?_ }
    · show st.subs.erase g = st.groups.erase g
      rw [h.subsEq]
    · intro x hx; exact h.gBound x ((hmem x).1 hx).2
    · intro d hd
      show (((st.gsubs g).filter (fun s => s.data == some d)).foldl List.erase (st.dsubs d)).map (·.group)
          = st.groups.erase g
      rw [removeGroup_dsubs h g d hd, h.nodupG.erase_eq_filter, ← h.dataGroups d hd, List.filter_map]
      rfl
    · intro x s hs; exact h.subData x s (hsub x s hs)
    · intro x hx
      show ((st.gsubs g).filter (fun s => s.data == some x)).foldl List.erase (st.dsubs x) = []
      rw [h.removedEmpty x hx, foldl_erase_nil]
    · intro g' hg'; exact h.groupDatas g' ((hmem g').1 hg').2
    · intro g' hg' s hs x hsx
      have ⟨hne, hgG⟩ := (hmem g').1 hg'
      have h1 := h.groupAttached g' hgG s hs x hsx
      have hx := mem_datasets_of_attached h h1
      show s ∈ ((st.gsubs g).filter (fun s => s.data == some x)).foldl List.erase (st.dsubs x)
      rw [removeGroup_dsubs h g x hx]
      refine List.mem_filter.2 ⟨h1, ?_⟩
      have := h.subGroup g' s hs
      simp [this, hne]
    · intro x hx s hs; exact h.attachedListed x hx s (hsub x s hs)
  · exact h

theorem find?_unique {α : Type} (p : α → Bool) (a : α) : ∀ l : List α, a ∈ l → p a = true →
    (∀ x ∈ l, p x = true → x = a) → l.find? p = some a := by
  intro l
  induction l with
  | nil => intro h; cases h
  | cons b t ih =>
    intro hm hp hu
    by_cases hb : p b = true
    · have := hu b (List.mem_cons_self ..) hb
      subst this
      simp [hb]
    · have hb' : p b = false := by simpa using hb
      rcases List.mem_cons.1 hm with rfl | hm'
      · exact absurd hp hb
      · simp only [List.find?_cons, hb']
        exact ih hm' hp (fun x hx => hu x (List.mem_cons_of_mem _ hx))

theorem map_eq_self {α : Type} (f : α → α) (l : List α) (h : ∀ a ∈ l, f a = a) : l.map f = l := by
  induction l with
  | nil => rfl
  | cons a t ih =>
    simp only [List.map_cons]
    rw [h a (List.mem_cons_self ..), ih (fun b hb => h b (List.mem_cons_of_mem _ hb))]

/-- `Inv` does not look at the command stack. -/
theorem inv_stack (st : State) (h : Inv st) (a b : List DCmd) :
    Inv { st with done := a, undone := b } :=
  ⟨h.nodupD, h.nodupG, h.subsEq, h.dBound, h.gBound, h.dataGroups, h.subData, h.removedEmpty,
    h.groupDatas, h.subGroup, h.groupAttached, h.attachedListed⟩

/-- on a state that satisfies `Inv`, a save / restore round trip changes nothing but the command
stack (the restored session starts with an empty one). -/
theorem restore_eq (st : State) (h : Inv st) : restore st = { st with done := [], undone := [] } := by
  unfold restore
  apply State.ext <;> try rfl
  · exact h.subsEq.symm
  · funext d
    by_cases hd : d ∈ st.datasets
    · simp only [hd, if_true]
      apply map_eq_self
      intro s hs
      have := h.subData d s hs
      cases s; simp_all
    · simp only [hd, if_false]; exact (h.removedEmpty d hd).symm
  · funext g
    by_cases hg : g ∈ st.groups
    · simp only [hg, if_true]
      apply map_eq_self
      intro s hs
      have h1 : s.data ∈ (st.gsubs g).map (·.data) := List.mem_map.2 ⟨s, hs, rfl⟩
      rw [(h.groupDatas g hg).mem_iff] at h1
      obtain ⟨d, hd, hsd⟩ := List.mem_map.1 h1
      have h2 := h.groupAttached g hg s hs d hsd.symm
      have : st.datasets.find? (fun d => (st.dsubs d).contains s) = some d := by
        apply find?_unique _ _ _ hd (by simpa using h2)
        intro x _ hx
        have hx' : s ∈ st.dsubs x := by simpa using hx
        have := h.subData x s hx'
        rw [← hsd] at this
        exact (Option.some.inj this).symm
      rw [this]
      cases s; simp_all
    · simp only [hg, if_false]

theorem inv_restore (st : State) (h : Inv st) : Inv (restore st) := by
  rw [restore_eq st h]; exact inv_stack st h [] []

theorem inv_setVal (g : Nat) (f : GVals → GVals) (st : State) (h : Inv st) : Inv (setVal g f st) := by
  unfold setVal
  split
  · exact ⟨h.nodupD, h.nodupG, h.subsEq, h.dBound, h.gBound, h.dataGroups, h.subData, h.removedEmpty,
      h.groupDatas, h.subGroup, h.groupAttached, h.attachedListed⟩
  · exact h

/-! ## 4. composite operations -/

theorem inv_extend (ds : List Nat) : ∀ st : State, Inv st → Inv (extend ds st) := by
  unfold extend
  induction ds with
  | nil => intro st h; exact h
  | cons d ds ih => intro st h; exact ih _ (inv_appendOne d st h)

theorem inv_foldl_remove (ds : List Nat) : ∀ st : State, Inv st →
    Inv (ds.foldl (fun st d => removeOne true d st) st) := by
  induction ds with
  | nil => intro st h; exact h
  | cons d ds ih => intro st h; exact ih _ (inv_removeOne d st h)

theorem inv_clear (st : State) (h : Inv st) : Inv (clear true st) := inv_foldl_remove _ st h

theorem inv_merge (ds : List Nat) (st : State) (h : Inv st) : Inv (merge true ds st) := by
  unfold merge
  split
  · split
    · apply inv_foldl_remove
      apply inv_appendOne
      have hm : st.nData ∉ st.datasets := fun e => Nat.lt_irrefl _ (h.dBound _ e)
      have he : upd st.dsubs st.nData [] = st.dsubs := by
        rw [← h.removedEmpty _ hm]; exact upd_self _ _
      simp only [he]
      exact ⟨h.nodupD, h.nodupG, h.subsEq, fun d hd => Nat.lt_succ_of_lt (h.dBound d hd), h.gBound,
        h.dataGroups, h.subData, h.removedEmpty, h.groupDatas, h.subGroup, h.groupAttached, h.attachedListed⟩
    · exact h
  · exact h

theorem inv_foldl_setItem (key : Nat) (ds : List Nat) : ∀ st : State, Inv st →
    Inv (ds.foldl (fun st e => if st.dlabel e = key then removeOne true e st else st) st) := by
  induction ds with
  | nil => intro st h; exact h
  | cons d ds ih =>
    intro st h
    simp only [List.foldl_cons]
    apply ih
    split
    · exact inv_removeOne d st h
    · exact h

theorem inv_setItem (key d : Nat) (st : State) (h : Inv st) : Inv (setItem true key d st) := by
  unfold setItem
  split
  · exact h
  · apply inv_appendOne
    apply inv_foldl_setItem
    exact ⟨h.nodupD, h.nodupG, h.subsEq, h.dBound, h.gBound, h.dataGroups, h.subData, h.removedEmpty,
      h.groupDatas, h.subGroup, h.groupAttached, h.attachedListed⟩

/-- `Inv` looks at the order of the collection only through `groupDatas`, which is up to
permutation: the datasets may be listed in any order. -/
theorem inv_perm_datasets (st : State) (h : Inv st) (D : List Nat) (hp : D.Perm st.datasets) :
    Inv { st with datasets := D } :=
  { nodupD := hp.nodup_iff.2 h.nodupD, nodupG := h.nodupG, subsEq := h.subsEq,
    dBound := fun d hd => h.dBound d (hp.mem_iff.1 hd), gBound := h.gBound,
    dataGroups := fun d hd => h.dataGroups d (hp.mem_iff.1 hd), subData := h.subData,
    removedEmpty := fun d hd => h.removedEmpty d (fun e => hd (hp.mem_iff.2 e)),
    groupDatas := fun g hg => (h.groupDatas g hg).trans (hp.map some).symm,
    subGroup := h.subGroup, groupAttached := h.groupAttached,
    attachedListed := fun d hd => h.attachedListed d (hp.mem_iff.1 hd) }

/-- `insert(i, d)` is `append(d)` followed by moving `d` from the end to position `i` (the
`DataCollectionAddMessage` broadcast does not look at the collection's list). -/
theorem insertOne_eq (i d : Nat) (st : State) (hc : ¬ (d ∈ st.datasets ∨ st.nData ≤ d)) :
    insertOne i d st =
      { appendOne d st with datasets := st.datasets.insertIdx (min i st.datasets.length) d } := by
  unfold insertOne appendOne
  rw [if_neg hc, if_neg hc, foldl_addData, foldl_addData]

theorem datasets_appendOne (d : Nat) (st : State) (hc : ¬ (d ∈ st.datasets ∨ st.nData ≤ d)) :
    (appendOne d st).datasets = st.datasets ++ [d] := by
  unfold appendOne
  rw [if_neg hc, foldl_addData]

theorem inv_insertOne (i d : Nat) (st : State) (h : Inv st) : Inv (insertOne i d st) := by
  by_cases hc : d ∈ st.datasets ∨ st.nData ≤ d
  · unfold insertOne; rw [if_pos hc]; exact h
  · rw [insertOne_eq i d st hc]
    apply inv_perm_datasets _ (inv_appendOne d st h)
    rw [datasets_appendOne d st hc]
    exact (List.perm_insertIdx d st.datasets (Nat.min_le_right _ _)).trans
      (List.perm_append_singleton d st.datasets).symm

theorem inv_cmdDo (c : DCmd) (st : State) (h : Inv st) : Inv (cmdDo true c st) := by
  unfold cmdDo
  split
  · exact inv_appendOne _ st h
  · exact inv_removeOne _ st h

/-- whatever the command object recorded (any flag, any position — other operations may have
changed the collection since), undoing it keeps the invariant. -/
theorem inv_cmdUndo (c : DCmd) (st : State) (h : Inv st) : Inv (cmdUndo true c st) := by
  unfold cmdUndo
  split
  · split
    · exact inv_removeOne _ st h
    · exact inv_insertOne _ _ st h
  · exact h

theorem inv_doCmd (add : Bool) (d : Nat) (st : State) (h : Inv st) : Inv (doCmd true add d st) := by
  unfold doCmd
  exact inv_stack _ (inv_cmdDo _ _ (inv_stack st h _ _)) _ _

theorem inv_undoCmd (st : State) (h : Inv st) : Inv (undoCmd true st) := by
  unfold undoCmd
  split
  · exact h
  · exact inv_cmdUndo _ _ (inv_stack st h _ _)

theorem inv_redoCmd (st : State) (h : Inv st) : Inv (redoCmd true st) := by
  unfold redoCmd
  split
  · exact h
  · exact inv_stack _ (inv_cmdDo _ _ (inv_stack st h _ _)) _ _

theorem inv_init (n colors : Nat) : Inv (init n colors) := by
  refine ⟨List.nodup_nil, List.nodup_nil, rfl, ?_, ?_, ?_, ?_, ?_, ?_, ?_, ?_, ?_⟩ <;>
    intros <;> first | rfl | (rename_i h; cases h) | skip
  all_goals simp_all [init]

theorem inv_step (st : State) (op : Op) (h : Inv st) : Inv (step true st op) := by
  cases op with
  | append d => exact inv_appendOne d st h
  | extend ds => exact inv_extend ds st h
  | remove d => exact inv_removeOne d st h
  | clear => exact inv_clear st h
  | newGroup => exact inv_newGroup st h
  | removeGroup g => exact inv_removeGroup g st h
  | setState g v => exact inv_setVal g (fun x => { x with state := .user v }) st h
  | setLabel g v => exact inv_setVal g (fun x => { x with label := .user v }) st h
  | setStyle g v => exact inv_setVal g (fun x => { x with style := .user v }) st h
  | merge ds => exact inv_merge ds st h
  | insert i d => exact inv_insertOne i d st h
  | setItem key d => exact inv_setItem key d st h
  | restore => exact inv_restore st h
  | doCmd add d => exact inv_doCmd add d st h
  | undo => exact inv_undoCmd st h
  | redo => exact inv_redoCmd st h

theorem inv_run (ops : List Op) : ∀ st : State, Inv st → Inv (run true st ops) := by
  unfold run
  induction ops with
  | nil => intro st h; exact h
  | cons op ops ih => intro st h; exact ih _ (inv_step st op h)

/-! ## 5. `Inv` implies the executable Spec predicate -/

theorem dataOk_of_inv {st : State} (h : Inv st) (d : Nat) (hd : d ∈ st.datasets) : dataOk st d = true := by
  unfold dataOk
  simp only [Bool.and_eq_true, List.all_eq_true, beq_iff_eq, List.contains_eq_mem, decide_eq_true_eq]
  refine ⟨?_, ?_⟩
  · intro g hg
    exact filter_length_one (fun s : Sub => s.group) _ _ (h.dataGroups d hd) h.nodupG g hg
  · intro s hs
    exact ⟨mem_groups_of_attached h hd hs, h.subData d s hs⟩

theorem groupOk_of_inv {st : State} (h : Inv st) (g : Nat) (hg : g ∈ st.groups) : groupOk st g = true := by
  unfold groupOk
  simp only [Bool.and_eq_true, List.all_eq_true, List.any_eq_true, beq_iff_eq, List.contains_eq_mem,
    decide_eq_true_eq, Bool.or_eq_true, bne_iff_ne, ne_eq]
  refine ⟨⟨?_, ?_⟩, ?_⟩
  · intro s hs
    refine ⟨h.subGroup g s hs, ?_⟩
    have h1 : s.data ∈ (st.gsubs g).map (·.data) := List.mem_map.2 ⟨s, hs, rfl⟩
    rw [(h.groupDatas g hg).mem_iff] at h1
    obtain ⟨d, hd, hsd⟩ := List.mem_map.1 h1
    exact ⟨d, hd, hsd.symm, h.groupAttached g hg s hs d hsd.symm⟩
  · intro d hd s hs
    by_cases hsg : s.group = g
    · right; exact hsg ▸ h.attachedListed d hd s hs
    · left; exact hsg
  · have := (h.groupDatas g hg).length_eq
    simpa using this

theorem removedGroupOk_of_inv {st : State} (h : Inv st) (g : Nat) : removedGroupOk st g = true := by
  unfold removedGroupOk
  by_cases hg : g ∈ st.groups
  · simp [hg, h.subsEq]
  · simp only [List.contains_eq_mem, hg, decide_false, Bool.false_eq_true, if_false, h.subsEq,
      Bool.not_false, Bool.true_and, List.all_eq_true, Bool.not_eq_true', decide_eq_false_iff_not]
    intro s hs d _ hsd
    have hd := mem_datasets_of_attached h hsd
    have h1 := mem_groups_of_attached h hd hsd
    rw [h.subGroup g s hs] at h1
    exact hg h1

theorem readsOk_of_inv {st : State} (h : Inv st) : readsOk st (modelReads st) = true := by
  unfold readsOk
  simp only [List.all_eq_true, Bool.and_eq_true, List.any_eq_true, beq_iff_eq, Bool.or_eq_true,
    bne_iff_ne, ne_eq]
  intro g hg s hs
  refine ⟨?_, ?_⟩
  · refine ⟨⟨s, readSub st s, true⟩, ?_, rfl⟩
    unfold modelReads
    refine List.mem_map.2 ⟨s, ?_, rfl⟩
    unfold allSubs
    refine List.mem_append_right _ (List.mem_flatMap.2 ⟨g, ?_, hs⟩)
    exact List.mem_range.2 (h.gBound g hg)
  · intro r hr
    unfold modelReads at hr
    obtain ⟨s', _, rfl⟩ := List.mem_map.1 hr
    by_cases hss : s' = s
    · right
      subst hss
      simp [readSub, h.subGroup g s' hs]
    · left; exact hss

/-- The inductive invariant implies the property predicate that the driver evaluates. -/
theorem specOk_of_inv (st : State) (h : Inv st) : specOk st (modelReads st) = true := by
  unfold specOk
  simp only [Bool.and_eq_true, decide_eq_true_eq, List.all_eq_true]
  refine ⟨⟨⟨⟨⟨⟨⟨⟨h.nodupD, h.nodupG⟩, h.dBound⟩, h.gBound⟩, ?_⟩, ?_⟩, ?_⟩, ?_⟩, readsOk_of_inv h⟩
  · intro d hd; exact dataOk_of_inv h d hd
  · intro g hg; exact groupOk_of_inv h g hg
  · intro d _
    unfold removedDataOk
    by_cases hd : d ∈ st.datasets
    · simp [hd]
    · simp [hd, h.removedEmpty d hd]
  · intro g _; exact removedGroupOk_of_inv h g

end GlueVerif.Lemmas.C06
