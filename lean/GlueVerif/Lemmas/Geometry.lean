import GlueVerif.Model.Geometry
import Mathlib.Tactic.Linarith
import Mathlib.Tactic.Ring
import Mathlib.Tactic.FieldSimp
import Mathlib.Tactic.Positivity
import Mathlib.Algebra.Order.Field.Basic
/-!
# Helper lemmas for C08 (region geometry)

Part 1: facts about rotations, boxes and bands over an arbitrary linearly ordered field.
Part 2: the executable `Rat` model of `GlueVerif.Model.Geometry` (Bool-valued tests turned into
propositions, then closed with `linarith` / `nlinarith` and the generic facts).
-/
namespace GlueVerif.Lemmas.Geometry

/-! ## Part 1 — ordered-field facts -/
section Generic
set_option linter.unusedSectionVars false
variable {K : Type*} [Field K] [LinearOrder K] [IsStrictOrderedRing K]

theorem unit_le_one {c s : K} (h : c * c + s * s = 1) : -1 ≤ c ∧ c ≤ 1 ∧ -1 ≤ s ∧ s ≤ 1 := by
  refine ⟨?_, ?_, ?_, ?_⟩ <;> nlinarith [mul_self_nonneg c, mul_self_nonneg s, mul_self_nonneg (c - 1),
    mul_self_nonneg (c + 1), mul_self_nonneg (s - 1), mul_self_nonneg (s + 1)]

/-- `|c·x| ≤ A` when `|c| ≤ 1` and `|x| ≤ A`. -/
theorem mul_bound_one {c x A : K} (hc1 : -1 ≤ c) (hc2 : c ≤ 1) (hx1 : -A ≤ x) (hx2 : x ≤ A) :
    -A ≤ c * x ∧ c * x ≤ A := by
  constructor <;> nlinarith [mul_nonneg (sub_nonneg.2 hc2) (sub_nonneg.2 hx2),
    mul_nonneg (sub_nonneg.2 hc2) (sub_nonneg.2 hx1), mul_nonneg (sub_nonneg.2 hc1) (sub_nonneg.2 hx2),
    mul_nonneg (sub_nonneg.2 hc1) (sub_nonneg.2 hx1)]

/-- `|s·y| ≤ σ·B` when `|s| ≤ σ` and `|y| ≤ B`. -/
theorem mul_bound {s y σ B : K} (hs1 : -σ ≤ s) (hs2 : s ≤ σ) (hy1 : -B ≤ y) (hy2 : y ≤ B) :
    -(σ * B) ≤ s * y ∧ s * y ≤ σ * B := by
  constructor <;> nlinarith [mul_nonneg (sub_nonneg.2 hs2) (sub_nonneg.2 hy2),
    mul_nonneg (sub_nonneg.2 hs2) (sub_nonneg.2 hy1), mul_nonneg (sub_nonneg.2 hs1) (sub_nonneg.2 hy2),
    mul_nonneg (sub_nonneg.2 hs1) (sub_nonneg.2 hy1)]

/-- A rotation by an angle whose sine is at most `σ` in size moves the first coordinate of a point
of the box `[-A, A] × [-B, B]` by at most `σ·B` beyond `A`. -/
theorem rot_coord_bound {c s x y A B σ : K} (hu : c * c + s * s = 1)
    (hs1 : -σ ≤ s) (hs2 : s ≤ σ) (hx1 : -A ≤ x) (hx2 : x ≤ A) (hy1 : -B ≤ y) (hy2 : y ≤ B) :
    -(A + σ * B) ≤ c * x + s * y ∧ c * x + s * y ≤ A + σ * B := by
  obtain ⟨hc1, hc2, -, -⟩ := unit_le_one hu
  obtain ⟨h1, h2⟩ := mul_bound_one hc1 hc2 hx1 hx2
  obtain ⟨h3, h4⟩ := mul_bound hs1 hs2 hy1 hy2
  constructor <;> linarith

/-- Composition of two inverse rotations: `R(−θ) R(−φ) = R(−(θ+φ))`, coordinate-wise. -/
theorem unrot_unrot (c s d e x y : K) :
    c * (d * x + e * y) + s * (-e * x + d * y) = (c * d - s * e) * x + (s * d + c * e) * y ∧
    -s * (d * x + e * y) + c * (-e * x + d * y) = -(s * d + c * e) * x + (c * d - s * e) * y := by
  constructor <;> ring

/-- `R(θ) R(−θ) = id` for a unit vector. -/
theorem rot_unrot {c s : K} (hu : c * c + s * s = 1) (x y : K) :
    c * (c * x + s * y) - s * (-s * x + c * y) = x ∧ s * (c * x + s * y) + c * (-s * x + c * y) = y := by
  constructor
  · have : c * (c * x + s * y) - s * (-s * x + c * y) = (c * c + s * s) * x := by ring
    rw [this, hu, one_mul]
  · have : s * (c * x + s * y) + c * (-s * x + c * y) = (c * c + s * s) * y := by ring
    rw [this, hu, one_mul]

/-- A rotation preserves the squared length. -/
theorem unrot_norm {c s : K} (hu : c * c + s * s = 1) (x y : K) :
    (c * x + s * y) * (c * x + s * y) + (-s * x + c * y) * (-s * x + c * y) = x * x + y * y := by
  have : (c * x + s * y) * (c * x + s * y) + (-s * x + c * y) * (-s * x + c * y)
      = (c * c + s * s) * (x * x + y * y) := by ring
  rw [this, hu, one_mul]

/-- **The bounding box of the rotated corners contains the rotated rectangle** (first coordinate):
for `|u| ≤ a`, `|v| ≤ b` the value `c·u − s·v` lies between the least and the greatest of the four
corner values `c·(±a) − s·(±b)`. -/
theorem corner_bounds {c s u v a b : K} (hu1 : -a ≤ u) (hu2 : u ≤ a) (hv1 : -b ≤ v) (hv2 : v ≤ b) :
    (c * (-a) - s * (-b) ≤ c * u - s * v ∨ c * a - s * (-b) ≤ c * u - s * v ∨
      c * a - s * b ≤ c * u - s * v ∨ c * (-a) - s * b ≤ c * u - s * v) ∧
    (c * u - s * v ≤ c * (-a) - s * (-b) ∨ c * u - s * v ≤ c * a - s * (-b) ∨
      c * u - s * v ≤ c * a - s * b ∨ c * u - s * v ≤ c * (-a) - s * b) := by
  rcases le_total 0 c with hc | hc <;> rcases le_total 0 s with hs | hs
  · refine ⟨Or.inr (Or.inr (Or.inr ?_)), Or.inr (Or.inl ?_)⟩ <;>
      nlinarith [mul_nonneg hc (sub_nonneg.2 hu1), mul_nonneg hc (sub_nonneg.2 hu2),
        mul_nonneg hs (sub_nonneg.2 hv1), mul_nonneg hs (sub_nonneg.2 hv2)]
  · refine ⟨Or.inl ?_, Or.inr (Or.inr (Or.inl ?_))⟩ <;>
      nlinarith [mul_nonneg hc (sub_nonneg.2 hu1), mul_nonneg hc (sub_nonneg.2 hu2),
        mul_nonneg (neg_nonneg.2 hs) (sub_nonneg.2 hv1), mul_nonneg (neg_nonneg.2 hs) (sub_nonneg.2 hv2)]
  · refine ⟨Or.inr (Or.inr (Or.inl ?_)), Or.inl ?_⟩ <;>
      nlinarith [mul_nonneg (neg_nonneg.2 hc) (sub_nonneg.2 hu1), mul_nonneg (neg_nonneg.2 hc) (sub_nonneg.2 hu2),
        mul_nonneg hs (sub_nonneg.2 hv1), mul_nonneg hs (sub_nonneg.2 hv2)]
  · refine ⟨Or.inr (Or.inl ?_), Or.inr (Or.inr (Or.inr ?_))⟩ <;>
      nlinarith [mul_nonneg (neg_nonneg.2 hc) (sub_nonneg.2 hu1), mul_nonneg (neg_nonneg.2 hc) (sub_nonneg.2 hu2),
        mul_nonneg (neg_nonneg.2 hs) (sub_nonneg.2 hv1), mul_nonneg (neg_nonneg.2 hs) (sub_nonneg.2 hv2)]

/-- The annulus test on squares is the test on the distance: for the non-negative `ρ` with
`ρ² = d2` (the value `sqrt` returns), `0 < inner`, `0 ≤ outer`. -/
theorem annulus_sqrt {ρ d2 rin rout : K} (hρ : 0 ≤ ρ) (hρ2 : ρ * ρ = d2) (hin : 0 < rin) (hout : 0 ≤ rout) :
    (rin * rin ≤ d2 ∧ d2 < rout * rout) ↔ (rin ≤ ρ ∧ ρ < rout) := by
  subst hρ2
  constructor
  · rintro ⟨h1, h2⟩
    constructor
    · by_contra h
      rw [not_le] at h
      nlinarith [mul_pos hin hin]
    · by_contra h
      rw [not_lt] at h
      nlinarith [mul_nonneg hout hout]
  · rintro ⟨h1, h2⟩
    constructor <;> nlinarith

/-- `d2 < r²` is `ρ < r` for the distance `ρ` (`r ≥ 0`). -/
theorem circle_sqrt {ρ d2 r : K} (hρ : 0 ≤ ρ) (hρ2 : ρ * ρ = d2) (hr : 0 ≤ r) :
    d2 < r * r ↔ ρ < r := by
  subst hρ2
  constructor
  · intro h
    by_contra h'
    rw [not_lt] at h'
    nlinarith [mul_nonneg hr hr]
  · intro h
    nlinarith

/-- Inside an ellipse with semi-axes `rx, ry ≤ R` the squared length is below `R²`. -/
theorem ellipse_in_disc {x y rx ry R : K} (hrx : 0 < rx) (hry : 0 < ry) (hxR : rx ≤ R) (hyR : ry ≤ R)
    (h : x * x / (rx * rx) + y * y / (ry * ry) < 1) : x * x + y * y < R * R := by
  have hrx2 : 0 < rx * rx := mul_pos hrx hrx
  have hry2 : 0 < ry * ry := mul_pos hry hry
  set a := x * x / (rx * rx) with ha
  set b := y * y / (ry * ry) with hb
  have hxa : x * x = a * (rx * rx) := by rw [ha]; field_simp
  have hyb : y * y = b * (ry * ry) := by rw [hb]; field_simp
  have ha0 : 0 ≤ a := div_nonneg (mul_self_nonneg x) hrx2.le
  have hb0 : 0 ≤ b := div_nonneg (mul_self_nonneg y) hry2.le
  have hR : 0 < R := lt_of_lt_of_le hrx hxR
  have h1 : rx * rx ≤ R * R := mul_le_mul hxR hxR hrx.le hR.le
  have h2 : ry * ry ≤ R * R := mul_le_mul hyR hyR hry.le hR.le
  rw [hxa, hyb]
  nlinarith [mul_le_mul_of_nonneg_left h1 ha0, mul_le_mul_of_nonneg_left h2 hb0, mul_pos hR hR]

/-- `x² < R²` with `R ≥ 0` gives `|x| < R`. -/
theorem abs_lt_of_sq_lt {x R : K} (hR : 0 ≤ R) (h : x * x < R * R) : -R < x ∧ x < R := by
  constructor <;> (by_contra h'; rw [not_lt] at h'; nlinarith)

/-- Strict version of `mul_bound_one`. -/
theorem mul_bound_one_lt {c x A : K} (hc1 : -1 ≤ c) (hc2 : c ≤ 1) (hx1 : -A < x) (hx2 : x < A) :
    -A < c * x ∧ c * x < A := by
  rcases le_total 0 x with hx | hx
  · constructor <;> nlinarith [mul_nonneg (sub_nonneg.2 hc2) hx, mul_nonneg (sub_nonneg.2 hc1) hx]
  · constructor <;> nlinarith [mul_nonneg (sub_nonneg.2 hc2) (neg_nonneg.2 hx),
      mul_nonneg (sub_nonneg.2 hc1) (neg_nonneg.2 hx)]

/-- `|c·x + s·y| < A + σ·B` for `|x| < A`, `|y| ≤ B`, unit `(c, s)`, `|s| ≤ σ`. -/
theorem rot_coord_bound_lt {c s x y A B σ : K} (hu : c * c + s * s = 1)
    (hs1 : -σ ≤ s) (hs2 : s ≤ σ) (hx1 : -A < x) (hx2 : x < A) (hy1 : -B ≤ y) (hy2 : y ≤ B) :
    -(A + σ * B) < c * x + s * y ∧ c * x + s * y < A + σ * B := by
  obtain ⟨hc1, hc2, -, -⟩ := unit_le_one hu
  obtain ⟨h1, h2⟩ := mul_bound_one_lt hc1 hc2 hx1 hx2
  obtain ⟨h3, h4⟩ := mul_bound hs1 hs2 hy1 hy2
  constructor <;> linarith

/-- **A tilt within the branch tolerance does not change the answer off the band.**
`(u, v)` are the coordinates in the rectangle's own frame, `(c·u − s·v, s·u + c·v)` the offset from
the centre in the axes' frame (what the un-rotated branch looks at); `σ ≥ |s|` with
`σ·hw ≤ ε`, `σ·hh ≤ ε`; the point is `ε`-far from the boundary. -/
theorem tilt_agree {c s u v hw hh ε σ : K} (hu : c * c + s * s = 1) (hs1 : -σ ≤ s) (hs2 : s ≤ σ)
    (hσ0 : 0 ≤ σ) (hε : 0 ≤ ε) (hσw : σ * hw ≤ ε) (hσh : σ * hh ≤ ε)
    (far : (hw + ε < u ∨ u < -(hw + ε) ∨ hh + ε < v ∨ v < -(hh + ε)) ∨
      (-(hw - ε) < u ∧ u < hw - ε ∧ -(hh - ε) < v ∧ v < hh - ε)) :
    (-hw < c * u - s * v ∧ c * u - s * v < hw ∧ -hh < s * u + c * v ∧ s * u + c * v < hh) ↔
      (-hw < u ∧ u < hw ∧ -hh < v ∧ v < hh) := by
  have hu' : c * c + (-s) * (-s) = 1 := by rw [← hu]; ring
  have hus : s * s + c * c = 1 := by rw [← hu]; ring
  have hs1' : -σ ≤ -s := by linarith
  have hs2' : -s ≤ σ := by linarith
  constructor
  · rintro ⟨h1, h2, h3, h4⟩
    -- u = c·dx + s·dy, v = −s·dx + c·dy with (dx, dy) strictly inside the un-rotated box
    set dx := c * u - s * v with hdx
    set dy := s * u + c * v with hdy
    have hU : u = c * dx + s * dy := by
      have := (rot_unrot (c := c) (s := -s) hu' u v).1
      rw [hdx, hdy]; linarith [this]
    have hV : v = (-s) * dx + c * dy := by
      have := (rot_unrot (c := c) (s := -s) hu' u v).2
      rw [hdx, hdy]; linarith [this]
    have hhh : 0 < hh := by linarith
    have hhw : 0 < hw := by linarith
    obtain ⟨b1, b2⟩ := rot_coord_bound_lt hu hs1 hs2 h1 h2 h3.le h4.le
    have hV' : v = c * dy + (-s) * dx := by rw [hV]; ring
    obtain ⟨b3, b4⟩ := rot_coord_bound_lt hu' hs1' hs2' h3 h4 h1.le h2.le
    rw [← hU] at b1 b2
    rw [← hV'] at b3 b4
    rcases far with (f | f | f | f) | ⟨f1, f2, f3, f4⟩
    · exfalso; linarith
    · exfalso; linarith
    · exfalso; linarith
    · exfalso; linarith
    · exact ⟨by linarith, by linarith, by linarith, by linarith⟩
  · rintro ⟨h1, h2, h3, h4⟩
    rcases far with (f | f | f | f) | ⟨f1, f2, f3, f4⟩
    · exfalso; linarith
    · exfalso; linarith
    · exfalso; linarith
    · exfalso; linarith
    · have hA : 0 < hw - ε := by linarith
      have hB : 0 < hh - ε := by linarith
      obtain ⟨b1, b2⟩ := rot_coord_bound_lt hu' hs1' hs2' f1 f2 f3.le f4.le
      have e1 : c * u + -s * v = c * u - s * v := by ring
      rw [e1] at b1 b2
      have hus' : c * c + s * s = 1 := hu
      obtain ⟨b3, b4⟩ := rot_coord_bound_lt (c := c) (s := s) (x := v) (y := u) hu hs1 hs2 f3 f4 f1.le f2.le
      have e2 : c * v + s * u = s * u + c * v := by ring
      rw [e2] at b3 b4
      have k1 : σ * (hh - ε) ≤ ε := by nlinarith
      have k2 : σ * (hw - ε) ≤ ε := by nlinarith
      exact ⟨by linarith, by linarith, by linarith, by linarith⟩

end Generic

/-! ## Part 2 — the `Rat` model -/
open GlueVerif.Geometry

theorem absLe_iff (x a : Rat) : absLe x a = true ↔ -a ≤ x ∧ x ≤ a := by
  simp only [absLe, Bool.and_eq_true, decide_eq_true_eq]

theorem absLt_iff (x a : Rat) : absLt x a = true ↔ -a < x ∧ x < a := by
  simp only [absLt, Bool.and_eq_true, decide_eq_true_eq]

theorem absLe_false_iff (x a : Rat) : absLe x a = false ↔ (x < -a ∨ a < x) := by
  rw [← Bool.not_eq_true, absLe_iff, not_and_or, not_le, not_le]

theorem inBox_iff (b : Rat × Rat × Rat × Rat) (p : Pt) :
    inBox b p = true ↔ b.1 ≤ p.1 ∧ p.1 ≤ b.2.1 ∧ b.2.2.1 ≤ p.2 ∧ p.2 ≤ b.2.2.2 := by
  simp only [inBox, Bool.and_eq_true, decide_eq_true_eq, and_assoc]

theorem rmin_le_left (a b : Rat) : rmin a b ≤ a := by
  unfold rmin; split <;> linarith
theorem rmin_le_right (a b : Rat) : rmin a b ≤ b := by
  unfold rmin; split <;> linarith
theorem le_rmax_left (a b : Rat) : a ≤ rmax a b := by
  unfold rmax; split <;> linarith
theorem le_rmax_right (a b : Rat) : b ≤ rmax a b := by
  unfold rmax; split <;> linarith
theorem rmin_add (a b d : Rat) : rmin (a + d) (b + d) = rmin a b + d := by
  unfold rmin
  by_cases h : a ≤ b
  · have : a + d ≤ b + d := by linarith
    simp [h, this]
  · have : ¬ (a + d ≤ b + d) := by intro h'; exact h (by linarith)
    simp [h, this]
theorem rmax_add (a b d : Rat) : rmax (a + d) (b + d) = rmax a b + d := by
  unfold rmax
  by_cases h : a ≤ b
  · have : a + d ≤ b + d := by linarith
    simp [h, this]
  · have : ¬ (a + d ≤ b + d) := by intro h'; exact h (by linarith)
    simp [h, this]

/-! ### Rectangle -/

theorem rect_loc_fst (r : Rect) (p : Pt) :
    (r.loc p).1 = r.c * (p.1 - r.center.1) + r.s * (p.2 - r.center.2) := rfl
theorem rect_loc_snd (r : Rect) (p : Pt) :
    (r.loc p).2 = -r.s * (p.1 - r.center.1) + r.c * (p.2 - r.center.2) := rfl

/-- The point in terms of its own-frame coordinates. -/
theorem rect_point_of_loc (r : Rect) (p : Pt) (hu : r.c * r.c + r.s * r.s = 1) :
    p.1 = r.c * (r.loc p).1 - r.s * (r.loc p).2 + r.center.1 ∧
    p.2 = r.s * (r.loc p).1 + r.c * (r.loc p).2 + r.center.2 := by
  rw [rect_loc_fst, rect_loc_snd]
  obtain ⟨h1, h2⟩ := rot_unrot hu (p.1 - r.center.1) (p.2 - r.center.2)
  constructor <;> linarith

theorem spec_rect_iff (r : Rect) (p : Pt) :
    Spec.rectContains r p = true ↔
      (-(r.width / 2) < (r.loc p).1 ∧ (r.loc p).1 < r.width / 2 ∧
       -(r.height / 2) < (r.loc p).2 ∧ (r.loc p).2 < r.height / 2) := by
  simp only [Spec.rectContains, Bool.and_eq_true, absLt_iff, and_assoc]

theorem impl_rect_axis_iff (r : Rect) (p : Pt) (h : branchOf r.c r.s = .axis) :
    Impl.rectContains r p = true ↔
      (-(r.width / 2) < p.1 - r.center.1 ∧ p.1 - r.center.1 < r.width / 2 ∧
       -(r.height / 2) < p.2 - r.center.2 ∧ p.2 - r.center.2 < r.height / 2) := by
  simp only [Impl.rectContains, h, Bool.and_eq_true, decide_eq_true_eq, Rect.center, Rect.width, Rect.height]
  constructor
  · rintro ⟨⟨⟨h1, h2⟩, h3⟩, h4⟩
    exact ⟨by linarith, by linarith, by linarith, by linarith⟩
  · rintro ⟨h1, h2, h3, h4⟩
    exact ⟨⟨⟨by linarith, by linarith⟩, by linarith⟩, by linarith⟩

theorem impl_rect_quarter_iff (r : Rect) (p : Pt) (h : branchOf r.c r.s = .quarter) :
    Impl.rectContains r p = true ↔
      (-(r.height / 2) < p.1 - r.center.1 ∧ p.1 - r.center.1 < r.height / 2 ∧
       -(r.width / 2) < p.2 - r.center.2 ∧ p.2 - r.center.2 < r.width / 2) := by
  simp only [Impl.rectContains, h, Bool.and_eq_true, decide_eq_true_eq]
  constructor
  · rintro ⟨⟨⟨h1, h2⟩, h3⟩, h4⟩
    exact ⟨by linarith, by linarith, by linarith, by linarith⟩
  · rintro ⟨h1, h2, h3, h4⟩
    exact ⟨⟨⟨by linarith, by linarith⟩, by linarith⟩, by linarith⟩

theorem impl_rect_general_iff (r : Rect) (p : Pt) (h : branchOf r.c r.s = .general) :
    Impl.rectContains r p = true ↔
      (r.keep p = true ∧ (-(r.width / 2) ≤ (r.loc p).1 ∧ (r.loc p).1 ≤ r.width / 2) ∧
       (-(r.height / 2) ≤ (r.loc p).2 ∧ (r.loc p).2 ≤ r.height / 2)) := by
  simp only [Impl.rectContains, h, Bool.and_eq_true, absLe_iff, and_assoc]

/-- **The bounding-box prefilter never drops a point of the rotated rectangle** (closed rectangle,
any unit rotation). -/
theorem rect_keep_of_inside (r : Rect) (p : Pt) (hu : r.c * r.c + r.s * r.s = 1)
    (hx : -(r.width / 2) ≤ (r.loc p).1 ∧ (r.loc p).1 ≤ r.width / 2)
    (hy : -(r.height / 2) ≤ (r.loc p).2 ∧ (r.loc p).2 ≤ r.height / 2) : r.keep p = true := by
  obtain ⟨hp1, hp2⟩ := rect_point_of_loc r p hu
  obtain ⟨lo1, hi1⟩ := corner_bounds (c := r.c) (s := r.s) hx.1 hx.2 hy.1 hy.2
  -- second coordinate: s·u + c·v = c·v − (−s)·u
  obtain ⟨lo2, hi2⟩ := corner_bounds (c := r.c) (s := -r.s) hy.1 hy.2 hx.1 hx.2
  unfold Rect.keep
  rw [inBox_iff]
  simp only [Rect.bbox, Rect.bxmin, Rect.bxmax, Rect.bymin, Rect.bymax, Rect.corner, rot]
  refine ⟨?_, ?_, ?_, ?_⟩
  · rw [hp1]
    rcases lo1 with h | h | h | h
    · exact le_trans (le_trans (rmin_le_left _ _) (rmin_le_left _ _)) (by linarith)
    · exact le_trans (le_trans (rmin_le_left _ _) (rmin_le_right _ _)) (by linarith)
    · exact le_trans (le_trans (rmin_le_right _ _) (rmin_le_left _ _)) (by linarith)
    · exact le_trans (le_trans (rmin_le_right _ _) (rmin_le_right _ _)) (by linarith)
  · rw [hp1]
    rcases hi1 with h | h | h | h
    · exact le_trans (by linarith) (le_trans (le_rmax_left _ _) (le_rmax_left _ _))
    · exact le_trans (by linarith) (le_trans (le_rmax_right _ _) (le_rmax_left _ _))
    · exact le_trans (by linarith) (le_trans (le_rmax_left _ _) (le_rmax_right _ _))
    · exact le_trans (by linarith) (le_trans (le_rmax_right _ _) (le_rmax_right _ _))
  · rw [hp2]
    -- corners of the second coordinate in the order (−a,−b), (a,−b), (a,b), (−a,b)
    rcases lo2 with h | h | h | h
    · exact le_trans (le_trans (rmin_le_left _ _) (rmin_le_left _ _)) (by linarith)
    · exact le_trans (le_trans (rmin_le_right _ _) (rmin_le_right _ _)) (by linarith)
    · exact le_trans (le_trans (rmin_le_right _ _) (rmin_le_left _ _)) (by linarith)
    · exact le_trans (le_trans (rmin_le_left _ _) (rmin_le_right _ _)) (by linarith)
  · rw [hp2]
    rcases hi2 with h | h | h | h
    · exact le_trans (by linarith) (le_trans (le_rmax_left _ _) (le_rmax_left _ _))
    · exact le_trans (by linarith) (le_trans (le_rmax_right _ _) (le_rmax_right _ _))
    · exact le_trans (by linarith) (le_trans (le_rmax_left _ _) (le_rmax_right _ _))
    · exact le_trans (by linarith) (le_trans (le_rmax_right _ _) (le_rmax_left _ _))

theorem rect_near_iff (r : Rect) (p : Pt) (ε : Rat) :
    r.near p ε = true ↔
      ((((-ε ≤ (r.loc p).1 - r.width / 2 ∧ (r.loc p).1 - r.width / 2 ≤ ε) ∨
         (-ε ≤ (r.loc p).1 + r.width / 2 ∧ (r.loc p).1 + r.width / 2 ≤ ε)) ∧
        (-(r.height / 2 + ε) ≤ (r.loc p).2 ∧ (r.loc p).2 ≤ r.height / 2 + ε)) ∨
       (((-ε ≤ (r.loc p).2 - r.height / 2 ∧ (r.loc p).2 - r.height / 2 ≤ ε) ∨
         (-ε ≤ (r.loc p).2 + r.height / 2 ∧ (r.loc p).2 + r.height / 2 ≤ ε)) ∧
        (-(r.width / 2 + ε) ≤ (r.loc p).1 ∧ (r.loc p).1 ≤ r.width / 2 + ε))) := by
  simp only [Rect.near, Bool.or_eq_true, Bool.and_eq_true, absLe_iff]

/-- Off the band a point is either `ε`-far outside or `ε`-deep inside (own-frame coordinates). -/
theorem rect_far_of_not_near (r : Rect) (p : Pt) (ε : Rat) (h : r.near p ε = false) :
    (r.width / 2 + ε < (r.loc p).1 ∨ (r.loc p).1 < -(r.width / 2 + ε) ∨
      r.height / 2 + ε < (r.loc p).2 ∨ (r.loc p).2 < -(r.height / 2 + ε)) ∨
    (-(r.width / 2 - ε) < (r.loc p).1 ∧ (r.loc p).1 < r.width / 2 - ε ∧
      -(r.height / 2 - ε) < (r.loc p).2 ∧ (r.loc p).2 < r.height / 2 - ε) := by
  have hn : ¬ (r.near p ε = true) := by rw [h]; simp
  rw [rect_near_iff] at hn
  by_cases f1 : r.width / 2 + ε < (r.loc p).1
  · exact Or.inl (Or.inl f1)
  by_cases f2 : (r.loc p).1 < -(r.width / 2 + ε)
  · exact Or.inl (Or.inr (Or.inl f2))
  by_cases f3 : r.height / 2 + ε < (r.loc p).2
  · exact Or.inl (Or.inr (Or.inr (Or.inl f3)))
  by_cases f4 : (r.loc p).2 < -(r.height / 2 + ε)
  · exact Or.inl (Or.inr (Or.inr (Or.inr f4)))
  rw [not_lt] at f1 f2 f3 f4
  rw [not_or] at hn
  obtain ⟨n1, n2⟩ := hn
  have n1' : ¬ ((-ε ≤ (r.loc p).1 - r.width / 2 ∧ (r.loc p).1 - r.width / 2 ≤ ε) ∨
         (-ε ≤ (r.loc p).1 + r.width / 2 ∧ (r.loc p).1 + r.width / 2 ≤ ε)) := fun hh => n1 ⟨hh, f4, f3⟩
  have n2' : ¬ ((-ε ≤ (r.loc p).2 - r.height / 2 ∧ (r.loc p).2 - r.height / 2 ≤ ε) ∨
         (-ε ≤ (r.loc p).2 + r.height / 2 ∧ (r.loc p).2 + r.height / 2 ≤ ε)) := fun hh => n2 ⟨hh, f2, f1⟩
  rw [not_or, not_and_or, not_and_or, not_le, not_le, not_le, not_le] at n1' n2'
  refine Or.inr ⟨?_, ?_, ?_, ?_⟩
  · rcases n1'.2 with k | k
    · exfalso; linarith
    · linarith
  · rcases n1'.1 with k | k
    · linarith
    · exfalso; linarith
  · rcases n2'.2 with k | k
    · exfalso; linarith
    · linarith
  · rcases n2'.1 with k | k
    · linarith
    · exfalso; linarith

theorem rabs_bounds (s : Rat) : -(if s < 0 then -s else s) ≤ s ∧ s ≤ (if s < 0 then -s else s) ∧
    0 ≤ (if s < 0 then -s else s) := by
  split <;> refine ⟨?_, ?_, ?_⟩ <;> linarith

theorem rmax0_nonneg (a : Rat) : 0 ≤ rmax a 0 := le_rmax_right a 0

/-- `σ · max(w, h, 0) / 2 ≤ ε` gives `σ·(w/2) ≤ ε` and `σ·(h/2) ≤ ε` for `σ ≥ 0`. -/
theorem tol_split (σ w h ε : Rat) (hσ : 0 ≤ σ)
    (ht : rmax σ 0 * rmax (rmax w h) 0 / 2 ≤ ε) : σ * (w / 2) ≤ ε ∧ σ * (h / 2) ≤ ε := by
  have e : rmax σ 0 = σ := by
    unfold rmax; split
    · linarith
    · rfl
  rw [e] at ht
  have h1 : w ≤ rmax (rmax w h) 0 := le_trans (le_rmax_left w h) (le_rmax_left _ _)
  have h2 : h ≤ rmax (rmax w h) 0 := le_trans (le_rmax_right w h) (le_rmax_left _ _)
  constructor <;> nlinarith [mul_le_mul_of_nonneg_left h1 hσ, mul_le_mul_of_nonneg_left h2 hσ]

/-- **`rect_branches_agree`** — whichever of the three coded branches is taken, off the band of
half-width `ε ≥ branchTol` the answer is the geometric definition. -/
theorem rect_branches_agree (r : Rect) (p : Pt) (ε : Rat) (hu : r.c * r.c + r.s * r.s = 1)
    (hε : 0 ≤ ε) (htol : r.branchTol ≤ ε) (hfar : r.near p ε = false) :
    Impl.rectContains r p = Spec.rectContains r p := by
  rw [Bool.eq_iff_iff, spec_rect_iff]
  have far := rect_far_of_not_near r p ε hfar
  obtain ⟨hp1, hp2⟩ := rect_point_of_loc r p hu
  cases hb : branchOf r.c r.s with
  | axis =>
    rw [impl_rect_axis_iff r p hb]
    obtain ⟨s1, s2, s0⟩ := rabs_bounds r.s
    have ht : rmax (if r.s < 0 then -r.s else r.s) 0 * rmax (rmax r.width r.height) 0 / 2 ≤ ε := by
      simpa [Rect.branchTol, hb] using htol
    obtain ⟨t1, t2⟩ := tol_split _ _ _ _ s0 ht
    have key := tilt_agree (c := r.c) (s := r.s) (u := (r.loc p).1) (v := (r.loc p).2) hu s1 s2 s0 hε t1 t2 far
    have e1 : p.1 - r.center.1 = r.c * (r.loc p).1 - r.s * (r.loc p).2 := by linarith
    have e2 : p.2 - r.center.2 = r.s * (r.loc p).1 + r.c * (r.loc p).2 := by linarith
    rw [e1, e2]
    exact key
  | quarter =>
    rw [impl_rect_quarter_iff r p hb]
    obtain ⟨s1, s2, s0⟩ := rabs_bounds r.c
    have ht : rmax (if r.c < 0 then -r.c else r.c) 0 * rmax (rmax r.width r.height) 0 / 2 ≤ ε := by
      simpa [Rect.branchTol, hb] using htol
    obtain ⟨t1, t2⟩ := tol_split _ _ _ _ s0 ht
    -- the frame turned by a quarter: (c₁, s₁) = (s, −c)
    have hu' : r.s * r.s + (-r.c) * (-r.c) = 1 := by rw [← hu]; ring
    have key := tilt_agree (c := r.s) (s := -r.c) (u := (r.loc p).1) (v := (r.loc p).2)
      (σ := if r.c < 0 then -r.c else r.c) hu' (by linarith) (by linarith) s0 hε t1 t2 far
    have e1 : p.1 - r.center.1 = -(-r.c * (r.loc p).1 + r.s * (r.loc p).2) := by linarith
    have e2 : p.2 - r.center.2 = r.s * (r.loc p).1 - -r.c * (r.loc p).2 := by linarith
    rw [e1, e2, ← key]
    constructor
    · rintro ⟨h1, h2, h3, h4⟩
      exact ⟨h3, h4, by linarith, by linarith⟩
    · rintro ⟨h1, h2, h3, h4⟩
      exact ⟨by linarith, by linarith, h1, h2⟩
  | general =>
    rw [impl_rect_general_iff r p hb]
    constructor
    · rintro ⟨-, ⟨h1, h2⟩, h3, h4⟩
      rcases far with (f | f | f | f) | ⟨f1, f2, f3, f4⟩
      · exfalso; linarith
      · exfalso; linarith
      · exfalso; linarith
      · exfalso; linarith
      · exact ⟨by linarith, by linarith, by linarith, by linarith⟩
    · rintro ⟨h1, h2, h3, h4⟩
      exact ⟨rect_keep_of_inside r p hu ⟨h1.le, h2.le⟩ ⟨h3.le, h4.le⟩, ⟨h1.le, h2.le⟩, h3.le, h4.le⟩

end GlueVerif.Lemmas.Geometry
