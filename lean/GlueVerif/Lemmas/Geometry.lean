import GlueVerif.Model.Geometry
import Mathlib.Tactic.Linarith
import Mathlib.Tactic.Ring
import Mathlib.Tactic.FieldSimp
import Mathlib.Tactic.Positivity
import Mathlib.Algebra.Order.Field.Basic
/-!
# Helper lemmas for C08 (region geometry)

Part 1: facts about rotations, boxes and bands over an arbitrary linearly ordered field.
Part 2: the executable `Rat` model of `GlueVerif.Model.Geometry` (Bool-valued tests turned into
propositions, then closed with `linarith` / `nlinarith` and the generic facts).
-/
namespace GlueVerif.Lemmas.Geometry

/-! ## Part 1 — ordered-field facts -/
section Generic
set_option linter.unusedSectionVars false
variable {K : Type*} [Field K] [LinearOrder K] [IsStrictOrderedRing K]

theorem unit_le_one {c s : K} (h : c * c + s * s = 1) : -1 ≤ c ∧ c ≤ 1 ∧ -1 ≤ s ∧ s ≤ 1 := by
  refine ⟨?_, ?_, ?_, ?_⟩ <;> nlinarith [mul_self_nonneg c, mul_self_nonneg s, mul_self_nonneg (c - 1),
    mul_self_nonneg (c + 1), mul_self_nonneg (s - 1), mul_self_nonneg (s + 1)]

/-- `|c·x| ≤ A` when `|c| ≤ 1` and `|x| ≤ A`. -/
theorem mul_bound_one {c x A : K} (hc1 : -1 ≤ c) (hc2 : c ≤ 1) (hx1 : -A ≤ x) (hx2 : x ≤ A) :
    -A ≤ c * x ∧ c * x ≤ A := by
  constructor <;> nlinarith [mul_nonneg (sub_nonneg.2 hc2) (sub_nonneg.2 hx2),
    mul_nonneg (sub_nonneg.2 hc2) (sub_nonneg.2 hx1), mul_nonneg (sub_nonneg.2 hc1) (sub_nonneg.2 hx2),
    mul_nonneg (sub_nonneg.2 hc1) (sub_nonneg.2 hx1)]

/-- `|s·y| ≤ σ·B` when `|s| ≤ σ` and `|y| ≤ B`. -/
theorem mul_bound {s y σ B : K} (hs1 : -σ ≤ s) (hs2 : s ≤ σ) (hy1 : -B ≤ y) (hy2 : y ≤ B) :
    -(σ * B) ≤ s * y ∧ s * y ≤ σ * B := by
  constructor <;> nlinarith [mul_nonneg (sub_nonneg.2 hs2) (sub_nonneg.2 hy2),
    mul_nonneg (sub_nonneg.2 hs2) (sub_nonneg.2 hy1), mul_nonneg (sub_nonneg.2 hs1) (sub_nonneg.2 hy2),
    mul_nonneg (sub_nonneg.2 hs1) (sub_nonneg.2 hy1)]

/-- A rotation by an angle whose sine is at most `σ` in size moves the first coordinate of a point
of the box `[-A, A] × [-B, B]` by at most `σ·B` beyond `A`. -/
theorem rot_coord_bound {c s x y A B σ : K} (hu : c * c + s * s = 1)
    (hs1 : -σ ≤ s) (hs2 : s ≤ σ) (hx1 : -A ≤ x) (hx2 : x ≤ A) (hy1 : -B ≤ y) (hy2 : y ≤ B) :
    -(A + σ * B) ≤ c * x + s * y ∧ c * x + s * y ≤ A + σ * B := by
  obtain ⟨hc1, hc2, -, -⟩ := unit_le_one hu
  obtain ⟨h1, h2⟩ := mul_bound_one hc1 hc2 hx1 hx2
  obtain ⟨h3, h4⟩ := mul_bound hs1 hs2 hy1 hy2
  constructor <;> linarith

/-- Composition of two inverse rotations: `R(−θ) R(−φ) = R(−(θ+φ))`, coordinate-wise. -/
theorem unrot_unrot (c s d e x y : K) :
    c * (d * x + e * y) + s * (-e * x + d * y) = (c * d - s * e) * x + (s * d + c * e) * y ∧
    -s * (d * x + e * y) + c * (-e * x + d * y) = -(s * d + c * e) * x + (c * d - s * e) * y := by
  constructor <;> ring

/-- `R(θ) R(−θ) = id` for a unit vector. -/
theorem rot_unrot {c s : K} (hu : c * c + s * s = 1) (x y : K) :
    c * (c * x + s * y) - s * (-s * x + c * y) = x ∧ s * (c * x + s * y) + c * (-s * x + c * y) = y := by
  constructor
  · have : c * (c * x + s * y) - s * (-s * x + c * y) = (c * c + s * s) * x := by ring
    rw [this, hu, one_mul]
  · have : s * (c * x + s * y) + c * (-s * x + c * y) = (c * c + s * s) * y := by ring
    rw [this, hu, one_mul]

/-- A rotation preserves the squared length. -/
theorem unrot_norm {c s : K} (hu : c * c + s * s = 1) (x y : K) :
    (c * x + s * y) * (c * x + s * y) + (-s * x + c * y) * (-s * x + c * y) = x * x + y * y := by
  have : (c * x + s * y) * (c * x + s * y) + (-s * x + c * y) * (-s * x + c * y)
      = (c * c + s * s) * (x * x + y * y) := by ring
  rw [this, hu, one_mul]

/-- **The bounding box of the rotated corners contains the rotated rectangle** (first coordinate):
for `|u| ≤ a`, `|v| ≤ b` the value `c·u − s·v` lies between the least and the greatest of the four
corner values `c·(±a) − s·(±b)`. -/
theorem corner_bounds {c s u v a b : K} (hu1 : -a ≤ u) (hu2 : u ≤ a) (hv1 : -b ≤ v) (hv2 : v ≤ b) :
    (c * (-a) - s * (-b) ≤ c * u - s * v ∨ c * a - s * (-b) ≤ c * u - s * v ∨
      c * a - s * b ≤ c * u - s * v ∨ c * (-a) - s * b ≤ c * u - s * v) ∧
    (c * u - s * v ≤ c * (-a) - s * (-b) ∨ c * u - s * v ≤ c * a - s * (-b) ∨
      c * u - s * v ≤ c * a - s * b ∨ c * u - s * v ≤ c * (-a) - s * b) := by
  rcases le_total 0 c with hc | hc <;> rcases le_total 0 s with hs | hs
  · refine ⟨Or.inr (Or.inr (Or.inr ?_)), Or.inr (Or.inl ?_)⟩ <;>
      nlinarith [mul_nonneg hc (sub_nonneg.2 hu1), mul_nonneg hc (sub_nonneg.2 hu2),
        mul_nonneg hs (sub_nonneg.2 hv1), mul_nonneg hs (sub_nonneg.2 hv2)]
  · refine ⟨Or.inl ?_, Or.inr (Or.inr (Or.inl ?_))⟩ <;>
      nlinarith [mul_nonneg hc (sub_nonneg.2 hu1), mul_nonneg hc (sub_nonneg.2 hu2),
        mul_nonneg (neg_nonneg.2 hs) (sub_nonneg.2 hv1), mul_nonneg (neg_nonneg.2 hs) (sub_nonneg.2 hv2)]
  · refine ⟨Or.inr (Or.inr (Or.inl ?_)), Or.inl ?_⟩ <;>
      nlinarith [mul_nonneg (neg_nonneg.2 hc) (sub_nonneg.2 hu1), mul_nonneg (neg_nonneg.2 hc) (sub_nonneg.2 hu2),
        mul_nonneg hs (sub_nonneg.2 hv1), mul_nonneg hs (sub_nonneg.2 hv2)]
  · refine ⟨Or.inr (Or.inl ?_), Or.inr (Or.inr (Or.inr ?_))⟩ <;>
      nlinarith [mul_nonneg (neg_nonneg.2 hc) (sub_nonneg.2 hu1), mul_nonneg (neg_nonneg.2 hc) (sub_nonneg.2 hu2),
        mul_nonneg (neg_nonneg.2 hs) (sub_nonneg.2 hv1), mul_nonneg (neg_nonneg.2 hs) (sub_nonneg.2 hv2)]

/-- The annulus test on squares is the test on the distance: for the non-negative `ρ` with
`ρ² = d2` (the value `sqrt` returns), `0 < inner`, `0 ≤ outer`. -/
theorem annulus_sqrt {ρ d2 rin rout : K} (hρ : 0 ≤ ρ) (hρ2 : ρ * ρ = d2) (hin : 0 < rin) (hout : 0 ≤ rout) :
    (rin * rin ≤ d2 ∧ d2 < rout * rout) ↔ (rin ≤ ρ ∧ ρ < rout) := by
  subst hρ2
  constructor
  · rintro ⟨h1, h2⟩
    constructor
    · by_contra h
      rw [not_le] at h
      nlinarith [mul_pos hin hin]
    · by_contra h
      rw [not_lt] at h
      nlinarith [mul_nonneg hout hout]
  · rintro ⟨h1, h2⟩
    constructor <;> nlinarith

/-- `d2 < r²` is `ρ < r` for the distance `ρ` (`r ≥ 0`). -/
theorem circle_sqrt {ρ d2 r : K} (hρ : 0 ≤ ρ) (hρ2 : ρ * ρ = d2) (hr : 0 ≤ r) :
    d2 < r * r ↔ ρ < r := by
  subst hρ2
  constructor
  · intro h
    by_contra h'
    rw [not_lt] at h'
    nlinarith [mul_nonneg hr hr]
  · intro h
    nlinarith

/-- Inside an ellipse with semi-axes `rx, ry ≤ R` the squared length is below `R²`. -/
theorem ellipse_in_disc {x y rx ry R : K} (hrx : 0 < rx) (hry : 0 < ry) (hxR : rx ≤ R) (hyR : ry ≤ R)
    (h : x * x / (rx * rx) + y * y / (ry * ry) < 1) : x * x + y * y < R * R := by
  have hrx2 : 0 < rx * rx := mul_pos hrx hrx
  have hry2 : 0 < ry * ry := mul_pos hry hry
  set a := x * x / (rx * rx) with ha
  set b := y * y / (ry * ry) with hb
  have hxa : x * x = a * (rx * rx) := by rw [ha]; field_simp
  have hyb : y * y = b * (ry * ry) := by rw [hb]; field_simp
  have ha0 : 0 ≤ a := div_nonneg (mul_self_nonneg x) hrx2.le
  have hb0 : 0 ≤ b := div_nonneg (mul_self_nonneg y) hry2.le
  have hR : 0 < R := lt_of_lt_of_le hrx hxR
  have h1 : rx * rx ≤ R * R := mul_le_mul hxR hxR hrx.le hR.le
  have h2 : ry * ry ≤ R * R := mul_le_mul hyR hyR hry.le hR.le
  rw [hxa, hyb]
  nlinarith [mul_le_mul_of_nonneg_left h1 ha0, mul_le_mul_of_nonneg_left h2 hb0, mul_pos hR hR]

/-- `x² < R²` with `R ≥ 0` gives `|x| < R`. -/
theorem abs_lt_of_sq_lt {x R : K} (hR : 0 ≤ R) (h : x * x < R * R) : -R < x ∧ x < R := by
  constructor <;> (by_contra h'; rw [not_lt] at h'; nlinarith)

/-- Strict version of `mul_bound_one`. -/
theorem mul_bound_one_lt {c x A : K} (hc1 : -1 ≤ c) (hc2 : c ≤ 1) (hx1 : -A < x) (hx2 : x < A) :
    -A < c * x ∧ c * x < A := by
  rcases le_total 0 x with hx | hx
  · constructor <;> nlinarith [mul_nonneg (sub_nonneg.2 hc2) hx, mul_nonneg (sub_nonneg.2 hc1) hx]
  · constructor <;> nlinarith [mul_nonneg (sub_nonneg.2 hc2) (neg_nonneg.2 hx),
      mul_nonneg (sub_nonneg.2 hc1) (neg_nonneg.2 hx)]

/-- `|c·x + s·y| < A + σ·B` for `|x| < A`, `|y| ≤ B`, unit `(c, s)`, `|s| ≤ σ`. -/
theorem rot_coord_bound_lt {c s x y A B σ : K} (hu : c * c + s * s = 1)
    (hs1 : -σ ≤ s) (hs2 : s ≤ σ) (hx1 : -A < x) (hx2 : x < A) (hy1 : -B ≤ y) (hy2 : y ≤ B) :
    -(A + σ * B) < c * x + s * y ∧ c * x + s * y < A + σ * B := by
  obtain ⟨hc1, hc2, -, -⟩ := unit_le_one hu
  obtain ⟨h1, h2⟩ := mul_bound_one_lt hc1 hc2 hx1 hx2
  obtain ⟨h3, h4⟩ := mul_bound hs1 hs2 hy1 hy2
  constructor <;> linarith

/-- **A tilt within the branch tolerance does not change the answer off the band.**
`(u, v)` are the coordinates in the rectangle's own frame, `(c·u − s·v, s·u + c·v)` the offset from
the centre in the axes' frame (what the un-rotated branch looks at); `σ ≥ |s|` with
`σ·hw ≤ ε`, `σ·hh ≤ ε`; the point is `ε`-far from the boundary. -/
theorem tilt_agree {c s u v hw hh ε σ : K} (hu : c * c + s * s = 1) (hs1 : -σ ≤ s) (hs2 : s ≤ σ)
    (hσ0 : 0 ≤ σ) (hε : 0 ≤ ε) (hσw : σ * hw ≤ ε) (hσh : σ * hh ≤ ε)
    (far : (hw + ε < u ∨ u < -(hw + ε) ∨ hh + ε < v ∨ v < -(hh + ε)) ∨
      (-(hw - ε) < u ∧ u < hw - ε ∧ -(hh - ε) < v ∧ v < hh - ε)) :
    (-hw < c * u - s * v ∧ c * u - s * v < hw ∧ -hh < s * u + c * v ∧ s * u + c * v < hh) ↔
      (-hw < u ∧ u < hw ∧ -hh < v ∧ v < hh) := by
  have hu' : c * c + (-s) * (-s) = 1 := by rw [← hu]; ring
  have hus : s * s + c * c = 1 := by rw [← hu]; ring
  have hs1' : -σ ≤ -s := by linarith
  have hs2' : -s ≤ σ := by linarith
  constructor
  · rintro ⟨h1, h2, h3, h4⟩
    -- u = c·dx + s·dy, v = −s·dx + c·dy with (dx, dy) strictly inside the un-rotated box
    set dx := c * u - s * v with hdx
    set dy := s * u + c * v with hdy
    have hU : u = c * dx + s * dy := by
      have := (rot_unrot (c := c) (s := -s) hu' u v).1
      rw [hdx, hdy]; linarith [this]
    have hV : v = (-s) * dx + c * dy := by
      have := (rot_unrot (c := c) (s := -s) hu' u v).2
      rw [hdx, hdy]; linarith [this]
    have hhh : 0 < hh := by linarith
    have hhw : 0 < hw := by linarith
    obtain ⟨b1, b2⟩ := rot_coord_bound_lt hu hs1 hs2 h1 h2 h3.le h4.le
    have hV' : v = c * dy + (-s) * dx := by rw [hV]; ring
    obtain ⟨b3, b4⟩ := rot_coord_bound_lt hu' hs1' hs2' h3 h4 h1.le h2.le
    rw [← hU] at b1 b2
    rw [← hV'] at b3 b4
    rcases far with (f | f | f | f) | ⟨f1, f2, f3, f4⟩
    · exfalso; linarith
    · exfalso; linarith
    · exfalso; linarith
    · exfalso; linarith
    · exact ⟨by linarith, by linarith, by linarith, by linarith⟩
  · rintro ⟨h1, h2, h3, h4⟩
    rcases far with (f | f | f | f) | ⟨f1, f2, f3, f4⟩
    · exfalso; linarith
    · exfalso; linarith
    · exfalso; linarith
    · exfalso; linarith
    · have hA : 0 < hw - ε := by linarith
      have hB : 0 < hh - ε := by linarith
      obtain ⟨b1, b2⟩ := rot_coord_bound_lt hu' hs1' hs2' f1 f2 f3.le f4.le
      have e1 : c * u + -s * v = c * u - s * v := by ring
      rw [e1] at b1 b2
      have hus' : c * c + s * s = 1 := hu
      obtain ⟨b3, b4⟩ := rot_coord_bound_lt (c := c) (s := s) (x := v) (y := u) hu hs1 hs2 f3 f4 f1.le f2.le
      have e2 : c * v + s * u = s * u + c * v := by ring
      rw [e2] at b3 b4
      have k1 : σ * (hh - ε) ≤ ε := by nlinarith
      have k2 : σ * (hw - ε) ≤ ε := by nlinarith
      exact ⟨by linarith, by linarith, by linarith, by linarith⟩

end Generic

/-! ## Part 2 — the `Rat` model -/
open GlueVerif.Geometry

theorem absLe_iff (x a : Rat) : absLe x a = true ↔ -a ≤ x ∧ x ≤ a := by
  simp only [absLe, Bool.and_eq_true, decide_eq_true_eq]

theorem absLt_iff (x a : Rat) : absLt x a = true ↔ -a < x ∧ x < a := by
  simp only [absLt, Bool.and_eq_true, decide_eq_true_eq]

theorem absLe_false_iff (x a : Rat) : absLe x a = false ↔ (x < -a ∨ a < x) := by
  rw [← Bool.not_eq_true, absLe_iff, not_and_or, not_le, not_le]

theorem inBox_iff (b : Rat × Rat × Rat × Rat) (p : Pt) :
    inBox b p = true ↔ b.1 ≤ p.1 ∧ p.1 ≤ b.2.1 ∧ b.2.2.1 ≤ p.2 ∧ p.2 ≤ b.2.2.2 := by
  simp only [inBox, Bool.and_eq_true, decide_eq_true_eq, and_assoc]

theorem rmin_le_left (a b : Rat) : rmin a b ≤ a := by
  unfold rmin; split <;> linarith
theorem rmin_le_right (a b : Rat) : rmin a b ≤ b := by
  unfold rmin; split <;> linarith
theorem le_rmax_left (a b : Rat) : a ≤ rmax a b := by
  unfold rmax; split <;> linarith
theorem le_rmax_right (a b : Rat) : b ≤ rmax a b := by
  unfold rmax; split <;> linarith
theorem rmin_add (a b d : Rat) : rmin (a + d) (b + d) = rmin a b + d := by
  unfold rmin
  by_cases h : a ≤ b
  · have : a + d ≤ b + d := by linarith
    simp [h, this]
  · have : ¬ (a + d ≤ b + d) := by intro h'; exact h (by linarith)
    simp [h, this]
theorem rmax_add (a b d : Rat) : rmax (a + d) (b + d) = rmax a b + d := by
  unfold rmax
  by_cases h : a ≤ b
  · have : a + d ≤ b + d := by linarith
    simp [h, this]
  · have : ¬ (a + d ≤ b + d) := by intro h'; exact h (by linarith)
    simp [h, this]

/-! ### Rectangle -/

theorem rect_loc_fst (r : Rect) (p : Pt) :
    (r.loc p).1 = r.c * (p.1 - r.center.1) + r.s * (p.2 - r.center.2) := rfl
theorem rect_loc_snd (r : Rect) (p : Pt) :
    (r.loc p).2 = -r.s * (p.1 - r.center.1) + r.c * (p.2 - r.center.2) := rfl

/-- The point in terms of its own-frame coordinates. -/
theorem rect_point_of_loc (r : Rect) (p : Pt) (hu : r.c * r.c + r.s * r.s = 1) :
    p.1 = r.c * (r.loc p).1 - r.s * (r.loc p).2 + r.center.1 ∧
    p.2 = r.s * (r.loc p).1 + r.c * (r.loc p).2 + r.center.2 := by
  rw [rect_loc_fst, rect_loc_snd]
  obtain ⟨h1, h2⟩ := rot_unrot hu (p.1 - r.center.1) (p.2 - r.center.2)
  constructor <;> linarith

theorem spec_rect_iff (r : Rect) (p : Pt) :
    Spec.rectContains r p = true ↔
      (-(r.width / 2) < (r.loc p).1 ∧ (r.loc p).1 < r.width / 2 ∧
       -(r.height / 2) < (r.loc p).2 ∧ (r.loc p).2 < r.height / 2) := by
  simp only [Spec.rectContains, Bool.and_eq_true, absLt_iff, and_assoc]

theorem impl_rect_axis_iff (r : Rect) (p : Pt) (h : branchOf r.c r.s = .axis) :
    Impl.rectContains r p = true ↔
      (-(r.width / 2) < p.1 - r.center.1 ∧ p.1 - r.center.1 < r.width / 2 ∧
       -(r.height / 2) < p.2 - r.center.2 ∧ p.2 - r.center.2 < r.height / 2) := by
  simp only [Impl.rectContains, h, Bool.and_eq_true, decide_eq_true_eq, Rect.center, Rect.width, Rect.height]
  constructor
  · rintro ⟨⟨⟨h1, h2⟩, h3⟩, h4⟩
    exact ⟨by linarith, by linarith, by linarith, by linarith⟩
  · rintro ⟨h1, h2, h3, h4⟩
    exact ⟨⟨⟨by linarith, by linarith⟩, by linarith⟩, by linarith⟩

theorem impl_rect_quarter_iff (r : Rect) (p : Pt) (h : branchOf r.c r.s = .quarter) :
    Impl.rectContains r p = true ↔
      (-(r.height / 2) < p.1 - r.center.1 ∧ p.1 - r.center.1 < r.height / 2 ∧
       -(r.width / 2) < p.2 - r.center.2 ∧ p.2 - r.center.2 < r.width / 2) := by
  simp only [Impl.rectContains, h, Bool.and_eq_true, decide_eq_true_eq]
  constructor
  · rintro ⟨⟨⟨h1, h2⟩, h3⟩, h4⟩
    exact ⟨by linarith, by linarith, by linarith, by linarith⟩
  · rintro ⟨h1, h2, h3, h4⟩
    exact ⟨⟨⟨by linarith, by linarith⟩, by linarith⟩, by linarith⟩

theorem impl_rect_general_iff (r : Rect) (p : Pt) (h : branchOf r.c r.s = .general) :
    Impl.rectContains r p = true ↔
      (r.keep p = true ∧ (-(r.width / 2) ≤ (r.loc p).1 ∧ (r.loc p).1 ≤ r.width / 2) ∧
       (-(r.height / 2) ≤ (r.loc p).2 ∧ (r.loc p).2 ≤ r.height / 2)) := by
  simp only [Impl.rectContains, h, Bool.and_eq_true, absLe_iff, and_assoc]

/-- **The bounding-box prefilter never drops a point of the rotated rectangle** (closed rectangle,
any unit rotation). -/
theorem rect_keep_of_inside (r : Rect) (p : Pt) (hu : r.c * r.c + r.s * r.s = 1)
    (hx : -(r.width / 2) ≤ (r.loc p).1 ∧ (r.loc p).1 ≤ r.width / 2)
    (hy : -(r.height / 2) ≤ (r.loc p).2 ∧ (r.loc p).2 ≤ r.height / 2) : r.keep p = true := by
  obtain ⟨hp1, hp2⟩ := rect_point_of_loc r p hu
  obtain ⟨lo1, hi1⟩ := corner_bounds (c := r.c) (s := r.s) hx.1 hx.2 hy.1 hy.2
  -- second coordinate: s·u + c·v = c·v − (−s)·u
  obtain ⟨lo2, hi2⟩ := corner_bounds (c := r.c) (s := -r.s) hy.1 hy.2 hx.1 hx.2
  unfold Rect.keep
  rw [inBox_iff]
  simp only [Rect.bbox, Rect.bxmin, Rect.bxmax, Rect.bymin, Rect.bymax, Rect.corner, rot]
  refine ⟨?_, ?_, ?_, ?_⟩
  · rw [hp1]
    rcases lo1 with h | h | h | h
    · exact le_trans (le_trans (rmin_le_left _ _) (rmin_le_left _ _)) (by linarith)
    · exact le_trans (le_trans (rmin_le_left _ _) (rmin_le_right _ _)) (by linarith)
    · exact le_trans (le_trans (rmin_le_right _ _) (rmin_le_left _ _)) (by linarith)
    · exact le_trans (le_trans (rmin_le_right _ _) (rmin_le_right _ _)) (by linarith)
  · rw [hp1]
    rcases hi1 with h | h | h | h
    · exact le_trans (by linarith) (le_trans (le_rmax_left _ _) (le_rmax_left _ _))
    · exact le_trans (by linarith) (le_trans (le_rmax_right _ _) (le_rmax_left _ _))
    · exact le_trans (by linarith) (le_trans (le_rmax_left _ _) (le_rmax_right _ _))
    · exact le_trans (by linarith) (le_trans (le_rmax_right _ _) (le_rmax_right _ _))
  · rw [hp2]
    -- corners of the second coordinate in the order (−a,−b), (a,−b), (a,b), (−a,b)
    rcases lo2 with h | h | h | h
    · exact le_trans (le_trans (rmin_le_left _ _) (rmin_le_left _ _)) (by linarith)
    · exact le_trans (le_trans (rmin_le_right _ _) (rmin_le_right _ _)) (by linarith)
    · exact le_trans (le_trans (rmin_le_right _ _) (rmin_le_left _ _)) (by linarith)
    · exact le_trans (le_trans (rmin_le_left _ _) (rmin_le_right _ _)) (by linarith)
  · rw [hp2]
    rcases hi2 with h | h | h | h
    · exact le_trans (by linarith) (le_trans (le_rmax_left _ _) (le_rmax_left _ _))
    · exact le_trans (by linarith) (le_trans (le_rmax_right _ _) (le_rmax_right _ _))
    · exact le_trans (by linarith) (le_trans (le_rmax_left _ _) (le_rmax_right _ _))
    · exact le_trans (by linarith) (le_trans (le_rmax_right _ _) (le_rmax_left _ _))

theorem rect_near_iff (r : Rect) (p : Pt) (ε : Rat) :
    r.near p ε = true ↔
      ((((-ε ≤ (r.loc p).1 - r.width / 2 ∧ (r.loc p).1 - r.width / 2 ≤ ε) ∨
         (-ε ≤ (r.loc p).1 + r.width / 2 ∧ (r.loc p).1 + r.width / 2 ≤ ε)) ∧
        (-(r.height / 2 + ε) ≤ (r.loc p).2 ∧ (r.loc p).2 ≤ r.height / 2 + ε)) ∨
       (((-ε ≤ (r.loc p).2 - r.height / 2 ∧ (r.loc p).2 - r.height / 2 ≤ ε) ∨
         (-ε ≤ (r.loc p).2 + r.height / 2 ∧ (r.loc p).2 + r.height / 2 ≤ ε)) ∧
        (-(r.width / 2 + ε) ≤ (r.loc p).1 ∧ (r.loc p).1 ≤ r.width / 2 + ε))) := by
  simp only [Rect.near, Bool.or_eq_true, Bool.and_eq_true, absLe_iff]

/-- Off the band a point is either `ε`-far outside or `ε`-deep inside (own-frame coordinates). -/
theorem rect_far_of_not_near (r : Rect) (p : Pt) (ε : Rat) (h : r.near p ε = false) :
    (r.width / 2 + ε < (r.loc p).1 ∨ (r.loc p).1 < -(r.width / 2 + ε) ∨
      r.height / 2 + ε < (r.loc p).2 ∨ (r.loc p).2 < -(r.height / 2 + ε)) ∨
    (-(r.width / 2 - ε) < (r.loc p).1 ∧ (r.loc p).1 < r.width / 2 - ε ∧
      -(r.height / 2 - ε) < (r.loc p).2 ∧ (r.loc p).2 < r.height / 2 - ε) := by
  have hn : ¬ (r.near p ε = true) := by rw [h]; simp
  rw [rect_near_iff] at hn
  by_cases f1 : r.width / 2 + ε < (r.loc p).1
  · exact Or.inl (Or.inl f1)
  by_cases f2 : (r.loc p).1 < -(r.width / 2 + ε)
  · exact Or.inl (Or.inr (Or.inl f2))
  by_cases f3 : r.height / 2 + ε < (r.loc p).2
  · exact Or.inl (Or.inr (Or.inr (Or.inl f3)))
  by_cases f4 : (r.loc p).2 < -(r.height / 2 + ε)
  · exact Or.inl (Or.inr (Or.inr (Or.inr f4)))
  rw [not_lt] at f1 f2 f3 f4
  rw [not_or] at hn
  obtain ⟨n1, n2⟩ := hn
  have n1' : ¬ ((-ε ≤ (r.loc p).1 - r.width / 2 ∧ (r.loc p).1 - r.width / 2 ≤ ε) ∨
         (-ε ≤ (r.loc p).1 + r.width / 2 ∧ (r.loc p).1 + r.width / 2 ≤ ε)) := fun hh => n1 ⟨hh, f4, f3⟩
  have n2' : ¬ ((-ε ≤ (r.loc p).2 - r.height / 2 ∧ (r.loc p).2 - r.height / 2 ≤ ε) ∨
         (-ε ≤ (r.loc p).2 + r.height / 2 ∧ (r.loc p).2 + r.height / 2 ≤ ε)) := fun hh => n2 ⟨hh, f2, f1⟩
  rw [not_or, not_and_or, not_and_or, not_le, not_le, not_le, not_le] at n1' n2'
  refine Or.inr ⟨?_, ?_, ?_, ?_⟩
  · rcases n1'.2 with k | k
    · exfalso; linarith
    · linarith
  · rcases n1'.1 with k | k
    · linarith
    · exfalso; linarith
  · rcases n2'.2 with k | k
    · exfalso; linarith
    · linarith
  · rcases n2'.1 with k | k
    · linarith
    · exfalso; linarith

theorem rabs_bounds (s : Rat) : -(if s < 0 then -s else s) ≤ s ∧ s ≤ (if s < 0 then -s else s) ∧
    0 ≤ (if s < 0 then -s else s) := by
  split <;> refine ⟨?_, ?_, ?_⟩ <;> linarith

theorem rmax0_nonneg (a : Rat) : 0 ≤ rmax a 0 := le_rmax_right a 0

/-- `σ · max(w, h, 0) / 2 ≤ ε` gives `σ·(w/2) ≤ ε` and `σ·(h/2) ≤ ε` for `σ ≥ 0`. -/
theorem tol_split (σ w h ε : Rat) (hσ : 0 ≤ σ)
    (ht : rmax σ 0 * rmax (rmax w h) 0 / 2 ≤ ε) : σ * (w / 2) ≤ ε ∧ σ * (h / 2) ≤ ε := by
  have e : rmax σ 0 = σ := by
    unfold rmax; split
    · linarith
    · rfl
  rw [e] at ht
  have h1 : w ≤ rmax (rmax w h) 0 := le_trans (le_rmax_left w h) (le_rmax_left _ _)
  have h2 : h ≤ rmax (rmax w h) 0 := le_trans (le_rmax_right w h) (le_rmax_left _ _)
  constructor <;> nlinarith [mul_le_mul_of_nonneg_left h1 hσ, mul_le_mul_of_nonneg_left h2 hσ]

/-- **`rect_branches_agree`** — whichever of the three coded branches is taken, off the band of
half-width `ε ≥ branchTol` the answer is the geometric definition. -/
theorem rect_branches_agree (r : Rect) (p : Pt) (ε : Rat) (hu : r.c * r.c + r.s * r.s = 1)
    (hε : 0 ≤ ε) (htol : r.branchTol ≤ ε) (hfar : r.near p ε = false) :
    Impl.rectContains r p = Spec.rectContains r p := by
  rw [Bool.eq_iff_iff, spec_rect_iff]
  have far := rect_far_of_not_near r p ε hfar
  obtain ⟨hp1, hp2⟩ := rect_point_of_loc r p hu
  cases hb : branchOf r.c r.s with
  | axis =>
    rw [impl_rect_axis_iff r p hb]
    obtain ⟨s1, s2, s0⟩ := rabs_bounds r.s
    have ht : rmax (if r.s < 0 then -r.s else r.s) 0 * rmax (rmax r.width r.height) 0 / 2 ≤ ε := by
      simpa [Rect.branchTol, hb] using htol
    obtain ⟨t1, t2⟩ := tol_split _ _ _ _ s0 ht
    have key := tilt_agree (c := r.c) (s := r.s) (u := (r.loc p).1) (v := (r.loc p).2) hu s1 s2 s0 hε t1 t2 far
    have e1 : p.1 - r.center.1 = r.c * (r.loc p).1 - r.s * (r.loc p).2 := by linarith
    have e2 : p.2 - r.center.2 = r.s * (r.loc p).1 + r.c * (r.loc p).2 := by linarith
    rw [e1, e2]
    exact key
  | quarter =>
    rw [impl_rect_quarter_iff r p hb]
    obtain ⟨s1, s2, s0⟩ := rabs_bounds r.c
    have ht : rmax (if r.c < 0 then -r.c else r.c) 0 * rmax (rmax r.width r.height) 0 / 2 ≤ ε := by
      simpa [Rect.branchTol, hb] using htol
    obtain ⟨t1, t2⟩ := tol_split _ _ _ _ s0 ht
    -- the frame turned by a quarter: (c₁, s₁) = (s, −c)
    have hu' : r.s * r.s + (-r.c) * (-r.c) = 1 := by rw [← hu]; ring
    have key := tilt_agree (c := r.s) (s := -r.c) (u := (r.loc p).1) (v := (r.loc p).2)
      (σ := if r.c < 0 then -r.c else r.c) hu' (by linarith) (by linarith) s0 hε t1 t2 far
    have e1 : p.1 - r.center.1 = -(-r.c * (r.loc p).1 + r.s * (r.loc p).2) := by linarith
    have e2 : p.2 - r.center.2 = r.s * (r.loc p).1 - -r.c * (r.loc p).2 := by linarith
    rw [e1, e2, ← key]
    constructor
    · rintro ⟨h1, h2, h3, h4⟩
      exact ⟨h3, h4, by linarith, by linarith⟩
    · rintro ⟨h1, h2, h3, h4⟩
      exact ⟨by linarith, by linarith, h1, h2⟩
  | general =>
    rw [impl_rect_general_iff r p hb]
    constructor
    · rintro ⟨-, ⟨h1, h2⟩, h3, h4⟩
      rcases far with (f | f | f | f) | ⟨f1, f2, f3, f4⟩
      · exfalso; linarith
      · exfalso; linarith
      · exfalso; linarith
      · exfalso; linarith
      · exact ⟨by linarith, by linarith, by linarith, by linarith⟩
    · rintro ⟨h1, h2, h3, h4⟩
      exact ⟨rect_keep_of_inside r p hu ⟨h1.le, h2.le⟩ ⟨h3.le, h4.le⟩, ⟨h1.le, h2.le⟩, h3.le, h4.le⟩

/-! ### Ellipse -/

theorem ell_loc_fst (e : Ellipse) (p : Pt) : (e.loc p).1 = e.c * (p.1 - e.xc) + e.s * (p.2 - e.yc) := rfl
theorem ell_loc_snd (e : Ellipse) (p : Pt) : (e.loc p).2 = -e.s * (p.1 - e.xc) + e.c * (p.2 - e.yc) := rfl

theorem ell_keep_iff (e : Ellipse) (p : Pt) :
    e.keep p = true ↔ (e.xc - rmax e.rx e.ry ≤ p.1 ∧ p.1 ≤ e.xc + rmax e.rx e.ry ∧
      e.yc - rmax e.rx e.ry ≤ p.2 ∧ p.2 ≤ e.yc + rmax e.rx e.ry) := by
  simp only [Ellipse.keep, Bool.and_eq_true, decide_eq_true_eq, and_assoc]

/-- **The square `bounds()` never drops a point of the rotated ellipse.** -/
theorem ell_keep_of_inside (e : Ellipse) (p : Pt) (hu : e.c * e.c + e.s * e.s = 1)
    (hrx : 0 < e.rx) (hry : 0 < e.ry)
    (h : ellF (e.loc p).1 (e.loc p).2 e.rx e.ry < 1) : e.keep p = true := by
  have hR := ellipse_in_disc hrx hry (le_rmax_left e.rx e.ry) (le_rmax_right e.rx e.ry) h
  rw [ell_loc_fst, ell_loc_snd, unrot_norm hu] at hR
  have hR0 : 0 ≤ rmax e.rx e.ry := le_trans hrx.le (le_rmax_left _ _)
  have hx : (p.1 - e.xc) * (p.1 - e.xc) < rmax e.rx e.ry * rmax e.rx e.ry := by
    nlinarith [mul_self_nonneg (p.2 - e.yc)]
  have hy : (p.2 - e.yc) * (p.2 - e.yc) < rmax e.rx e.ry * rmax e.rx e.ry := by
    nlinarith [mul_self_nonneg (p.1 - e.xc)]
  obtain ⟨x1, x2⟩ := abs_lt_of_sq_lt hR0 hx
  obtain ⟨y1, y2⟩ := abs_lt_of_sq_lt hR0 hy
  rw [ell_keep_iff]
  exact ⟨by linarith, by linarith, by linarith, by linarith⟩

/-- **`ellipse_branches_agree`** — for exact quarter turns in the two special branches and for any
unit rotation in the general branch the coded test is the geometric definition, at every point. -/
theorem ellipse_branches_agree (e : Ellipse) (p : Pt) (hu : e.c * e.c + e.s * e.s = 1)
    (hrx : 0 < e.rx) (hry : 0 < e.ry)
    (hax : branchOf e.c e.s = .axis → e.s = 0) (hq : branchOf e.c e.s = .quarter → e.c = 0) :
    Impl.ellipseContains e p = Spec.ellipseContains e p := by
  have h0 : ¬ (e.rx = 0 ∨ e.ry = 0) := by
    rintro (h | h) <;> linarith
  simp only [Impl.ellipseContains, Spec.ellipseContains, h0, if_false]
  cases hb : branchOf e.c e.s with
  | axis =>
    have hs := hax hb
    have hc : e.c * e.c = 1 := by rw [hs] at hu; linarith
    simp only [ell_loc_fst, ell_loc_snd, hs, ellF]
    congr 2
    have e1 : (e.c * (p.1 - e.xc) + 0 * (p.2 - e.yc)) * (e.c * (p.1 - e.xc) + 0 * (p.2 - e.yc))
        = (e.c * e.c) * ((p.1 - e.xc) * (p.1 - e.xc)) := by ring
    have e2 : (-0 * (p.1 - e.xc) + e.c * (p.2 - e.yc)) * (-0 * (p.1 - e.xc) + e.c * (p.2 - e.yc))
        = (e.c * e.c) * ((p.2 - e.yc) * (p.2 - e.yc)) := by ring
    rw [e1, e2, hc, one_mul, one_mul]
  | quarter =>
    have hc := hq hb
    have hs : e.s * e.s = 1 := by rw [hc] at hu; linarith
    simp only [ell_loc_fst, ell_loc_snd, hc, ellF]
    congr 2
    have e1 : (0 * (p.1 - e.xc) + e.s * (p.2 - e.yc)) * (0 * (p.1 - e.xc) + e.s * (p.2 - e.yc))
        = (e.s * e.s) * ((p.2 - e.yc) * (p.2 - e.yc)) := by ring
    have e2 : (-e.s * (p.1 - e.xc) + 0 * (p.2 - e.yc)) * (-e.s * (p.1 - e.xc) + 0 * (p.2 - e.yc))
        = (e.s * e.s) * ((p.1 - e.xc) * (p.1 - e.xc)) := by ring
    rw [e1, e2, hs, one_mul, one_mul, add_comm]
  | general =>
    simp only
    rw [Bool.eq_iff_iff, Bool.and_eq_true, decide_eq_true_eq]
    constructor
    · exact fun h => h.2
    · exact fun h => ⟨ell_keep_of_inside e p hu hrx hry h, h⟩

/-! ### Circle, annulus, range -/

theorem circle_iff (c : Circle) (p : Pt) :
    Impl.circleContains c p = true ↔ dist2 c.xc c.yc p < c.r * c.r := by
  simp only [Impl.circleContains, decide_eq_true_eq]

theorem annulus_iff (a : Annulus) (p : Pt) :
    Impl.annulusContains a p = true ↔ (a.rin * a.rin ≤ dist2 a.xc a.yc p ∧ dist2 a.xc a.yc p < a.rout * a.rout) := by
  simp only [Impl.annulusContains, Bool.and_eq_true, decide_eq_true_eq]

theorem annulus_defined_iff (a : Annulus) : a.defined = true ↔ (0 < a.rin ∧ a.rin < a.rout) := by
  simp only [Annulus.defined, Bool.and_eq_true, decide_eq_true_eq]

theorem range_iff (r : Range) (p : Pt) :
    Impl.rangeContains r p = true ↔
      (r.lo < (if r.isX then p.1 else p.2) ∧ (if r.isX then p.1 else p.2) < r.hi) := by
  simp only [Impl.rangeContains, Bool.and_eq_true, decide_eq_true_eq]

/-! ### `move_to`: rectangle -/

/-- The rectangle translated by `d` (what `move_to` produces for `d = target − center`). -/
def rectShift (r : Rect) (d : Pt) : Rect :=
  { r with xmin := r.xmin + d.1, xmax := r.xmax + d.1, ymin := r.ymin + d.2, ymax := r.ymax + d.2 }

theorem rectShift_width (r : Rect) (d : Pt) : (rectShift r d).width = r.width := by
  simp only [rectShift, Rect.width]; ring
theorem rectShift_height (r : Rect) (d : Pt) : (rectShift r d).height = r.height := by
  simp only [rectShift, Rect.height]; ring
theorem rectShift_center (r : Rect) (d : Pt) :
    (rectShift r d).center = (r.center.1 + d.1, r.center.2 + d.2) := by
  have hw := rectShift_width r d
  have hh := rectShift_height r d
  simp only [Rect.center, hw, hh]
  simp only [rectShift]
  ext <;> simp <;> ring
theorem rectShift_loc (r : Rect) (d p : Pt) :
    (rectShift r d).loc p = r.loc (p.1 - d.1, p.2 - d.2) := by
  simp only [Rect.loc, rectShift_center]
  have e1 : p.1 - (r.center.1 + d.1) = p.1 - d.1 - r.center.1 := by ring
  have e2 : p.2 - (r.center.2 + d.2) = p.2 - d.2 - r.center.2 := by ring
  rw [e1, e2]
  rfl
theorem rectShift_corner (r : Rect) (d : Pt) (a b : Rat) :
    (rectShift r d).corner a b = ((r.corner a b).1 + d.1, (r.corner a b).2 + d.2) := by
  simp only [Rect.corner, rectShift_center]
  have hc : (rectShift r d).c = r.c := rfl
  have hs : (rectShift r d).s = r.s := rfl
  rw [hc, hs]
  ext <;> simp <;> ring
theorem rectShift_bbox (r : Rect) (d : Pt) :
    (rectShift r d).bbox = (r.bxmin + d.1, r.bxmax + d.1, r.bymin + d.2, r.bymax + d.2) := by
  simp only [Rect.bbox, Rect.bxmin, Rect.bxmax, Rect.bymin, Rect.bymax, rectShift_corner,
    rectShift_width, rectShift_height, rmin_add, rmax_add]
theorem rectShift_keep (r : Rect) (d p : Pt) :
    (rectShift r d).keep p = r.keep (p.1 - d.1, p.2 - d.2) := by
  rw [Bool.eq_iff_iff]
  simp only [Rect.keep, inBox_iff]
  rw [rectShift_bbox]
  simp only [Rect.bbox]
  constructor
  · rintro ⟨h1, h2, h3, h4⟩
    exact ⟨by linarith, by linarith, by linarith, by linarith⟩
  · rintro ⟨h1, h2, h3, h4⟩
    exact ⟨by linarith, by linarith, by linarith, by linarith⟩

theorem rectShift_contains (r : Rect) (d p : Pt) :
    Impl.rectContains (rectShift r d) p = Impl.rectContains r (p.1 - d.1, p.2 - d.2) := by
  have hc : (rectShift r d).c = r.c := rfl
  have hs : (rectShift r d).s = r.s := rfl
  rw [Bool.eq_iff_iff]
  cases hb : branchOf r.c r.s with
  | axis =>
    have hb' : branchOf (rectShift r d).c (rectShift r d).s = .axis := by rw [hc, hs]; exact hb
    rw [impl_rect_axis_iff _ _ hb', impl_rect_axis_iff _ _ hb, rectShift_width, rectShift_height,
      rectShift_center]
    constructor
    · rintro ⟨h1, h2, h3, h4⟩
      exact ⟨by linarith, by linarith, by linarith, by linarith⟩
    · rintro ⟨h1, h2, h3, h4⟩
      exact ⟨by linarith, by linarith, by linarith, by linarith⟩
  | quarter =>
    have hb' : branchOf (rectShift r d).c (rectShift r d).s = .quarter := by rw [hc, hs]; exact hb
    rw [impl_rect_quarter_iff _ _ hb', impl_rect_quarter_iff _ _ hb, rectShift_width, rectShift_height,
      rectShift_center]
    constructor
    · rintro ⟨h1, h2, h3, h4⟩
      exact ⟨by linarith, by linarith, by linarith, by linarith⟩
    · rintro ⟨h1, h2, h3, h4⟩
      exact ⟨by linarith, by linarith, by linarith, by linarith⟩
  | general =>
    have hb' : branchOf (rectShift r d).c (rectShift r d).s = .general := by rw [hc, hs]; exact hb
    rw [impl_rect_general_iff _ _ hb', impl_rect_general_iff _ _ hb, rectShift_width, rectShift_height,
      rectShift_loc, rectShift_keep]

theorem rectShift_spec (r : Rect) (d p : Pt) :
    Spec.rectContains (rectShift r d) p = Spec.rectContains r (p.1 - d.1, p.2 - d.2) := by
  simp only [Spec.rectContains, rectShift_loc, rectShift_width, rectShift_height]

theorem rectShift_near (r : Rect) (d p : Pt) (ε : Rat) :
    (rectShift r d).near p ε = r.near (p.1 - d.1, p.2 - d.2) ε := by
  simp only [Rect.near, rectShift_loc, rectShift_width, rectShift_height]

theorem rect_moveTo_eq (r : Rect) (t : Pt) :
    (Roi.rect r).moveTo t = .rect (rectShift r (t.1 - r.center.1, t.2 - r.center.2)) := rfl

/-! ### Polygon: translation -/

/-- Translate a point. -/
def shiftPt (d : Pt) (v : Pt) : Pt := (v.1 + d.1, v.2 + d.2)

theorem edgeCross_congr {p a b p' a' b' : Pt} (h1 : p.2 ≤ a.2 ↔ p'.2 ≤ a'.2) (h2 : p.2 ≤ b.2 ↔ p'.2 ≤ b'.2)
    (h3 : (b.1 - p.1) * (a.2 - b.2) ≤ (b.2 - p.2) * (a.1 - b.1) ↔
      (b'.1 - p'.1) * (a'.2 - b'.2) ≤ (b'.2 - p'.2) * (a'.1 - b'.1)) :
    edgeCross p a b = edgeCross p' a' b' := by
  unfold edgeCross
  rw [decide_eq_decide.mpr h1, decide_eq_decide.mpr h2, decide_eq_decide.mpr h3]

theorem edgeCross_shift (d p a b : Pt) :
    edgeCross p (shiftPt d a) (shiftPt d b) = edgeCross (p.1 - d.1, p.2 - d.2) a b := by
  apply edgeCross_congr
  · simp only [shiftPt]; constructor <;> intro h <;> linarith
  · simp only [shiftPt]; constructor <;> intro h <;> linarith
  · simp only [shiftPt]
    have e3 : (b.1 + d.1 - p.1) * (a.2 + d.2 - (b.2 + d.2)) = (b.1 - (p.1 - d.1)) * (a.2 - b.2) := by ring
    have e4 : (b.2 + d.2 - p.2) * (a.1 + d.1 - (b.1 + d.1)) = (b.2 - (p.2 - d.2)) * (a.1 - b.1) := by ring
    rw [e3, e4]

theorem crossPath_shift (d p : Pt) (a : Pt) (vs : List Pt) :
    crossPath p (shiftPt d a) (vs.map (shiftPt d)) = crossPath (p.1 - d.1, p.2 - d.2) a vs := by
  induction vs generalizing a with
  | nil => rfl
  | cons b rest ih =>
    simp only [List.map_cons, crossPath, edgeCross_shift, ih]

/-- **`polygon_translate`**: the even-odd test commutes with translations. -/
theorem crossParity_shift (d p : Pt) (vs : List Pt) :
    crossParity (vs.map (shiftPt d)) p = crossParity vs (p.1 - d.1, p.2 - d.2) := by
  cases vs with
  | nil => rfl
  | cons v rest =>
    simp only [crossParity, List.map_cons]
    have : List.map (shiftPt d) rest ++ [shiftPt d v] = (rest ++ [v]).map (shiftPt d) := by simp
    rw [this, crossPath_shift]

theorem minList_shift (d x : Rat) (xs : List Rat) :
    minList (x + d) (xs.map (· + d)) = minList x xs + d := by
  induction xs generalizing x with
  | nil => rfl
  | cons y rest ih =>
    simp only [minList, List.map_cons, List.foldl_cons, rmin_add] at ih ⊢
    exact ih (rmin x y)

theorem maxList_shift (d x : Rat) (xs : List Rat) :
    maxList (x + d) (xs.map (· + d)) = maxList x xs + d := by
  induction xs generalizing x with
  | nil => rfl
  | cons y rest ih =>
    simp only [maxList, List.map_cons, List.foldl_cons, rmax_add] at ih ⊢
    exact ih (rmax x y)

theorem polyKeep_shift (d p : Pt) (vs : List Pt) :
    polyKeep (vs.map (shiftPt d)) p = polyKeep vs (p.1 - d.1, p.2 - d.2) := by
  cases vs with
  | nil => rfl
  | cons v rest =>
    rw [Bool.eq_iff_iff]
    simp only [polyKeep, polyBBox, List.map_cons, inBox_iff, List.map_map]
    have e1 : (fun x : Pt => x.1) ∘ shiftPt d = (· + d.1) ∘ (fun x : Pt => x.1) := by
      funext x; rfl
    have e2 : (fun x : Pt => x.2) ∘ shiftPt d = (· + d.2) ∘ (fun x : Pt => x.2) := by
      funext x; rfl
    have s1 : (shiftPt d v).1 = v.1 + d.1 := rfl
    have s2 : (shiftPt d v).2 = v.2 + d.2 := rfl
    rw [e1, e2, s1, s2, ← List.map_map, ← List.map_map, minList_shift, maxList_shift, minList_shift, maxList_shift]
    constructor
    · rintro ⟨h1, h2, h3, h4⟩
      exact ⟨by linarith, by linarith, by linarith, by linarith⟩
    · rintro ⟨h1, h2, h3, h4⟩
      exact ⟨by linarith, by linarith, by linarith, by linarith⟩

theorem polyContains_shift (d p : Pt) (vs : List Pt) :
    Impl.polyContains (vs.map (shiftPt d)) p = Impl.polyContains vs (p.1 - d.1, p.2 - d.2) := by
  simp only [Impl.polyContains, polyKeep_shift, crossParity_shift, List.length_map]

/-! ### Polygon centre under translation -/

theorem shiftPt_injective (d : Pt) : Function.Injective (shiftPt d) := by
  intro a b h
  simp only [shiftPt, Prod.mk.injEq] at h
  ext <;> linarith [h.1, h.2]

theorem sumList_cons (x : Rat) (xs : List Rat) : sumList (x :: xs) = x + sumList xs := rfl

theorem sumList_shift (d : Rat) (xs : List Rat) :
    sumList (xs.map (· + d)) = sumList xs + (xs.length : Rat) * d := by
  induction xs with
  | nil => simp [sumList]
  | cons x rest ih =>
    simp only [List.map_cons, sumList_cons, ih, List.length_cons, Nat.cast_add, Nat.cast_one]
    ring

theorem polyClosed_shift (d : Pt) (vs : List Pt) : polyClosed (vs.map (shiftPt d)) = polyClosed vs := by
  rw [Bool.eq_iff_iff]
  simp only [polyClosed, Bool.and_eq_true, beq_iff_eq, decide_eq_true_eq, List.length_map,
    List.head?_map, List.getLast?_map]
  constructor
  · rintro ⟨h1, h2⟩
    exact ⟨h1, Option.map_injective (shiftPt_injective d) h2⟩
  · rintro ⟨h1, h2⟩
    exact ⟨h1, by rw [h2]⟩

theorem polyCore_shift (d : Pt) (vs : List Pt) : polyCore (vs.map (shiftPt d)) = (polyCore vs).map (shiftPt d) := by
  simp only [polyCore, polyClosed_shift]
  split
  · exact (List.map_dropLast ..).symm
  · rfl

theorem polyCore_ne_nil (vs : List Pt) (h : vs ≠ []) : polyCore vs ≠ [] := by
  unfold polyCore
  split
  · rename_i hc
    simp only [polyClosed, Bool.and_eq_true, decide_eq_true_eq] at hc
    intro hd
    have := congrArg List.length hd
    simp only [List.length_dropLast, List.length_nil] at this
    omega
  · exact h

theorem polyMean_shift (d : Pt) (vs : List Pt) (h : vs ≠ []) :
    polyMean (vs.map (shiftPt d)) = shiftPt d (polyMean vs) := by
  have hn : polyCore vs ≠ [] := polyCore_ne_nil vs h
  have hlen : ((polyCore vs).length : Rat) ≠ 0 := by
    have : (polyCore vs).length ≠ 0 := fun h0 => hn (List.length_eq_zero_iff.mp h0)
    exact_mod_cast this
  simp only [polyMean, polyCore_shift, List.map_map, List.length_map, shiftPt]
  have e1 : (fun x : Pt => x.1) ∘ shiftPt d = (· + d.1) ∘ (fun x : Pt => x.1) := by funext x; rfl
  have e2 : (fun x : Pt => x.2) ∘ shiftPt d = (· + d.2) ∘ (fun x : Pt => x.2) := by funext x; rfl
  rw [e1, e2, ← List.map_map, ← List.map_map, sumList_shift, sumList_shift]
  simp only [List.length_map]
  ext
  · simp only; field_simp
  · simp only; field_simp

theorem offsets_shift (d m : Pt) (vs : List Pt) :
    offsets (shiftPt d m) (vs.map (shiftPt d)) = offsets m vs := by
  simp only [offsets, List.map_map]
  apply List.map_congr_left
  intro v _
  simp only [Function.comp, shiftPt]
  ext <;> simp

theorem polyAreaSigned_shift (d : Pt) (vs : List Pt) (h : vs ≠ []) :
    polyAreaSigned (vs.map (shiftPt d)) = polyAreaSigned vs := by
  simp only [polyAreaSigned, polyMean_shift d vs h, offsets_shift, polyClosed_shift]

theorem polyCentroid_shift (d : Pt) (vs : List Pt) (h : vs ≠ []) :
    polyCentroid (vs.map (shiftPt d)) = shiftPt d (polyCentroid vs) := by
  simp only [polyCentroid, List.length_map, polyMean_shift d vs h, polyCore_shift, offsets_shift,
    polyAreaSigned_shift d vs h]
  split
  · rfl
  · split
    · rfl
    · simp only [shiftPt]
      ext <;> simp <;> ring

theorem polyCenter_shift (d : Pt) (vs : List Pt) (h : vs ≠ []) :
    polyCenter (vs.map (shiftPt d)) = shiftPt d (polyCenter vs) := by
  simp only [polyCenter, polyAreaSigned_shift d vs h, polyMean_shift d vs h, polyCentroid_shift d vs h]
  split <;> rfl

theorem poly_moveTo_eq (g : Poly) (t : Pt) :
    (Roi.poly g).moveTo t =
      .poly { g with vs := g.vs.map (shiftPt (t.1 - (polyCenter g.vs).1, t.2 - (polyCenter g.vs).2)) } := rfl

/-! ### Polygon: the bounding-box prefilter never drops an inside point -/

/-- The cross product `(a − p) × (b − p)` decides the Haines comparison. -/
theorem haines_cross (p a b : Pt) :
    ((b.1 - p.1) * (a.2 - b.2) ≤ (b.2 - p.2) * (a.1 - b.1)) ↔
      0 ≤ (a.1 - p.1) * (b.2 - p.2) - (a.2 - p.2) * (b.1 - p.1) := by
  constructor <;> intro h <;> nlinarith

theorem edgeCross_eq_true_iff (p a b : Pt) :
    edgeCross p a b = true ↔
      (((p.2 ≤ a.2) ∧ ¬ (p.2 ≤ b.2)) ∨ (¬ (p.2 ≤ a.2) ∧ (p.2 ≤ b.2))) ∧
      ((0 ≤ (a.1 - p.1) * (b.2 - p.2) - (a.2 - p.2) * (b.1 - p.1)) ↔ p.2 ≤ b.2) := by
  unfold edgeCross
  have hc := haines_cross p a b
  by_cases h1 : p.2 ≤ a.2 <;> by_cases h2 : p.2 ≤ b.2 <;>
    by_cases h3 : (b.1 - p.1) * (a.2 - b.2) ≤ (b.2 - p.2) * (a.1 - b.1) <;> simp [h1, h2, h3, ← hc]

/-- No crossing when both end points are strictly below, weakly above, or strictly left of `p`. -/
theorem edgeCross_false_of_below (p a b : Pt) (ha : a.2 < p.2) (hb : b.2 < p.2) : edgeCross p a b = false := by
  rw [← Bool.not_eq_true, edgeCross_eq_true_iff]
  rintro ⟨h | h, -⟩
  · exact absurd h.1 (not_le.2 ha)
  · exact absurd h.2 (not_le.2 hb)

theorem edgeCross_false_of_above (p a b : Pt) (ha : p.2 ≤ a.2) (hb : p.2 ≤ b.2) : edgeCross p a b = false := by
  rw [← Bool.not_eq_true, edgeCross_eq_true_iff]
  rintro ⟨h | h, -⟩
  · exact h.2 hb
  · exact h.1 ha

theorem edgeCross_false_of_left (p a b : Pt) (ha : a.1 < p.1) (hb : b.1 < p.1) : edgeCross p a b = false := by
  rw [← Bool.not_eq_true, edgeCross_eq_true_iff]
  rintro ⟨h | h, hx⟩
  · -- a above, b below: the cross product is positive, yet must be negative
    have h2 : b.2 < p.2 := not_le.1 h.2
    have : 0 ≤ (a.1 - p.1) * (b.2 - p.2) - (a.2 - p.2) * (b.1 - p.1) := by
      nlinarith [mul_pos (sub_pos.2 ha) (sub_pos.2 h2), mul_nonneg (sub_nonneg.2 h.1) (sub_pos.2 hb).le]
    exact h.2 (hx.1 this)
  · have h1 : a.2 < p.2 := not_le.1 h.1
    have : ¬ (0 ≤ (a.1 - p.1) * (b.2 - p.2) - (a.2 - p.2) * (b.1 - p.1)) := by
      rw [not_le]
      nlinarith [mul_pos (sub_pos.2 h1) (sub_pos.2 hb), mul_nonneg (sub_nonneg.2 h.2) (sub_pos.2 ha).le]
    exact this (hx.2 h.2)

/-- Strictly to the right of `p` an edge crosses the ray iff its end points are on different sides. -/
theorem edgeCross_of_right (p a b : Pt) (ha : p.1 < a.1) (hb : p.1 < b.1) :
    edgeCross p a b = (decide (p.2 ≤ a.2) != decide (p.2 ≤ b.2)) := by
  rw [Bool.eq_iff_iff, edgeCross_eq_true_iff]
  simp only [bne_iff_ne, ne_eq, decide_eq_decide]
  constructor
  · rintro ⟨h | h, -⟩
    · intro hi; exact h.2 (hi.1 h.1)
    · intro hi; exact h.1 (hi.2 h.2)
  · intro hne
    by_cases h1 : p.2 ≤ a.2
    · have h2 : ¬ p.2 ≤ b.2 := fun h2 => hne ⟨fun _ => h2, fun _ => h1⟩
      refine ⟨Or.inl ⟨h1, h2⟩, ?_⟩
      have hb2 : b.2 < p.2 := not_le.1 h2
      constructor
      · intro hx; exfalso
        nlinarith [mul_pos (sub_pos.2 ha) (sub_pos.2 hb2), mul_nonneg (sub_nonneg.2 h1) (sub_pos.2 hb).le]
      · intro h; exact absurd h h2
    · have h2 : p.2 ≤ b.2 := by
        by_contra h2; exact hne ⟨fun h => absurd h h1, fun h => absurd h h2⟩
      refine ⟨Or.inr ⟨h1, h2⟩, ?_⟩
      have ha2 : a.2 < p.2 := not_le.1 h1
      constructor
      · intro _; exact h2
      · intro _
        nlinarith [mul_pos (sub_pos.2 ha2) (sub_pos.2 hb), mul_nonneg (sub_nonneg.2 h2) (sub_pos.2 ha).le]

theorem crossPath_false_of_all (p : Pt) (Q : Pt → Prop)
    (hQ : ∀ a b, Q a → Q b → edgeCross p a b = false) (a : Pt) (vs : List Pt)
    (ha : Q a) (hvs : ∀ v ∈ vs, Q v) : crossPath p a vs = false := by
  induction vs generalizing a with
  | nil => rfl
  | cons b rest ih =>
    have hb : Q b := hvs b (List.mem_cons_self ..)
    simp only [crossPath, hQ a b ha hb, ih b hb (fun v hv => hvs v (List.mem_cons_of_mem _ hv))]
    rfl

/-- Along a path strictly to the right of `p` the parity only depends on the two end points. -/
theorem crossPath_of_right (p a : Pt) (vs : List Pt) (ha : p.1 < a.1) (hvs : ∀ v ∈ vs, p.1 < v.1) :
    crossPath p a vs = (decide (p.2 ≤ a.2) != decide (p.2 ≤ (vs.getLast?.getD a).2)) := by
  induction vs generalizing a with
  | nil =>
    simp only [crossPath, List.getLast?_nil, Option.getD_none]
    exact (bne_self_eq_false (decide (p.2 ≤ a.2))).symm
  | cons b rest ih =>
    have hb : p.1 < b.1 := hvs b (List.mem_cons_self ..)
    rw [crossPath, edgeCross_of_right p a b ha hb, ih b hb (fun v hv => hvs v (List.mem_cons_of_mem _ hv))]
    have : ((b :: rest).getLast?.getD a) = (rest.getLast?.getD b) := by
      cases rest with
      | nil => rfl
      | cons c r =>
        rw [List.getLast?_cons_cons]
        rcases h : (c :: r).getLast? with _ | x
        · simp at h
        · rfl
    rw [this]
    cases decide (p.2 ≤ a.2) <;> cases decide (p.2 ≤ b.2) <;> cases decide (p.2 ≤ (rest.getLast?.getD b).2) <;> rfl

theorem minList_le (x : Rat) (xs : List Rat) : minList x xs ≤ x ∧ ∀ y ∈ xs, minList x xs ≤ y := by
  induction xs generalizing x with
  | nil => exact ⟨le_refl _, fun y hy => absurd hy (List.not_mem_nil)⟩
  | cons z rest ih =>
    obtain ⟨h1, h2⟩ := ih (rmin x z)
    have e : minList x (z :: rest) = minList (rmin x z) rest := rfl
    rw [e]
    refine ⟨le_trans h1 (rmin_le_left x z), ?_⟩
    intro y hy
    rcases List.mem_cons.1 hy with rfl | hy
    · exact le_trans h1 (rmin_le_right x y)
    · exact h2 y hy

theorem le_maxList (x : Rat) (xs : List Rat) : x ≤ maxList x xs ∧ ∀ y ∈ xs, y ≤ maxList x xs := by
  induction xs generalizing x with
  | nil => exact ⟨le_refl _, fun y hy => absurd hy (List.not_mem_nil)⟩
  | cons z rest ih =>
    obtain ⟨h1, h2⟩ := ih (rmax x z)
    have e : maxList x (z :: rest) = maxList (rmax x z) rest := rfl
    rw [e]
    refine ⟨le_trans (le_rmax_left x z) h1, ?_⟩
    intro y hy
    rcases List.mem_cons.1 hy with rfl | hy
    · exact le_trans (le_rmax_right x y) h1
    · exact h2 y hy

/-- **The bounding-box prefilter of `points_inside_poly` never drops a point the even-odd rule
puts inside**, for every polygon (open, closed, concave, self-intersecting). -/
theorem polyKeep_of_crossParity (vs : List Pt) (p : Pt) (h : crossParity vs p = true) :
    polyKeep vs p = true := by
  cases vs with
  | nil => simp [crossParity] at h
  | cons v rest =>
    simp only [crossParity] at h
    have hmem : ∀ (Q : Pt → Prop), Q v → (∀ w ∈ rest, Q w) → ∀ w ∈ rest ++ [v], Q w := by
      intro Q hv hr w hw
      rcases List.mem_append.1 hw with hw | hw
      · exact hr w hw
      · rw [List.mem_singleton.1 hw]; exact hv
    obtain ⟨mx0, mx⟩ := minList_le v.1 (rest.map (·.1))
    obtain ⟨Mx0, Mx⟩ := le_maxList v.1 (rest.map (·.1))
    obtain ⟨my0, my⟩ := minList_le v.2 (rest.map (·.2))
    obtain ⟨My0, My⟩ := le_maxList v.2 (rest.map (·.2))
    simp only [polyKeep, polyBBox, inBox_iff]
    refine ⟨?_, ?_, ?_, ?_⟩
    · -- p left of every vertex: flag changes around a closed path cancel
      by_contra hc
      rw [not_le] at hc
      have hv : p.1 < v.1 := lt_of_lt_of_le hc mx0
      have hr : ∀ w ∈ rest, p.1 < w.1 := fun w hw =>
        lt_of_lt_of_le hc (mx w.1 (List.mem_map_of_mem hw))
      rw [crossPath_of_right p v _ hv (hmem (fun w => p.1 < w.1) hv hr)] at h
      simp at h
    · by_contra hc
      rw [not_le] at hc
      have hv : v.1 < p.1 := lt_of_le_of_lt Mx0 hc
      have hr : ∀ w ∈ rest, w.1 < p.1 := fun w hw =>
        lt_of_le_of_lt (Mx w.1 (List.mem_map_of_mem hw)) hc
      rw [crossPath_false_of_all p (fun w => w.1 < p.1) (fun a b => edgeCross_false_of_left p a b) v _ hv
        (hmem (fun w => w.1 < p.1) hv hr)] at h
      exact Bool.false_ne_true h
    · by_contra hc
      rw [not_le] at hc
      have hv : p.2 ≤ v.2 := (lt_of_lt_of_le hc my0).le
      have hr : ∀ w ∈ rest, p.2 ≤ w.2 := fun w hw =>
        (lt_of_lt_of_le hc (my w.2 (List.mem_map_of_mem hw))).le
      rw [crossPath_false_of_all p (fun w => p.2 ≤ w.2) (fun a b => edgeCross_false_of_above p a b) v _ hv
        (hmem (fun w => p.2 ≤ w.2) hv hr)] at h
      exact Bool.false_ne_true h
    · by_contra hc
      rw [not_le] at hc
      have hv : v.2 < p.2 := lt_of_le_of_lt My0 hc
      have hr : ∀ w ∈ rest, w.2 < p.2 := fun w hw =>
        lt_of_le_of_lt (My w.2 (List.mem_map_of_mem hw)) hc
      rw [crossPath_false_of_all p (fun w => w.2 < p.2) (fun a b => edgeCross_false_of_below p a b) v _ hv
        (hmem (fun w => w.2 < p.2) hv hr)] at h
      exact Bool.false_ne_true h

/-- With at least three vertices the coded polygon test is the even-odd rule. -/
theorem polyContains_eq_spec (vs : List Pt) (p : Pt) (h3 : 3 ≤ vs.length) :
    Impl.polyContains vs p = Spec.polyContains vs p := by
  simp only [Impl.polyContains, Spec.polyContains, h3, decide_true, Bool.and_true]
  cases hc : crossParity vs p with
  | false => simp
  | true => simp [polyKeep_of_crossParity vs p hc]

/-! ### `move_to` for the other classes; the unified statements -/

theorem dist2_shift (xc yc : Rat) (d p : Pt) :
    dist2 (xc + d.1) (yc + d.2) p = dist2 xc yc (p.1 - d.1, p.2 - d.2) := by
  simp only [dist2]; ring

theorem circle_move (c : Circle) (t p : Pt) :
    Impl.circleContains { c with xc := t.1, yc := t.2 } p =
      Impl.circleContains c (p.1 - (t.1 - c.xc), p.2 - (t.2 - c.yc)) := by
  rw [Bool.eq_iff_iff, circle_iff, circle_iff]
  dsimp only
  have e : dist2 t.1 t.2 p = dist2 c.xc c.yc (p.1 - (t.1 - c.xc), p.2 - (t.2 - c.yc)) := by
    simp only [dist2]; ring
  rw [e]

theorem annulus_move (a : Annulus) (t p : Pt) :
    Impl.annulusContains { a with xc := t.1, yc := t.2 } p =
      Impl.annulusContains a (p.1 - (t.1 - a.xc), p.2 - (t.2 - a.yc)) := by
  rw [Bool.eq_iff_iff, annulus_iff, annulus_iff]
  dsimp only
  have e : dist2 t.1 t.2 p = dist2 a.xc a.yc (p.1 - (t.1 - a.xc), p.2 - (t.2 - a.yc)) := by
    simp only [dist2]; ring
  rw [e]

theorem range_move (r : Range) (d : Rat) (p : Pt) :
    Impl.rangeContains { r with lo := r.lo + d, hi := r.hi + d } p =
      Impl.rangeContains r (if r.isX then (p.1 - d, p.2) else (p.1, p.2 - d)) := by
  rw [Bool.eq_iff_iff, range_iff, range_iff]
  cases hx : r.isX <;> simp only [if_true, if_false, Bool.false_eq_true] <;>
    (constructor <;> rintro ⟨h1, h2⟩ <;> exact ⟨by linarith, by linarith⟩)

/-- The ellipse translated by `d`. -/
def ellShift (e : Ellipse) (d : Pt) : Ellipse := { e with xc := e.xc + d.1, yc := e.yc + d.2 }

theorem ellShift_loc (e : Ellipse) (d p : Pt) : (ellShift e d).loc p = e.loc (p.1 - d.1, p.2 - d.2) := by
  simp only [Ellipse.loc, ellShift]
  have e1 : p.1 - (e.xc + d.1) = p.1 - d.1 - e.xc := by ring
  have e2 : p.2 - (e.yc + d.2) = p.2 - d.2 - e.yc := by ring
  rw [e1, e2]

theorem ellShift_keep (e : Ellipse) (d p : Pt) : (ellShift e d).keep p = e.keep (p.1 - d.1, p.2 - d.2) := by
  rw [Bool.eq_iff_iff, ell_keep_iff, ell_keep_iff]
  simp only [ellShift]
  constructor <;> rintro ⟨h1, h2, h3, h4⟩ <;> exact ⟨by linarith, by linarith, by linarith, by linarith⟩

theorem ellShift_contains (e : Ellipse) (d p : Pt) :
    Impl.ellipseContains (ellShift e d) p = Impl.ellipseContains e (p.1 - d.1, p.2 - d.2) := by
  have hl := ellShift_loc e d p
  have hk := ellShift_keep e d p
  have e1 : p.1 - (e.xc + d.1) = p.1 - d.1 - e.xc := by ring
  have e2 : p.2 - (e.yc + d.2) = p.2 - d.2 - e.yc := by ring
  unfold Impl.ellipseContains
  rw [hl, hk]
  simp only [ellShift, e1, e2]
  rfl

theorem ellShift_spec (e : Ellipse) (d p : Pt) :
    Spec.ellipseContains (ellShift e d) p = Spec.ellipseContains e (p.1 - d.1, p.2 - d.2) := by
  have hl := ellShift_loc e d p
  unfold Spec.ellipseContains
  rw [hl]
  simp only [ellShift]
  rfl

theorem ell_moveTo_eq (e : Ellipse) (t : Pt) :
    ({ e with xc := t.1, yc := t.2 } : Ellipse) = ellShift e (t.1 - e.xc, t.2 - e.yc) := by
  simp only [ellShift]
  congr 1 <;> ring

/-- **`move_equivariant`**, every class: after `move_to(t)` a point is contained iff the point moved
back by the displacement `t − center` (for a range: along its own axis) was contained before. -/
theorem move_equivariant (roi : Roi) (t p : Pt) :
    Impl.contains (roi.moveTo t) p =
      Impl.contains roi (p.1 - (roi.moveDelta t).1, p.2 - (roi.moveDelta t).2) := by
  cases roi with
  | rect r =>
    rw [rect_moveTo_eq]
    show Impl.rectContains (rectShift r _) p = Impl.rectContains r _
    rw [rectShift_contains]
    rfl
  | circle c => exact circle_move c t p
  | ellipse e =>
    show Impl.ellipseContains { e with xc := t.1, yc := t.2 } p = _
    rw [ell_moveTo_eq, ellShift_contains]
    rfl
  | annulus a => exact annulus_move a t p
  | range r =>
    show Impl.rangeContains { r with lo := r.lo + _, hi := r.hi + _ } p = _
    rw [range_move]
    simp only [Roi.moveDelta, Impl.contains]
    cases r.isX <;> simp
  | poly g =>
    rw [poly_moveTo_eq]
    exact polyContains_shift _ p g.vs
  | undefined => rfl

/-- **`center_moveTo`**: after `move_to(t)` the reported centre is `t` (rectangle, circle, ellipse,
annulus, non-empty polygon). -/
theorem center_moveTo (roi : Roi) (t : Pt) (hdef : roi.defined = true)
    (hr : ∀ r, roi ≠ .range r) : (roi.moveTo t).center = t := by
  cases roi with
  | rect r =>
    show (rectShift r (t.1 - r.center.1, t.2 - r.center.2)).center = t
    rw [rectShift_center]
    ext <;> simp
  | circle c => rfl
  | ellipse e => rfl
  | annulus a => rfl
  | range r => exact absurd rfl (hr r)
  | poly g =>
    rw [poly_moveTo_eq]
    have hne : g.vs ≠ [] := by
      intro h
      simp [Roi.defined, h] at hdef
    show polyCenter (g.vs.map _) = t
    rw [polyCenter_shift _ _ hne]
    simp only [shiftPt]
    ext <;> simp
  | undefined => simp [Roi.defined] at hdef

/-- A range moved to `t` is centred on `t` along its own axis. -/
theorem range_center_moveTo (r : Range) (t : Pt) :
    ((Roi.range r).moveTo t).center = if r.isX then (t.1, t.1) else (t.2, t.2) := by
  simp only [Roi.moveTo, Roi.center]
  cases r.isX <;> simp <;> ring

/-! ### `rotate_to` for rectangle and ellipse -/

theorem unrot_comp (c s dc ds : Rat) (v : Pt) :
    unrot c s (unrot dc ds v) = unrot (c * dc - s * ds) (s * dc + c * ds) v := by
  simp only [unrot]
  ext <;> simp <;> ring

/-- `θ + (θ' − θ) = θ'` on unit vectors. -/
theorem rel_angle (c s c' s' : Rat) (hu : c * c + s * s = 1) :
    c * (c' * c + s' * s) - s * (s' * c - c' * s) = c' ∧
    s * (c' * c + s' * s) + c * (s' * c - c' * s) = s' := by
  constructor
  · have : c * (c' * c + s' * s) - s * (s' * c - c' * s) = c' * (c * c + s * s) := by ring
    rw [this, hu, mul_one]
  · have : s * (c' * c + s' * s) + c * (s' * c - c' * s) = s' * (c * c + s * s) := by ring
    rw [this, hu, mul_one]

/-- The point turned back about `ctr` by the angle with unit vector `(dc, ds)`. -/
def turnBack (ctr : Pt) (dc ds : Rat) (p : Pt) : Pt :=
  ((unrot dc ds (p.1 - ctr.1, p.2 - ctr.2)).1 + ctr.1, (unrot dc ds (p.1 - ctr.1, p.2 - ctr.2)).2 + ctr.2)

def rectTurn (r : Rect) (c' s' : Rat) : Rect := { r with c := c', s := s' }

theorem rect_rotateTo_eq (r : Rect) (c' s' : Rat) :
    (Roi.rect r).rotateTo c' s' = .rect (rectTurn r c' s') := rfl

theorem rectTurn_loc (r : Rect) (c' s' : Rat) (p : Pt) (hu : r.c * r.c + r.s * r.s = 1) :
    (rectTurn r c' s').loc p =
      r.loc (turnBack r.center (c' * r.c + s' * r.s) (s' * r.c - c' * r.s) p) := by
  have hc : (rectTurn r c' s').center = r.center := rfl
  obtain ⟨a1, a2⟩ := rel_angle r.c r.s c' s' hu
  simp only [Rect.loc, hc, turnBack]
  have e1 : ∀ x y : Rat, x + y - y = x := fun x y => by ring
  rw [e1, e1, unrot_comp, a1, a2]
  rfl

theorem rectTurn_spec (r : Rect) (c' s' : Rat) (p : Pt) (hu : r.c * r.c + r.s * r.s = 1) :
    Spec.rectContains (rectTurn r c' s') p =
      Spec.rectContains r (turnBack r.center (c' * r.c + s' * r.s) (s' * r.c - c' * r.s) p) := by
  have hw : (rectTurn r c' s').width = r.width := rfl
  have hh : (rectTurn r c' s').height = r.height := rfl
  simp only [Spec.rectContains, rectTurn_loc r c' s' p hu, hw, hh]

theorem rectTurn_near (r : Rect) (c' s' : Rat) (p : Pt) (ε : Rat) (hu : r.c * r.c + r.s * r.s = 1) :
    (rectTurn r c' s').near p ε =
      r.near (turnBack r.center (c' * r.c + s' * r.s) (s' * r.c - c' * r.s) p) ε := by
  have hw : (rectTurn r c' s').width = r.width := rfl
  have hh : (rectTurn r c' s').height = r.height := rfl
  simp only [Rect.near, rectTurn_loc r c' s' p hu, hw, hh]

/-- **`rotate_equivariant` (rectangle)** on the coded tests: after `rotate_to(θ')` a point is
contained iff the point turned back about the centre by `θ' − θ` was contained before — off the band,
whichever branches the two angles select. -/
theorem rect_rotate_equivariant (r : Rect) (c' s' : Rat) (p : Pt) (ε : Rat)
    (hu : r.c * r.c + r.s * r.s = 1) (hu' : c' * c' + s' * s' = 1) (hε : 0 ≤ ε)
    (ht : r.branchTol ≤ ε) (ht' : (rectTurn r c' s').branchTol ≤ ε)
    (hfar : (rectTurn r c' s').near p ε = false) :
    Impl.rectContains (rectTurn r c' s') p =
      Impl.rectContains r (turnBack r.center (c' * r.c + s' * r.s) (s' * r.c - c' * r.s) p) := by
  rw [rect_branches_agree (rectTurn r c' s') p ε hu' hε ht' hfar, rectTurn_spec r c' s' p hu]
  rw [rectTurn_near r c' s' p ε hu] at hfar
  rw [rect_branches_agree r _ ε hu hε ht hfar]

def ellTurn (e : Ellipse) (c' s' : Rat) : Ellipse := { e with c := c', s := s' }

theorem ell_rotateTo_eq (e : Ellipse) (c' s' : Rat) :
    (Roi.ellipse e).rotateTo c' s' = .ellipse (ellTurn e c' s') := rfl

theorem ellTurn_loc (e : Ellipse) (c' s' : Rat) (p : Pt) (hu : e.c * e.c + e.s * e.s = 1) :
    (ellTurn e c' s').loc p =
      e.loc (turnBack (e.xc, e.yc) (c' * e.c + s' * e.s) (s' * e.c - c' * e.s) p) := by
  obtain ⟨a1, a2⟩ := rel_angle e.c e.s c' s' hu
  simp only [Ellipse.loc, turnBack, ellTurn]
  have e1 : ∀ x y : Rat, x + y - y = x := fun x y => by ring
  rw [e1, e1, unrot_comp, a1, a2]

/-- **`rotate_equivariant` (ellipse)**, geometric definition, every point. -/
theorem ellTurn_spec (e : Ellipse) (c' s' : Rat) (p : Pt) (hu : e.c * e.c + e.s * e.s = 1) :
    Spec.ellipseContains (ellTurn e c' s') p =
      Spec.ellipseContains e (turnBack (e.xc, e.yc) (c' * e.c + s' * e.s) (s' * e.c - c' * e.s) p) := by
  have hl := ellTurn_loc e c' s' p hu
  unfold Spec.ellipseContains
  rw [hl]
  rfl

/-! ### copy, save/restore, array shape, chunking, categorical -/

theorem zip_fst_snd (vs : List Pt) : (vs.map (·.1)).zip (vs.map (·.2)) = vs := by
  induction vs with
  | nil => rfl
  | cons v rest ih => simp only [List.map_cons, List.zip_cons_cons, ih]

/-- **`params_roundtrip`**: `__setgluestate__(__gluestate__(roi))` rebuilds the same parameters
(a polygon's position angle restarts at 0; its vertices are kept). -/
theorem params_roundtrip (roi : Roi) : Roi.ofState roi.toState = some roi.restored := by
  cases roi with
  | rect r => rfl
  | circle c => rfl
  | ellipse e => rfl
  | annulus a => rfl
  | range r => cases r with | mk isX lo hi => cases isX <;> rfl
  | poly g =>
    show (match (some (SVal.nums (g.vs.map (·.1))) : Option SVal), (some (SVal.nums (g.vs.map (·.2))) : Option SVal) with
      | some (.nums xs), some (.nums ys) => some (Roi.poly { vs := xs.zip ys })
      | _, _ => none) = _
    simp only [zip_fst_snd]
    rfl
  | undefined => rfl

theorem restored_contains (roi : Roi) (p : Pt) : Impl.contains roi.restored p = Impl.contains roi p := by
  cases roi <;> rfl

/-- **`shape_independent`**: evaluating on any re-arrangement of the points (reshape, transpose,
broadcast view, chunk — any list of positions `idx` into the point list) is the re-arrangement of the
pointwise answers. -/
theorem shape_independent (f : PtO → Bool) (ps : List PtO) (idx : List Nat) (d : PtO) :
    (idx.map fun i => ps.getD i d).map f = idx.map fun i => (ps.map f).getD i (f d) := by
  rw [List.map_map]
  apply List.map_congr_left
  intro i _
  simp only [Function.comp, List.getD_eq_getElem?_getD, List.getElem?_map]
  cases ps[i]? <;> rfl

theorem assembleChunks_of_partition (shape : List Nat) (chunks : List ArrayUtil.Chunk) (f : List Nat → Bool)
    (h : ArrayUtil.isPartition shape chunks = true) :
    assembleChunks shape chunks f = (ArrayUtil.allIndices shape).map f := by
  unfold assembleChunks
  apply List.map_congr_left
  intro idx hidx
  simp only [ArrayUtil.isPartition, Bool.and_eq_true, List.all_eq_true] at h
  have h1 := h.2 idx hidx
  have hany : chunks.any (ArrayUtil.inChunk idx) = true := by
    rw [List.any_eq_true]
    have hl : (chunks.filter (ArrayUtil.inChunk idx)).length = 1 := by simpa using h1
    match hf : chunks.filter (ArrayUtil.inChunk idx) with
    | [] => rw [hf] at hl; simp at hl
    | x :: _ =>
      have hx : x ∈ chunks.filter (ArrayUtil.inChunk idx) := by rw [hf]; exact List.mem_cons_self ..
      exact ⟨x, (List.mem_filter.1 hx).1, (List.mem_filter.1 hx).2⟩
  rw [hany]
  rfl

theorem strictSorted_head_lt (c : Int) (cs : List Int) (h : ArrayUtil.strictSorted (c :: cs) = true) :
    (∀ y ∈ cs, c < y) ∧ ArrayUtil.strictSorted cs = true := by
  induction cs generalizing c with
  | nil => exact ⟨fun y hy => absurd hy (List.not_mem_nil), rfl⟩
  | cons d rest ih =>
    simp only [ArrayUtil.strictSorted, Bool.and_eq_true, decide_eq_true_eq] at h
    obtain ⟨hcd, hs⟩ := h
    refine ⟨?_, hs⟩
    intro y hy
    rcases List.mem_cons.1 hy with rfl | hy
    · exact hcd
    · exact lt_trans hcd ((ih d hs).1 y hy)

/-- **Categorical**: `searchsorted` + equality is membership, for sorted categories. -/
theorem catContains_eq_spec (cats : List Int) (x : Int) (h : ArrayUtil.strictSorted cats = true) :
    Impl.catContains cats x = Spec.catContains cats x := by
  induction cats with
  | nil => rfl
  | cons c cs ih =>
    obtain ⟨hlt, hs⟩ := strictSorted_head_lt c cs h
    have ih' := ih hs
    simp only [Spec.catContains] at ih' ⊢
    by_cases hcx : c < x
    · have hne : ¬ (x = c) := fun e => by omega
      have hss : searchSorted (c :: cs) x = searchSorted cs x + 1 := by
        simp [searchSorted, hcx]
      cases cs with
      | nil =>
        simp [Impl.catContains, hss, hne]
        omega
      | cons d rest =>
        have hmem : (c :: d :: rest).contains x = (d :: rest).contains x := by
          simp [hne]
        rw [hmem, ← ih']
        simp only [Impl.catContains, hss, List.length_cons]
        have e : min (searchSorted (d :: rest) x + 1) (rest.length + 1 + 1 - 1)
            = min (searchSorted (d :: rest) x) (rest.length + 1 - 1) + 1 := by omega
        rw [e]
        simp
    · have hss : searchSorted (c :: cs) x = 0 := by
        simp [searchSorted, hcx]
      have hnot : ∀ y ∈ cs, ¬ (x = y) := fun y hy e => by
        have := hlt y hy
        omega
      have hmem : (c :: cs).contains x = (x == c) := by
        rw [List.contains_cons]
        have : cs.contains x = false := by
          rw [← Bool.not_eq_true, List.contains_iff_mem]
          exact fun hm => hnot x hm rfl
        rw [this, Bool.or_false]
      rw [hmem]
      simp only [Impl.catContains, hss, List.length_cons]
      simp
      constructor <;> intro e <;> exact e.symm

end GlueVerif.Lemmas.Geometry
