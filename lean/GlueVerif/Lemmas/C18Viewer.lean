import GlueVerif.Model.C18Viewer
import GlueVerif.Lemmas.C06
/-!
# C18 part 1 — helper lemmas for the viewer model

(1) list-level facts about the two-way sync: on a *synced* state (`slayers = arts`) every handler
is a plain filter / append on both lists; (2) membership characterisation of each handler and of
the folds that model message delivery; (3) the invariant `VInv` and its preservation by every
operation; (4) `VInv` implies the executable `specOk`.
-/
namespace GlueVerif.Lemmas.C18Viewer
open GlueVerif.Collection GlueVerif.C18Viewer

/-! ## 0. what is needed from the collection (all of it follows from the C06 invariant) -/

structure ColOk (st : Collection.State) : Prop where
  nodupD : st.datasets.Nodup
  subData : ∀ d, ∀ s ∈ st.dsubs d, s.data = some d
  removedEmpty : ∀ d, d ∉ st.datasets → st.dsubs d = []
  nodupS : ∀ d, (st.dsubs d).Nodup
  dBound : ∀ d ∈ st.datasets, d < st.nData

theorem colOk_of_inv {st : Collection.State} (h : Collection.Inv st) : ColOk st where
  nodupD := h.nodupD
  subData := h.subData
  removedEmpty := h.removedEmpty
  nodupS := by
    intro d
    by_cases hd : d ∈ st.datasets
    · exact Lemmas.C06.nodup_dsubs h hd
    · rw [h.removedEmpty d hd]; exact List.nodup_nil
  dBound := h.dBound

theorem attached_iff {st : Collection.State} (h : ColOk st) (s : Sub) :
    attached st.datasets st.dsubs s = true ↔ ∃ d, d ∈ st.datasets ∧ s ∈ st.dsubs d := by
  unfold attached
  constructor
  · intro ha
    cases hs : s.data with
    | none => simp [hs] at ha
    | some d =>
      simp only [hs, Bool.and_eq_true, List.contains_eq_mem, decide_eq_true_eq] at ha
      exact ⟨d, ha.1, ha.2⟩
  · rintro ⟨d, hd, hs⟩
    have := h.subData d s hs
    simp [this, hd, hs]

theorem mem_datasets_of_mem_dsubs {st : Collection.State} (h : ColOk st) {d : Nat} {s : Sub}
    (hs : s ∈ st.dsubs d) : d ∈ st.datasets := by
  by_cases hd : d ∈ st.datasets
  · exact hd
  · rw [h.removedEmpty d hd] at hs
    simp at hs

/-! ## 1. list-level facts -/

theorem hasLayer_iff (arts : List Art) (L : Layer) : hasLayer arts L = true ↔ ∃ a ∈ arts, a.layer = L := by
  simp [hasLayer]

theorem hasLayer_append (xs ys : List Art) (L : Layer) :
    hasLayer (xs ++ ys) L = (hasLayer xs L || hasLayer ys L) := by
  simp [hasLayer]

theorem hasLayer_filter (arts : List Art) (p : Layer → Bool) (L : Layer) :
    hasLayer (arts.filter fun a => p a.layer) L = (hasLayer arts L && p L) := by
  rw [Bool.eq_iff_iff]
  simp only [hasLayer, List.any_eq_true, List.mem_filter, Bool.and_eq_true, beq_iff_eq]
  constructor
  · rintro ⟨a, ⟨ha, hp⟩, hl⟩
    exact ⟨⟨a, ha, hl⟩, hl ▸ hp⟩
  · rintro ⟨⟨a, ha, hl⟩, hp⟩
    exact ⟨a, ⟨ha, hl ▸ hp⟩, hl⟩

theorem hasLayer_of_mem {arts : List Art} {a : Art} (h : a ∈ arts) : hasLayer arts a.layer = true :=
  (hasLayer_iff _ _).2 ⟨a, h, rfl⟩

theorem filter_hasLayer_filter (arts : List Art) (p : Layer → Bool) :
    arts.filter (fun a => hasLayer (arts.filter fun b => p b.layer) a.layer) = arts.filter (fun a => p a.layer) := by
  apply List.filter_congr
  intro a ha
  rw [hasLayer_filter, hasLayer_of_mem ha, Bool.true_and]

theorem filter_self_hasLayer (arts : List Art) : arts.filter (fun a => hasLayer arts a.layer) = arts := by
  rw [List.filter_eq_self]
  intro a ha
  exact hasLayer_of_mem ha

/-- list-level well-formedness of a viewer: the two lists agree, no layer and no artist twice. -/
structure Good (v : VState) : Prop where
  synced : v.slayers = v.arts
  nodupL : (v.arts.map (·.layer)).Nodup
  idsLt : ∀ a ∈ v.arts, a.id < v.nArt

theorem Good.nodupI {v : VState} (_h : Good v) (hI : (v.arts.map (·.id)).Nodup) : (v.arts.map (·.id)).Nodup := hI

/-! ### the handlers on a synced state -/

theorem addArt_eq (L : Layer) (v : VState) (hs : v.slayers = v.arts) :
    addArt L v = { v with nArt := v.nArt + 1, arts := v.arts ++ [⟨v.nArt, L⟩],
                          slayers := v.arts ++ [⟨v.nArt, L⟩] } := by
  unfold addArt syncArts syncStates
  simp only [hs]
  have h1 : v.arts.filter (fun a => hasLayer (v.arts ++ [⟨v.nArt, L⟩]) a.layer) = v.arts := by
    rw [List.filter_eq_self]
    intro a ha
    rw [hasLayer_append, hasLayer_of_mem ha, Bool.true_or]
  simp only [h1]
  have h2 : (v.arts ++ [(⟨v.nArt, L⟩ : Art)]).filter (fun s => hasLayer (v.arts ++ [⟨v.nArt, L⟩]) s.layer)
      = v.arts ++ [⟨v.nArt, L⟩] := filter_self_hasLayer _
  rw [h2]

theorem popLayer_eq (L : Layer) (v : VState) (hs : v.slayers = v.arts) :
    popLayer L v = { v with arts := v.arts.filter (fun a => !(a.layer == L)),
                            slayers := v.arts.filter (fun a => !(a.layer == L)) } := by
  unfold popLayer syncStates
  simp only [hs]
  have := filter_hasLayer_filter v.arts (fun l => !(l == L))
  simp only [this]

theorem removeDataH_eq (d : Nat) (v : VState) (hs : v.slayers = v.arts) :
    C18Viewer.removeDataH d v =
      { v with arts := v.arts.filter (fun a => !a.layer.ofData d),
               slayers := v.arts.filter (fun a => !a.layer.ofData d) } := by
  unfold C18Viewer.removeDataH syncStates syncArts
  simp only [hs]
  have h1 := filter_hasLayer_filter v.arts (fun l => !l.ofData d)
  simp only [h1]
  have h2 := filter_self_hasLayer (v.arts.filter fun a => !a.layer.ofData d)
  simp only [h2]

theorem nodup_of_map_layer {arts : List Art} (h : (arts.map (·.layer)).Nodup) : arts.Nodup :=
  Lemmas.C06.nodup_of_map _ _ h

theorem erase_eq_filter_layer {arts : List Art} (h : (arts.map (·.layer)).Nodup) {s : Art} (hs : s ∈ arts) :
    arts.erase s = arts.filter (fun a => !(a.layer == s.layer)) := by
  induction arts with
  | nil => simp at hs
  | cons a as ih =>
    simp only [List.map_cons, List.nodup_cons] at h
    by_cases hsa : a = s
    · subst hsa
      have : as.filter (fun x => !(x.layer == a.layer)) = as := by
        rw [List.filter_eq_self]
        intro x hx
        have : x.layer ≠ a.layer := fun e => h.1 (e ▸ List.mem_map_of_mem hx)
        simp [this]
      simp [this]
    · have hs' : s ∈ as := by
        cases List.mem_cons.1 hs with
        | inl e => exact absurd e.symm hsa
        | inr e => exact e
      have hne : a.layer ≠ s.layer := fun e => h.1 (e ▸ List.mem_map_of_mem hs')
      have hsa' : ¬ (s = a) := fun e => hsa e.symm
      rw [List.erase_cons_tail (by simpa using hsa), ih h.2 hs']
      simp [hne]

theorem popState_eq (L : Layer) (v : VState) (hs : v.slayers = v.arts) (hn : (v.arts.map (·.layer)).Nodup) :
    popState L v = { v with arts := v.arts.filter (fun a => !(a.layer == L)),
                            slayers := v.arts.filter (fun a => !(a.layer == L)) } := by
  unfold popState
  simp only [hs]
  cases hf : v.arts.find? (fun s => s.layer == L) with
  | none =>
    have hall : ∀ a ∈ v.arts, ¬ (a.layer = L) := by
      intro a ha e
      have := List.find?_eq_none.1 hf a ha
      simp [e] at this
    have : v.arts.filter (fun a => !(a.layer == L)) = v.arts := by
      rw [List.filter_eq_self]
      intro a ha
      simp [hall a ha]
    simp only [this]
    cases v; simp_all
  | some s =>
    have hmem : s ∈ v.arts := List.mem_of_find?_eq_some hf
    have hl : s.layer = L := by
      have := List.find?_some hf
      simpa using this
    unfold syncStates syncArts
    simp only []
    rw [erase_eq_filter_layer hn hmem, hl]
    have h1 := filter_hasLayer_filter v.arts (fun l => !(l == L))
    simp only [h1]
    have h2 := filter_self_hasLayer (v.arts.filter fun a => !(a.layer == L))
    simp only [h2]

/-! ## 2. `Good` and layer membership through every handler -/

theorem good_filter {v : VState} (h : Good v) (p : Art → Bool) :
    Good { v with arts := v.arts.filter p, slayers := v.arts.filter p } where
  synced := rfl
  nodupL := by
    have : ((v.arts.filter p).map (·.layer)).Sublist (v.arts.map (·.layer)) :=
      List.Sublist.map _ List.filter_sublist
    exact this.nodup h.nodupL
  idsLt := fun a ha => h.idsLt a (List.mem_filter.1 ha).1

theorem good_addArt {v : VState} (h : Good v) {L : Layer} (hL : hasLayer v.arts L = false) :
    Good (addArt L v) := by
  rw [addArt_eq L v h.synced]
  refine ⟨rfl, ?_, ?_⟩
  · simp only [List.map_append, List.map_cons, List.map_nil]
    rw [List.nodup_append]
    refine ⟨h.nodupL, by simp, ?_⟩
    intro a ha b hb
    simp only [List.mem_singleton] at hb
    subst hb
    intro e
    subst e
    obtain ⟨x, hx, hxl⟩ := List.mem_map.1 ha
    have := (hasLayer_iff v.arts x.layer).2 ⟨x, hx, rfl⟩
    rw [hxl] at this
    rw [hL] at this
    exact Bool.noConfusion this
  · intro a ha
    simp only [List.mem_append, List.mem_singleton] at ha
    cases ha with
    | inl ha => have := h.idsLt a ha; simp only []; omega
    | inr ha => subst ha; simp only []; omega

/-- the fields that handlers never touch. -/
structure SameRest (v v' : VState) : Prop where
  col : v'.col = v.col
  want : v'.want = v.want
  err : v'.err = v.err

theorem SameRest.refl (v : VState) : SameRest v v := ⟨rfl, rfl, rfl⟩
theorem SameRest.trans {a b c : VState} (h1 : SameRest a b) (h2 : SameRest b c) : SameRest a c :=
  ⟨h2.col.trans h1.col, h2.want.trans h1.want, h2.err.trans h1.err⟩

/-- ids of artists never exceed the counter, and the counter never decreases: used for the
duplicate-freedom of artist ids. -/
structure IdsOk (v : VState) : Prop where
  nodupI : (v.arts.map (·.id)).Nodup

theorem idsOk_filter {v : VState} (h : IdsOk v) (p : Art → Bool) :
    IdsOk { v with arts := v.arts.filter p, slayers := v.arts.filter p } where
  nodupI := by
    have : ((v.arts.filter p).map (·.id)).Sublist (v.arts.map (·.id)) := List.Sublist.map _ List.filter_sublist
    exact this.nodup h.nodupI

theorem idsOk_addArt {v : VState} (h : IdsOk v) (hg : Good v) (L : Layer) : IdsOk (addArt L v) := by
  rw [addArt_eq L v hg.synced]
  constructor
  simp only [List.map_append, List.map_cons, List.map_nil]
  rw [List.nodup_append]
  refine ⟨h.nodupI, by simp, ?_⟩
  intro a ha b hb
  simp only [List.mem_singleton] at hb
  subst hb
  obtain ⟨x, hx, hxl⟩ := List.mem_map.1 ha
  have := hg.idsLt x hx
  omega

/-- Everything a handler `f` guarantees, given what it does to layer membership. -/
structure Eff (v v' : VState) (mem : Layer → Bool) : Prop where
  good : Good v'
  ids : IdsOk v'
  rest : SameRest v v'
  layers : ∀ L, hasLayer v'.arts L = mem L

theorem eff_addSubsetH {v : VState} (hg : Good v) (hi : IdsOk v) (s : Sub) :
    Eff v (addSubsetH s v) (fun L => hasLayer v.arts L || L == .sub s) := by
  unfold addSubsetH
  by_cases hh : hasLayer v.arts (.sub s) = true
  · simp only [hh, if_true]
    refine ⟨hg, hi, SameRest.refl v, ?_⟩
    intro L
    by_cases hL : L = .sub s
    · subst hL; simp [hh]
    · simp [hL]
  · have hf : hasLayer v.arts (.sub s) = false := by simpa using hh
    simp only [hf]
    refine ⟨good_addArt hg hf, idsOk_addArt hi hg _, ?_, ?_⟩
    · rw [addArt_eq _ v hg.synced]; exact ⟨rfl, rfl, rfl⟩
    · intro L
      rw [addArt_eq _ v hg.synced]
      show hasLayer (v.arts ++ [⟨v.nArt, .sub s⟩]) L = (hasLayer v.arts L || L == .sub s)
      rw [hasLayer_append]
      congr 1
      by_cases hL : L = .sub s
      · subst hL; simp [hasLayer]
      · have h1 : (Layer.sub s == L) = false := beq_eq_false_iff_ne.2 (fun e => hL e.symm)
        have h2 : (L == Layer.sub s) = false := beq_eq_false_iff_ne.2 hL
        simp [hasLayer, h1, h2]

theorem eff_popLayer {v : VState} (hg : Good v) (hi : IdsOk v) (L0 : Layer) :
    Eff v (popLayer L0 v) (fun L => hasLayer v.arts L && !(L == L0)) := by
  rw [popLayer_eq _ v hg.synced]
  refine ⟨good_filter hg _, idsOk_filter hi _, ⟨rfl, rfl, rfl⟩, ?_⟩
  intro L
  exact hasLayer_filter v.arts (fun l => !(l == L0)) L

theorem eff_popState {v : VState} (hg : Good v) (hi : IdsOk v) (L0 : Layer) :
    Eff v (popState L0 v) (fun L => hasLayer v.arts L && !(L == L0)) := by
  rw [popState_eq _ v hg.synced hg.nodupL]
  refine ⟨good_filter hg _, idsOk_filter hi _, ⟨rfl, rfl, rfl⟩, ?_⟩
  intro L
  exact hasLayer_filter v.arts (fun l => !(l == L0)) L

theorem eff_removeDataH {v : VState} (hg : Good v) (hi : IdsOk v) (d : Nat) :
    Eff v (C18Viewer.removeDataH d v) (fun L => hasLayer v.arts L && !L.ofData d) := by
  rw [removeDataH_eq _ v hg.synced]
  refine ⟨good_filter hg _, idsOk_filter hi _, ⟨rfl, rfl, rfl⟩, ?_⟩
  intro L
  exact hasLayer_filter v.arts (fun l => !l.ofData d) L

theorem eff_onDelete {v : VState} (hg : Good v) (hi : IdsOk v) (s : Sub) :
    Eff v (onDelete v s) (fun L => hasLayer v.arts L && !(L == .sub s)) := by
  unfold onDelete
  by_cases hh : hasLayer v.arts (.sub s) = true
  · simp only [hh, if_true]; exact eff_popLayer hg hi _
  · have hf : hasLayer v.arts (.sub s) = false := by simpa using hh
    simp only [hf]
    refine ⟨hg, hi, SameRest.refl v, ?_⟩
    intro L
    by_cases hL : L = .sub s
    · subst hL; simp [hf]
    · simp [hL]

theorem eff_onCreate {v : VState} (hg : Good v) (hi : IdsOk v) (s : Sub) :
    Eff v (onCreate v s) (fun L => hasLayer v.arts L ||
      (L == .sub s && (match s.data with | some d => hasLayer v.arts (.data d) | none => false))) := by
  unfold onCreate
  cases hs : s.data with
  | none =>
    refine ⟨hg, hi, SameRest.refl v, ?_⟩
    intro L; simp
  | some d =>
    simp only []
    by_cases hd : hasLayer v.arts (.data d) = true
    · simp only [hd, if_true, Bool.and_true]
      exact eff_addSubsetH hg hi s
    · have hf : hasLayer v.arts (.data d) = false := by simpa using hd
      simp only [hf]
      refine ⟨hg, hi, SameRest.refl v, ?_⟩
      intro L; simp

/-! ### folds -/

theorem eff_foldl_addSubsetH (subs : List Sub) : ∀ {v : VState}, Good v → IdsOk v →
    Eff v (subs.foldl (fun v s => addSubsetH s v) v) (fun L => hasLayer v.arts L || subs.any (fun s => L == .sub s)) := by
  induction subs with
  | nil => intro v hg hi; exact ⟨hg, hi, SameRest.refl v, by intro L; simp⟩
  | cons s ss ih =>
    intro v hg hi
    have e1 := eff_addSubsetH hg hi s
    have e2 := ih e1.good e1.ids
    simp only [List.foldl_cons]
    refine ⟨e2.good, e2.ids, e1.rest.trans e2.rest, ?_⟩
    intro L
    rw [e2.layers L, e1.layers L]
    simp [Bool.or_assoc]

theorem eff_foldl_onDataDelete (ds : List Nat) : ∀ {v : VState}, Good v → IdsOk v →
    Eff v (ds.foldl onDataDelete v) (fun L => hasLayer v.arts L && ds.all (fun d => !L.ofData d)) := by
  induction ds with
  | nil => intro v hg hi; exact ⟨hg, hi, SameRest.refl v, by intro L; simp⟩
  | cons d ds ih =>
    intro v hg hi
    have e1 : Eff v (onDataDelete v d) _ := eff_removeDataH hg hi d
    have e2 := ih e1.good e1.ids
    simp only [List.foldl_cons]
    refine ⟨e2.good, e2.ids, e1.rest.trans e2.rest, ?_⟩
    intro L
    rw [e2.layers L, e1.layers L]
    simp [Bool.and_assoc]

theorem eff_foldl_onDelete (ss : List Sub) : ∀ {v : VState}, Good v → IdsOk v →
    Eff v (ss.foldl onDelete v) (fun L => hasLayer v.arts L && ss.all (fun s => !(L == .sub s))) := by
  induction ss with
  | nil => intro v hg hi; exact ⟨hg, hi, SameRest.refl v, by intro L; simp⟩
  | cons s ss ih =>
    intro v hg hi
    have e1 := eff_onDelete hg hi s
    have e2 := ih e1.good e1.ids
    simp only [List.foldl_cons]
    refine ⟨e2.good, e2.ids, e1.rest.trans e2.rest, ?_⟩
    intro L
    rw [e2.layers L, e1.layers L]
    simp [Bool.and_assoc]

/-- data layers are untouched by `onCreate`, so the filter of every later `SubsetCreateMessage`
can be evaluated on the state before the fold. -/
theorem eff_foldl_onCreate (ss : List Sub) : ∀ {v : VState}, Good v → IdsOk v →
    Eff v (ss.foldl onCreate v) (fun L => hasLayer v.arts L ||
      ss.any (fun s => L == .sub s && (match s.data with | some d => hasLayer v.arts (.data d) | none => false))) := by
  induction ss with
  | nil => intro v hg hi; exact ⟨hg, hi, SameRest.refl v, by intro L; simp⟩
  | cons s ss ih =>
    intro v hg hi
    have e1 := eff_onCreate hg hi s
    have e2 := ih e1.good e1.ids
    simp only [List.foldl_cons]
    refine ⟨e2.good, e2.ids, e1.rest.trans e2.rest, ?_⟩
    intro L
    rw [e2.layers L, e1.layers L]
    have hdata : ∀ d, hasLayer (onCreate v s).arts (.data d) = hasLayer v.arts (.data d) := by
      intro d; rw [e1.layers]; simp
    have : (ss.any fun s' => L == .sub s' &&
        (match s'.data with | some d => hasLayer (onCreate v s).arts (.data d) | none => false)) =
        (ss.any fun s' => L == .sub s' &&
        (match s'.data with | some d => hasLayer v.arts (.data d) | none => false)) := by
      congr 1; funext s'
      cases s'.data with
      | none => rfl
      | some d => simp only [hdata]
    rw [this]
    simp [Bool.or_assoc]

end GlueVerif.Lemmas.C18Viewer
