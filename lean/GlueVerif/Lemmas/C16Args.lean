import GlueVerif.Model.C16Args
import GlueVerif.Lemmas.C16Cache
/-!
# C16 round 3 — cache soundness with argument object identity

1. `frbK_step`: the step lemma of `Lemmas/C16Cache.lean` for arbitrary key constructors that are at
   least as specific as `bounds_for_cache` (`KeySound`).
2. `forget`: every reference of the object-level caches resolved through the heap gives value-level
   caches; one call of `frbA` is simulated by `frbK` on the resolved caches (`frbA_forget`).
3. An operation that does not write to a shared cell leaves the resolved caches unchanged; induction
   over histories (`runArgs_sound`); caches that own everything they hold never share
   (`unshared_of_owned`).
-/
namespace GlueVerif.Lemmas.C16
open GlueVerif.FRB GlueVerif.FRB.Impl GlueVerif.FRB.Args

/-! ## 1. key constructors as parameters -/

/-- The key matches at most what the `bounds_for_cache` key matches. -/
def KeySound (k : List Bound → List Nat → List KB) : Prop :=
  ∀ bs dims bs', matchesAll (k bs dims) bs' = true → matchesAll (boundsForCache bs dims) bs' = true

theorem keySound_coded : KeySound boundsForCache := fun _ _ _ h => h

theorem matchesAll_lit : ∀ (bs bs' : List Bound), matchesAll (bs.map KB.lit) bs' = true → bs' = bs
  | [], [], _ => rfl
  | [], _ :: _, h => by simp [matchesAll] at h
  | _ :: _, [], h => by simp [matchesAll] at h
  | b :: bs, b' :: bs', h => by
    simp only [List.map_cons, matchesAll, KB.matches, Bool.and_eq_true, decide_eq_true_eq] at h
    rw [h.1, matchesAll_lit bs bs' h.2]

theorem matchesAll_self (dims : List Nat) (bs : List Bound) :
    matchesAll (boundsForCache bs dims) bs = true :=
  brel_matches dims 0 bs bs (BRel.refl _ _ (freeMaskFrom_length _ _ _))

/-- Storing the bounds themselves (no wildcard) is sound as a key. -/
theorem keySound_ite (f : List KB → Bool) :
    KeySound fun bs dims => if f (boundsForCache bs dims) then bs.map KB.lit else boundsForCache bs dims := by
  intro bs dims bs' h
  dsimp only at h
  split at h
  · rw [matchesAll_lit bs bs' h]; exact matchesAll_self dims bs
  · exact h

theorem pixelStoreK_ok {pk : List Bound → List Nat → List KB} (hk : KeySound pk) {w : World} (hw : w.wf)
    {r : Req} {pc : Option PixelCache} (hpc : PcOk w r pc)
    {ipix : Nat} {ax : AxisT} (h : computeAxis w r.target r.data ipix r.bounds = .ok ax) :
    PcOk w r (some (pixelStoreK pk pc r ipix ax)) := by
  intro p hp
  cases hp
  unfold pixelStoreK
  cases pc with
  | none =>
    refine ⟨rfl, rfl, ?_⟩
    intro j kbs ax' he bs hm
    simp only [upd] at he
    split at he
    · rename_i hj
      cases he
      subst hj
      exact computeAxis_of_matches hw h (hk _ _ _ hm)
    · cases he
  | some p0 =>
    obtain ⟨hd, ht, hinv⟩ := hpc p0 rfl
    refine ⟨hd, ht, ?_⟩
    intro j kbs ax' he bs hm
    simp only [upd] at he
    split at he
    · rename_i hj
      cases he
      subst hj
      show computeAxis w p0.target p0.data j bs = .ok ax
      rw [hd, ht]
      exact computeAxis_of_matches hw h (hk _ _ _ hm)
    · exact hinv j kbs ax' he bs hm

theorem axesCachedK_sound {pk : List Bound → List Nat → List KB} (hk : KeySound pk) {w : World} (hw : w.wf)
    (r : Req) : ∀ (ks : List Nat) (pc : Option PixelCache),
    PcOk w r pc → (axesCachedK pk w r ks pc).1 = axesPlain w r ks ∧ PcOk w r (axesCachedK pk w r ks pc).2
  | [], pc, hpc => ⟨rfl, hpc⟩
  | k :: ks, pc, hpc => by
    simp only [axesCachedK, axesPlain]
    cases hhit : pixelHit pc k r.bounds with
    | some ax =>
      simp only
      have hc := pixelHit_sound hpc hhit
      have ih := axesCachedK_sound hk hw r ks pc hpc
      rw [hc]
      rcases hrec : axesCachedK pk w r ks pc with ⟨res, pc'⟩
      rw [hrec] at ih
      simp only at ih ⊢
      rw [← ih.1]
      cases res with
      | error e => exact ⟨rfl, ih.2⟩
      | ok axs => exact ⟨rfl, ih.2⟩
    | none =>
      simp only
      cases hc : computeAxis w r.target r.data k r.bounds with
      | error e => exact ⟨rfl, hpc⟩
      | ok ax =>
        simp only
        have hpc' := pixelStoreK_ok hk hw hpc hc
        have ih := axesCachedK_sound hk hw r ks _ hpc'
        rcases hrec : axesCachedK pk w r ks (some (pixelStoreK pk pc r k ax)) with ⟨res, pc'⟩
        rw [hrec] at ih
        simp only at ih ⊢
        rw [← ih.1]
        cases res with
        | error e => exact ⟨rfl, ih.2⟩
        | ok axs => exact ⟨rfl, ih.2⟩

theorem stored_entry_soundK {ak : List Bound → List Nat → List KB} (hk : KeySound ak) {w : World} (hw : w.wf)
    {r : Req} {axes : List AxisT} {a : Arr}
    (hax : axesPlain w r (List.range (w.ndim r.data)) = .ok axes) (hres : frbUncached w r = .ok a)
    (r' : Req)
    (hm : (ArrayEntry.mk r.data (ak r.bounds (dimsAllOf axes)) r.target r.what r.broadcast a).matches r' = true) :
    frbUncached w r' = .ok a := by
  apply stored_entry_sound hw hax hres r'
  simp only [ArrayEntry.matches, Bool.and_eq_true, decide_eq_true_eq] at hm ⊢
  obtain ⟨⟨⟨⟨hd, hb⟩, ht⟩, hwh⟩, hbc⟩ := hm
  exact ⟨⟨⟨⟨hd, hk _ _ _ hb⟩, ht⟩, hwh⟩, hbc⟩

/-- **One call** with arbitrary sound key constructors. -/
theorem frbK_step {ak pk : List Bound → List Nat → List KB} (hak : KeySound ak) (hpk : KeySound pk)
    {w : World} (hw : w.wf) (c : Caches) (hA : ArrayInv w c) (hP : PixelInv w c) (r : Req) :
    (frbK ak pk w c r).1 = frbUncached w r ∧ ArrayInv w (frbK ak pk w c r).2 ∧
      PixelInv w (frbK ak pk w c r).2 := by
  unfold frbK
  by_cases hv : boundsValid r.bounds = true
  case neg =>
    have hv' : (!boundsValid r.bounds) = true := by simpa using hv
    simp only [hv', if_true]
    exact ⟨by simp [frbUncached, hv'], hA, hP⟩
  have hv' : ¬ (!boundsValid r.bounds) = true := by simp [hv]
  simp only [hv', if_false]
  cases hcid : r.cacheId with
  | none => exact ⟨rfl, hA, hP⟩
  | some id =>
    simp only
    cases hhit : arrayHit c id r with
    | some a =>
      simp only
      refine ⟨?_, hA, hP⟩
      unfold arrayHit at hhit
      split at hhit
      · rename_i e he
        split at hhit
        · rename_i hm
          cases hhit
          exact (hA id e he r hm hv).symm
        · cases hhit
      · cases hhit
    | none =>
      simp only
      have hpc0 : PcOk w r (pixelStart c id r) := by
        intro p hp
        unfold pixelStart at hp
        split at hp
        · rename_i p0 hp0
          split at hp
          · rename_i hdt
            cases hp
            exact ⟨hdt.1, hdt.2, hP id p hp0⟩
          · cases hp
        · cases hp
      have hloop := axesCachedK_sound hpk hw r (List.range (w.ndim r.data)) _ hpc0
      rcases hrec : axesCachedK pk w r (List.range (w.ndim r.data)) (pixelStart c id r) with ⟨res1, pc⟩
      rw [hrec] at hloop
      simp only at hloop
      obtain ⟨hres, hpc⟩ := hloop
      have hPix : PixelInv w ⟨c.array, upd c.pixel id pc⟩ :=
        PixelInv_upd hP id pc (fun p hp => (hpc p hp).2.2)
      cases res1 with
      | error e =>
        simp only
        refine ⟨?_, hA, hPix⟩
        simp [frbUncached, hv, ← hres]
      | ok axes =>
        simp only
        have hplain : axesPlain w r (List.range (w.ndim r.data)) = .ok axes := hres.symm
        have hun : frbUncached w r = finish w r axes := by simp [frbUncached, hv, hplain]
        cases hfin : finish w r axes with
        | error e =>
          simp only [Bool.false_eq_true, if_false]
          exact ⟨by rw [hun, hfin], hA, hPix⟩
        | ok a =>
          simp only [Bool.false_eq_true, if_false]
          refine ⟨by rw [hun, hfin], ?_, hPix⟩
          intro id' e he r' hm hv'
          simp only [upd] at he
          split at he
          · cases he
            exact stored_entry_soundK hak hw hplain (by rw [hun, hfin]) r' hm
          · exact hA id' e he r' hm hv'

/-- The code is the instance `bounds_for_cache` / `bounds_for_cache`. -/
theorem axesCachedK_coded (w : World) (r : Req) : ∀ (ks : List Nat) (pc : Option PixelCache),
    axesCachedK boundsForCache w r ks pc = axesCached w r ks pc
  | [], _ => rfl
  | k :: ks, pc => by
    simp only [axesCachedK, axesCached]
    rw [axesCachedK_coded w r ks pc]
    cases pixelHit pc k r.bounds with
    | some ax => rfl
    | none =>
      simp only
      cases computeAxis w r.target r.data k r.bounds with
      | error e => rfl
      | ok ax =>
        simp only
        have : pixelStoreK boundsForCache pc r k ax = pixelStore pc r k ax := rfl
        rw [this, axesCachedK_coded w r ks]
        rfl

theorem frbK_coded (w : World) (c : Caches) (r : Req) :
    frbK boundsForCache boundsForCache w c r = frb w c r := by
  unfold frbK frb
  simp only [axesCachedK_coded]
  rfl

/-! ## 2. resolving the references -/

def forgetEntry (L : Lists) (e : AEntry) : ArrayEntry :=
  ⟨e.data, e.key.resolve L, e.target, e.what, e.broadcast, e.array⟩

def forgetPixel (L : Lists) (p : APixel) : PixelCache :=
  ⟨p.data, p.target, fun i => (p.entries i).map fun x => (x.1.resolve L, x.2)⟩

/-- The value-level caches: what the hit tests of the next call see. -/
def forget (L : Lists) (c : ACaches) : Caches :=
  ⟨fun id => (c.array id).map (forgetEntry L), fun id => (c.pixel id).map (forgetPixel L)⟩

/-- The list the policy stores, by value. -/
def keyOf (f : List KB → Bool) : List Bound → List Nat → List KB :=
  fun bs dims => if f (boundsForCache bs dims) then bs.map KB.lit else boundsForCache bs dims

theorem asKey_resolve (L : Lists) (arg : BArg) : arg.asKey.resolve L = (arg.contents L).map KB.lit := by
  cases arg <;> rfl

theorem pixelKey_resolve (pol : Policy) (L : Lists) (arg : BArg) (dims : List Nat) :
    (pixelKey pol arg (arg.contents L) dims).resolve L = keyOf pol.pixelRef (arg.contents L) dims := by
  unfold pixelKey keyOf
  split
  · exact asKey_resolve L arg
  · rfl

theorem arrayKey_resolve (pol : Policy) (L : Lists) (arg : BArg) (dims : List Nat) :
    (arrayKey pol arg (arg.contents L) dims).resolve L = keyOf pol.arrayRef (arg.contents L) dims := by
  unfold arrayKey keyOf
  split
  · exact asKey_resolve L arg
  · rfl

theorem upd_map {α β : Type} (g : α → β) (f : Nat → Option α) (k : Nat) (v : Option α) :
    (fun i => (upd f k v i).map g) = upd (fun i => (f i).map g) k (v.map g) := by
  funext i
  simp only [upd]
  split <;> rfl

theorem arrayHitA_forget (L : Lists) (c : ACaches) (id : Nat) (r : Req) :
    (arrayHitA L c id r).map (·.array) = arrayHit (forget L c) id r := by
  unfold arrayHitA arrayHit forget
  dsimp only
  cases c.array id with
  | none => rfl
  | some e =>
    simp only [Option.map_some]
    have : (forgetEntry L e).matches r = e.matches L r := rfl
    rw [this]
    split <;> rfl

theorem pixelHitA_forget (L : Lists) (pc : Option APixel) (i : Nat) (bs : List Bound) :
    pixelHitA L pc i bs = pixelHit (pc.map (forgetPixel L)) i bs := by
  unfold pixelHitA pixelHit
  cases pc with
  | none => rfl
  | some p =>
    simp only [Option.map_some, forgetPixel]
    cases p.entries i with
    | none => rfl
    | some x => rfl

theorem pixelStartA_forget (L : Lists) (c : ACaches) (id : Nat) (r : Req) :
    (pixelStartA c id r).map (forgetPixel L) = pixelStart (forget L c) id r := by
  unfold pixelStartA pixelStart forget
  dsimp only
  cases c.pixel id with
  | none => rfl
  | some p =>
    simp only [Option.map_some]
    have h1 : (forgetPixel L p).data = p.data := rfl
    have h2 : (forgetPixel L p).target = p.target := rfl
    rw [h1, h2]
    split <;> rfl

theorem pixelStoreA_forget (pol : Policy) (L : Lists) (pc : Option APixel) (arg : BArg) (r : Req)
    (hb : r.bounds = arg.contents L) (i : Nat) (ax : AxisT) :
    forgetPixel L (pixelStoreA pol pc arg r i ax) =
      pixelStoreK (keyOf pol.pixelRef) (pc.map (forgetPixel L)) r i ax := by
  unfold pixelStoreA pixelStoreK
  have hkey : (pixelKey pol arg r.bounds ax.dims).resolve L = keyOf pol.pixelRef r.bounds ax.dims := by
    rw [hb]; exact pixelKey_resolve pol L arg ax.dims
  cases pc with
  | none =>
    simp only [Option.map_none, forgetPixel]
    congr 1
    rw [upd_map]
    simp only [Option.map_some, Option.map_none, hkey]
  | some p =>
    simp only [Option.map_some, forgetPixel]
    congr 1
    rw [upd_map]
    simp only [Option.map_some, hkey]

theorem axesCachedA_forget (pol : Policy) (w : World) (L : Lists) (arg : BArg) (r : Req)
    (hb : r.bounds = arg.contents L) : ∀ (ks : List Nat) (pc : Option APixel),
    (axesCachedA pol w L arg r ks pc).1 = (axesCachedK (keyOf pol.pixelRef) w r ks (pc.map (forgetPixel L))).1 ∧
    (axesCachedA pol w L arg r ks pc).2.map (forgetPixel L) =
      (axesCachedK (keyOf pol.pixelRef) w r ks (pc.map (forgetPixel L))).2
  | [], pc => ⟨rfl, rfl⟩
  | k :: ks, pc => by
    simp only [axesCachedA, axesCachedK]
    rw [pixelHitA_forget]
    cases pixelHit (pc.map (forgetPixel L)) k r.bounds with
    | some ax =>
      simp only
      have ih := axesCachedA_forget pol w L arg r hb ks pc
      rcases h1 : axesCachedA pol w L arg r ks pc with ⟨res, pc'⟩
      rcases h2 : axesCachedK (keyOf pol.pixelRef) w r ks (pc.map (forgetPixel L)) with ⟨res2, pc2⟩
      rw [h1, h2] at ih
      simp only at ih
      obtain ⟨ih1, ih2⟩ := ih
      subst ih1
      cases res <;> exact ⟨rfl, ih2⟩
    | none =>
      simp only
      cases computeAxis w r.target r.data k r.bounds with
      | error e => exact ⟨rfl, rfl⟩
      | ok ax =>
        simp only
        have ih := axesCachedA_forget pol w L arg r hb ks (some (pixelStoreA pol pc arg r k ax))
        rw [Option.map_some, pixelStoreA_forget pol L pc arg r hb] at ih
        rcases h1 : axesCachedA pol w L arg r ks (some (pixelStoreA pol pc arg r k ax)) with ⟨res, pc'⟩
        rcases h2 : axesCachedK (keyOf pol.pixelRef) w r ks
          (some (pixelStoreK (keyOf pol.pixelRef) (pc.map (forgetPixel L)) r k ax)) with ⟨res2, pc2⟩
        rw [h1, h2] at ih
        simp only at ih
        obtain ⟨ih1, ih2⟩ := ih
        subst ih1
        cases res <;> exact ⟨rfl, ih2⟩

theorem forget_upd_pixel (L : Lists) (c : ACaches) (id : Nat) (pc : Option APixel) :
    forget L ⟨c.array, upd c.pixel id pc⟩ =
      ⟨(forget L c).array, upd (forget L c).pixel id (pc.map (forgetPixel L))⟩ := by
  unfold forget
  simp only [upd_map]

theorem forget_upd_both (L : Lists) (c : ACaches) (id : Nat) (e : AEntry) (pc : Option APixel) :
    forget L ⟨upd c.array id (some e), upd c.pixel id pc⟩ =
      ⟨upd (forget L c).array id (some (forgetEntry L e)), upd (forget L c).pixel id (pc.map (forgetPixel L))⟩ := by
  unfold forget
  simp only [upd_map, Option.map_some]

/-- Marking a stored array as shared does not change what the hit tests see. -/
theorem forget_mark_shared (L : Lists) (c : ACaches) (id : Nat) (e : AEntry) (n : Nat)
    (he : c.array id = some e) :
    forget L ⟨upd c.array id (some { e with shared := some n }), c.pixel⟩ = forget L c := by
  unfold forget
  congr 1
  funext i
  simp only [upd]
  split
  · rename_i h; subst h; rw [he]; rfl
  · rfl

theorem arrayHitA_some {L : Lists} {c : ACaches} {id : Nat} {r : Req} {e : AEntry}
    (h : arrayHitA L c id r = some e) : c.array id = some e := by
  unfold arrayHitA at h
  split at h
  · split at h
    · cases h; assumption
    · cases h
  · cases h

/-- **Simulation.** One call on objects is one call of `frbK` on the resolved caches with the
request taken by value; the new resolved caches are `frbK`'s. -/
theorem frbA_forget (pol : Policy) (w : World) (L : Lists) (c : ACaches) (n : Nat) (ar : AReq) :
    (frbA pol w L c n ar).1 = (frbK (keyOf pol.arrayRef) (keyOf pol.pixelRef) w (forget L c) (ar.toReq L)).1 ∧
    forget L (frbA pol w L c n ar).2.1 =
      (frbK (keyOf pol.arrayRef) (keyOf pol.pixelRef) w (forget L c) (ar.toReq L)).2 := by
  unfold frbA frbK
  simp only
  split
  · exact ⟨rfl, rfl⟩
  · cases hcid : (ar.toReq L).cacheId with
    | none => exact ⟨rfl, rfl⟩
    | some id =>
      simp only
      rw [← arrayHitA_forget]
      cases hhit : arrayHitA L c id (ar.toReq L) with
      | some e =>
        simp only [Option.map_some]
        split
        · cases hsh : e.shared with
          | some b => exact ⟨rfl, rfl⟩
          | none => exact ⟨rfl, forget_mark_shared L c id e n (arrayHitA_some hhit)⟩
        · exact ⟨rfl, rfl⟩
      | none =>
        simp only [Option.map_none]
        have hsim := axesCachedA_forget pol w L ar.arg (ar.toReq L) rfl
          (List.range (w.ndim (ar.toReq L).data)) (pixelStartA c id (ar.toReq L))
        rw [pixelStartA_forget] at hsim
        rcases h1 : axesCachedA pol w L ar.arg (ar.toReq L) (List.range (w.ndim (ar.toReq L).data))
          (pixelStartA c id (ar.toReq L)) with ⟨res, pc⟩
        rcases h2 : axesCachedK (keyOf pol.pixelRef) w (ar.toReq L) (List.range (w.ndim (ar.toReq L).data))
          (pixelStart (forget L c) id (ar.toReq L)) with ⟨res2, pc2⟩
        rw [h1, h2] at hsim
        simp only at hsim
        obtain ⟨hs1, hs2⟩ := hsim
        subst hs1
        subst hs2
        cases res with
        | error e => exact ⟨rfl, forget_upd_pixel L c id pc⟩
        | ok axes =>
          simp only
          cases finish w (ar.toReq L) axes with
          | error e => exact ⟨rfl, forget_upd_pixel L c id pc⟩
          | ok a =>
            refine ⟨rfl, ?_⟩
            simp only
            rw [forget_upd_both]
            simp only [forgetEntry]
            have : (arrayKey pol ar.arg (ar.toReq L).bounds (dimsAllOf axes)).resolve L =
                keyOf pol.arrayRef (ar.toReq L).bounds (dimsAllOf axes) :=
              arrayKey_resolve pol L ar.arg (dimsAllOf axes)
            rw [this]

/-! ## 3. histories -/

/-- The invariant of `Lemmas/C16Cache.lean` on the caches as the next call sees them. -/
def AInv (st : AState) : Prop :=
  ArrayInv st.world (forget st.lists st.caches) ∧ PixelInv st.world (forget st.lists st.caches)

theorem resolve_updList {L : Lists} {oid : Nat} {bs : List Bound} {k : KeyRef} (h : k ≠ .ref oid) :
    k.resolve (updList L oid bs) = k.resolve L := by
  cases k with
  | own kbs => rfl
  | ref o =>
    have : o ≠ oid := fun e => h (by rw [e])
    simp [KeyRef.resolve, updList, this]

/-- Writing to a list no stored key refers to does not change what the hit tests see. -/
theorem forget_updList (L : Lists) (c : ACaches) (oid : Nat) (bs : List Bound) (h : ¬ c.refsList oid) :
    forget (updList L oid bs) c = forget L c := by
  unfold forget
  congr 1
  · funext id
    cases he : c.array id with
    | none => rfl
    | some e =>
      simp only [Option.map_some, forgetEntry]
      have : e.key ≠ .ref oid := fun hk => h (Or.inl ⟨id, e, he, hk⟩)
      rw [resolve_updList this]
  · funext id
    cases hp : c.pixel id with
    | none => rfl
    | some p =>
      simp only [Option.map_some, forgetPixel]
      congr 2
      funext i
      cases hx : p.entries i with
      | none => rfl
      | some x =>
        obtain ⟨k, ax⟩ := x
        simp only [Option.map_some]
        have : k ≠ .ref oid := fun hk => h (Or.inr ⟨id, p, i, ax, hp, by rw [hx, hk]⟩)
        rw [resolve_updList this]

/-- Editing a buffer no stored array shares does not change the caches. -/
theorem forget_editBuf (L : Lists) (c : ACaches) (b : Nat) (v : Int) (h : ¬ c.sharesBuf b) :
    forget L (editBufCaches b v c) = forget L c := by
  unfold forget editBufCaches
  dsimp only
  congr 1
  funext id
  cases he : c.array id with
  | none => rfl
  | some e =>
    have : e.shared ≠ some b := fun hs => h ⟨id, e, he, hs⟩
    simp only [Option.map_some, if_neg this]

theorem stepA_world (pol : Policy) (cached : Bool) (st : AState) (op : AOp) (h : op.isArgOp = true) :
    (stepA pol cached st op).2.world = st.world := by
  cases op <;> simp only [stepA, AState.editList] <;> try rfl
  · split <;> rfl
  · split <;> rfl
  · simp [AOp.isArgOp] at h
  · simp [AOp.isArgOp] at h

theorem stepA_lists (pol : Policy) (st st' : AState) (op : AOp) (h : st.lists = st'.lists) :
    (stepA pol true st op).2.lists = (stepA pol false st' op).2.lists := by
  cases op with
  | req r => simp [stepA, h]
  | assign oid bs => simp [stepA, AState.editList, h]
  | set oid i b => simp [stepA, AState.editList, h]
  | push oid b => simp [stepA, AState.editList, h]
  | pop oid => simp [stepA, AState.editList, h]
  | editBuf k v =>
    simp only [stepA]
    cases st.rets.getD k none <;> cases st'.rets.getD k none <;> exact h
  | editState sid e => exact h
  | setComp ds c vals => exact h

/-- One operation preserves the invariant if it does not write to a shared cell; a request is
answered like the call without a cache id on the current contents of its arguments. -/
theorem stepA_sound (pol : Policy) (st : AState) (hw : st.world.wf) (hinv : AInv st) (op : AOp)
    (hop : op.isArgOp = true) (hns : ¬ Shares st op) :
    AInv (stepA pol true st op).2 ∧
    ∀ r, op = .req r → (stepA pol true st op).1 = some (frbUncached st.world (r.toReq st.lists)) := by
  cases op with
  | req r =>
    simp only [stepA, if_true]
    obtain ⟨hsim1, hsim2⟩ := frbA_forget pol st.world st.lists st.caches st.rets.length r
    obtain ⟨h1, hA, hP⟩ := frbK_step (keySound_ite pol.arrayRef) (keySound_ite pol.pixelRef) hw
      (forget st.lists st.caches) hinv.1 hinv.2 (r.toReq st.lists)
    refine ⟨?_, ?_⟩
    · unfold AInv
      simp only
      rw [hsim2]
      exact ⟨hA, hP⟩
    · intro r' hr
      cases hr
      rw [hsim1]
      exact congrArg some h1
  | assign oid bs =>
    refine ⟨?_, fun r h => by cases h⟩
    have hn : ¬ st.caches.refsList oid := fun h => hns ⟨oid, rfl, h⟩
    simp only [stepA, AState.editList, AInv]
    rw [forget_updList _ _ _ _ hn]; exact hinv
  | set oid i b =>
    refine ⟨?_, fun r h => by cases h⟩
    have hn : ¬ st.caches.refsList oid := fun h => hns ⟨oid, rfl, h⟩
    simp only [stepA, AState.editList, AInv]
    rw [forget_updList _ _ _ _ hn]; exact hinv
  | push oid b =>
    refine ⟨?_, fun r h => by cases h⟩
    have hn : ¬ st.caches.refsList oid := fun h => hns ⟨oid, rfl, h⟩
    simp only [stepA, AState.editList, AInv]
    rw [forget_updList _ _ _ _ hn]; exact hinv
  | pop oid =>
    refine ⟨?_, fun r h => by cases h⟩
    have hn : ¬ st.caches.refsList oid := fun h => hns ⟨oid, rfl, h⟩
    simp only [stepA, AState.editList, AInv]
    rw [forget_updList _ _ _ _ hn]; exact hinv
  | editBuf k v =>
    refine ⟨?_, fun r h => by cases h⟩
    simp only [stepA]
    cases hb : st.rets.getD k none with
    | none => exact hinv
    | some b =>
      have hn : ¬ st.caches.sharesBuf b := fun h => hns ⟨b, hb, h⟩
      simp only [AInv]
      rw [forget_editBuf _ _ _ _ hn]; exact hinv
  | editState sid e => simp [AOp.isArgOp] at hop
  | setComp ds c vals => simp [AOp.isArgOp] at hop

/-- **Every history** of requests and in-place edits of arguments / returned buffers in which no edit
writes to a cell shared with a cache: each answer with its cache id is the answer without, for the
contents the arguments have when the request is made. -/
theorem runArgs_sound (pol : Policy) : ∀ (ops : List AOp) (st st' : AState), st.world.wf →
    st'.world = st.world → st'.lists = st.lists → (∀ op, op ∈ ops → op.isArgOp = true) →
    AInv st → Unshared pol st ops → runArgs pol true st ops = runArgs pol false st' ops
  | [], _, _, _, _, _, _, _, _ => rfl
  | op :: ops, st, st', hw, hws, hls, hops, hinv, hun => by
    have hop := hops op (by simp)
    obtain ⟨hns, hun'⟩ := hun
    obtain ⟨hinv', hans⟩ := stepA_sound pol st hw hinv op hop hns
    have hw1 := stepA_world pol true st op hop
    have hw2 := stepA_world pol false st' op hop
    have hl := stepA_lists pol st st' op hls.symm
    have ih := runArgs_sound pol ops (stepA pol true st op).2 (stepA pol false st' op).2
      (by rw [hw1]; exact hw) (by rw [hw1, hw2]; exact hws) hl.symm
      (fun o ho => hops o (by simp [ho])) hinv' hun'
    simp only [runArgs]
    cases op with
    | req r =>
      have h1 := hans r rfl
      have h2 : (stepA pol false st' (.req r)).1 = some (frbUncached st.world (r.toReq st.lists)) := by
        simp [stepA, hws, hls]
      rcases hs1 : stepA pol true st (.req r) with ⟨a1, s1⟩
      rcases hs2 : stepA pol false st' (.req r) with ⟨a2, s2⟩
      rw [hs1] at h1 ih
      rw [hs2] at h2 ih
      simp only at h1 h2 ih
      subst h1
      subst h2
      simp only
      rw [ih]
    | assign oid bs => simp only [stepA] at ih ⊢; exact ih
    | set oid i b => simp only [stepA] at ih ⊢; exact ih
    | push oid b => simp only [stepA] at ih ⊢; exact ih
    | pop oid => simp only [stepA] at ih ⊢; exact ih
    | editBuf k v =>
      rcases hs1 : stepA pol true st (.editBuf k v) with ⟨a1, s1⟩
      rcases hs2 : stepA pol false st' (.editBuf k v) with ⟨a2, s2⟩
      rw [hs1, hs2] at ih
      have e1 : a1 = none := by
        have := congrArg Prod.fst hs1; simp only [stepA] at this; split at this <;> exact this.symm
      have e2 : a2 = none := by
        have := congrArg Prod.fst hs2; simp only [stepA] at this; split at this <;> exact this.symm
      subst e1; subst e2
      exact ih
    | editState sid e => simp [AOp.isArgOp] at hop
    | setComp ds c vals => simp [AOp.isArgOp] at hop

/-! ### caches that own what they hold -/

theorem owned_empty : ACaches.empty.Owned := by
  constructor
  · intro oid h
    rcases h with ⟨id, e, he, _⟩ | ⟨id, p, i, ax, hp, _⟩
    · simp [ACaches.empty] at he
    · simp [ACaches.empty] at hp
  · intro b ⟨id, e, he, _⟩
    simp [ACaches.empty] at he

def PixOwned (pc : Option APixel) : Prop := ∀ p, pc = some p → ∀ i oid ax, p.entries i ≠ some (.ref oid, ax)

theorem pixelStoreA_owned {pol : Policy} (hpol : pol.owns) {pc : Option APixel} (h : PixOwned pc)
    (arg : BArg) (r : Req) (i : Nat) (ax : AxisT) : PixOwned (some (pixelStoreA pol pc arg r i ax)) := by
  intro p hp j oid ax' hx
  cases hp
  have hkey : pixelKey pol arg r.bounds ax.dims = .own (boundsForCache r.bounds ax.dims) := by
    simp [pixelKey, hpol.2.1]
  unfold pixelStoreA at hx
  cases pc with
  | none =>
    simp only [upd] at hx
    split at hx
    · rw [hkey] at hx; cases hx
    · cases hx
  | some p0 =>
    simp only [upd] at hx
    split at hx
    · rw [hkey] at hx; cases hx
    · exact h p0 rfl j oid ax' hx

theorem axesCachedA_owned {pol : Policy} (hpol : pol.owns) (w : World) (L : Lists) (arg : BArg) (r : Req) :
    ∀ (ks : List Nat) (pc : Option APixel), PixOwned pc → PixOwned (axesCachedA pol w L arg r ks pc).2
  | [], _, h => h
  | k :: ks, pc, h => by
    simp only [axesCachedA]
    split
    · have ih := axesCachedA_owned hpol w L arg r ks pc h
      rcases h1 : axesCachedA pol w L arg r ks pc with ⟨res, pc'⟩
      rw [h1] at ih
      cases res <;> exact ih
    · split
      · exact h
      · rename_i ax _
        have ih := axesCachedA_owned hpol w L arg r ks _ (pixelStoreA_owned hpol h arg r k ax)
        rcases h1 : axesCachedA pol w L arg r ks (some (pixelStoreA pol pc arg r k ax)) with ⟨res, pc'⟩
        rw [h1] at ih
        cases res <;> exact ih

theorem owned_upd_pixel {c : ACaches} (h : c.Owned) (id : Nat) (pc : Option APixel) (hpc : PixOwned pc) :
    ACaches.Owned ⟨c.array, upd c.pixel id pc⟩ := by
  constructor
  · intro oid hr
    rcases hr with ⟨id', e, he, hk⟩ | ⟨id', p, i, ax, hp, hx⟩
    · exact h.1 oid (Or.inl ⟨id', e, he, hk⟩)
    · simp only [upd] at hp
      split at hp
      · exact hpc p hp i oid ax hx
      · exact h.1 oid (Or.inr ⟨id', p, i, ax, hp, hx⟩)
  · intro b ⟨id', e, he, hs⟩
    exact h.2 b ⟨id', e, he, hs⟩

theorem frbA_owned {pol : Policy} (hpol : pol.owns) (w : World) (L : Lists) (c : ACaches) (h : c.Owned)
    (n : Nat) (ar : AReq) : (frbA pol w L c n ar).2.1.Owned := by
  unfold frbA
  simp only
  split
  · exact h
  · cases hcid : (ar.toReq L).cacheId with
    | none => exact h
    | some id =>
      simp only
      cases hhit : arrayHitA L c id (ar.toReq L) with
      | some e => simp only [hpol.2.2.2, Bool.false_eq_true, if_false]; exact h
      | none =>
        simp only
        have hps : PixOwned (pixelStartA c id (ar.toReq L)) := by
          intro p hp i oid ax hx
          unfold pixelStartA at hp
          split at hp
          · rename_i p0 hp0
            split at hp
            · cases hp; exact h.1 oid (Or.inr ⟨id, p, i, ax, hp0, hx⟩)
            · cases hp
          · cases hp
        have hloop := axesCachedA_owned hpol w L ar.arg (ar.toReq L)
          (List.range (w.ndim (ar.toReq L).data)) _ hps
        rcases h1 : axesCachedA pol w L ar.arg (ar.toReq L) (List.range (w.ndim (ar.toReq L).data))
          (pixelStartA c id (ar.toReq L)) with ⟨res, pc⟩
        rw [h1] at hloop
        cases res with
        | error e => exact owned_upd_pixel h id pc hloop
        | ok axes =>
          simp only
          cases finish w (ar.toReq L) axes with
          | error e => exact owned_upd_pixel h id pc hloop
          | ok a =>
            simp only
            have hp := owned_upd_pixel h id pc hloop
            constructor
            · intro oid hr
              rcases hr with ⟨id', e, he, hk⟩ | hr
              · simp only [upd] at he
                split at he
                · cases he
                  simp [arrayKey, hpol.1] at hk
                · exact h.1 oid (Or.inl ⟨id', e, he, hk⟩)
              · exact hp.1 oid (Or.inr hr)
            · intro b ⟨id', e, he, hs⟩
              simp only [upd] at he
              split at he
              · cases he
                simp [hpol.2.2.1] at hs
              · exact h.2 b ⟨id', e, he, hs⟩

theorem editBuf_owned {c : ACaches} (h : c.Owned) (b : Nat) (v : Int) : (editBufCaches b v c).Owned := by
  constructor
  · intro oid hr
    rcases hr with ⟨id, e, he, hk⟩ | ⟨id, p, i, ax, hp, hx⟩
    · simp only [editBufCaches] at he
      cases h0 : c.array id with
      | none => rw [h0] at he; cases he
      | some e0 =>
        rw [h0] at he
        simp only [Option.map_some, Option.some.injEq] at he
        apply h.1 oid (Or.inl ⟨id, e0, h0, ?_⟩)
        rw [← he] at hk
        split at hk <;> exact hk
    · exact h.1 oid (Or.inr ⟨id, p, i, ax, hp, hx⟩)
  · intro b' ⟨id, e, he, hs⟩
    simp only [editBufCaches] at he
    cases h0 : c.array id with
    | none => rw [h0] at he; cases he
    | some e0 =>
      rw [h0] at he
      simp only [Option.map_some, Option.some.injEq] at he
      apply h.2 b' ⟨id, e0, h0, ?_⟩
      rw [← he] at hs
      split at hs <;> exact hs

theorem not_shares_of_owned {st : AState} (h : st.caches.Owned) (op : AOp) : ¬ Shares st op := by
  intro hs
  cases op with
  | editBuf k v => obtain ⟨b, _, hb⟩ := hs; exact h.2 b hb
  | req r => obtain ⟨oid, hw, _⟩ := hs; cases hw
  | assign oid bs => obtain ⟨o, _, hr⟩ := hs; exact h.1 o hr
  | set oid i b => obtain ⟨o, _, hr⟩ := hs; exact h.1 o hr
  | push oid b => obtain ⟨o, _, hr⟩ := hs; exact h.1 o hr
  | pop oid => obtain ⟨o, _, hr⟩ := hs; exact h.1 o hr
  | editState sid e => obtain ⟨o, hw, _⟩ := hs; cases hw
  | setComp ds c vals => obtain ⟨o, hw, _⟩ := hs; cases hw

theorem stepA_owned {pol : Policy} (hpol : pol.owns) (st : AState) (h : st.caches.Owned) (op : AOp) :
    (stepA pol true st op).2.caches.Owned := by
  cases op <;> simp only [stepA, AState.editList, if_true] <;> try exact h
  · exact frbA_owned hpol _ _ _ h _ _
  · split
    · exact editBuf_owned h _ _
    · exact h

/-- A policy that stores fresh lists and private copies never lets a history write to a shared
cell. -/
theorem unshared_of_owned {pol : Policy} (hpol : pol.owns) : ∀ (ops : List AOp) (st : AState),
    st.caches.Owned → Unshared pol st ops
  | [], _, _ => trivial
  | op :: ops, st, h =>
    ⟨not_shares_of_owned h op, unshared_of_owned hpol ops _ (stepA_owned hpol st h op)⟩

theorem ainv_init (w : World) (L : Lists) : AInv (AState.init w L) := by
  constructor
  · intro id e he; simp [AState.init, forget, ACaches.empty] at he
  · intro id p hp; simp [AState.init, forget, ACaches.empty] at hp

/-! ### fresh lists per call: the value-level model -/

/-- The value-level history behind a history whose requests all pass per-call lists. -/
def freshOps : List Req → List AOp := List.map fun r => .req ⟨r.data, .fresh r.bounds, r.target, r.what, r.broadcast, r.cacheId⟩

theorem forget_coded_step (w : World) (L : Lists) (c : ACaches) (n : Nat) (ar : AReq) :
    (frbA Policy.coded w L c n ar).1 = (frb w (forget L c) (ar.toReq L)).1 ∧
    forget L (frbA Policy.coded w L c n ar).2.1 = (frb w (forget L c) (ar.toReq L)).2 := by
  have h := frbA_forget Policy.coded w L c n ar
  have hk : keyOf Policy.coded.arrayRef = boundsForCache := by
    funext bs dims; simp [keyOf, Policy.coded]
  have hk' : keyOf Policy.coded.pixelRef = boundsForCache := by
    funext bs dims; simp [keyOf, Policy.coded]
  rw [hk, hk', frbK_coded] at h
  exact h

/-- With a new list for every call (what the round-1/2 harness did, and what
`get_sliced_data` does) the object-level model of the code is the value-level `runOps true`. -/
theorem runArgs_fresh (w : World) : ∀ (rs : List Req) (st : AState), st.world = w →
    runArgs Policy.coded true st (freshOps rs) =
      runOps true w (forget st.lists st.caches) (rs.map Op.req)
  | [], _, _ => rfl
  | r :: rs, st, hw => by
    have hs := forget_coded_step st.world st.lists st.caches st.rets.length
      ⟨r.data, .fresh r.bounds, r.target, r.what, r.broadcast, r.cacheId⟩
    have hreq : (AReq.toReq st.lists ⟨r.data, .fresh r.bounds, r.target, r.what, r.broadcast, r.cacheId⟩) = r := rfl
    rw [hreq, hw] at hs
    show runArgs Policy.coded true st
      (.req ⟨r.data, .fresh r.bounds, r.target, r.what, r.broadcast, r.cacheId⟩ :: freshOps rs) = _
    simp only [runArgs, stepA, if_true, List.map_cons, runOps]
    subst hw
    rw [hs.1, ← hs.2]
    congr 1
    exact runArgs_fresh st.world rs _ rfl

end GlueVerif.Lemmas.C16
