import GlueVerif.Model.Versioned
/-!
Helper lemmas for C12, part 2: the `VersionedDict` state machine.  The invariant, its preservation
by every operation, and the step-wise refinement `Impl ⊑ Spec` under the abstraction
"forget the version keys".  Core Lean only.
-/
namespace GlueVerif.Versioned.Lemmas
open GlueVerif.Versioned

/-- the version keys of an inner dict are `s, s+1, s+2, …` in insertion order -/
def keysFrom : Int → Versions → Prop
  | _, [] => True
  | s, (a, _) :: r => a = s ∧ keysFrom (s + 1) r

/-- **The invariant**: every stored item has a non-empty inner dict whose keys are `1, 2, …, n`. -/
def Inv (d : VDict) : Prop := ∀ k vs, dget d k = some vs → vs ≠ [] ∧ keysFrom 1 vs

/-- abstraction: forget the version keys -/
def abs (d : VDict) : Spec.State := d.map fun p => (p.1, p.2.map Prod.snd)

/-! ## inner dict facts -/

theorem keysFrom_getElem : ∀ (s : Int) (vs : Versions), keysFrom s vs →
    ∀ (i : Nat) (h : i < vs.length), (vs[i]'h).1 = s + i := by
  intro s vs
  induction vs generalizing s with
  | nil => intro _ i h; cases h
  | cons p r ih =>
    obtain ⟨a, b⟩ := p
    intro hk i h
    cases i with
    | zero => simp [hk.1]
    | succ i =>
      have := ih (s + 1) hk.2 i (by simpa using h)
      simp only [List.getElem_cons_succ, this]
      omega

theorem getElem_keysFrom : ∀ (s : Int) (vs : Versions),
    (∀ (i : Nat) (h : i < vs.length), (vs[i]'h).1 = s + i) → keysFrom s vs := by
  intro s vs
  induction vs generalizing s with
  | nil => intro _; trivial
  | cons p r ih =>
    obtain ⟨a, b⟩ := p
    intro h
    refine ⟨by simpa using h 0 (Nat.zero_lt_succ _), ih (s + 1) ?_⟩
    intro i hi
    have := h (i + 1) (by simpa using hi)
    simp only [List.getElem_cons_succ] at this
    rw [this]
    omega

theorem vget_keysFrom : ∀ (s : Int) (vs : Versions) (v : Int), keysFrom s vs →
    vget vs v = Spec.valueFrom s (vs.map Prod.snd) v := by
  intro s vs
  induction vs generalizing s with
  | nil => intro v _; rfl
  | cons p r ih =>
    obtain ⟨a, b⟩ := p
    intro v hk
    simp only [vget, List.map_cons, Spec.valueFrom, hk.1]
    split
    · rfl
    · exact ih (s + 1) v hk.2

theorem vget_isSome_iff : ∀ (s : Int) (vs : Versions) (v : Int), keysFrom s vs →
    ((vget vs v).isSome = true ↔ s ≤ v ∧ v < s + vs.length) := by
  intro s vs
  induction vs generalizing s with
  | nil => intro v _; simp [vget]
  | cons p r ih =>
    obtain ⟨a, b⟩ := p
    intro v hk
    simp only [vget, hk.1, List.length_cons]
    split
    · rename_i h
      simp only [Option.isSome_some, true_iff]
      omega
    · rename_i h
      rw [ih (s + 1) v hk.2]
      push_cast
      omega

theorem vmax_keysFrom : ∀ (s : Int) (vs : Versions), keysFrom s vs → vs ≠ [] →
    vmax vs = some (s + vs.length - 1) := by
  intro s vs
  induction vs generalizing s with
  | nil => intro _ h; exact absurd rfl h
  | cons p r ih =>
    obtain ⟨a, b⟩ := p
    intro hk _
    cases r with
    | nil => simp [vmax, hk.1]
    | cons q r' =>
      have := ih (s + 1) hk.2 (by simp)
      simp only [vmax] at this ⊢
      rw [this]
      simp only [hk.1, List.length_cons]
      split
      · congr 1; push_cast; omega
      · rename_i hlt
        exfalso; apply hlt; push_cast; omega

theorem vget_last : ∀ (s : Int) (vs : Versions), keysFrom s vs → vs ≠ [] →
    vget vs (s + vs.length - 1) = (vs.map Prod.snd).getLast? := by
  intro s vs
  induction vs generalizing s with
  | nil => intro _ h; exact absurd rfl h
  | cons p r ih =>
    obtain ⟨a, b⟩ := p
    intro hk _
    cases r with
    | nil => simp [vget, hk.1]
    | cons q r' =>
      have := ih (s + 1) hk.2 (by simp)
      simp only [vget, hk.1, List.length_cons, List.map_cons] at this ⊢
      have hne : ¬ s = s + ((r'.length + 1 : Nat) + 1 : Nat) - 1 := by push_cast; omega
      rw [if_neg hne]
      rw [List.getLast?_cons_cons]
      rw [← this]
      have e : s + ((r'.length + 1 : Nat) + 1 : Nat) - 1 = s + 1 + ((r'.length + 1 : Nat)) - 1 := by
        push_cast; omega
      rw [e]

theorem keysFrom_append : ∀ (s : Int) (vs : Versions) (x : Int), keysFrom s vs →
    keysFrom s (vs ++ [(s + vs.length, x)]) := by
  intro s vs
  induction vs generalizing s with
  | nil => intro x _; simp [keysFrom]
  | cons p r ih =>
    obtain ⟨a, b⟩ := p
    intro x hk
    refine ⟨hk.1, ?_⟩
    have := ih (s + 1) x hk.2
    have e : s + ((r.length + 1 : Nat)) = s + 1 + r.length := by push_cast; omega
    simp only [List.length_cons, e]
    exact this

theorem vget_append_of_some : ∀ (vs : Versions) (v x : Int) (e : Int × Int),
    vget vs v = some x → vget (vs ++ [e]) v = some x := by
  intro vs
  induction vs with
  | nil => intro v x e h; simp [vget] at h
  | cons p r ih =>
    obtain ⟨a, b⟩ := p
    intro v x e h
    simp only [vget, List.cons_append] at h ⊢
    split
    · rename_i hav; rw [if_pos hav] at h; exact h
    · rename_i hav; rw [if_neg hav] at h; exact ih v x e h

/-! ## outer dict facts -/

theorem dget_dput : ∀ (d : VDict) (k k' : String) (vs : Versions),
    dget (dput d k vs) k' = if k = k' then some vs else dget d k' := by
  intro d
  induction d with
  | nil => intro k k' vs; simp [dput, dget]
  | cons p r ih =>
    obtain ⟨a, b⟩ := p
    intro k k' vs
    simp only [dput]
    split
    · rename_i hak
      subst hak
      simp only [dget]
      split <;> rfl
    · rename_i hak
      simp only [dget]
      split
      · rename_i hak'
        subst hak'
        rw [if_neg (fun h => hak h.symm)]
      · exact ih k k' vs

theorem sget_abs : ∀ (d : VDict) (k : String),
    Spec.sget (abs d) k = (dget d k).map (·.map Prod.snd) := by
  intro d
  induction d with
  | nil => intro k; rfl
  | cons p r ih =>
    obtain ⟨a, b⟩ := p
    intro k
    simp only [abs, List.map_cons, Spec.sget, dget]
    split
    · rfl
    · exact ih k

theorem abs_dput : ∀ (d : VDict) (k : String) (vs : Versions),
    abs (dput d k vs) = Spec.sput (abs d) k (vs.map Prod.snd) := by
  intro d
  induction d with
  | nil => intro k vs; rfl
  | cons p r ih =>
    obtain ⟨a, b⟩ := p
    intro k vs
    simp only [dput, abs, List.map_cons, Spec.sput]
    split
    · rfl
    · simp only [List.map_cons, List.cons.injEq, true_and]
      exact ih k vs

theorem abs_length (d : VDict) : (abs d).length = d.length := by simp [abs]

/-! ## the invariant -/

theorem inv_nil : Inv [] := by intro k vs h; simp [dget] at h

theorem set_aux {α : Type} (vs : Versions) (hk : keysFrom 1 vs) (v : Int) (a b c : α) :
    (if v < 1 then a else
      if v > 1 ∧ (vget vs (v - 1)).isNone = true then b
      else if (vget vs v).isSome = true then b else c) =
    (if v < 1 then a else if v = (vs.length : Int) + 1 then c else b) := by
  have some_iff := fun w => vget_isSome_iff 1 vs w hk
  have none_iff : ∀ w, (vget vs w).isNone = true ↔ ¬ (1 ≤ w ∧ w < 1 + (vs.length : Int)) := by
    intro w
    rw [← some_iff w]
    cases vget vs w <;> simp
  by_cases hv : v < 1
  · rw [if_pos hv, if_pos hv]
  · rw [if_neg hv, if_neg hv]
    by_cases hn : v = (vs.length : Int) + 1
    · rw [if_pos hn]
      have h1 : ¬ (v > 1 ∧ (vget vs (v - 1)).isNone = true) := by
        intro ⟨hv1, hnone⟩
        rw [none_iff (v - 1)] at hnone
        apply hnone
        omega
      rw [if_neg h1]
      have h2 : ¬ (vget vs v).isSome = true := by
        rw [some_iff v]
        omega
      rw [if_neg h2]
    · rw [if_neg hn]
      by_cases h1 : v > 1 ∧ (vget vs (v - 1)).isNone = true
      · rw [if_pos h1]
      · rw [if_neg h1]
        have h2 : (vget vs v).isSome = true := by
          rw [some_iff v]
          by_cases hv1 : v > 1
          · have : ¬ (vget vs (v - 1)).isNone = true := fun h => h1 ⟨hv1, h⟩
            rw [none_iff (v - 1)] at this
            omega
          · omega
        rw [if_pos h2]

theorem keysFrom_getD (d : VDict) (hinv : Inv d) (k : String) : keysFrom 1 ((dget d k).getD []) := by
  cases h : dget d k with
  | none => simp [keysFrom]
  | some vs => simpa using (hinv k vs h).2

/-- `Impl.set` on a state satisfying the invariant: succeeds exactly for version `n + 1`. -/
theorem set_eq (d : VDict) (hinv : Inv d) (k : String) (v val : Int) :
    Impl.set d k (some v) val =
      if v < 1 then (d, .valueError)
      else if v = (((dget d k).getD []).length : Int) + 1 then
        (dput d k (((dget d k).getD []) ++ [(v, val)]), .done)
      else (d, .keyError) := by
  unfold Impl.set
  exact set_aux _ (keysFrom_getD d hinv k) v _ _ _

/-- what `Impl.set` does on a state satisfying the invariant, as a case split on the version -/
theorem set_cases (d : VDict) (hinv : Inv d) (k : String) (v val : Int) :
    (v < 1 → Impl.set d k (some v) val = (d, .valueError)) ∧
    (1 ≤ v → v ≠ (((dget d k).getD []).length : Int) + 1 → Impl.set d k (some v) val = (d, .keyError)) ∧
    (v = (((dget d k).getD []).length : Int) + 1 → Impl.set d k (some v) val =
        (dput d k (((dget d k).getD []) ++ [(v, val)]), .done)) := by
  rw [set_eq d hinv]
  refine ⟨?_, ?_, ?_⟩
  · intro hv; rw [if_pos hv]
  · intro hv hne; rw [if_neg (by omega), if_neg hne]
  · intro hv; rw [if_neg (by omega), if_pos hv]

theorem inv_set (d : VDict) (hinv : Inv d) (k : String) (ver : Option Int) (val : Int) :
    Inv (Impl.set d k ver val).1 := by
  cases ver with
  | none => exact hinv
  | some v =>
    obtain ⟨c1, c2, c3⟩ := set_cases d hinv k v val
    by_cases hv : v < 1
    · rw [c1 hv]; exact hinv
    · by_cases hn : v = (((dget d k).getD []).length : Int) + 1
      · rw [c3 hn]
        intro k' vs' h
        simp only [dget_dput] at h
        split at h
        · cases h
          refine ⟨by simp, ?_⟩
          have hk := keysFrom_getD d hinv k
          have := keysFrom_append 1 _ val hk
          have e : v = 1 + (((dget d k).getD []).length : Int) := by omega
          rw [e]
          exact this
        · exact hinv k' vs' h
      · rw [c2 (by omega) hn]; exact hinv

theorem inv_step (d : VDict) (hinv : Inv d) (op : Op) : Inv (Impl.step d op).1 := by
  cases op with
  | set k ver val => exact inv_set d hinv k ver val
  | _ => exact hinv

theorem foldl_inv (ops : List Op) : ∀ d, Inv d → Inv (ops.foldl (fun d o => (Impl.step d o).1) d) := by
  induction ops with
  | nil => intro d h; exact h
  | cons o r ih => intro d h; exact ih _ (inv_step d h o)

theorem inv_run (ops : List Op) : Inv (Impl.run ops) := foldl_inv ops [] inv_nil

/-! ## refinement -/

theorem count_abs (d : VDict) (k : String) :
    Spec.count (abs d) k = ((dget d k).getD []).length := by
  simp only [Spec.count, sget_abs]
  cases dget d k <;> simp

theorem set_refines (d : VDict) (hinv : Inv d) (k : String) (ver : Option Int) (val : Int) :
    (Impl.set d k ver val).2 = (Spec.set (abs d) k ver val).2 ∧
    abs (Impl.set d k ver val).1 = (Spec.set (abs d) k ver val).1 := by
  cases ver with
  | none => exact ⟨rfl, rfl⟩
  | some v =>
    obtain ⟨c1, c2, c3⟩ := set_cases d hinv k v val
    simp only [Spec.set]
    by_cases hv : v < 1
    · rw [c1 hv, if_pos hv]; exact ⟨rfl, rfl⟩
    · rw [if_neg hv, count_abs]
      by_cases hn : v = (((dget d k).getD []).length : Int) + 1
      · rw [c3 hn, if_pos hn]
        refine ⟨rfl, ?_⟩
        simp only [abs_dput, sget_abs, List.map_append, List.map_cons, List.map_nil]
        cases dget d k <;> rfl
      · rw [c2 (by omega) hn, if_neg hn]; exact ⟨rfl, rfl⟩

theorem last_of_inv {vs : Versions} (hne : vs ≠ []) :
    ∃ x, (vs.map Prod.snd).getLast? = some x := by
  have : (vs.map Prod.snd) ≠ [] := by simpa using hne
  exact ⟨_, List.getLast?_eq_some_getLast this⟩

theorem getv_refines (d : VDict) (hinv : Inv d) (k : String) (ver : Option Int) :
    Impl.getv d k ver = Spec.getv (abs d) k ver := by
  simp only [Impl.getv, Spec.getv, sget_abs]
  cases h : dget d k with
  | none => rfl
  | some vs =>
    obtain ⟨hne, hk⟩ := hinv k vs h
    cases ver with
    | none =>
      simp only [Option.map_some]
      rw [vmax_keysFrom 1 vs hk hne]
      simp only
      rw [vget_last 1 vs hk hne]
      obtain ⟨x, hx⟩ := last_of_inv hne
      rw [hx]
    | some v =>
      simp only [Option.map_some, Spec.valueAt]
      rw [vget_keysFrom 1 vs v hk]

theorem getitem_refines (d : VDict) (hinv : Inv d) (k : String) :
    Impl.getitem d k = Spec.getitem (abs d) k := by
  simp only [Impl.getitem, Spec.getitem, sget_abs]
  cases h : dget d k with
  | none => rfl
  | some vs =>
    obtain ⟨hne, hk⟩ := hinv k vs h
    simp only [Option.map_some]
    rw [vmax_keysFrom 1 vs hk hne]
    simp only
    rw [vget_last 1 vs hk hne]
    obtain ⟨x, hx⟩ := last_of_inv hne
    rw [hx]
    simp only [List.length_map]
    congr 1
    omega

theorem step_refines (d : VDict) (hinv : Inv d) (op : Op) :
    (Impl.step d op).2 = (Spec.step (abs d) op).2 ∧
    abs (Impl.step d op).1 = (Spec.step (abs d) op).1 := by
  cases op with
  | set k ver val => exact set_refines d hinv k ver val
  | setBadKey k => exact ⟨rfl, rfl⟩
  | getv k ver => exact ⟨by simp only [Impl.step, Spec.step, getv_refines d hinv], rfl⟩
  | getitem k => exact ⟨by simp only [Impl.step, Spec.step, getitem_refines d hinv], rfl⟩
  | contains k =>
    refine ⟨?_, rfl⟩
    simp only [Impl.step, Spec.step, sget_abs]
    cases dget d k <;> rfl
  | len => exact ⟨by simp [Impl.step, Spec.step, abs_length], rfl⟩
  | del k => exact ⟨rfl, rfl⟩

theorem outs_refine (ops : List Op) : ∀ d, Inv d → Impl.outs d ops = Spec.outs (abs d) ops := by
  induction ops with
  | nil => intro d _; rfl
  | cons o r ih =>
    intro d h
    obtain ⟨h1, h2⟩ := step_refines d h o
    simp only [Impl.outs, Spec.outs]
    rw [h1, ih _ (inv_step d h o), h2]

/-! ## never overwritten -/

theorem stored_step (d : VDict) (hinv : Inv d) (op : Op) (k : String) (v x : Int) (vs : Versions)
    (hd : dget d k = some vs) (hv : vget vs v = some x) :
    ∃ vs', dget (Impl.step d op).1 k = some vs' ∧ vget vs' v = some x := by
  cases op with
  | set k' ver val =>
    cases ver with
    | none => exact ⟨vs, hd, hv⟩
    | some w =>
      obtain ⟨c1, c2, c3⟩ := set_cases d hinv k' w val
      simp only [Impl.step]
      by_cases hw : w < 1
      · rw [c1 hw]; exact ⟨vs, hd, hv⟩
      · by_cases hn : w = (((dget d k').getD []).length : Int) + 1
        · rw [c3 hn]
          simp only [dget_dput]
          split
          · rename_i hkk
            subst hkk
            rw [hd]
            exact ⟨_, rfl, vget_append_of_some vs v x _ hv⟩
          · exact ⟨vs, hd, hv⟩
        · rw [c2 (by omega) hn]; exact ⟨vs, hd, hv⟩
  | setBadKey _ => exact ⟨vs, hd, hv⟩
  | getv _ _ => exact ⟨vs, hd, hv⟩
  | getitem _ => exact ⟨vs, hd, hv⟩
  | contains _ => exact ⟨vs, hd, hv⟩
  | len => exact ⟨vs, hd, hv⟩
  | del _ => exact ⟨vs, hd, hv⟩

theorem stored_foldl (ops : List Op) : ∀ (d : VDict), Inv d → ∀ (k : String) (v x : Int) (vs : Versions),
    dget d k = some vs → vget vs v = some x →
    ∃ vs', dget (ops.foldl (fun d o => (Impl.step d o).1) d) k = some vs' ∧ vget vs' v = some x := by
  induction ops with
  | nil => intro d _ k v x vs hd hv; exact ⟨vs, hd, hv⟩
  | cons o r ih =>
    intro d hinv k v x vs hd hv
    obtain ⟨vs1, h1, h2⟩ := stored_step d hinv o k v x vs hd hv
    exact ih _ (inv_step d hinv o) k v x vs1 h1 h2

end GlueVerif.Versioned.Lemmas
