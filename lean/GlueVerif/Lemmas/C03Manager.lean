import GlueVerif.Lemmas.C03Links
/-! Helper lemmas for C03: the LinkManager / DataCollection state machine. -/
namespace GlueVerif.Lemmas.C03
open GlueVerif.Links

/-! ### the scanned list has exactly the current links as members -/

theorem mem_scanList (ord : List Nat) (all : List (Nat × CLink)) (l : CLink) :
    l ∈ scanList ord all ↔ l ∈ all.map (·.2) := by
  unfold scanList
  constructor
  · intro h
    rcases List.mem_append.mp h with h | h
    · obtain ⟨i, _, hi⟩ := List.mem_filterMap.mp h
      cases hf : all.find? (fun p => p.1 == i) with
      | none => rw [hf] at hi; cases hi
      | some p =>
        rw [hf] at hi
        simp only [Option.map_some, Option.some.injEq] at hi
        subst hi
        exact List.mem_map.mpr ⟨p, List.mem_of_find?_eq_some hf, rfl⟩
    · exact h
  · intro h; exact List.mem_append.mpr (Or.inr h)

/-! ### synchronisation invariant -/

/-- Every dataset of the collection holds exactly what `discover_links` computes from the current
links (for the scan order of its last update). -/
def Synced (s : MState) : Prop :=
  ∀ D ∈ s.dsets, ∃ ord, D.cache = discoverLinks D.comps (scanList ord (effLinks s.ext)) ∧
    D.fuel = (scanList ord (effLinks s.ext)).length + 1

def Good (s : MState) : Prop := s.delay = 0 → Synced s

@[simp] theorem update_ext (ord : List Nat) (s : MState) : (update ord s).ext = s.ext := rfl
@[simp] theorem update_delay (ord : List Nat) (s : MState) : (update ord s).delay = s.delay := rfl
@[simp] theorem update_vals (ord : List Nat) (s : MState) : (update ord s).vals = s.vals := rfl

theorem synced_update (ord : List Nat) (s : MState) : Synced (update ord s) := by
  intro D hD
  simp only [update, List.mem_map] at hD
  obtain ⟨D0, _, rfl⟩ := hD
  exact ⟨ord, rfl, rfl⟩

theorem good_update (ord : List Nat) (s : MState) : Good (update ord s) :=
  fun _ => synced_update ord s

theorem good_of_delay {s : MState} (h : s.delay ≠ 0) : Good s := fun h0 => absurd h0 h

theorem good_sync (ord : List Nat) (s : MState) : Good (sync ord s) := by
  unfold sync
  split
  · exact good_update ord s
  · rename_i h; exact good_of_delay h

theorem good_dropLinks (ord : List Nat) (p : Entry → Bool) {s : MState} (h : Good s) :
    Good (dropLinks ord p s) := by
  unfold dropLinks
  split
  · exact good_update ord _
  · exact h

/-- A state with the same links and delay counter whose collection datasets all come from `s`. -/
theorem good_sub {s s' : MState} (h : Good s) (hd : s'.delay = s.delay) (he : s'.ext = s.ext)
    (hs : ∀ D ∈ s'.dsets, D ∈ s.dsets) : Good s' := by
  intro h0
  intro D hD
  have := h (by rw [← hd]; exact h0) D (hs D hD)
  rw [he]; exact this

theorem good_step (ord : List Nat) (s : MState) (op : Op) (hG : Good s)
    (hc : cleanOp s op = true) : Good (step ord s op).1 := by
  cases op with
  | newData d comps => exact good_sub hG rfl rfl (fun D h => h)
  | append d =>
    simp only [step]
    split
    · exact hG
    · exact good_sync ord _
  | remove d =>
    simp only [step]
    split
    · exact hG
    · apply good_dropLinks
      exact good_sub hG rfl rfl (fun D h => (List.mem_filter.mp h).1)
  | addComp d c v =>
    simp only [step]
    split
    · split
      · exact hG
      · exact good_sync ord _
    · split
      · exact hG
      · split
        · exact hG
        · exact good_sub hG rfl rfl (fun D h => h)
  | removeComp d c =>
    simp only [step]
    split
    · split
      · exact good_sync ord _
      · exact hG
    · split
      · exact hG
      · split
        · split
          · apply good_dropLinks
            exact good_sub hG rfl rfl (fun D h => h)
          · exact good_sub hG rfl rfl (fun D h => h)
        · exact hG
  | addLink e =>
    simp only [step]
    split
    · exact hG
    · split
      · exact hG
      · exact good_sync ord _
  | addLinks es =>
    simp only [cleanOp, beq_iff_eq] at hc
    simp only [step]
    split
    · exact good_sync ord _
    · rename_i ext' st hne heq
      rw [heq] at hc
      exact (hne hc).elim
  | removeLink i =>
    simp only [step]
    split
    · exact hG
    · exact good_sync ord _
  | removeLinks is =>
    simp only [cleanOp, beq_iff_eq] at hc
    simp only [step]
    split
    · exact good_sync ord _
    · rename_i ext' st hne heq
      rw [heq] at hc
      exact (hne hc).elim
  | delayBegin =>
    apply good_of_delay
    simp [step]
  | delayEnd =>
    simp only [step]
    split
    · exact hG
    · exact good_sync ord _

theorem good_init : Good MState.init := by
  intro _ D hD
  simp [MState.init] at hD

theorem good_run (s : MState) (ops : List (Op × List Nat)) (hG : Good s)
    (hc : runClean s ops = true) : Good (run s ops) := by
  induction ops generalizing s with
  | nil => exact hG
  | cons a r ih =>
    obtain ⟨op, ord⟩ := a
    simp only [runClean, Bool.and_eq_true] at hc
    exact ih _ (good_step ord s op hG hc.1) hc.2

end GlueVerif.Lemmas.C03
