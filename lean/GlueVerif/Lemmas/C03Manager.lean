import GlueVerif.Lemmas.C03Links
/-! Helper lemmas for C03: the LinkManager / DataCollection state machine. -/
namespace GlueVerif.Lemmas.C03
open GlueVerif.Links

/-! ### the scanned list has exactly the current links as members -/

theorem mem_scanList (ord : List Nat) (all : List (Nat × CLink)) (l : CLink) :
    l ∈ scanList ord all ↔ l ∈ all.map (·.2) := by
  unfold scanList
  constructor
  · intro h
    rcases List.mem_append.mp h with h | h
    · obtain ⟨i, _, hi⟩ := List.mem_filterMap.mp h
      cases hf : all.find? (fun p => p.1 == i) with
      | none => rw [hf] at hi; cases hi
      | some p =>
        rw [hf] at hi
        simp only [Option.map_some, Option.some.injEq] at hi
        subst hi
        exact List.mem_map.mpr ⟨p, List.mem_of_find?_eq_some hf, rfl⟩
    · exact h
  · intro h; exact List.mem_append.mpr (Or.inr h)

/-! ### synchronisation invariant -/

/-- Every dataset of the collection holds exactly what `discover_links` computes from the current
links (scanned in some order), with enough recursion fuel. -/
def Synced (s : MState) : Prop :=
  ∀ D ∈ s.dsets, ∃ ls', (∀ l, l ∈ ls' ↔ l ∈ curLinks s) ∧ D.cache = discoverLinks D.comps ls' ∧
    ls'.length + 1 ≤ D.fuel

def Good (s : MState) : Prop := s.delay = 0 → Synced s

@[simp] theorem update_ext (ord : List Nat) (s : MState) : (update ord s).ext = s.ext := rfl
@[simp] theorem update_delay (ord : List Nat) (s : MState) : (update ord s).delay = s.delay := rfl
@[simp] theorem update_vals (ord : List Nat) (s : MState) : (update ord s).vals = s.vals := rfl
@[simp] theorem update_outside (ord : List Nat) (s : MState) : (update ord s).outside = s.outside := rfl

theorem flatMap_derived_map (ds : List DSet) (f : DSet → DSet) (hf : ∀ D, (f D).derived = D.derived) :
    (ds.map f).flatMap (·.derived) = ds.flatMap (·.derived) := by
  induction ds with
  | nil => rfl
  | cons a r ih => simp [List.flatMap_cons, hf, ih]

theorem effLinks_update (ord : List Nat) (s : MState) : effLinks (update ord s) = effLinks s := by
  have := flatMap_derived_map s.dsets (fun D => { D with
    cache := discoverLinks D.comps (scanList ord (effLinks s)),
    fuel := (scanList ord (effLinks s)).length + 1 }) (fun _ => rfl)
  exact congrArg (· ++ effLinksExt s.ext) this

theorem curLinks_update (ord : List Nat) (s : MState) : curLinks (update ord s) = curLinks s := by
  simp only [curLinks, effLinks_update]

theorem synced_update (ord : List Nat) (s : MState) : Synced (update ord s) := by
  intro D hD
  simp only [update, List.mem_map] at hD
  obtain ⟨D0, _, rfl⟩ := hD
  refine ⟨scanList ord (effLinks s), fun l => ?_, rfl, Nat.le_refl _⟩
  rw [curLinks_update]
  exact mem_scanList ord (effLinks s) l

theorem good_update (ord : List Nat) (s : MState) : Good (update ord s) :=
  fun _ => synced_update ord s

theorem good_of_delay {s : MState} (h : s.delay ≠ 0) : Good s := fun h0 => absurd h0 h

theorem good_sync (ord : List Nat) (s : MState) : Good (sync ord s) := by
  unfold sync
  split
  · exact good_update ord s
  · rename_i h; exact good_of_delay h

theorem good_dropLinks (ord : List Nat) (p : Entry → Bool) {s : MState} (h : Good s) :
    Good (dropLinks ord p s) := by
  unfold dropLinks
  split
  · exact good_update ord _
  · exact h

/-- A state with the same links and delay counter whose collection datasets all come from `s`. -/
theorem good_sub {s s' : MState} (h : Good s) (hd : s'.delay = s.delay) (he : effLinks s' = effLinks s)
    (hs : ∀ D ∈ s'.dsets, D ∈ s.dsets) : Good s' := by
  intro h0
  intro D hD
  have := h (by rw [← hd]; exact h0) D (hs D hD)
  simp only [curLinks, he]; exact this

/-! ### induction principle for the cascade `removeRec` -/

theorem foldl_ind {β γ : Type} (P : β → Prop) (f : β → γ → β) (h : ∀ b x, P b → P (f b x)) :
    ∀ (xs : List γ) (b : β), P b → P (xs.foldl f b) := by
  intro xs
  induction xs with
  | nil => intro b hb; exact hb
  | cons x r ih => intro b hb; exact ih _ (h b x hb)

theorem removeRec_ind (P : MState → Prop) (ord : List Nat) (inDc : Bool) (d : Nat)
    (hmod : ∀ s c, P s → P (modAt inDc s d (popCid c)))
    (hdrop : ∀ s p, P s → P (dropLinks ord p s))
    (hsync : ∀ s, P s → P (sync ord s)) :
    ∀ n s c, P s → P (removeRec ord inDc d n s c) := by
  intro n
  induction n with
  | zero => intro s c h; exact h
  | succ n ih =>
    intro s c h
    simp only [removeRec]
    split
    · exact h
    · split
      · have h2 := fun xs => foldl_ind P (fun s z => removeRec ord inDc d n s z)
          (fun b z hb => ih b z hb) xs _ (hmod s c h)
        split
        · exact hsync _ (hdrop _ _ (h2 _))
        · split
          · exact hdrop _ _ (h2 _)
          · exact h2 _
      · exact h

/-! ### no stored link mentions a removed cid / dataset -/

def ND (s : MState) : Prop := ∀ e ∈ s.ext, ∀ c ∈ e.cids, liveCid s c = true

theorem nd_iff (s : MState) : noDangling s = true ↔ ND s := by
  simp [noDangling, ND, List.all_eq_true]

theorem mem_cids_mentions (e : Entry) (c : Cid) : c ∈ e.cids ↔ e.mentions c = true := by
  simp only [Entry.cids, Entry.mentions, List.mem_flatMap, List.any_eq_true, LinkObj.mentions,
    Bool.or_eq_true, decide_eq_true_eq, List.mem_cons]
  constructor
  · rintro ⟨o, ho, h⟩
    exact ⟨o, ho, h.symm⟩
  · rintro ⟨o, ho, h⟩
    exact ⟨o, ho, h.symm⟩

theorem liveCid_iff (s : MState) (c : Cid) :
    liveCid s c = true ↔ ((c.1 == freeDs) = true ∨ ∃ D ∈ s.dsets, c ∈ D.ids) := by
  simp [liveCid]

theorem liveCid_update (ord : List Nat) (s : MState) (c : Cid) :
    liveCid (update ord s) c = liveCid s c := by
  simp only [liveCid, update, List.any_map]
  rfl

theorem liveCid_sync (ord : List Nat) (s : MState) (c : Cid) :
    liveCid (sync ord s) c = liveCid s c := by
  unfold sync
  split
  · exact liveCid_update ord s c
  · rfl

theorem sync_ext (ord : List Nat) (s : MState) : (sync ord s).ext = s.ext := by
  unfold sync; split <;> rfl

theorem sync_outside (ord : List Nat) (s : MState) : (sync ord s).outside = s.outside := by
  unfold sync; split <;> rfl

theorem nd_sync (ord : List Nat) {s : MState} (h : ND s) : ND (sync ord s) := by
  intro e he c hc
  rw [sync_ext] at he
  rw [liveCid_sync]
  exact h e he c hc

/-- Transfer along a step that keeps or adds live links and does not shrink liveness. -/
theorem nd_mono {s s' : MState} (h : ND s)
    (hext : ∀ e ∈ s'.ext, e ∈ s.ext ∨ ∀ c ∈ e.cids, liveCid s' c = true)
    (hlive : ∀ c, liveCid s c = true → liveCid s' c = true) : ND s' := by
  intro e he c hc
  rcases hext e he with h1 | h2
  · exact hlive c (h e h1 c hc)
  · exact h2 c hc

theorem dropLinks_ext_sub (ord : List Nat) (p : Entry → Bool) (s : MState) :
    ∀ e ∈ (dropLinks ord p s).ext, e ∈ s.ext ∧ p e = false := by
  unfold dropLinks
  split
  · intro e he
    simp only [update_ext, List.mem_filter, Bool.not_eq_true'] at he
    exact he
  · rename_i hany
    intro e he
    refine ⟨he, ?_⟩
    cases hp : p e with
    | false => rfl
    | true => exact absurd (List.any_eq_true.mpr ⟨e, he, hp⟩) hany

theorem liveCid_dropLinks (ord : List Nat) (p : Entry → Bool) (s : MState) (c : Cid) :
    liveCid (dropLinks ord p s) c = liveCid s c := by
  unfold dropLinks
  split
  · rw [liveCid_update]; rfl
  · rfl

theorem nd_dropLinks (ord : List Nat) (p : Entry → Bool) (s : MState)
    (h : ∀ e ∈ s.ext, p e = false → ∀ c ∈ e.cids, liveCid s c = true) : ND (dropLinks ord p s) := by
  intro e he c hc
  rw [liveCid_dropLinks]
  obtain ⟨h1, h2⟩ := dropLinks_ext_sub ord p s e he
  exact h e h1 h2 c hc

theorem addOne_mem {ext ext' : List Entry} {e : Entry} (h : addOne ext e = .ok ext') :
    ∀ x ∈ ext', x ∈ ext ∨ x = e := by
  intro x hx
  unfold addOne at h
  split at h
  · split at h
    · cases h
    · injection h with h; subst h
      rcases List.mem_append.mp hx with h1 | h1
      · exact Or.inl h1
      · exact Or.inr (by simpa using h1)
  · split at h
    · injection h with h; subst h
      rcases List.mem_append.mp hx with h1 | h1
      · exact Or.inl h1
      · exact Or.inr (by simpa using h1)
    · split at h
      · injection h with h; subst h; exact Or.inl hx
      · injection h with h; subst h
        rcases List.mem_append.mp hx with h1 | h1
        · exact Or.inl h1
        · exact Or.inr (by simpa using h1)

theorem addMany_mem (es : List Entry) : ∀ ext : List Entry,
    ∀ x ∈ (addMany ext es).1, x ∈ ext ∨ x ∈ es := by
  induction es with
  | nil => intro ext x hx; exact Or.inl hx
  | cons e r ih =>
    intro ext x hx
    unfold addMany at hx
    split at hx
    · rename_i ext' h1
      rcases ih ext' x hx with h2 | h2
      · rcases addOne_mem h1 x h2 with h3 | h3
        · exact Or.inl h3
        · exact Or.inr (by simp [h3])
      · exact Or.inr (by simp [h2])
    · exact Or.inl hx

theorem eraseId_mem {ext ext' : List Entry} {i : Nat} (h : eraseId ext i = some ext') :
    ∀ x ∈ ext', x ∈ ext := by
  induction ext generalizing ext' with
  | nil => cases h
  | cons a r ih =>
    unfold eraseId at h
    split at h
    · injection h with h; subst h
      intro x hx; exact List.mem_cons_of_mem _ hx
    · cases hr : eraseId r i with
      | none => rw [hr] at h; cases h
      | some r' =>
        rw [hr] at h
        simp only [Option.map_some, Option.some.injEq] at h
        subst h
        intro x hx
        rcases List.mem_cons.mp hx with rfl | hx'
        · simp
        · exact List.mem_cons_of_mem _ (ih hr x hx')

theorem removeMany_mem (is : List Nat) : ∀ ext : List Entry,
    ∀ x ∈ (removeMany ext is).1, x ∈ ext := by
  induction is with
  | nil => intro ext x hx; exact hx
  | cons i r ih =>
    intro ext x hx
    unfold removeMany at hx
    split at hx
    · rename_i ext' h1
      exact eraseId_mem h1 x (ih ext' x hx)
    · exact hx

theorem liveCid_of_mem {s : MState} {c : Cid} {D : DSet} (hD : D ∈ s.dsets) (hc : c ∈ D.ids) :
    liveCid s c = true :=
  (liveCid_iff s c).mpr (Or.inr ⟨D, hD, hc⟩)

theorem liveCid_of_free {s : MState} {c : Cid} (h : (c.1 == freeDs) = true) : liveCid s c = true :=
  (liveCid_iff s c).mpr (Or.inl h)

/-- Liveness only depends on the ids of the datasets of the collection. -/
theorem liveCid_mono {s s' : MState} {c : Cid} (h : liveCid s c = true)
    (hd : ∀ D ∈ s.dsets, c ∈ D.ids → ∃ D' ∈ s'.dsets, c ∈ D'.ids) : liveCid s' c = true := by
  rcases (liveCid_iff s c).mp h with hf | ⟨D, hD, hc⟩
  · exact liveCid_of_free hf
  · obtain ⟨D', hD', hc'⟩ := hd D hD hc
    exact liveCid_of_mem hD' hc'

theorem mem_modDs {ds : List DSet} {d : Nat} {f : DSet → DSet} {X : DSet} (h : X ∈ modDs ds d f) :
    ∃ D ∈ ds, X = if D.id = d then f D else D := by
  simp only [modDs, List.mem_map] at h
  obtain ⟨D, hD, rfl⟩ := h
  exact ⟨D, hD, rfl⟩

theorem modDs_mem {ds : List DSet} (d : Nat) (f : DSet → DSet) {D : DSet} (h : D ∈ ds) :
    (if D.id = d then f D else D) ∈ modDs ds d f := by
  simp only [modDs, List.mem_map]
  exact ⟨D, h, rfl⟩

theorem mem_ids_pop {D : DSet} {c c' : Cid} (h : c' ∈ D.ids) (hne : c' ≠ c) : c' ∈ (popCid c D).ids := by
  simp only [DSet.ids, DSet.derivedIds, popCid, List.mem_append, List.mem_map, List.mem_filter] at h ⊢
  rcases h with h | ⟨p, hp, rfl⟩
  · exact Or.inl ⟨h, by simpa using hne⟩
  · exact Or.inr ⟨p, ⟨hp, by simpa using hne⟩, rfl⟩

theorem mem_ids_of_pop {D : DSet} {c c' : Cid} (h : c' ∈ (popCid c D).ids) : c' ∈ D.ids := by
  simp only [DSet.ids, DSet.derivedIds, popCid, List.mem_append, List.mem_map, List.mem_filter] at h ⊢
  rcases h with h | ⟨p, hp, rfl⟩
  · exact Or.inl h.1
  · exact Or.inr ⟨p, hp.1, rfl⟩

/-! ### the cascade forgets every cid it removes -/

/-- Relative no-dangling: every cid (satisfying `L`) mentioned by a stored link is live or is one of
the popped-but-not-yet-announced cids `X`. -/
def RX (L : Cid → Prop) (X : List Cid) (s : MState) : Prop :=
  ∀ e ∈ s.ext, ∀ c ∈ e.cids, L c → liveCid s c = true ∨ c ∈ X

theorem rx_sync {L : Cid → Prop} {X : List Cid} (ord : List Nat) {s : MState} (h : RX L X s) :
    RX L X (sync ord s) := by
  intro e he c hc hl
  rw [sync_ext] at he
  rw [liveCid_sync]
  exact h e he c hc hl

theorem rx_dropLinks {L : Cid → Prop} {X : List Cid} (ord : List Nat) (p : Entry → Bool) {s : MState}
    (h : RX L X s) : RX L X (dropLinks ord p s) := by
  intro e he c hc hl
  rw [liveCid_dropLinks]
  exact h e (dropLinks_ext_sub ord p s e he).1 c hc hl

theorem removeRec_rx_in (L : Cid → Prop) (ord : List Nat) (d : Nat) :
    ∀ n s c X, RX L X s → RX L X (removeRec ord true d n s c) := by
  intro n
  induction n with
  | zero => intro s c X h; exact h
  | succ n ih =>
    intro s c X h
    simp only [removeRec]
    split
    · exact h
    · split
      · -- after the pop: `c` joins the pending cids
        have h1 : RX L (c :: X) (modAt true s d (popCid c)) := by
          intro e he c' hc' hl
          by_cases hcc : c' = c
          · exact Or.inr (by simp [hcc])
          · rcases h e he c' hc' hl with hlive | hx
            · left
              refine liveCid_mono hlive ?_
              intro D hD hcD
              refine ⟨_, modDs_mem d (popCid c) hD, ?_⟩
              split
              · exact mem_ids_pop hcD hcc
              · exact hcD
            · exact Or.inr (List.mem_cons_of_mem _ hx)
        have h2 := fun xs => foldl_ind (RX L (c :: X)) (fun s z => removeRec ord true d n s z)
          (fun b z hb => ih b z (c :: X) hb) xs _ h1
        simp only [if_true]
        apply rx_sync
        intro e he c' hc' hl
        rw [liveCid_dropLinks]
        obtain ⟨he1, he2⟩ := dropLinks_ext_sub ord _ _ e he
        rcases h2 _ e he1 c' hc' hl with hlive | hx
        · exact Or.inl hlive
        · rcases List.mem_cons.mp hx with rfl | hx'
          · rw [(mem_cids_mentions e c').mp hc'] at he2; cases he2
          · exact Or.inr hx'
      · exact h

theorem liveCid_modAt_false (s : MState) (d : Nat) (f : DSet → DSet) (c : Cid) :
    liveCid (modAt false s d f) c = liveCid s c := rfl

theorem removeRec_rx_out (L : Cid → Prop) (X : List Cid) (ord : List Nat) (d : Nat) :
    ∀ n s c, RX L X s → RX L X (removeRec ord false d n s c) :=
  removeRec_ind (RX L X) ord false d (fun _ _ h => h) (fun _ p h => rx_dropLinks ord p h)
    (fun _ h => rx_sync ord h)

theorem removeRec_rx (L : Cid → Prop) (X : List Cid) (ord : List Nat) (inDc : Bool) (d : Nat)
    (n : Nat) (s : MState) (c : Cid) (h : RX L X s) : RX L X (removeRec ord inDc d n s c) := by
  cases inDc
  · exact removeRec_rx_out L X ord d n s c h
  · exact removeRec_rx_in L ord d n s c X h

theorem removeRec_ext_sub (ord : List Nat) (inDc : Bool) (d : Nat) (n : Nat) (s : MState) (c : Cid) :
    ∀ e ∈ (removeRec ord inDc d n s c).ext, e ∈ s.ext :=
  removeRec_ind (fun s' => ∀ e ∈ s'.ext, e ∈ s.ext) ord inDc d
    (fun s' c' h => by cases inDc <;> exact h)
    (fun s' p h e he => h e (dropLinks_ext_sub ord p s' e he).1)
    (fun s' h e he => h e (by rw [sync_ext] at he; exact he)) n s c (fun _ h => h)

/-- Whatever was live before a component removal and is mentioned by a surviving link is still
live: every cid the cascade removed (the requested one and all its dependents) has been forgotten. -/
theorem removeRec_forgets (ord : List Nat) (inDc : Bool) (d : Nat) (n : Nat) (s : MState) (c : Cid) :
    ∀ e ∈ (removeRec ord inDc d n s c).ext, ∀ c' ∈ e.cids, liveCid s c' = true →
      liveCid (removeRec ord inDc d n s c) c' = true := by
  have h0 : RX (fun c' => liveCid s c' = true) [] s := fun e _ c' _ hl => Or.inl hl
  intro e he c' hc' hl
  rcases removeRec_rx _ [] ord inDc d n s c h0 e he c' hc' hl with h | h
  · exact h
  · cases h

theorem nd_removeRec (ord : List Nat) (inDc : Bool) (d : Nat) (n : Nat) {s : MState} (c : Cid)
    (h : ND s) : ND (removeRec ord inDc d n s c) := by
  intro e he c' hc'
  exact removeRec_forgets ord inDc d n s c e he c' hc'
    (h e (removeRec_ext_sub ord inDc d n s c e he) c' hc')

/-! ### datasets own their cids -/

/-- The dataset's cids carry its id, and a derived attribute reads at least one attribute. -/
def Owned (X : DSet) : Prop :=
  X.id ≠ freeDs ∧ (∀ c ∈ X.comps, c.1 = X.id) ∧
    ∀ p ∈ X.derived, p.2.to.1 = X.id ∧ p.2.froms ≠ [] ∧ ∀ f ∈ p.2.froms, f.1 = X.id

def WFS (s : MState) : Prop := (∀ X ∈ s.dsets, Owned X) ∧ (∀ X ∈ s.outside, Owned X)

theorem owned_sub {X X' : DSet} (h : Owned X) (hid : X'.id = X.id) (hc : ∀ c ∈ X'.comps, c ∈ X.comps)
    (hd : ∀ p ∈ X'.derived, p ∈ X.derived) : Owned X' :=
  ⟨by rw [hid]; exact h.1, fun c hc' => by rw [hid]; exact h.2.1 c (hc c hc'),
   fun p hp => by rw [hid]; exact h.2.2 p (hd p hp)⟩

theorem owned_ids {X : DSet} (h : Owned X) {c : Cid} (hc : c ∈ X.ids) : c.1 = X.id := by
  simp only [DSet.ids, DSet.derivedIds, List.mem_append, List.mem_map] at hc
  rcases hc with hc | ⟨p, hp, rfl⟩
  · exact h.2.1 c hc
  · exact (h.2.2 p hp).1

theorem owned_modDs {ds : List DSet} {d : Nat} {f : DSet → DSet} (h : ∀ X ∈ ds, Owned X)
    (hf : ∀ X ∈ ds, X.id = d → Owned X → Owned (f X)) : ∀ X ∈ modDs ds d f, Owned X := by
  intro X hX
  obtain ⟨D, hD, rfl⟩ := mem_modDs hX
  split
  · rename_i hid; exact hf D hD hid (h D hD)
  · exact h D hD

theorem wfs_update (ord : List Nat) {s : MState} (h : WFS s) : WFS (update ord s) := by
  refine ⟨?_, h.2⟩
  intro X hX
  simp only [update, List.mem_map] at hX
  obtain ⟨D, hD, rfl⟩ := hX
  exact owned_sub (h.1 D hD) rfl (fun _ hc => hc) (fun _ hp => hp)

theorem wfs_sync (ord : List Nat) {s : MState} (h : WFS s) : WFS (sync ord s) := by
  unfold sync; split
  · exact wfs_update ord h
  · exact h

theorem wfs_dropLinks (ord : List Nat) (p : Entry → Bool) {s : MState} (h : WFS s) :
    WFS (dropLinks ord p s) := by
  unfold dropLinks; split
  · exact wfs_update ord (s := { s with ext := _ }) h
  · exact h

theorem owned_pop {X : DSet} (c : Cid) (h : Owned X) : Owned (popCid c X) :=
  owned_sub h rfl (fun _ hc => (List.mem_filter.mp hc).1) (fun _ hp => (List.mem_filter.mp hp).1)

theorem wfs_modAt {s : MState} (inDc : Bool) (d : Nat) {f : DSet → DSet} (h : WFS s)
    (hf : ∀ X, X.id = d → Owned X → Owned (f X)) : WFS (modAt inDc s d f) := by
  cases inDc
  · exact ⟨h.1, owned_modDs h.2 (fun X _ => hf X)⟩
  · exact ⟨owned_modDs h.1 (fun X _ => hf X), h.2⟩

theorem wfs_removeRec (ord : List Nat) (inDc : Bool) (d : Nat) (n : Nat) {s : MState} (c : Cid)
    (h : WFS s) : WFS (removeRec ord inDc d n s c) :=
  removeRec_ind WFS ord inDc d (fun _ c h => wfs_modAt inDc d h (fun _ _ ho => owned_pop c ho))
    (fun _ p h => wfs_dropLinks ord p h) (fun _ h => wfs_sync ord h) n s c h

theorem mem_of_findDs {ds : List DSet} {d : Nat} {D : DSet} (h : findDs ds d = some D) :
    D ∈ ds ∧ D.id = d := by
  unfold findDs at h
  exact ⟨List.mem_of_find?_eq_some h, by simpa using List.find?_some h⟩

theorem owned_rename {X : DSet} {old new : Cid} (h : Owned X) (hn : new.1 = X.id) :
    Owned (renameDs old new X) := by
  have hr : ∀ c : Cid, c.1 = X.id → (renameCid old new c).1 = X.id := by
    intro c hc; unfold renameCid; split
    · exact hn
    · exact hc
  refine ⟨h.1, ?_, ?_⟩
  · intro c hc
    simp only [renameDs, List.mem_map] at hc
    obtain ⟨c0, hc0, rfl⟩ := hc
    exact hr c0 (h.2.1 c0 hc0)
  · intro p hp
    simp only [renameDs, List.mem_map] at hp
    obtain ⟨p0, hp0, rfl⟩ := hp
    obtain ⟨h1, h2, h3⟩ := h.2.2 p0 hp0
    refine ⟨hr _ h1, ?_, ?_⟩
    · simpa [renameLink] using h2
    · intro f hf
      simp only [renameLink, List.mem_map] at hf
      obtain ⟨f0, hf0, rfl⟩ := hf
      exact hr f0 (h3 f0 hf0)

theorem owned_alias {X : DSet} (links : List CLink) (old new : Cid) (h : Owned X) :
    Owned (aliasCache links old new X) :=
  owned_sub h rfl (fun _ hc => hc) (fun _ hp => hp)

theorem wfs_step (ord : List Nat) (s : MState) (op : Op) (h : WFS s) (hw : wfOp s op = true) :
    WFS (step ord s op).1 := by
  cases op with
  | newData d comps =>
    simp only [wfOp, Bool.and_eq_true, List.all_eq_true, bne_iff_ne, ne_eq, beq_iff_eq] at hw
    refine ⟨h.1, ?_⟩
    intro X hX
    simp only [step, List.mem_append, List.mem_singleton] at hX
    rcases hX with hX | rfl
    · exact h.2 X hX
    · refine ⟨hw.2, ?_, by simp⟩
      intro c hc
      simp only [List.mem_map] at hc
      obtain ⟨p, hp, rfl⟩ := hc
      exact hw.1 p hp
  | append d =>
    simp only [step]
    split
    · exact h
    · rename_i D hf
      apply wfs_sync
      refine ⟨?_, fun X hX => h.2 X (List.mem_filter.mp hX).1⟩
      intro X hX
      rcases List.mem_append.mp hX with hX | hX
      · exact h.1 X hX
      · simp only [List.mem_singleton] at hX
        subst hX
        exact owned_sub (h.2 D (mem_of_findDs hf).1) rfl (fun _ hc => hc) (fun _ hp => hp)
  | remove d =>
    simp only [step]
    split
    · exact h
    · apply wfs_dropLinks
      refine ⟨fun X hX => h.1 X (List.mem_filter.mp hX).1, ?_⟩
      intro X hX
      rcases List.mem_append.mp hX with hX | hX
      · exact h.2 X hX
      · exact h.1 X (List.mem_filter.mp hX).1
  | addComp d c v =>
    simp only [wfOp, beq_iff_eq] at hw
    have hf : ∀ X : DSet, X.id = d → Owned X → Owned ({ X with comps := X.comps ++ [c] } : DSet) := by
      intro X hid ho
      refine ⟨ho.1, ?_, ho.2.2⟩
      intro c' hc'
      rcases List.mem_append.mp hc' with hc' | hc'
      · exact ho.2.1 c' hc'
      · simp only [List.mem_singleton] at hc'; subst hc'; rw [hid]; exact hw
    simp only [step]
    split
    · split
      · exact h
      · exact wfs_sync ord (wfs_modAt (s := { s with vals := _ }) true d h hf)
    · split
      · exact h
      · split
        · exact h
        · exact wfs_modAt (s := { s with vals := _ }) false d h hf
  | addDerived d i l =>
    simp only [wfOp, Bool.and_eq_true, List.all_eq_true, beq_iff_eq, Bool.not_eq_true',
      List.isEmpty_eq_false_iff] at hw
    have hf : ∀ X : DSet, X.id = d → Owned X →
        Owned ({ X with derived := X.derived ++ [(i, l)] } : DSet) := by
      intro X hid ho
      refine ⟨ho.1, ho.2.1, ?_⟩
      intro p hp
      rcases List.mem_append.mp hp with hp | hp
      · exact ho.2.2 p hp
      · simp only [List.mem_singleton] at hp; subst hp
        exact ⟨by rw [hid]; exact hw.1.1, hw.1.2, fun f hf => by rw [hid]; exact hw.2 f hf⟩
    simp only [step]
    split
    · split
      · exact h
      · split
        · exact wfs_sync ord (wfs_modAt true d h hf)
        · exact h
    · split
      · exact h
      · split
        · exact h
        · split
          · exact wfs_modAt false d h hf
          · exact h
  | removeComp d c =>
    simp only [step]
    split
    · exact wfs_removeRec ord true d _ c h
    · split
      · exact h
      · exact wfs_removeRec ord false d _ c h
  | updateId d old new =>
    simp only [wfOp, Bool.and_eq_true, beq_iff_eq] at hw
    have hf : ∀ X : DSet, X.id = d → Owned X → Owned (renameDs old new X) :=
      fun X hid ho => owned_rename ho (by rw [hid]; exact hw.1)
    simp only [step]
    split
    · exact h
    · split
      · split
        · exact h
        · split
          · apply wfs_sync
            refine ⟨?_, ?_⟩
            · intro X hX
              simp only [List.mem_map] at hX
              obtain ⟨X0, hX0, rfl⟩ := hX
              exact owned_alias _ _ _ (owned_modDs h.1 (fun X _ => hf X) X0 hX0)
            · intro X hX
              simp only [List.mem_map] at hX
              obtain ⟨X0, hX0, rfl⟩ := hX
              exact owned_alias _ _ _ (h.2 X0 hX0)
          · exact h
      · split
        · exact h
        · split
          · exact h
          · split
            · refine ⟨?_, ?_⟩
              · intro X hX
                simp only at hX
                split at hX
                · exact h.1 X hX
                · simp only [List.mem_map] at hX
                  obtain ⟨X0, hX0, rfl⟩ := hX
                  exact owned_alias _ _ _ (h.1 X0 hX0)
              · intro X hX
                simp only [List.mem_map] at hX
                obtain ⟨X0, hX0, rfl⟩ := hX
                exact owned_alias _ _ _ (owned_modDs h.2 (fun X _ => hf X) X0 hX0)
            · exact h
  | addLink e =>
    simp only [step]
    split
    · exact h
    · split
      · exact h
      · exact wfs_sync ord (s := { s with ext := _ }) h
  | addLinks es => simp only [step]; exact wfs_sync ord (s := { s with ext := _ }) h
  | removeLink i =>
    simp only [step]
    split
    · exact h
    · exact wfs_sync ord (s := { s with ext := _ }) h
  | removeLinks is => simp only [step]; exact wfs_sync ord (s := { s with ext := _ }) h
  | delayBegin => exact h
  | delayEnd =>
    simp only [step]
    split
    · exact h
    · exact wfs_sync ord (s := { s with delay := _ }) h

/-! ### `ND` is preserved by every well-formed operation -/

theorem nd_of {s s' : MState} (h : ND s)
    (hext : ∀ e ∈ s'.ext, e ∈ s.ext ∨ ∀ c ∈ e.cids, liveCid s' c = true)
    (hlive : ∀ e ∈ s.ext, ∀ c ∈ e.cids, liveCid s c = true → liveCid s' c = true) : ND s' := by
  intro e he c hc
  rcases hext e he with h1 | h2
  · exact hlive e h1 c hc (h e h1 c hc)
  · exact h2 c hc

theorem mem_ids_rename {D : DSet} {old new c : Cid} (h : c ∈ D.ids) (hne : c ≠ old) :
    c ∈ (renameDs old new D).ids := by
  have hr : renameCid old new c = c := by simp [renameCid, hne]
  simp only [DSet.ids, DSet.derivedIds, renameDs, List.mem_append, List.mem_map] at h ⊢
  rcases h with h | ⟨p, hp, rfl⟩
  · exact Or.inl ⟨c, h, hr⟩
  · exact Or.inr ⟨_, ⟨p, hp, rfl⟩, by simpa [renameLink] using hr⟩

theorem liveCid_map_alias (s : MState) (ds : List DSet) (links : List CLink) (old new c : Cid)
    (h : ∃ D ∈ ds, c ∈ D.ids) : ∃ D ∈ ds.map (aliasCache links old new), c ∈ D.ids := by
  obtain ⟨D, hD, hc⟩ := h
  exact ⟨_, List.mem_map.mpr ⟨D, hD, rfl⟩, hc⟩

theorem nd_step (ord : List Nat) (s : MState) (op : Op) (h : ND s) (hw : wfOp s op = true) :
    ND (step ord s op).1 := by
  cases op with
  | newData d comps => exact nd_mono h (fun e he => Or.inl he) (fun c hc => hc)
  | append d =>
    simp only [step]
    split
    · exact h
    · apply nd_sync
      refine nd_mono h (fun e he => Or.inl he) ?_
      intro c hc
      exact liveCid_mono hc (fun D hD hcD => ⟨D, List.mem_append.mpr (Or.inl hD), hcD⟩)
  | remove d =>
    simp only [step]
    split
    · exact h
    · apply nd_dropLinks
      intro e he hp c hc
      rcases (liveCid_iff s c).mp (h e he c hc) with hf | ⟨D, hD, hcD⟩
      · exact liveCid_of_free hf
      · by_cases hid : D.id = d
        · -- then `e` mentions a cid of a removed dataset: contradiction with `hp`
          have : (List.filter (fun X => X.id == d) s.dsets).any
              (fun D => D.ids.any (fun x => e.mentions x)) = true := by
            refine List.any_eq_true.mpr ⟨D, List.mem_filter.mpr ⟨hD, by simp [hid]⟩, ?_⟩
            exact List.any_eq_true.mpr ⟨c, hcD, (mem_cids_mentions e c).mp hc⟩
          rw [this] at hp; cases hp
        · exact liveCid_of_mem (D := D) (List.mem_filter.mpr ⟨hD, by simp [hid]⟩) hcD
  | addComp d c v =>
    simp only [step]
    split
    · split
      · exact h
      · apply nd_sync
        refine nd_mono h (fun e he => Or.inl he) ?_
        intro c' hc'
        refine liveCid_mono hc' (fun D hD hcD => ⟨_, modDs_mem d _ hD, ?_⟩)
        split
        · simp only [DSet.ids, List.mem_append] at hcD ⊢
          rcases hcD with h1 | h1
          · exact Or.inl (Or.inl h1)
          · exact Or.inr h1
        · exact hcD
    · split
      · exact h
      · split
        · exact h
        · exact nd_mono h (fun e he => Or.inl he) (fun c hc => hc)
  | addDerived d i l =>
    simp only [step]
    split
    · split
      · exact h
      · split
        · apply nd_sync
          refine nd_mono h (fun e he => Or.inl he) ?_
          intro c' hc'
          refine liveCid_mono hc' (fun D hD hcD => ⟨_, modDs_mem d _ hD, ?_⟩)
          split
          · simp only [DSet.ids, DSet.derivedIds, List.map_append, List.mem_append] at hcD ⊢
            rcases hcD with h1 | h1
            · exact Or.inl h1
            · exact Or.inr (Or.inl h1)
          · exact hcD
        · exact h
    · split
      · exact h
      · split
        · exact h
        · split
          · exact nd_mono h (fun e he => Or.inl he) (fun c hc => hc)
          · exact h
  | removeComp d c =>
    simp only [step]
    split
    · exact nd_removeRec ord true d _ c h
    · split
      · exact h
      · exact nd_removeRec ord false d _ c h
  | updateId d old new =>
    simp only [wfOp, Bool.and_eq_true, Bool.not_eq_true', List.any_eq_false] at hw
    have hne : ∀ e ∈ s.ext, ∀ c ∈ e.cids, c ≠ old := by
      intro e he c hc heq
      subst heq
      exact hw.2 e he ((mem_cids_mentions e c).mp hc)
    simp only [step]
    split
    · exact h
    · split
      · split
        · exact h
        · split
          · apply nd_sync
            refine nd_of h (fun e he => Or.inl he) ?_
            intro e he c hc hl
            refine liveCid_mono hl (fun D hD hcD => ?_)
            apply liveCid_map_alias s
            refine ⟨_, modDs_mem d _ hD, ?_⟩
            split
            · exact mem_ids_rename hcD (hne e he c hc)
            · exact hcD
          · exact h
      · split
        · exact h
        · split
          · exact h
          · split
            · refine nd_of h (fun e he => Or.inl he) ?_
              intro e he c hc hl
              refine liveCid_mono hl (fun D hD hcD => ?_)
              simp only
              split
              · exact ⟨D, hD, hcD⟩
              · exact liveCid_map_alias s _ _ _ _ _ ⟨D, hD, hcD⟩
            · exact h
  | addLink e =>
    simp only [wfOp, List.all_eq_true] at hw
    simp only [step]
    split
    · exact h
    · rename_i ext' hadd
      split
      · exact h
      · apply nd_sync
        refine nd_mono h ?_ (fun c hc => hc)
        intro x hx
        rcases addOne_mem hadd x hx with h1 | h1
        · exact Or.inl h1
        · subst h1; exact Or.inr (fun c hc => hw c hc)
  | addLinks es =>
    simp only [wfOp, List.all_eq_true] at hw
    have key : ND { s with ext := (addMany s.ext es).1 } := by
      refine nd_mono h ?_ (fun c hc => hc)
      intro x hx
      rcases addMany_mem es s.ext x hx with h1 | h1
      · exact Or.inl h1
      · exact Or.inr (fun c hc => hw x h1 c hc)
    simp only [step]
    exact nd_sync ord key
  | removeLink i =>
    simp only [step]
    split
    · exact h
    · rename_i ext' her
      apply nd_sync
      exact nd_mono h (fun x hx => Or.inl (eraseId_mem her x hx)) (fun c hc => hc)
  | removeLinks is =>
    have key : ND { s with ext := (removeMany s.ext is).1 } :=
      nd_mono h (fun x hx => Or.inl (removeMany_mem is s.ext x hx)) (fun c hc => hc)
    simp only [step]
    exact nd_sync ord key
  | delayBegin => exact nd_mono h (fun e he => Or.inl he) (fun c hc => hc)
  | delayEnd =>
    simp only [step]
    split
    · exact h
    · apply nd_sync
      exact nd_mono h (fun e he => Or.inl he) (fun c hc => hc)

/-! ### removing an unlinked dataset: its internal links were irrelevant to the others -/

theorem mem_curLinks (s : MState) (l : CLink) :
    l ∈ curLinks s ↔ (∃ X ∈ s.dsets, ∃ p ∈ X.derived, p.2 = l) ∨ l ∈ (effLinksExt s.ext).map (·.2) := by
  simp only [curLinks, effLinks, List.map_append, List.mem_append, List.mem_map, List.mem_flatMap]
  constructor
  · rintro (⟨p, ⟨X, hX, hp⟩, rfl⟩ | h)
    · exact Or.inl ⟨X, hX, p, hp, rfl⟩
    · exact Or.inr h
  · rintro (⟨X, hX, p, hp, rfl⟩ | h)
    · exact Or.inl ⟨p, ⟨X, hX, hp⟩, rfl⟩
    · exact Or.inr h

/-- The target of an external link (or of its inverse) is mentioned by a stored entry. -/
theorem ext_target_mentioned {ext : List Entry} {l : CLink} (h : l ∈ (effLinksExt ext).map (·.2)) :
    ∃ e ∈ ext, e.mentions l.to = true := by
  simp only [effLinksExt, List.map_append, List.mem_append, List.mem_map, List.mem_filterMap,
    List.mem_flatMap] at h
  rcases h with ⟨p, ⟨o, ⟨e, he, ho⟩, rfl⟩, rfl⟩ | ⟨p, ⟨o, ⟨e, he, ho⟩, hinv⟩, rfl⟩
  · refine ⟨e, he, ?_⟩
    simp only [Entry.mentions, List.any_eq_true]
    exact ⟨o, ho, by simp [LinkObj.mentions]⟩
  · refine ⟨e, he, ?_⟩
    simp only [Entry.mentions, List.any_eq_true]
    refine ⟨o, ho, ?_⟩
    unfold LinkObj.inverse at hinv
    split at hinv
    · rename_i i g f hi hfr
      injection hinv with hinv
      subst hinv
      simp [LinkObj.mentions, hfr]
    · cases hinv

theorem remove_reach {s : MState} (d : Nat) (hND : ND s) (hW : WFS s)
    {G : DSet} (hG : G ∈ s.dsets) (hGd : G.id = d)
    (hno : ∀ e ∈ s.ext,
      ((s.dsets.filter (fun X => X.id == d)).any fun D => D.ids.any (e.mentions ·)) = false)
    {D : DSet} (hD : D ∈ s.dsets) (hid : D.id ≠ d) {ls' : List CLink}
    (hm : ∀ l, l ∈ ls' ↔ l ∈ curLinks s) : ∀ c, Reachable D.comps ls' c → c.1 ≠ d := by
  intro c hr
  induction hr with
  | own hc => rw [(hW.1 D hD).2.1 _ hc]; exact hid
  | @link l hl _ ih =>
    rcases (mem_curLinks s l).mp ((hm l).mp hl) with ⟨X, hX, p, hp, rfl⟩ | hext
    · obtain ⟨h1, h2, h3⟩ := (hW.1 X hX).2.2 p hp
      by_cases hXd : X.id = d
      · obtain ⟨f, hf⟩ := List.exists_mem_of_ne_nil _ h2
        exact absurd (by rw [h3 f hf]; exact hXd) (ih f hf)
      · rw [h1]; exact hXd
    · obtain ⟨e, he, hmen⟩ := ext_target_mentioned hext
      intro hto
      rcases (liveCid_iff s l.to).mp (hND e he l.to ((mem_cids_mentions e l.to).mpr hmen)) with hf | ⟨Y, hY, hcY⟩
      · have : G.id = freeDs := by rw [hGd, ← hto]; simpa using hf
        exact (hW.1 G hG).1 this
      · have hYd : Y.id = d := by rw [← owned_ids (hW.1 Y hY) hcY]; exact hto
        have : ((s.dsets.filter (fun X => X.id == d)).any fun D => D.ids.any (e.mentions ·)) = true :=
          List.any_eq_true.mpr ⟨Y, List.mem_filter.mpr ⟨hY, by simp [hYd]⟩,
            List.any_eq_true.mpr ⟨l.to, hcY, hmen⟩⟩
        rw [hno e he] at this; cases this

theorem good_remove_nodrop {s : MState} (d : Nat) (hGood : Good s) (hND : ND s) (hW : WFS s)
    {G : DSet} (hG : G ∈ s.dsets) (hGd : G.id = d) (outside' : List DSet)
    (hno : ∀ e ∈ s.ext,
      ((s.dsets.filter (fun X => X.id == d)).any fun D => D.ids.any (e.mentions ·)) = false) :
    Good { s with dsets := s.dsets.filter (fun X => X.id != d), outside := outside' } := by
  intro h0 D hD
  have hD0 : D ∈ s.dsets := (List.mem_filter.mp hD).1
  have hid : D.id ≠ d := by simpa using (List.mem_filter.mp hD).2
  obtain ⟨ls', hm, hc, hf⟩ := hGood h0 D hD0
  let s1 : MState := { s with dsets := s.dsets.filter (fun X => X.id != d), outside := outside' }
  have hsub : ∀ l, l ∈ curLinks s1 → l ∈ curLinks s := by
    intro l hl
    rcases (mem_curLinks s1 l).mp hl with ⟨X, hX, p, hp, rfl⟩ | h
    · exact (mem_curLinks s _).mpr (Or.inl ⟨X, (List.mem_filter.mp hX).1, p, hp, rfl⟩)
    · exact (mem_curLinks s l).mpr (Or.inr h)
  refine ⟨ls'.filter (fun l => decide (l ∈ curLinks s1)), ?_, ?_, ?_⟩
  · intro l
    simp only [List.mem_filter, decide_eq_true_eq]
    exact ⟨fun h => h.2, fun h => ⟨(hm l).mpr (hsub l h), h⟩⟩
  · rw [hc]
    symm
    apply discoverLinks_filter
    intro l hl hk
    simp only [decide_eq_false_iff_not] at hk
    rcases (mem_curLinks s l).mp ((hm l).mp hl) with ⟨X, hX, p, hp, rfl⟩ | h
    · have hXd : X.id = d := by
        apply Classical.byContradiction
        intro hne
        exact hk ((mem_curLinks s1 _).mpr (Or.inl ⟨X, List.mem_filter.mpr ⟨hX, by simpa using hne⟩, p, hp, rfl⟩))
      obtain ⟨_, h2, h3⟩ := (hW.1 X hX).2.2 p hp
      obtain ⟨f, hf'⟩ := List.exists_mem_of_ne_nil _ h2
      refine ⟨f, hf', fun hr => ?_⟩
      exact remove_reach d hND hW hG hGd hno hD0 hid hm f hr (by rw [h3 f hf']; exact hXd)
    · exact absurd ((mem_curLinks s1 l).mpr (Or.inr h)) hk
  · exact Nat.le_trans (Nat.succ_le_succ (List.length_filter_le _ _)) hf

/-! ### the synchronisation invariant is preserved by every operation -/

theorem good_removeRec_out (ord : List Nat) (d : Nat) (n : Nat) {s : MState} (c : Cid) (h : Good s) :
    Good (removeRec ord false d n s c) :=
  removeRec_ind Good ord false d (fun _ _ h => good_sub h rfl rfl (fun _ hD => hD))
    (fun _ p h => good_dropLinks ord p h) (fun s _ => good_sync ord s) n s c h

theorem good_removeRec_in (ord : List Nat) (d : Nat) (n : Nat) {s : MState} (c : Cid) (h : Good s) :
    Good (removeRec ord true d n s c) := by
  cases n with
  | zero => exact h
  | succ n =>
    simp only [removeRec]
    split
    · exact h
    · split
      · exact good_sync ord _
      · exact h

/-- The synchronisation invariant is preserved by every operation; only `DataCollection.remove`
(which does not re-sync when it drops no link) needs the no-dangling / ownership invariants. -/
theorem good_step_gen (ord : List Nat) (s : MState) (op : Op) (hG : Good s)
    (hR : (∀ d, op ≠ .remove d) ∨ (ND s ∧ WFS s)) :
    Good (step ord s op).1 := by
  cases op with
  | newData d comps => exact good_sub hG rfl rfl (fun D h => h)
  | append d =>
    simp only [step]
    split
    · exact hG
    · exact good_sync ord _
  | remove d =>
    simp only [step]
    split
    · exact hG
    · rename_i hne
      unfold dropLinks
      split
      · exact good_update ord _
      · rename_i hany
        obtain ⟨hND, hW⟩ : ND s ∧ WFS s := hR.elim (fun h => absurd rfl (h d)) id
        obtain ⟨G, hGm⟩ := List.exists_mem_of_ne_nil _ (by simpa [List.isEmpty_iff] using hne :
          s.dsets.filter (fun X => X.id == d) ≠ [])
        have hG' := List.mem_filter.mp hGm
        refine good_remove_nodrop d hG hND hW hG'.1 (by simpa using hG'.2) _ ?_
        intro e he
        cases hp : ((s.dsets.filter (fun X => X.id == d)).any fun D => D.ids.any (e.mentions ·)) with
        | false => rfl
        | true => exact absurd (List.any_eq_true.mpr ⟨e, he, hp⟩) hany
  | addComp d c v =>
    simp only [step]
    split
    · split
      · exact hG
      · exact good_sync ord _
    · split
      · exact hG
      · split
        · exact hG
        · exact good_sub hG rfl rfl (fun D h => h)
  | addDerived d i l =>
    simp only [step]
    split
    · split
      · exact hG
      · split
        · exact good_sync ord _
        · exact hG
    · split
      · exact hG
      · split
        · exact hG
        · split
          · exact good_sub hG rfl rfl (fun D h => h)
          · exact hG
  | removeComp d c =>
    simp only [step]
    split
    · exact good_removeRec_in ord d _ c hG
    · split
      · exact hG
      · exact good_removeRec_out ord d _ c hG
  | updateId d old new =>
    simp only [step]
    split
    · exact hG
    · split
      · split
        · exact hG
        · split
          · exact good_sync ord _
          · exact hG
      · split
        · exact hG
        · split
          · exact hG
          · split
            · by_cases h0 : s.delay = 0
              · simp only [h0, if_true]
                exact good_sub hG h0.symm rfl (fun D h => h)
              · exact good_of_delay h0
            · exact hG
  | addLink e =>
    simp only [step]
    split
    · exact hG
    · split
      · exact hG
      · exact good_sync ord _
  | addLinks es =>
    simp only [step]
    exact good_sync ord _
  | removeLink i =>
    simp only [step]
    split
    · exact hG
    · exact good_sync ord _
  | removeLinks is =>
    simp only [step]
    exact good_sync ord _
  | delayBegin =>
    apply good_of_delay
    simp [step]
  | delayEnd =>
    simp only [step]
    split
    · exact hG
    · exact good_sync ord _

theorem good_step (ord : List Nat) (s : MState) (op : Op) (hG : Good s) (hND : ND s) (hW : WFS s) :
    Good (step ord s op).1 := good_step_gen ord s op hG (Or.inr ⟨hND, hW⟩)

/-- A history in which no dataset is removed from the collection. -/
def noRemove : List (Op × List Nat) → Bool
  | [] => true
  | (.remove _, _) :: _ => false
  | _ :: r => noRemove r

/-- The synchronisation invariant along ANY history without `DataCollection.remove` — no
well-formedness assumption (dangling links, foreign cids, `update_id` on link endpoints allowed). -/
theorem good_run_noRemove (s : MState) (ops : List (Op × List Nat)) (hG : Good s)
    (hn : noRemove ops = true) : Good (run s ops) := by
  induction ops generalizing s with
  | nil => exact hG
  | cons a r ih =>
    obtain ⟨op, ord⟩ := a
    have h1 : (∀ d, op ≠ .remove d) ∧ noRemove r = true := by
      cases op <;> simp_all [noRemove]
    exact ih _ (good_step_gen ord s op hG (Or.inl h1.1)) h1.2

theorem good_init : Good MState.init := by
  intro _ D hD
  simp [MState.init] at hD

theorem nd_init : ND MState.init := by
  intro e he; simp [MState.init] at he

theorem wfs_init : WFS MState.init := by
  constructor <;> intro X hX <;> simp [MState.init] at hX

/-- All three invariants along a well-formed history. -/
theorem inv_run (s : MState) (ops : List (Op × List Nat)) (hG : Good s) (hN : ND s) (hW : WFS s)
    (hw : runWf s ops = true) : Good (run s ops) ∧ ND (run s ops) ∧ WFS (run s ops) := by
  induction ops generalizing s with
  | nil => exact ⟨hG, hN, hW⟩
  | cons a r ih =>
    obtain ⟨op, ord⟩ := a
    simp only [runWf, Bool.and_eq_true] at hw
    exact ih _ (good_step ord s op hG hN hW) (nd_step ord s op hN hw.1) (wfs_step ord s op hW hw.1) hw.2

theorem nd_run (s : MState) (ops : List (Op × List Nat)) (h : ND s) (hw : runWf s ops = true) :
    ND (run s ops) := by
  induction ops generalizing s with
  | nil => exact h
  | cons a r ih =>
    obtain ⟨op, ord⟩ := a
    simp only [runWf, Bool.and_eq_true] at hw
    exact ih _ (nd_step ord s op h hw.1) hw.2

/-! ### what a synchronised dataset reads -/

theorem get_map_derived {ds : List (Nat × CLink)} {c : Cid} {l : CLink}
    (h : get (ds.map fun p => (p.2.to, p.2)) c = some l) : ∃ p ∈ ds, p.2 = l ∧ p.2.to = c := by
  induction ds with
  | nil => cases h
  | cons a r ih =>
    simp only [List.map_cons, get_cons] at h
    split at h
    · rename_i hc
      injection h with h
      exact ⟨a, List.mem_cons_self .., h, hc.symm⟩
    · obtain ⟨p, hp, h1, h2⟩ := ih h
      exact ⟨p, List.mem_cons_of_mem _ hp, h1, h2⟩

/-- Under `internalFirst` the dict `get_data` uses agrees with the installed one. -/
theorem viaAll_get {D : DSet} (h : internalFirst D = true) (c : Cid) :
    get D.viaAll c = get D.cache.via c := by
  simp only [DSet.viaAll, get_append]
  split
  · rename_i l hl
    obtain ⟨p, hp, rfl, rfl⟩ := get_map_derived hl
    simp only [internalFirst, List.all_eq_true, beq_iff_eq] at h
    exact (h p hp).symm
  · rfl

/-- Once the fuel covers the longest recorded chain, more fuel changes nothing. -/
theorem installed_fuel (own : List Cid) (ls' : List CLink) (ownVal : Cid → Val) (N : Nat)
    (hN : ls'.length + 2 ≤ N) :
    evalC own ownVal applyFn (discoverLinks own ls').via N =
      installedVal own ownVal applyFn ls' (discoverLinks own ls') := by
  funext c
  have hF := discover_fix own ls'
  have hb : ∀ c d, get (discoverLinks own ls').depth c = some d → d + 1 ≤ ls'.length + 2 :=
    fun c d h => by have := discover_depth_le_length own ls' c d h; omega
  have hbN : ∀ c d, get (discoverLinks own ls').depth c = some d → d + 1 ≤ N :=
    fun c d h => Nat.le_trans (hb c d h) hN
  cases h : installedVal own ownVal applyFn ls' (discoverLinks own ls') c with
  | some v => exact evalC_mono_le own ownVal applyFn _ hN c v h
  | none =>
    have h1 := fix_installed_isSome hF ownVal applyFn (ls'.length + 2) hb c
    have h2 := fix_installed_isSome hF ownVal applyFn N hbN c
    cases h3 : evalC own ownVal applyFn (discoverLinks own ls').via N c with
    | none => rfl
    | some v =>
      have := h1.mpr (h2.mp (by simp [h3]))
      simp only [installedVal] at h
      rw [h] at this; cases this

theorem synced_read_eq {s : MState} {D : DSet} {ls' : List CLink}
    (hc : D.cache = discoverLinks D.comps ls') (hf : ls'.length + 1 ≤ D.fuel)
    (hi : internalFirst D = true) :
    readCid s D = installedVal D.comps (ownVal s.vals) applyFn ls' (discoverLinks D.comps ls') := by
  funext c
  simp only [readCid, readCidN]
  rw [evalC_congr_via D.comps (ownVal s.vals) applyFn (viaAll_get hi), hc,
    installed_fuel D.comps ls' (ownVal s.vals) _ (by omega)]

theorem synced_specOk {s : MState} (hS : Synced s) {D : DSet} (hD : D ∈ s.dsets)
    (hi : internalFirst D = true) (c : Cid) :
    specOkAt D.comps (curLinks s) (ownVal s.vals) applyFn (readCid s D) c = true := by
  obtain ⟨ls', hm, hc, hf⟩ := hS D hD
  rw [synced_read_eq hc hf hi]
  exact discover_specOkAt D.comps (curLinks s) _ (fun l => (hm l).symm) (ownVal s.vals) applyFn c

theorem synced_derivable {s : MState} (hS : Synced s) {D : DSet} (hD : D ∈ s.dsets) (c : Cid) :
    isDerivable D c = true ↔ (Reachable D.comps (curLinks s) c ∧ c ∉ D.comps) := by
  obtain ⟨ls', hm, hc, _⟩ := hS D hD
  have hF := discover_fix D.comps ls'
  unfold isDerivable
  rw [hc, fix_via_isSome hF c, fix_reachable hF c]
  constructor
  · rintro ⟨h1, h2⟩
    exact ⟨reachable_congr hm h1, h2⟩
  · rintro ⟨h1, h2⟩
    exact ⟨reachable_congr (fun l => (hm l).symm) h1, h2⟩

theorem synced_readable {s : MState} (hS : Synced s) {D : DSet} (hD : D ∈ s.dsets)
    (hi : internalFirst D = true) (c : Cid) :
    (readCid s D c).isSome = true ↔ Reachable D.comps (curLinks s) c := by
  obtain ⟨ls', hm, hc, hf⟩ := hS D hD
  have hF := discover_fix D.comps ls'
  have hN : ∀ c d, get (discoverLinks D.comps ls').depth c = some d → d + 1 ≤ ls'.length + 1 + 1 :=
    fun c d h => by
      have := discover_depth_le_length D.comps ls' c d h
      omega
  have := fix_installed_isSome hF (ownVal s.vals) applyFn _ hN c
  rw [synced_read_eq hc hf hi]
  simp only [installedVal]
  rw [this]
  constructor
  · exact reachable_congr hm
  · exact reachable_congr (fun l => (hm l).symm)

theorem synced_minVal {s : MState} (hS : Synced s) {D : DSet} (hD : D ∈ s.dsets)
    (hi : internalFirst D = true) (c : Cid) (v : Val) (hv : readCid s D c = some v) :
    MinVal D.comps (curLinks s) (ownVal s.vals) applyFn c v := by
  have hr : Reachable D.comps (curLinks s) c := (synced_readable hS hD hi c).mp (by simp [hv])
  obtain ⟨k, hk⟩ := reachable_derivLe hr
  exact specOk_minVal D.comps (curLinks s) (ownVal s.vals) applyFn (readCid s D)
    (fun c => synced_specOk hS hD hi c) k c v hk hv

/-! ### post-conditions of the two removal handlers -/

theorem removeComp_forgets (ord : List Nat) (s : MState) (d : Nat) (c : Cid) (D : DSet)
    (hf : findDs s.dsets d = some D) (hc : c ∈ D.ids) :
    ∀ e ∈ (step ord s (.removeComp d c)).1.ext, e.mentions c = false := by
  have hds : dsAt true s d = some D := hf
  simp only [step, hf, removeRec, hds, hc, if_true]
  rw [sync_ext]
  intro e he
  exact (dropLinks_ext_sub ord _ _ e he).2

/-- … and none of the cids removed by the cascade. -/
theorem removeComp_forgets_all (ord : List Nat) (s : MState) (d : Nat) (c : Cid) :
    ∀ e ∈ (step ord s (.removeComp d c)).1.ext, ∀ c' ∈ e.cids, liveCid s c' = true →
      liveCid (step ord s (.removeComp d c)).1 c' = true := by
  simp only [step]
  split
  · exact removeRec_forgets ord true d _ s c
  · split
    · intro _ _ _ _ h; exact h
    · exact removeRec_forgets ord false d _ s c

theorem remove_forgets (ord : List Nat) (s : MState) (d : Nat) :
    ∀ e ∈ (step ord s (.remove d)).1.ext, ∀ D ∈ s.dsets, D.id = d → ∀ c ∈ D.ids,
      e.mentions c = false := by
  intro e he D hD hid c hc
  simp only [step] at he
  split at he
  · rename_i hemp
    have : D ∈ List.filter (fun X => X.id == d) s.dsets := List.mem_filter.mpr ⟨hD, by simp [hid]⟩
    simp only [List.isEmpty_iff] at hemp
    rw [hemp] at this; cases this
  · have := (dropLinks_ext_sub ord _ _ e he).2
    cases hm : e.mentions c with
    | false => rfl
    | true =>
      have h2 : (List.filter (fun X => X.id == d) s.dsets).any
          (fun D => D.ids.any (fun x => e.mentions x)) = true :=
        List.any_eq_true.mpr ⟨D, List.mem_filter.mpr ⟨hD, by simp [hid]⟩,
          List.any_eq_true.mpr ⟨c, hc, hm⟩⟩
      rw [h2] at this; cases this

end GlueVerif.Lemmas.C03
