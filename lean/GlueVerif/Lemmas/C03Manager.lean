import GlueVerif.Lemmas.C03Links
/-! Helper lemmas for C03: the LinkManager / DataCollection state machine. -/
namespace GlueVerif.Lemmas.C03
open GlueVerif.Links

/-! ### the scanned list has exactly the current links as members -/

theorem mem_scanList (ord : List Nat) (all : List (Nat × CLink)) (l : CLink) :
    l ∈ scanList ord all ↔ l ∈ all.map (·.2) := by
  unfold scanList
  constructor
  · intro h
    rcases List.mem_append.mp h with h | h
    · obtain ⟨i, _, hi⟩ := List.mem_filterMap.mp h
      cases hf : all.find? (fun p => p.1 == i) with
      | none => rw [hf] at hi; cases hi
      | some p =>
        rw [hf] at hi
        simp only [Option.map_some, Option.some.injEq] at hi
        subst hi
        exact List.mem_map.mpr ⟨p, List.mem_of_find?_eq_some hf, rfl⟩
    · exact h
  · intro h; exact List.mem_append.mpr (Or.inr h)

/-! ### synchronisation invariant -/

/-- Every dataset of the collection holds exactly what `discover_links` computes from the current
links (for the scan order of its last update). -/
def Synced (s : MState) : Prop :=
  ∀ D ∈ s.dsets, ∃ ord, D.cache = discoverLinks D.comps (scanList ord (effLinks s.ext)) ∧
    D.fuel = (scanList ord (effLinks s.ext)).length + 1

def Good (s : MState) : Prop := s.delay = 0 → Synced s

@[simp] theorem update_ext (ord : List Nat) (s : MState) : (update ord s).ext = s.ext := rfl
@[simp] theorem update_delay (ord : List Nat) (s : MState) : (update ord s).delay = s.delay := rfl
@[simp] theorem update_vals (ord : List Nat) (s : MState) : (update ord s).vals = s.vals := rfl

theorem synced_update (ord : List Nat) (s : MState) : Synced (update ord s) := by
  intro D hD
  simp only [update, List.mem_map] at hD
  obtain ⟨D0, _, rfl⟩ := hD
  exact ⟨ord, rfl, rfl⟩

theorem good_update (ord : List Nat) (s : MState) : Good (update ord s) :=
  fun _ => synced_update ord s

theorem good_of_delay {s : MState} (h : s.delay ≠ 0) : Good s := fun h0 => absurd h0 h

theorem good_sync (ord : List Nat) (s : MState) : Good (sync ord s) := by
  unfold sync
  split
  · exact good_update ord s
  · rename_i h; exact good_of_delay h

theorem good_dropLinks (ord : List Nat) (p : Entry → Bool) {s : MState} (h : Good s) :
    Good (dropLinks ord p s) := by
  unfold dropLinks
  split
  · exact good_update ord _
  · exact h

/-- A state with the same links and delay counter whose collection datasets all come from `s`. -/
theorem good_sub {s s' : MState} (h : Good s) (hd : s'.delay = s.delay) (he : s'.ext = s.ext)
    (hs : ∀ D ∈ s'.dsets, D ∈ s.dsets) : Good s' := by
  intro h0
  intro D hD
  have := h (by rw [← hd]; exact h0) D (hs D hD)
  rw [he]; exact this

theorem good_step (ord : List Nat) (s : MState) (op : Op) (hG : Good s) :
    Good (step ord s op).1 := by
  cases op with
  | newData d comps => exact good_sub hG rfl rfl (fun D h => h)
  | append d =>
    simp only [step]
    split
    · exact hG
    · exact good_sync ord _
  | remove d =>
    simp only [step]
    split
    · exact hG
    · apply good_dropLinks
      exact good_sub hG rfl rfl (fun D h => (List.mem_filter.mp h).1)
  | addComp d c v =>
    simp only [step]
    split
    · split
      · exact hG
      · exact good_sync ord _
    · split
      · exact hG
      · split
        · exact hG
        · exact good_sub hG rfl rfl (fun D h => h)
  | removeComp d c =>
    simp only [step]
    split
    · split
      · exact good_sync ord _
      · exact hG
    · split
      · exact hG
      · split
        · split
          · apply good_dropLinks
            exact good_sub hG rfl rfl (fun D h => h)
          · exact good_sub hG rfl rfl (fun D h => h)
        · exact hG
  | addLink e =>
    simp only [step]
    split
    · exact hG
    · split
      · exact hG
      · exact good_sync ord _
  | addLinks es =>
    simp only [step]
    exact good_sync ord _
  | removeLink i =>
    simp only [step]
    split
    · exact hG
    · exact good_sync ord _
  | removeLinks is =>
    simp only [step]
    exact good_sync ord _
  | delayBegin =>
    apply good_of_delay
    simp [step]
  | delayEnd =>
    simp only [step]
    split
    · exact hG
    · exact good_sync ord _

theorem good_init : Good MState.init := by
  intro _ D hD
  simp [MState.init] at hD

theorem good_run (s : MState) (ops : List (Op × List Nat)) (hG : Good s) : Good (run s ops) := by
  induction ops generalizing s with
  | nil => exact hG
  | cons a r ih =>
    obtain ⟨op, ord⟩ := a
    exact ih _ (good_step ord s op hG)

/-! ### no stored link mentions a removed cid / dataset -/

def ND (s : MState) : Prop := ∀ e ∈ s.ext, ∀ c ∈ e.cids, liveCid s c = true

theorem nd_iff (s : MState) : noDangling s = true ↔ ND s := by
  simp [noDangling, ND, List.all_eq_true]

theorem mem_cids_mentions (e : Entry) (c : Cid) : c ∈ e.cids ↔ e.mentions c = true := by
  simp only [Entry.cids, Entry.mentions, List.mem_flatMap, List.any_eq_true, LinkObj.mentions,
    Bool.or_eq_true, decide_eq_true_eq, List.mem_cons]
  constructor
  · rintro ⟨o, ho, h⟩
    exact ⟨o, ho, h.symm⟩
  · rintro ⟨o, ho, h⟩
    exact ⟨o, ho, h.symm⟩

theorem liveCid_update (ord : List Nat) (s : MState) (c : Cid) :
    liveCid (update ord s) c = liveCid s c := by
  simp [liveCid, update, List.any_map, Function.comp_def]

theorem liveCid_sync (ord : List Nat) (s : MState) (c : Cid) :
    liveCid (sync ord s) c = liveCid s c := by
  unfold sync
  split
  · exact liveCid_update ord s c
  · rfl

theorem sync_ext (ord : List Nat) (s : MState) : (sync ord s).ext = s.ext := by
  unfold sync; split <;> rfl

theorem nd_sync (ord : List Nat) {s : MState} (h : ND s) : ND (sync ord s) := by
  intro e he c hc
  rw [sync_ext] at he
  rw [liveCid_sync]
  exact h e he c hc

/-- Transfer along a step that keeps or adds live links and does not shrink liveness. -/
theorem nd_mono {s s' : MState} (h : ND s)
    (hext : ∀ e ∈ s'.ext, e ∈ s.ext ∨ ∀ c ∈ e.cids, liveCid s' c = true)
    (hlive : ∀ c, liveCid s c = true → liveCid s' c = true) : ND s' := by
  intro e he c hc
  rcases hext e he with h1 | h2
  · exact hlive c (h e h1 c hc)
  · exact h2 c hc

theorem nd_dropLinks (ord : List Nat) (p : Entry → Bool) (s : MState)
    (h : ∀ e ∈ s.ext, p e = false → ∀ c ∈ e.cids, liveCid s c = true) : ND (dropLinks ord p s) := by
  unfold dropLinks
  split
  · intro e he c hc
    rw [liveCid_update]
    simp only [update_ext, List.mem_filter, Bool.not_eq_true'] at he
    exact h e he.1 he.2 c hc
  · rename_i hany
    intro e he c hc
    have : p e = false := by
      cases hp : p e with
      | false => rfl
      | true => exact absurd (List.any_eq_true.mpr ⟨e, he, hp⟩) hany
    exact h e he this c hc

theorem addOne_mem {ext ext' : List Entry} {e : Entry} (h : addOne ext e = .ok ext') :
    ∀ x ∈ ext', x ∈ ext ∨ x = e := by
  intro x hx
  unfold addOne at h
  split at h
  · split at h
    · cases h
    · injection h with h; subst h
      rcases List.mem_append.mp hx with h1 | h1
      · exact Or.inl h1
      · exact Or.inr (by simpa using h1)
  · split at h
    · injection h with h; subst h
      rcases List.mem_append.mp hx with h1 | h1
      · exact Or.inl h1
      · exact Or.inr (by simpa using h1)
    · split at h
      · injection h with h; subst h; exact Or.inl hx
      · injection h with h; subst h
        rcases List.mem_append.mp hx with h1 | h1
        · exact Or.inl h1
        · exact Or.inr (by simpa using h1)

theorem addMany_mem (es : List Entry) : ∀ ext : List Entry,
    ∀ x ∈ (addMany ext es).1, x ∈ ext ∨ x ∈ es := by
  induction es with
  | nil => intro ext x hx; exact Or.inl hx
  | cons e r ih =>
    intro ext x hx
    unfold addMany at hx
    split at hx
    · rename_i ext' h1
      rcases ih ext' x hx with h2 | h2
      · rcases addOne_mem h1 x h2 with h3 | h3
        · exact Or.inl h3
        · exact Or.inr (by simp [h3])
      · exact Or.inr (by simp [h2])
    · exact Or.inl hx

theorem eraseId_mem {ext ext' : List Entry} {i : Nat} (h : eraseId ext i = some ext') :
    ∀ x ∈ ext', x ∈ ext := by
  induction ext generalizing ext' with
  | nil => cases h
  | cons a r ih =>
    unfold eraseId at h
    split at h
    · injection h with h; subst h
      intro x hx; exact List.mem_cons_of_mem _ hx
    · cases hr : eraseId r i with
      | none => rw [hr] at h; cases h
      | some r' =>
        rw [hr] at h
        simp only [Option.map_some, Option.some.injEq] at h
        subst h
        intro x hx
        rcases List.mem_cons.mp hx with rfl | hx'
        · simp
        · exact List.mem_cons_of_mem _ (ih hr x hx')

theorem removeMany_mem (is : List Nat) : ∀ ext : List Entry,
    ∀ x ∈ (removeMany ext is).1, x ∈ ext := by
  induction is with
  | nil => intro ext x hx; exact hx
  | cons i r ih =>
    intro ext x hx
    unfold removeMany at hx
    split at hx
    · rename_i ext' h1
      exact eraseId_mem h1 x (ih ext' x hx)
    · exact hx

theorem liveCid_of_mem {s : MState} {c : Cid} {D : DSet} (hD : D ∈ s.dsets) (hc : c ∈ D.comps) :
    liveCid s c = true := by
  simp only [liveCid, Bool.or_eq_true, List.any_eq_true, decide_eq_true_eq]
  exact Or.inr ⟨D, hD, hc⟩

theorem liveCid_cases {s : MState} {c : Cid} (h : liveCid s c = true) :
    (c.1 == freeDs) = true ∨ ∃ D ∈ s.dsets, c ∈ D.comps := by
  simpa [liveCid] using h

theorem liveCid_of_free {s : MState} {c : Cid} (h : (c.1 == freeDs) = true) : liveCid s c = true := by
  simp [liveCid, h]

theorem nd_step (ord : List Nat) (s : MState) (op : Op) (h : ND s) (hw : wfOp s op = true) :
    ND (step ord s op).1 := by
  cases op with
  | newData d comps => exact nd_mono h (fun e he => Or.inl he) (fun c hc => hc)
  | append d =>
    simp only [step]
    split
    · exact h
    · apply nd_sync
      refine nd_mono h (fun e he => Or.inl he) ?_
      intro c hc
      rcases liveCid_cases hc with hf | ⟨D, hD, hcD⟩
      · exact liveCid_of_free hf
      · exact liveCid_of_mem (D := D) (List.mem_append.mpr (Or.inl hD)) hcD
  | remove d =>
    simp only [step]
    split
    · exact h
    · apply nd_dropLinks
      intro e he hp c hc
      rcases liveCid_cases (h e he c hc) with hf | ⟨D, hD, hcD⟩
      · exact liveCid_of_free hf
      · by_cases hid : D.id = d
        · -- then `e` mentions an own cid of a removed dataset: contradiction with `hp`
          have : (List.filter (fun X => X.id == d) s.dsets).any
              (fun D => D.comps.any (fun x => e.mentions x)) = true := by
            refine List.any_eq_true.mpr ⟨D, List.mem_filter.mpr ⟨hD, by simp [hid]⟩, ?_⟩
            exact List.any_eq_true.mpr ⟨c, hcD, (mem_cids_mentions e c).mp hc⟩
          rw [this] at hp; cases hp
        · exact liveCid_of_mem (D := D) (List.mem_filter.mpr ⟨hD, by simp [hid]⟩) hcD
  | addComp d c v =>
    simp only [step]
    split
    · split
      · exact h
      · apply nd_sync
        refine nd_mono h (fun e he => Or.inl he) ?_
        intro c' hc'
        rcases liveCid_cases hc' with hf | ⟨D, hD, hcD⟩
        · exact liveCid_of_free hf
        · by_cases hid : D.id = d
          · refine liveCid_of_mem (D := { D with comps := D.comps ++ [c] }) ?_ ?_
            · simp only [modDs, List.mem_map]
              exact ⟨D, hD, by simp [hid]⟩
            · exact List.mem_append.mpr (Or.inl hcD)
          · refine liveCid_of_mem (D := D) ?_ hcD
            simp only [modDs, List.mem_map]
            exact ⟨D, hD, by simp [hid]⟩
    · split
      · exact h
      · split
        · exact h
        · exact nd_mono h (fun e he => Or.inl he) (fun c hc => hc)
  | removeComp d c =>
    simp only [step]
    split
    · split
      · apply nd_sync
        apply nd_dropLinks
        intro e he hp c' hc'
        have hne : c' ≠ c := by
          intro heq; subst heq
          rw [(mem_cids_mentions e c').mp hc'] at hp; cases hp
        rcases liveCid_cases (h e he c' hc') with hf | ⟨D, hD, hcD⟩
        · exact liveCid_of_free hf
        · by_cases hid : D.id = d
          · refine liveCid_of_mem (D := { D with comps := D.comps.filter (· != c) }) ?_ ?_
            · simp only [modDs, List.mem_map]
              exact ⟨D, hD, by simp [hid]⟩
            · exact List.mem_filter.mpr ⟨hcD, by simpa using hne⟩
          · refine liveCid_of_mem (D := D) ?_ hcD
            simp only [modDs, List.mem_map]
            exact ⟨D, hD, by simp [hid]⟩
      · exact h
    · split
      · exact h
      · split
        · split
          · apply nd_dropLinks
            intro e he _ c' hc'
            exact h e he c' hc'
          · exact nd_mono h (fun e he => Or.inl he) (fun c hc => hc)
        · exact h
  | addLink e =>
    simp only [wfOp, List.all_eq_true] at hw
    simp only [step]
    split
    · exact h
    · rename_i ext' hadd
      split
      · exact h
      · apply nd_sync
        refine nd_mono h ?_ (fun c hc => hc)
        intro x hx
        rcases addOne_mem hadd x hx with h1 | h1
        · exact Or.inl h1
        · subst h1; exact Or.inr (fun c hc => hw c hc)
  | addLinks es =>
    simp only [wfOp, List.all_eq_true] at hw
    have key : ND { s with ext := (addMany s.ext es).1 } := by
      refine nd_mono h ?_ (fun c hc => hc)
      intro x hx
      rcases addMany_mem es s.ext x hx with h1 | h1
      · exact Or.inl h1
      · exact Or.inr (fun c hc => hw x h1 c hc)
    simp only [step]
    exact nd_sync ord key
  | removeLink i =>
    simp only [step]
    split
    · exact h
    · rename_i ext' her
      apply nd_sync
      exact nd_mono h (fun x hx => Or.inl (eraseId_mem her x hx)) (fun c hc => hc)
  | removeLinks is =>
    have key : ND { s with ext := (removeMany s.ext is).1 } :=
      nd_mono h (fun x hx => Or.inl (removeMany_mem is s.ext x hx)) (fun c hc => hc)
    simp only [step]
    exact nd_sync ord key
  | delayBegin => exact nd_mono h (fun e he => Or.inl he) (fun c hc => hc)
  | delayEnd =>
    simp only [step]
    split
    · exact h
    · apply nd_sync
      exact nd_mono h (fun e he => Or.inl he) (fun c hc => hc)

theorem nd_run (s : MState) (ops : List (Op × List Nat)) (h : ND s) (hw : runWf s ops = true) :
    ND (run s ops) := by
  induction ops generalizing s with
  | nil => exact h
  | cons a r ih =>
    obtain ⟨op, ord⟩ := a
    simp only [runWf, Bool.and_eq_true] at hw
    exact ih _ (nd_step ord s op h hw.1) hw.2

/-- After `remove_component(c)` on a dataset registered with the hub no stored link mentions `c`. -/
theorem dropLinks_none (ord : List Nat) (p : Entry → Bool) (s : MState) :
    ∀ e ∈ (dropLinks ord p s).ext, p e = false := by
  unfold dropLinks
  split
  · intro e he
    simp only [update_ext, List.mem_filter, Bool.not_eq_true'] at he
    exact he.2
  · rename_i hany
    intro e he
    cases hp : p e with
    | false => rfl
    | true => exact absurd (List.any_eq_true.mpr ⟨e, he, hp⟩) hany

/-! ### what a synchronised dataset reads -/

theorem curLinks_scan (s : MState) (ord : List Nat) :
    ∀ l, l ∈ curLinks s ↔ l ∈ scanList ord (effLinks s.ext) :=
  fun l => (mem_scanList ord (effLinks s.ext) l).symm

theorem synced_read_eq {s : MState} {D : DSet} {ord : List Nat}
    (hc : D.cache = discoverLinks D.comps (scanList ord (effLinks s.ext)))
    (hf : D.fuel = (scanList ord (effLinks s.ext)).length + 1) :
    readCid s D = installedVal D.comps (ownVal s.vals) applyFn (scanList ord (effLinks s.ext))
      (discoverLinks D.comps (scanList ord (effLinks s.ext))) := by
  funext c
  simp only [readCid, installedVal, hc, hf]

theorem synced_specOk {s : MState} (hS : Synced s) {D : DSet} (hD : D ∈ s.dsets) (c : Cid) :
    specOkAt D.comps (curLinks s) (ownVal s.vals) applyFn (readCid s D) c = true := by
  obtain ⟨ord, hc, hf⟩ := hS D hD
  rw [synced_read_eq hc hf]
  exact discover_specOkAt D.comps (curLinks s) _ (curLinks_scan s ord) (ownVal s.vals) applyFn c

theorem synced_derivable {s : MState} (hS : Synced s) {D : DSet} (hD : D ∈ s.dsets) (c : Cid) :
    isDerivable D c = true ↔ (Reachable D.comps (curLinks s) c ∧ c ∉ D.comps) := by
  obtain ⟨ord, hc, _⟩ := hS D hD
  have hF := discover_fix D.comps (scanList ord (effLinks s.ext))
  unfold isDerivable
  rw [hc, fix_via_isSome hF c, fix_reachable hF c]
  constructor
  · rintro ⟨h1, h2⟩
    exact ⟨reachable_congr (fun l => (curLinks_scan s ord l).symm) h1, h2⟩
  · rintro ⟨h1, h2⟩
    exact ⟨reachable_congr (curLinks_scan s ord) h1, h2⟩

theorem synced_readable {s : MState} (hS : Synced s) {D : DSet} (hD : D ∈ s.dsets) (c : Cid) :
    (readCid s D c).isSome = true ↔ Reachable D.comps (curLinks s) c := by
  obtain ⟨ord, hc, hf⟩ := hS D hD
  have hF := discover_fix D.comps (scanList ord (effLinks s.ext))
  have hN : ∀ c d, get (discoverLinks D.comps (scanList ord (effLinks s.ext))).depth c = some d →
      d + 1 ≤ (scanList ord (effLinks s.ext)).length + 1 + 1 :=
    fun c d h => by
      have := discover_depth_le_length D.comps (scanList ord (effLinks s.ext)) c d h
      omega
  have := fix_installed_isSome hF (ownVal s.vals) applyFn _ hN c
  simp only [readCid, hc, hf]
  rw [this]
  constructor
  · exact reachable_congr (fun l => (curLinks_scan s ord l).symm)
  · exact reachable_congr (curLinks_scan s ord)

theorem synced_minVal {s : MState} (hS : Synced s) {D : DSet} (hD : D ∈ s.dsets) (c : Cid) (v : Val)
    (hv : readCid s D c = some v) :
    MinVal D.comps (curLinks s) (ownVal s.vals) applyFn c v := by
  have hr : Reachable D.comps (curLinks s) c := (synced_readable hS hD c).mp (by simp [hv])
  obtain ⟨k, hk⟩ := reachable_derivLe hr
  exact specOk_minVal D.comps (curLinks s) (ownVal s.vals) applyFn (readCid s D)
    (fun c => synced_specOk hS hD c) k c v hk hv

/-! ### post-conditions of the two removal handlers -/

theorem removeComp_forgets (ord : List Nat) (s : MState) (d : Nat) (c : Cid) (D : DSet)
    (hf : findDs s.dsets d = some D) (hc : c ∈ D.comps) :
    ∀ e ∈ (step ord s (.removeComp d c)).1.ext, e.mentions c = false := by
  simp only [step, hf, hc, if_true]
  rw [sync_ext]
  exact dropLinks_none ord _ _

theorem remove_forgets (ord : List Nat) (s : MState) (d : Nat) :
    ∀ e ∈ (step ord s (.remove d)).1.ext, ∀ D ∈ s.dsets, D.id = d → ∀ c ∈ D.comps,
      e.mentions c = false := by
  intro e he D hD hid c hc
  simp only [step] at he
  split at he
  · rename_i hemp
    have : D ∈ List.filter (fun X => X.id == d) s.dsets := List.mem_filter.mpr ⟨hD, by simp [hid]⟩
    simp only [List.isEmpty_iff] at hemp
    rw [hemp] at this; cases this
  · have := dropLinks_none ord _ _ e he
    cases hm : e.mentions c with
    | false => rfl
    | true =>
      have h2 : (List.filter (fun X => X.id == d) s.dsets).any
          (fun D => D.comps.any (fun x => e.mentions x)) = true :=
        List.any_eq_true.mpr ⟨D, List.mem_filter.mpr ⟨hD, by simp [hid]⟩,
          List.any_eq_true.mpr ⟨c, hc, hm⟩⟩
      rw [h2] at this; cases this

end GlueVerif.Lemmas.C03
