import GlueVerif.Model.SubsetEval
/-!
Helper lemmas for the subset-state evaluation model (C01; reusable by C05).

* graph extension `Graph.Le`, monotonicity / functionality / depth bound of `Rep`;
* `copyNode_spec`: `copy()` yields a new object representing the same value (faithful class table);
* `toMask_spec`: the cache-coherence invariant and `to_mask = denote`;
* program-level simulation `Impl.run` ↔ `Spec.run`.
-/
namespace GlueVerif.SubsetEval

theorem getElem?_append_some {α} {l l' : List α} {i : Nat} {x : α} (h : l[i]? = some x) :
    (l ++ l')[i]? = some x := by
  have hi : i < l.length := by
    rcases Nat.lt_or_ge i l.length with h' | h'
    · exact h'
    · rw [List.getElem?_eq_none_iff.mpr h'] at h; cases h
  rw [List.getElem?_append_left hi]; exact h

theorem lt_length_of_getElem? {α} {l : List α} {i : Nat} {x : α} (h : l[i]? = some x) :
    i < l.length := by
  rcases Nat.lt_or_ge i l.length with h' | h'
  · exact h'
  · rw [List.getElem?_eq_none_iff.mpr h'] at h; cases h

theorem getElem?_append_length {α} (l : List α) (x : α) : (l ++ [x])[l.length]? = some x := by
  simp

/-! ## Graph extension -/

structure Graph.Le (g g' : Graph) : Prop where
  nodes : ∀ (i : Nat) (x : Node), g.nodes[i]? = some x → g'.nodes[i]? = some x
  params : ∀ (i : Nat) (x : Content), g.params[i]? = some x → g'.params[i]? = some x
  lists : ∀ (i : Nat) (x : List NodeId), g.lists[i]? = some x → g'.lists[i]? = some x
  len : g.nodes.length ≤ g'.nodes.length

theorem Graph.Le.refl (g : Graph) : g.Le g := ⟨fun _ _ h => h, fun _ _ h => h, fun _ _ h => h, Nat.le_refl _⟩

theorem Graph.Le.trans {a b c : Graph} (h1 : a.Le b) (h2 : b.Le c) : a.Le c :=
  ⟨fun i x h => h2.nodes i x (h1.nodes i x h), fun i x h => h2.params i x (h1.params i x h),
   fun i x h => h2.lists i x (h1.lists i x h), Nat.le_trans h1.len h2.len⟩

theorem Graph.addNode_le (g : Graph) (nd : Node) : g.Le (g.addNode nd).1 :=
  ⟨fun _ _ h => getElem?_append_some h, fun _ _ h => h, fun _ _ h => h, by simp [Graph.addNode]⟩

theorem Graph.addParam_le (g : Graph) (c : Content) : g.Le (g.addParam c).1 :=
  ⟨fun _ _ h => h, fun _ _ h => getElem?_append_some h, fun _ _ h => h, by simp [Graph.addParam]⟩

theorem Graph.addList_le (g : Graph) (l : List NodeId) : g.Le (g.addList l).1 :=
  ⟨fun _ _ h => h, fun _ _ h => h, fun _ _ h => getElem?_append_some h, by simp [Graph.addList]⟩

theorem Graph.addNode_get (g : Graph) (nd : Node) :
    (g.addNode nd).1.nodes[(g.addNode nd).2]? = some nd := by
  simp [Graph.addNode]

theorem Graph.addParam_get (g : Graph) (c : Content) :
    (g.addParam c).1.params[(g.addParam c).2]? = some c := by
  simp [Graph.addParam]

theorem Graph.addList_get (g : Graph) (l : List NodeId) :
    (g.addList l).1.lists[(g.addList l).2]? = some l := by
  simp [Graph.addList]

/-! ## `Rep` -/

mutual
theorem Rep.mono {g g' : Graph} (hle : g.Le g') : ∀ (e : Expr) (n : Nat), Rep g n e → Rep g' n e
  | .leaf c, n, h => by
    simp only [Rep] at h ⊢
    obtain ⟨k, p, h1, h2⟩ := h
    exact ⟨k, p, hle.nodes _ _ h1, hle.params _ _ h2⟩
  | .bin op a b, n, h => by
    simp only [Rep] at h ⊢
    obtain ⟨l, r, h1, hl, hr, ha, hb⟩ := h
    exact ⟨l, r, hle.nodes _ _ h1, hl, hr, Rep.mono hle a l ha, Rep.mono hle b r hb⟩
  | .inv a, n, h => by
    simp only [Rep] at h ⊢
    obtain ⟨c, h1, hc, ha⟩ := h
    exact ⟨c, hle.nodes _ _ h1, hc, Rep.mono hle a c ha⟩
  | .multiOr es, n, h => by
    simp only [Rep] at h ⊢
    obtain ⟨lst, cs, h1, h2, hne, h3⟩ := h
    exact ⟨lst, cs, hle.nodes _ _ h1, hle.lists _ _ h2, hne, RepList.mono hle es cs n h3⟩
theorem RepList.mono {g g' : Graph} (hle : g.Le g') :
    ∀ (es : List Expr) (cs : List Nat) (b : Nat), RepList g b cs es → RepList g' b cs es
  | [], [], _, _ => by simp only [RepList]
  | e :: es, c :: cs, b, h => by
    simp only [RepList] at h ⊢
    exact ⟨h.1, Rep.mono hle e c h.2.1, RepList.mono hle es cs b h.2.2⟩
  | [], _ :: _, _, h => by simp only [RepList] at h
  | _ :: _, [], _, h => by simp only [RepList] at h
end

theorem Rep.lt_length {g : Graph} : ∀ {e : Expr} {n : Nat}, Rep g n e → n < g.nodes.length
  | .leaf _, _, h => by simp only [Rep] at h; obtain ⟨_, _, h1, _⟩ := h; exact lt_length_of_getElem? h1
  | .bin _ _ _, _, h => by simp only [Rep] at h; obtain ⟨_, _, h1, _⟩ := h; exact lt_length_of_getElem? h1
  | .inv _, _, h => by simp only [Rep] at h; obtain ⟨_, h1, _⟩ := h; exact lt_length_of_getElem? h1
  | .multiOr _, _, h => by simp only [Rep] at h; obtain ⟨_, _, h1, _⟩ := h; exact lt_length_of_getElem? h1

mutual
theorem Rep.depth_le {g : Graph} : ∀ (e : Expr) (n : Nat), Rep g n e → e.depth ≤ n
  | .leaf c, n, _ => by simp [Expr.depth]
  | .bin op a b, n, h => by
    simp only [Rep] at h
    obtain ⟨l, r, _, hl, hr, ha, hb⟩ := h
    have := Rep.depth_le a l ha
    have := Rep.depth_le b r hb
    simp only [Expr.depth]; omega
  | .inv a, n, h => by
    simp only [Rep] at h
    obtain ⟨c, _, hc, ha⟩ := h
    have := Rep.depth_le a c ha
    simp only [Expr.depth]; omega
  | .multiOr es, n, h => by
    simp only [Rep] at h
    obtain ⟨lst, cs, _, _, hne, h3⟩ := h
    have := RepList.depth_lt es cs n h3 hne
    simp only [Expr.depth]
    omega
theorem RepList.depth_lt {g : Graph} :
    ∀ (es : List Expr) (cs : List Nat) (b : Nat), RepList g b cs es → es ≠ [] → depthList es < b
  | [], _, _, _, hne => absurd rfl hne
  | e :: es, c :: cs, b, h, _ => by
    simp only [RepList] at h
    have h1 := Rep.depth_le e c h.2.1
    simp only [depthList]
    cases es with
    | nil => simp [depthList]; omega
    | cons e' es' =>
      have := RepList.depth_lt (e' :: es') cs b h.2.2 (by simp)
      omega
  | _ :: _, [], _, h, _ => by simp only [RepList] at h
end

mutual
theorem Rep.functional {g : Graph} :
    ∀ (e e' : Expr) (n : Nat), Rep g n e → Rep g n e' → e = e'
  | .leaf c, e', n, h, h' => by
    simp only [Rep] at h
    obtain ⟨k, p, h1, h2⟩ := h
    cases e' with
    | leaf c' =>
      simp only [Rep] at h'
      obtain ⟨k', p', h1', h2'⟩ := h'
      rw [h1] at h1'; cases h1'; rw [h2] at h2'; cases h2'; rfl
    | bin _ _ _ => simp only [Rep] at h'; obtain ⟨_, _, h1', _⟩ := h'; rw [h1] at h1'; cases h1'
    | inv _ => simp only [Rep] at h'; obtain ⟨_, h1', _⟩ := h'; rw [h1] at h1'; cases h1'
    | multiOr _ => simp only [Rep] at h'; obtain ⟨_, _, h1', _⟩ := h'; rw [h1] at h1'; cases h1'
  | .bin op a b, e', n, h, h' => by
    simp only [Rep] at h
    obtain ⟨l, r, h1, _, _, ha, hb⟩ := h
    cases e' with
    | leaf c' => simp only [Rep] at h'; obtain ⟨_, _, h1', _⟩ := h'; rw [h1] at h1'; cases h1'
    | bin op' a' b' =>
      simp only [Rep] at h'
      obtain ⟨l', r', h1', _, _, ha', hb'⟩ := h'
      rw [h1] at h1'; cases h1'
      rw [Rep.functional a a' l ha ha', Rep.functional b b' r hb hb']
    | inv _ => simp only [Rep] at h'; obtain ⟨_, h1', _⟩ := h'; rw [h1] at h1'; cases h1'
    | multiOr _ => simp only [Rep] at h'; obtain ⟨_, _, h1', _⟩ := h'; rw [h1] at h1'; cases h1'
  | .inv a, e', n, h, h' => by
    simp only [Rep] at h
    obtain ⟨c, h1, _, ha⟩ := h
    cases e' with
    | leaf c' => simp only [Rep] at h'; obtain ⟨_, _, h1', _⟩ := h'; rw [h1] at h1'; cases h1'
    | bin _ _ _ => simp only [Rep] at h'; obtain ⟨_, _, h1', _⟩ := h'; rw [h1] at h1'; cases h1'
    | inv a' =>
      simp only [Rep] at h'
      obtain ⟨c', h1', _, ha'⟩ := h'
      rw [h1] at h1'; cases h1'
      rw [Rep.functional a a' c ha ha']
    | multiOr _ => simp only [Rep] at h'; obtain ⟨_, _, h1', _⟩ := h'; rw [h1] at h1'; cases h1'
  | .multiOr es, e', n, h, h' => by
    simp only [Rep] at h
    obtain ⟨lst, cs, h1, h2, _, h3⟩ := h
    cases e' with
    | leaf c' => simp only [Rep] at h'; obtain ⟨_, _, h1', _⟩ := h'; rw [h1] at h1'; cases h1'
    | bin _ _ _ => simp only [Rep] at h'; obtain ⟨_, _, h1', _⟩ := h'; rw [h1] at h1'; cases h1'
    | inv _ => simp only [Rep] at h'; obtain ⟨_, h1', _⟩ := h'; rw [h1] at h1'; cases h1'
    | multiOr es' =>
      simp only [Rep] at h'
      obtain ⟨lst', cs', h1', h2', _, h3'⟩ := h'
      rw [h1] at h1'; cases h1'; rw [h2] at h2'; cases h2'
      rw [RepList.functional es es' cs n h3 h3']
theorem RepList.functional {g : Graph} :
    ∀ (es es' : List Expr) (cs : List Nat) (b : Nat), RepList g b cs es → RepList g b cs es' → es = es'
  | [], [], [], _, _, _ => rfl
  | [], _ :: _, [], _, _, h' => by simp only [RepList] at h'
  | [], _, _ :: _, _, h, _ => by simp only [RepList] at h
  | _ :: _, _, [], _, h, _ => by simp only [RepList] at h
  | _ :: _, [], _ :: _, _, _, h' => by simp only [RepList] at h'
  | e :: es, e' :: es', c :: cs, b, h, h' => by
    simp only [RepList] at h h'
    rw [Rep.functional e e' c h.2.1 h'.2.1, RepList.functional es es' cs b h.2.2 h'.2.2]
end

theorem RepList.mono_bound {g : Graph} {b b' : Nat} (hb : b ≤ b') :
    ∀ (es : List Expr) (cs : List Nat), RepList g b cs es → RepList g b' cs es
  | [], [], _ => by simp only [RepList]
  | e :: es, c :: cs, h => by
    simp only [RepList] at h ⊢
    exact ⟨by omega, h.2.1, RepList.mono_bound hb es cs h.2.2⟩
  | [], _ :: _, h => by simp only [RepList] at h
  | _ :: _, [], h => by simp only [RepList] at h

/-! ## `copy()` -/

theorem copyNode_spec (tbl : ClassTable) (hf : tbl.Faithful) :
    ∀ (fuel : Nat) (g : Graph) (n : Nat) (e : Expr), Rep g n e → e.depth < fuel →
      ∃ g' n', copyNode tbl fuel g n = (g', some n') ∧ g.Le g' ∧ Rep g' n' e := by
  intro fuel
  induction fuel with
  | zero => intro g n e _ hd; omega
  | succ fuel ih =>
    intro g n e hrep hd
    cases e with
    | leaf c =>
      simp only [Rep] at hrep
      obtain ⟨k, p, h1, h2⟩ := hrep
      simp only [copyNode, h1]
      cases hk : tbl.copy k with
      | share =>
        refine ⟨_, _, rfl, g.addNode_le _, ?_⟩
        simp only [Rep]
        exact ⟨k, p, g.addNode_get _, (g.addNode_le _).params _ _ h2⟩
      | fresh =>
        simp only [h2]
        refine ⟨_, _, rfl, (g.addParam_le c).trans (Graph.addNode_le _ _), ?_⟩
        simp only [Rep]
        exact ⟨k, _, Graph.addNode_get _ _, (Graph.addNode_le _ _).params _ _ (g.addParam_get c)⟩
      | toBase => exact absurd hk (hf k)
    | bin op a b =>
      simp only [Rep] at hrep
      obtain ⟨l, r, h1, _, _, ha, hb⟩ := hrep
      simp only [Expr.depth] at hd
      obtain ⟨g1, l', e1, le1, r1⟩ := ih g l a ha (by omega)
      obtain ⟨g2, r', e2, le2, r2⟩ := ih g1 r b (Rep.mono le1 b r hb) (by omega)
      simp only [copyNode, h1, e1, e2]
      refine ⟨_, _, rfl, (le1.trans le2).trans (Graph.addNode_le _ _), ?_⟩
      simp only [Rep]
      have hl' := Rep.lt_length (Rep.mono le2 a l' r1)
      have hr' := Rep.lt_length r2
      exact ⟨l', r', Graph.addNode_get _ _, hl', hr',
        Rep.mono (le2.trans (Graph.addNode_le _ _)) a l' r1, Rep.mono (Graph.addNode_le _ _) b r' r2⟩
    | inv a =>
      simp only [Rep] at hrep
      obtain ⟨c, h1, _, ha⟩ := hrep
      simp only [Expr.depth] at hd
      obtain ⟨g1, c', e1, le1, r1⟩ := ih g c a ha (by omega)
      simp only [copyNode, h1, e1]
      refine ⟨_, _, rfl, le1.trans (Graph.addNode_le _ _), ?_⟩
      simp only [Rep]
      exact ⟨c', Graph.addNode_get _ _, Rep.lt_length r1, Rep.mono (Graph.addNode_le _ _) a c' r1⟩
    | multiOr es =>
      have hn := Rep.lt_length hrep
      simp only [Rep] at hrep
      obtain ⟨lst, cs, h1, h2, hne, h3⟩ := hrep
      simp only [copyNode, h1]
      refine ⟨_, _, rfl, g.addNode_le _, ?_⟩
      simp only [Rep]
      refine ⟨lst, cs, g.addNode_get _, (g.addNode_le _).lists _ _ h2, hne, ?_⟩
      exact RepList.mono_bound (Nat.le_of_lt hn) es cs (RepList.mono (g.addNode_le _) es cs n h3)

/-! ## Cache coherence and frames -/

/-- **The invariant**: every cached array equals `denote` of its key. -/
def CacheCoherent (env : Env) (h : Heap) : Prop :=
  ∀ x ∈ h.memo, ∃ e m, Rep h.g x.key.node e ∧ h.arrays[x.arr]? = some m ∧
    e.denote env x.key.data x.key.view = .ok m

/-- Every array object that existed before still exists with the same value
(no pre-existing array was the target of an in-place operation). -/
def ArrExt (h h' : Heap) : Prop :=
  h.arrays.length ≤ h'.arrays.length ∧ ∀ i : Nat, i < h.arrays.length → h'.arrays[i]? = h.arrays[i]?

/-- Cache entries that were added refer to arrays that were allocated after `h`. -/
def MemoFresh (h h' : Heap) : Prop :=
  ∀ x ∈ h'.memo, x ∈ h.memo ∨ h.arrays.length ≤ x.arr

def ResOk (env : Env) (h' : Heap) (e : Expr) (d : DataId) (v : View) : Except Err ArrId → Prop
  | .ok a => ∃ m, h'.arrays[a]? = some m ∧ e.denote env d v = .ok m
  | .error er => e.denote env d v = .error er

structure Post (env : Env) (h : Heap) (e : Expr) (d : DataId) (v : View)
    (out : Heap × Except Err ArrId) : Prop where
  g : out.1.g = h.g
  ext : ArrExt h out.1
  fresh : MemoFresh h out.1
  coh : CacheCoherent env out.1
  res : ResOk env out.1 e d v out.2

theorem ArrExt.refl (h : Heap) : ArrExt h h := ⟨Nat.le_refl _, fun _ _ => rfl⟩

theorem ArrExt.trans {a b c : Heap} (h1 : ArrExt a b) (h2 : ArrExt b c) : ArrExt a c :=
  ⟨Nat.le_trans h1.1 h2.1, fun i hi => by rw [h2.2 i (Nat.lt_of_lt_of_le hi h1.1), h1.2 i hi]⟩

theorem ArrExt.alloc (h : Heap) (m : Mask) : ArrExt h (h.alloc m).1 :=
  ⟨by simp [Heap.alloc], fun i hi => by simp only [Heap.alloc]; exact List.getElem?_append_left hi⟩

theorem ArrExt.get {h h' : Heap} (hx : ArrExt h h') {i : Nat} {m : Mask}
    (hm : h.arrays[i]? = some m) : h'.arrays[i]? = some m := by
  rw [hx.2 i (lt_length_of_getElem? hm)]; exact hm

theorem MemoFresh.refl (h : Heap) : MemoFresh h h := fun _ hx => Or.inl hx

theorem MemoFresh.trans {a b c : Heap} (h1 : MemoFresh a b) (h2 : MemoFresh b c)
    (hx : a.arrays.length ≤ b.arrays.length) : MemoFresh a c := by
  intro x hxc
  rcases h2 x hxc with hb | hb
  · exact h1 x hb
  · exact Or.inr (Nat.le_trans hx hb)

theorem Heap.alloc_get (h : Heap) (m : Mask) : (h.alloc m).1.arrays[(h.alloc m).2]? = some m := by
  simp [Heap.alloc]

/-- Coherence survives anything that keeps cached arrays and only extends the graph. -/
theorem CacheCoherent.transfer {env : Env} {h h' : Heap} (hc : CacheCoherent env h)
    (hg : h.g.Le h'.g) (hm : h'.memo = h.memo)
    (ha : ∀ x ∈ h.memo, h'.arrays[x.arr]? = h.arrays[x.arr]?) : CacheCoherent env h' := by
  intro x hx
  rw [hm] at hx
  obtain ⟨e, m, r, a, dn⟩ := hc x hx
  exact ⟨e, m, Rep.mono hg e _ r, by rw [ha x hx]; exact a, dn⟩

theorem CacheCoherent.of_ext {env : Env} {h h' : Heap} (hc : CacheCoherent env h)
    (hg : h'.g = h.g) (hm : h'.memo = h.memo) (hx : ArrExt h h') : CacheCoherent env h' := by
  apply hc.transfer (by rw [hg]; exact Graph.Le.refl _) hm
  intro x hxm
  obtain ⟨_, m, _, a, _⟩ := hc x hxm
  exact hx.2 _ (lt_length_of_getElem? a)

theorem Post.of_error {env : Env} {h h1 : Heap} {e e0 : Expr} {d : DataId} {v : View}
    {r : Except Err ArrId} {er : Err}
    (p : Post env h e0 d v (h1, r)) (hd : e.denote env d v = .error er) :
    Post env h e d v (h1, .error er) :=
  ⟨p.g, p.ext, p.fresh, p.coh, hd⟩

/-! ## The `MultiOrState` loop -/

/-- What the induction hypothesis says about the children's (decorated) `to_mask`. -/
def RecOk (env : Env) (g : Graph) (k : Nat) (d : DataId) (v : View)
    (rec : Heap → NodeId → Form → Heap × Except Err ArrId) : Prop :=
  ∀ (h' : Heap) (c : Nat) (f : Form) (e' : Expr), h'.g = g → CacheCoherent env h' → Rep g c e' →
    e'.depth < k → Post env h' e' d v (rec h' c f)

structure LoopPost (env : Env) (h : Heap) (acc : Nat) (macc : Mask) (es : List Expr) (d : DataId)
    (v : View) (out : Heap × Except Err Unit) : Prop where
  g : out.1.g = h.g
  len : h.arrays.length ≤ out.1.arrays.length
  keep : ∀ i : Nat, i < h.arrays.length → i ≠ acc → out.1.arrays[i]? = h.arrays[i]?
  fresh : MemoFresh h out.1
  coh : CacheCoherent env out.1
  res : match out.2 with
    | .ok _ => ∃ m, out.1.arrays[acc]? = some m ∧ orFold env d v macc es = .ok m
    | .error er => orFold env d v macc es = .error er

theorem orLoop_spec {env : Env} {g : Graph} {k : Nat} {d : DataId} {v : View}
    {rec : Heap → NodeId → Form → Heap × Except Err ArrId} (hrec : RecOk env g k d v rec)
    (acc : Nat) (b : Nat) :
    ∀ (cs : List Nat) (es : List Expr) (h : Heap) (macc : Mask),
      h.g = g → CacheCoherent env h → (∀ x ∈ h.memo, x.arr ≠ acc) → h.arrays[acc]? = some macc →
      RepList g b cs es → (∀ e ∈ es, e.depth < k) →
      LoopPost env h acc macc es d v (orLoop (fun h' c' => rec h' c' .kw) h acc cs) := by
  intro cs
  induction cs with
  | nil =>
    intro es h macc hg hc hno hacc hrl hdep
    cases es with
    | cons _ _ => simp only [RepList] at hrl
    | nil =>
      simp only [orLoop]
      exact ⟨rfl, Nat.le_refl _, fun _ _ _ => rfl, MemoFresh.refl _, hc, ⟨macc, hacc, by simp only [orFold]⟩⟩
  | cons c cs ih =>
    intro es h macc hg hc hno hacc hrl hdep
    cases es with
    | nil => simp only [RepList] at hrl
    | cons e es =>
      simp only [RepList] at hrl
      obtain ⟨_, hre, hrl'⟩ := hrl
      have hp := hrec h c .kw e hg hc hre (hdep e (by simp))
      have hacclt : acc < h.arrays.length := lt_length_of_getElem? hacc
      simp only [orLoop]
      rcases hr : rec h c .kw with ⟨h1, r1⟩
      rw [hr] at hp
      have pg : h1.g = h.g := hp.g
      have pext : ArrExt h h1 := hp.ext
      have pfresh : MemoFresh h h1 := hp.fresh
      have pcoh : CacheCoherent env h1 := hp.coh
      have hno1 : ∀ x ∈ h1.memo, x.arr ≠ acc := by
        intro x hx
        rcases pfresh x hx with hm | hm
        · exact hno x hm
        · intro hh; rw [hh] at hm; exact absurd hacclt (Nat.not_lt.mpr hm)
      cases r1 with
      | error er =>
        have hres : e.denote env d v = .error er := hp.res
        refine ⟨pg, pext.1, fun i hi _ => pext.2 i hi, pfresh, pcoh, ?_⟩
        simp only [orFold, hres]
      | ok a =>
        obtain ⟨y, hay, hey⟩ : ∃ m, h1.arrays[a]? = some m ∧ e.denote env d v = .ok m := hp.res
        have hacc1 : h1.arrays[acc]? = some macc := pext.get hacc
        simp only [Heap.ior, hacc1, hay]
        cases hb : Mask.binop .or macc y with
        | error er =>
          refine ⟨pg, pext.1, fun i hi _ => pext.2 i hi, pfresh, pcoh, ?_⟩
          simp only [orFold, hey, hb]
        | ok m2 =>
          have hacclt1 : acc < h1.arrays.length := lt_length_of_getElem? hacc1
          have hc2 : CacheCoherent env { h1 with arrays := h1.arrays.set acc m2 } := by
            refine CacheCoherent.transfer (h' := { h1 with arrays := h1.arrays.set acc m2 }) pcoh
              (Graph.Le.refl _) rfl ?_
            intro x hx
            exact List.getElem?_set_ne (fun hh => hno1 x hx hh.symm)
          have hq := ih es { h1 with arrays := h1.arrays.set acc m2 } m2 (by rw [pg, hg]) hc2 hno1
            (List.getElem?_set_self hacclt1) hrl' (fun e' he' => hdep e' (by simp [he']))
          refine ⟨by rw [hq.g]; exact pg, ?_, ?_, ?_, hq.coh, ?_⟩
          · have := hq.len; simp only [List.length_set] at this; exact Nat.le_trans pext.1 this
          · intro i hi hne
            have h1i : i < h1.arrays.length := Nat.lt_of_lt_of_le hi pext.1
            rw [hq.keep i (by simp only [List.length_set]; exact h1i) hne]
            show (h1.arrays.set acc m2)[i]? = _
            rw [List.getElem?_set_ne (fun hh => hne hh.symm)]
            exact pext.2 i hi
          · intro x hx
            rcases hq.fresh x hx with hm | hm
            · exact pfresh x hm
            · simp only [List.length_set] at hm
              exact Or.inr (Nat.le_trans pext.1 hm)
          · have := hq.res
            revert this
            cases (orLoop (fun h' c' => rec h' c' .kw) { h1 with arrays := h1.arrays.set acc m2 } acc cs).2 with
            | ok _ => intro this; simp only [orFold, hey, hb]; exact this
            | error er => intro this; simp only [orFold, hey, hb]; exact this

/-! ## The undecorated bodies -/

theorem Post.alloc {env : Env} {h h1 : Heap} {e : Expr} {d : DataId} {v : View} {m : Mask}
    (hg : h1.g = h.g) (hx : ArrExt h h1) (hf : MemoFresh h h1) (hc : CacheCoherent env h1)
    (hd : e.denote env d v = .ok m) :
    Post env h e d v ((h1.alloc m).1, .ok (h1.alloc m).2) ∧ h.arrays.length ≤ (h1.alloc m).2 := by
  refine ⟨⟨hg, hx.trans (ArrExt.alloc h1 m), ?_, hc.of_ext rfl rfl (ArrExt.alloc h1 m), ⟨m, h1.alloc_get m, hd⟩⟩, hx.1⟩
  exact hf

theorem evalBody_spec {env : Env} {g : Graph} {k : Nat} {d : DataId} {v : View}
    {rec : Heap → NodeId → Form → Heap × Except Err ArrId} (hrec : RecOk env g k d v rec)
    (h : Heap) (n : Nat) (node : Node) (e : Expr)
    (hg : h.g = g) (hc : CacheCoherent env h) (hrep : Rep g n e) (hnode : g.nodes[n]? = some node)
    (hd : e.depth ≤ k) :
    Post env h e d v (evalBody env rec h node d v) ∧
      ∀ a, (evalBody env rec h node d v).2 = .ok a → h.arrays.length ≤ a := by
  cases e with
  | leaf c =>
    simp only [Rep] at hrep
    obtain ⟨kd, p, h1, h2⟩ := hrep
    rw [h1] at hnode; cases hnode
    simp only [evalBody, hg, h2]
    cases hl : env.leaf c d v with
    | error er =>
      exact ⟨⟨rfl, ArrExt.refl _, MemoFresh.refl _, hc, by simp only [ResOk, Expr.denote, hl]⟩,
        fun a ha => by cases ha⟩
    | ok m =>
      have := Post.alloc (e := .leaf c) (d := d) (v := v) (m := m) rfl (ArrExt.refl h) (MemoFresh.refl h) hc
        (by simp only [Expr.denote, hl])
      exact ⟨this.1, fun a ha => by cases ha; exact this.2⟩
  | bin op ea eb =>
    simp only [Rep] at hrep
    obtain ⟨l, r, h1, _, _, ha, hb⟩ := hrep
    rw [h1] at hnode; cases hnode
    simp only [Expr.depth] at hd
    have hp1 := hrec h l .pos ea hg hc ha (by omega)
    simp only [evalBody]
    rcases hr1 : rec h l .pos with ⟨h1', r1⟩
    rw [hr1] at hp1
    have pg1 : h1'.g = h.g := hp1.g
    have px1 : ArrExt h h1' := hp1.ext
    have pf1 : MemoFresh h h1' := hp1.fresh
    have pc1 : CacheCoherent env h1' := hp1.coh
    cases r1 with
    | error er =>
      have hres : ea.denote env d v = .error er := hp1.res
      exact ⟨⟨pg1, px1, pf1, pc1, by simp only [ResOk, Expr.denote, hres]⟩, fun a ha => by cases ha⟩
    | ok a1 =>
      obtain ⟨ma, ha1, hea⟩ : ∃ m, h1'.arrays[a1]? = some m ∧ ea.denote env d v = .ok m := hp1.res
      dsimp only
      have hp2 := hrec h1' r .pos eb (by rw [pg1, hg]) pc1 hb (by omega)
      rcases hr2 : rec h1' r .pos with ⟨h2', r2⟩
      rw [hr2] at hp2
      have pg2 : h2'.g = h1'.g := hp2.g
      have px2 : ArrExt h1' h2' := hp2.ext
      have pf2 : MemoFresh h1' h2' := hp2.fresh
      have pc2 : CacheCoherent env h2' := hp2.coh
      have pf : MemoFresh h h2' := pf1.trans pf2 px1.1
      cases r2 with
      | error er =>
        have hres : eb.denote env d v = .error er := hp2.res
        exact ⟨⟨by rw [pg2, pg1], px1.trans px2, pf, pc2, by simp only [ResOk, Expr.denote, hea, hres]⟩,
          fun a ha => by cases ha⟩
      | ok b1 =>
        obtain ⟨mb, hb1, heb⟩ : ∃ m, h2'.arrays[b1]? = some m ∧ eb.denote env d v = .ok m := hp2.res
        have ha2 : h2'.arrays[a1]? = some ma := px2.get ha1
        simp only [ha2, hb1]
        cases hop : Mask.binop op ma mb with
        | error er =>
          exact ⟨⟨by rw [pg2, pg1], px1.trans px2, pf, pc2,
            by simp only [ResOk, Expr.denote, hea, heb, hop]⟩, fun a ha => by cases ha⟩
        | ok m =>
          have := Post.alloc (e := .bin op ea eb) (d := d) (v := v) (m := m) (h := h) (h1 := h2')
            (by rw [pg2, pg1]) (px1.trans px2) pf pc2 (by simp only [Expr.denote, hea, heb, hop])
          exact ⟨this.1, fun a ha => by cases ha; exact this.2⟩
  | inv ea =>
    simp only [Rep] at hrep
    obtain ⟨c, h1, _, ha⟩ := hrep
    rw [h1] at hnode; cases hnode
    simp only [Expr.depth] at hd
    have hp1 := hrec h c .pos ea hg hc ha (by omega)
    simp only [evalBody]
    rcases hr1 : rec h c .pos with ⟨h1', r1⟩
    rw [hr1] at hp1
    have pg1 : h1'.g = h.g := hp1.g
    have px1 : ArrExt h h1' := hp1.ext
    have pf1 : MemoFresh h h1' := hp1.fresh
    have pc1 : CacheCoherent env h1' := hp1.coh
    cases r1 with
    | error er =>
      have hres : ea.denote env d v = .error er := hp1.res
      exact ⟨⟨pg1, px1, pf1, pc1, by simp only [ResOk, Expr.denote, hres]⟩, fun a ha => by cases ha⟩
    | ok a1 =>
      obtain ⟨ma, ha1, hea⟩ : ∃ m, h1'.arrays[a1]? = some m ∧ ea.denote env d v = .ok m := hp1.res
      simp only [ha1]
      have := Post.alloc (e := .inv ea) (d := d) (v := v) (m := ma.not) (h := h) (h1 := h1')
        pg1 px1 pf1 pc1 (by simp only [Expr.denote, hea])
      exact ⟨this.1, fun a ha => by cases ha; exact this.2⟩
  | multiOr es =>
    simp only [Rep] at hrep
    obtain ⟨lst, cs, h1, h2, hne, h3⟩ := hrep
    rw [h1] at hnode; cases hnode
    simp only [Expr.depth] at hd
    cases es with
    | nil => exact absurd rfl hne
    | cons e0 es' =>
      cases cs with
      | nil => simp only [RepList] at h3
      | cons c cs' =>
        simp only [RepList] at h3
        obtain ⟨_, hr0, hrl⟩ := h3
        simp only [depthList] at hd
        have hp1 := hrec h c .kw e0 hg hc hr0 (by omega)
        simp only [evalBody, hg, h2]
        rcases hr1 : rec h c .kw with ⟨h1', r1⟩
        rw [hr1] at hp1
        have pg1 : h1'.g = h.g := hp1.g
        have px1 : ArrExt h h1' := hp1.ext
        have pf1 : MemoFresh h h1' := hp1.fresh
        have pc1 : CacheCoherent env h1' := hp1.coh
        cases r1 with
        | error er =>
          have hres : e0.denote env d v = .error er := hp1.res
          exact ⟨⟨pg1, px1, pf1, pc1, by simp only [ResOk, Expr.denote, denoteOr, hres]⟩,
            fun a ha => by cases ha⟩
        | ok a0 =>
          obtain ⟨m0, ha0, he0⟩ : ∃ m, h1'.arrays[a0]? = some m ∧ e0.denote env d v = .ok m := hp1.res
          simp only [ha0]
          -- the accumulator: a fresh copy of the first mask
          have hdeps : ∀ e ∈ es', e.depth < k := by
            intro e he
            have : e.depth ≤ depthList es' := by
              clear hrl hd hne
              induction es' with
              | nil => cases he
              | cons x xs ih =>
                simp only [depthList]
                rcases List.mem_cons.mp he with rfl | hm
                · omega
                · have := ih hm; omega
            omega
          have hc2 : CacheCoherent env (h1'.alloc m0).1 := pc1.of_ext rfl rfl (ArrExt.alloc h1' m0)
          have hno : ∀ x ∈ (h1'.alloc m0).1.memo, x.arr ≠ (h1'.alloc m0).2 := by
            intro x hx hh
            obtain ⟨_, mm, _, hxa, _⟩ := pc1 x hx
            have := lt_length_of_getElem? hxa
            rw [hh] at this
            exact Nat.lt_irrefl _ this
          have hq := orLoop_spec hrec (h1'.alloc m0).2 n cs' es' (h1'.alloc m0).1 m0
            (by show h1'.g = g; rw [pg1, hg]) hc2 hno (h1'.alloc_get m0) hrl hdeps
          rcases hr3 : orLoop (fun h' c' => rec h' c' .kw) (h1'.alloc m0).1 (h1'.alloc m0).2 cs' with ⟨h3', r3⟩
          rw [hr3] at hq
          have qg : h3'.g = (h1'.alloc m0).1.g := hq.g
          have qlen : (h1'.alloc m0).1.arrays.length ≤ h3'.arrays.length := hq.len
          have qkeep : ∀ i : Nat, i < (h1'.alloc m0).1.arrays.length → i ≠ (h1'.alloc m0).2 →
              h3'.arrays[i]? = (h1'.alloc m0).1.arrays[i]? := hq.keep
          have qfresh : MemoFresh (h1'.alloc m0).1 h3' := hq.fresh
          have qcoh : CacheCoherent env h3' := hq.coh
          have hlen2 : (h1'.alloc m0).1.arrays.length = h1'.arrays.length + 1 := by simp [Heap.alloc]
          have hacc : (h1'.alloc m0).2 = h1'.arrays.length := rfl
          have hext : ArrExt h h3' := by
            refine ⟨by have := px1.1; omega, ?_⟩
            intro i hi
            have hi1 : i < h1'.arrays.length := Nat.lt_of_lt_of_le hi px1.1
            rw [qkeep i (by omega) (by show i ≠ h1'.arrays.length; exact Nat.ne_of_lt hi1)]
            rw [(ArrExt.alloc h1' m0).2 i hi1]
            exact px1.2 i hi
          have hfr : MemoFresh h h3' := by
            intro x hx
            rcases qfresh x hx with hm | hm
            · exact pf1 x hm
            · exact Or.inr (by have := px1.1; omega)
          cases r3 with
          | error er =>
            have hres : orFold env d v m0 es' = .error er := hq.res
            exact ⟨⟨by rw [qg]; exact pg1, hext, hfr, qcoh,
              by simp only [ResOk, Expr.denote, denoteOr, he0, hres]⟩, fun a ha => by cases ha⟩
          | ok u =>
            obtain ⟨m', hm', hfold⟩ : ∃ m, h3'.arrays[(h1'.alloc m0).2]? = some m ∧
                orFold env d v m0 es' = .ok m := hq.res
            refine ⟨⟨by rw [qg]; exact pg1, hext, hfr, qcoh, ⟨m', hm', ?_⟩⟩, ?_⟩
            · simp only [Expr.denote, denoteOr, he0, hfold]
            · intro a ha; cases ha; exact px1.1

/-! ## `to_mask = denote` under the invariant -/

theorem Rep.node {g : Graph} : ∀ {e : Expr} {n : Nat}, Rep g n e → ∃ node, g.nodes[n]? = some node
  | .leaf _, _, h => by simp only [Rep] at h; obtain ⟨_, _, h1, _⟩ := h; exact ⟨_, h1⟩
  | .bin _ _ _, _, h => by simp only [Rep] at h; obtain ⟨_, _, h1, _⟩ := h; exact ⟨_, h1⟩
  | .inv _, _, h => by simp only [Rep] at h; obtain ⟨_, h1, _⟩ := h; exact ⟨_, h1⟩
  | .multiOr _, _, h => by simp only [Rep] at h; obtain ⟨_, _, h1, _⟩ := h; exact ⟨_, h1⟩

theorem Heap.lookup_some {h : Heap} {k : Key} {a : ArrId} (hl : h.lookup k = some a) :
    ∃ x ∈ h.memo, x.key = k ∧ x.arr = a := by
  simp only [Heap.lookup, Option.map_eq_some_iff] at hl
  obtain ⟨x, hx, ha⟩ := hl
  exact ⟨x, List.mem_of_find?_eq_some hx, by simpa using List.find?_some hx, ha⟩

theorem toMask_spec (tbl : ClassTable) (env : Env) :
    ∀ (fuel : Nat) (h : Heap) (n : Nat) (d : DataId) (v : View) (f : Form) (e : Expr),
      CacheCoherent env h → Rep h.g n e → e.depth < fuel →
      Post env h e d v (toMask tbl env fuel h n d v f) := by
  intro fuel
  induction fuel with
  | zero => intro h n d v f e _ _ hd; omega
  | succ fuel ih =>
    intro h n d v f e hc hrep hd
    obtain ⟨node, hnode⟩ := hrep.node
    have hrec : RecOk env h.g fuel d v (fun h' c f' => toMask tbl env fuel h' c d v f') := by
      intro h' c f' e' hg' hc' hr' hd'
      exact ih h' c d v f' e' hc' (by rw [hg']; exact hr') hd'
    have hbody := evalBody_spec hrec h n node e rfl hc hrep hnode (by omega)
    simp only [toMask, hnode]
    cases hm : tbl.memoTable node with
    | none => exact hbody.1
    | some t =>
      cases hv : v.hashable with
      | false => exact hbody.1
      | true =>
        dsimp only
        cases hl : h.lookup ⟨t, n, d, v, f⟩ with
        | some a =>
          obtain ⟨x, hx, hk, ha⟩ := Heap.lookup_some hl
          obtain ⟨e', m, hr', harr, hden⟩ := hc x hx
          rw [hk] at hr' hden
          rw [ha] at harr
          have : e' = e := Rep.functional e' e n hr' hrep
          subst this
          exact ⟨rfl, ArrExt.refl _, MemoFresh.refl _, hc, ⟨m, harr, hden⟩⟩
        | none =>
          rcases hb : evalBody env (fun h' c f' => toMask tbl env fuel h' c d v f') h node d v with ⟨h', r⟩
          rw [hb] at hbody
          obtain ⟨hp, hnew⟩ := hbody
          have pg : h'.g = h.g := hp.g
          have px : ArrExt h h' := hp.ext
          have pf : MemoFresh h h' := hp.fresh
          have pc : CacheCoherent env h' := hp.coh
          cases r with
          | error er => exact ⟨pg, px, pf, pc, hp.res⟩
          | ok a =>
            obtain ⟨m, harr, hden⟩ : ∃ m, h'.arrays[a]? = some m ∧ e.denote env d v = .ok m := hp.res
            have hfresh : h.arrays.length ≤ a := hnew a rfl
            refine ⟨pg, px, ?_, ?_, ⟨m, harr, hden⟩⟩
            · intro x hx
              simp only [Heap.store, List.mem_append, List.mem_singleton] at hx
              rcases hx with hx | rfl
              · exact pf x hx
              · exact Or.inr hfresh
            · intro x hx
              simp only [Heap.store, List.mem_append, List.mem_singleton] at hx
              rcases hx with hx | rfl
              · exact pc x hx
              · exact ⟨e, m, by show Rep h'.g n e; rw [pg]; exact hrep, harr, hden⟩

/-! ## Constructors -/

theorem Rep.depth_lt_fuel {g : Graph} {n : Nat} {e : Expr} (h : Rep g n e) : e.depth < g.fuel := by
  have := Rep.depth_le e n h
  have := h.lt_length
  simp only [Graph.fuel]; omega

theorem copy_spec (tbl : ClassTable) (hf : tbl.Faithful) (g : Graph) (n : Nat) (e : Expr)
    (h : Rep g n e) : ∃ g' n', copyNode tbl g.fuel g n = (g', some n') ∧ g.Le g' ∧ Rep g' n' e :=
  copyNode_spec tbl hf g.fuel g n e h h.depth_lt_fuel

theorem mkLeaf_spec (g : Graph) (k : Kind) (c : Content) :
    g.Le (mkLeaf g k c).1 ∧ Rep (mkLeaf g k c).1 (mkLeaf g k c).2 (.leaf c) := by
  refine ⟨(g.addParam_le c).trans (Graph.addNode_le _ _), ?_⟩
  simp only [Rep, mkLeaf]
  exact ⟨k, _, Graph.addNode_get _ _, (Graph.addNode_le _ _).params _ _ (g.addParam_get c)⟩

theorem mkBin_spec (tbl : ClassTable) (hf : tbl.Faithful) (g : Graph) (op : BinOp) (a b : Nat)
    (ea eb : Expr) (ha : Rep g a ea) (hb : Rep g b eb) :
    ∃ g' n, mkBin tbl g op a b = (g', some n) ∧ g.Le g' ∧ Rep g' n (.bin op ea eb) := by
  obtain ⟨g1, a', e1, le1, r1⟩ := copy_spec tbl hf g a ea ha
  obtain ⟨g2, b', e2, le2, r2⟩ := copy_spec tbl hf g1 b eb (Rep.mono le1 eb b hb)
  simp only [mkBin, e1, e2]
  refine ⟨_, _, rfl, (le1.trans le2).trans (Graph.addNode_le _ _), ?_⟩
  simp only [Rep]
  exact ⟨a', b', Graph.addNode_get _ _, Rep.lt_length (Rep.mono le2 ea a' r1), Rep.lt_length r2,
    Rep.mono (le2.trans (Graph.addNode_le _ _)) ea a' r1, Rep.mono (Graph.addNode_le _ _) eb b' r2⟩

theorem mkInv_spec (tbl : ClassTable) (hf : tbl.Faithful) (g : Graph) (a : Nat) (ea : Expr)
    (ha : Rep g a ea) : ∃ g' n, mkInv tbl g a = (g', some n) ∧ g.Le g' ∧ Rep g' n (.inv ea) := by
  obtain ⟨g1, a', e1, le1, r1⟩ := copy_spec tbl hf g a ea ha
  simp only [mkInv, e1]
  refine ⟨_, _, rfl, le1.trans (Graph.addNode_le _ _), ?_⟩
  simp only [Rep]
  exact ⟨a', Graph.addNode_get _ _, Rep.lt_length r1, Rep.mono (Graph.addNode_le _ _) ea a' r1⟩

/-- Elementwise `Rep` without an age bound. -/
def RepAll (g : Graph) : List Nat → List Expr → Prop
  | [], [] => True
  | c :: cs, e :: es => Rep g c e ∧ RepAll g cs es
  | [], _ :: _ => False
  | _ :: _, [] => False

theorem RepAll.toRepList {g g' : Graph} (hle : g.Le g') {b : Nat} (hb : g.nodes.length ≤ b) :
    ∀ (cs : List Nat) (es : List Expr), RepAll g cs es → RepList g' b cs es
  | [], [], _ => by simp only [RepList]
  | c :: cs, e :: es, h => by
    simp only [RepAll] at h
    simp only [RepList]
    exact ⟨Nat.lt_of_lt_of_le h.1.lt_length hb, Rep.mono hle e c h.1, RepAll.toRepList hle hb cs es h.2⟩
  | [], _ :: _, h => by simp only [RepAll] at h
  | _ :: _, [], h => by simp only [RepAll] at h

theorem mkMultiOr_spec (g : Graph) (cs : List Nat) (es : List Expr) (hne : es ≠ [])
    (h : RepAll g cs es) :
    g.Le (mkMultiOr g cs).1 ∧ Rep (mkMultiOr g cs).1 (mkMultiOr g cs).2 (.multiOr es) := by
  have hle : g.Le (mkMultiOr g cs).1 := (g.addList_le cs).trans (Graph.addNode_le _ _)
  refine ⟨hle, ?_⟩
  simp only [Rep]
  refine ⟨_, cs, Graph.addNode_get _ _, (Graph.addNode_le _ _).lists _ _ (g.addList_get cs), hne, ?_⟩
  exact RepAll.toRepList hle (Nat.le_refl _) cs es h

theorem editGraph_spec (tbl : ClassTable) (hf : tbl.Faithful) (g : Graph) (m : Mode) (new cur : Nat)
    (en ec : Expr) (hn : Rep g new en) (hc : Rep g cur ec) :
    ∃ g' n, Impl.editGraph tbl g m new cur = (g', some n) ∧ g.Le g' ∧ Rep g' n (Spec.editExpr m en ec) := by
  cases m with
  | replace => exact copy_spec tbl hf g new en hn
  | new => exact copy_spec tbl hf g new en hn
  | and => exact mkBin_spec tbl hf g .and new cur en ec hn hc
  | or => exact mkBin_spec tbl hf g .or new cur en ec hn hc
  | xor => exact mkBin_spec tbl hf g .xor new cur en ec hn hc
  | andNot =>
    obtain ⟨g1, i, e1, le1, r1⟩ := mkInv_spec tbl hf g new en hn
    obtain ⟨g2, n, e2, le2, r2⟩ := mkBin_spec tbl hf g1 .and cur i ec (.inv en) (Rep.mono le1 ec cur hc) r1
    simp only [Impl.editGraph, e1]
    exact ⟨g2, n, e2, le1.trans le2, r2⟩

/-! ## Programs: `Impl` simulates `Spec` -/

def VarsRep (g : Graph) (vs : List Nat) (es : List Expr) : Prop :=
  vs.length = es.length ∧ ∀ (i n : Nat) (e : Expr), vs[i]? = some n → es[i]? = some e → Rep g n e

theorem VarsRep.mono {g g' : Graph} {vs : List Nat} {es : List Expr} (h : VarsRep g vs es)
    (hle : g.Le g') : VarsRep g' vs es :=
  ⟨h.1, fun i n e h1 h2 => Rep.mono hle e n (h.2 i n e h1 h2)⟩

theorem VarsRep.get {g : Graph} {vs : List Nat} {es : List Expr} (h : VarsRep g vs es) {a x : Nat}
    (hx : vs[a]? = some x) : ∃ e, es[a]? = some e ∧ Rep g x e := by
  have ha : a < es.length := by rw [← h.1]; exact lt_length_of_getElem? hx
  exact ⟨es[a], List.getElem?_eq_getElem ha, h.2 a x _ hx (List.getElem?_eq_getElem ha)⟩

theorem VarsRep.get_none {g : Graph} {vs : List Nat} {es : List Expr} (h : VarsRep g vs es) {a : Nat}
    (hx : vs[a]? = none) : es[a]? = none := by
  rw [List.getElem?_eq_none_iff] at hx ⊢
  rw [← h.1]; exact hx

theorem VarsRep.push {g : Graph} {vs : List Nat} {es : List Expr} (h : VarsRep g vs es) {n : Nat}
    {e : Expr} (hr : Rep g n e) : VarsRep g (vs ++ [n]) (es ++ [e]) := by
  refine ⟨by simp [h.1], ?_⟩
  intro i n' e' h1 h2
  rcases Nat.lt_or_ge i vs.length with hi | hi
  · rw [List.getElem?_append_left hi] at h1
    rw [List.getElem?_append_left (by rw [← h.1]; exact hi)] at h2
    exact h.2 i n' e' h1 h2
  · rw [List.getElem?_append_right hi] at h1
    rw [List.getElem?_append_right (by rw [← h.1]; exact hi)] at h2
    rw [← h.1] at h2
    rcases hk : i - vs.length with _ | k
    · rw [hk] at h1 h2
      simp only [List.getElem?_cons_zero, Option.some.injEq] at h1 h2
      subst h1; subst h2; exact hr
    · rw [hk] at h1; simp at h1

theorem VarsRep.lookupAll {g : Graph} {vs : List Nat} {es : List Expr} (h : VarsRep g vs es) :
    ∀ (as : List Nat),
      (∀ xs, lookupAll vs as = some xs → ∃ ys, lookupAll es as = some ys ∧ RepAll g xs ys ∧
        (xs = [] ↔ ys = [])) ∧
      (lookupAll vs as = none → lookupAll es as = none)
  | [] => by
    simp only [SubsetEval.lookupAll]
    exact ⟨fun xs hxs => by cases hxs; exact ⟨[], rfl, by simp only [RepAll], by simp⟩, fun hh => by cases hh⟩
  | a :: as => by
    have ih := VarsRep.lookupAll h as
    simp only [SubsetEval.lookupAll]
    cases hx : vs[a]? with
    | none =>
      rw [h.get_none hx]
      exact ⟨fun xs hxs => (by cases hxs), fun _ => rfl⟩
    | some x =>
      obtain ⟨e, he, hr⟩ := h.get hx
      rw [he]
      cases hl : SubsetEval.lookupAll vs as with
      | none =>
        rw [ih.2 hl]
        exact ⟨fun xs hxs => (by cases hxs), fun _ => rfl⟩
      | some r =>
        obtain ⟨ys, hys, hra, _⟩ := ih.1 r hl
        rw [hys]
        refine ⟨fun xs hxs => ?_, fun hh => by cases hh⟩
        cases hxs
        exact ⟨e :: ys, rfl, by simp only [RepAll]; exact ⟨hr, hra⟩, by simp⟩

structure Sim (env : Env) (si : Impl.State) (ss : Spec.State) : Prop where
  coh : CacheCoherent env si.h
  vars : VarsRep si.h.g si.vars ss.vars
  cur : Rep si.h.g si.cur ss.cur

/-- Everything one step guarantees. -/
structure StepOk (env : Env) (si : Impl.State) (ri : Impl.State × Impl.Out) (rs : Spec.State × Obs) :
    Prop where
  sim : Sim env ri.1 rs.1
  obs : ri.2.obs = rs.2
  gle : si.h.g.Le ri.1.h.g
  ext : ArrExt si.h ri.1.h
  arr : ∀ a, ri.2.arr = some a → ∃ m, ri.1.h.arrays[a]? = some m ∧ ri.2.obs = .mask (.ok m)

theorem Sim.grow {env : Env} {si : Impl.State} {ss : Spec.State} (hs : Sim env si ss) {g' : Graph}
    (hle : si.h.g.Le g') :
    CacheCoherent env { si.h with g := g' } ∧ VarsRep g' si.vars ss.vars ∧ Rep g' si.cur ss.cur :=
  ⟨CacheCoherent.transfer (h' := { si.h with g := g' }) hs.coh hle rfl (fun _ _ => rfl),
   hs.vars.mono hle, Rep.mono hle _ _ hs.cur⟩

theorem stepOk_bad {env : Env} {si : Impl.State} {ss : Spec.State} (hs : Sim env si ss) :
    StepOk env si (si, ⟨.bad, none⟩) (ss, .bad) :=
  ⟨hs, rfl, Graph.Le.refl _, ArrExt.refl _, fun a ha => by cases ha⟩

theorem stepOk_bind {env : Env} {si : Impl.State} {ss : Spec.State} (hs : Sim env si ss)
    {g' : Graph} {n : Nat} {e : Expr} (hle : si.h.g.Le g') (hr : Rep g' n e) :
    StepOk env si
      ({ si with h := { si.h with g := g' }, vars := si.vars ++ [n] }, ⟨.none, none⟩)
      ({ ss with vars := ss.vars ++ [e] }, .none) := by
  obtain ⟨c, v, k⟩ := hs.grow hle
  exact ⟨⟨c, v.push hr, k⟩, rfl, hle, ArrExt.refl _, fun a ha => by cases ha⟩

theorem stepOk_observe {env : Env} {si : Impl.State} {ss : Spec.State} (hs : Sim env si ss)
    {e : Expr} {d : DataId} {v : View} {r : Heap × Except Err ArrId} (hp : Post env si.h e d v r) :
    StepOk env si (Impl.observe si r) (ss, .mask (e.denote env d v)) := by
  rcases r with ⟨h', res⟩
  have pg : h'.g = si.h.g := hp.g
  have px : ArrExt si.h h' := hp.ext
  have pc : CacheCoherent env h' := hp.coh
  have hsim : Sim env { si with h := h' } ss := ⟨pc, by rw [pg]; exact hs.vars, by rw [pg]; exact hs.cur⟩
  have hle : si.h.g.Le h'.g := by rw [pg]; exact Graph.Le.refl _
  cases res with
  | error er =>
    have hres : e.denote env d v = .error er := hp.res
    simp only [Impl.observe]
    exact ⟨hsim, by rw [hres], hle, px, fun a ha => by cases ha⟩
  | ok a =>
    obtain ⟨m, harr, hden⟩ : ∃ m, h'.arrays[a]? = some m ∧ e.denote env d v = .ok m := hp.res
    simp only [Impl.observe, harr]
    exact ⟨hsim, by rw [hden], hle, px, fun a' ha' => by cases ha'; exact ⟨m, harr, rfl⟩⟩

theorem RepList.getElem? {g : Graph} {b : Nat} :
    ∀ (cs : List Nat) (es : List Expr) (i : Nat), RepList g b cs es →
      (∀ c, cs[i]? = some c → ∃ e, es[i]? = some e ∧ Rep g c e) ∧ (cs[i]? = none → es[i]? = none)
  | [], [], i, _ => ⟨fun c hc => (by simp at hc), fun _ => (by simp)⟩
  | c :: cs, e :: es, 0, h => by
    simp only [RepList] at h
    exact ⟨fun c' hc => (by simp at hc; subst hc; exact ⟨e, by simp, h.2.1⟩), fun hc => (by simp at hc)⟩
  | c :: cs, e :: es, i + 1, h => by
    simp only [RepList] at h
    simpa using RepList.getElem? cs es i h.2.2
  | [], _ :: _, _, h => by simp only [RepList] at h
  | _ :: _, [], _, h => by simp only [RepList] at h

theorem child_sim {g : Graph} {n : Nat} {e : Expr} (i : Nat) (h : Rep g n e) :
    (∀ c, g.child n i = some c → ∃ e', e.child i = some e' ∧ Rep g c e') ∧
      (g.child n i = none → e.child i = none) := by
  cases e with
  | leaf c =>
    simp only [Rep] at h
    obtain ⟨k, p, h1, _⟩ := h
    simp only [Graph.child, h1, Expr.child]
    exact ⟨fun c hc => (by cases hc), fun _ => (by simp)⟩
  | bin op a b =>
    simp only [Rep] at h
    obtain ⟨l, r, h1, _, _, ha, hb⟩ := h
    simp only [Graph.child, h1, Expr.child]
    by_cases h0 : i = 0
    · simp only [h0, if_true]
      exact ⟨fun c hc => (by cases hc; exact ⟨a, rfl, ha⟩), fun hc => (by cases hc)⟩
    · by_cases h1' : i = 1
      · simp only [h1', if_true]
        exact ⟨fun c hc => (by simp at hc; subst hc; exact ⟨b, by simp, hb⟩), fun hc => (by simp at hc)⟩
      · simp only [h0, h1', if_false]
        exact ⟨fun c hc => (by cases hc), fun _ => (by simp)⟩
  | inv a =>
    simp only [Rep] at h
    obtain ⟨c, h1, _, ha⟩ := h
    simp only [Graph.child, h1, Expr.child]
    by_cases h0 : i = 0
    · simp only [h0, if_true]
      exact ⟨fun c' hc => (by cases hc; exact ⟨a, rfl, ha⟩), fun hc => (by cases hc)⟩
    · simp only [h0, if_false]
      exact ⟨fun c hc => (by cases hc), fun _ => (by simp)⟩
  | multiOr es =>
    simp only [Rep] at h
    obtain ⟨lst, cs, h1, h2, _, h3⟩ := h
    simp only [Graph.child, h1, h2, Expr.child]
    exact RepList.getElem? cs es i h3

theorem step_sim (tbl : ClassTable) (hf : tbl.Faithful) (env : Env) (si : Impl.State)
    (ss : Spec.State) (hs : Sim env si ss) (op : Op) :
    StepOk env si (Impl.step tbl env si op) (Spec.step env ss op) := by
  cases op with
  | leaf k c =>
    simp only [Impl.step, Spec.step, Impl.bind]
    obtain ⟨hle, hr⟩ := mkLeaf_spec si.h.g k c
    exact stepOk_bind hs hle hr
  | bin op a b =>
    simp only [Impl.step, Spec.step]
    cases ha : si.vars[a]? with
    | none => rw [hs.vars.get_none ha]; exact stepOk_bad hs
    | some x =>
      obtain ⟨ea, hea, hra⟩ := hs.vars.get ha
      rw [hea]
      cases hb : si.vars[b]? with
      | none => rw [hs.vars.get_none hb]; exact stepOk_bad hs
      | some y =>
        obtain ⟨eb, heb, hrb⟩ := hs.vars.get hb
        rw [heb]
        obtain ⟨g', n, e1, hle, hr⟩ := mkBin_spec tbl hf si.h.g op x y ea eb hra hrb
        simp only [Impl.bindOpt, e1]
        exact stepOk_bind hs hle hr
  | inv a =>
    simp only [Impl.step, Spec.step]
    cases ha : si.vars[a]? with
    | none => rw [hs.vars.get_none ha]; exact stepOk_bad hs
    | some x =>
      obtain ⟨ea, hea, hra⟩ := hs.vars.get ha
      rw [hea]
      obtain ⟨g', n, e1, hle, hr⟩ := mkInv_spec tbl hf si.h.g x ea hra
      simp only [Impl.bindOpt, e1]
      exact stepOk_bind hs hle hr
  | multiOr as =>
    simp only [Impl.step, Spec.step]
    have hl := hs.vars.lookupAll as
    cases hx : lookupAll si.vars as with
    | none => rw [hl.2 hx]; exact stepOk_bad hs
    | some xs =>
      obtain ⟨ys, hys, hra, hemp⟩ := hl.1 xs hx
      rw [hys]
      cases xs with
      | nil =>
        have : ys = [] := hemp.mp rfl
        subst this
        exact stepOk_bad hs
      | cons x xs =>
        cases ys with
        | nil => simp only [RepAll] at hra
        | cons y ys =>
          obtain ⟨hle, hr⟩ := mkMultiOr_spec si.h.g (x :: xs) (y :: ys) (by simp) hra
          simp only [Impl.bind]
          exact stepOk_bind hs hle hr
  | copy a =>
    simp only [Impl.step, Spec.step]
    cases ha : si.vars[a]? with
    | none => rw [hs.vars.get_none ha]; exact stepOk_bad hs
    | some x =>
      obtain ⟨ea, hea, hra⟩ := hs.vars.get ha
      rw [hea]
      obtain ⟨g', n, e1, hle, hr⟩ := copy_spec tbl hf si.h.g x ea hra
      simp only [Impl.bindOpt, e1]
      exact stepOk_bind hs hle hr
  | eval a d v f =>
    simp only [Impl.step, Spec.step]
    cases ha : si.vars[a]? with
    | none => rw [hs.vars.get_none ha]; exact stepOk_bad hs
    | some x =>
      obtain ⟨ea, hea, hra⟩ := hs.vars.get ha
      rw [hea]
      exact stepOk_observe hs (toMask_spec tbl env si.h.g.fuel si.h x d v f ea hs.coh hra hra.depth_lt_fuel)
  | edit m a =>
    simp only [Impl.step, Spec.step]
    cases ha : si.vars[a]? with
    | none => rw [hs.vars.get_none ha]; exact stepOk_bad hs
    | some x =>
      obtain ⟨ea, hea, hra⟩ := hs.vars.get ha
      rw [hea]
      obtain ⟨g', n, e1, hle, hr⟩ := editGraph_spec tbl hf si.h.g m x si.cur ea ss.cur hra hs.cur
      simp only [Impl.setCur, e1]
      obtain ⟨c, v, _⟩ := hs.grow hle
      exact ⟨⟨c, v, hr⟩, rfl, hle, ArrExt.refl _, fun a ha => by cases ha⟩
  | evalCur d v =>
    simp only [Impl.step, Spec.step]
    exact stepOk_observe hs (toMask_spec tbl env si.h.g.fuel si.h si.cur d v .kw ss.cur hs.coh hs.cur
      hs.cur.depth_lt_fuel)
  | useCur =>
    simp only [Impl.step, Spec.step]
    exact ⟨⟨hs.coh, hs.vars.push hs.cur, hs.cur⟩, rfl, Graph.Le.refl _, ArrExt.refl _,
      fun a ha => by cases ha⟩
  | child a i =>
    simp only [Impl.step, Spec.step]
    cases ha : si.vars[a]? with
    | none => rw [hs.vars.get_none ha]; exact stepOk_bad hs
    | some x =>
      obtain ⟨ea, hea, hra⟩ := hs.vars.get ha
      rw [hea]
      dsimp only
      have hc := child_sim i hra
      cases hch : si.h.g.child x i with
      | none => rw [hc.2 hch]; exact stepOk_bad hs
      | some y =>
        obtain ⟨e', he', hr'⟩ := hc.1 y hch
        rw [he']
        exact ⟨⟨hs.coh, hs.vars.push hr', hs.cur⟩, rfl, Graph.Le.refl _, ArrExt.refl _,
          fun a ha => by cases ha⟩

theorem init_sim (env : Env) : Sim env Impl.init {} := by
  refine ⟨fun x hx => (by cases hx), ⟨rfl, fun i n e h1 _ => (by simp [Impl.init] at h1)⟩, ?_⟩
  simp only [Rep, Impl.init]
  exact ⟨.base, 0, rfl, rfl⟩

/-- Everything a whole run guarantees. -/
structure RunOk (tbl : ClassTable) (env : Env) (si : Impl.State) (ss : Spec.State) (ops : List Op) :
    Prop where
  sim : Sim env (Impl.run tbl env si ops).1 (Spec.run env ss ops).1
  obs : (Impl.run tbl env si ops).2.map (·.obs) = (Spec.run env ss ops).2
  gle : si.h.g.Le (Impl.run tbl env si ops).1.h.g
  ext : ArrExt si.h (Impl.run tbl env si ops).1.h
  arr : ∀ o ∈ (Impl.run tbl env si ops).2, ∀ a, o.arr = some a →
    ∃ m, (Impl.run tbl env si ops).1.h.arrays[a]? = some m ∧ o.obs = .mask (.ok m)

theorem run_sim (tbl : ClassTable) (hf : tbl.Faithful) (env : Env) :
    ∀ (ops : List Op) (si : Impl.State) (ss : Spec.State), Sim env si ss → RunOk tbl env si ss ops
  | [], si, ss, hs => ⟨hs, rfl, Graph.Le.refl _, ArrExt.refl _, fun o ho => by cases ho⟩
  | op :: ops, si, ss, hs => by
    have h1 := step_sim tbl hf env si ss hs op
    have h2 := run_sim tbl hf env ops _ _ h1.sim
    refine ⟨h2.sim, ?_, h1.gle.trans h2.gle, h1.ext.trans h2.ext, ?_⟩
    · simp only [Impl.run, Spec.run, List.map_cons, h1.obs, h2.obs]
    · intro o ho a ha
      simp only [Impl.run, List.mem_cons] at ho
      rcases ho with rfl | ho
      · obtain ⟨m, hm, hobs⟩ := h1.arr a ha
        exact ⟨m, h2.ext.get hm, hobs⟩
      · exact h2.arr o ho a ha

/-! ## Spec-level facts used by the corollaries -/

theorem Spec.step_vars_prefix (env : Env) (s : Spec.State) (op : Op) :
    ∃ ext, (Spec.step env s op).1.vars = s.vars ++ ext := by
  cases op with
  | leaf k c => exact ⟨_, rfl⟩
  | bin op a b =>
    simp only [Spec.step]
    cases s.vars[a]? <;> cases s.vars[b]? <;> first | exact ⟨_, rfl⟩ | exact ⟨[], by simp⟩
  | inv a =>
    simp only [Spec.step]
    cases s.vars[a]? <;> first | exact ⟨_, rfl⟩ | exact ⟨[], by simp⟩
  | multiOr as =>
    simp only [Spec.step]
    cases lookupAll s.vars as with
    | none => exact ⟨[], by simp⟩
    | some xs => cases xs <;> first | exact ⟨_, rfl⟩ | exact ⟨[], by simp⟩
  | copy a =>
    simp only [Spec.step]
    cases s.vars[a]? <;> first | exact ⟨_, rfl⟩ | exact ⟨[], by simp⟩
  | eval a d v f =>
    simp only [Spec.step]
    cases s.vars[a]? <;> exact ⟨[], by simp⟩
  | edit m a =>
    simp only [Spec.step]
    cases s.vars[a]? <;> exact ⟨[], by simp⟩
  | evalCur d v => exact ⟨[], by simp [Spec.step]⟩
  | useCur => exact ⟨_, rfl⟩
  | child a i =>
    simp only [Spec.step]
    cases s.vars[a]? with
    | none => exact ⟨[], by simp⟩
    | some x =>
      dsimp only
      cases x.child i with
      | none => exact ⟨[], by simp⟩
      | some y => exact ⟨_, rfl⟩

theorem Spec.run_vars_prefix (env : Env) :
    ∀ (ops : List Op) (s : Spec.State), ∃ ext, (Spec.run env s ops).1.vars = s.vars ++ ext
  | [], s => ⟨[], by simp [Spec.run]⟩
  | op :: ops, s => by
    obtain ⟨e1, h1⟩ := Spec.step_vars_prefix env s op
    obtain ⟨e2, h2⟩ := Spec.run_vars_prefix env ops (Spec.step env s op).1
    exact ⟨e1 ++ e2, by simp only [Spec.run]; rw [h2, h1, List.append_assoc]⟩

theorem Spec.run_var_stable (env : Env) (ops : List Op) (s : Spec.State) {a : Nat} {x : Expr}
    (h : s.vars[a]? = some x) : (Spec.run env s ops).1.vars[a]? = some x := by
  obtain ⟨ext, he⟩ := Spec.run_vars_prefix env ops s
  rw [he]; exact getElem?_append_some h

def Op.isEval : Op → Bool
  | .eval _ _ _ _ => true
  | .evalCur _ _ => true
  | _ => false

theorem Spec.step_eval_state (env : Env) (s : Spec.State) (op : Op) (h : op.isEval = true) :
    (Spec.step env s op).1 = s := by
  cases op with
  | eval a d v f => simp only [Spec.step]; cases s.vars[a]? <;> rfl
  | evalCur d v => rfl
  | _ => simp [Op.isEval] at h

/-- The Spec state after a program depends only on its non-evaluating ops. -/
theorem Spec.run_state_filter (env : Env) :
    ∀ (ops : List Op) (s : Spec.State),
      (Spec.run env s ops).1 = (Spec.run env s (ops.filter (fun o => !o.isEval))).1
  | [], _ => rfl
  | op :: ops, s => by
    cases h : op.isEval with
    | true =>
      simp only [List.filter, h, Bool.not_true, Spec.run]
      rw [Spec.step_eval_state env s op h]
      exact Spec.run_state_filter env ops s
    | false =>
      simp only [List.filter, h, Bool.not_false, Spec.run]
      exact Spec.run_state_filter env ops _

/-! ## Shapes -/

theorem Mask.binop_shape {op : BinOp} {a b m : Mask} (h : Mask.binop op a b = .ok m) :
    m.shape = a.shape ∧ a.shape = b.shape ∧ m.bits = List.zipWith op.fn a.bits b.bits := by
  simp only [Mask.binop] at h
  split at h
  · cases h; exact ⟨rfl, ‹_›, rfl⟩
  · cases h

mutual
theorem denote_shaped {env : Env} {d : DataId} {v : View} {S : List Nat} {N : Nat}
    (hl : ∀ c m, env.leaf c d v = .ok m → m.shape = S ∧ m.bits.length = N) :
    ∀ (e : Expr) (m : Mask), e.denote env d v = .ok m → m.shape = S ∧ m.bits.length = N
  | .leaf c, m, h => by simp only [Expr.denote] at h; exact hl c m h
  | .bin op a b, m, h => by
    simp only [Expr.denote] at h
    cases ha : a.denote env d v with
    | error _ => rw [ha] at h; cases h
    | ok x =>
      rw [ha] at h
      cases hb : b.denote env d v with
      | error _ => rw [hb] at h; cases h
      | ok y =>
        rw [hb] at h
        obtain ⟨h1, _, h3⟩ := Mask.binop_shape h
        have hx := denote_shaped hl a x ha
        have hy := denote_shaped hl b y hb
        refine ⟨by rw [h1]; exact hx.1, ?_⟩
        rw [h3, List.length_zipWith, hx.2, hy.2, Nat.min_self]
  | .inv a, m, h => by
    simp only [Expr.denote] at h
    cases ha : a.denote env d v with
    | error _ => rw [ha] at h; cases h
    | ok x =>
      rw [ha] at h
      cases h
      have hx := denote_shaped hl a x ha
      exact ⟨hx.1, by simp only [Mask.not, List.length_map]; exact hx.2⟩
  | .multiOr es, m, h => by
    simp only [Expr.denote] at h
    cases es with
    | nil => simp only [denoteOr] at h; cases h
    | cons e es =>
      simp only [denoteOr] at h
      cases he : e.denote env d v with
      | error _ => rw [he] at h; cases h
      | ok x =>
        rw [he] at h
        exact orFold_shaped hl es x m (denote_shaped hl e x he) h
theorem orFold_shaped {env : Env} {d : DataId} {v : View} {S : List Nat} {N : Nat}
    (hl : ∀ c m, env.leaf c d v = .ok m → m.shape = S ∧ m.bits.length = N) :
    ∀ (es : List Expr) (acc m : Mask), (acc.shape = S ∧ acc.bits.length = N) →
      orFold env d v acc es = .ok m → m.shape = S ∧ m.bits.length = N
  | [], acc, m, hacc, h => by simp only [orFold] at h; cases h; exact hacc
  | e :: es, acc, m, hacc, h => by
    simp only [orFold] at h
    cases he : e.denote env d v with
    | error _ => rw [he] at h; cases h
    | ok y =>
      simp only [he] at h
      cases hb : Mask.binop .or acc y with
      | error _ => rw [hb] at h; cases h
      | ok acc' =>
        rw [hb] at h
        obtain ⟨h1, _, h3⟩ := Mask.binop_shape hb
        have hy := denote_shaped hl e y he
        refine orFold_shaped hl es acc' m ⟨by rw [h1]; exact hacc.1, ?_⟩ h
        rw [h3, List.length_zipWith, hacc.2, hy.2, Nat.min_self]
end

/-- Many-way or = left-nested binary ors, including every error case. -/
theorem denoteOr_cons_cons (env : Env) (d : DataId) (v : View) (e e' : Expr) (es : List Expr) :
    denoteOr env d v (e :: e' :: es) = denoteOr env d v (.bin .or e e' :: es) := by
  simp only [denoteOr, orFold, Expr.denote]
  cases e.denote env d v with
  | error _ => rfl
  | ok x =>
    cases e'.denote env d v with
    | error _ => rfl
    | ok y =>
      cases Mask.binop .or x y with
      | error _ => rfl
      | ok z => rfl

theorem multiOr_foldl (env : Env) (d : DataId) (v : View) :
    ∀ (es : List Expr) (e : Expr),
      (Expr.multiOr (e :: es)).denote env d v = (es.foldl (fun acc x => .bin .or acc x) e).denote env d v
  | [], e => by
    simp only [Expr.denote, denoteOr, orFold, List.foldl]
    cases e.denote env d v <;> rfl
  | e' :: es, e => by
    have := multiOr_foldl env d v es (.bin .or e e')
    simp only [Expr.denote, List.foldl] at this ⊢
    rw [denoteOr_cons_cons]; exact this

/-! ## Concrete witnesses (used by `Props/C01`) -/

/-- Three elementary masks on a 3-element dataset: content 0 = empty `SubsetState()`. -/
def f7Env : Env :=
  ⟨fun c _ _ =>
    if c = 0 then .ok ⟨[3], [false, false, false]⟩
    else if c = 1 then .ok ⟨[3], [true, true, false]⟩
    else .ok ⟨[3], [true, false, true]⟩⟩

def v0 : View := ⟨0, true⟩

/-- `st = RoiSubsetStateNd(...)`, `q = (x > 0)`, `c = st & q`, `d.get_mask(c)`. -/
def f7Prog : List Op := [.leaf .roiNd 1, .leaf .inequality 2, .bin .and 0 1, .eval 2 0 v0 .kw]

/-- A longer program: many-way or over shared operands, repeated / interleaved evaluations in
different call forms, every edit mode. -/
def demoProg : List Op :=
  [.leaf .roi2d 1, .leaf .inequality 2, .multiOr [0, 1], .eval 2 0 v0 .kw, .eval 0 0 v0 .kw,
   .bin .xor 2 0, .eval 3 0 v0 .pos, .eval 3 0 v0 .pos, .copy 2, .eval 4 0 v0 .kw,
   .edit .replace 3, .edit .andNot 1, .evalCur 0 v0, .edit .or 0, .evalCur 0 v0, .edit .xor 4,
   .edit .and 2, .evalCur 0 v0, .useCur, .inv 5, .eval 6 0 v0 .bare]
