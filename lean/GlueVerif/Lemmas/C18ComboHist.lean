import GlueVerif.Lemmas.C18Combo
/-!
# C18 parts 2 and 3 — invariants of the helper machines and of the image-axes machine
-/
namespace GlueVerif.Lemmas.C18Combo
open GlueVerif.C18Combo

/-! ## 3. `ComponentIDComboHelper` histories -/

/-- the helper shows what `refresh` computes from the datasets as they are now. -/
def Fresh (st : CState) : Prop := st.pick.choices = refresh st.F (st.hdata.map st.data)

/-- a queued message that will make the helper refresh when it is delivered. -/
def Pending (hdata : List Nat) (q : List Msg) : Prop := ∃ d ∈ hdata, Msg.changed d ∈ q

/-- the helper as a hub listener: subscribed exactly when it has a hub reference; it has one
whenever it holds a dataset, and from the start when it was given the collection. -/
structure SubInv (st : CState) : Prop where
  eq : st.sub = st.hub
  holds : st.hdata ≠ [] → st.hub = true
  dc : st.hasDc = true → st.hub = true

structure CInv (st : CState) : Prop where
  fresh : Fresh st ∨ (st.depth > 0 ∧ Pending st.hdata st.queue)
  sel : selOk st.pick.choices st.pick.sel = true
  subs : SubInv st

theorem fresh_doRefresh (st : CState) : Fresh (doRefresh st) := rfl

theorem selOk_doRefresh (st : CState) : selOk (doRefresh st).pick.choices (doRefresh st).pick.sel = true :=
  selOk_choicesUpdated _ _ _

/-- `release` touches the subscription fields only. -/
theorem release_fields (r : Release) (st : CState) :
    (release r st).pick = st.pick ∧ (release r st).F = st.F ∧ (release r st).hdata = st.hdata ∧
    (release r st).data = st.data ∧ (release r st).depth = st.depth ∧ (release r st).queue = st.queue ∧
    (release r st).hasDc = st.hasDc := by
  cases r
  · exact ⟨rfl, rfl, rfl, rfl, rfl, rfl, rfl⟩
  · simp only [release]; split <;> exact ⟨rfl, rfl, rfl, rfl, rfl, rfl, rfl⟩
  · simp only [release]; split <;> exact ⟨rfl, rfl, rfl, rfl, rfl, rfl, rfl⟩

theorem fresh_release (r : Release) (st : CState) (h : Fresh st) : Fresh (release r st) := by
  obtain ⟨h1, h2, h3, h4, _⟩ := release_fields r st
  unfold Fresh; rw [h1, h2, h3, h4]; exact h

theorem selOk_release (r : Release) (st : CState) (h : selOk st.pick.choices st.pick.sel = true) :
    selOk (release r st).pick.choices (release r st).pick.sel = true := by
  rw [(release_fields r st).1]; exact h

theorem sub_release (r : Release) (hr : r.sound) (st : CState) (h : SubInv st) : SubInv (release r st) := by
  cases r with
  | never => exact h
  | keepRef => exact absurd rfl hr
  | resetRef =>
    simp only [release]
    split
    · rename_i hc
      simp only [Bool.and_eq_true, Bool.not_eq_true', List.isEmpty_iff] at hc
      exact ⟨rfl, fun hne => absurd hc.2 hne, fun hd => by simp [hc.1.1] at hd⟩
    · exact h

theorem sub_latch (st : CState) (h : SubInv st) : SubInv (latch st) ∧ (latch st).hub = true := by
  unfold latch
  by_cases hh : st.hub = true
  · simp only [hh, if_true]; exact ⟨h, trivial⟩
  · simp only [hh, Bool.false_eq_true, if_false]
    exact ⟨⟨rfl, fun _ => rfl, fun _ => rfl⟩, trivial⟩

theorem latch_fields (st : CState) :
    (latch st).pick = st.pick ∧ (latch st).F = st.F ∧ (latch st).hdata = st.hdata ∧
    (latch st).data = st.data ∧ (latch st).depth = st.depth ∧ (latch st).queue = st.queue ∧
    (latch st).nData = st.nData := by
  unfold latch; split <;> exact ⟨rfl, rfl, rfl, rfl, rfl, rfl, rfl⟩

/-- the subscription invariant survives a change of `helper._data` to a list that is empty unless
the hub reference is set, followed by `refresh`. -/
theorem sub_setData (st : CState) (h : SubInv st) (l : List Nat) (hl : l ≠ [] → st.hub = true) :
    SubInv (doRefresh { st with hdata := l }) := ⟨h.eq, hl, h.dc⟩

theorem sub_helperRemove (r : Release) (hr : r.sound) (d : Nat) (st : CState) (h : SubInv st) :
    SubInv (helperRemove r d st) := by
  unfold helperRemove
  split
  · refine sub_release r hr _ (sub_setData st h _ ?_)
    intro hne
    apply h.holds
    intro he
    rw [he] at hne
    exact hne (by simp)
  · exact h

theorem sub_deliver (r : Release) (hr : r.sound) (st : CState) (m : Msg) (h : SubInv st) :
    SubInv (deliver r st m) := by
  cases m with
  | changed d => simp only [deliver]; split <;> exact ⟨h.eq, h.holds, h.dc⟩
  | renamed d => exact h
  | deleted d => simp only [deliver]; split
                 · exact sub_helperRemove r hr d st h
                 · exact h

theorem deliver_fresh_or_same (r : Release) (st : CState) (m : Msg) :
    deliver r st m = st ∨
    (Fresh (deliver r st m) ∧ selOk (deliver r st m).pick.choices (deliver r st m).pick.sel = true) := by
  cases m with
  | changed d =>
    simp only [deliver]
    split
    · exact Or.inr ⟨fresh_doRefresh st, selOk_doRefresh st⟩
    · exact Or.inl rfl
  | renamed d => exact Or.inl rfl
  | deleted d =>
    simp only [deliver, helperRemove]
    split
    · split
      · exact Or.inr ⟨fresh_release r _ (fresh_doRefresh _), selOk_release r _ (selOk_doRefresh _)⟩
      · exact Or.inl rfl
    · exact Or.inl rfl

/-- delivering the queue: if the helper was fresh, or some queued message concerns one of its
datasets, it is fresh afterwards (nothing mutates the datasets during a flush) — a helper that holds
a dataset is subscribed, so that message reaches it. -/
theorem flush_fresh (r : Release) (hr : r.sound) (q : List Msg) : ∀ st : CState,
    (Fresh st ∨ Pending st.hdata q) → selOk st.pick.choices st.pick.sel = true → SubInv st →
    Fresh (q.foldl (deliver r) st) ∧
    selOk (q.foldl (deliver r) st).pick.choices (q.foldl (deliver r) st).pick.sel = true ∧
    SubInv (q.foldl (deliver r) st) := by
  induction q with
  | nil =>
    intro st h hs hsub
    rcases h with h | ⟨d, _, hd⟩
    · exact ⟨h, hs, hsub⟩
    · simp at hd
  | cons m q ih =>
    intro st h hs hsub
    simp only [List.foldl_cons]
    have hsub' := sub_deliver r hr st m hsub
    rcases deliver_fresh_or_same r st m with hsame | ⟨hf, hs'⟩
    · rw [hsame]
      rcases h with h | ⟨d, hd, hq⟩
      · exact ih st (Or.inl h) hs hsub
      · rcases List.mem_cons.1 hq with rfl | hq'
        · -- this very message refreshes (the helper holds `d`, hence is subscribed)
          have hne : st.hdata ≠ [] := by intro he; rw [he] at hd; simp at hd
          have hs1 : st.sub = true := by rw [hsub.eq]; exact hsub.holds hne
          have : deliver r st (.changed d) = doRefresh st := by
            have hc : st.hdata.contains d = true := by simpa using hd
            simp only [deliver, hc, hs1, Bool.and_self, if_true]
          rw [this] at hsame
          have hfr : Fresh st := by rw [← hsame]; exact fresh_doRefresh st
          exact ih st (Or.inl hfr) hs hsub
        · exact ih st (Or.inr ⟨d, hd, hq'⟩) hs hsub
    · exact ih _ (Or.inl hf) hs' hsub'

theorem map_upd_of_not_mem (data : Nat → DS) (d : Nat) (D : DS) (hdata : List Nat) (h : d ∉ hdata) :
    hdata.map (upd data d D) = hdata.map data := by
  apply List.map_congr_left
  intro x hx
  have : x ≠ d := fun e => h (e ▸ hx)
  simp [upd, this]

/-- a mutation of dataset `d` followed by the broadcast of its `ComponentsChangedMessage`. -/
theorem inv_mutate (r : Release) (st : CState) (h : CInv st) (d k : Nat) (D : DS) :
    CInv (bcast r (.changed d) { st with nCid := k, data := upd st.data d D }) := by
  have hsub : SubInv { st with nCid := k, data := upd st.data d D } := ⟨h.subs.eq, h.subs.holds, h.subs.dc⟩
  unfold bcast
  by_cases hdep : st.depth > 0
  · simp only [hdep, if_true]
    by_cases hd : d ∈ st.hdata
    · exact ⟨Or.inr ⟨hdep, d, hd, by simp⟩, h.sel, ⟨h.subs.eq, h.subs.holds, h.subs.dc⟩⟩
    · refine ⟨?_, h.sel, ⟨h.subs.eq, h.subs.holds, h.subs.dc⟩⟩
      rcases h.fresh with hf | ⟨_, d', hd', hq⟩
      · left
        show st.pick.choices = refresh st.F (st.hdata.map (upd st.data d D))
        rw [map_upd_of_not_mem _ _ _ _ hd]; exact hf
      · right; exact ⟨hdep, d', hd', by simp [hq]⟩
  · simp only [hdep, if_false]
    have hf : Fresh st := by
      rcases h.fresh with hf | ⟨hd, _⟩
      · exact hf
      · exact absurd hd hdep
    simp only [deliver]
    split
    · exact ⟨Or.inl (fresh_doRefresh _), selOk_doRefresh _, ⟨h.subs.eq, h.subs.holds, h.subs.dc⟩⟩
    · rename_i hc
      have hd : ¬ d ∈ st.hdata := by
        intro hd
        have hne : st.hdata ≠ [] := by intro he; rw [he] at hd; simp at hd
        have hs1 : st.sub = true := by rw [h.subs.eq]; exact h.subs.holds hne
        have hc' : st.hdata.contains d = true := by simpa using hd
        apply hc
        show (st.sub && st.hdata.contains d) = true
        rw [hs1, hc']; rfl
      refine ⟨Or.inl ?_, h.sel, hsub⟩
      show st.pick.choices = refresh st.F (st.hdata.map (upd st.data d D))
      rw [map_upd_of_not_mem _ _ _ _ hd]; exact hf

/-- a broadcast that does not follow a change of the datasets (rename, collection delete). -/
theorem inv_bcast_other (r : Release) (hr : r.sound) (st : CState) (h : CInv st) (m : Msg)
    (hm : ∀ d, m ≠ .changed d) : CInv (bcast r m st) := by
  unfold bcast
  by_cases hdep : st.depth > 0
  · simp only [hdep, if_true]
    refine ⟨?_, h.sel, ⟨h.subs.eq, h.subs.holds, h.subs.dc⟩⟩
    rcases h.fresh with hf | ⟨_, d', hd', hq⟩
    · exact Or.inl hf
    · exact Or.inr ⟨hdep, d', hd', by simp [hq]⟩
  · simp only [hdep, if_false]
    have hf : Fresh st := by
      rcases h.fresh with hf | ⟨hd, _⟩
      · exact hf
      · exact absurd hd hdep
    have hsub := sub_deliver r hr st m h.subs
    rcases deliver_fresh_or_same r st m with hs | ⟨hf', hs'⟩
    · rw [hs]; exact ⟨Or.inl hf, h.sel, h.subs⟩
    · exact ⟨Or.inl hf', hs', hsub⟩

theorem cinv_err {st : CState} (h : CInv st) (e : Bool) : CInv { st with err := e } :=
  ⟨h.fresh, h.sel, ⟨h.subs.eq, h.subs.holds, h.subs.dc⟩⟩

theorem cinv_inDc {st : CState} (h : CInv st) (l : List Nat) : CInv { st with inDc := l } :=
  ⟨h.fresh, h.sel, ⟨h.subs.eq, h.subs.holds, h.subs.dc⟩⟩

theorem cinv_doRefresh (st : CState) (h : SubInv (doRefresh st)) : CInv (doRefresh st) :=
  ⟨Or.inl (fresh_doRefresh st), selOk_doRefresh st, h⟩

theorem cinv_release (r : Release) (hr : r.sound) (st : CState) (h : SubInv (doRefresh st)) :
    CInv (release r (doRefresh st)) := by
  obtain ⟨_, _, _, _, hd, hq, _⟩ := release_fields r (doRefresh st)
  exact ⟨Or.inl (fresh_release r _ (fresh_doRefresh st)), selOk_release r _ (selOk_doRefresh st),
    sub_release r hr _ h⟩

/-- the client's selections are admissible (see `POp.admissible`). -/
def cAdm (st : CState) : COp → Bool
  | .select v => POp.admissible st.pick (.select v)
  | _ => true

theorem cinv_step (r : Release) (hr : r.sound) (st : CState) (op : COp) (h : CInv st) (ha : cAdm st op = true) :
    CInv (cstepR r st op) := by
  have h0 := cinv_err h false
  cases op with
  | addComp d k =>
    simp only [cstepR]
    split
    · exact inv_mutate r _ h0 d _ _
    · exact h0
  | addDerived d =>
    simp only [cstepR]
    split
    · exact inv_mutate r _ h0 d _ _
    · exact h0
  | removeComp d i =>
    simp only [cstepR]
    split
    · split
      · have := inv_mutate r _ h0 d st.nCid (removeCid (st.data d) ‹Nat›)
        exact this
      · exact h0
    · exact h0
  | rename d i =>
    simp only [cstepR]
    split
    · split
      · exact inv_bcast_other r hr _ h0 _ (by intro d' hd; cases hd)
      · exact h0
    · exact h0
  | reorder d =>
    simp only [cstepR]
    split
    · have := inv_mutate r _ h0 d st.nCid { st.data d with main := (st.data d).main.reverse, derived := (st.data d).derived.reverse }
      exact this
    · exact h0
  | replace d i =>
    simp only [cstepR]
    split
    · split
      · exact inv_mutate r _ h0 d _ _
      · exact h0
    · exact h0
  | helperAppend d =>
    simp only [cstepR]
    split
    · obtain ⟨hl, hh⟩ := sub_latch _ h0.subs
      split
      · exact cinv_doRefresh _ (sub_setData _ hl _ (fun _ => hh))
      · obtain ⟨h1, h2, h3, h4, h5, h6, _⟩ := latch_fields { st with err := false }
        refine ⟨?_, ?_, hl⟩
        · rcases h0.fresh with hf | ⟨hp, hq⟩
          · left; unfold Fresh; rw [h1, h2, h3, h4]; exact hf
          · right; rw [h5, h6, h3]; exact ⟨hp, hq⟩
        · rw [h1]; exact h0.sel
    · exact h0
  | helperRemove d =>
    simp only [cstepR, helperRemove]
    split
    · split
      · refine cinv_release r hr _ (sub_setData _ h0.subs _ ?_)
        intro hne
        apply h0.subs.holds
        intro he
        have he' : st.hdata = [] := he
        rw [he'] at hne
        exact hne (by simp)
      · exact h0
    · exact h0
  | setMultiple ds =>
    simp only [cstepR]
    split
    · rename_i he
      refine cinv_release r hr _ (sub_setData _ h0.subs _ ?_)
      intro hne
      exact absurd (List.isEmpty_iff.1 he) hne
    · obtain ⟨hl, hh⟩ := sub_latch _ h0.subs
      exact cinv_release r hr _ (sub_setData _ hl _ (fun _ => hh))
  | helperClear =>
    simp only [cstepR]
    exact cinv_release r hr _ (sub_setData _ h0.subs _ (fun hne => absurd rfl hne))
  | setFlag f b => exact cinv_doRefresh _ ⟨h.subs.eq, h.subs.holds, h.subs.dc⟩
  | dcRemove d =>
    simp only [cstepR]
    split
    · exact inv_bcast_other r hr _ (cinv_inDc h0 _) _ (by intro d' hd; cases hd)
    · exact h0
  | dcAppend d =>
    simp only [cstepR]
    split
    · exact cinv_inDc h0 _
    · exact h0
  | select v =>
    simp only [cstepR]
    have hsel := selOk_select st.pick v h.sel ha
    refine ⟨?_, ?_, ⟨h.subs.eq, h.subs.holds, h.subs.dc⟩⟩
    · rcases h.fresh with hf | hp
      · left
        show (st.pick.select v).1.choices = refresh st.F (st.hdata.map st.data)
        rw [hsel.2]; exact hf
      · exact Or.inr hp
    · show selOk (st.pick.select v).1.choices (st.pick.select v).1.sel = true
      rw [hsel.2]; exact hsel.1
  | delayOpen =>
    simp only [cstepR]
    refine ⟨?_, h.sel, ⟨h.subs.eq, h.subs.holds, h.subs.dc⟩⟩
    rcases h.fresh with hf | ⟨_, hp⟩
    · exact Or.inl hf
    · exact Or.inr ⟨Nat.succ_pos _, hp⟩
  | delayClose =>
    simp only [cstepR]
    split
    · exact h0
    · split
      · have hstart : (Fresh { st with err := false, depth := 0, queue := [] } ∨
            Pending st.hdata st.queue) := by
          rcases h.fresh with hf | ⟨_, hp⟩
          · exact Or.inl hf
          · exact Or.inr hp
        have := flush_fresh r hr st.queue { st with err := false, depth := 0, queue := [] } hstart h.sel
          ⟨h.subs.eq, h.subs.holds, h.subs.dc⟩
        exact ⟨Or.inl this.1, this.2.1, this.2.2⟩
      · refine ⟨?_, h.sel, ⟨h.subs.eq, h.subs.holds, h.subs.dc⟩⟩
        rcases h.fresh with hf | ⟨_, hp⟩
        · exact Or.inl hf
        · refine Or.inr ⟨?_, hp⟩
          show st.depth - 1 > 0
          omega

/-- all selections of a history are admissible. -/
def cAdmRunR (r : Release) : CState → List COp → Prop
  | _, [] => True
  | st, op :: ops => cAdm st op = true ∧ cAdmRunR r (cstepR r st op) ops

def cAdmRun : CState → List COp → Prop := cAdmRunR .never

theorem cinv_run (r : Release) (hr : r.sound) (ops : List COp) :
    ∀ st : CState, CInv st → cAdmRunR r st ops → CInv (crunR r st ops) := by
  induction ops with
  | nil => intro st h _; exact h
  | cons op ops ih =>
    intro st h ha
    exact ih _ (cinv_step r hr st op h ha.1) ha.2

theorem cinv_initH (hasDc : Bool) (n nCid : Nat) (data : Nat → DS) (idx : Int) : CInv (cinitH hasDc n nCid data idx) := by
  refine ⟨Or.inl ?_, ?_, ⟨rfl, fun h => absurd rfl h, fun h => h⟩⟩
  · show ([] : List Choice) = refresh defaultFlags ([].map data)
    rfl
  · rfl

theorem cinv_initWith (n nCid : Nat) (data : Nat → DS) (idx : Int) : CInv (cinitWith n nCid data idx) :=
  cinv_initH true n nCid data idx

theorem cinv_init (n : Nat) (idx : Int) : CInv (cinit n idx) := cinv_initWith n (5 * n) initDS idx

/-! ## 4. dataset pickers -/

def DFresh (st : DState) : Prop :=
  st.pick.choices = (if st.auto then st.inDc else st.manual).map Choice.cid

def DPending (q : List (Option Bool × Nat)) : Prop := ∃ m ∈ q, m.1.isSome = true

structure DInv (st : DState) : Prop where
  fresh : DFresh st ∨ (st.depth > 0 ∧ st.auto = true ∧ DPending st.queue)
  sel : selOk st.pick.choices st.pick.sel = true

theorem dfresh_dRefresh (st : DState) : DFresh (dRefresh st) := rfl

theorem selOk_dRefresh (st : DState) : selOk (dRefresh st).pick.choices (dRefresh st).pick.sel = true :=
  selOk_choicesUpdated _ _ _

theorem dDeliver_cases (st : DState) (m : Option Bool × Nat) :
    (dDeliver st m = st ∧ (st.auto = true → m.1 = none)) ∨
      (∃ st', dDeliver st m = dRefresh st' ∧ st'.auto = st.auto) := by
  unfold dDeliver
  cases hm : m.1 with
  | none => exact Or.inl ⟨rfl, fun _ => rfl⟩
  | some b =>
    by_cases ha : st.auto = true
    · right
      refine ⟨st, ?_, rfl⟩
      cases b <;> simp only [if_pos ha]
    · cases b with
      | true =>
        left
        simp only [if_neg ha, true_and]
        exact fun h => absurd h ha
      | false =>
        simp only [if_neg ha]
        by_cases hc : st.manual.contains m.2 = true
        · right
          simp only [if_pos hc]
          exact ⟨_, rfl, rfl⟩
        · left
          simp only [if_neg hc, true_and]
          exact fun h => absurd h ha

theorem dDeliver_auto (st : DState) (m : Option Bool × Nat) : (dDeliver st m).auto = st.auto := by
  rcases dDeliver_cases st m with ⟨h, _⟩ | ⟨st', h, ha⟩
  · rw [h]
  · rw [h]; exact ha

theorem dflush_fresh (q : List (Option Bool × Nat)) : ∀ st : DState,
    (DFresh st ∨ (st.auto = true ∧ DPending q)) → selOk st.pick.choices st.pick.sel = true →
    DFresh (q.foldl dDeliver st) ∧ selOk (q.foldl dDeliver st).pick.choices (q.foldl dDeliver st).pick.sel = true := by
  induction q with
  | nil =>
    intro st h hs
    rcases h with h | ⟨_, m, hm, _⟩
    · exact ⟨h, hs⟩
    · simp at hm
  | cons m q ih =>
    intro st h hs
    simp only [List.foldl_cons]
    rcases dDeliver_cases st m with ⟨hsame, hnone⟩ | ⟨st', hr, _⟩
    · rw [hsame]
      rcases h with h | ⟨ha, m', hm', hsome⟩
      · exact ih st (Or.inl h) hs
      · rcases List.mem_cons.1 hm' with rfl | hq'
        · rw [hnone ha] at hsome; simp at hsome
        · exact ih st (Or.inr ⟨ha, m', hq', hsome⟩) hs
    · rw [hr]
      exact ih _ (Or.inl (dfresh_dRefresh st')) (selOk_dRefresh st')

theorem dinv_err {st : DState} (h : DInv st) (e : Bool) : DInv { st with err := e } := ⟨h.fresh, h.sel⟩

theorem dinv_dRefresh (st : DState) : DInv (dRefresh st) := ⟨Or.inl (dfresh_dRefresh st), selOk_dRefresh st⟩

/-- a change of the collection followed by the broadcast of its message. -/
theorem dinv_dc (st : DState) (h : DInv st) (l : List Nat) (b : Bool) (d : Nat) :
    DInv (dBcast (some b, d) { st with inDc := l }) := by
  unfold dBcast
  by_cases hdep : st.depth > 0
  · simp only [hdep, if_true]
    by_cases ha : st.auto = true
    · exact ⟨Or.inr ⟨hdep, ha, (some b, d), by simp, rfl⟩, h.sel⟩
    · refine ⟨?_, h.sel⟩
      rcases h.fresh with hf | ⟨_, ha', _⟩
      · left
        unfold DFresh at hf ⊢
        simp only [ha, Bool.false_eq_true, if_false] at hf ⊢
        exact hf
      · exact absurd ha' ha
  · simp only [hdep, if_false]
    rcases dDeliver_cases { st with inDc := l } (some b, d) with ⟨hsame, hnone⟩ | ⟨st', hr, _⟩
    · rw [hsame]
      have ha : ¬ st.auto = true := fun ha => by
        have := hnone ha
        simp at this
      refine ⟨Or.inl ?_, h.sel⟩
      rcases h.fresh with hf | ⟨hd, _⟩
      · unfold DFresh at hf ⊢
        simp only [ha, Bool.false_eq_true, if_false] at hf ⊢
        exact hf
      · exact absurd hd hdep
    · rw [hr]; exact dinv_dRefresh st'

theorem dinv_relabel (st : DState) (h : DInv st) (d : Nat) : DInv (dBcast (none, d) st) := by
  unfold dBcast
  by_cases hdep : st.depth > 0
  · simp only [hdep, if_true]
    refine ⟨?_, h.sel⟩
    rcases h.fresh with hf | ⟨_, ha, m, hm, hs⟩
    · exact Or.inl hf
    · exact Or.inr ⟨hdep, ha, m, by simp [hm], hs⟩
  · simp only [hdep, if_false]
    exact h

def dAdm (st : DState) : DOp → Bool
  | .select v => POp.admissible st.pick (.select v)
  | _ => true

theorem dinv_step (st : DState) (op : DOp) (h : DInv st) (ha : dAdm st op = true) : DInv (dstep st op) := by
  have h0 := dinv_err h false
  cases op with
  | dcAppend d =>
    simp only [dstep]
    split
    · exact dinv_dc _ h0 _ true d
    · exact h0
  | dcRemove d =>
    simp only [dstep]
    split
    · exact dinv_dc _ h0 _ false d
    · exact h0
  | helperAppend d =>
    simp only [dstep]
    split
    · exact h0
    · exact dinv_dRefresh _
  | helperRemove d =>
    simp only [dstep]
    split
    · exact h0
    · exact dinv_dRefresh _
  | setMultiple ds =>
    simp only [dstep]
    split
    · exact h0
    · exact dinv_dRefresh _
  | relabel d =>
    simp only [dstep]
    split
    · exact dinv_relabel _ h0 d
    · exact h0
  | select v =>
    simp only [dstep]
    have hsel := selOk_select st.pick v h.sel ha
    refine ⟨?_, ?_⟩
    · rcases h.fresh with hf | hp
      · left
        show (st.pick.select v).1.choices = _
        rw [hsel.2]; exact hf
      · exact Or.inr hp
    · show selOk (st.pick.select v).1.choices (st.pick.select v).1.sel = true
      rw [hsel.2]; exact hsel.1
  | delayOpen =>
    simp only [dstep]
    refine ⟨?_, h.sel⟩
    rcases h.fresh with hf | ⟨_, hp⟩
    · exact Or.inl hf
    · exact Or.inr ⟨Nat.succ_pos _, hp⟩
  | delayClose =>
    simp only [dstep]
    split
    · exact h0
    · split
      · have hstart : (DFresh { st with err := false, depth := 0, queue := [] } ∨
            (st.auto = true ∧ DPending st.queue)) := by
          rcases h.fresh with hf | ⟨_, hp⟩
          · exact Or.inl hf
          · exact Or.inr hp
        have := dflush_fresh st.queue { st with err := false, depth := 0, queue := [] } hstart h.sel
        exact ⟨Or.inl this.1, this.2⟩
      · refine ⟨?_, h.sel⟩
        rcases h.fresh with hf | ⟨_, hp⟩
        · exact Or.inl hf
        · refine Or.inr ⟨?_, hp⟩
          show st.depth - 1 > 0
          omega

def dAdmRun : DState → List DOp → Prop
  | _, [] => True
  | st, op :: ops => dAdm st op = true ∧ dAdmRun (dstep st op) ops

theorem dinv_run (ops : List DOp) : ∀ st : DState, DInv st → dAdmRun st ops → DInv (drun st ops) := by
  induction ops with
  | nil => intro st h _; exact h
  | cons op ops ih =>
    intro st h ha
    exact ih _ (dinv_step st op h ha.1) ha.2

theorem dinv_init (n : Nat) (auto : Bool) (idx : Int) (inDc : List Nat) : DInv (dinit n auto idx inDc) := by
  cases auto with
  | true =>
    refine ⟨Or.inl rfl, ?_⟩
    exact selOk_choicesUpdated idx _ none
  | false => exact ⟨Or.inl rfl, rfl⟩

/-! ## 5. image axes -/
namespace Axes
open GlueVerif.C18Combo.Axes

/-- the invariant (the Prop reading of `axesOk`). -/
def AOk (ndim : Nat → Nat) (s : AState) : Prop :=
  s.crashed = false ∧
  match s.ref with
  | none => s.x = none ∧ s.y = none ∧ s.xw = none ∧ s.yw = none ∧ ∀ d ∈ s.layers, ndim d < 2
  | some r => r ∈ s.layers ∧ 2 ≤ ndim r ∧ ∃ i j, s.x = some i ∧ s.y = some j ∧ s.xw = some i ∧ s.yw = some j ∧
      i ≠ j ∧ i < ndim r ∧ j < ndim r

theorem alt_ne (n i : Nat) (hn : 2 ≤ n) : alt n i ≠ i := by
  unfold alt; split <;> omega

theorem alt_lt (n i : Nat) (hn : 2 ≤ n) : alt n i < n := by
  unfold alt; split <;> omega

/-- the x-side handler establishes the invariant from any state with a valid `xw` and a valid or
clashing `yw`. -/
theorem onXW_ok (ndim : Nat → Nat) (r : Nat) (s : AState) (i j : Nat) (hn : 2 ≤ ndim r)
    (hc : s.crashed = false) (hr : s.ref = some r) (hl : r ∈ s.layers)
    (hxw : s.xw = some i) (hyw : s.yw = some j) (hi : i < ndim r) (hj : j < ndim r) :
    AOk ndim (onXW (ndim r) s) ∧ (onXW (ndim r) s).xw = some i := by
  obtain ⟨layers, ref, x, y, xw, yw, err, crashed⟩ := s
  simp only at hc hr hl hxw hyw
  subst hc hr hxw hyw
  by_cases hij : j = i
  · subst hij
    refine ⟨⟨rfl, ?_⟩, ?_⟩
    · simp only [onXW, if_true, Option.isSome_some]
      exact ⟨hl, hn, j, alt (ndim r) j, rfl, rfl, rfl, rfl, (alt_ne _ _ hn).symm, hi, alt_lt _ _ hn⟩
    · simp only [onXW]
  · have hne : ¬ (some j = some i) := fun e => hij (Option.some.inj e)
    refine ⟨⟨rfl, ?_⟩, ?_⟩
    · simp only [onXW, hne, if_false, Option.isSome_some, if_true]
      exact ⟨hl, hn, i, j, rfl, rfl, rfl, rfl, fun e => hij e.symm, hi, hj⟩
    · simp only [onXW]

theorem onYW_ok (ndim : Nat → Nat) (r : Nat) (s : AState) (i j : Nat) (hn : 2 ≤ ndim r)
    (hc : s.crashed = false) (hr : s.ref = some r) (hl : r ∈ s.layers)
    (hxw : s.xw = some i) (hyw : s.yw = some j) (hi : i < ndim r) (hj : j < ndim r) :
    AOk ndim (onYW (ndim r) s) := by
  obtain ⟨layers, ref, x, y, xw, yw, err, crashed⟩ := s
  simp only at hc hr hl hxw hyw
  subst hc hr hxw hyw
  by_cases hij : i = j
  · subst hij
    refine ⟨rfl, ?_⟩
    simp only [onYW, if_true, Option.isSome_some]
    exact ⟨hl, hn, alt (ndim r) i, i, rfl, rfl, rfl, rfl, alt_ne _ _ hn, alt_lt _ _ hn, hj⟩
  · have hne : ¬ (some i = some j) := fun e => hij (Option.some.inj e)
    refine ⟨rfl, ?_⟩
    simp only [onYW, hne, if_false, Option.isSome_some, if_true]
    exact ⟨hl, hn, i, j, rfl, rfl, rfl, rfl, hij, hi, hj⟩

theorem onXW_fields (n : Nat) (s : AState) :
    (onXW n s).ref = s.ref ∧ (onXW n s).layers = s.layers ∧ (onXW n s).crashed = s.crashed := by
  unfold onXW; cases s.xw <;> exact ⟨rfl, rfl, rfl⟩

theorem newRef_ok (ndim : Nat → Nat) (d : Nat) (s : AState) (hn : 2 ≤ ndim d) (hc : s.crashed = false)
    (hl : d ∈ s.layers) : AOk ndim (newRef d (ndim d) s) := by
  unfold newRef
  have h1 := onXW_ok ndim d { s with ref := some d, xw := some (ndim d - 1), yw := some (ndim d - 2) }
    (ndim d - 1) (ndim d - 2) hn hc rfl hl rfl rfl (by omega) (by omega)
  have hf := onXW_fields (ndim d) { s with ref := some d, xw := some (ndim d - 1), yw := some (ndim d - 2) }
  generalize onXW (ndim d) { s with ref := some d, xw := some (ndim d - 1), yw := some (ndim d - 2) } = s1
    at h1 hf
  obtain ⟨⟨hc1, hok⟩, _⟩ := h1
  obtain ⟨hr1, hl1, _⟩ := hf
  simp only at hr1 hl1
  rw [hr1] at hok
  obtain ⟨_, _, i, j, _, _, hxw, hyw, _, hi, hj⟩ := hok
  exact onYW_ok ndim d s1 i j hn hc1 hr1 (hl1 ▸ hl) hxw hyw hi hj

/-- a dataset of two or more dimensions becomes the reference data: no crash. -/
theorem setNewRef_ok (ndim : Nat → Nat) (d : Nat) (s : AState) (hn : 2 ≤ ndim d) (hc : s.crashed = false)
    (hl : d ∈ s.layers) : AOk ndim (setNewRef ndim d s) := by
  have hlt : ¬ ndim d < 2 := by omega
  simp only [setNewRef, hlt, if_false]
  exact newRef_ok ndim d s hn hc hl

/-- the reference-data picker of the repaired code offers exactly the layer datasets of two or more
dimensions. -/
theorem mem_refChoices (ndim : Nat → Nat) (ls : List Nat) (d : Nat) :
    d ∈ refChoices 2 ndim ls ↔ d ∈ ls ∧ 2 ≤ ndim d := by
  simp [refChoices, List.mem_filter]

theorem refChoices_nil (ndim : Nat → Nat) (ls : List Nat) (h : refChoices 2 ndim ls = []) :
    ∀ d ∈ ls, ndim d < 2 := by
  intro d hd
  have hnot : ¬ (d ∈ ls ∧ 2 ≤ ndim d) := fun hh =>
    absurd ((mem_refChoices ndim ls d).mpr hh) (by rw [h]; exact List.not_mem_nil)
  have : ¬ 2 ≤ ndim d := fun h2 => hnot ⟨hd, h2⟩
  omega

/-- what `layersChanged` needs: the attributes are consistent with the reference data (which may
have just lost its layer). -/
def AttsOk (ndim : Nat → Nat) (s : AState) : Prop :=
  match s.ref with
  | none => s.x = none ∧ s.y = none ∧ s.xw = none ∧ s.yw = none
  | some r => 2 ≤ ndim r ∧ ∃ i j, s.x = some i ∧ s.y = some j ∧ s.xw = some i ∧ s.yw = some j ∧
      i ≠ j ∧ i < ndim r ∧ j < ndim r

theorem layersChanged_ok (ndim : Nat → Nat) (s : AState) (hc : s.crashed = false)
    (h : AttsOk ndim s) : AOk ndim (layersChanged ndim s) := by
  obtain ⟨layers, ref, x, y, xw, yw, err, crashed⟩ := s
  simp only at hc
  subst hc
  unfold AttsOk at h
  unfold layersChanged layersChangedWith
  simp only
  cases hch : refChoices 2 ndim layers with
  | nil =>
    have hall := refChoices_nil ndim layers hch
    cases ref with
    | none =>
      simp only at h
      obtain ⟨rfl, rfl, rfl, rfl⟩ := h
      simp only [List.head?_nil]
      exact ⟨rfl, rfl, rfl, rfl, rfl, hall⟩
    | some r =>
      simp only [List.contains_nil, Bool.false_eq_true, if_false, List.head?_nil, noRef]
      exact ⟨rfl, rfl, rfl, rfl, rfl, hall⟩
  | cons d ds =>
    have hd : d ∈ layers ∧ 2 ≤ ndim d := (mem_refChoices ndim layers d).mp (by rw [hch]; exact List.mem_cons_self ..)
    cases ref with
    | none =>
      simp only [List.head?_cons]
      exact setNewRef_ok ndim d _ hd.2 rfl hd.1
    | some r =>
      simp only at h
      by_cases hcr : (d :: ds).contains r = true
      · simp only [hcr, if_true]
        have hr : r ∈ layers ∧ 2 ≤ ndim r := (mem_refChoices ndim layers r).mp (by rw [hch]; simpa using hcr)
        exact ⟨rfl, hr.1, h⟩
      · simp only [hcr, List.head?_cons]
        exact setNewRef_ok ndim d _ hd.2 rfl hd.1

theorem astep_ok (ndim : Nat → Nat) (s : AState) (op : AOp) (h : AOk ndim s) :
    AOk ndim (astep ndim s op) := by
  obtain ⟨layers, ref, x, y, xw, yw, err, crashed⟩ := s
  obtain ⟨hc, hm⟩ := h
  simp only at hc hm
  subst hc
  unfold astep
  cases ref with
  | none =>
    simp only at hm
    obtain ⟨rfl, rfl, rfl, rfl, hall⟩ := hm
    have hsame : ∀ e, AOk ndim ⟨layers, none, none, none, none, none, e, false⟩ := fun e => ⟨rfl, rfl, rfl, rfl, rfl, hall⟩
    cases op with
    | setX i => exact hsame false
    | setY i => exact hsame false
    | setXW i => exact hsame true
    | setYW i => exact hsame true
    | setRef d => exact hsame true
    | addLayer d =>
      simp only [astepWith, Bool.false_eq_true, if_false]
      split
      · exact hsame false
      · exact layersChanged_ok ndim _ rfl ⟨rfl, rfl, rfl, rfl⟩
    | removeLayer d =>
      simp only [astepWith, Bool.false_eq_true, if_false]
      exact layersChanged_ok ndim _ rfl ⟨rfl, rfl, rfl, rfl⟩
  | some r =>
    simp only at hm
    obtain ⟨hl, hnr, i, j, rfl, rfl, rfl, rfl, hij, hi, hj⟩ := hm
    have hsame : ∀ e, AOk ndim ⟨layers, some r, some i, some j, some i, some j, e, false⟩ := fun e =>
      ⟨rfl, hl, hnr, i, j, rfl, rfl, rfl, rfl, hij, hi, hj⟩
    have hatts : ∀ ls e, AttsOk ndim ⟨ls, some r, some i, some j, some i, some j, e, false⟩ := fun _ _ =>
      ⟨hnr, i, j, rfl, rfl, rfl, rfl, hij, hi, hj⟩
    cases op with
    | setX a =>
      simp only [astepWith, Bool.false_eq_true, if_false]
      split
      · exact (onXW_ok ndim r _ a j hnr rfl rfl hl rfl rfl ‹_› hj).1
      · exact hsame false
    | setY a =>
      simp only [astepWith, Bool.false_eq_true, if_false]
      split
      · exact onYW_ok ndim r _ i a hnr rfl rfl hl rfl rfl hi ‹_›
      · exact hsame false
    | setXW a =>
      simp only [astepWith, Bool.false_eq_true, if_false]
      split
      · exact (onXW_ok ndim r _ a j hnr rfl rfl hl rfl rfl ‹_› hj).1
      · exact hsame true
    | setYW a =>
      simp only [astepWith, Bool.false_eq_true, if_false]
      split
      · exact onYW_ok ndim r _ i a hnr rfl rfl hl rfl rfl hi ‹_›
      · exact hsame true
    | setRef d =>
      simp only [astepWith, Bool.false_eq_true, if_false]
      by_cases hcd : (refChoices 2 ndim layers).contains d = true
      · simp only [hcd, Bool.not_true, Bool.false_eq_true, if_false]
        have hd : d ∈ layers ∧ 2 ≤ ndim d := (mem_refChoices ndim layers d).mp (by simpa using hcd)
        by_cases hdr : d = r
        · simp only [hdr, if_true]; exact hsame false
        · simp only [hdr, if_false]
          exact setNewRef_ok ndim d _ hd.2 rfl hd.1
      · simp only [hcd, Bool.not_false, if_true]
        exact hsame true
    | addLayer d =>
      simp only [astepWith, Bool.false_eq_true, if_false]
      split
      · exact hsame false
      · exact layersChanged_ok ndim _ rfl (hatts _ _)
    | removeLayer d =>
      simp only [astepWith, Bool.false_eq_true, if_false]
      exact layersChanged_ok ndim _ rfl (hatts _ _)

theorem arun_ok (ndim : Nat → Nat) (ops : List AOp) :
    ∀ s : AState, AOk ndim s → AOk ndim (arun ndim s ops) := by
  induction ops with
  | nil => intro s h; exact h
  | cons op ops ih => intro s h; exact ih _ (astep_ok ndim s op h)

theorem ainit_ok (ndim : Nat → Nat) : AOk ndim ainit :=
  ⟨rfl, rfl, rfl, rfl, rfl, fun _ h => absurd h List.not_mem_nil⟩

theorem axesOk_of_AOk (ndim : Nat → Nat) (s : AState) (h : AOk ndim s) : axesOk ndim s = true := by
  obtain ⟨hc, hm⟩ := h
  unfold axesOk
  cases hr : s.ref with
  | none =>
    simp only [hr] at hm
    obtain ⟨hx, hy, hxw, hyw, hl⟩ := hm
    simp [hc, hx, hy, hxw, hyw]
    exact hl
  | some r =>
    simp only [hr] at hm
    obtain ⟨hl, hn, i, j, hx, hy, hxw, hyw, hij, hi, hj⟩ := hm
    simp [hc, hx, hy, hxw, hyw, hl, hn, hij, hi, hj]

end Axes

end GlueVerif.Lemmas.C18Combo
