import GlueVerif.Lemmas.C17Inv
import Mathlib.Data.List.Perm.Subperm
/-!
Helper lemmas for C17, part 2: the calls of the mutation API preserve the state invariant `Inv`.
-/
namespace GlueVerif.Lemmas.C17
open GlueVerif.DataStruct

/-! ## consequences of `Inv` -/

theorem inv_pix_mem {s : State} (h : Inv s) : ∀ c ∈ s.pix, c ∈ cids s.comps := famOk_ids_mem h.pixel

theorem inv_world_mem {s : State} (h : Inv s) : ∀ c ∈ s.world, c ∈ cids s.comps := by
  have hw := h.world
  split at hw
  · exact famOk_ids_mem hw
  · intro c hc; rw [hw.1] at hc; cases hc

/-- An empty table means: no shape, no listed ids, no links. -/
theorem inv_empty {s : State} (h : Inv s) (he : s.comps = []) :
    s.shape = [] ∧ s.pix = [] ∧ s.world = [] ∧ s.nlinks = 0 := by
  have hp : s.pix = [] := by
    cases hpx : s.pix with
    | nil => rfl
    | cons p ps =>
      have := inv_pix_mem h p (by rw [hpx]; exact List.mem_cons_self)
      rw [he] at this; cases this
  have hw : s.world = [] := by
    cases hwx : s.world with
    | nil => rfl
    | cons p ps =>
      have := inv_world_mem h p (by rw [hwx]; exact List.mem_cons_self)
      rw [he] at this; cases this
  have hs : s.shape = [] := by
    have := h.pixel.1
    rw [hp] at this
    exact List.eq_nil_of_length_eq_zero this.symm
  refine ⟨hs, hp, hw, ?_⟩
  rw [h.links, hs]; simp

/-- A dataset without dimensions has no coordinate components. -/
theorem inv_noCoord {s : State} (h : Inv s) (hs : s.shape = []) : ∀ c ∈ s.comps, c.kind.isCoord = false := by
  intro c hc
  have hp : s.pix = [] := List.eq_nil_of_length_eq_zero (by rw [h.pixel.1, hs]; rfl)
  cases hk : c.kind with
  | main => rfl
  | derived d => rfl
  | pixel a =>
    have := h.pixel.2.2 c hc a hk
    rw [hp] at this; cases this
  | world a =>
    have hw := h.world
    split at hw
    · have hwn : s.world = [] := List.eq_nil_of_length_eq_zero (by rw [hw.1, hs]; rfl)
      have := hw.2.2 c hc a hk
      rw [hwn] at this; cases this
    · exact absurd hk (hw.2 c hc a)

theorem pixel_inj (a b : Nat) (h : Kind.pixel a = Kind.pixel b) : a = b := by cases h; rfl
theorem world_inj (a b : Nat) (h : Kind.world a = Kind.world b) : a = b := by cases h; rfl

/-! ## remove_component -/

theorem inv_removeRec {s : State} (h : Inv s) (fuel : Nat) (c : Cid)
    (hc : ∀ x ∈ s.comps, x.cid = c → x.kind.isCoord = false) :
    Inv { s with comps := (removeRec fuel s.comps c).1 } := by
  have hr := removeRec_ok fuel s.comps c
  rw [hr.eq]
  apply inv_filter h
  intro x hx hco
  simp only [Bool.not_eq_true', List.contains_eq_mem, decide_eq_false_iff_not]
  intro hmem
  rcases hr.kinds _ hmem with heq | ⟨y, hy, hyx, hyd⟩
  · have := hc x hx heq
    rw [hco] at this; cases this
  · have : y = x := cid_inj h.nodup hy hx hyx
    subst this
    cases hk : y.kind <;> simp_all [Kind.isCoord, Kind.isDerived]

/-- The refusal test of `remove_component` (F20) is false: `c` is not a coordinate component. -/
theorem notCoord_of_any {s : State} {c : Cid}
    (h : s.comps.any (fun x => x.cid == c && x.kind.isCoord) = false) :
    ∀ x ∈ s.comps, x.cid = c → x.kind.isCoord = false := by
  intro x hx hxc
  simp only [List.any_eq_false, Bool.and_eq_true, beq_iff_eq, not_and, Bool.not_eq_true] at h
  exact h x hx hxc

theorem inv_removeComp {s : State} (h : Inv s) (c : Cid)
    (hc : ∀ x ∈ s.comps, x.cid = c → x.kind.isCoord = false) :
    Inv (removeComp s c).1 := by
  simp only [removeComp]
  exact inv_removeRec h _ c hc

/-- `remove_component` (public): refused for a coordinate component, otherwise the cascade. -/
theorem inv_remove {s : State} (h : Inv s) (c : Cid) : Inv (stepCore s (.remove c)).state := by
  simp only [stepCore]
  split
  · exact h
  · rename_i hco
    simp only [ok]
    exact inv_removeComp h c (notCoord_of_any (by simpa using hco))

/-! ## add_component -/

theorem insertComp_fresh {cs : List Comp} {c : Comp} (h : c.cid ∉ cids cs) : insertComp cs c = cs ++ [c] := by
  simp [insertComp, h]

theorem compShape_of_inv {s : State} (h : Inv s) : ∀ c ∈ s.comps, compShape s.shape c = s.shape := by
  intro c hc
  simp only [compShape]
  cases hk : c.kind <;> simp
  exact h.shapes c hc hk

/-- In a non-empty dataset `_check_can_add` amounts to "same shape". -/
theorem canAdd_nonempty {s : State} (h : Inv s) (hne : s.comps ≠ []) {shape : Shape}
    (hc : canAdd s shape = true) : shape = s.shape := by
  simp only [canAdd, Bool.or_eq_true, Bool.and_eq_true, List.isEmpty_iff, List.any_eq_true, beq_iff_eq] at hc
  rcases hc with (hc | ⟨⟨hs, ⟨x, hx, hco⟩⟩, _⟩) | hc
  · exact absurd hc hne
  · rw [inv_noCoord h hs x hx] at hco; cases hco
  · exact hc

theorem inv_addRaw_noncoord {s : State} (h : Inv s) (c : Comp)
    (hnew : c.cid ∉ cids s.comps) (hlt : c.cid < s.next) (hk : c.kind.isCoord = false)
    (hsh : c.kind = .main → c.shape = s.shape) :
    Inv (addRaw s c).1 := by
  have hshape : compShape s.shape c = s.shape := by
    simp only [compShape]
    cases hkk : c.kind <;> simp
    exact hsh hkk
  have : (addRaw s c).1 = { s with comps := s.comps ++ [c] } := by
    simp only [addRaw, hshape, insertComp_fresh hnew]
    simp
  rw [this]
  exact inv_append h c hnew hlt hk hsh

theorem fresh_frame (s : State) (l : Label) :
    (fresh s l).1.comps = s.comps ∧ (fresh s l).1.pix = s.pix ∧ (fresh s l).1.world = s.world ∧
    (fresh s l).1.shape = s.shape ∧ (fresh s l).1.coords = s.coords ∧ (fresh s l).1.nlinks = s.nlinks ∧
    (fresh s l).1.linked = s.linked ∧ (fresh s l).1.next = s.next + 1 ∧ (fresh s l).2 = s.next ∧
    (fresh s l).1.hub = s.hub := by
  simp [fresh]

theorem inv_fresh {s : State} (h : Inv s) (l : Label) : Inv (fresh s l).1 := by
  obtain ⟨a, b, c, d, e, f, g, hn, _, _⟩ := fresh_frame s l
  exact inv_frame h a b c d e f g (by rw [hn]; exact Nat.le_succ _)

theorem fresh_not_mem {s : State} (h : Inv s) : s.next ∉ cids s.comps :=
  fun hm => Nat.lt_irrefl _ (h.fresh.1 _ hm)

theorem inv_addDerived {s : State} (h : Inv s) (v : Bool) (l : Label) (deps : List Cid) :
    Inv (addDerivedImpl s v l deps).state := by
  have hf := inv_fresh h l
  obtain ⟨a, b, c, d, e, f, g, hn, hc, _⟩ := fresh_frame s l
  simp only [addDerivedImpl]
  split
  · split
    · exact hf
    · split
      · exact hf
      · rename_i hne
        simp only [ok]
        apply inv_addRaw_noncoord hf
        · rw [a]; exact fresh_not_mem h
        · rw [hn, hc]; exact Nat.lt_succ_self _
        · rfl
        · intro hk; cases hk
  · split
    · exact h
    · rename_i hne
      simp only [ok]
      apply inv_addRaw_noncoord hf
      · rw [a]; exact fresh_not_mem h
      · rw [hn, hc]; exact Nat.lt_succ_self _
      · rfl
      · intro hk; cases hk


/-! ### the first component: pixel / world components are generated -/

def famComps (b : Nat) (mk : Nat → Kind) (n : Nat) : List Comp :=
  (List.range n).map fun i => ⟨b + i, mk i, [], 0⟩

def famIds (b n : Nat) : List Cid := (List.range n).map (b + ·)

theorem cids_famComps (b : Nat) (mk : Nat → Kind) (n : Nat) : cids (famComps b mk n) = famIds b n := by
  simp [cids, famComps, famIds]

theorem mem_famIds {b n x : Nat} : x ∈ famIds b n ↔ b ≤ x ∧ x < b + n := by
  simp only [famIds, List.mem_map, List.mem_range]
  constructor
  · rintro ⟨i, hi, rfl⟩; omega
  · intro h; exact ⟨x - b, by omega, by omega⟩

theorem famIds_nodup (b n : Nat) : (famIds b n).Nodup := by
  simp only [famIds]
  exact List.Pairwise.map (f := (b + ·)) (fun x y (h : x ≠ y) => (by omega : b + x ≠ b + y)) List.nodup_range

/-- A freshly generated family inside a table that has no other member of that family. -/
theorem famOk_range (pre post : List Comp) (b n : Nat) (mk : Nat → Kind)
    (hmk : ∀ a b, mk a = mk b → a = b)
    (hpre : ∀ c ∈ pre, ∀ a, c.kind ≠ mk a) (hpost : ∀ c ∈ post, ∀ a, c.kind ≠ mk a) :
    FamOk (pre ++ famComps b mk n ++ post) (famIds b n) mk n := by
  refine ⟨by simp [famIds], ?_, ?_⟩
  · intro i hi
    have hi' : i < n := by simpa [famIds] using hi
    refine ⟨⟨b + i, mk i, [], 0⟩, ?_, by simp [famIds], rfl⟩
    apply List.mem_append_left
    apply List.mem_append_right
    simp only [famComps, List.mem_map, List.mem_range]
    exact ⟨i, hi', rfl⟩
  · intro c hc a hka
    simp only [List.mem_append] at hc
    rcases hc with (hc | hc) | hc
    · exact absurd hka (hpre c hc a)
    · simp only [famComps, List.mem_map, List.mem_range] at hc
      obtain ⟨i, hi, rfl⟩ := hc
      have := hmk i a hka
      subst this
      simp [famIds, hi]
    · exact absurd hka (hpost c hc a)

/-- The state right after the first component was stored: pixel family, world family (iff
coordinates), the component itself. -/
theorem inv_build (t : State) (b n : Nat) (c : Cid) (shape : Shape) (val : Nat) (w : Bool)
    (hcomps : t.comps = famComps b .pixel n ++ (if w then famComps (b + n) .world n else []) ++ [⟨c, .main, shape, val⟩])
    (hpix : t.pix = famIds b n) (hworld : t.world = if w then famIds (b + n) n else [])
    (hshape : t.shape = shape) (hn : shape.length = n) (hco : t.coords.isSome = w)
    (hlinks : t.nlinks = if w then 2 * n else 0) (hc : c < b) (hnext : b + n + (if w then n else 0) ≤ t.next)
    (hlinked : ∀ x ∈ t.linked, x < t.next) : Inv t := by
  have hW : ∀ x ∈ (if w then famComps (b + n) .world n else []), ∃ i, x.kind = .world i ∧ x.cid = b + n + i ∧ i < n := by
    intro x hx
    cases w
    · cases hx
    · simp only [famComps, if_true, List.mem_map, List.mem_range] at hx
      obtain ⟨i, hi, rfl⟩ := hx
      exact ⟨i, rfl, rfl, hi⟩
  have hP : ∀ x ∈ famComps b .pixel n, ∃ i, x.kind = .pixel i ∧ x.cid = b + i ∧ i < n := by
    intro x hx
    simp only [famComps, List.mem_map, List.mem_range] at hx
    obtain ⟨i, hi, rfl⟩ := hx
    exact ⟨i, rfl, rfl, hi⟩
  refine ⟨?_, ?_, ?_, ?_, ?_, ?_⟩
  · rw [hcomps]
    simp only [cids, List.map_append, List.map_cons, List.map_nil]
    have e1 : List.map (fun x => x.cid) (famComps b Kind.pixel n) = famIds b n := cids_famComps _ _ _
    have e2 : List.map (fun x => x.cid) (if w then famComps (b + n) Kind.world n else []) = if w then famIds (b + n) n else [] := by
      cases w <;> simp [← cids_famComps (b + n) Kind.world n, cids]
    rw [e1, e2, List.nodup_append, List.nodup_append]
    refine ⟨⟨famIds_nodup _ _, ?_, ?_⟩, by simp, ?_⟩
    · cases w <;> simp [famIds_nodup]
    · intro x hx y hy hxy
      subst hxy
      cases w
      · cases hy
      · simp only [if_true] at hy
        have := mem_famIds.1 hx; have := mem_famIds.1 hy; omega
    · intro x hx y hy hxy
      simp only [List.mem_singleton] at hy
      subst hxy hy
      rcases List.mem_append.1 hx with hx | hx
      · have := mem_famIds.1 hx; omega
      · cases w
        · cases hx
        · simp only [if_true] at hx
          have := mem_famIds.1 hx; omega
  · intro x hx hk
    rw [hcomps] at hx
    simp only [List.mem_append, List.mem_singleton] at hx
    rcases hx with (hx | hx) | hx
    · obtain ⟨i, hi, _⟩ := hP x hx; rw [hk] at hi; cases hi
    · obtain ⟨i, hi, _⟩ := hW x hx; rw [hk] at hi; cases hi
    · subst hx; exact hshape.symm
  · rw [hcomps, hpix, hshape, hn]
    have := famOk_range [] ((if w then famComps (b + n) .world n else []) ++ [⟨c, .main, shape, val⟩]) b n .pixel
      pixel_inj (by simp) (by
        intro x hx a hk
        simp only [List.mem_append, List.mem_singleton] at hx
        rcases hx with hx | hx
        · obtain ⟨i, hi, _⟩ := hW x hx; rw [hk] at hi; cases hi
        · subst hx; cases hk)
    simpa [List.append_assoc] using this
  · rw [hco]
    cases w
    · simp only [Bool.false_eq_true, if_false] at hworld hcomps ⊢
      refine ⟨hworld, ?_⟩
      intro x hx a hk
      rw [hcomps] at hx
      simp only [List.append_nil, List.mem_append, List.mem_singleton] at hx
      rcases hx with hx | hx
      · obtain ⟨i, hi, _⟩ := hP x hx; rw [hk] at hi; cases hi
      · subst hx; cases hk
    · simp only [if_true] at hworld hcomps ⊢
      rw [hcomps, hworld, hshape, hn]
      exact famOk_range (famComps b .pixel n) [⟨c, .main, shape, val⟩] (b + n) n .world world_inj
        (by intro x hx a hk; obtain ⟨i, hi, _⟩ := hP x hx; rw [hk] at hi; cases hi)
        (by intro x hx a hk; simp only [List.mem_singleton] at hx; subst hx; cases hk)
  · rw [hlinks, hco, hshape, hn]
  · refine ⟨?_, hlinked⟩
    intro x hx
    rw [hcomps] at hx
    simp only [cids, List.map_append, List.mem_append, List.mem_map, List.map_cons, List.map_nil,
      List.mem_singleton] at hx
    rcases hx with (⟨y, hy, rfl⟩ | ⟨y, hy, rfl⟩) | hx
    · obtain ⟨i, _, hi, _⟩ := hP y hy; omega
    · obtain ⟨i, _, hi, _⟩ := hW y hy
      cases w
      · cases hy
      · simp only [if_true] at hnext; omega
    · subst hx; omega

theorem inv_firstAdd {s : State} (h : Inv s) (he : s.comps = []) (c : Cid) (hc : c < s.next)
    (shape : Shape) (val : Nat) :
    Inv (addMain s c shape val).1 := by
  obtain ⟨hs, hp, hw, hl⟩ := inv_empty h he
  have hlinked := h.fresh.2
  have hnotin : ∀ (l : List Comp), (∀ x ∈ cids l, s.next ≤ x) → (cids l).contains c = false := by
    intro l hl
    simp only [List.contains_eq_mem, decide_eq_false_iff_not]
    intro hm; have := hl c hm; omega
  have hsb : (if (([] : Shape) == [] && shape != []) = true then shape else []) = shape := by
    cases shape <;> simp
  simp only [addMain, he, List.isEmpty_nil, if_true, createPixelWorld, newPixels, updateWorld, hw, removeAll,
    Res.bind, hp, List.nil_append]
  by_cases hco : s.coords.isSome = true
  · simp only [hco, if_true, newWorlds, addRaw, hs, compShape, insertComp]
    rw [hnotin]
    · apply inv_build _ s.next shape.length c shape val true
      · simp [famComps, Nat.add_assoc]
      · simp [famIds]
      · simp [famIds]
      · simpa using hsb
      · rfl
      · simp [hco]
      · simp
      · exact hc
      · simp only [if_true]; omega
      · intro x hx; have := hlinked x hx; simp only; omega
    · intro x hx
      simp only [cids, List.map_append, List.map_map, List.mem_append, List.mem_map, List.mem_range,
        Function.comp] at hx
      rcases hx with ⟨i, _, rfl⟩ | ⟨i, _, rfl⟩ <;> omega
  · simp only [hco, Bool.false_eq_true, if_false, addRaw, hs, compShape, insertComp]
    rw [hnotin]
    · apply inv_build _ s.next shape.length c shape val false
      · simp [famComps]
      · simp [famIds]
      · simp
      · simpa using hsb
      · rfl
      · simpa using hco
      · simp [hl]
      · exact hc
      · simp
      · intro x hx; have := hlinked x hx; simp only; omega
    · intro x hx
      simp [cids] at hx
      obtain ⟨i, _, rfl⟩ := hx; omega


/-- `add_component(array, id)` with an id that is not in use, after the shape check. -/
theorem inv_addMain {s : State} (h : Inv s) (c : Cid) (hc : c < s.next) (hnew : c ∉ cids s.comps)
    (shape : Shape) (val : Nat) (hcan : canAdd s shape = true) :
    Inv (addMain s c shape val).1 := by
  by_cases he : s.comps = []
  · exact inv_firstAdd h he c hc shape val
  · have hshape := canAdd_nonempty h he hcan
    have : s.comps.isEmpty = false := by simpa using he
    simp only [addMain, this, Res.bind]
    exact inv_addRaw_noncoord h _ hnew hc rfl (fun _ => hshape)

theorem canAdd_fresh (s : State) (l : Label) (shape : Shape) : canAdd (fresh s l).1 shape = canAdd s shape := by
  simp [canAdd, fresh]

theorem inv_addArray {s : State} (h : Inv s) (l : Label) (shape : Shape) (val : Nat) :
    Inv (stepCore s (.addArray l shape val)).state := by
  simp only [stepCore]
  split
  · exact h
  · rename_i hcan
    simp only [ok]
    obtain ⟨a, _, _, _, _, _, _, hn, hcid, _⟩ := fresh_frame s l
    apply inv_addMain (inv_fresh h l)
    · rw [hn, hcid]; exact Nat.lt_succ_self _
    · rw [a, hcid]; exact fresh_not_mem h
    · rw [canAdd_fresh]; simpa using hcan

/-- `self._components[cid] = component` for an id that is a key: the entry is replaced in place. -/
theorem insertComp_present {cs : List Comp} {c : Comp} (h : c.cid ∈ cids cs) :
    insertComp cs c = cs.map (fun x => if x.cid == c.cid then c else x) := by
  simp [insertComp, h]

/-- `add_component(array, id)` onto an id in use for an array (F21): the array is replaced in place. -/
theorem addMain_replace {s : State} {c : Cid} (hin : c ∈ cids s.comps) (shape : Shape) (val : Nat)
    (hsh : shape = s.shape) :
    addMain s c shape val =
      ({ s with comps := s.comps.map (fun x => if x.cid == c then ⟨c, .main, shape, val⟩ else x) },
       if s.hub then [.numerical (some [c])] else []) := by
  have hne : s.comps ≠ [] := by
    intro he; rw [he] at hin; cases hin
  have h1 : s.comps.isEmpty = false := by simpa using hne
  have h3 : (cids s.comps).contains c = true := by simpa using hin
  subst hsh
  simp only [addMain, h1, Res.bind, addRaw, compShape, h3, Bool.false_eq_true, if_false, if_true,
    List.nil_append]
  rw [insertComp_present (c := ⟨c, .main, s.shape, val⟩) hin]
  simp

theorem inv_addArrayAt {s : State} (h : Inv s) (c : Cid) (shape : Shape) (val : Nat)
    (hc : c < s.next) :
    Inv (stepCore s (.addArrayAt c shape val)).state := by
  simp only [stepCore]
  split
  · exact h
  · rename_i hkind
    split
    · exact h
    · rename_i hcan
      simp only [ok]
      by_cases hin : c ∈ cids s.comps
      · have hne : s.comps ≠ [] := by
          intro he; rw [he] at hin; cases hin
        have hshape := canAdd_nonempty h hne (by simpa using hcan)
        rw [addMain_replace hin shape val hshape]
        have hmain : ∀ x ∈ s.comps, x.cid = c → x.kind = .main := by
          intro x hx hxc
          simp only [List.any_eq_true, Bool.and_eq_true, beq_iff_eq, not_exists, not_and,
            Bool.not_eq_eq_eq_not, Bool.not_true] at hkind
          have := hkind x hx hxc
          cases hk : x.kind <;> simp_all [Kind.isMain]
        apply inv_map h
        · intro x hx
          by_cases hxc : x.cid = c
          · simp [hxc, hmain x hx hxc]
          · have : (x.cid == c) = false := by simpa using hxc
            simp [this]
        · intro x hx hk
          by_cases hxc : x.cid = c
          · simp [hxc, hshape]
          · have : (x.cid == c) = false := by simpa using hxc
            simp only [this, Bool.false_eq_true, if_false]
            exact h.shapes x hx hk
      · exact inv_addMain h c hc hin shape val (by simpa using hcan)


/-! ## reorder_components -/

/-- `Inv` does not depend on the order of the table. -/
theorem inv_perm {s : State} (h : Inv s) (cs' : List Comp) (hm : ∀ x, x ∈ cs' ↔ x ∈ s.comps)
    (hnd : (cids cs').Nodup) : Inv { s with comps := cs' } := by
  obtain ⟨h1, h2, h3, h4, h6, h7⟩ := h
  have fam : ∀ {ids : List Cid} {mk : Nat → Kind} {n : Nat}, FamOk s.comps ids mk n → FamOk cs' ids mk n := by
    intro ids mk n hf
    refine ⟨hf.1, ?_, ?_⟩
    · intro i hi
      obtain ⟨c, hc, hh⟩ := hf.2.1 i hi
      exact ⟨c, (hm c).2 hc, hh⟩
    · intro c hc a hk
      exact hf.2.2 c ((hm c).1 hc) a hk
  refine ⟨hnd, ?_, fam h3, ?_, h6, ?_⟩
  · intro c hc; exact h2 c ((hm c).1 hc)
  · simp only
    split
    next hco => simp only [hco, if_true] at h4; exact fam h4
    next hco =>
      simp only [hco] at h4
      exact ⟨h4.1, fun c hc a => h4.2 c ((hm c).1 hc) a⟩
  · refine ⟨?_, h7.2⟩
    intro c hc
    simp only [cids, List.mem_map] at hc
    obtain ⟨x, hx, rfl⟩ := hc
    exact h7.1 _ (List.mem_map.2 ⟨x, (hm x).1 hx, rfl⟩)

theorem find_cid {cs : List Comp} {c : Cid} (hc : c ∈ cids cs) :
    ∃ x, cs.find? (fun y => y.cid == c) = some x ∧ x ∈ cs ∧ x.cid = c := by
  simp only [cids, List.mem_map] at hc
  obtain ⟨y, hy, hyc⟩ := hc
  cases hf : cs.find? (fun y => y.cid == c) with
  | none =>
    have := List.find?_eq_none.1 hf y hy
    simp [hyc] at this
  | some x =>
    refine ⟨x, rfl, List.mem_of_find?_eq_some hf, ?_⟩
    have := List.find?_some hf
    simpa using this

theorem cids_lookup {cs : List Comp} : ∀ {ids : List Cid}, (∀ c ∈ ids, c ∈ cids cs) →
    cids (ids.filterMap fun c => cs.find? (fun y => y.cid == c)) = ids
  | [], _ => rfl
  | c :: rest, h => by
    obtain ⟨x, hx, _, hxc⟩ := find_cid (h c List.mem_cons_self)
    simp only [List.filterMap_cons, hx]
    simp only [cids, List.map_cons, hxc]
    congr 1
    exact cids_lookup (fun c' hc' => h c' (List.mem_cons_of_mem _ hc'))

theorem inv_reorder {s : State} (h : Inv s) (cs : List Cid) : Inv (reorderImpl s cs).state := by
  simp only [reorderImpl]
  split
  · exact h
  · rename_i hlen
    split
    · exact h
    · rename_i hperm
      split
      · exact h
      · simp only [ok]
        simp only [bne_iff_ne, ne_eq, Decidable.not_not] at hlen
        simp only [Bool.not_eq_true', Bool.not_eq_false, Bool.and_eq_true, List.all_eq_true,
          List.contains_eq_mem, decide_eq_true_eq] at hperm
        obtain ⟨hsub, hsup⟩ := hperm
        have hcids := cids_lookup (cs := s.comps) hsub
        apply inv_perm h
        · intro x
          constructor
          · intro hx
            simp only [List.mem_filterMap] at hx
            obtain ⟨c, _, hf⟩ := hx
            exact List.mem_of_find?_eq_some hf
          · intro hx
            have hxc : x.cid ∈ cs := hsup _ (List.mem_map.2 ⟨x, hx, rfl⟩)
            obtain ⟨y, hy, hym, hyc⟩ := find_cid (hsub _ hxc)
            have : y = x := cid_inj h.nodup hym hx hyc
            subst this
            exact List.mem_filterMap.2 ⟨_, hxc, hy⟩
        · rw [hcids]
          have hp : (cids s.comps).Perm cs :=
            (List.subperm_of_subset h.nodup hsup).perm_of_length_le (by omega)
          exact hp.nodup_iff.1 h.nodup

/-! ## update_components -/

theorem mem_of_lookup {α β : Type} [BEq α] [LawfulBEq α] {k : α} {v : β} :
    ∀ {l : List (α × β)}, l.lookup k = some v → (k, v) ∈ l
  | [], h => by cases h
  | (a, b) :: rest, h => by
    simp only [List.lookup_cons] at h
    split at h
    · rename_i heq
      have : k = a := by simpa using heq
      cases h
      subst this
      exact List.mem_cons_self
    · exact List.mem_cons_of_mem _ (mem_of_lookup h)

theorem updateCheck_ok {s : State} : ∀ {m : List (Cid × Shape × Nat)}, updateCheck s m = none →
    ∀ e ∈ m, e.2.1 = s.shape
  | [], _ => by intro e he; cases he
  | (c, sh, v) :: rest, h => by
    simp only [updateCheck] at h
    split at h
    · cases h
    · split at h
      · cases h
      · split at h
        · cases h
        · rename_i hsh
          intro e he
          rcases List.mem_cons.1 he with rfl | he
          · simpa using hsh
          · exact updateCheck_ok h e he

theorem inv_updateComponents {s : State} (h : Inv s) (m : List (Cid × Shape × Nat)) :
    Inv (updateComponentsImpl s m).state := by
  simp only [updateComponentsImpl]
  split
  · exact h
  · rename_i hchk
    simp only [ok, applyUpdates]
    apply inv_map h
    · intro c _
      cases hl : m.lookup c.cid with
      | none => simp
      | some p => cases hm : c.kind.isMain <;> simp [hm]
    · intro c _ hk
      cases hl : m.lookup c.cid with
      | none => simp only; exact h.shapes c ‹_› hk
      | some p =>
        have hmem : (c.cid, p) ∈ m := mem_of_lookup hl
        have := updateCheck_ok hchk _ hmem
        simp only at this
        simp [hk, Kind.isMain, this]


/-! ## update_id -/

def rho (o n : Cid) (x : Cid) : Cid := if x == o then n else x
def ren (o n : Cid) (x : Comp) : Comp := if x.cid == o then { x with cid := n } else x

theorem ren_cid (o n : Cid) (x : Comp) : (ren o n x).cid = rho o n x.cid := by
  simp only [ren, rho]; split <;> rfl

theorem ren_kind (o n : Cid) (x : Comp) : (ren o n x).kind = x.kind := by
  simp only [ren]; split <;> rfl

theorem ren_shape (o n : Cid) (x : Comp) : (ren o n x).shape = x.shape := by
  simp only [ren]; split <;> rfl

theorem cids_map_ren (o n : Cid) (cs : List Comp) : cids (cs.map (ren o n)) = (cids cs).map (rho o n) := by
  simp only [cids, List.map_map]
  apply List.map_congr_left
  intro x _
  exact ren_cid o n x

theorem map_rho_absent {o n : Cid} {ids : List Cid} (h : o ∉ ids) : ids.map (rho o n) = ids := by
  induction ids with
  | nil => rfl
  | cons x xs ih =>
    simp only [List.mem_cons, not_or] at h
    simp only [List.map_cons, ih h.2, rho]
    have : (x == o) = false := by simpa using fun hx => h.1 hx.symm
    simp [this]

theorem map_ren_absent {o n : Cid} {cs : List Comp} (h : o ∉ cids cs) : cs.map (ren o n) = cs := by
  induction cs with
  | nil => rfl
  | cons x xs ih =>
    simp only [cids, List.map_cons, List.mem_cons, not_or] at h
    have h2 : o ∉ cids xs := by simpa [cids] using h.2
    simp only [List.map_cons, ih h2, ren]
    have : (x.cid == o) = false := by simpa using fun hx => h.1 hx.symm
    simp [this]

theorem replaceFirst_map {o n : Cid} : ∀ {ids : List Cid}, ids.Nodup → replaceFirst ids o n = ids.map (rho o n)
  | [], _ => rfl
  | x :: xs, h => by
    simp only [List.nodup_cons] at h
    simp only [replaceFirst, List.map_cons, rho]
    split
    · rename_i hx
      have hxo : x = o := by simpa using hx
      have : o ∉ xs := hxo ▸ h.1
      rw [map_rho_absent this]
    · rw [replaceFirst_map h.2]

theorem nodup_map_rho {o n : Cid} {ids : List Cid} (h : ids.Nodup) (hn : n ∉ ids) : (ids.map (rho o n)).Nodup := by
  induction ids with
  | nil => exact List.nodup_nil
  | cons x xs ih =>
    simp only [List.nodup_cons, List.mem_cons, not_or] at h hn
    simp only [List.map_cons, List.nodup_cons, List.mem_map, not_exists, not_and]
    refine ⟨?_, ih h.2 hn.2⟩
    intro y hy heq
    simp only [rho] at heq
    by_cases hyo : y = o <;> by_cases hxo : x = o <;> simp_all

theorem insertComp_absent' {cs : List Comp} {c : Comp} (h : c.cid ∉ cids cs) : insertComp cs c = cs ++ [c] :=
  insertComp_fresh h

theorem dictOfPairs_aux : ∀ (cs acc : List Comp), (cids (acc ++ cs)).Nodup → cs.foldl insertComp acc = acc ++ cs
  | [], acc, _ => by simp
  | c :: rest, acc, h => by
    simp only [List.foldl_cons]
    have hc : c.cid ∉ cids acc := by
      simp only [cids, List.map_append, List.map_cons, List.nodup_append, List.nodup_cons, List.mem_cons] at h
      intro hm
      exact h.2.2 _ (by simpa [cids] using hm) _ (Or.inl rfl) rfl
    rw [insertComp_fresh hc, dictOfPairs_aux rest (acc ++ [c]) (by simpa [List.append_assoc] using h)]
    simp

theorem dictOfPairs_nodup {cs : List Comp} (h : (cids cs).Nodup) : dictOfPairs cs = cs := by
  simp only [dictOfPairs]
  rw [dictOfPairs_aux cs [] (by simpa using h)]
  simp

theorem famOk_rename {cs : List Comp} {ids : List Cid} {mk : Nat → Kind} {k : Nat} (o n : Cid)
    (h : FamOk cs ids mk k) : FamOk (cs.map (ren o n)) (ids.map (rho o n)) mk k := by
  obtain ⟨h1, h2, h3⟩ := h
  refine ⟨by simpa using h1, ?_, ?_⟩
  · intro i hi
    have hi' : i < ids.length := by simpa using hi
    obtain ⟨c, hc, hcid, hk⟩ := h2 i hi'
    refine ⟨ren o n c, List.mem_map.2 ⟨c, hc, rfl⟩, ?_, by rw [ren_kind, hk]⟩
    simp [ren_cid, hcid]
  · intro c hc a hk
    obtain ⟨c0, hc0, rfl⟩ := List.mem_map.1 hc
    rw [ren_kind] at hk
    have := h3 c0 hc0 a hk
    simp [List.getElem?_map, this, ren_cid]

theorem replaceDep_ok (o n : Cid) (c : Comp) : (Comp.replaceDep o n c).cid = c.cid ∧
    ((Comp.replaceDep o n c).kind = c.kind ∨
      (c.kind.isDerived = true ∧ (Comp.replaceDep o n c).kind.isDerived = true)) := by
  refine ⟨rfl, ?_⟩
  cases hk : c.kind <;> simp [Comp.replaceDep, Kind.replaceDep, hk, Kind.isDerived]

theorem inv_updateId {s : State} (h : Inv s) (old new : Cid) (hn : new < s.next)
    (hnew : new ∉ cids s.comps) : Inv (updateIdImpl s old new).1 := by
  simp only [updateIdImpl]
  split
  · exact h
  · have hpn : s.pix.Nodup := famOk_ids_nodup h.pixel pixel_inj h.nodup
    have hnd' : (cids (s.comps.map (ren old new))).Nodup := by
      rw [cids_map_ren]; exact nodup_map_rho h.nodup hnew
    have hcomps : (if (cids s.comps).contains old = true then
        dictOfPairs (s.comps.map fun x => if (x.cid == old) = true then { x with cid := new } else x)
        else s.comps) = s.comps.map (ren old new) := by
      split
      · have : (s.comps.map fun x => if (x.cid == old) = true then { x with cid := new } else x) = s.comps.map (ren old new) := rfl
        rw [this, dictOfPairs_nodup hnd']
      · rename_i hc
        rw [map_ren_absent (by simpa using hc)]
    have hpix : (if s.pix.contains old = true then replaceFirst s.pix old new else s.pix) = s.pix.map (rho old new) := by
      split
      · exact replaceFirst_map hpn
      · rename_i hc; rw [map_rho_absent (by simpa using hc)]
    have hw := h.world
    have hworld : (if s.world.contains old = true then replaceFirst s.world old new else s.world) = s.world.map (rho old new) := by
      split
      · apply replaceFirst_map
        split at hw
        · exact famOk_ids_nodup hw world_inj h.nodup
        · rw [hw.1]; exact List.nodup_nil
      · rename_i hc; rw [map_rho_absent (by simpa using hc)]
    simp only [hcomps, hpix, hworld]
    have hcore : Inv ({ s with comps := s.comps.map (ren old new), pix := s.pix.map (rho old new), world := s.world.map (rho old new) } : State) := by
      refine ⟨hnd', ?_, famOk_rename old new h.pixel, ?_, h.links, ?_⟩
      · intro c hc hk
        obtain ⟨c0, hc0, rfl⟩ := List.mem_map.1 hc
        rw [ren_kind] at hk
        rw [ren_shape]
        exact h.shapes c0 hc0 hk
      · simp only
        split
        next hco => simp only [hco, if_true] at hw; exact famOk_rename old new hw
        next hco =>
          simp only [hco] at hw
          refine ⟨by rw [hw.1]; rfl, ?_⟩
          intro c hc a
          obtain ⟨c0, hc0, rfl⟩ := List.mem_map.1 hc
          rw [ren_kind]
          exact hw.2 c0 hc0 a
      · refine ⟨?_, h.fresh.2⟩
        intro c hc
        rw [cids_map_ren] at hc
        obtain ⟨x, hx, rfl⟩ := List.mem_map.1 hc
        simp only [rho]
        split
        · exact hn
        · exact h.fresh.1 x hx
    split
    · exact inv_mapD hcore (Comp.replaceDep old new) (fun c _ => replaceDep_ok old new c) (fun _ _ => rfl)
    · exact hcore


/-! ## several removals in a row, `_update_world_components`, the `coords` setter -/

structure RemAllOk (s : State) (ids : List Cid) (r : Res) (R : List Cid) : Prop where
  state : r.1 = { s with comps := s.comps.filter (fun x => !R.contains x.cid) }
  msgs : r.2 = announceRemoves s R
  nodup : R.Nodup
  sub : ∀ x ∈ R, x ∈ cids s.comps
  kinds : ∀ x ∈ R, x ∈ ids ∨ ∃ y ∈ s.comps, y.cid = x ∧ y.kind.isDerived = true
  complete : ∀ c ∈ ids, c ∈ cids s.comps → c ∈ R

theorem announceRemoves_append (s : State) (a b : List Cid) :
    announceRemoves s (a ++ b) = announceRemoves s a ++ announceRemoves s b := by
  simp only [announceRemoves]
  split <;> simp

theorem removeAll_ok : ∀ (ids : List Cid) (s : State), ∃ R, RemAllOk s ids (removeAll s ids) R
  | [], s => ⟨[], by simp [removeAll], by simp [removeAll, announceRemoves], List.nodup_nil, by simp, by simp, by simp⟩
  | c :: rest, s => by
    have hr := removeRec_ok s.comps.length s.comps c
    generalize hrr : removeRec s.comps.length s.comps c = r at hr
    let s1 : State := { s with comps := r.1 }
    obtain ⟨R2, h2⟩ := removeAll_ok rest s1
    have hs1 : s1.comps = s.comps.filter (fun x => !r.2.contains x.cid) := hr.eq
    refine ⟨r.2 ++ R2, ?_, ?_, ?_, ?_, ?_, ?_⟩
    · simp only [removeAll, Res.bind, removeComp, hrr]
      rw [h2.state, hs1, List.filter_filter]
      congr 2
      funext x
      simp only [List.contains_append, Bool.not_or, Bool.and_comm]
    · simp only [removeAll, Res.bind, removeComp, hrr]
      rw [h2.msgs, announceRemoves_append]
      rfl
    · rw [List.nodup_append]
      refine ⟨hr.nodup, h2.nodup, ?_⟩
      intro a ha b hb hab
      subst hab
      have := h2.sub a hb
      rw [hs1] at this
      obtain ⟨y, _, hy, hp⟩ := mem_cids_filter this
      simp only [Bool.not_eq_true', List.contains_eq_mem, decide_eq_false_iff_not] at hp
      exact hp (hy ▸ ha)
    · intro x hx
      rcases List.mem_append.1 hx with hx | hx
      · exact hr.sub x hx
      · have := h2.sub x hx
        rw [hs1] at this
        obtain ⟨y, hy, hyx, _⟩ := mem_cids_filter this
        exact List.mem_map.2 ⟨y, hy, hyx⟩
    · intro x hx
      rcases List.mem_append.1 hx with hx | hx
      · rcases hr.kinds x hx with rfl | hk
        · exact Or.inl List.mem_cons_self
        · exact Or.inr hk
      · rcases h2.kinds x hx with hk | ⟨y, hy, hyx, hyd⟩
        · exact Or.inl (List.mem_cons_of_mem _ hk)
        · rw [hs1] at hy
          exact Or.inr ⟨y, (List.mem_filter.1 hy).1, hyx, hyd⟩
    · intro c' hc' hmem
      rcases List.mem_cons.1 hc' with rfl | hc'
      · apply List.mem_append_left
        have hne : s.comps.length = (s.comps.length - 1) + 1 := by
          have : s.comps ≠ [] := by intro he; rw [he] at hmem; cases hmem
          have := List.length_pos_of_ne_nil this
          omega
        rw [← hrr, hne]
        exact removeRec_mem hmem
      · by_cases hin : c' ∈ r.2
        · exact List.mem_append_left _ hin
        · apply List.mem_append_right
          apply h2.complete c' hc'
          rw [hs1]
          simp only [cids, List.mem_map, List.mem_filter] at hmem ⊢
          obtain ⟨y, hy, hyc⟩ := hmem
          exact ⟨y, ⟨hy, by simpa [hyc] using hin⟩, hyc⟩

/-- `_update_world_components` on a consistent non-empty dataset whose `coords` has just been set
to `v`. -/
theorem inv_rebuildWorld {s : State} (h : Inv s) (v : Option Nat) :
    Inv (updateWorld { s with coords := v } s.shape.length).1 := by
  obtain ⟨R, hR⟩ := removeAll_ok s.world { s with coords := v }
  -- the removed ids are world components or derived ones
  have hRk : ∀ x ∈ s.comps, x.cid ∈ R → (∃ a, x.kind = .world a) ∨ x.kind.isDerived = true := by
    intro x hx hxr
    rcases hR.kinds _ hxr with hw | ⟨y, hy, hyx, hyd⟩
    · left
      have hw' := h.world
      split at hw'
      · obtain ⟨i, hi, hget⟩ := List.getElem_of_mem hw
        obtain ⟨c, hc, hcid, hk⟩ := hw'.2.1 i hi
        have : c = x := cid_inj h.nodup hc hx (by rw [hcid, hget])
        subst this
        exact ⟨i, hk⟩
      · rw [hw'.1] at hw; cases hw
    · right
      have : y = x := cid_inj h.nodup hy hx hyx
      subst this; exact hyd
  -- every world component is removed
  have hWgone : ∀ x ∈ s.comps.filter (fun x => !R.contains x.cid), ∀ a, x.kind ≠ .world a := by
    intro x hx a hk
    obtain ⟨hx1, hx2⟩ := List.mem_filter.1 hx
    have hw' := h.world
    split at hw'
    · have := hw'.2.2 x hx1 a hk
      have hmem : x.cid ∈ s.world := List.mem_of_getElem? this
      have := hR.complete _ hmem (List.mem_map.2 ⟨x, hx1, rfl⟩)
      simp only [Bool.not_eq_true', List.contains_eq_mem, decide_eq_false_iff_not] at hx2
      exact hx2 this
    · exact hw'.2 x hx1 a hk
  have hkeepP : ∀ c ∈ s.comps, ∀ a, c.kind = Kind.pixel a → (!R.contains c.cid) = true := by
    intro c hc a hk
    simp only [Bool.not_eq_true', List.contains_eq_mem, decide_eq_false_iff_not]
    intro hm
    rcases hRk c hc hm with ⟨b, hb⟩ | hd
    · rw [hk] at hb; cases hb
    · rw [hk] at hd; cases hd
  have hfl : ∀ c ∈ cids (s.comps.filter (fun x => !R.contains x.cid)), c < s.next := by
    intro c hc
    obtain ⟨y, hy, rfl, _⟩ := mem_cids_filter hc
    exact h.fresh.1 _ (List.mem_map.2 ⟨y, hy, rfl⟩)
  have hnd : (cids (s.comps.filter (fun x => !R.contains x.cid))).Nodup := by
    simp only [cids]
    exact (List.Sublist.map _ List.filter_sublist).nodup (by simpa [cids] using h.nodup)
  have hpixF := famOk_filter h.pixel (fun x => !R.contains x.cid) hkeepP
  simp only [updateWorld, Res.bind, hR.state]
  cases v with
  | none =>
    simp only [Option.isSome_none, Bool.false_eq_true, if_false]
    refine ⟨hnd, ?_, hpixF, ?_, ?_, ?_⟩
    · intro c hc; exact h.shapes c (List.mem_filter.1 hc).1
    · simp only [Option.isSome_none, Bool.false_eq_true, if_false]
      exact ⟨trivial, hWgone⟩
    · simp
    · exact ⟨hfl, h.fresh.2⟩
  | some tok =>
    simp only [Option.isSome_some, if_true, newWorlds, List.nil_append]
    have hfam : (List.range s.shape.length).map (fun i => (⟨s.next + i, .world i, [], 0⟩ : Comp))
        = famComps s.next .world s.shape.length := rfl
    have hids : (List.range s.shape.length).map (fun x => s.next + x) = famIds s.next s.shape.length := rfl
    rw [hfam, hids]
    have hWk : ∀ x ∈ famComps s.next .world s.shape.length, ∃ i, x.kind = .world i ∧ x.cid = s.next + i ∧ i < s.shape.length := by
      intro x hx
      simp only [famComps, List.mem_map, List.mem_range] at hx
      obtain ⟨i, hi, rfl⟩ := hx
      exact ⟨i, rfl, rfl, hi⟩
    refine ⟨?_, ?_, ?_, ?_, ?_, ?_⟩
    · simp only [cids, List.map_append]
      have e1 : List.map (fun x => x.cid) (famComps s.next Kind.world s.shape.length) = famIds s.next s.shape.length :=
        cids_famComps _ _ _
      rw [e1, List.nodup_append]
      refine ⟨by simpa [cids] using hnd, famIds_nodup _ _, ?_⟩
      intro a ha b hb hab
      subst hab
      have := hfl a (by simpa [cids] using ha)
      have := mem_famIds.1 hb
      omega
    · intro c hc hk
      rcases List.mem_append.1 hc with hc | hc
      · exact h.shapes c (List.mem_filter.1 hc).1 hk
      · obtain ⟨i, hi, _⟩ := hWk c hc; rw [hk] at hi; cases hi
    · apply famOk_append hpixF
      intro c hc a hk
      obtain ⟨i, hi, _⟩ := hWk c hc; rw [hk] at hi; cases hi
    · simp only [Option.isSome_some, if_true]
      have := famOk_range (s.comps.filter (fun x => !R.contains x.cid)) [] s.next s.shape.length .world world_inj
        hWgone (by simp)
      simpa using this
    · simp
    · refine ⟨?_, fun c hc => by have := h.fresh.2 c hc; simp only; omega⟩
      intro c hc
      simp only [cids, List.map_append, List.mem_append] at hc
      rcases hc with hc | hc
      · have := hfl c (by simpa [cids] using hc); simp only; omega
      · have e1 : List.map (fun x => x.cid) (famComps s.next Kind.world s.shape.length) = famIds s.next s.shape.length :=
          cids_famComps _ _ _
        rw [e1] at hc
        have := mem_famIds.1 hc; simp only; omega

theorem inv_setCoords {s : State} (h : Inv s) (v : Option Nat) : Inv (setCoords s v).1 := by
  simp only [setCoords]
  split
  · split
    · rename_i he
      have he' : s.comps = [] := by simpa using he
      obtain ⟨hs, hp, hw, hl⟩ := inv_empty h he'
      refine ⟨h.nodup, h.shapes, h.pixel, ?_, ?_, h.fresh⟩
      · simp only
        split
        · rw [he', hw, hs]; exact ⟨rfl, by simp, by simp⟩
        · rw [he']; exact ⟨hw, by simp⟩
      · simp only [hl, hs]; simp
    · rename_i hne
      exact inv_rebuildWorld h v
  · exact h

end GlueVerif.Lemmas.C17
