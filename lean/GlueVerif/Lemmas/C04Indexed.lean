import GlueVerif.Lemmas.C04State
/-!
# C04 — `IndexedData`: the translated view gathers `parent[indices][view]`

`embed ix idx` puts the index tuple `idx` of the reduced dataset back into the parent (the fixed
indices at their positions).  `viewPoints_original`: for every view of the reduced dataset, the parent
view built by `_to_original_view` gathers exactly the embedded points, with the same result shape.
-/
namespace GlueVerif.Lemmas.C04
open GlueVerif.ArrayUtil GlueVerif.C04
open GlueVerif.Coords (Sel selOf selsOf selShape maskFilter ViewErr)


theorem embed_none_cons (ix : List (Option Nat)) (j : Nat) (js : List Nat) :
    embed (none :: ix) (j :: js) = j :: embed ix js := rfl

theorem embed_some (ix : List (Option Nat)) (k : Nat) (js : List Nat) :
    embed (some k :: ix) js = k :: embed ix js := by
  cases js <;> rfl


theorem selOf_int_nat {h k : Nat} (hk : k < h) : selOf h (.int (k : Int)) = .ok (.scalar k) := by
  have h1 : (-(h : Int)) ≤ (k : Int) ∧ (k : Int) < h := by omega
  simp only [selOf, h1, and_self, if_true]
  have h2 : ¬ ((k : Int) < 0) := by omega
  simp [h2]

theorem wrapD_nat (h k : Nat) : wrapD h (k : Int) = k := by
  unfold wrapD
  have h2 : ¬ ((k : Int) < 0) := by omega
  simp [h2]

theorem inAxis_nat {h k : Nat} (hk : k < h) : inAxis h (k : Int) = true := by
  simp [inAxis]; omega

/-! ### tuples of integers and slices -/

theorem selsOf_merge : ∀ (psh : List Nat) (ix : List (Option Nat)) (items : List ViewItem)
    (sels : List Sel), ixValid psh ix = true →
    selsOf (reducedShape psh ix) items = .ok sels →
    ∃ sels', selsOf psh (mergeView (fun k => ViewItem.int k) fullSlice ix items) = .ok sels' ∧
      selShape sels' = selShape sels ∧
      cartG (sels'.map Sel.toList) = (cartG (sels.map Sel.toList)).map (embed ix)
  | [], [], items, sels, _, h => by
    cases items with
    | nil =>
      simp [reducedShape, selsOf] at h; cases h
      exact ⟨[], rfl, rfl, rfl⟩
    | cons it its => simp [reducedShape, selsOf] at h
  | [], _ :: _, _, _, hv, _ => by simp [ixValid] at hv
  | _ :: _, [], _, _, hv, _ => by simp [ixValid] at hv
  | h :: hs, some k :: ix, items, sels, hv, hs' => by
    simp only [ixValid, Bool.and_eq_true, decide_eq_true_eq] at hv
    have hred : reducedShape (h :: hs) (some k :: ix) = reducedShape hs ix := rfl
    rw [hred] at hs'
    obtain ⟨sels', h1, h2, h3⟩ := selsOf_merge hs ix items sels hv.2 hs'
    refine ⟨Sel.scalar k :: sels', ?_, ?_, ?_⟩
    · have hm : mergeView (fun k => ViewItem.int k) fullSlice (some k :: ix) items =
          ViewItem.int k :: mergeView (fun k => ViewItem.int k) fullSlice ix items := by
        cases items <;> rfl
      rw [hm]
      simp only [selsOf, selOf_int_nat hv.1, h1, bind, Except.bind, pure, Except.pure]
    · exact h2
    · simp only [List.map_cons, Sel.toList, cartG, List.flatMap_cons, List.flatMap_nil,
        List.append_nil, h3, List.map_map]
      apply List.map_congr_left
      intro t _
      simp [Function.comp, embed_some]
  | h :: hs, none :: ix, [], sels, hv, hs' => by
    simp only [ixValid] at hv
    have hred : reducedShape (h :: hs) (none :: ix) = h :: reducedShape hs ix := rfl
    rw [hred] at hs'
    simp only [selsOf] at hs'
    cases hrec : selsOf (reducedShape hs ix) [] with
    | error e => rw [hrec] at hs'; cases hs'
    | ok rest =>
      rw [hrec] at hs'
      cases hs'
      obtain ⟨sels', h1, h2, h3⟩ := selsOf_merge hs ix [] rest hv hrec
      refine ⟨Sel.many (List.range h) :: sels', ?_, ?_, ?_⟩
      · show selsOf (h :: hs) (fullSlice :: mergeView _ fullSlice ix []) = _
        have h1' := h1
        unfold fullSlice at h1'
        simp only [selsOf, fullSlice, selOf_fullSlice, h1', bind, Except.bind, pure, Except.pure]
      · show selShape (Sel.many (List.range h) :: sels') = selShape (Sel.many (List.range h) :: rest)
        rw [selShape_cons_many, selShape_cons_many, h2]
      · show cartG ((Sel.many (List.range h) :: sels').map Sel.toList) =
          (cartG ((Sel.many (List.range h) :: rest).map Sel.toList)).map (embed (none :: ix))
        simp only [List.map_cons, Sel.toList, cartG, h3, List.map_flatMap, List.map_map]
        congr 1
  | h :: hs, none :: ix, it :: its, sels, hv, hs' => by
    simp only [ixValid] at hv
    have hred : reducedShape (h :: hs) (none :: ix) = h :: reducedShape hs ix := rfl
    rw [hred] at hs'
    simp only [selsOf] at hs'
    cases h0 : selOf h it with
    | error e => rw [h0] at hs'; cases hs'
    | ok s =>
      cases hrec : selsOf (reducedShape hs ix) its with
      | error e => rw [h0, hrec] at hs'; cases hs'
      | ok rest =>
        rw [h0, hrec] at hs'
        cases hs'
        obtain ⟨sels', h1, h2, h3⟩ := selsOf_merge hs ix its rest hv hrec
        refine ⟨s :: sels', ?_, ?_, ?_⟩
        · show selsOf (h :: hs) (it :: mergeView _ fullSlice ix its) = _
          simp only [selsOf, h0, h1, bind, Except.bind, pure, Except.pure]
        · cases s with
          | scalar k => exact h2
          | many ks => rw [selShape_cons_many, selShape_cons_many, h2]
        · simp only [List.map_cons, cartG, h3, List.map_flatMap, List.map_map]
          congr 1

/-! ### tuples of index arrays -/

theorem arrays_merge (len r : Nat) : ∀ (psh : List Nat) (ix : List (Option Nat)) (items : List AItem),
    ixValid psh ix = true → items.length = (reducedShape psh ix).length →
    ((reducedShape psh ix).zip items).all (fun p => p.2.valid p.1 len) = true →
    let merged := mergeView (fun k => AItem.int k) (AItem.int 0) ix items
    merged.length = psh.length ∧ (psh.zip merged).all (fun p => p.2.valid p.1 len) = true ∧
      ((psh.zip merged).map fun p => p.2.coord p.1 r) =
        embed ix (((reducedShape psh ix).zip items).map fun p => p.2.coord p.1 r)
  | [], [], items, _, hl, _ => by
    cases items with
    | nil => simp [mergeView, embed]
    | cons a b => simp [reducedShape] at hl
  | [], _ :: _, _, hv, _, _ => by simp [ixValid] at hv
  | _ :: _, [], _, hv, _, _ => by simp [ixValid] at hv
  | h :: hs, some k :: ix, items, hv, hl, hval => by
    simp only [ixValid, Bool.and_eq_true, decide_eq_true_eq] at hv
    have hred : reducedShape (h :: hs) (some k :: ix) = reducedShape hs ix := rfl
    rw [hred] at hl hval
    obtain ⟨h1, h2, h3⟩ := arrays_merge len r hs ix items hv.2 hl hval
    have hm : mergeView (fun k => AItem.int k) (AItem.int 0) (some k :: ix) items =
        AItem.int k :: mergeView (fun k => AItem.int k) (AItem.int 0) ix items := by
      cases items <;> rfl
    simp only [hm, hred]
    refine ⟨by simp [h1], ?_, ?_⟩
    · rw [List.zip_cons_cons, List.all_cons, h2, Bool.and_true]
      exact inAxis_nat hv.1
    · rw [List.zip_cons_cons, List.map_cons, h3, embed_some]
      show wrapD h (k : Int) :: _ = _
      rw [wrapD_nat]
  | h :: hs, none :: ix, [], hv, hl, _ => by simp [reducedShape] at hl
  | h :: hs, none :: ix, it :: its, hv, hl, hval => by
    simp only [ixValid] at hv
    have hred : reducedShape (h :: hs) (none :: ix) = h :: reducedShape hs ix := rfl
    rw [hred] at hl hval
    simp only [List.zip_cons_cons, List.all_cons, Bool.and_eq_true] at hval
    obtain ⟨h1, h2, h3⟩ := arrays_merge len r hs ix its hv (by simpa using hl) hval.2
    have hm : mergeView (fun k => AItem.int k) (AItem.int 0) (none :: ix) (it :: its) =
        it :: mergeView (fun k => AItem.int k) (AItem.int 0) ix its := rfl
    simp only [hm, hred]
    refine ⟨by simp [h1], ?_, ?_⟩
    · simp only [List.zip_cons_cons, List.all_cons, hval.1, h2, Bool.and_self]
    · simp only [List.zip_cons_cons, List.map_cons, h3, embed_none_cons]

theorem viewPoints_arrays_merge (psh : List Nat) (ix : List (Option Nat)) (s : List Nat)
    (items : List AItem) (pts : List (List Nat)) (hv : ixValid psh ix = true)
    (h : viewPoints (reducedShape psh ix) (.arrays s items) = .ok (s, pts)) :
    viewPoints psh (.arrays s (mergeView (fun k => AItem.int k) (AItem.int 0) ix items)) =
      .ok (s, pts.map (embed ix)) := by
  simp only [viewPoints] at h
  split at h
  · cases h
  · rename_i hl
    have hl' : items.length = (reducedShape psh ix).length := by simpa using hl
    split at h
    · rename_i hval
      simp only [Except.ok.injEq, Prod.mk.injEq, true_and] at h
      subst h
      have hm := fun r => arrays_merge (prod s) r psh ix items hv hl' hval
      simp only [viewPoints]
      have hlen : ¬ ((mergeView (fun k => AItem.int k) (AItem.int 0) ix items).length ≠ psh.length) := by
        simp [(hm 0).1]
      rw [if_neg hlen, if_pos (hm 0).2.1, List.map_map]
      congr 2
      apply List.map_congr_left
      intro r _
      exact (hm r).2.2
    · cases h

/-! ### Boolean masks -/

theorem zip_map_range {α β : Type} (l : List α) (g : Nat → β) (d : α) :
    l.zip ((List.range l.length).map g) = (List.range l.length).map fun i => (l.getD i d, g i) := by
  apply List.ext_getElem
  · simp
  · intro i h1 h2
    simp only [List.length_zip, List.length_map, List.length_range, Nat.min_self] at h1
    simp [List.getD, List.getElem?_eq_getElem h1]

theorem forall₂_getD_lt {p sh : List Nat} (h : List.Forall₂ (fun i h => i < h) p sh) (k : Nat)
    (hk : k < sh.length) : p.getD k 0 < sh.getD k 0 := by
  induction h generalizing k with
  | nil => simp at hk
  | cons hx _ ih =>
    cases k with
    | zero => simpa using hx
    | succ k' => simpa using ih k' (by simpa using hk)

/-- A Boolean mask gathers the same points as the index arrays `np.nonzero(mask)`. -/
theorem viewPoints_mask_as_arrays (rsh : List Nat) (m : List Bool) (hm : m.length = prod rsh) :
    let pts := maskFilter (allIdx rsh) m
    viewPoints rsh (.arrays [pts.length]
        ((List.range rsh.length).map fun k => AItem.arr (pts.map fun p => ((p.getD k 0 : Nat) : Int)))) =
      .ok ([pts.length], pts) := by
  intro pts
  have hmem : ∀ p ∈ pts, p ∈ allIdx rsh := fun p hp => Lemmas.Coords.mem_maskFilter _ _ _ hp
  have hprod : prod [pts.length] = pts.length := by simp [prod]
  simp only [viewPoints, List.length_map, List.length_range, ne_eq, not_true_eq_false, if_false,
    zip_map_range rsh _ 0, hprod]
  have hval : ((List.range rsh.length).map fun i =>
      (rsh.getD i 0, AItem.arr (pts.map fun p => ((p.getD i 0 : Nat) : Int)))).all
        (fun p => p.2.valid p.1 pts.length) = true := by
    rw [List.all_eq_true]
    intro q hq
    simp only [List.mem_map, List.mem_range] at hq
    obtain ⟨i, hi, rfl⟩ := hq
    simp only [AItem.valid, List.length_map, beq_self_eq_true, Bool.true_and, List.all_eq_true]
    intro x hx
    simp only [List.mem_map] at hx
    obtain ⟨p, hp, rfl⟩ := hx
    exact inAxis_nat (forall₂_getD_lt ((mem_allIdx _ _).1 (hmem p hp)) i hi)
  rw [if_pos hval]
  congr 2
  apply List.ext_getElem
  · simp
  · intro r h1 h2
    simp only [List.getElem_map, List.getElem_range, List.map_map, Function.comp, AItem.coord]
    have hpr : pts[r] ∈ allIdx rsh := hmem _ (List.getElem_mem h2)
    have hlen : (pts[r]).length = rsh.length := length_of_mem_allIdx hpr
    rw [← hlen]
    conv_rhs => rw [← map_getD_range (pts[r]) 0]
    apply List.map_congr_left
    intro k _
    have : (pts.map fun p => ((p.getD k 0 : Nat) : Int)).getD r 0 = ((pts[r].getD k 0 : Nat) : Int) := by
      simp [List.getD, List.getElem?_eq_getElem h2]
    show wrapD (rsh.getD k 0) ((pts.map fun p => ((p.getD k 0 : Nat) : Int)).getD r 0) = _
    rw [this, wrapD_nat]

/-! ### every view -/

theorem length_reducedShape_le : ∀ (psh : List Nat) (ix : List (Option Nat)),
    (reducedShape psh ix).length ≤ psh.length
  | [], _ => by simp [reducedShape]
  | _ :: _, [] => by simp [reducedShape]
  | h :: hs, none :: ix => by
    simp only [reducedShape, List.length_cons]; have := length_reducedShape_le hs ix; omega
  | h :: hs, some _ :: ix => by
    simp only [reducedShape, List.length_cons]; have := length_reducedShape_le hs ix; omega

/-- **The translated view gathers `parent[indices][view]`**: for every parent shape, every index
tuple, and every valid view of the reduced dataset, the parent view built by `_to_original_view`
has the result shape of the view and gathers, element by element, the embedded points. -/
theorem viewPoints_original (psh : List Nat) (ix : List (Option Nat)) (v : View) (s : List Nat)
    (pts : List (List Nat)) (hv : ixValid psh ix = true)
    (h : viewPoints (reducedShape psh ix) v = .ok (s, pts)) :
    ∃ ov, toOriginalView psh ix v = .ok ov ∧ viewPoints psh ov = .ok (s, pts.map (embed ix)) := by
  have basic : ∀ items, viewPoints (reducedShape psh ix) (.basic items) = .ok (s, pts) →
      viewPoints psh (.basic (mergeView (fun k => ViewItem.int k) fullSlice ix items)) =
        .ok (s, pts.map (embed ix)) := by
    intro items hb
    simp only [viewPoints, bind, Except.bind, pure, Except.pure] at hb ⊢
    cases hs : selsOf (reducedShape psh ix) items with
    | error e => rw [hs] at hb; cases hb
    | ok sels =>
      rw [hs] at hb
      simp only [Except.ok.injEq, Prod.mk.injEq] at hb
      obtain ⟨sels', h1, h2, h3⟩ := selsOf_merge psh ix items sels hv hs
      rw [h1]
      simp only [h2, h3, hb.1, ← hb.2]
  have hnone : viewPoints (reducedShape psh ix) (.basic []) =
      .ok (reducedShape psh ix, allIdx (reducedShape psh ix)) := by
    simp only [viewPoints, selsOf_nil, bind, Except.bind, pure, Except.pure, selShape_fullSels,
      map_toList_fullSels, allIdx]
  cases v with
  | none =>
    simp only [viewPoints, Except.ok.injEq, Prod.mk.injEq] at h
    refine ⟨_, rfl, ?_⟩
    apply basic []
    rw [hnone, ← h.2, ← h.1]
  | ellipsis =>
    simp only [viewPoints, Except.ok.injEq, Prod.mk.injEq] at h
    refine ⟨_, rfl, ?_⟩
    apply basic []
    rw [hnone, ← h.2, ← h.1]
  | basic items => exact ⟨_, rfl, basic items h⟩
  | arrays s' items =>
    have hs' : s' = s ∧ items.length = (reducedShape psh ix).length := by
      simp only [viewPoints] at h
      split at h
      · cases h
      · rename_i hl
        split at h
        · simp only [Except.ok.injEq, Prod.mk.injEq] at h
          exact ⟨h.1, by simpa using hl⟩
        · cases h
    obtain ⟨rfl, hl⟩ := hs'
    refine ⟨.arrays s' (mergeView (fun k => AItem.int k) (AItem.int 0) ix items), ?_, ?_⟩
    · simp only [toOriginalView]
      rw [if_neg (by simp [hl])]
    · exact viewPoints_arrays_merge psh ix s' items pts hv h
  | mask m =>
    simp only [viewPoints] at h
    split at h
    · cases h
    · rename_i hm
      have hm' : m.length = prod (reducedShape psh ix) := by simpa using hm
      simp only [Except.ok.injEq, Prod.mk.injEq] at h
      obtain ⟨rfl, rfl⟩ := h
      have key := viewPoints_arrays_merge psh ix _ _ _ hv
          (viewPoints_mask_as_arrays (reducedShape psh ix) m hm')
      refine ⟨_, ?_, key⟩
      simp only [toOriginalView]
      rw [if_neg (by simp [hm'])]

/-- Gathering the parent through the translated view = gathering the embedded function through the
view of the reduced dataset. -/
theorem gather_original {α : Type} (psh : List Nat) (ix : List (Option Nat)) (f : List Nat → α)
    (v : View) (hv : ixValid psh ix = true)
    (hok : ∃ sp, viewPoints (reducedShape psh ix) v = .ok sp) :
    (match toOriginalView psh ix v with
     | .ok ov => gather psh f ov
     | .error e => .error e) = gather (reducedShape psh ix) (fun idx => f (embed ix idx)) v := by
  obtain ⟨⟨s, pts⟩, h⟩ := hok
  obtain ⟨ov, h1, h2⟩ := viewPoints_original psh ix v s pts hv h
  simp only [h1, gather, h2, h, List.map_map]
  rfl

/-- `parent[indices]` is the reduced dataset: the tabulated embedded function. -/
theorem gather_indicesView {α : Type} (psh : List Nat) (ix : List (Option Nat)) (f : List Nat → α)
    (hv : ixValid psh ix = true) :
    gather psh f (indicesView ix) = .ok (tabulate (reducedShape psh ix) fun idx => f (embed ix idx)) := by
  have := gather_original psh ix f .none hv ⟨_, rfl⟩
  simpa [toOriginalView, indicesView, gather_none] using this

/-- `indexed.get(view) = parent[indices][view]` for any parent array given by a function. -/
theorem indexed_compose {α : Type} [Inhabited α] (psh : List Nat) (ix : List (Option Nat))
    (f : List Nat → α) (v : View) (hv : ixValid psh ix = true)
    (hok : ∃ sp, viewPoints (reducedShape psh ix) v = .ok sp) :
    (match toOriginalView psh ix v with
     | .ok ov => gather psh f ov
     | .error e => .error e) = Spec.indexedViewOf (tabulate psh f) ix v := by
  rw [gather_original psh ix f v hv hok]
  unfold Spec.indexedViewOf
  rw [index_tabulate, gather_indicesView psh ix f hv]
  exact (index_tabulate _ _ v).symm

/-! ### positive steps, pixel attributes, re-indexing -/

theorem mergeView_posStep : ∀ (ix : List (Option Nat)) (items : List ViewItem),
    items.all ViewItem.posStep = true →
    (mergeView (fun k => ViewItem.int k) fullSlice ix items).all ViewItem.posStep = true
  | [], _, _ => rfl
  | some k :: ix, items, h => by
    have hm : mergeView (fun k => ViewItem.int k) fullSlice (some k :: ix) items =
        ViewItem.int k :: mergeView (fun k => ViewItem.int k) fullSlice ix items := by
      cases items <;> rfl
    rw [hm, List.all_cons, mergeView_posStep ix items h]
    rfl
  | none :: ix, [], h => by
    show (fullSlice :: mergeView _ fullSlice ix []).all ViewItem.posStep = true
    rw [List.all_cons, mergeView_posStep ix [] h]
    rfl
  | none :: ix, it :: its, h => by
    simp only [List.all_cons, Bool.and_eq_true] at h
    show (it :: mergeView _ fullSlice ix its).all ViewItem.posStep = true
    rw [List.all_cons, mergeView_posStep ix its h.2, h.1]
    rfl

theorem toOriginalView_posStep {psh : List Nat} {ix : List (Option Nat)} {v ov : View}
    (hv : v.posStep = true) (h : toOriginalView psh ix v = .ok ov) : ov.posStep = true := by
  cases v with
  | none => simp only [toOriginalView] at h; cases h; exact mergeView_posStep ix [] rfl
  | ellipsis => simp only [toOriginalView] at h; cases h; exact mergeView_posStep ix [] rfl
  | basic items =>
    simp only [toOriginalView] at h; cases h
    exact mergeView_posStep ix items (by simpa [View.posStep] using hv)
  | arrays s items =>
    simp only [toOriginalView] at h
    split at h
    · cases h
    · cases h; rfl
  | mask m =>
    simp only [toOriginalView] at h
    split at h
    · cases h
    · cases h; rfl

/-- The parent axis of the reduced dataset's `k`-th axis carries, at an embedded point, the `k`-th
coordinate of the reduced point. -/
theorem getD_embed_translateAxis : ∀ (psh : List Nat) (ix : List (Option Nat)) (idx : List Nat) (k : Nat),
    ixValid psh ix = true → k < (reducedShape psh ix).length →
    (embed ix idx).getD (translateAxis ix k) 0 = idx.getD k 0
  | [], [], _, k, _, hk => by simp [reducedShape] at hk
  | [], _ :: _, _, _, hv, _ => by simp [ixValid] at hv
  | _ :: _, [], _, _, hv, _ => by simp [ixValid] at hv
  | h :: hs, some c :: ix, idx, k, hv, hk => by
    simp only [ixValid, Bool.and_eq_true] at hv
    rw [embed_some]
    show ((c :: embed ix idx).getD (translateAxis ix k + 1) 0) = _
    rw [List.getD_cons_succ]
    exact getD_embed_translateAxis hs ix idx k hv.2 hk
  | h :: hs, none :: ix, idx, 0, _, _ => by
    cases idx <;> rfl
  | h :: hs, none :: ix, idx, k + 1, hv, hk => by
    simp only [ixValid] at hv
    have hk' : k < (reducedShape hs ix).length := by
      have : reducedShape (h :: hs) (none :: ix) = h :: reducedShape hs ix := rfl
      rw [this] at hk
      simpa using hk
    cases idx with
    | nil =>
      show ((0 :: embed ix []).getD (translateAxis ix k + 1) 0) = _
      rw [List.getD_cons_succ, getD_embed_translateAxis hs ix [] k hv hk']
      simp
    | cons j js =>
      show ((j :: embed ix js).getD (translateAxis ix k + 1) 0) = _
      rw [List.getD_cons_succ, getD_embed_translateAxis hs ix js k hv hk']
      simp

theorem setIndices_eq {old new ix : List (Option Nat)} (h : setIndices old new = some ix) :
    ix = new ∧ new.length = old.length ∧
      (old.zip new).all (fun p => p.1.isNone == p.2.isNone) = true := by
  unfold setIndices at h
  split at h
  · rename_i hc
    cases h
    exact ⟨rfl, hc.1, hc.2⟩
  · cases h

/-- Re-indexing never changes the shape of the reduced dataset. -/
theorem reducedShape_setIndices : ∀ (psh : List Nat) (old new : List (Option Nat)),
    new.length = old.length → (old.zip new).all (fun p => p.1.isNone == p.2.isNone) = true →
    reducedShape psh new = reducedShape psh old
  | [], _, _, _, _ => by simp [reducedShape]
  | _ :: _, [], [], _, _ => rfl
  | _ :: _, [], _ :: _, hl, _ => by simp at hl
  | _ :: _, _ :: _, [], hl, _ => by simp at hl
  | h :: hs, o :: old, n :: new, hl, hp => by
    simp only [List.zip_cons_cons, List.all_cons, Bool.and_eq_true, beq_iff_eq] at hp
    have ih := reducedShape_setIndices hs old new (by simpa using hl) hp.2
    cases o <;> cases n <;> simp_all [reducedShape]

/-! ### `_indices_subset_state` selects exactly the reduced dataset (histograms) -/

theorem stateEntryHas_fullSlice (h i : Nat) (hi : i < h) : Spec.stateEntryHas h fullSlice i = true := by
  have hs : sliceIndices none none none h = some (0, (h : Int), 1) := by
    simp [sliceIndices]
  simp only [Spec.stateEntryHas, fullSlice, hs]
  rw [contains_pyRange_iff _ _ _ (by decide)]
  simp
  omega

theorem flatMap_range_single {α : Type} (h k : Nat) (hk : k < h) (g : Nat → List α) :
    (List.range h).flatMap (fun i => if i = k then g i else []) = g k := by
  induction h with
  | zero => omega
  | succ n ih =>
    rw [List.range_succ, List.flatMap_append]
    by_cases hkn : k = n
    · subst hkn
      have : (List.range k).flatMap (fun i => if i = k then g i else []) = [] := by
        rw [List.flatMap_eq_nil_iff]
        intro i hi
        rw [List.mem_range] at hi
        rw [if_neg (by omega)]
      simp [this]
    · have hk' : k < n := by omega
      rw [ih hk']
      simp [show ¬ n = k from fun h => hkn h.symm]

/-- Filtering the parent's index tuples by the indices state gives, in order, the embedded index
tuples of the reduced dataset. -/
theorem filter_indices_state : ∀ (psh : List Nat) (ix : List (Option Nat)), ixValid psh ix = true →
    (allIdx psh).filter (Spec.sliceHolds psh (indicesSlices ix)) =
      (allIdx (reducedShape psh ix)).map (embed ix)
  | [], [], _ => by simp [allIdx, cartG, Spec.sliceHolds, reducedShape, embed, mergeView]
  | [], _ :: _, hv => by simp [ixValid] at hv
  | _ :: _, [], hv => by simp [ixValid] at hv
  | h :: hs, some k :: ix, hv => by
    simp only [ixValid, Bool.and_eq_true, decide_eq_true_eq] at hv
    have ih := filter_indices_state hs ix hv.2
    have hred : reducedShape (h :: hs) (some k :: ix) = reducedShape hs ix := rfl
    rw [hred, allIdx_cons, List.filter_flatMap]
    have hrow : ∀ i, ((allIdx hs).map (i :: ·)).filter
        (Spec.sliceHolds (h :: hs) (indicesSlices (some k :: ix))) =
        if i = k then ((allIdx (reducedShape hs ix)).map (embed ix)).map (i :: ·) else [] := by
      intro i
      rw [List.filter_map]
      by_cases hik : i = k
      · subst hik
        rw [if_pos rfl, ← ih]
        congr 1
        apply List.filter_congr
        intro t _
        simp [Function.comp, indicesSlices, Spec.sliceHolds, Spec.stateEntryHas, wrapD_nat]
      · rw [if_neg hik]
        rw [List.map_eq_nil_iff, List.filter_eq_nil_iff]
        intro t _
        simp [Function.comp, indicesSlices, Spec.sliceHolds, Spec.stateEntryHas, wrapD_nat, hik]
    simp only [hrow]
    rw [flatMap_range_single h k hv.1, List.map_map]
    apply List.map_congr_left
    intro t _
    simp [Function.comp, embed_some]
  | h :: hs, none :: ix, hv => by
    simp only [ixValid] at hv
    have ih := filter_indices_state hs ix hv
    have hred : reducedShape (h :: hs) (none :: ix) = h :: reducedShape hs ix := rfl
    rw [hred, allIdx_cons, allIdx_cons, List.filter_flatMap, List.map_flatMap]
    apply List.flatMap_congr
    intro i hi
    rw [List.mem_range] at hi
    rw [List.filter_map, List.map_map]
    have hR : List.map (embed (none :: ix) ∘ fun x => i :: x) (allIdx (reducedShape hs ix)) =
        List.map (fun x => i :: x) (List.map (embed ix) (allIdx (reducedShape hs ix))) := by
      rw [List.map_map]; rfl
    rw [hR, ← ih]
    congr 1
    apply List.filter_congr
    intro t _
    have : indicesSlices (none :: ix) = fullSlice :: indicesSlices ix := rfl
    simp [Function.comp, this, Spec.sliceHolds, stateEntryHas_fullSlice h i hi]

end GlueVerif.Lemmas.C04
