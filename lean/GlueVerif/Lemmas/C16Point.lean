import GlueVerif.Lemmas.C16Grid
import GlueVerif.Lemmas.C16Round
/-!
# C16 — the buffer, sample by sample

`frbUncached` (per-axis coordinate arrays, accumulated invalid mask, zeroed coordinates, fancy
indexing, overwrite of the invalid samples) computes at every sample point the value of the source
pixel whose index is the rounded linked position, NaN / False when that index lies outside.
-/
namespace GlueVerif.Lemmas.C16
open GlueVerif.FRB GlueVerif.FRB.Impl

/-! ## lists as maps over `range` -/

theorem map_getD_range {α : Type} (l : List α) (d : α) : l = (List.range l.length).map (fun j => l.getD j d) := by
  apply List.ext_getElem
  · simp
  · intro i h1 h2
    simp [List.getD, List.getElem?_eq_getElem h1]

theorem getD_map_range {α : Type} (n : Nat) (f : Nat → α) (d : α) (j : Nat) (hj : j < n) :
    ((List.range n).map f).getD j d = f j := by
  simp [List.getD, hj]

theorem zipWith_map_range {α β γ : Type} (n : Nat) (a : Nat → α) (b : Nat → β) (f : α → β → γ) :
    List.zipWith f ((List.range n).map a) ((List.range n).map b) = (List.range n).map fun j => f (a j) (b j) := by
  rw [List.zipWith_map, List.zipWith_self]

theorem foldl_or_range (n : Nat) (ks : List Nat) (b : Nat → Nat → Bool) :
    ∀ (a : Nat → Bool),
      ks.foldl (fun acc k => List.zipWith (· || ·) acc ((List.range n).map (b k))) ((List.range n).map a) =
      (List.range n).map fun j => a j || ks.any fun k => b k j := by
  induction ks with
  | nil => intro a; simp
  | cons k ks ih =>
    intro a
    simp only [List.foldl_cons, zipWith_map_range, List.any_cons]
    rw [ih]
    apply List.map_congr_left
    intro j _
    simp [Bool.or_assoc]

/-! ## one axis -/

/-- The rounded linked position along source axis `k` at sample point `pt`. -/
def idxAt (w : World) (r : Req) (pt : List Rat) (k : Nat) : Int :=
  rne ((w.derivOf r.target r.data k).val pt)

def invAt (w : World) (r : Req) (pt : List Rat) (k : Nat) : Bool :=
  decide (idxAt w r pt k < 0) || decide ((((w.ds r.data).shape.getD k 0 : Nat) : Int) ≤ idxAt w r pt k)

/-- The record one iteration of the `ipix` loop produces, as maps over the flat sample index. -/
def axisOf (w : World) (r : Req) (k : Nat) : AxisT :=
  let pts := gridPoints r.bounds
  ⟨(List.range pts.length).map (fun j => if invAt w r (pts.getD j []) k then 0 else idxAt w r (pts.getD j []) k),
   (w.derivOf r.target r.data k).dims,
   (List.range pts.length).map (fun j => invAt w r (pts.getD j []) k)⟩

theorem computeAxis_ok {w : World} {r : Req} {k : Nat} {ax : AxisT}
    (h : computeAxis w r.target r.data k r.bounds = .ok ax) : ax = axisOf w r k := by
  simp only [computeAxis] at h
  split at h
  · cases h
  · split at h
    · cases h
    · cases h
      have hp := map_getD_range (gridPoints r.bounds) []
      simp only [axisOf]
      generalize gridPoints r.bounds = pts at hp ⊢
      have hraw : pts.map (fun pt => rne ((w.derivOf r.target r.data k).val pt)) =
          (List.range pts.length).map (fun j => idxAt w r (pts.getD j []) k) := by
        conv => lhs; rw [hp]
        simp [idxAt, List.map_map]
      rw [hraw]
      simp only [List.map_map, zipWith_map_range]
      congr 1

theorem axesPlain_ok {w : World} {r : Req} : ∀ (ks : List Nat) (axes : List AxisT),
    axesPlain w r ks = .ok axes → axes = ks.map (axisOf w r)
  | [], axes, h => by simp [axesPlain] at h; cases h; rfl
  | k :: ks, axes, h => by
    simp only [axesPlain] at h
    split at h
    · cases h
    · rename_i ax hax
      split at h
      · cases h
      · rename_i axs haxs
        cases h
        simp [computeAxis_ok hax, axesPlain_ok ks axs haxs]

/-! ## one sample -/

theorem inBounds_range (shape : List Nat) : ∀ (f : Nat → Int),
    inBounds shape ((List.range shape.length).map f) =
      (List.range shape.length).all fun k => decide (0 ≤ f k) && decide (f k < ((shape.getD k 0 : Nat) : Int)) := by
  induction shape with
  | nil => intro f; rfl
  | cons n ns ih =>
    intro f
    rw [List.length_cons, List.range_succ_eq_map]
    simp only [List.map_cons, List.map_map, inBounds, List.all_cons, List.getD_cons_zero, List.all_map]
    rw [ih (f ∘ Nat.succ)]
    simp [Function.comp_def]

theorem inv_iff (i : Int) (n : Nat) :
    (decide (i < 0) || decide ((n : Int) ≤ i)) = !(decide (0 ≤ i) && decide (i < (n : Int))) := by
  by_cases h1 : i < 0 <;> by_cases h2 : (n : Int) ≤ i <;> simp [h1, h2] <;> omega

/-- One sample of the implementation = the Spec's sample. -/
theorem point_eq (w : World) (r : Req) (pt : List Rat) :
    (if (List.range (w.ndim r.data)).any (invAt w r pt) then invalidCell r
     else lookupCell w r ((List.range (w.ndim r.data)).map fun k => if invAt w r pt k then 0 else idxAt w r pt k)) =
    Spec.sample w r pt := by
  have hidx : (Spec.linkedPos w r pt).map rne = (List.range (w.ndim r.data)).map (idxAt w r pt) := by
    simp [Spec.linkedPos, idxAt, List.map_map, Function.comp_def]
  have hin : inBounds (w.ds r.data).shape ((List.range (w.ndim r.data)).map (idxAt w r pt)) =
      !((List.range (w.ndim r.data)).any (invAt w r pt)) := by
    have := inBounds_range (w.ds r.data).shape (idxAt w r pt)
    simp only [World.ndim] at this ⊢
    rw [this, List.all_eq_not_any_not]
    congr 2
    funext k
    simp only [invAt, inv_iff, Bool.not_not]
  simp only [Spec.sample, Spec.cellAt, hidx, hin]
  by_cases hany : (List.range (w.ndim r.data)).any (invAt w r pt) = true
  · simp [hany]
  · simp only [hany, Bool.not_false, if_true]
    simp only [Bool.not_eq_true] at hany
    rw [if_neg (by simp [hany])]
    congr 1
    apply List.map_congr_left
    intro k hk
    have : invAt w r pt k = false := by
      have := List.any_eq_false.mp hany k hk
      simpa using this
    simp [this]

/-! ## the whole buffer -/

theorem invalidAll_axes (w : World) (r : Req) (ks : List Nat) :
    invalidAll (gridPoints r.bounds).length (ks.map (axisOf w r)) =
      (List.range (gridPoints r.bounds).length).map fun j => ks.any fun k => invAt w r ((gridPoints r.bounds).getD j []) k := by
  have h0 : List.replicate (gridPoints r.bounds).length false =
      (List.range (gridPoints r.bounds).length).map fun _ => false := by
    apply List.ext_getElem <;> simp
  simp only [invalidAll, List.foldl_map, axisOf, h0]
  rw [foldl_or_range]
  simp

theorem finish_ok {w : World} {r : Req} {a : Arr}
    (h : finish w r ((List.range (w.ndim r.data)).map (axisOf w r)) = .ok a) : a = Spec.frb w r := by
  simp only [finish] at h
  split at h
  · cases h
  · split at h
    · cases h
    · cases h
      simp only [Spec.frb, invalidAll_axes, zipWith_map_range]
      congr 1
      conv => rhs; rw [map_getD_range (gridPoints r.bounds) []]
      rw [List.map_map]
      apply List.map_congr_left
      intro j hj
      have hj' : j < (gridPoints r.bounds).length := List.mem_range.mp hj
      simp only [Function.comp]
      rw [← point_eq]
      by_cases hany : (List.range (w.ndim r.data)).any (invAt w r ((gridPoints r.bounds).getD j [])) = true
      · have hany' : ((List.range (w.ndim r.data)).any fun k => invAt w r ((gridPoints r.bounds).getD j []) k) = true := hany
        rw [if_pos hany, if_pos hany']
      · have hany' : ¬ ((List.range (w.ndim r.data)).any fun k => invAt w r ((gridPoints r.bounds).getD j []) k) = true := hany
        rw [if_neg hany, if_neg hany']
        refine congrArg (lookupCell w r) ?_
        rw [List.map_map]
        apply List.map_congr_left
        intro k _
        simp only [Function.comp, axisOf]
        rw [getD_map_range _ _ _ _ hj']

/-- **Pointwise characterisation**: whenever `compute_fixed_resolution_buffer` (no cache id) returns
an array, it is the Spec's buffer: shape = the ranged bounds, and every sample is the value /
membership of the source pixel at the rounded linked position, NaN / False outside. -/
theorem frbUncached_ok {w : World} {r : Req} {a : Arr} (h : frbUncached w r = .ok a) : a = Spec.frb w r := by
  simp only [frbUncached] at h
  split at h
  · cases h
  · split at h
    · cases h
    · rename_i axes hax
      rw [axesPlain_ok _ _ hax] at h
      exact finish_ok h

/-! ## when is a buffer returned -/

theorem computeAxis_isOk {w : World} {r : Req} {k : Nat} (hlen : r.bounds.length = w.ndim r.target)
    (herr : (w.derivOf r.target r.data k).err? = none) :
    ∃ ax, computeAxis w r.target r.data k r.bounds = .ok ax := by
  simp only [computeAxis, hlen, ne_eq, not_true_eq_false, if_false, herr]
  exact ⟨_, rfl⟩

theorem axesPlain_isOk {w : World} {r : Req} (hlen : r.bounds.length = w.ndim r.target) :
    ∀ (ks : List Nat), (∀ k, k ∈ ks → (w.derivOf r.target r.data k).err? = none) →
      ∃ axes, axesPlain w r ks = .ok axes
  | [], _ => ⟨[], rfl⟩
  | k :: ks, h => by
    obtain ⟨ax, hax⟩ := computeAxis_isOk (k := k) hlen (h k (by simp))
    obtain ⟨axs, haxs⟩ := axesPlain_isOk hlen ks (fun k' hk' => h k' (by simp [hk']))
    exact ⟨ax :: axs, by simp [axesPlain, hax, haxs]⟩

theorem dimsAllOf_axisOf (w : World) (r : Req) (ks : List Nat) :
    dimsAllOf (ks.map (axisOf w r)) = ks.flatMap fun k => (w.derivOf r.target r.data k).dims := by
  induction ks with
  | nil => rfl
  | cons k ks ih => simp only [dimsAllOf, List.map_cons, List.flatMap_cons] at ih ⊢; rw [ih]; rfl

/-- A request the Spec calls *defined* is answered with an array (no exception). -/
theorem frbUncached_defined {w : World} {r : Req} (h : Spec.defined w r = true) :
    ∃ a, frbUncached w r = .ok a := by
  simp only [Spec.defined, Bool.and_eq_true, decide_eq_true_eq, List.all_eq_true, List.mem_range,
    Option.isNone_iff_eq_none, Bool.not_eq_true'] at h
  obtain ⟨⟨⟨⟨hv, hlen⟩, herr⟩, hbc⟩, hcell⟩ := h
  obtain ⟨axes, hax⟩ := axesPlain_isOk hlen (List.range (w.ndim r.data))
    (fun k hk => herr k (List.mem_range.mp hk))
  have haxes := axesPlain_ok _ _ hax
  simp only [frbUncached, hv, Bool.not_true, Bool.false_eq_true, if_false, hax]
  subst haxes
  simp only [finish, dimsAllOf_axisOf, hbc, Bool.false_eq_true, if_false, hcell]
  exact ⟨_, rfl⟩

/-- Conversely, an answered request is a defined one. -/
theorem defined_of_ok {w : World} {r : Req} {a : Arr} (hnd : 0 < w.ndim r.data) (h : frbUncached w r = .ok a) :
    Spec.defined w r = true := by
  simp only [frbUncached] at h
  split at h
  · cases h
  · rename_i hv
    split at h
    · cases h
    · rename_i axes hax
      have haxes := axesPlain_ok _ _ hax
      subst haxes
      -- every axis was computed without an exception
      have hall : ∀ k, k ∈ List.range (w.ndim r.data) →
          r.bounds.length = w.ndim r.target ∧ (w.derivOf r.target r.data k).err? = none := by
        have gen : ∀ (ks : List Nat) (axes : List AxisT), axesPlain w r ks = .ok axes → ∀ k, k ∈ ks →
            r.bounds.length = w.ndim r.target ∧ (w.derivOf r.target r.data k).err? = none := by
          intro ks
          induction ks with
          | nil => intro _ _ k hk; simp at hk
          | cons k0 ks ih =>
            intro axes hax k hk
            simp only [axesPlain] at hax
            split at hax
            · cases hax
            · rename_i ax hax0
              split at hax
              · cases hax
              · rename_i axs haxs
                rcases List.mem_cons.mp hk with e | e
                · subst e
                  simp only [computeAxis] at hax0
                  split at hax0
                  · cases hax0
                  · rename_i hl
                    split at hax0
                    · cases hax0
                    · rename_i he
                      exact ⟨by simpa using hl, he⟩
                · exact ih axs haxs k e
        exact gen _ _ hax
      simp only [finish, dimsAllOf_axisOf] at h
      split at h
      · cases h
      · rename_i hbc
        split at h
        · cases h
        · rename_i hcell
          have hlen := (hall 0 (List.mem_range.mpr hnd)).1
          simp only [Spec.defined, Bool.and_eq_true]
          refine ⟨⟨⟨⟨by simpa using hv, by simpa using hlen⟩, ?_⟩, ?_⟩, by simp [hcell]⟩
          · simp only [List.all_eq_true, List.mem_range, Option.isNone_iff_eq_none]
            exact fun k hk => (hall k (List.mem_range.mpr hk)).2
          · rw [Bool.not_eq_true']
            exact Bool.eq_false_iff.mpr hbc

/-! ## the oracle accepts the buffer -/

theorem mem_cartInt : ∀ (cands : List (List Int)) (idx : List Int),
    List.Forall₂ (fun i c => i ∈ c) idx cands → idx ∈ Spec.cartInt cands
  | [], [], _ => by simp [Spec.cartInt]
  | c :: cs, i :: is, h => by
    cases h with
    | cons h1 h2 =>
      simp only [Spec.cartInt, List.mem_flatMap, List.mem_map]
      exact ⟨i, h1, is, mem_cartInt cs is h2, rfl⟩
  | [], _ :: _, h => by cases h
  | _ :: _, [], h => by cases h

theorem forall₂_map_rne (qs : List Rat) :
    List.Forall₂ (fun i c => i ∈ c) (qs.map rne) (qs.map Spec.nearestInts) := by
  induction qs with
  | nil => exact .nil
  | cons q qs ih => exact .cons (rne_mem_nearestInts q) ih

/-- The half-to-even sample is accepted by the tie-tolerant oracle. -/
theorem sampleOk_sample (w : World) (r : Req) (pt : List Rat) :
    Spec.sampleOk w r pt (Spec.sample w r pt) = true := by
  simp only [Spec.sampleOk, List.any_eq_true]
  refine ⟨(Spec.linkedPos w r pt).map rne, mem_cartInt _ _ (forall₂_map_rne _), ?_⟩
  simp [Spec.sample]

theorem allOk_map (w : World) (r : Req) : ∀ (pts : List (List Rat)),
    Spec.allOk w r pts (pts.map (Spec.sample w r)) = true
  | [] => rfl
  | pt :: pts => by simp [Spec.allOk, sampleOk_sample, allOk_map w r pts]

theorem accepts_frb (w : World) (r : Req) : Spec.accepts w r (Spec.frb w r) = true := by
  simp [Spec.accepts, Spec.frb, allOk_map]

end GlueVerif.Lemmas.C16
