import GlueVerif.Lemmas.Geometry
/-!
# C08 — the even-odd rule does not depend on the direction of the ray

`crossParity` casts the ray from `p` towards `+x` (this is what matplotlib does).  A rotated polygon
tested at the rotated point is the original polygon tested with a rotated ray.  This file proves
that for a closed polygon and a point that lies on none of its edges the parity of crossings is the
same for every ray direction — hence `PolygonalROI.contains` is equivariant under `rotate_to`.

Method: for two directions `u₁`, `u₂` with `u₁ × u₂ > 0` and every edge `a → b` not through the
origin, `cross₁(a,b) xor cross₂(a,b) = W(a) xor W(b)` where `W` is the wedge between the two rays
(`edge_wedge`); around a closed path the right-hand side telescopes to `false`.
-/
namespace GlueVerif.Lemmas.Geometry
open GlueVerif.Geometry

/-- Crossing test of one edge as seen from the origin, for the ray whose upper half-plane is
`0 ≤ s·x + c·y` (direction `(c, −s)`); `(c, s) = (1, 0)` is the `+x` ray of `edgeCross`. -/
def edgeCrossDir (c s : Rat) (a b : Pt) : Bool :=
  (decide (0 ≤ s * a.1 + c * a.2) != decide (0 ≤ s * b.1 + c * b.2)) &&
  (decide (0 ≤ a.1 * b.2 - a.2 * b.1) == decide (0 ≤ s * b.1 + c * b.2))

/-- The wedge from ray 1 (inclusive) to ray 2 (exclusive). -/
def inWedge (c1 s1 c2 s2 : Rat) (v : Pt) : Bool :=
  decide (0 ≤ s1 * v.1 + c1 * v.2) && !decide (0 ≤ s2 * v.1 + c2 * v.2)

/-- Two non-zero vectors on the same open ray from the origin have the same half-plane flags. -/
theorem same_ray_flag (c s : Rat) (a b : Pt) (hD : a.1 * b.2 - a.2 * b.1 = 0)
    (hP : 0 < a.1 * b.1 + a.2 * b.2) : (0 ≤ s * a.1 + c * a.2) ↔ (0 ≤ s * b.1 + c * b.2) := by
  have I3 : (s * a.1 + c * a.2) * (a.1 * b.1 + a.2 * b.2) =
      (s * b.1 + c * b.2) * (a.1 * a.1 + a.2 * a.2) - (a.1 * b.2 - a.2 * b.1) * (c * a.1 - s * a.2) := by ring
  have I4 : (s * b.1 + c * b.2) * (a.1 * b.1 + a.2 * b.2) =
      (s * a.1 + c * a.2) * (b.1 * b.1 + b.2 * b.2) + (a.1 * b.2 - a.2 * b.1) * (c * b.1 - s * b.2) := by ring
  rw [hD, zero_mul] at I3 I4
  constructor
  · intro h
    by_contra hn
    rw [not_le] at hn
    nlinarith [mul_nonneg h (add_nonneg (mul_self_nonneg b.1) (mul_self_nonneg b.2)), mul_pos_of_neg_of_neg hn (neg_neg_of_pos hP)]
  · intro h
    by_contra hn
    rw [not_le] at hn
    nlinarith [mul_nonneg h (add_nonneg (mul_self_nonneg a.1) (mul_self_nonneg a.2)), mul_pos_of_neg_of_neg hn (neg_neg_of_pos hP)]

/-- **Edge lemma.**  Ray 2 is counter-clockwise of ray 1 by less than a half turn
(`s₁c₂ − c₁s₂ > 0`) and the origin is not on the closed segment `[a, b]`: the edge crosses exactly
one of the two rays iff exactly one of its end points lies in the wedge between them. -/
theorem edge_wedge (c1 s1 c2 s2 : Rat) (a b : Pt) (hpos : 0 < s1 * c2 - c1 * s2)
    (hseg : ¬ (a.1 * b.2 - a.2 * b.1 = 0 ∧ a.1 * b.1 + a.2 * b.2 ≤ 0)) :
    (edgeCrossDir c1 s1 a b != edgeCrossDir c2 s2 a b) =
      (inWedge c1 s1 c2 s2 a != inWedge c1 s1 c2 s2 b) := by
  unfold edgeCrossDir inWedge
  by_cases hD : a.1 * b.2 - a.2 * b.1 = 0
  · have hP : 0 < a.1 * b.1 + a.2 * b.2 := by
      by_contra h
      exact hseg ⟨hD, not_lt.1 h⟩
    have e1 := same_ray_flag c1 s1 a b hD hP
    have e2 := same_ray_flag c2 s2 a b hD hP
    have d1 : decide (0 ≤ s1 * a.1 + c1 * a.2) = decide (0 ≤ s1 * b.1 + c1 * b.2) := decide_eq_decide.mpr e1
    have d2 : decide (0 ≤ s2 * a.1 + c2 * a.2) = decide (0 ≤ s2 * b.1 + c2 * b.2) := decide_eq_decide.mpr e2
    rw [d1, d2]
    simp
  · have I : (a.1 * b.2 - a.2 * b.1) * (s1 * c2 - c1 * s2) =
        (s1 * a.1 + c1 * a.2) * (s2 * b.1 + c2 * b.2) - (s1 * b.1 + c1 * b.2) * (s2 * a.1 + c2 * a.2) := by ring
    by_cases hF1 : 0 ≤ s1 * a.1 + c1 * a.2 <;> by_cases hF2 : 0 ≤ s1 * b.1 + c1 * b.2 <;>
    by_cases hG1 : 0 ≤ s2 * a.1 + c2 * a.2 <;> by_cases hG2 : 0 ≤ s2 * b.1 + c2 * b.2 <;>
    by_cases hX : 0 ≤ a.1 * b.2 - a.2 * b.1 <;>
    simp [hF1, hF2, hG1, hG2, hX] <;>
    (rw [not_le] at *
     first
     | (have hX' : 0 < a.1 * b.2 - a.2 * b.1 := lt_of_le_of_ne hX (Ne.symm hD)
        nlinarith [mul_pos hX' hpos])
     | nlinarith [mul_pos_of_neg_of_neg hX (neg_neg_of_pos hpos)])

/-! ### Paths -/

/-- Parity of crossings of the path `a, v₁, v₂, …` (seen from the origin) with the ray of
direction flag `(c, s)`. -/
def crossPathDir (c s : Rat) : Pt → List Pt → Bool
  | _, [] => false
  | a, b :: rest => edgeCrossDir c s a b != crossPathDir c s b rest

/-- The origin lies on the closed segment `[a, b]`: `a × b = 0 ∧ a · b ≤ 0`. -/
def originOn (a b : Pt) : Prop := a.1 * b.2 - a.2 * b.1 = 0 ∧ a.1 * b.1 + a.2 * b.2 ≤ 0

/-- The origin lies on no edge of the path. -/
def offPath : Pt → List Pt → Prop
  | _, [] => True
  | a, b :: rest => ¬ originOn a b ∧ offPath b rest

theorem crossPathDir_wedge (c1 s1 c2 s2 : Rat) (hpos : 0 < s1 * c2 - c1 * s2) (a : Pt) (vs : List Pt)
    (hoff : offPath a vs) :
    (crossPathDir c1 s1 a vs != crossPathDir c2 s2 a vs) =
      (inWedge c1 s1 c2 s2 a != inWedge c1 s1 c2 s2 (vs.getLast?.getD a)) := by
  induction vs generalizing a with
  | nil => simp [crossPathDir]
  | cons b rest ih =>
    obtain ⟨h1, h2⟩ := hoff
    have e := edge_wedge c1 s1 c2 s2 a b hpos h1
    have r := ih b h2
    have hl : ((b :: rest).getLast?.getD a) = (rest.getLast?.getD b) := by
      cases rest with
      | nil => rfl
      | cons c' r' =>
        rw [List.getLast?_cons_cons]
        rcases h : (c' :: r').getLast? with _ | x
        · simp at h
        · rfl
    rw [hl]
    simp only [crossPathDir]
    generalize edgeCrossDir c1 s1 a b = x1 at *
    generalize edgeCrossDir c2 s2 a b = x2 at *
    generalize crossPathDir c1 s1 b rest = r1 at *
    generalize crossPathDir c2 s2 b rest = r2 at *
    generalize inWedge c1 s1 c2 s2 a = wa at *
    generalize inWedge c1 s1 c2 s2 b = wb at *
    generalize inWedge c1 s1 c2 s2 (rest.getLast?.getD b) = wl at *
    revert e r
    cases x1 <;> cases x2 <;> cases r1 <;> cases r2 <;> cases wa <;> cases wb <;> cases wl <;> decide

/-- Parity for a closed polygon (vertices relative to the test point). -/
def parityDir (c s : Rat) (vs : List Pt) : Bool :=
  match vs with
  | [] => false
  | v0 :: rest => crossPathDir c s v0 (rest ++ [v0])

/-- The origin lies on no edge of the closed polygon. -/
def offPoly (vs : List Pt) : Prop :=
  match vs with
  | [] => True
  | v0 :: rest => offPath v0 (rest ++ [v0])

/-- **Two rays less than a half turn apart see the same parity.** -/
theorem parityDir_eq_of_pos (c1 s1 c2 s2 : Rat) (hpos : 0 < s1 * c2 - c1 * s2) (vs : List Pt)
    (hoff : offPoly vs) : parityDir c1 s1 vs = parityDir c2 s2 vs := by
  cases vs with
  | nil => rfl
  | cons v0 rest =>
    have h := crossPathDir_wedge c1 s1 c2 s2 hpos v0 (rest ++ [v0]) hoff
    have hl : ((rest ++ [v0]).getLast?.getD v0) = v0 := by simp
    rw [hl, bne_self_eq_false] at h
    simp only [parityDir]
    generalize crossPathDir c1 s1 v0 (rest ++ [v0]) = x at *
    generalize crossPathDir c2 s2 v0 (rest ++ [v0]) = y at *
    revert h
    cases x <;> cases y <;> decide

/-- **Every unit direction sees the same parity as the `+x` ray.** -/
theorem parityDir_unit (c s : Rat) (hu : c * c + s * s = 1) (vs : List Pt) (hoff : offPoly vs) :
    parityDir c s vs = parityDir 1 0 vs := by
  rcases lt_trichotomy s 0 with hs | hs | hs
  · exact (parityDir_eq_of_pos 1 0 c s (by linarith) vs hoff).symm
  · -- s = 0: c = 1 (same ray) or c = −1 (opposite ray, via the +y direction)
    subst hs
    have hc : (c - 1) * (c + 1) = 0 := by nlinarith
    rcases mul_eq_zero.1 hc with h | h
    · have : c = 1 := by linarith
      rw [this]
    · have : c = -1 := by linarith
      rw [this]
      rw [parityDir_eq_of_pos (-1) 0 0 1 (by norm_num) vs hoff, parityDir_eq_of_pos 0 1 1 0 (by norm_num) vs hoff]
  · exact parityDir_eq_of_pos c s 1 0 (by linarith) vs hoff

/-! ### Back to `crossParity` and rotations about a centre -/

/-- Vertex relative to the test point. -/
def relPt (p v : Pt) : Pt := (v.1 - p.1, v.2 - p.2)

theorem cross_bool_congr {P1 P2 P3 Q1 Q2 Q3 : Prop} [Decidable P1] [Decidable P2] [Decidable P3]
    [Decidable Q1] [Decidable Q2] [Decidable Q3] (h1 : P1 ↔ Q1) (h2 : P2 ↔ Q2) (h3 : P3 ↔ Q3) :
    ((decide P1 != decide P2) && (decide P3 == decide P2)) =
      ((decide Q1 != decide Q2) && (decide Q3 == decide Q2)) := by
  rw [decide_eq_decide.mpr h1, decide_eq_decide.mpr h2, decide_eq_decide.mpr h3]

theorem edgeCross_eq_dir (c s : Rat) (p a b p' a' b' : Pt)
    (hA : p'.2 ≤ a'.2 ↔ 0 ≤ s * (a.1 - p.1) + c * (a.2 - p.2))
    (hB : p'.2 ≤ b'.2 ↔ 0 ≤ s * (b.1 - p.1) + c * (b.2 - p.2))
    (hX : (b'.1 - p'.1) * (a'.2 - b'.2) ≤ (b'.2 - p'.2) * (a'.1 - b'.1) ↔
      0 ≤ (a.1 - p.1) * (b.2 - p.2) - (a.2 - p.2) * (b.1 - p.1)) :
    edgeCross p' a' b' = edgeCrossDir c s (relPt p a) (relPt p b) := by
  unfold edgeCross edgeCrossDir relPt
  exact cross_bool_congr hA hB hX

theorem edgeCross_eq_dir0 (p a b : Pt) : edgeCross p a b = edgeCrossDir 1 0 (relPt p a) (relPt p b) := by
  apply edgeCross_eq_dir 1 0 p a b p a b
  · constructor <;> intro h <;> linarith
  · constructor <;> intro h <;> linarith
  · exact haines_cross p a b

theorem rotAbout_fst (ctr : Pt) (c s : Rat) (v : Pt) :
    (rotAbout ctr c s v).1 = c * (v.1 - ctr.1) - s * (v.2 - ctr.2) + ctr.1 := rfl
theorem rotAbout_snd (ctr : Pt) (c s : Rat) (v : Pt) :
    (rotAbout ctr c s v).2 = s * (v.1 - ctr.1) + c * (v.2 - ctr.2) + ctr.2 := rfl

theorem edgeCross_rot (ctr : Pt) (c s : Rat) (hu : c * c + s * s = 1) (p a b : Pt) :
    edgeCross (rotAbout ctr c s p) (rotAbout ctr c s a) (rotAbout ctr c s b) =
      edgeCrossDir c s (relPt p a) (relPt p b) := by
  apply edgeCross_eq_dir c s p a b
  · rw [rotAbout_snd, rotAbout_snd]; constructor <;> intro h <;> linarith
  · rw [rotAbout_snd, rotAbout_snd]; constructor <;> intro h <;> linarith
  · rw [haines_cross]
    simp only [rotAbout_fst, rotAbout_snd]
    have e : (c * (a.1 - ctr.1) - s * (a.2 - ctr.2) + ctr.1 - (c * (p.1 - ctr.1) - s * (p.2 - ctr.2) + ctr.1)) *
          (s * (b.1 - ctr.1) + c * (b.2 - ctr.2) + ctr.2 - (s * (p.1 - ctr.1) + c * (p.2 - ctr.2) + ctr.2)) -
        (s * (a.1 - ctr.1) + c * (a.2 - ctr.2) + ctr.2 - (s * (p.1 - ctr.1) + c * (p.2 - ctr.2) + ctr.2)) *
          (c * (b.1 - ctr.1) - s * (b.2 - ctr.2) + ctr.1 - (c * (p.1 - ctr.1) - s * (p.2 - ctr.2) + ctr.1))
        = (c * c + s * s) * ((a.1 - p.1) * (b.2 - p.2) - (a.2 - p.2) * (b.1 - p.1)) := by ring
    rw [e, hu, one_mul]

theorem crossPath_eq_dir0 (p a : Pt) (vs : List Pt) :
    crossPath p a vs = crossPathDir 1 0 (relPt p a) (vs.map (relPt p)) := by
  induction vs generalizing a with
  | nil => rfl
  | cons b rest ih => simp only [crossPath, List.map_cons, crossPathDir, edgeCross_eq_dir0, ih]

theorem crossPath_rot (ctr : Pt) (c s : Rat) (hu : c * c + s * s = 1) (p a : Pt) (vs : List Pt) :
    crossPath (rotAbout ctr c s p) (rotAbout ctr c s a) (vs.map (rotAbout ctr c s)) =
      crossPathDir c s (relPt p a) (vs.map (relPt p)) := by
  induction vs generalizing a with
  | nil => rfl
  | cons b rest ih => simp only [crossPath, List.map_cons, crossPathDir, edgeCross_rot ctr c s hu, ih]

theorem crossParity_eq_dir0 (vs : List Pt) (p : Pt) : crossParity vs p = parityDir 1 0 (vs.map (relPt p)) := by
  cases vs with
  | nil => rfl
  | cons v rest =>
    simp only [crossParity, List.map_cons, parityDir, crossPath_eq_dir0, List.map_append, List.map_nil]

theorem crossParity_rot (ctr : Pt) (c s : Rat) (hu : c * c + s * s = 1) (vs : List Pt) (p : Pt) :
    crossParity (vs.map (rotAbout ctr c s)) (rotAbout ctr c s p) = parityDir c s (vs.map (relPt p)) := by
  cases vs with
  | nil => rfl
  | cons v rest =>
    simp only [crossParity, List.map_cons, parityDir]
    have : List.map (rotAbout ctr c s) rest ++ [rotAbout ctr c s v] = (rest ++ [v]).map (rotAbout ctr c s) := by simp
    rw [this, crossPath_rot ctr c s hu]
    simp only [List.map_append, List.map_cons, List.map_nil]

/-- `p` lies on no edge (closing edge included) of the polygon. -/
def offBoundary (vs : List Pt) (p : Pt) : Prop := offPoly (vs.map (relPt p))

/-- **The even-odd rule is invariant under rotation about any centre**, for every polygon and every
point that lies on none of its edges. -/
theorem crossParity_rotate (ctr : Pt) (c s : Rat) (hu : c * c + s * s = 1) (vs : List Pt) (p : Pt)
    (hoff : offBoundary vs p) :
    crossParity (vs.map (rotAbout ctr c s)) (rotAbout ctr c s p) = crossParity vs p := by
  rw [crossParity_rot ctr c s hu, crossParity_eq_dir0, parityDir_unit c s hu _ hoff]

/-! ### The band `polyNear` contains the boundary -/

/-- A point of the closed segment `[a, b]` has distance 0 to it (as computed by `segDist2`). -/
theorem segDist2_zero_of_on (p a b : Pt) (h : originOn (relPt p a) (relPt p b)) : segDist2 p a b = 0 := by
  obtain ⟨hD, hP⟩ := h
  simp only [relPt] at hD hP
  unfold segDist2
  simp only
  by_cases hL : (b.1 - a.1) * (b.1 - a.1) + (b.2 - a.2) * (b.2 - a.2) = 0
  · rw [if_pos hL]
    -- a = b, so (a − p)·(a − p) ≤ 0
    have h1 : b.1 - a.1 = 0 := by nlinarith [mul_self_nonneg (b.1 - a.1), mul_self_nonneg (b.2 - a.2)]
    have h2 : b.2 - a.2 = 0 := by nlinarith [mul_self_nonneg (b.1 - a.1), mul_self_nonneg (b.2 - a.2)]
    have e1 : b.1 = a.1 := by linarith
    have e2 : b.2 = a.2 := by linarith
    rw [e1, e2] at hP
    nlinarith [mul_self_nonneg (p.1 - a.1), mul_self_nonneg (p.2 - a.2)]
  · rw [if_neg hL]
    have hLpos : 0 < (b.1 - a.1) * (b.1 - a.1) + (b.2 - a.2) * (b.2 - a.2) :=
      lt_of_le_of_ne (add_nonneg (mul_self_nonneg _) (mul_self_nonneg _)) (Ne.symm hL)
    have hN0 : 0 ≤ (p.1 - a.1) * (b.1 - a.1) + (p.2 - a.2) * (b.2 - a.2) := by
      nlinarith [mul_self_nonneg (p.1 - a.1), mul_self_nonneg (p.2 - a.2)]
    have hNL : (p.1 - a.1) * (b.1 - a.1) + (p.2 - a.2) * (b.2 - a.2) ≤
        (b.1 - a.1) * (b.1 - a.1) + (b.2 - a.2) * (b.2 - a.2) := by
      nlinarith [mul_self_nonneg (b.1 - p.1), mul_self_nonneg (b.2 - p.2)]
    -- the cross product (p − a) × (b − a) vanishes
    have hc : (p.1 - a.1) * (b.2 - a.2) - (p.2 - a.2) * (b.1 - a.1) = 0 := by linarith
    have key1 : (p.1 - a.1) * ((b.1 - a.1) * (b.1 - a.1) + (b.2 - a.2) * (b.2 - a.2)) -
        ((p.1 - a.1) * (b.1 - a.1) + (p.2 - a.2) * (b.2 - a.2)) * (b.1 - a.1) = 0 := by
      have : (p.1 - a.1) * ((b.1 - a.1) * (b.1 - a.1) + (b.2 - a.2) * (b.2 - a.2)) -
        ((p.1 - a.1) * (b.1 - a.1) + (p.2 - a.2) * (b.2 - a.2)) * (b.1 - a.1) =
          (b.2 - a.2) * ((p.1 - a.1) * (b.2 - a.2) - (p.2 - a.2) * (b.1 - a.1)) := by ring
      rw [this, hc, mul_zero]
    have key2 : (p.2 - a.2) * ((b.1 - a.1) * (b.1 - a.1) + (b.2 - a.2) * (b.2 - a.2)) -
        ((p.1 - a.1) * (b.1 - a.1) + (p.2 - a.2) * (b.2 - a.2)) * (b.2 - a.2) = 0 := by
      have : (p.2 - a.2) * ((b.1 - a.1) * (b.1 - a.1) + (b.2 - a.2) * (b.2 - a.2)) -
        ((p.1 - a.1) * (b.1 - a.1) + (p.2 - a.2) * (b.2 - a.2)) * (b.2 - a.2) =
          -(b.1 - a.1) * ((p.1 - a.1) * (b.2 - a.2) - (p.2 - a.2) * (b.1 - a.1)) := by ring
      rw [this, hc, mul_zero]
    generalize (b.1 - a.1) * (b.1 - a.1) + (b.2 - a.2) * (b.2 - a.2) = L at *
    generalize (p.1 - a.1) * (b.1 - a.1) + (p.2 - a.2) * (b.2 - a.2) = N at *
    have ht0 : ¬ (N / L < 0) := not_lt.2 (div_nonneg hN0 hLpos.le)
    have ht1 : ¬ (1 < N / L) := by
      rw [not_lt, div_le_one hLpos]; exact hNL
    rw [if_neg ht0, if_neg ht1]
    have k1 : (p.1 - a.1) - N / L * (b.1 - a.1) = 0 := by
      have e : (p.1 - a.1) - N / L * (b.1 - a.1) = ((p.1 - a.1) * L - N * (b.1 - a.1)) / L := by
        field_simp
      rw [e, key1, zero_div]
    have k2 : (p.2 - a.2) - N / L * (b.2 - a.2) = 0 := by
      have e : (p.2 - a.2) - N / L * (b.2 - a.2) = ((p.2 - a.2) * L - N * (b.2 - a.2)) / L := by
        field_simp
      rw [e, key2, zero_div]
    rw [k1, k2]; ring

theorem offPath_of_not_near (p : Pt) (ε : Rat) (a : Pt) (vs : List Pt) (h : nearPath p ε a vs = false) :
    offPath (relPt p a) (vs.map (relPt p)) := by
  induction vs generalizing a with
  | nil => trivial
  | cons b rest ih =>
    simp only [nearPath, Bool.or_eq_false_iff, decide_eq_false_iff_not, not_le] at h
    refine ⟨?_, ih b h.2⟩
    intro hon
    have := segDist2_zero_of_on p a b hon
    rw [this] at h
    exact absurd h.1 (not_lt.2 (mul_self_nonneg ε))

/-- Outside the band (any width) a point lies on no edge. -/
theorem offBoundary_of_not_near (vs : List Pt) (p : Pt) (ε : Rat) (h : polyNear vs p ε = false) :
    offBoundary vs p := by
  cases vs with
  | nil => trivial
  | cons v rest =>
    simp only [polyNear] at h
    have := offPath_of_not_near p ε v (rest ++ [v]) h
    simpa [offBoundary, offPoly] using this

/-! ### `rotate_to` on polygons -/

theorem rotAbout_turnBack (ctr : Pt) (c s : Rat) (hu : c * c + s * s = 1) (p : Pt) :
    rotAbout ctr c s (turnBack ctr c s p) = p := by
  obtain ⟨h1, h2⟩ := rot_unrot hu (p.1 - ctr.1) (p.2 - ctr.2)
  simp only [rotAbout, turnBack, rot, unrot]
  ext
  · simp only; linarith
  · simp only; linarith

/-- **`rotate_equivariant` (polygon), even-odd rule**: the polygon with every vertex turned about
`ctr` by the unit rotation `(c, s)` contains `p` iff the original polygon contains `p` turned back —
for every point whose pre-image lies on no edge. -/
theorem polyTurn_spec (ctr : Pt) (c s : Rat) (hu : c * c + s * s = 1) (vs : List Pt) (p : Pt)
    (hoff : offBoundary vs (turnBack ctr c s p)) :
    Spec.polyContains (vs.map (rotAbout ctr c s)) p = Spec.polyContains vs (turnBack ctr c s p) := by
  have h := crossParity_rotate ctr c s hu vs (turnBack ctr c s p) hoff
  rw [rotAbout_turnBack ctr c s hu] at h
  exact h

/-- Same for the coded test (`points_inside_poly`), polygons with at least three vertices. -/
theorem polyTurn_impl (ctr : Pt) (c s : Rat) (hu : c * c + s * s = 1) (vs : List Pt) (p : Pt)
    (h3 : 3 ≤ vs.length) (hoff : offBoundary vs (turnBack ctr c s p)) :
    Impl.polyContains (vs.map (rotAbout ctr c s)) p = Impl.polyContains vs (turnBack ctr c s p) := by
  rw [polyContains_eq_spec _ _ (by rw [List.length_map]; exact h3), polyContains_eq_spec _ _ h3]
  exact polyTurn_spec ctr c s hu vs p hoff

/-! ### The polygon centre turns with the polygon -/

theorem rotAbout_injective (ctr : Pt) (c s : Rat) (hu : c * c + s * s = 1) :
    Function.Injective (rotAbout ctr c s) := by
  intro a b h
  have h1 : (rotAbout ctr c s a).1 = (rotAbout ctr c s b).1 := by rw [h]
  have h2 : (rotAbout ctr c s a).2 = (rotAbout ctr c s b).2 := by rw [h]
  rw [rotAbout_fst, rotAbout_fst] at h1
  rw [rotAbout_snd, rotAbout_snd] at h2
  have k1 : c * (a.1 - b.1) - s * (a.2 - b.2) = 0 := by linarith
  have k2 : s * (a.1 - b.1) + c * (a.2 - b.2) = 0 := by linarith
  have e1 : (c * c + s * s) * (a.1 - b.1) = 0 := by
    have : (c * c + s * s) * (a.1 - b.1) =
        c * (c * (a.1 - b.1) - s * (a.2 - b.2)) + s * (s * (a.1 - b.1) + c * (a.2 - b.2)) := by ring
    rw [this, k1, k2]; ring
  have e2 : (c * c + s * s) * (a.2 - b.2) = 0 := by
    have : (c * c + s * s) * (a.2 - b.2) =
        c * (s * (a.1 - b.1) + c * (a.2 - b.2)) - s * (c * (a.1 - b.1) - s * (a.2 - b.2)) := by ring
    rw [this, k1, k2]; ring
  rw [hu, one_mul] at e1 e2
  ext <;> linarith

theorem polyClosed_map (f : Pt → Pt) (hf : Function.Injective f) (vs : List Pt) :
    polyClosed (vs.map f) = polyClosed vs := by
  rw [Bool.eq_iff_iff]
  simp only [polyClosed, Bool.and_eq_true, beq_iff_eq, decide_eq_true_eq, List.length_map,
    List.head?_map, List.getLast?_map]
  constructor
  · rintro ⟨h1, h2⟩
    exact ⟨h1, Option.map_injective hf h2⟩
  · rintro ⟨h1, h2⟩
    exact ⟨h1, by rw [h2]⟩

theorem polyCore_map (f : Pt → Pt) (hf : Function.Injective f) (vs : List Pt) :
    polyCore (vs.map f) = (polyCore vs).map f := by
  simp only [polyCore, polyClosed_map f hf]
  split
  · exact (List.map_dropLast ..).symm
  · rfl

theorem sumList_affine (k a : Rat) (xs : List Rat) :
    sumList (xs.map fun x => k * x + a) = k * sumList xs + (xs.length : Rat) * a := by
  induction xs with
  | nil => simp [sumList]
  | cons x rest ih =>
    simp only [List.map_cons, sumList_cons, ih, List.length_cons, Nat.cast_add, Nat.cast_one]
    ring

theorem sumList_add (xs : List Pt) (f g : Pt → Rat) :
    sumList (xs.map fun v => f v + g v) = sumList (xs.map f) + sumList (xs.map g) := by
  induction xs with
  | nil => simp [sumList]
  | cons x rest ih => simp only [List.map_cons, sumList_cons, ih]; ring

theorem sumList_smul (xs : List Pt) (k : Rat) (f : Pt → Rat) :
    sumList (xs.map fun v => k * f v) = k * sumList (xs.map f) := by
  induction xs with
  | nil => simp [sumList]
  | cons x rest ih => simp only [List.map_cons, sumList_cons, ih]; ring

theorem sumList_const (xs : List Pt) (a : Rat) :
    sumList (xs.map fun _ => a) = (xs.length : Rat) * a := by
  induction xs with
  | nil => simp [sumList]
  | cons x rest ih => simp only [List.map_cons, sumList_cons, ih, List.length_cons, Nat.cast_add, Nat.cast_one]; ring

theorem polyMean_rot (ctr : Pt) (c s : Rat) (hu : c * c + s * s = 1) (vs : List Pt) (h : vs ≠ []) :
    polyMean (vs.map (rotAbout ctr c s)) = rotAbout ctr c s (polyMean vs) := by
  have hn : polyCore vs ≠ [] := polyCore_ne_nil vs h
  have hlen : ((polyCore vs).length : Rat) ≠ 0 := by
    have : (polyCore vs).length ≠ 0 := fun h0 => hn (List.length_eq_zero_iff.mp h0)
    exact_mod_cast this
  simp only [polyMean, polyCore_map _ (rotAbout_injective ctr c s hu), List.map_map, List.length_map]
  have e1 : ((fun x : Pt => x.1) ∘ rotAbout ctr c s) =
      fun v : Pt => (c * v.1 + (-(c * ctr.1) + s * ctr.2 + ctr.1)) + (-s) * v.2 := by
    funext v; simp only [Function.comp, rotAbout_fst]; ring
  have e2 : ((fun x : Pt => x.2) ∘ rotAbout ctr c s) =
      fun v : Pt => (s * v.1 + (-(s * ctr.1) - c * ctr.2 + ctr.2)) + c * v.2 := by
    funext v; simp only [Function.comp, rotAbout_snd]; ring
  rw [e1, e2]
  rw [sumList_add (polyCore vs) (fun v => c * v.1 + (-(c * ctr.1) + s * ctr.2 + ctr.1)) (fun v => (-s) * v.2),
    sumList_add (polyCore vs) (fun v => s * v.1 + (-(s * ctr.1) - c * ctr.2 + ctr.2)) (fun v => c * v.2),
    sumList_add (polyCore vs) (fun v => c * v.1) (fun _ => (-(c * ctr.1) + s * ctr.2 + ctr.1)),
    sumList_add (polyCore vs) (fun v => s * v.1) (fun _ => (-(s * ctr.1) - c * ctr.2 + ctr.2)),
    sumList_smul, sumList_smul, sumList_smul, sumList_smul, sumList_const, sumList_const]
  ext
  · simp only [rotAbout_fst]; field_simp; ring
  · simp only [rotAbout_snd]; field_simp; ring

theorem offsets_rot (ctr : Pt) (c s : Rat) (m : Pt) (vs : List Pt) :
    offsets (rotAbout ctr c s m) (vs.map (rotAbout ctr c s)) = (offsets m vs).map (rot c s) := by
  simp only [offsets, List.map_map]
  apply List.map_congr_left
  intro v _
  simp only [Function.comp, rot, rotAbout_fst, rotAbout_snd]
  ext <;> simp <;> ring

theorem shoelacePath_rot (c s : Rat) (hu : c * c + s * s = 1) (o : List Pt) :
    shoelacePath (o.map (rot c s)) = shoelacePath o := by
  induction o with
  | nil => rfl
  | cons a rest ih =>
    cases rest with
    | nil => rfl
    | cons b r =>
      simp only [List.map_cons, shoelacePath] at ih ⊢
      rw [ih]
      have : (rot c s a).1 * (rot c s b).2 - (rot c s a).2 * (rot c s b).1 =
          (c * c + s * s) * (a.1 * b.2 - a.2 * b.1) := by simp only [rot]; ring
      rw [this, hu, one_mul]

theorem polyAreaSigned_rot (ctr : Pt) (c s : Rat) (hu : c * c + s * s = 1) (vs : List Pt) (h : vs ≠ []) :
    polyAreaSigned (vs.map (rotAbout ctr c s)) = polyAreaSigned vs := by
  simp only [polyAreaSigned, polyMean_rot ctr c s hu vs h, offsets_rot, shoelacePath_rot c s hu,
    polyClosed_map _ (rotAbout_injective ctr c s hu), List.getLast?_map, List.head?_map]
  congr 2
  split
  · rfl
  · cases h1 : (offsets (polyMean vs) vs).getLast? <;> cases h2 : (offsets (polyMean vs) vs).head? <;>
      simp only [Option.map_none, Option.map_some]
    rename_i l f
    have : (rot c s l).1 * (rot c s f).2 - (rot c s l).2 * (rot c s f).1 =
        (c * c + s * s) * (l.1 * f.2 - l.2 * f.1) := by simp only [rot]; ring
    rw [this, hu, one_mul]

theorem centroidSum_rot (c s : Rat) (hu : c * c + s * s = 1) (l : Pt) (o : List Pt) :
    centroidSum (rot c s l) (o.map (rot c s)) = rot c s (centroidSum l o) := by
  induction o generalizing l with
  | nil => simp [centroidSum, rot]
  | cons b rest ih =>
    simp only [List.map_cons, centroidSum, ih]
    have hd : (rot c s l).1 * (rot c s b).2 - (rot c s l).2 * (rot c s b).1 =
        (l.1 * b.2 - l.2 * b.1) := by
      have : (rot c s l).1 * (rot c s b).2 - (rot c s l).2 * (rot c s b).1 =
        (c * c + s * s) * (l.1 * b.2 - l.2 * b.1) := by simp only [rot]; ring
      rw [this, hu, one_mul]
    rw [hd]
    simp only [rot]
    ext <;> simp <;> ring

theorem polyCentroid_rot (ctr : Pt) (c s : Rat) (hu : c * c + s * s = 1) (vs : List Pt) (h : vs ≠ []) :
    polyCentroid (vs.map (rotAbout ctr c s)) = rotAbout ctr c s (polyCentroid vs) := by
  simp only [polyCentroid, List.length_map, polyMean_rot ctr c s hu vs h,
    polyCore_map _ (rotAbout_injective ctr c s hu), offsets_rot, polyAreaSigned_rot ctr c s hu vs h,
    List.getLast?_map]
  split
  · rfl
  · cases hl : (offsets (polyMean vs) (polyCore vs)).getLast? with
    | none => rfl
    | some l =>
      simp only [Option.map_some, centroidSum_rot c s hu]
      ext
      · simp only [rot, rotAbout_fst]; ring
      · simp only [rot, rotAbout_snd]; ring

/-- **`center()` turns with the polygon**; in particular a rotation about the centre keeps it. -/
theorem polyCenter_rot (ctr : Pt) (c s : Rat) (hu : c * c + s * s = 1) (vs : List Pt) (h : vs ≠ []) :
    polyCenter (vs.map (rotAbout ctr c s)) = rotAbout ctr c s (polyCenter vs) := by
  simp only [polyCenter, polyAreaSigned_rot ctr c s hu vs h, polyMean_rot ctr c s hu vs h,
    polyCentroid_rot ctr c s hu vs h]
  split <;> rfl

theorem rotAbout_self (ctr : Pt) (c s : Rat) : rotAbout ctr c s ctr = ctr := by
  simp only [rotAbout, rot]
  ext <;> simp

end GlueVerif.Lemmas.Geometry
